"""C11 -- windowed and stateful streams equal a fold over the batch history.

case = (kind, w, s, ucode, k, batches, times)
  kind 0: queueStream(batches).window(w, s) with k capturing foreachRDD consumers
       1: queueStream(batches).countByWindow(w, s) with k consumers
       2: queueStream(batches).updateStateByKey(U[ucode]) with k consumers
       3: window(w, s) (consumers 0..k-1) and updateStateByKey(U[ucode]) (consumers k..2k-1) on ONE source
       4: countByWindow(w, s) (consumers 0..k-1) and, registered after it, updateStateByKey(U[ucode])
          (consumers k..2k-1) on ONE source
  times: the virtual clock value of every tick; w and s are in intervals (the batch duration d is 1, 0.5 or 0.1 s
         depending on the case and window()/countByWindow() are called with w*d, s*d; s = 1 with an even w uses the
         default slide).
The implementation side runs the real StreamingContext.start() under the virtual clock of vclock11 and fires the
callback once per tick; observed: the classes of ssc._dstreams, and per tick the (consumer, rdd.collect()) captures
plus the class name of an exception that ended the callback."""
import json
import os

import pysparkling
from pysparkling.streaming import StreamingContext
from pysparkling.streaming import dstream as _ds

from common.coqlit import Err, uncanon
from vclock11 import VClock

ID = 'C11'
KERNELS = ['Gen/Window.v: win_guard', 'Gen/Window.v: win_trim_cond', 'Gen/Window.v: win_counter_next',
           'Gen/Window.v: win_skip', 'Gen/Window.v: win_step_order', 'Gen/Window.v: win_counter_init/dstream_time_init',
           'Gen/Window.v: st_guard/tr_guard/src_guard', 'Gen/Window.v: tr_step_order/st_step_order/st_state_index_from_end', 'Gen/Window.v: tw_guard/tw_step_order']
SHARD = 250

WINDOW, COUNT, STATE, BOTH, COUNT_STATE, WIN_OVER, COUNT_OVER, SIBLINGS = 0, 1, 2, 3, 4, 5, 6, 7
KIND_NAMES = ['window', 'countByWindow', 'updateStateByKey', 'window+updateStateByKey', 'countByWindow+updateStateByKey',
              'window-over', 'countByWindow-over', 'sibling-views']
# parents of a window over a derived stream (case component pv)
PV_NAMES = ['map', 'filter', 'flatMap', 'mapValues', 'updateStateByKey', 'union', 'transform']
PV_KEYED = (3, 4)
U_NAMES = ['sum', 'last', 'count', 'append', 'history', 'idle', 'decay', 'reset', 'minopt', 'first', 'concat']


def INC(x):
    return x + 1 if type(x) is int else x


def EVEN(x):
    return type(x) is int and x % 2 == 0


def DUP(x):
    return [x, x]


def _minopt(vs, s):
    cand = [v for v in vs if v is not None] + ([s] if s is not None else [])
    return min(cand) if cand else None


# values may be None; sum and decay count a None value as 0
U = [
    lambda vs, s: (s if s is not None else 0) + sum(v or 0 for v in vs),
    lambda vs, s: s if not vs else vs[-1],                       # returns None when the last value is None
    lambda vs, s: (s or 0) + len(vs),
    lambda vs, s: (s or []) + vs,
    # u([], s) != s: these show whether the function is called with [] for a key that is absent in an interval
    lambda vs, s: (s or []) + [list(vs)],                        # one entry per interval since the key appeared
    lambda vs, s: 0 if vs else (s or 0) + 1,                     # intervals since the key last had data
    lambda vs, s: sum(v or 0 for v in vs) + (s or 0) // 2,       # a sum that halves every interval
    # these return None: a None state is a state, the key stays in the state RDD
    lambda vs, s: None if not vs else (s or 0) + len(vs),        # reset to None when the key is absent
    _minopt,                                                     # smallest non-None value so far, None while there is none
    # order-sensitive (next to last, append, history)
    lambda vs, s: s if s is not None else (vs[0] if vs else None),                          # first value ever seen
    lambda vs, s: (s or '') + ''.join(chr(97 + (v + 5) % 26) for v in vs if v is not None),    # string concatenation
]
NU = len(U)

RULE = ('cases (kind, w, s, update function, consumers k, queue contents, tick times): the doctest histories; exhaustive '
        'w 1..4 x s 1..3 x k 1..3 over a 6-tick history of singleton batches for window and countByWindow, and update '
        'function x k for a 6-tick keyed history; thorough tier: every empty/singleton batch pattern and queue length over 6 ticks '
        'for every (w, s), every presence pattern of two keys over 5 intervals for every update function; random histories of up to 8 ticks (queue shorter, equal or longer than the '
        'number of ticks; batches of 0-3 elements; keys 0..3 that disappear for several intervals), w 1..4, s 1..3, '
        'update functions sum/last/count/append/history/idle/decay/reset/minopt (history, idle, decay, reset change the state of an absent key; last, reset, minopt can return None), values that are None (20%), 1-3 consumers, strictly increasing tick times with gaps 1..3 and (5%) one '
        'repeated time; non-trivial = at least two ticks and a non-empty batch; distinct by canonical JSON of the case')
ASSUMPTIONS = [
    'tick times are integral floats (the guards only compare them; modelled as Z)',
    'window/slide durations are w*d, s*d for a batch duration d in {1, 0.5, 0.1} s, which int(round(x / d)) maps back to w, s',
    'update functions are pure and total on the generated data; how often they are invoked is not compared',
    'elements of keyed batches are (small int key, int-or-None value) pairs; the iteration order of the key set in '
    'RDD.cogroup is unspecified, so state RDDs are compared sorted by key',
    'exceptions raised inside the tick callback end that interval only (as tornado.ioloop.PeriodicCallback does)',
    'a window over the state stream is compared as emitted: CPython iterates set(d_self) | set(d_other) of the keys 0..3 in '
    'ascending order, which is the order of the model (the oracle itself only uses what the parent stream emitted)',
    'queue entries that are RDDs (sc.parallelize(data, n) [.map | .filter], n = 1..4, also n > len(data)): the model holds '
    'their collect(); count() is only applied to a window\'s union',
]
TRUSTED = ['translator/kernels/c11.py (guards, slide counter update, trimming condition, skip test, statement order, '
           'initial values of WindowedDStream)', 'py/vclock11.py (virtual clock: fake PeriodicCallback + clock object)']

CLASS_CODE = {_ds.DStream: 0, _ds.TransformedDStream: 1, _ds.WindowedDStream: 2, _ds.StatefulDStream: 3,
              _ds.TransformedWithDStream: 4}


def _unpack(c):
    """(kind, w, s, ucode, k, batches, times, pv, default, views): pv (parent variant of kinds 5/6) defaults to 0, default
    (the default= batch of queueStream) to None, views (kind 7: [(count?, w, s), ...]) to []."""
    c = tuple(c)
    return c + ((0,) if len(c) < 8 else ()) + ((None, []) if len(c) < 10 else ())


def _is_rdd_entry(e):
    """A queue entry is None (the producer marks an idle interval), a plain list, or (form, n, data): an RDD
    sc.parallelize(data, n) [form 1 .map(INC) | form 2 .filter(EVEN)]; form 9: the very same object as the previous entry."""
    return isinstance(e, tuple)


def _entry_data(e, prev=None):
    """What the interval's RDD holds, in partition order then position (None for an idle entry)."""
    if e is None:
        return None
    if not _is_rdd_entry(e):
        return list(e)
    form, _, data = e
    if form == 9:
        return prev
    if form == 1:
        return [INC(x) for x in data]
    if form == 2:
        return [x for x in data if EVEN(x)]
    return list(data)


def _history(c):
    """(data of every queue entry (None = idle), data of the default batch (None = no default))."""
    batches, default = _unpack(c)[5], _unpack(c)[8]
    out, prev = [], None
    for e in batches:
        prev = _entry_data(e, prev)
        out.append(prev)
    return (out, _entry_data(default))


def _queue_items(sc, entries):
    """The objects put into the queue: a form-9 entry is the SAME object as the one before it."""
    out = []
    for e in entries:
        out.append(out[-1] if _is_rdd_entry(e) and e[0] == 9 else _entry_queue_item(sc, e))
    return out


def _entry_queue_item(sc, e):
    if e is None:
        return None
    if not _is_rdd_entry(e):
        return list(e)
    form, n, data = e
    rdd = sc.parallelize(list(data), n)
    if form == 1:
        rdd = rdd.map(INC)
    elif form == 2:
        rdd = rdd.filter(EVEN)
    return rdd


def kind(c):
    knd, w, s, uc, k, batches, times, pv, default, views = _unpack(c)
    name = KIND_NAMES[knd]
    if default is not None:
        name += '/default'
    if any(e is None for e in batches):
        name += '/idle'
    if any(_is_rdd_entry(e) and e[0] == 9 for e in batches):
        name += '/same-object'
    if knd in (WIN_OVER, COUNT_OVER):
        name += '/' + PV_NAMES[pv]
    if knd in (STATE, BOTH, COUNT_STATE) or (knd in (WIN_OVER, COUNT_OVER) and pv == 4):
        name += '/' + U_NAMES[uc]
    if any(_is_rdd_entry(e) for e in batches):
        name += '/rdd-entries'
    return name + f'/k{k}'


def _capture(log, j, keyed):
    def f(rdd):
        if rdd is None:
            log.append((j, None))
        else:
            got = rdd.collect()
            if keyed:
                got = sorted(got, key=lambda kv: kv[0])
            log.append((j, got))
    return f


def _durations(c):
    """Batch duration and the window()/countByWindow() arguments of a case."""
    knd, w, s, uc, k = c[:5]
    d = (1.0, 0.5, 0.1)[(w + s + k) % 3]
    slide = None if (s == 1 and w % 2 == 0) else s * d
    return d, w * d, slide


def impl(c):
    knd, w, s, uc, k, batches, times, pv, default, views = _unpack(c)
    d, wd, sd = _durations(c)
    with VClock() as vc:
        sc = pysparkling.Context()
        ssc = StreamingContext(sc, d)
        log = []
        dflt = _entry_queue_item(sc, default)
        src = ssc.queueStream(_queue_items(sc, batches), default=dflt)
        if knd == WINDOW:
            x = src.window(wd, sd)
            for j in range(k):
                x.foreachRDD(_capture(log, j, False))
        elif knd == COUNT:
            x = src.countByWindow(wd, sd)
            for j in range(k):
                x.foreachRDD(_capture(log, j, False))
        elif knd == STATE:
            x = src.updateStateByKey(U[uc])
            for j in range(k):
                x.foreachRDD(_capture(log, j, True))
        elif knd in (BOTH, COUNT_STATE):
            x = src.window(wd, sd) if knd == BOTH else src.countByWindow(wd, sd)
            for j in range(k):
                x.foreachRDD(_capture(log, j, False))
            e = src.updateStateByKey(U[uc])
            for j in range(k):
                e.foreachRDD(_capture(log, k + j, True))
        elif knd in (WIN_OVER, COUNT_OVER):
            if pv == 0:
                parent = src.map(INC)
            elif pv == 1:
                parent = src.filter(EVEN)
            elif pv == 2:
                parent = src.flatMap(DUP)
            elif pv == 3:
                parent = src.mapValues(INC)
            elif pv == 4:
                parent = src.updateStateByKey(U[uc])
            elif pv == 5:
                parent = src.union(ssc.queueStream(_queue_items(sc, batches)[1:], default=_entry_queue_item(sc, default)))
            elif pv == 6:
                parent = src.transform(lambda rdd: rdd.map(INC))
            else:
                raise ValueError('pv')
            x = parent.window(wd, sd) if knd == WIN_OVER else parent.countByWindow(wd, sd)
            for j in range(k):
                x.foreachRDD(_capture(log, j, False))
            parent.foreachRDD(_capture(log, k, False))      # what the parent emits, as emitted
        elif knd == SIBLINGS:
            for j, (cnt, vw, vs) in enumerate(views):
                slide = None if (vs == 1 and vw % 2 == 0) else vs * d
                x = src.countByWindow(vw * d, slide) if cnt else src.window(vw * d, slide)
                x.foreachRDD(_capture(log, j, False))
        else:
            raise ValueError('kind')
        ssc.start()
        ticks = []
        for t in times:
            del log[:]
            err = vc.fire(float(t))
            ticks.append((list(log), err))
        kinds = [CLASS_CODE.get(type(x), 9) for x in ssc._dstreams]
    return (kinds, ticks)


# ---------------------------------------------------------------------------------------------------------------
# oracle: the statement of C11 evaluated on the captures alone

def _intervals(times):
    """Index of the interval every tick belongs to (1-based) or None for a tick whose clock value did not advance."""
    out, last, n = [], 0.0, 0
    for t in times:
        if t > last:
            n += 1
            last = t
            out.append(n)
        else:
            out.append(None)
    return out


def _interval(hist, n):
    """The data of interval n (1-based): the n-th queue entry (None: an idle entry), the default once the queue has run dry
    (None: no default).  Whatever the identity of the batch object, every interval counts."""
    entries, default = hist
    return entries[n - 1] if n - 1 < len(entries) else default


def _batch(hist, n):
    """The batch of interval n, in the order of the interval's RDD (partition order, then position)."""
    return list(_interval(hist, n) or [])


def _all_empty(hist, w, n):
    """Every interval of the window ending at n yielded an EmptyRDD (idle entry / queue dry without default): count() of
    their union may then be empty instead of [0]."""
    return all(_interval(hist, i) is None for i in range(max(1, n - w + 1), n + 1))


def _window_expected(hist, w, n):
    return [x for i in range(max(1, n - w + 1), n + 1) for x in _batch(hist, i)]


def _state_expected(hist, uc, n):
    """Per key seen in intervals 1..n: the update function folded over the key's value lists from the key's first
    interval to n, [] when absent, starting from None."""
    u = U[uc]
    state = {}
    for i in range(1, n + 1):
        b = _batch(hist, i)
        for key in sorted(set(state) | {kv[0] for kv in b}):
            vs = [kv[1] for kv in b if kv[0] == key]
            state[key] = u(vs, state.get(key))
    return sorted(state.items(), key=lambda kv: kv[0])


def _of(entries, j):
    return [c for (jj, c) in entries if jj == j]


def _oracle_over(c, r):
    """window / countByWindow over a derived stream: at every emitting interval the window holds exactly the in-order
    concatenation of the parent's most recent w batches AS THE PARENT EMITTED THEM (consumer k captures the parent)."""
    knd, w, s, uc, k, batches, times, pv, default, views = _unpack(c)
    hist = _history(c)
    hist2 = (hist[0][1:], hist[1])      # the second queue of the union variant
    _, ticks = r
    site = KIND_NAMES[knd] + ':' + PV_NAMES[pv]
    parent = {}    # interval -> what the parent emitted
    prev = {}
    for (entries, err), n in zip(ticks, _intervals(times)):
        if n is None:
            continue
        got_p = _of(entries, k)
        if len(got_p) != 1 or got_p[0] is None:
            return (f'{site}:parent-not-served', f'interval {n}: the consumer of the parent stream captured {got_p!r}'
                    + (f'; callback raised {err}' if err else ''))
        parent[n] = got_p[0]
        if pv == 4:
            want = _state_expected(hist, uc, n)
            if sorted(parent[n], key=lambda kv: kv[0]) != want:
                return (f'updateStateByKey:state:{U_NAMES[uc]}', f'interval {n}: the state stream emitted {parent[n]!r}, expected {want!r}')
        for j in range(k):
            got = _of(entries, j)
            if n % s == 0:
                win = [x for i in range(max(1, n - w + 1), n + 1) for x in parent[i]]
                if knd == COUNT_OVER:
                    # only a union of two exhausted queue sources is an EmptyRDD, whose count() is empty
                    all_exhausted = pv == 5 and _all_empty(hist, w, n) and _all_empty(hist2, w, n)
                    ok = got == [[len(win)]] or (all_exhausted and got == [[]])
                    want = [len(win)]
                else:
                    ok = got == [win]
                    want = win
                if not ok:
                    return (f'{site}:emission:' + ('slide>1' if s > 1 else 'slide=1'),
                            f'interval {n} (w={w}, s={s}, consumer {j} of {k}): captured {got!r}, expected one capture {want!r} '
                            f'= the parent\'s last {min(w, n)} batches {[parent[i] for i in range(max(1, n - w + 1), n + 1)]!r}'
                            + (f'; callback raised {err}' if err else ''))
                prev[j] = got[0]
            elif j not in prev:
                if any(x is not None for x in got):
                    return (f'{site}:early-emission', f'interval {n} (w={w}, s={s}): captured {got!r} before interval {s}')
            elif got and got != [prev[j]]:
                return (f'{site}:changed-between-emissions',
                        f'interval {n} (w={w}, s={s}, consumer {j}): captured {got!r}, last emission was {prev[j]!r}')
    return None


def _oracle_siblings(c, r):
    """Sibling windowed views of one source: EACH view (consumer j), independently of the others, emits every s_j intervals
    exactly the concatenation (count: the number of elements) of the source's most recent w_j batches."""
    knd, w, s, uc, k, batches, times, pv, default, views = _unpack(c)
    hist = _history(c)
    _, ticks = r
    prev = {}
    for (entries, err), n in zip(ticks, _intervals(times)):
        if n is None:
            continue
        for j, (cnt, vw, vs) in enumerate(views):
            got = _of(entries, j)
            site = f'sibling-views:{"countByWindow" if cnt else "window"}'
            if n % vs == 0:
                win = _window_expected(hist, vw, n)
                if cnt:
                    ok = got == [[len(win)]] or (_all_empty(hist, vw, n) and got == [[]])
                    want = [len(win)]
                else:
                    ok = got == [win]
                    want = win
                if not ok:
                    return (f'{site}:emission:' + ('slide>1' if vs > 1 else 'slide=1'),
                            f'interval {n}: view {j} = {"countByWindow" if cnt else "window"}({vw}, {vs}) of the views {views!r} '
                            f'captured {got!r}, expected one capture {want!r}' + (f'; callback raised {err}' if err else ''))
                prev[j] = got[0]
            elif j not in prev:
                if any(x is not None for x in got):
                    return (f'{site}:early-emission', f'interval {n}: view {j} ({vw}, {vs}) captured {got!r} before interval {vs}')
            elif got and got != [prev[j]]:
                return (f'{site}:changed-between-emissions',
                        f'interval {n}: view {j} ({vw}, {vs}) captured {got!r}, last emission was {prev[j]!r}')
    return None


def oracle(c, r):
    knd, w, s, uc, k, batches, times, pv, default, views = _unpack(c)
    if isinstance(r, Err):
        return (f'{KIND_NAMES[knd]}:harness-error:{r.name}', 'the program could not be run')
    if knd in (WIN_OVER, COUNT_OVER):
        return _oracle_over(c, r)
    if knd == SIBLINGS:
        return _oracle_siblings(c, r)
    hist = _history(c)
    _, ticks = r
    iv = _intervals(times)
    site = KIND_NAMES[knd]
    prev = {}     # consumer -> capture of the previous interval
    for (entries, err), n in zip(ticks, iv):
        if n is None:
            continue
        emitting = n % s == 0
        # window / countByWindow consumers
        if knd in (WINDOW, COUNT, BOTH, COUNT_STATE):
            wsite = 'window' if knd == BOTH else 'countByWindow' if knd == COUNT_STATE else site
            for j in range(k):
                got = _of(entries, j)
                if emitting:
                    win = _window_expected(hist, w, n)
                    if knd in (COUNT, COUNT_STATE):
                        all_exhausted = _all_empty(hist, w, n)
                        ok = got == [[len(win)]] or (all_exhausted and got == [[]])
                        want = [len(win)]
                    else:
                        ok = got == [win]
                        want = win
                    if not ok:
                        pred = 'slide>1' if s > 1 else 'slide=1'
                        return (f'{wsite}:emission:{pred}',
                                f'interval {n} (w={w}, s={s}, consumer {j} of {k}): captured {got!r}, expected one capture {want!r}'
                                + (f'; callback raised {err}' if err else ''))
                    prev[j] = got[0]
                else:
                    if j not in prev:
                        # before the first emission: nothing may be emitted (None or no capture at all)
                        if any(x is not None for x in got):
                            return (f'{wsite}:early-emission', f'interval {n} (w={w}, s={s}): captured {got!r} before interval {s}')
                    elif got and got != [prev[j]]:
                        return (f'{wsite}:changed-between-emissions',
                                f'interval {n} (w={w}, s={s}, consumer {j}): captured {got!r}, last emission was {prev[j]!r}')
        if knd in (STATE, BOTH, COUNT_STATE):
            want = _state_expected(hist, uc, n)
            for j in (range(k) if knd == STATE else range(k, 2 * k)):
                got = _of(entries, j)
                if got != [want]:
                    return (f'updateStateByKey:state:{U_NAMES[uc]}',
                            f'interval {n} (consumer {j}, {k} consumers): captured {got!r}, expected one capture {want!r}'
                            + (f'; callback raised {err}' if err else ''))
    return None


def nontrivial(c, r):
    return len(c[6]) >= 2 and (any(b for b in _history(c)[0]) or bool(_history(c)[1]))


# ---------------------------------------------------------------------------------------------------------------
# generation

def _times(rng, n):
    ts, t = [], 0
    for _ in range(n):
        t += rng.choice([1, 1, 1, 2, 3])
        ts.append(t)
    if n >= 2 and rng.random() < 0.05:
        i = rng.randrange(1, n)
        ts[i] = ts[i - 1]
    return ts


def _plain_batches(rng, n):
    return [[rng.randint(0, 9) for _ in range(rng.choice([0, 1, 1, 2, 3]))] for _ in range(n)]


def _keyed_batches(rng, n):
    out = []
    live = rng.sample(range(4), rng.randint(1, 4))
    for _ in range(n):
        if rng.random() < 0.25:
            live = rng.sample(range(4), rng.randint(1, 3))   # some keys disappear for a while
        if out and rng.random() < 0.25:
            out.append([])                                   # a wholly empty interval after keys have appeared
        else:
            out.append([(rng.choice(live), None if rng.random() < 0.2 else rng.randint(-5, 9))
                        for _ in range(rng.choice([0, 1, 2, 2, 3]))])
    return out


def _as_rdd_entries(rng, batches, keyed):
    """Some queue entries become RDDs with several partitions (also more partitions than elements); entries of plain
    batches may also be derived RDDs (rdd.map / rdd.filter)."""
    out = []
    for b in batches:
        if isinstance(b, tuple):
            out.append(b)
        elif rng.random() < 0.4:
            form = 0 if keyed else rng.choice([0, 0, 1, 2])
            out.append((form, rng.randint(1, 4) if b else rng.randint(2, 3), b))
        else:
            out.append(b)
    return out


def _spread_keyed_batch(rng):
    """A keyed batch for sc.parallelize(data, n): some key has values in several partitions and the later partitions
    hold more distinct keys than the earlier ones."""
    hot = rng.randrange(4)
    others = [x for x in range(4) if x != hot]
    rng.shuffle(others)
    n = rng.randint(2, 4)
    data = [(hot, rng.randint(-5, 9)) for _ in range(rng.randint(1, 3))]
    for i in range(1, n):
        part = [(hot, None if rng.random() < 0.15 else rng.randint(-5, 9))] + [(o, rng.randint(-5, 9)) for o in others[:i]]
        rng.shuffle(part)
        data += part
    return (0, n, data)


def _random_case(rng):
    knd = rng.choice([WINDOW, WINDOW, WINDOW, COUNT, COUNT, COUNT, STATE, STATE, STATE, STATE, BOTH, BOTH, COUNT_STATE,
                      WIN_OVER, WIN_OVER, WIN_OVER, COUNT_OVER, SIBLINGS, SIBLINGS, SIBLINGS])
    nt = rng.randint(1, 8)
    nb = max(0, nt + rng.choice([-3, -2, -1, 0, 0, 0, 1]))
    w, s, uc, k = rng.randint(1, 4), rng.randint(1, 3), rng.randrange(NU), rng.randint(1, 3)
    pv = rng.randrange(len(PV_NAMES))
    keyed = knd in (STATE, BOTH, COUNT_STATE) or (knd in (WIN_OVER, COUNT_OVER) and pv in PV_KEYED)
    batches = _keyed_batches(rng, nb) if keyed else _plain_batches(rng, nb)
    if keyed:
        batches = [_spread_keyed_batch(rng) if b and rng.random() < 0.25 else b for b in batches]
    batches = _as_rdd_entries(rng, [b for b in batches], keyed) if rng.random() < 0.6 else batches
    default, views = None, []
    special = rng.random()
    if special < 0.3:
        # a default batch (handed out, converted once, whenever the queue is empty), the run going on past the queue's end
        d = (_keyed_batches(rng, 1) if keyed else _plain_batches(rng, 1))[0] or ([(0, 1)] if keyed else [1])
        default = (0, rng.randint(1, 3), d) if rng.random() < 0.5 else d
        nb = min(nb, max(0, nt - rng.randint(2, 4)))
        batches = batches[:nb]
    if special < 0.45 and batches:
        # explicit idle intervals: None entries (an EmptyRDD, not the default)
        for _ in range(rng.randint(1, 2)):
            batches = list(batches)
            batches.insert(rng.randrange(len(batches) + 1), None)
    if 0.25 < special < 0.6:
        # a producer puts the same RDD object into the queue two or three times
        idx = [i for i, b in enumerate(batches) if isinstance(b, tuple) and b[0] != 9]
        if idx:
            i = rng.choice(idx)
            batches = batches[:i + 1] + [(9, 0, [])] * rng.randint(1, 2) + batches[i + 1:]
    if knd == SIBLINGS:
        views = _random_views(rng)
    if default is not None or knd == SIBLINGS:
        return (knd, w, s, uc, k, batches, _times(rng, nt), pv, default, views)
    if knd in (WIN_OVER, COUNT_OVER):
        return (knd, w, s, uc, k, batches, _times(rng, nt), pv)
    return (knd, w, s, uc, k, batches, _times(rng, nt))


def _random_views(rng):
    """Two or three windowed views of one source: same length with different slides (mostly), same slide with different
    lengths, identical pairs; window() and countByWindow() mixed; in either order."""
    mode = rng.random()
    n = rng.choice([2, 2, 3])
    if mode < 0.6:
        w = rng.randint(1, 4)
        slides = rng.sample([1, 2, 3], n)
        views = [(rng.random() < 0.5, w, s) for s in slides]
    elif mode < 0.8:
        s = rng.randint(1, 3)
        views = [(rng.random() < 0.5, w, s) for w in rng.sample([1, 2, 3, 4], n)]
    else:
        v = (rng.random() < 0.5, rng.randint(1, 4), rng.randint(1, 3))
        views = [v] * n
    rng.shuffle(views)
    return views


DOCTESTS = [
    (WINDOW, 3, 1, 0, 1, [[1], [2], [3], [4], [5], [6]], [1, 2, 3, 4, 5, 6]),
    (COUNT, 2, 1, 0, 1, [[1, 1, 5], [5, 5, 2, 4], [1, 2]], [1, 2, 3]),
    (STATE, 1, 1, 1, 1, [[(0, 1), (1, 3)], [(0, 2), (2, 4)]], [1, 2]),
    (STATE, 1, 1, 0, 1, [[(0, 1)], [(0, 2), (1, 4), (1, 3)]], [1, 2]),
    # the history of the repaired defect (slide longer than the interval, several consumers)
    (WINDOW, 3, 2, 0, 2, [[1], [2], [3], [4], [5]], [1, 2, 3, 4, 5, 6, 7]),
    # a key that disappears for several intervals
    (STATE, 1, 1, 3, 2, [[(0, 1), (1, 2)], [], [], [(1, 5)], [], [(0, 7), (0, 8)]], [1, 2, 3, 4, 5, 6, 7]),
]


def _corpus():
    d = os.path.join(os.environ.get('VERIF_ROOT', '/verif'), 'corpus', ID)
    out = []
    if os.path.isdir(d):
        for fn in sorted(os.listdir(d)):
            if fn.endswith('.json'):
                out.append(_tuplify(uncanon(json.load(open(os.path.join(d, fn)))['case'])))
    return out


def _tuplify(c):
    def elems(b):
        return [tuple(x) if isinstance(x, (list, tuple)) else x for x in b]

    def entry(b):
        if b is None:
            return None
        return (b[0], b[1], elems(b[2])) if isinstance(b, tuple) else elems(b)
    c = tuple(c)
    rest = c[7:]
    if len(rest) >= 3:
        rest = (rest[0], entry(rest[1]), [tuple(v) for v in rest[2]])
    return c[:5] + ([entry(b) for b in c[5]], list(c[6])) + rest


def generate(rng, tier):
    cases = _corpus() + list(DOCTESTS)
    six = [[i] for i in range(1, 7)]
    keyed6 = [[(0, 1), (1, 2)], [(0, 3)], [], [(2, 4), (0, 5), (2, 6)], [], [(1, 7)]]
    for w in range(1, 5):
        for s in range(1, 4):
            for k in range(1, 4):
                cases.append((WINDOW, w, s, 0, k, six, [1, 2, 3, 4, 5, 6]))
                cases.append((COUNT, w, s, 0, k, six, [1, 2, 3, 4, 5, 6]))
                cases.append((BOTH, w, s, (w + 2 * s + 3 * k) % NU, k, keyed6, [1, 2, 3, 4, 5, 6]))
    # a key that is absent for several intervals after it appeared, wholly empty intervals, a queue that runs dry
    gaps = [[(0, 3), (1, 4)], [], [], [(1, 5)], [], [], [(0, -2), (0, 6)]]
    nones = [[(0, None), (0, 3), (1, 4), (2, None)], [(0, 1), (0, None), (0, 2), (1, 5), (1, None)], [], [(1, None)],
             [(0, 7), (2, None)]]
    for uc in range(NU):
        for k in range(1, 4):
            cases.append((STATE, 1, 1, uc, k, keyed6, [1, 2, 3, 4, 5, 6]))
        cases.append((STATE, 1, 1, uc, 2, gaps, [1, 2, 3, 4, 5, 6, 7, 8, 9]))
        cases.append((STATE, 1, 1, uc, 1, [[(7, 1)]], [1, 2, 3, 4]))
        # None values: first, middle, last, only element of a key's list in an interval; a key that only ever has None
        cases.append((STATE, 1, 1, uc, 2, nones, [1, 2, 3, 4, 5, 6]))
        cases.append((STATE, 1, 1, uc, 1, [[(0, 3), (0, None)]], [1, 2]))
        cases.append((STATE, 1, 1, uc, 1, [[(0, None)], [], [(0, 2)]], [1, 2, 3]))
        cases.append((COUNT_STATE, 2, 2, uc, 1, gaps, [1, 2, 3, 4, 5, 6, 7, 8]))
    # queue exhausted before / after the ticks end, empty batches
    for knd in (WINDOW, COUNT):
        for w, s in ((2, 1), (3, 2), (4, 3), (1, 2)):
            cases.append((knd, w, s, 0, 2, [[1, 2], [], [3]], [1, 2, 3, 4, 5, 6, 7, 8]))
            cases.append((knd, w, s, 0, 1, [[], [], []], [1, 2, 3, 4, 5, 6]))
            cases.append((knd, w, s, 0, 1, [], [1, 2, 3, 4]))
    # (a) batches that are RDDs with several partitions: a key with values in several partitions, later partitions with
    #     more distinct keys, empty partitions, an RDD without elements; every (order-sensitive) update function
    spread = [(0, 2, [(0, 1), (0, 2), (1, 3), (0, 4), (1, 5), (2, 6), (3, 7), (0, 8)]),
              (0, 3, [(2, 1), (2, None), (0, 3), (2, 4), (1, 5), (3, 6), (0, 7), (2, 8), (1, 9)]),
              (0, 4, [(1, 1)]),
              (0, 3, []),
              (0, 4, [(3, 2), (0, 3), (3, 4), (1, 5), (2, 6), (3, 7), (0, 8), (1, 9), (2, -1), (3, -2)])]
    for uc in range(NU):
        cases.append((STATE, 1, 1, uc, 1 + uc % 3, spread, [1, 2, 3, 4, 5, 6]))
        cases.append((BOTH, 2, 1 + uc % 2, uc, 1, spread, [1, 2, 3, 4, 5, 6]))
    for w, s in ((1, 1), (2, 1), (3, 2), (2, 3)):
        parts = [(0, 3, [1, 2, 3, 4, 5]), (0, 4, [6]), (0, 2, []), (1, 2, [7, 8, 9]), (2, 3, [1, 2, 3, 4]), [5, 6]]
        cases.append((WINDOW, w, s, 0, 2, parts, [1, 2, 3, 4, 5, 6, 7]))
        cases.append((COUNT, w, s, 0, 1, parts, [1, 2, 3, 4, 5, 6, 7]))
    # (b) windows over derived streams: every parent variant x (w, s), plain and RDD entries, queue running dry
    plain7 = [[1, 2], [3], [], [4, 5, 6], (0, 3, [7, 8, 9, 10]), [11]]
    keyed7 = [[(0, 1), (1, 2)], (0, 2, [(1, 3), (0, 4), (2, 5)]), [], [(2, None), (0, 6)], [(3, 7)]]
    for pv in range(len(PV_NAMES)):
        for w, s in ((1, 1), (2, 1), (3, 1), (2, 2), (3, 2), (4, 3), (1, 3)):
            b = keyed7 if pv in PV_KEYED else plain7
            ucs = range(NU) if (pv == 4 and (w, s) in ((2, 1), (3, 2))) else [(w + s + pv) % NU]
            for uc in ucs:
                cases.append((WIN_OVER, w, s, uc, 1 + (w + s) % 2, b, [1, 2, 3, 4, 5, 6, 7, 8], pv))
                if (w + s) % 2 == 0 or pv == 5:
                    cases.append((COUNT_OVER, w, s, uc, 1, b, [1, 2, 3, 4, 5, 6, 7, 8], pv))
    # round 5 (a): the SAME RDD object at consecutive intervals -- a default batch running 3+ intervals past the end of the
    #     queue (converted once), and one RDD object put into the queue twice; state, windows, a window over the state
    T9 = [1, 2, 3, 4, 5, 6, 7, 8, 9]
    for uc in range(NU):
        for dflt in ([(0, 1), (1, 2), (0, 3)], (0, 2, [(1, 5), (0, None), (1, 7)])):
            cases.append((STATE, 1, 1, uc, 1 + uc % 2, [[(0, 4)], [(2, 6)]], T9[:6], 0, dflt, []))
        cases.append((STATE, 1, 1, uc, 1, [[(0, 4)], (0, 2, [(1, 5), (0, 6), (1, 7)]), (9, 0, []), (9, 0, []), [(2, 8)]], T9[:7], 0, None, []))
        cases.append((WIN_OVER, 2, 1 + uc % 2, uc, 1, [[(0, 4)], (0, 2, [(1, 5), (0, 6)]), (9, 0, [])], T9[:7], 4, [(0, 1), (1, 2)], []))
    for knd in (WINDOW, COUNT):
        for w, s in ((1, 1), (2, 1), (3, 2), (2, 3), (4, 1)):
            cases.append((knd, w, s, 0, 1, [[1, 2], [3]], T9, 0, [7, 8], []))
            cases.append((knd, w, s, 0, 2, [(0, 3, [1, 2, 3]), (9, 0, []), (9, 0, []), [4]], T9[:7], 0, (1, 2, [5, 6]), []))
    # round 5 (c): a None entry (explicit idle interval: an EMPTY batch, not the default) together with a default
    for knd in (WINDOW, COUNT):
        for w, s in ((1, 1), (2, 1), (3, 1), (2, 2), (3, 2)):
            cases.append((knd, w, s, 0, 1, [[1], None, [2, 3], None, None], T9, 0, [9], []))
            cases.append((knd, w, s, 0, 1, [None, None, [1]], T9[:6], 0, None, []))
    for uc in range(NU):
        cases.append((STATE, 1, 1, uc, 1, [[(0, 1), (1, 2)], None, [(1, 3)], None], T9[:7], 0, [(2, 4), (0, 5)], []))
        cases.append((COUNT_STATE, 2, 2, uc, 1, [[(0, 1)], None, None, [(0, 2)]], T9[:7], 0, [(1, 1)], []))
    # round 5 (b): sibling windowed views of one source -- same length / different slides in either order, window() next to
    #     countByWindow(), same slide / different lengths and identical pairs as controls
    six9 = [[1], [2, 3], [], [4], [5, 6], [7]]
    sib = [[(False, 2, 1), (True, 2, 2)], [(True, 2, 2), (False, 2, 1)], [(False, 3, 3), (False, 3, 1)],
           [(False, 3, 1), (False, 3, 3)], [(False, 2, 1), (False, 2, 2), (False, 2, 3)], [(True, 3, 2), (True, 3, 1)],
           [(False, 1, 2), (True, 1, 1), (False, 1, 3)], [(False, 4, 2), (True, 4, 3)],
           [(False, 2, 2), (False, 3, 2)], [(True, 1, 1), (True, 4, 1), (False, 2, 1)], [(False, 2, 2), (False, 2, 2)],
           [(True, 3, 1), (True, 3, 1)], [(True, 2, 1), (False, 2, 1)]]
    for vs in sib:
        cases.append((SIBLINGS, 1, 1, 0, 1, six9, T9[:8], 0, None, vs))
        cases.append((SIBLINGS, 1, 1, 0, 1, [[1], None, (0, 2, [2, 3]), (9, 0, [])], T9[:8], 0, [9], vs))
    # the history of the repaired defect 7e069b7 (regression; also in corpus/C11) and its variant with slide 1
    cases.append((COUNT_STATE, 2, 2, 0, 1, [[(0, 1)], [(0, 2)], [(0, 3)], [(0, 4)]], [1, 2, 3, 4]))
    cases.append((COUNT_STATE, 2, 1, 0, 1, [[(0, 1)], [(0, 2)], [(0, 3)], [(0, 4)]], [1, 2, 3, 4]))
    if tier == 'thorough':
        # exhaustive: every pattern of empty / singleton batches and every queue length over 6 ticks
        for w in range(1, 5):
            for s in range(1, 4):
                k = 1 + (w + s) % 3
                for mask in range(64):
                    full = [[i + 1] if mask >> i & 1 else [] for i in range(6)]
                    nb = 6 if mask % 3 else mask % 7
                    cases.append((WINDOW, w, s, 0, k, full[:nb], [1, 2, 3, 4, 5, 6]))
                    cases.append((COUNT, w, s, 0, k, full[:nb], [1, 2, 3, 4, 5, 6]))
        # exhaustive: presence patterns of two keys over 5 intervals, every update function
        for uc in range(NU):
            for m0 in range(32):
                for m1 in range(32):
                    b = [([(0, i + 1)] if m0 >> i & 1 else [])
                         + ([(1, 10 + i), (1, None if (m0 + i) % 3 == 0 else -i)] if m1 >> i & 1 else [])
                         for i in range(5)]
                    cases.append((STATE, 1, 1, uc, 1 + (m0 + m1) % 3, b, [1, 2, 3, 4, 5, 6]))
    for _ in range(1000 if tier == 'quick' else 10000):
        cases.append(_random_case(rng))
    return cases


def shrink_candidates(c):
    knd, w, s, uc, k, batches, times, pv, default, views = _unpack(c)
    n_extra = len(c) - 7

    def mk(knd=knd, w=w, s=s, uc=uc, k=k, batches=batches, times=times, default=default, views=views):
        tail = (pv, default, views) if (n_extra >= 3 or default is not None or views) else ((pv,) if n_extra >= 1 else ())
        return (knd, w, s, uc, k, batches, times) + tail
    if len(times) > 1:
        yield mk(times=times[:-1])
    if k > 1:
        yield mk(k=1)
        yield mk(k=k - 1)
    if len(views) > 1:
        for i in range(len(views)):
            yield mk(views=views[:i] + views[i + 1:])
    if default is not None:
        yield mk(default=None)
        if _is_rdd_entry(default):
            yield mk(default=_entry_data(default))
        elif len(default) > 1:
            yield mk(default=default[:-1])
    if len(batches) > 0 and not (len(batches) > 1 and _is_rdd_entry(batches[-1]) and batches[-1][0] == 9 and False):
        yield mk(batches=batches[:-1])
    hist = _history(c)[0]
    for i, b in enumerate(batches):
        nxt_same = i + 1 < len(batches) and _is_rdd_entry(batches[i + 1]) and batches[i + 1][0] == 9
        if b is None:
            yield mk(batches=batches[:i] + batches[i + 1:])
        elif _is_rdd_entry(b):
            form, n, data = b
            if form == 9:
                yield mk(batches=batches[:i] + batches[i + 1:])
                continue
            if nxt_same:
                continue
            yield mk(batches=batches[:i] + [hist[i]] + batches[i + 1:])      # the same data as a plain list
            if n > 2:
                yield mk(batches=batches[:i] + [(form, n - 1, data)] + batches[i + 1:])
            for j in range(len(data)):
                yield mk(batches=batches[:i] + [(form, n, data[:j] + data[j + 1:])] + batches[i + 1:])
        elif not nxt_same:
            for j in range(len(b)):
                yield mk(batches=batches[:i] + [b[:j] + b[j + 1:]] + batches[i + 1:])
    if w > 1:
        yield mk(w=w - 1)
    if s > 1:
        yield mk(s=s - 1)
    if knd in (BOTH, COUNT_STATE):
        yield mk(knd=WINDOW)
        yield mk(knd=STATE)
    norm = list(range(1, len(times) + 1))
    if times != norm:
        yield mk(times=norm)
