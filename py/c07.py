"""C07 -- partition layout contracts of parallelize, coalesce, repartition, partitionBy,
mapPartitionsWithIndex and zipWithUniqueId; seed independence of the default partitioner.

case = (kind, ...):
  (0, src, ops)       pipeline: src = (0, xs, n) parallelize(xs, n) | (1, parts) _parallelize_partitions(parts)
                                    | (2, N, n) parallelize(range(N), n)
                                ops = (0, m) coalesce | (1, m) repartition | (2, n, fcode) partitionBy
                                    | (3,) zipWithUniqueId | (4,) mapPartitionsWithIndex(tag with index)
                                    | (5, c) map | (6, c) flatMap | (7, c) keyBy | (8,) mapValues | (9,) persist
                                    | (10,) zipWithIndex | (11, i, where) a stage that raises once in the task of
                                      partition i | (12,) index tag whose function logs the index of every call
                      -> (getNumPartitions(), glom().collect(), indices seen by mapPartitionsWithIndex)
  (1, N, n)           summary of parallelize(range(N), n): [(count, first)] per partition
  (2, key)            (portable_hash(key), rdd._hash(key))
  (4, src, ops)       as (0, ...) with a transient fault stage and at most one logging stage (in the last lazy
                      segment) -> (num, glom, indices, indices logged per attempt during the final job)
  (3, N, n, probes)   parallelize(range(N), n) with many slices; only the probed slices go to Coq,
                      the oracle looks at all of them
"""
import decimal
import json
import math
import os
import subprocess
import sys

from common.coqlit import Err, canon, to_val, uncanon
from pysparkling import Context
from pysparkling import rdd as rdd_mod
from pysparkling.utils import portable_hash

ID = 'C07'
KERNELS = ['Gen/Parallelize.v: par_take', 'Gen/Parallelize.v: par_single', 'Gen/Layout.v: coalesce_plan',
           'Gen/Layout.v: unique_id', 'Gen/Layout.v: rdd_hash_mask', 'Gen/Layout.v: partition_index',
           'Gen/Layout.v: strhash', 'Gen/Layout.v: tuplehash']
SHARD = 150
RULE = ('pipelines source + ops observed through getNumPartitions/glom().collect()/mapPartitionsWithIndex: every length '
        '0..N x slice count 1..N+3 (N=14 quick, 40 thorough) plus None/0/negative counts; every (current, target) pair '
        'up to 10x13 (quick) / 30x33 (thorough) for coalesce and for repartition, sources with empty partitions; '
        'random pipelines of 1-4 ops (coalesce, repartition, partitionBy with 7 partition functions, zipWithUniqueId, '
        'index tagging) incl. error cases (target <= 0, zero partitions, non-pair elements); key lists over None/bool/'
        'int/float/str/nested tuples x partition counts; virtual inputs range(N) up to 3*10^6 elements and 10^6 slices '
        'summarised as (count, first) per slice; hashes of keys of the portable domain.  Additionally every hash and '
        'default-partitioner case is re-run in child interpreters under 5 PYTHONHASHSEED values and each child result is '
        'compared with the Coq value.  Sequences: partitionBy(n, f) -> key-changing lazy transformations (map swap / '
        'wrap / key+1, flatMap, keyBy, zipWithUniqueId, index tag; mapValues and persist as controls) -> partitionBy with '
        'the same n and the same function object (controls: other n, other f), two- and three-fold (250 quick / 3000 '
        'thorough), judged on the final layout with no action in between.  Transient faults: a stage raises once in the '
        'task of partition i (before the first element, after the first, at the end; i in and out of range) below or above '
        'zipWithUniqueId / a logging mapPartitionsWithIndex stage, before zipWithIndex / partitionBy / coalesce / '
        'repartition (250 / 3000); contents read through Context.runJob so that the last stage is the outermost one; the '
        'indices logged on every attempt are compared with the model (run_task/run_job).  Equal-but-distinguishable '
        'keys: datasets with at least two of 1 / 1.0 / True / Decimal(1.0), 0 / 0.0 / -0.0 / False / Decimal(0.00), 2 / 2.0 / '
        'Decimal(2.00) ... under partition functions len(type(k).__name__), len(repr(k)), len(str(k)) and the default one, '
        'also repeated and after swap / keyBy / flatMap (200 / 2500).  Partition subsets: zipWithUniqueId / logging '
        'mapPartitionsWithIndex / tag stages (optionally after coalesce / repartition / partitionBy / zipWithIndex) '
        'evaluated by ONE Context.runJob(rdd, func, partitions=[...]) on [n-1], [1,3], [2,0], reversed, random '
        'sub-permutations, [] (200 / 2500), compared per partition with the full job.  non-trivial = more than one partition on either side of some op, or a non-None '
        'hash key; distinct by canonical JSON of the case')
ASSUMPTIONS = [
    '64-bit CPython: sys.maxsize = 2^63-1, sys.hash_info.modulus = 2^61-1 (asserted at import)',
    'int(a / b) = a // b for 0 <= a < 2^53, b > 0 (float division then truncation; sampled on the running interpreter by '
    'extra_checks); parallelize on inputs with len * numSlices >= 2^53 is outside the model',
    'hash(float) of NaN is identity based (not in the portable domain, never generated)',
    'partition functions and elements come from the finite library below; the theorems quantify over all functions val -> Z',
]
TRUSTED = ['translator/kernels/core.py kernels par_take, par_single, coalesce_plan, unique_id, rdd_hash_mask, '
           'partition_index, strhash_*, tuplehash_*',
           'FloatOps.Prim2SF as the meaning of a float (mantissa, exponent) for hash(float)']

assert sys.maxsize == 2 ** 63 - 1 and sys.hash_info.modulus == 2 ** 61 - 1

FUNCS = {
    0: None,                      # default partitioner rdd._hash
    1: lambda k: k,
    2: lambda k: -k,
    3: lambda k: k // 3,
    4: lambda k: k * k + 1,
    5: lambda k: 0,
    6: len,
    # functions that DISTINGUISH keys which compare (and hash) equal: 1 / 1.0 / True / Decimal('1.0') ...
    7: lambda k: len(type(k).__name__),
    8: lambda k: len(repr(k)),
    9: lambda k: len(str(k)),
}
DEC = '$dec'


def thaw(o):
    """Cases carry a decimal.Decimal as the tagged tuple ('$dec', str(d))."""
    if isinstance(o, tuple):
        if len(o) == 2 and o[0] == DEC and isinstance(o[1], str):
            return decimal.Decimal(o[1])
        return tuple(thaw(x) for x in o)
    if isinstance(o, list):
        return [thaw(x) for x in o]
    return o


def freeze(o):
    if isinstance(o, decimal.Decimal):
        return (DEC, str(o))
    if isinstance(o, tuple):
        return tuple(freeze(x) for x in o)
    if isinstance(o, list):
        return [freeze(x) for x in o]
    return o


SEEDS_FIXED = ['1', '2', '4242', '123456789']


# ---------------------------------------------------------------------------------- implementation

def _source(ctx, src):
    if src[0] == 0:
        return ctx.parallelize(thaw(list(src[1])), src[2])
    if src[0] == 1:
        # noinspection PyProtectedMember
        return ctx._parallelize_partitions([thaw(list(p)) for p in src[1]])  # pylint: disable=protected-access
    return ctx.parallelize(range(src[1]), src[2])


def _tag(i, it):
    return ((i, x) for x in it)


MAPS = {
    0: lambda kv: (kv[1], kv[0]),
    1: lambda kv: ((kv[0],), kv[1]),
    2: lambda kv: (kv[0] + 1, kv[1]),
    3: lambda x: (x, x),
}
FLATMAPS = {
    0: lambda kv: [kv, (kv[1], kv[0])],
    1: lambda x: [x, x],
}
KEYBYS = {
    0: lambda e: e[1],
    1: lambda e: 0,
    2: lambda e: e,
    3: lambda e: e % 3,
}


def _wrap_value(v):
    return (v,)


MATERIALISING = (0, 1, 2, 10)


class Transient(RuntimeError):
    pass


class Applier:
    """Applies ops to a dataset; owns the state of the fault stage (fires once) and the index log."""

    def __init__(self):
        self.fired = False
        self.log = []

    def _faulty(self, fi, where):
        def faulty(idx, it):
            mine = idx == fi
            if mine and where == 0 and not self.fired:
                self.fired = True
                raise Transient('transient fault before the first element')
            n = 0
            for x in it:
                yield x
                n += 1
                if mine and where == 1 and n == 1 and not self.fired:
                    self.fired = True
                    raise Transient('transient fault after the first element')
            if mine and not self.fired:
                self.fired = True
                raise Transient('transient fault at the end of the partition')
        return faulty

    def _log_tag(self, i, it):
        self.log.append(i)
        return ((i, x) for x in it)

    def apply(self, r, op):
        c = op[0]
        if c == 0:
            return r.coalesce(op[1])
        if c == 1:
            return r.repartition(op[1])
        if c == 2:
            f = FUNCS[op[2]]
            return r.partitionBy(op[1]) if f is None else r.partitionBy(op[1], f)
        if c == 3:
            return r.zipWithUniqueId()
        if c == 4:
            return r.mapPartitionsWithIndex(_tag)
        if c == 5:
            return r.map(MAPS[op[1]])
        if c == 6:
            return r.flatMap(FLATMAPS[op[1]])
        if c == 7:
            return r.keyBy(KEYBYS[op[1]])
        if c == 8:
            return r.mapValues(_wrap_value)
        if c == 9:
            return r.persist()
        if c == 10:
            return r.zipWithIndex()
        if c == 11:
            return r.mapPartitionsWithIndex(self._faulty(op[1], op[2]))
        if c == 12:
            return r.mapPartitionsWithIndex(self._log_tag)
        raise ValueError(f'unknown op {op!r}')


def _apply(r, op):
    return Applier().apply(r, op)


def _contents(r):
    """Partition contents through Context.runJob, the call collect() itself makes: no glom stage is put on top,
    so the last stage of the pipeline is the outermost one of the task (it gets the task's own TaskContext)."""
    return r.context.runJob(r, lambda tc, it: list(it))


def _observe(r):
    return (r.getNumPartitions(), freeze(r.glom().collect()),
            r.mapPartitionsWithIndex(lambda i, it: [i]).collect())


def _summ(it):
    cnt, first = 0, None
    for x in it:
        if cnt == 0:
            first = x
        cnt += 1
    return [(cnt, first)]


def _summary(N, n):
    return Context().parallelize(range(N), n).mapPartitions(_summ).collect()


def _subset_job(case):
    """The pipeline, then ONE job on the chosen partitions: Context.runJob(rdd, func, partitions=[...])."""
    ap = Applier()
    ctx = Context()
    r = _source(ctx, case[1])
    for op in case[2]:
        r = ap.apply(r, op)
    parts = r.partitions()
    chosen = [parts[i] for i in case[3]]
    del ap.log[:]
    out = ctx.runJob(r, lambda tc, it: (tc.partition_id, list(it)), partitions=chosen)
    return ([(pid, freeze(content)) for pid, content in out], list(ap.log))


def impl(case):
    try:
        if case[0] in (0, 4):
            ap = Applier()
            r = _source(Context(), case[1])
            for op in case[2]:
                r = ap.apply(r, op)
            if case[0] == 0:
                return _observe(r)
            num, parts = r.getNumPartitions(), freeze(_contents(r))
            log = list(ap.log)
            return (num, parts, r.mapPartitionsWithIndex(lambda i, it: [i]).collect(), log)
        if case[0] == 5:
            return _subset_job(case)
        if case[0] == 1:
            return _summary(case[1], case[2])
        if case[0] == 2:
            return (portable_hash(case[1]), rdd_mod._hash(case[1]))  # pylint: disable=protected-access
        if case[0] == 3:
            out = _summary(case[1], case[2])
            return (len(out), [out[i] if 0 <= i < len(out) else None for i in case[3]])
    except Exception as e:  # pylint: disable=broad-except
        return Err(type(e).__name__)
    raise ValueError('unknown case kind')


# ---------------------------------------------------------------------------------- oracle

def _flat(ps):
    return [x for p in ps for x in p]


def _same(a, b):
    """Equality that distinguishes 1 / 1.0 / True and 0.0 / -0.0 (canonical JSON form)."""
    return canon(freeze(a)) == canon(freeze(b))


def _grouping_exists(before, after, q):
    """after[j] is the concatenation of q or q+1 adjacent partitions of `before`, in order, using all of them."""
    reach = {0}
    for part in after:
        nxt = set()
        for a in reach:
            for g in (q, q + 1):
                if a + g <= len(before) and _same(_flat(before[a:a + g]), part):
                    nxt.add(a + g)
        reach = nxt
        if not reach:
            return False
    return len(before) in reach


def _check_sizes(site, parts):
    sizes = [len(p) for p in parts]
    if sizes and max(sizes) - min(sizes) > 1:
        return (f'{site}:sizes-differ-by-more-than-one', f'sizes {sizes[:40]}')
    return None


def _check_parallelize(xs, n, parts):
    if n is not None and n > 1:
        if len(parts) != n:
            return ('parallelize:slice-count', f'{len(parts)} slices for numSlices={n}, len={len(xs)}')
        if not _same(_flat(parts), xs):
            return ('parallelize:not-contiguous-in-order', f'len={len(xs)} n={n}: {parts!r:.300}')
        return _check_sizes('parallelize', parts)
    return None


def _step_oracle(op, before, after):
    cur = len(before)
    if op[0] == 0 and op[1] >= 1 and cur >= 1:
        new = min(op[1], cur)
        if len(after) != new:
            return ('coalesce:partition-count', f'{len(after)} partitions, expected min({op[1]},{cur})')
        if not _same(_flat(after), _flat(before)):
            return ('coalesce:elements-changed', f'{before!r:.200} -> {after!r:.200}')
        if not _grouping_exists(before, after, cur // new):
            return ('coalesce:not-adjacent-groups-of-balanced-size',
                    f'coalesce({op[1]}) of {before!r:.200} gave {after!r:.200}')
    elif op[0] == 1 and op[1] >= 1:
        if len(after) != op[1]:
            return ('repartition:partition-count', f'{len(after)} partitions for repartition({op[1]})')
        if not _same(_flat(after), _flat(before)):
            return ('repartition:global-order-changed', f'{before!r:.200} -> {after!r:.200}')
    elif op[0] == 2 and op[1] >= 1:
        n = op[1]
        if len(after) != n:
            return ('partitionBy:partition-count', f'{len(after)} partitions for partitionBy({n})')
        kvs = _flat(before)
        f = FUNCS[op[2]]
        if f is not None:
            for j in range(n):
                want = [kv for kv in kvs if f(kv[0]) % n == j]
                if not _same(after[j], want):
                    return ('partitionBy:not-f-key-mod-n-in-order', f'partition {j}: {after[j]!r:.200}, expected {want!r:.200}')
        else:
            # default partitioner: every pair exactly once, relative order kept, equal keys co-located
            where = {}
            for j, p in enumerate(after):
                for kv in p:
                    k = json.dumps(canon(_norm_key(kv[0])))
                    if where.setdefault(k, j) != j:
                        return ('partitionBy:equal-keys-not-colocated', f'key {kv[0]!r} in partitions {where[k]} and {j}')
            pos = {}
            for kv in kvs:
                k = json.dumps(canon(_norm_key(kv[0])))
                pos.setdefault(where.get(k), []).append(kv)
            for j, p in enumerate(after):
                if not _same(p, pos.get(j, [])):
                    return ('partitionBy:pairs-lost-or-reordered', f'partition {j}: {p!r:.200}, input order gives {pos.get(j, [])!r:.200}')
    elif op[0] == 3:
        n = len(before)
        if len(after) != n:
            return ('zipWithUniqueId:partition-count', f'{len(after)} != {n}')
        ids = []
        for i, (b, a) in enumerate(zip(before, after)):
            want = [(x, k * n + i) for k, x in enumerate(b)]
            if not _same(a, want):
                return ('zipWithUniqueId:id-not-k*n+i', f'partition {i}: {a!r:.200}, expected {want!r:.200}')
            ids.extend(t[1] for t in a)
        if len(set(ids)) != len(ids):
            return ('zipWithUniqueId:duplicate-ids', f'{sorted(ids)!r:.200}')
    elif op[0] == 4:
        want = [[(i, x) for x in b] for i, b in enumerate(before)]
        if not _same(after, want):
            return ('mapPartitionsWithIndex:indices', f'{after!r:.200}, expected {want!r:.200}')
    elif op[0] == 10:
        want = [(x, i) for i, x in enumerate(_flat(before))]
        if not _same(_flat(after), want):
            return ('zipWithIndex:not-0..len-1-in-order', f'{_flat(after)!r:.200}, expected {want!r:.200}')
    return None


def _norm_key(k):
    """Python equality classes of keys of the portable domain (1 == 1.0 == True, lists hash as tuples)."""
    if isinstance(k, (list, tuple)):
        return ('t',) + tuple(_norm_key(x) for x in k)
    if isinstance(k, bool):
        return ('n', int(k))
    if isinstance(k, decimal.Decimal) and k == int(k):
        return ('n', int(k))
    if isinstance(k, float) and math.isfinite(k) and k == int(k):
        return ('n', int(k))
    if isinstance(k, int):
        return ('n', k)
    return ('o', k)


def _summary_oracle(N, n, out):
    if n is not None and n > 1:
        if len(out) != n:
            return ('parallelize:slice-count', f'{len(out)} slices for numSlices={n}, len={N}')
        pos = 0
        lo, hi = N, 0
        for i, (cnt, first) in enumerate(out):
            if cnt and first != pos:
                return ('parallelize:not-contiguous-in-order', f'range({N}), n={n}: slice {i} starts at {first}, expected {pos}')
            pos += cnt
            lo, hi = min(lo, cnt), max(hi, cnt)
        if pos != N:
            return ('parallelize:not-contiguous-in-order', f'range({N}), n={n}: slices hold {pos} elements')
        if hi - lo > 1:
            return ('parallelize:sizes-differ-by-more-than-one', f'range({N}), n={n}: sizes between {lo} and {hi}')
    return None


OPNAMES = ['coalesce', 'repartition', 'partitionBy', 'zipWithUniqueId', 'mapPartitionsWithIndex', 'map', 'flatMap',
           'keyBy', 'mapValues', 'persist', 'zipWithIndex', 'faultyStage', 'mapPartitionsWithIndex']


def _spec_lazy(op, parts):
    """What a lazy (non-materialising) op yields for given partition contents -- the statement, as plain lists."""
    c = op[0]
    if c == 3:
        n = len(parts)
        return [[(x, k * n + i) for k, x in enumerate(p)] for i, p in enumerate(parts)]
    if c in (4, 12):
        return [[(i, x) for x in p] for i, p in enumerate(parts)]
    if c == 5:
        return [[MAPS[op[1]](x) for x in p] for p in parts]
    if c == 6:
        return [[y for x in p for y in FLATMAPS[op[1]](x)] for p in parts]
    if c == 7:
        return [[(KEYBYS[op[1]](x), x) for x in p] for p in parts]
    if c == 8:
        return [[(kv[0], (kv[1],)) for kv in p] for p in parts]
    return parts        # persist, faulty stage: same partitions, same contents


def _final_layout_oracle(case, result):
    """Judged on the layout the implementation returned, with no action between the ops: after the LAST
    partitionBy(n, f) (followed at most by stages that keep keys and layout) every pair sits in partition
    f(key) mod n, hence equal keys are co-located -- whatever came before."""
    ops = case[2]
    last = max((i for i, op in enumerate(ops) if op[0] in MATERIALISING), default=None)
    if last is None or ops[last][0] != 2 or ops[last][1] < 1 or any(op[0] not in (8, 9, 11) for op in ops[last + 1:]):
        return None
    n = ops[last][1]
    f = FUNCS[ops[last][2]] or rdd_mod._hash  # pylint: disable=protected-access
    parts = thaw(result[1])
    if len(parts) != n:
        return ('partitionBy:partition-count', f'{len(parts)} partitions after partitionBy({n})')
    for j, p in enumerate(parts):
        for kv in p:
            try:
                want = f(kv[0]) % n
            except Exception:  # pylint: disable=broad-except
                return None
            if want != j:
                return ('partitionBy:pair-not-in-partition-f-key-mod-n',
                        f'{kv!r:.80} is in partition {j} of {n}, f(key) mod n = {want}; ops {ops!r:.200}')
    return None


def _pipeline_oracle(case, result):
    if not isinstance(result, Err):
        o = _final_layout_oracle(case, result)
        if o:
            return o
    ap = Applier()
    try:
        r = _source(Context(), case[1])
        parts = r.glom().collect()
    except Exception:  # pylint: disable=broad-except
        return None
    src = case[1]
    if src[0] != 1:
        xs = list(src[1]) if src[0] == 0 else list(range(src[1]))
        o = _check_parallelize(xs, src[2], parts)
        if o:
            return o
    # `exp`: contents the statement gives for r, composed over the lazy ops since the last materialisation
    # (no action is run between lazy ops: a fault stage must fire in the job the pipeline itself runs)
    exp, pending = parts, []

    def lazy_sig():
        codes = [op[0] for op in pending]
        fault = ':after-transient-fault' if 11 in codes and ap.fired else ''
        if 3 in codes:
            return 'zipWithUniqueId:id-not-k*n+i' + fault
        if 4 in codes or 12 in codes:
            return 'mapPartitionsWithIndex:indices' + fault
        return 'lazy-stages:elements-differ' + fault

    for op in case[2]:
        if op[0] not in MATERIALISING:
            try:
                r = ap.apply(r, op)
                exp = _spec_lazy(op, exp)
            except Exception:  # pylint: disable=broad-except
                return None
            pending.append(op)
            continue
        try:
            r = ap.apply(r, op)
            after = r.glom().collect()
            idx = r.mapPartitionsWithIndex(lambda i, it: [i]).collect()
        except Exception as e:  # pylint: disable=broad-except
            legal = ((op[0] == 0 and (op[1] < 1 or not exp)) or (op[0] == 2 and op[1] < 1)
                     or (op[0] == 2 and not all(isinstance(kv, tuple) and kv for kv in _flat(exp))))
            if legal:
                return None
            return (f'{OPNAMES[op[0]]}:raises-{type(e).__name__}', f'op {op!r} on {exp!r:.200}')
        if idx != list(range(len(after))):
            return ('mapPartitionsWithIndex:indices', f'indices {idx!r:.200} for {len(after)} partitions after {op!r}')
        o = _step_oracle(op, exp, after)
        if o:
            if pending and 11 in [q[0] for q in pending] and ap.fired:
                return (o[0] + ':after-transient-fault', o[1])
            return o
        exp, pending = after, []
    if pending:
        try:
            after = _contents(r) if case[0] == 4 else r.glom().collect()
            log = list(ap.log)
            idx = r.mapPartitionsWithIndex(lambda i, it: [i]).collect()
        except Exception as e:  # pylint: disable=broad-except
            return (f'{OPNAMES[pending[-1][0]]}:raises-{type(e).__name__}', f'ops {pending!r} on {parts!r:.200}')
        if not _same(after, exp):
            return (lazy_sig(), f'ops {pending!r}: {after!r:.200}, expected {exp!r:.200}')
        if idx != list(range(len(after))):
            return ('mapPartitionsWithIndex:indices', f'indices {idx!r:.200} for {len(after)} partitions')
        if pending[-1][0] == 3:
            ids = [t[1] for t in _flat(after)]
            if len(set(ids)) != len(ids):
                return ('zipWithUniqueId:duplicate-ids', f'{sorted(ids)!r:.200}')
        if [op[0] for op in pending].count(12) == 1 and 12 not in [op[0] for op in case[2][:len(case[2]) - len(pending)]]:
            n = len(after)
            want = list(range(n))
            for op in pending:
                if op[0] == 11 and 0 <= op[1] < n:
                    want.append(op[1])
            if sorted(log) != sorted(want):
                return ('mapPartitionsWithIndex:index-differs-between-attempts',
                        f'the stage function was called with indices {log!r:.200}; one call per attempt gives {sorted(want)!r:.200}')
    return None


def _subset_oracle(case, result):
    """A job on a subset / reordering of the partitions gives, for each chosen partition, what the full job gives
    for it: ids k*n+i and indices are those of the partition's OWN index i, not of its position in the job's list."""
    _, src, ops, sel = case
    full_case = (0, src, ops)
    o = _pipeline_oracle(full_case, impl(full_case))
    if o:
        return o
    if isinstance(result, Err):
        return ('runJob-subset:raises-' + result.name, f'ops {ops!r}, partitions {sel!r}')
    ap = Applier()
    try:
        r = _source(Context(), src)
        for op in ops:
            r = ap.apply(r, op)
        full = freeze(_contents(r))
    except Exception:  # pylint: disable=broad-except
        return None
    sel = list(sel) or list(range(len(full)))
    codes = [op[0] for op in ops]
    last = max((i for i, c in enumerate(codes) if c in MATERIALISING), default=-1)
    seg = codes[last + 1:]
    site = 'zipWithUniqueId:id-not-k*n+i' if 3 in seg else 'mapPartitionsWithIndex:indices' if (4 in seg or 12 in seg) \
        else 'runJob-subset:contents-differ'
    got, log = result
    if len(got) != len(sel):
        return ('runJob-subset:result-count', f'{len(got)} results for partitions {sel!r}')
    for i, (pid, content) in zip(sel, got):
        if pid != i % len(full):
            return ('runJob-subset:task-partition-id', f'the task of partition {i} (job on {sel!r}) has partition_id {pid}')
        if not _same(content, full[i]):
            return (site + ':partition-subset', f'job on partitions {sel!r} of {len(full)}: partition {i} gives '
                    f'{content!r:.200}, the full job gives {full[i]!r:.200}; ops {ops!r}')
    if seg.count(12) == 1:
        want = [i % len(full) for i in sel]
        if log != want:
            return ('mapPartitionsWithIndex:indices:partition-subset',
                    f'job on partitions {sel!r}: the stage function was called with indices {log!r}')
    return None


def oracle(case, result):
    """The statement of C07 executed on the implementation alone (pipelines are re-run segment by segment)."""
    if case[0] in (0, 4):
        return _pipeline_oracle(case, result)
    if case[0] == 5:
        return _subset_oracle(case, result)
    if case[0] == 1:
        if isinstance(result, Err):
            return ('parallelize:raises-' + result.name, f'range({case[1]}), n={case[2]}')
        return _summary_oracle(case[1], case[2], result)
    if case[0] == 3:
        try:
            out = _summary(case[1], case[2])
        except Exception as e:  # pylint: disable=broad-except
            return ('parallelize:raises-' + type(e).__name__, f'range({case[1]}), n={case[2]}')
        return _summary_oracle(case[1], case[2], out)
    if case[0] == 2:
        if isinstance(result, Err):
            return ('portable_hash:raises-' + result.name, f'key {case[1]!r}')
        again = impl(case)
        if again != result or not 0 <= result[1] < 2 ** 32:
            return ('portable_hash:not-a-function-of-the-key', f'key {case[1]!r}: {result!r} then {again!r}')
        k = case[1]
        if isinstance(k, tuple) and impl((2, list(k))) != result:
            return ('portable_hash:list-differs-from-tuple', f'key {k!r}')
    return None


def nontrivial(case, result):
    if isinstance(result, Err):
        return False
    if case[0] == 5:
        return len(result[0]) >= 1
    if case[0] in (0, 4):
        return result[0] > 1 or (case[1][0] != 1 and (case[1][2] or 0) > 1) or (case[1][0] == 1 and len(case[1][1]) > 1)
    if case[0] in (1, 3):
        return (case[2] or 0) > 1 and case[1] > 0
    return case[1] is not None


OPN = ['coalesce', 'repartition', 'partitionBy', 'zipWithUniqueId', 'tagIndex']


def _has_equal_keys(case):
    src = case[1]
    if src[0] == 2:
        return False
    elems = src[1] if src[0] == 0 else _flat(src[1])
    seen = {}
    for e in elems:
        if isinstance(e, tuple) and len(e) == 2:
            try:
                k = thaw(e[0])
                seen.setdefault(k, set()).add(repr(k))
            except TypeError:
                return False
    return any(len(v) > 1 for v in seen.values())


def kind(case):
    if case[0] == 5:
        return 'partition-subset-job'
    if case[0] in (0, 4):
        codes = [op[0] for op in case[2]]
        if 11 in codes:
            return 'transient-fault'
        if 2 in codes and _has_equal_keys(case):
            return 'partitionBy-equal-keys'
        if codes.count(2) >= 2:
            return 'partitionBy-sequence'
        if not codes:
            return 'parallelize'
        if len(codes) == 1:
            return OPNAMES[codes[0]]
        return 'pipeline'
    return ['', 'range-summary', 'hash', 'range-probe'][case[0]]


# ---------------------------------------------------------------------------------- generators

def gen_int(rng):
    c = rng.random()
    if c < 0.5:
        return rng.randint(-20, 20)
    if c < 0.7:
        b = rng.choice([2 ** 31, 2 ** 32, 2 ** 61 - 1, 2 ** 61, 2 ** 62, 2 ** 63, 2 ** 64, 2 * (2 ** 61 - 1), 2 ** 122])
        return rng.choice([1, -1]) * (b + rng.randint(-2, 2))
    return rng.choice([1, -1]) * rng.getrandbits(rng.choice([8, 16, 32, 61, 64, 100, 200]))


def gen_float(rng):
    c = rng.random()
    if c < 0.3:
        return float(rng.randint(-1000, 1000))
    if c < 0.4:
        return rng.choice([0.0, -0.0, 1.0, -1.0, 0.5, -0.5, float('inf'), float('-inf'), 5e-324, -5e-324, 2.0 ** -1022,
                           1.7976931348623157e308, 2.0 ** 61, 2.0 ** 61 - 1024, 2.0 ** 122, 0.1, 1e300, 1e-300, -2.0, 2.0 ** 60])
    return rng.uniform(-1, 1) * 2.0 ** rng.choice([-1074, -1030, -300, -61, -60, -5, 0, 3, 30, 60, 61, 62, 122, 300, 1000])


ALPHA = 'abcxyzABC019 _-éß中\U0001f600'


def gen_str(rng):
    c = rng.random()
    if c < 0.1:
        return ''
    n = rng.choice([1, 1, 2, 3, 5, 8, 20]) if c < 0.95 else 70
    return ''.join(rng.choice(ALPHA) for _ in range(n))


def gen_key(rng, depth=2):
    c = rng.random()
    if c < 0.1:
        return None
    if c < 0.35:
        return gen_int(rng)
    if c < 0.5:
        return gen_float(rng)
    if c < 0.7:
        return gen_str(rng)
    if c < 0.75:
        return rng.random() < 0.5
    if depth == 0:
        return rng.randint(0, 5)
    return tuple(gen_key(rng, depth - 1) for _ in range(rng.choice([0, 1, 2, 2, 3, 5])))


def gen_keys_of(rng, kt, n):
    """n keys of key type kt, drawn from a small pool so that equal keys recur."""
    if kt == 'int':
        pool = [gen_int(rng) for _ in range(max(1, n // 2))]
    elif kt == 'str':
        pool = [gen_str(rng) for _ in range(max(1, n // 2))]
    elif kt == 'tuple':
        pool = [tuple(gen_key(rng, 1) for _ in range(rng.randint(0, 3))) for _ in range(max(1, n // 2))]
    else:
        pool = [gen_key(rng) for _ in range(max(1, n // 2))]
    return [rng.choice(pool) for _ in range(n)]


FUNCS_FOR = {'int': [0, 1, 2, 3, 4, 5], 'str': [0, 5, 6], 'tuple': [0, 5, 6], 'any': [0, 5]}


def gen_elems(rng, n):
    """(elements, element type): element type is 'int' or ('pair', key type)."""
    c = rng.random()
    if c < 0.35:
        return [rng.randint(-9, 99) for _ in range(n)], 'int'
    kt = rng.choice(['int', 'int', 'str', 'tuple', 'any'])
    keys = gen_keys_of(rng, kt, n)
    return [(k, i) for i, k in enumerate(keys)], ('pair', kt)


def split_random(rng, xs, k):
    cuts = sorted(rng.randint(0, len(xs)) for _ in range(k - 1)) if k > 0 else []
    out, prev = [], 0
    for c in cuts:
        out.append(xs[prev:c])
        prev = c
    if k > 0:
        out.append(xs[prev:])
    return out


def gen_source(rng, maxlen=14):
    n = rng.randint(0, maxlen)
    xs, et = gen_elems(rng, n)
    c = rng.random()
    if c < 0.5:
        return (0, xs, rng.choice([None, 1, 2, 3, 4, 5, 7, n, n + 1, n + 3])), et
    return (1, split_random(rng, xs, rng.choice([1, 2, 3, 4, 5, 6, 9]))), et


def gen_ops(rng, et, count, errors=False):
    ops = []
    for _ in range(count):
        c = rng.random()
        if c < 0.25:
            ops.append((0, rng.randint(-1 if errors else 1, 8)))
        elif c < 0.45:
            ops.append((1, rng.randint(-1 if errors else 1, 8)))
        elif c < 0.7 and (et != 'int' or errors):
            kt = et[1] if et != 'int' else 'any'
            ops.append((2, rng.randint(-1 if errors else 1, 7), rng.choice(FUNCS_FOR[kt] if et != 'int' else [0, 5])))
        elif c < 0.85:
            ops.append((3,))
            et = ('pair', 'int' if et == 'int' else 'tuple')
        else:
            ops.append((4,))
            et = ('pair', 'int')
    return ops


def _key_kind(elems):
    """Which partition functions / element functions apply to these elements (None: not all pairs)."""
    if not all(isinstance(e, tuple) and len(e) == 2 for e in elems):
        return None
    keys = [e[0] for e in elems]
    if all(isinstance(k, int) and not isinstance(k, bool) for k in keys):
        return 'int'
    if all(isinstance(k, (str, tuple)) for k in keys):
        return 'sized'
    return 'any'


PFUNCS_FOR = {'int': [1, 1, 2, 3, 4, 0], 'sized': [0, 0, 6], 'any': [0]}


def _lazy_choices(elems):
    """Key-changing (and, as controls, key-keeping) lazy transformations applicable to the elements."""
    kk = _key_kind(elems)
    out = [(5, 3), (6, 1), (7, 1), (7, 2), (3,), (4,)]
    if kk is not None:
        out += [(5, 0), (5, 0), (5, 1), (6, 0), (6, 0), (7, 0), (7, 0), (8,)]
        if kk == 'int':
            out += [(5, 2), (5, 2)]
    if elems and all(isinstance(e, int) and not isinstance(e, bool) for e in elems):
        out += [(7, 3), (7, 3)]
    return out


def _shadow(op, elems):
    """Element types after an op (layout-dependent numbers are irrelevant here)."""
    if op[0] in MATERIALISING:
        return [(x, i) for i, x in enumerate(elems)] if op[0] == 10 else elems
    return _spec_lazy(op, [elems])[0]


def gen_pby_sequence(rng):
    """partitionBy(n, f) -> transformation(s) -> partitionBy again (same n and f object, or controls)."""
    m = rng.randint(3, 12)
    c = rng.random()
    if c < 0.6:
        elems = [(rng.randint(0, 6), rng.randint(0, 6)) for _ in range(m)]
    elif c < 0.8:
        elems = [(rng.choice(['a', 'b', 'ab', 'abc', '']), rng.randint(0, 4)) for _ in range(m)]
    else:
        elems = [rng.randint(0, 9) for _ in range(m)]
    if rng.random() < 0.5:
        src = (0, list(elems), rng.choice([None, 2, 3, 4]))
    else:
        src = (1, split_random(rng, list(elems), rng.randint(1, 4)))
    ops = []
    if _key_kind(elems) is None:
        op = rng.choice([(7, 3), (7, 2), (5, 3), (3,), (4,)])
        ops.append(op)
        elems = _shadow(op, elems)
    n = rng.choice([2, 2, 3, 3, 4, 5])
    f = rng.choice(PFUNCS_FOR[_key_kind(elems)])
    ops.append((2, n, f))
    for _ in range(rng.choice([1, 1, 1, 2])):
        if rng.random() < 0.2:
            ops.append((9,))
        for _ in range(rng.choice([1, 1, 2])):
            op = rng.choice(_lazy_choices(elems))
            ops.append(op)
            elems = _shadow(op, elems)
        if rng.random() < 0.2:
            ops.append((9,))
        kk = _key_kind(elems)
        c = rng.random()
        n2, f2 = n, f
        if c < 0.15:
            n2 = rng.choice([x for x in (2, 3, 4, 5) if x != n])
        elif c < 0.3:
            f2 = rng.choice(PFUNCS_FOR[kk])
        if f2 not in FUNCS_FOR_KK[kk]:
            f2 = 0 if f != 0 and rng.random() < 0.5 else rng.choice(PFUNCS_FOR[kk])
        ops.append((2, n2, f2))
        n, f = n2, f2
    if rng.random() < 0.15:
        ops.append(rng.choice([(8,), (9,)]))
    return (0, src, ops)


FUNCS_FOR_KK = {'int': [0, 1, 2, 3, 4, 5], 'sized': [0, 5, 6], 'any': [0, 5]}


def gen_fault_case(rng):
    """zipWithUniqueId / zipWithIndex / mapPartitionsWithIndex (and the layout ops) under one transient task fault."""
    m = rng.randint(0, 12)
    pairs = rng.random() < 0.4
    elems = [(rng.randint(0, 5), 100 + i) for i in range(m)] if pairs else [100 + i for i in range(m)]
    k = rng.choice([1, 2, 3, 3, 4, 5])
    src = (0, elems, k) if rng.random() < 0.5 else (1, split_random(rng, elems, k))
    prefix = []
    c = rng.random()
    if c < 0.15:
        prefix = [(0, rng.randint(1, 4))]
    elif c < 0.3 and pairs:
        prefix = [(2, rng.choice([2, 3, 4]), rng.choice([0, 1, 3]))]
    elif c < 0.4:
        prefix = [(1, rng.randint(1, 5))]
    fault = (11, rng.choice([0, 1, 1, 1, 2, 2, k - 1, k, 3]), rng.choice([0, 1, 1, 2]))
    t = rng.random()
    if t < 0.45:
        seg = [fault, (3,)] + ([(12,)] if rng.random() < 0.6 else []) + ([rng.choice([(4,), (5, 3), (6, 1)])] if rng.random() < 0.3 else [])
        rng.shuffle(seg)
        ops = prefix + seg
    elif t < 0.65:
        seg = [fault, (12,)] + ([(4,)] if rng.random() < 0.3 else [])
        rng.shuffle(seg)
        ops = prefix + seg
    elif t < 0.85:
        seg = [fault] + ([(3,)] if rng.random() < 0.4 else []) + ([(4,)] if rng.random() < 0.3 else [])
        rng.shuffle(seg)
        ops = prefix + seg + [(10,)] + ([(12,)] if rng.random() < 0.3 else [])
    else:
        seg = [fault] + ([(3,)] if not pairs or rng.random() < 0.3 else [])
        rng.shuffle(seg)
        tail = [(2, rng.choice([2, 3]), 0 if (3,) in seg or not pairs else rng.choice([0, 1]))] if (pairs or (3,) in seg) \
            else [rng.choice([(0, rng.randint(1, 3)), (1, rng.randint(1, 4))])]
        ops = prefix + seg + tail + ([(12,)] if rng.random() < 0.3 else [])
    return (4, src, ops)


EQ_POOLS = [
    [1, 1.0, True, (DEC, '1'), (DEC, '1.0'), (DEC, '1.00')],
    [0, 0.0, False, -0.0, (DEC, '0'), (DEC, '0.00')],
    [2, 2.0, (DEC, '2'), (DEC, '2.00')],
    [10, 10.0, (DEC, '10'), (DEC, '10.0')],
    [-3, -3.0, (DEC, '-3'), (DEC, '-3.000')],
]


def _repr_key_ok(k):
    if isinstance(k, tuple):
        return len(k) == 2 and k[0] == DEC
    return k is None or isinstance(k, (bool, int)) or (isinstance(k, float) and k == int(k) and abs(k) < 1e15)


def _eq_elems_ok(elems):
    return all(isinstance(e, tuple) and len(e) == 2 and e[0] != DEC and _repr_key_ok(e[0]) for e in elems)


def gen_equal_keys(rng):
    """Keys that compare and hash equal but are different objects (1 / 1.0 / True / Decimal('1.0'), 0.0 / -0.0 ...),
    at least two of them in the dataset; partition functions that tell them apart (type name, repr, str)."""
    pools = rng.sample(EQ_POOLS, rng.choice([1, 2, 2, 3]))
    keys = []
    for pool in pools:
        keys += rng.sample(pool, rng.randint(2, min(4, len(pool))))
    keys += rng.sample([None, 7, 123456, 5.0, -1, 33.0], rng.randint(0, 2))
    m = rng.randint(len(keys), len(keys) + 4)
    ks = keys + [rng.choice(keys) for _ in range(m - len(keys))]
    rng.shuffle(ks)
    swapv = rng.random() < 0.5
    elems = [(k, rng.choice(keys) if swapv else i) for i, k in enumerate(ks)]
    src = (0, list(elems), rng.choice([None, 2, 3])) if rng.random() < 0.5 else (1, split_random(rng, list(elems), rng.randint(1, 4)))
    n = rng.choice([2, 3, 3, 4, 5])
    f = rng.choice([7, 7, 8, 8, 9, 9, 0, 0, 5])
    ops = [(2, n, f)]
    for _ in range(rng.choice([0, 0, 1, 1, 2])):
        t = rng.choice([(5, 0), (5, 0), (7, 0), (6, 0), (9,), (8,)])
        new = _shadow(t, elems)
        if not _eq_elems_ok(new):
            t, new = (9,), elems
        ops.append(t)
        elems = new
        c = rng.random()
        ops.append((2, n if c < 0.7 else rng.choice([2, 3, 4]), f if c < 0.85 else rng.choice([7, 8, 9, 0])))
    return (0, src, ops)


def gen_subset_case(rng):
    """zipWithUniqueId / mapPartitionsWithIndex / zipWithIndex evaluated by a job on some of the partitions."""
    m = rng.randint(0, 14)
    pairs = rng.random() < 0.3
    elems = [(rng.randint(0, 5), 100 + i) for i in range(m)] if pairs else [100 + i for i in range(m)]
    k = rng.choice([2, 3, 4, 4, 5, 6])
    src = (0, elems, k) if rng.random() < 0.5 else (1, split_random(rng, elems, k))
    n = k
    prefix = []
    c = rng.random()
    if c < 0.12:
        t = rng.randint(1, 4)
        prefix, n = [(0, t)], min(t, k)
    elif c < 0.24:
        t = rng.randint(1, 6)
        prefix, n = [(1, t)], t
    elif c < 0.36 and pairs:
        t = rng.choice([2, 3, 4, 5])
        prefix, n = [(2, t, rng.choice([0, 1, 3]))], t
    elif c < 0.42:
        prefix, n = [(3,), (10,)] if rng.random() < 0.5 else [(10,)], 1
    seg = [(3,)] if rng.random() < 0.75 else []
    if rng.random() < 0.6:
        seg.append((12,))
    if rng.random() < 0.3:
        seg.append(rng.choice([(4,), (5, 3), (6, 1)]))
    if not seg:
        seg = [(12,)]
    rng.shuffle(seg)
    c = rng.random()
    if c < 0.15:
        sel = [n - 1]
    elif c < 0.3:
        sel = [i for i in (1, 3) if i < n] or [0]
    elif c < 0.45:
        sel = [i for i in (2, 0) if i < n] or [n - 1]
    elif c < 0.55:
        sel = list(range(n))[::-1]
    elif c < 0.62:
        sel = []
    elif c < 0.7:
        sel = list(range(n))
    else:
        sel = rng.sample(range(n), rng.randint(1, n))
    return (5, src, prefix + seg, sel)


def generate(rng, tier):
    quick = tier == 'quick'
    cases = []
    corpus = os.path.join(os.environ.get('VERIF_ROOT', '/verif'), 'corpus', ID)
    if os.path.isdir(corpus):
        for fn in sorted(os.listdir(corpus)):
            if fn.endswith('.json'):
                cases.append(uncanon(json.load(open(os.path.join(corpus, fn)))['case']))
    # doctest layouts
    cases.append((0, (0, [1, 2, 3, 4, 5, 6, 7, 8], 5), [(0, 4), (0, 3)]))
    cases.append((0, (0, [423, 234, 986, 5, 345], 3), [(3,)]))
    cases.append((0, (0, [(x, x) for x in [1, 3, 2, 7, 8, 5]], 1), [(2, 2, 0)]))
    # 1. parallelize: all lengths 0..N x all slice counts 1..N+3 (+ None, 0, negative)
    N = 14 if quick else 40
    for L in range(N + 1):
        for n in list(range(1, N + 4)) + [None, 0, -1]:
            if L <= 6 and n is not None and n <= 8 and rng.random() < 0.5:
                xs, _ = gen_elems(rng, L)
                cases.append((0, (0, xs, n), []))
            else:
                cases.append((0, (2, L, n), []))
    # 2. coalesce / repartition: all (current, target) pairs
    C = 10 if quick else 30
    for cur in range(1, C + 1):
        for tgt in range(1, C + 4):
            for opk in (0, 1):
                c = rng.random()
                if c < 0.5:
                    src = (2, rng.randint(0, 3 * cur), cur) if cur > 1 else (1, [list(range(rng.randint(0, 4)))])
                else:
                    xs = list(range(rng.randint(0, 2 * cur)))
                    src = (1, split_random(rng, xs, cur))
                cases.append((0, src, [(opk, tgt)]))
    # 3. random pipelines, a fifth of them with illegal arguments (error behaviour is modelled too)
    for i in range(400 if quick else 6000):
        src, et = gen_source(rng)
        cases.append((0, src, gen_ops(rng, et, rng.randint(1, 4), errors=(i % 5 == 0))))
    # 3b. sequences around partitionBy: re-partitioning after key-changing transformations (same n, same f object)
    cases.append((0, (0, [(0, 1), (1, 0), (2, 3), (3, 2)], 2), [(2, 2, 1), (5, 0), (2, 2, 1)]))
    cases.append((0, (0, [(0, 1), (1, 0), (2, 3), (3, 2)], 2), [(2, 2, 0), (5, 0), (2, 2, 0)]))
    cases.append((0, (0, [(0, 1), (1, 0), (2, 3), (3, 2)], 2), [(2, 2, 1), (5, 0), (9,), (2, 2, 1), (5, 2), (2, 2, 1)]))
    cases.append((0, (0, [(0, 1), (1, 0), (2, 3), (3, 2)], 2), [(2, 2, 1), (8,), (2, 2, 1)]))
    cases.append((0, (0, [5, 6, 7, 8], 2), [(7, 3), (2, 3, 1), (7, 1), (2, 3, 1)]))
    for _ in range(250 if quick else 3000):
        cases.append(gen_pby_sequence(rng))
    # 3c. one transient task fault (the context retries the task) under zipWithUniqueId / zipWithIndex /
    #     mapPartitionsWithIndex and before the layout ops
    cases.append((4, (0, [10, 11, 12, 13, 14], 3), [(11, 1, 1), (3,)]))
    cases.append((4, (0, [10, 11, 12, 13, 14], 3), [(3,), (12,), (11, 2, 0)]))
    cases.append((4, (0, [10, 11, 12, 13, 14], 3), [(11, 1, 2), (10,)]))
    cases.append((4, (0, [10, 11, 12, 13, 14], 3), [(12,), (11, 0, 1)]))
    for _ in range(250 if quick else 3000):
        cases.append(gen_fault_case(rng))
    # 3d. keys that are equal but distinguishable, partition functions that distinguish them
    eq = [(1, 'a'), (1.0, 'b'), (True, 'c'), ((DEC, '1.00'), 'd'), (0.0, 'e'), (-0.0, 'f'), ((DEC, '2'), 'g'), ((DEC, '2.00'), 'h')]
    for f in (7, 8, 9, 0):
        cases.append((0, (0, list(eq), 2), [(2, 3, f)]))
        cases.append((0, (0, list(eq), 2), [(2, 3, f), (9,), (2, 3, f)]))
    cases.append((0, (0, [(1, 1.0), (1.0, True), (True, 1), (0, -0.0), (0.0, False)], 2), [(2, 4, 7), (5, 0), (2, 4, 7)]))
    for _ in range(200 if quick else 2500):
        cases.append(gen_equal_keys(rng))
    # 3e. one job on a subset / a reordering of the partitions
    cases.append((5, (0, [10, 11, 12, 13, 14, 15, 16], 4), [(3,)], [1, 3]))
    cases.append((5, (0, [10, 11, 12, 13, 14, 15, 16], 4), [(3,), (12,)], [2, 0]))
    cases.append((5, (0, [10, 11, 12, 13, 14, 15, 16], 4), [(12,), (3,)], [3]))
    cases.append((5, (0, [10, 11, 12, 13, 14, 15, 16], 4), [(4,)], [3, 2, 1, 0]))
    cases.append((5, (0, [10, 11, 12, 13, 14, 15, 16], 4), [(3,), (10,), (12,)], [0]))
    for _ in range(200 if quick else 2500):
        cases.append(gen_subset_case(rng))
    # zero-partition datasets and non-pair elements
    cases.append((0, (1, []), [(0, 2)]))
    cases.append((0, (1, []), [(1, 2)]))
    cases.append((0, (1, []), [(2, 0, 0), (0, 1)]))
    cases.append((0, (1, [[1, 2]]), [(2, 2, 0)]))
    cases.append((0, (1, [[()]]), [(2, 2, 0)]))
    cases.append((0, (1, [[(1, 2)]]), [(2, 0, 0)]))
    cases.append((0, (1, [[(1, 2)]]), [(2, -3, 1)]))
    # 4. partitionBy: key lists over the portable domain x partition counts x functions
    for _ in range(250 if quick else 4000):
        kt = rng.choice(['int', 'str', 'tuple', 'any', 'any'])
        n = rng.randint(0, 12)
        keys = gen_keys_of(rng, kt, n)
        kvs = [(k, i) for i, k in enumerate(keys)]
        src = (1, split_random(rng, kvs, rng.randint(1, 4)))
        cases.append((0, src, [(2, rng.choice([1, 2, 3, 4, 5, 7, 8, 16, 31]), rng.choice(FUNCS_FOR[kt]))]))
    # 5. virtual inputs
    for _ in range(40 if quick else 400):
        n = rng.choice([2, 3, 7, 10, 64, 100, 255, rng.randint(2, 300)])
        Nn = rng.choice([0, 1, n - 1, n, n + 1, 2 * n - 1, 1000, 4096, rng.randint(0, 20000 if quick else 200000)])
        cases.append((1, Nn, n))
    cases.append((1, 1000, None))
    cases.append((1, 1000, 1))
    for _ in range(3 if quick else 14):
        n = rng.choice([10 ** 4, 65536, 10 ** 5 - 1] if quick else [10 ** 4, 10 ** 5, 2 ** 17 + 1, 10 ** 6, 999983])
        Nn = rng.choice([n - 1, n + 1, 3 * n + 7, rng.randint(0, 300000 if quick else 3000000)])
        probes = sorted({0, 1, n // 2, n - 2, n - 1} | {rng.randrange(n) for _ in range(60)})
        cases.append((3, Nn, n, probes))
    # 6. hashes of keys of the portable domain
    fixed = [None, 0, 1, -1, -2, True, False, 2 ** 61 - 1, 2 ** 61 - 2, 2 ** 61, -(2 ** 61 - 1), -(2 ** 61), 2 ** 63, -2 ** 63,
             2 ** 64 + 1, 0.0, -0.0, 1.0, -1.0, 1.5, 0.1, float('inf'), float('-inf'), 1e300, 5e-324, '', 'a', 'ab', 'abc',
             'hello world', '中文', (), (None,), (None, 1), (1, 2, 3), ((1, 2), ('a', (None,))), [1, 2], (1.0, 1),
             ('a', 'b'), (0,), (-1,), ((),), ((), ())]
    for k in fixed:
        cases.append((2, k))
    for _ in range(300 if quick else 6000):
        cases.append((2, gen_key(rng, 3)))
    return cases


def shrink_candidates(case):
    if case[0] == 5:
        sel = list(case[3])
        for i in range(len(sel)):
            if len(sel) > 1:
                yield (5, case[1], case[2], sel[:i] + sel[i + 1:])
        for i in range(len(case[2])):
            yield (5, case[1], case[2][:i] + case[2][i + 1:], sel)
        return
    if case[0] in (0, 4):
        for c in _shrink_pipeline(case):
            yield (case[0],) + tuple(c[1:])
        return
    yield from _shrink_other(case)


def _shrink_pipeline(case):
    if True:
        _, src, ops = case
        ops = list(ops)
        for i in range(len(ops)):
            yield (0, src, ops[:i] + ops[i + 1:])
        if src[0] == 0:
            xs = src[1]
            for i in range(len(xs)):
                yield (0, (0, xs[:i] + xs[i + 1:], src[2]), ops)
            if src[2] is not None and src[2] > 2:
                yield (0, (0, xs, src[2] - 1), ops)
        elif src[0] == 1:
            ps = src[1]
            for i in range(len(ps)):
                yield (0, (1, ps[:i] + ps[i + 1:]), ops)
                for j in range(len(ps[i])):
                    yield (0, (1, ps[:i] + [ps[i][:j] + ps[i][j + 1:]] + ps[i + 1:]), ops)
        else:
            if src[1] > 0:
                yield (0, (2, src[1] - 1, src[2]), ops)
                yield (0, (2, src[1] // 2, src[2]), ops)
            if src[2] is not None and src[2] > 2:
                yield (0, (2, src[1], src[2] - 1), ops)
        for i, op in enumerate(ops):
            if len(op) > 1 and op[1] > 1:
                yield (0, src, ops[:i] + [(op[0], op[1] - 1) + tuple(op[2:])] + ops[i + 1:])


def _shrink_other(case):
    if case[0] in (1, 3):
        N, n = case[1], case[2]
        if N > 0:
            yield (1, N // 2, n)
            yield (1, N - 1, n)
        if n is not None and n > 2:
            yield (1, N, n // 2)
            yield (1, N, n - 1)
    elif case[0] == 2:
        k = case[1]
        if isinstance(k, (tuple, list, str)):
            for i in range(len(k)):
                yield (2, k[:i] + k[i + 1:])
            if not isinstance(k, str):
                for x in k:
                    yield (2, x)


# ---------------------------------------------------------------------------------- extra checks

_EXTRA = {}


def _seed_cases(rng, tier):
    quick = tier == 'quick'
    cases = [(2, gen_key(rng, 3)) for _ in range(250 if quick else 3000)]
    cases += [(2, k) for k in [None, 'abc', '', (None, 1), ('a', ('b', 2.5)), -1, 2 ** 61, 1.5, True]]
    for _ in range(60 if quick else 800):
        keys = gen_keys_of(rng, rng.choice(['str', 'tuple', 'any']), rng.randint(1, 10))
        kvs = [(k, i) for i, k in enumerate(keys)]
        cases.append((0, (1, split_random(rng, kvs, rng.randint(1, 3))), [(2, rng.choice([2, 3, 5, 8, 13]), 0)]))
    return cases


def child_main(inp, outp):
    cases = [uncanon(c) for c in json.load(open(inp))]
    res = [canon(impl(c)) for c in cases]
    json.dump({'witness': [hash('abc'), hash(b'abc')], 'results': res}, open(outp, 'w'))


def extra_checks(rng, tier, workdir):
    from common import coqrun
    # (a) the runtime assumption behind int_truediv: int(a / b) == a // b below 2^53
    bad = None
    for _ in range(20000 if tier == 'quick' else 200000):
        b = rng.choice([rng.randint(1, 10 ** 6), rng.randint(1, 2 ** 40), 3, 7, 10])
        a = rng.choice([rng.randrange(2 ** 53), 2 ** 53 - 1 - rng.randrange(1000), b * rng.randrange(1, 2 ** 53 // b + 1) - 1])
        if 0 <= a < 2 ** 53 and int(a / b) != a // b:
            bad = (a, b)
            break
    _EXTRA['int_truediv_samples'] = 20000 if tier == 'quick' else 200000
    if bad:
        yield ('runtime:int-truediv-differs-from-floor-division', 'int(a / b) != a // b below 2^53', repr(bad), None)
    # (b) hash-seed independence: same cases in child interpreters with different PYTHONHASHSEED
    cases = _seed_cases(rng, tier)
    seeds = SEEDS_FIXED + [str(rng.randrange(1, 2 ** 32))]
    inp = os.path.join(workdir, 'seed_cases.json')
    json.dump([canon(c) for c in cases], open(inp, 'w'))
    procs = []
    for s in seeds:
        outp = os.path.join(workdir, f'seed_out_{s}.json')
        env = dict(os.environ, PYTHONHASHSEED=s)
        procs.append((s, outp, subprocess.Popen(
            [sys.executable, '-c', 'import sys, c07; c07.child_main(sys.argv[1], sys.argv[2])', inp, outp],
            env=env, stdout=subprocess.PIPE, stderr=subprocess.STDOUT, text=True)))
    outs = {}
    for s, outp, p in procs:
        log, _ = p.communicate(timeout=600)
        if p.returncode != 0 or not os.path.exists(outp):
            yield ('seed:child-failed', f'child interpreter with PYTHONHASHSEED={s} failed', log[-500:], None)
            return
        outs[s] = json.load(open(outp))
    witnesses = {tuple(o['witness']) for o in outs.values()}
    _EXTRA['hash_seeds'] = seeds
    _EXTRA['seed_cases_per_interpreter'] = len(cases)
    _EXTRA['distinct_builtin_str_hashes_across_children'] = len(witnesses)
    if len(witnesses) < 2:
        yield ('seed:randomisation-not-effective', 'builtin hash("abc") equal in all child interpreters',
               repr(witnesses), None)
    here = [canon(impl(c)) for c in cases]
    pairs = []
    for s in seeds:
        res = outs[s]['results']
        for c, a, b in zip(cases, here, res):
            if a != b:
                site = 'portable_hash' if c[0] == 2 else 'partitionBy'
                yield (f'{site}:depends-on-PYTHONHASHSEED', f'PYTHONHASHSEED={s} gives {b!r:.200}, PYTHONHASHSEED='
                       f'{os.environ.get("PYTHONHASHSEED")} gives {a!r:.200}', f'case {c!r:.300}', c)
                return
        pairs.extend((to_val(c), to_val(uncanon(r))) for c, r in zip(cases, res))
    mism, errors = coqrun.run_cases(workdir, 'PV.Run.C07_run', pairs, shard_size=300, prefix='seedcases')
    for attempt in range(2):
        if not errors:
            break
        # a shard that produced no verdict (coqc killed under memory pressure, timeout): evaluate again, fewer at a time
        mism, errors = coqrun.run_cases(workdir, 'PV.Run.C07_run', pairs, shard_size=300, jobs=4,
                                        prefix=f'seedcases_retry{attempt}')
    _EXTRA['child_results_compared_in_coq'] = len(pairs)
    if errors:
        yield ('seed:coq-shard-failed', 'could not evaluate the model on child results', errors[0][1][-400:], None)
    for j in mism[:1]:
        c = cases[j % len(cases)]
        yield ('seed:child-differs-from-model', f'PYTHONHASHSEED={seeds[j // len(cases)]}: implementation differs from the '
               'Coq value', f'case {c!r:.300}', c)


def extra_evidence():
    return dict(_EXTRA)
