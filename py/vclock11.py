"""Virtual clock for pysparkling.streaming, used by C11 (window / updateStateByKey).

`StreamingContext.start()` reads `PeriodicCallback` and `time` as globals of the module
`pysparkling.streaming.context`.  Inside a `VClock` block both are replaced: `PeriodicCallback`
by a class that merely records the callback the REAL `start()` builds, `time` by an object whose
`.time()` returns the virtual time.  `fire(t)` sets the clock and runs the recorded callback once
(= one batch interval).  Like tornado's `PeriodicCallback._run`, an exception raised by the
callback ends that interval only; `fire` returns its class name (tornado logs it and schedules
the next run).  Nothing in /repo is modified and no IOLoop runs."""
import pysparkling.streaming.context as _sctx


class _Recorder:
    def __init__(self, owner, callback, callback_time):
        self.callback = callback
        self.callback_time = callback_time
        self.running = False
        owner.recorded.append(self)

    def start(self):
        self.running = True

    def stop(self):
        self.running = False


class _Time:
    def __init__(self):
        self.now = 0.0
        self.reads = 0

    def time(self):
        self.reads += 1
        return self.now


class VClock:
    def __init__(self):
        self.recorded = []
        self.clock = _Time()
        self._saved = None

    def __enter__(self):
        self._saved = (_sctx.PeriodicCallback, _sctx.time)
        owner = self
        _sctx.PeriodicCallback = lambda cb, ms: _Recorder(owner, cb, ms)
        _sctx.time = self.clock
        return self

    def __exit__(self, *exc):
        _sctx.PeriodicCallback, _sctx.time = self._saved
        _sctx.StreamingContext._activeContext = None
        return False

    def fire(self, t):
        """One interval at virtual time t.  Returns None or the class name of the exception that ended it."""
        if len(self.recorded) != 1 or not self.recorded[0].running:
            raise AssertionError('start() did not register exactly one running periodic callback')
        self.clock.now = t
        try:
            self.recorded[0].callback()
        except Exception as e:  # pylint: disable=broad-except
            return type(e).__name__
        return None
