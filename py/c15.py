"""C15 -- a DataFrame's schema, column list and rows always agree.

A case is a program: a list of instructions, every instruction builds one DataFrame from earlier
ones (createDataFrame, range, select, withColumn, drop, withColumnRenamed, toDF, join of every
type, crossJoin, union, unionByName, groupBy/agg/pivot, sort, limit, distinct, sample,
repartition).  The implementation side executes the program with the real pysparkling API and
observes EVERY DataFrame it builds: df.columns, df.schema.names, every Row.__fields__, every
len(row) / row values, count(), df.rdd.collect().  The Coq model (coq/Model/Schema.v) computes the
same observations; the oracle checks the property's statement on the observations alone."""
import itertools

from common.coqlit import Err

ID = 'C15'
KERNELS = ['Gen/SchemaNames.v: schema_keeps_right', 'Gen/SchemaNames.v: row_has_right_parts',
           'Gen/SchemaNames.v: pivot_name_schema / pivot_name_row',
           'Gen/SchemaNames.v: fmt_add fmt_mul fmt_neg fmt_call lit_null',
           'Gen/SchemaNames.v: name_count name_sum name_min name_max count_star_arg']
SHARD = 150
RULE = ('programs of 1-3 base tables (plain tuples, or Row / namedtuple objects with their own field names renamed by a '
        'name list / StructType / DDL string, local or RDD; 0-4 rows over columns k,v,w,x,..., ints and None, incl. duplicate column '
        'names) followed by op chains of length <= 4 drawn from 17 operation kinds with parameters taken from '
        'the live column list (plus some absent/ambiguous names); exhaustive part: every chain of length <= 2 over '
        'a menu of 114 concrete operations (14 of them refer to a column in another letter case than the schema) on two fixed tables (thorough tier: all, quick tier: all of length 1 '
        'and a seed-dependent sample of length 2); every DataFrame of every program is observed; non-trivial = at '
        'least one operation step executed without error; distinct by canonical JSON of the program')
ASSUMPTIONS = [
    'cell values are Python ints (|v| small) and None; pivot values may be strings',
    'tables handed to createDataFrame are rectangular (every tuple has one value per column name); a ragged '
    'list is not verified by createDataFrame when the schema is a list of names and yields Rows with fewer '
    'values than fields (noted in design.d/C15.md, outside the quantifier "small tables")',
    'sample(): the sampler\'s per-element decision is scripted (a function of the element) so that the row '
    'count is reproducible; real seeded samplers are exercised with fraction 0.0/1.0 in the correspondence and '
    'with interior fractions by the oracle only',
    'row order after distinct / keyed joins / repartition(cols) is hash-order dependent and not modelled: such '
    'frames are compared as multisets, and after a truncating limit on such a frame only names, arities and '
    'counts are compared',
    'drop() of an absent column raises AnalysisException (DESIGN section 5, out of scope): generators avoid it',
]
TRUSTED = ['translator/kernels/c15.py (join field-group tables, pivot / expression / aggregate name formats)',
           'py/c15.py scripted sampler (replaces BernoulliSampler/PoissonSampler decisions, not the sampling RDD)']

# ----------------------------------------------------------------------------------------------
# instruction encoding (mirrors coq/Run/C15_run.v)
CREATE, RANGE, SELECT, WITHCOL, DROP, RENAME, TODF, JOIN, CROSS, UNION, UNIONBN, AGG, SORT, LIMIT, DISTINCT, SAMPLE, \
    REPART, CREATEROWS, CREATESTRICT, DROPDUP = range(20)
OPNAMES = ['createDataFrame', 'range', 'select', 'withColumn', 'drop', 'withColumnRenamed', 'toDF', 'join',
           'crossJoin', 'union', 'unionByName', 'agg', 'sort', 'limit', 'distinct', 'sample', 'repartition',
           'createDataFrame(rows)', 'createDataFrame(strict)', 'dropDuplicates']
HOWS = ['inner', 'left', 'right', 'full', 'leftsemi', 'leftanti']
AGGFNS = ['count', 'sum', 'min', 'max']


def col(n):
    return (0, n)


def lit(v):
    return (1, v)


def add(a, b):
    return (2, a, b)


def mul(a, b):
    return (3, a, b)


def neg(a):
    return (4, a)


def alias(e, n):
    return (5, e, n)


STAR = (0,)


def sx(e):
    return (1, e)


def _imports():
    # imported lazily so that the module can be inspected without pysparkling on the path
    from pysparkling import Context
    from pysparkling.sql import functions as F
    from pysparkling.sql.session import SparkSession
    from pysparkling.sql.types import LongType, StructField, StructType
    return Context, SparkSession, F, StructType, StructField, LongType


def bexpr(e, F):
    t = e[0]
    if t == 0:
        return F.col(e[1])
    if t == 1:
        return F.lit(e[1])
    if t == 2:
        return bexpr(e[1], F) + bexpr(e[2], F)
    if t == 3:
        return bexpr(e[1], F) * bexpr(e[2], F)
    if t == 4:
        return -bexpr(e[1], F)
    if t == 5:
        return bexpr(e[1], F).alias(e[2])
    raise ValueError(e)


def bagg(a, F):
    fn, arg, al = a
    f = getattr(F, AGGFNS[fn])
    c = f('*') if arg is None else f(bexpr(arg, F))
    return c.alias(al) if al is not None else c


class ScriptedSampler:
    """Stands in for BernoulliSampler / PoissonSampler: the multiplicity of an element is a function
    of the element (so every recomputation of the lazy RDD takes the same decisions)."""
    script = (False, 0, 1)

    def __init__(self, expectation):
        self.expectation = expectation
        self.wr, self.a, self.m = ScriptedSampler.script

    def __call__(self, sample, rng=None, numpy_rng=None):
        s = sum(v for v in sample if isinstance(v, int))
        k = self.a if self.m == 0 else (s + self.a) % self.m
        return k if self.wr else min(1, k)


def strict_struct(names, attrs, mods):
    """StructType with non-default field attributes; attrs[j]: bit 0 nullable=False, bit 1 metadata,
    bit 2 IntegerType instead of LongType."""
    from pysparkling.sql.types import IntegerType
    StructType, StructField, LongType = mods[3], mods[4], mods[5]
    return StructType([StructField(n, IntegerType() if a & 4 else LongType(), not a & 1, {'m': n} if a & 2 else None)
                       for n, a in zip(names, attrs)])


def create_rows(ins, spark, mods):
    """createDataFrame over rows that carry their own field names.  flavor % 4: 0 Row(**kw) (own names are
    sorted, as Row sorts them), 1 Row(*names)(*values), 2 collections.namedtuple; +4: handed over as an RDD;
    +8: the name list is a tuple; +16: the StructType is written as a DDL string."""
    import collections

    from pysparkling import Row
    Context, SparkSession, F, StructType, StructField, LongType = mods
    _, by_struct, own, names, data, flavor = ins
    kind = flavor % 4
    if kind == 0:
        rows = [Row(**dict(zip(own, r))) for r in data]
    elif kind == 1:
        cls = Row(*own)
        rows = [cls(*r) for r in data]
    else:
        nt = collections.namedtuple('NT', list(own))
        rows = [nt(*r) for r in data]
    src = spark.sparkContext.parallelize(rows, 2) if flavor & 4 else rows
    if by_struct:
        if flavor & 16:
            schema = ', '.join(f'{n}: long' for n in names)
        else:
            schema = StructType([StructField(n, LongType(), True) for n in names])
    elif not names:
        schema = None
    else:
        schema = tuple(names) if flavor & 8 else list(names)
    return spark.createDataFrame(src, schema)


def exec_step(ins, dfs, spark, mods):
    """Run one instruction on the real implementation; returns the new DataFrame."""
    Context, SparkSession, F, StructType, StructField, LongType = mods
    op = ins[0]
    if op == CREATE:
        _, by_struct, names, data = ins
        data = [tuple(r) for r in data]
        if by_struct:
            return spark.createDataFrame(data, StructType([StructField(n, LongType(), True) for n in names]))
        return spark.createDataFrame(data, list(names))
    if op == RANGE:
        _, a, b, s, nparts = ins
        return spark.range(a, b, s, numPartitions=nparts)
    if op == CREATEROWS:
        return create_rows(ins, spark, mods)
    if op == CREATESTRICT:
        _, names, attrs, data = ins
        return spark.createDataFrame([tuple(r) for r in data], strict_struct(names, attrs, mods))
    df = dfs[ins[1]]
    if op == SELECT:
        return df.select(*['*' if c == STAR else (c[1][1] if c[1][0] == 0 and ins[1] % 2 == 0 else bexpr(c[1], F))
                           for c in ins[2]])
    if op == WITHCOL:
        return df.withColumn(ins[2], bexpr(ins[3], F))
    if op == DROP:
        return df.drop(*ins[2])
    if op == RENAME:
        return df.withColumnRenamed(ins[2], ins[3])
    if op == TODF:
        return df.toDF(*ins[2])
    if op == JOIN:
        _, s, o, how, on = ins
        on_arg = on[0] if len(on) == 1 and (s + o) % 2 == 0 else list(on)
        return df.join(dfs[o], on_arg, HOWS[how])
    if op == CROSS:
        return df.crossJoin(dfs[ins[2]])
    if op == UNION:
        return df.union(dfs[ins[2]])
    if op == UNIONBN:
        return df.unionByName(dfs[ins[2]])
    if op == AGG:
        _, s, keys, pivot, aggs, via = ins
        cols = [bagg(a, F) for a in aggs]
        if via == 1:
            return df.select(*cols)
        if via == 2:
            return df.agg(*cols)
        g = df.groupBy(*[k[1] if k[0] == 0 else bexpr(k, F) for k in keys])
        if pivot is not None:
            g = g.pivot(pivot[0], pivot[1] if pivot[1] is None else list(pivot[1]))
        return g.agg(*cols)
    if op == SORT:
        return df.sort(*[(bexpr(e, F) if asc else bexpr(e, F).desc()) if (e[0] != 0 or not asc) else e[1]
                         for e, asc in ins[2]])
    if op == LIMIT:
        return df.limit(ins[2])
    if op == DISTINCT:
        return df.distinct()
    if op == DROPDUP:
        return df.dropDuplicates(list(ins[2]) if ins[2] or ins[1] % 2 else None)
    if op == SAMPLE:
        _, s, wr, a, m = ins
        if m == 0 and not wr and a in (0, 1):
            # the real samplers: Bernoulli with fraction 0.0 / 1.0 takes none / all
            return df.sample(False, float(a), 7)
        import pysparkling.rdd as prdd
        saved = prdd.BernoulliSampler, prdd.PoissonSampler
        ScriptedSampler.script = (wr, a, m)
        prdd.BernoulliSampler = prdd.PoissonSampler = ScriptedSampler
        try:
            return df.sample(wr, 0.5, 3)
        finally:
            prdd.BernoulliSampler, prdd.PoissonSampler = saved
    if op == REPART:
        _, s, n, cols = ins
        return df.repartition(n, *[bexpr(c, F) if c[0] != 0 else c[1] for c in cols])
    raise ValueError(ins)


def flags(ins, fl):
    """(order determined, content determined) of the frame an instruction builds -- mirrors the
    bookkeeping fields ford / fval of coq/Model/Schema.v; returns None when the model declines."""
    op = ins[0]
    if op in (CREATE, RANGE, CREATEROWS, CREATESTRICT):
        return (True, True)
    o, v = fl[ins[1]]
    if op in (SELECT, WITHCOL, DROP, RENAME, TODF, SORT):
        return (o, v)
    if op == LIMIT:
        return (o, v and o)
    if op in (CROSS, UNION, UNIONBN):
        o2, v2 = fl[ins[2]]
        return (o and o2, v and v2)
    if op == JOIN:
        o2, v2 = fl[ins[2]]
        return (False, True) if v and v2 else None
    if op == AGG:
        return (o, v) if v else None
    if op == DISTINCT:
        return (False, v) if v else None
    if op == DROPDUP:
        return (False, o or not ins[2]) if v else None
    if op == SAMPLE:
        return (o, v) if v else None
    if op == REPART:
        return (o if not ins[3] else False, v)
    raise ValueError(ins)


def _vkey(vals):
    return [(0, 0) if v is None else (1, v) for v in vals]


def _fkey(fields):
    return [[ord(c) for c in f] for f in fields]


def observe(df, ordered, valued, like=None):
    try:
        cols = list(df.columns)
    except RecursionError:
        cols = Err('RecursionError')
    try:
        schema = df.schema
        views = ([f.name for f in schema.fields], list(schema.names), list(schema.fieldNames()))
        names = views[1] if views[0] == views[1] == views[2] and not isinstance(cols, Err) and cols == views[0] \
            else ('schema-views-disagree', cols if not isinstance(cols, Err) else [], views[0], views[1], views[2])
        if like is not None and isinstance(names, list) and schema != like:
            names = ('schema-not-equal', repr(schema), repr(like))
    except RecursionError:
        names = Err('RecursionError')
    rows = df.collect()
    cnt = df.count()
    rdd_rows = df.rdd.collect()
    rows2 = df.collect()
    same = all(len(other) == len(rows) and all(
        tuple(a) == tuple(b) and list(a.__fields__) == list(b.__fields__) for a, b in zip(rows, other))
        for other in (rdd_rows, rows2))
    rs = [(list(r.__fields__), list(r)) for r in rows]
    for _, vals in rs:
        for v in vals:
            if not (v is None or (isinstance(v, int) and not isinstance(v, bool))):
                raise TypeError(f'unexpected cell value {v!r}')
    if valued:
        if not ordered:
            rs.sort(key=lambda fv: (_vkey(fv[1]), _fkey(fv[0])))
        out = [(f, v) for f, v in rs]
    else:
        rs.sort(key=lambda fv: (len(fv[1]), _fkey(fv[0])))
        out = [(f, len(v)) for f, v in rs]
    return (cols, names, out, cnt, same)


def reference_schema(ins, df, dfs, spark, mods):
    """The StructType the new frame's schema must be EQUAL to (StructType.__eq__ compares fields, the
    redundant .names list and the conversion flags), or None when the property does not determine it:
    a frame built by createDataFrame equals the frame built from plain tuples under the same column
    names; operations that hand the schema on unchanged return the schema of their (first) operand."""
    StructType, StructField, LongType = mods[3], mods[4], mods[5]
    op = ins[0]
    if op == CREATESTRICT:
        return spark.createDataFrame([], strict_struct(ins[1], ins[2], mods)).schema
    if op == RANGE:
        return spark.createDataFrame([], StructType([StructField('id', LongType(), True)])).schema
    if op in (CREATE, CREATEROWS):
        cols = [f.name for f in df._jdf.bound_schema.fields]
        ref = spark.createDataFrame([], StructType([StructField(n, LongType(), True) for n in cols]))
        return ref.schema
    if op in (SORT, LIMIT, DISTINCT, DROPDUP, SAMPLE, REPART, UNION, UNIONBN):
        return dfs[ins[1]].schema
    return None


STATUS = {}


def extra_evidence():
    return {'first_exception_histogram': dict(sorted(STATUS.items()))}


def impl(case):
    mods = _imports()
    Context, SparkSession = mods[0], mods[1]
    spark = SparkSession(Context())
    dfs, fl, obs, likes = [], [], [], []
    status = None
    for ins in case:
        f = flags(ins, fl)
        if f is None:
            status = Err('Unmodelled')
            break
        try:
            df = exec_step(ins, dfs, spark, mods)
            like = reference_schema(ins, df, dfs, spark, mods)
            o = observe(df, *f, like=like)
        except RecursionError:
            status = Err('RecursionError')
            break
        except Exception as e:  # pylint: disable=broad-except
            status = Err(type(e).__name__)
            break
        dfs.append(df)
        fl.append(f)
        obs.append(o)
        likes.append(like)
    # aliasing: building and evaluating the LATER frames (children, siblings) must not have changed what
    # an earlier frame shows -- every frame is observed a second time at the end of the program
    for i, df in enumerate(dfs):
        try:
            again = observe(df, *fl[i], like=likes[i])
        except Exception as e:  # pylint: disable=broad-except
            again = ('raised', type(e).__name__)
        if again != obs[i]:
            obs[i] = obs[i][:4] + (f'changed after later steps: first {obs[i][:4]!r} then {again[:4]!r}'[:600],)
    key = 'no exception' if status is None else f'{OPNAMES[case[len(obs)][0]]}:{status.name}'
    STATUS[key] = STATUS.get(key, 0) + 1
    return (obs, status)


# ----------------------------------------------------------------------------------------------
# oracle: the statement of C15 on what the implementation returned
def oracle(case, result):
    if isinstance(result, Err):
        return ('harness:' + result.name, 'the implementation runner crashed')
    obs, status = result
    for i, o in enumerate(obs):
        site = OPNAMES[case[i][0]]
        if case[i][0] == JOIN:
            site += '-' + HOWS[case[i][3]]
        cols, names, rows, cnt, same = o
        if isinstance(cols, Err) or isinstance(names, Err):
            return (f'{site}:schema-unreadable', f'step {i}: df.columns / df.schema raised {cols!r} {names!r}')
        if isinstance(names, tuple):
            if names[0] == 'schema-not-equal':
                return (f'{site}:schema-not-equal', f'step {i}: df.schema {names[1]} is not equal to the expected '
                        f'StructType {names[2]}')
            return (f'{site}:schema-views-disagree', f'step {i}: columns {names[1]}, [f.name for f in schema.fields] '
                    f'{names[2]}, schema.names {names[3]}, schema.fieldNames() {names[4]}')
        if cols != names:
            return (f'{site}:columns-vs-schema-names', f'step {i}: columns {cols} schema.names {names}')
        for fields, v in rows:
            if fields != cols:
                return (f'{site}:row-fields-vs-columns', f'step {i}: Row.__fields__ {fields} columns {cols}')
            n = v if isinstance(v, int) else len(v)
            if n != len(cols):
                return (f'{site}:row-arity', f'step {i}: a Row has {n} values for {len(cols)} columns {cols}')
        if cnt != len(rows):
            return (f'{site}:count-vs-collect', f'step {i}: count() = {cnt}, collect() has {len(rows)} rows')
        if isinstance(same, str):
            return (f'{site}:changed-by-later-operation', f'step {i}: the DataFrame {same}')
        if not same:
            return (f'{site}:rdd-vs-collect', f'step {i}: df.rdd.collect() or a second collect() differs from '
                    'the first collect() of the same DataFrame')
    if isinstance(status, Err) and status.name in ('RecursionError', 'HarnessCrash'):
        return (f'{OPNAMES[case[len(obs)][0]]}:{status.name}', f'step {len(obs)} raised {status.name}')
    return None


def nontrivial(case, result):
    if isinstance(result, Err):
        return False
    return any(case[i][0] not in (CREATE, RANGE, CREATEROWS, CREATESTRICT) for i in range(len(result[0])))


def kind(case):
    ops = [OPNAMES[i[0]] for i in case if i[0] not in (CREATE, RANGE, CREATEROWS, CREATESTRICT)]
    return f'len{len(ops)}:' + (ops[-1] if ops else 'create')


def shrink_candidates(case):
    # drop the last instruction; drop an unreferenced instruction; shrink table data
    if len(case) > 1:
        yield case[:-1]
    for i, ins in enumerate(case):
        if ins[0] == CREATESTRICT and len(ins[3]) > 0:
            for j in range(len(ins[3])):
                yield case[:i] + [ins[:3] + (ins[3][:j] + ins[3][j + 1:],)] + case[i + 1:]
        if ins[0] == CREATEROWS and len(ins[4]) > 0:
            for j in range(len(ins[4])):
                yield case[:i] + [ins[:4] + (ins[4][:j] + ins[4][j + 1:],) + ins[5:]] + case[i + 1:]
        if ins[0] == CREATE and len(ins[3]) > 0:
            for j in range(len(ins[3])):
                yield case[:i] + [(ins[0], ins[1], ins[2], ins[3][:j] + ins[3][j + 1:])] + case[i + 1:]


# ----------------------------------------------------------------------------------------------
# generators
T_A = (CREATE, False, ['k', 'v'], [[1, 10], [2, 20], [2, None]])
T_B = (CREATE, True, ['k', 'v'], [[2, 5], [3, 7], [None, 1]])


# the table A built from rows that carry OTHER names than the columns asked for
T_ROWS = (
    (CREATEROWS, False, ['a', 'b'], ['k', 'v'], [[1, 10], [2, 20], [2, None]], 0),      # Row(a=, b=), names list
     (CREATEROWS, False, ['x', 'y'], ['k', 'v'], [[1, 10], [2, 20], [2, None]], 2 + 4 + 8),  # namedtuple RDD, tuple of names
     (CREATEROWS, True, ['v', 'k'], ['k', 'v'], [[10, 1], [20, 2], [None, 2]], 1),        # Row class, struct permuted
     (CREATEROWS, True, ['a', 'b'], ['k', 'v'], [[1, 10], [2, 20], [2, None]], 2 + 16),   # namedtuple, DDL string
     (CREATEROWS, True, ['k', 'v', 'z'], ['k', 'v'], [[1, 10, 0], [2, 20, 0], [2, None, 0]], 0 + 4),  # Row(k=,v=,z=) RDD, struct subset
)


T_A_EMPTY = (CREATE, True, ['k', 'v'], [])


def menu_id(s, o):
    """operations on a range() frame (single column id)"""
    i = col('id')
    m = [(SELECT, s, [sx(i)]), (SELECT, s, [STAR, sx(add(i, lit(1)))]), (WITHCOL, s, 'id', lit(1)), (WITHCOL, s, 'n', i),
         (DROP, s, ['id']), (RENAME, s, 'id', 'k'), (TODF, s, ['k']), (UNION, s, o), (UNION, s, s), (UNIONBN, s, o),
         (CROSS, s, o), (SORT, s, [(i, False)]), (LIMIT, s, 2), (DISTINCT, s), (SAMPLE, s, False, 1, 0),
         (SAMPLE, s, True, 1, 2), (REPART, s, 2, []), (REPART, s, 2, [i]),
         (AGG, s, [], None, [(0, None, None), (1, i, None)], 0), (AGG, s, [i], None, [(0, None, 'count')], 0),
         (AGG, s, [], None, [(3, i, None)], 1), (AGG, s, [], None, [(2, i, 'm')], 2),
         (AGG, s, [i], ('id', None), [(1, i, None)], 0), (AGG, s, [i], ('id', None), [(1, i, None), (0, i, None)], 0),
         (AGG, s, [i], ('id', ['x']), [(1, i, None)], 0), (AGG, s, [], ('id', [1, 2]), [(1, i, None), (0, None, None)], 0)]
    for how in range(6):
        m.append((JOIN, s, o, how, ['id']))
        m.append((JOIN, o, s, how, ['id']))
    return m


T_A_STRICT = (CREATESTRICT, ['k', 'v'], [1, 2], [[1, 10], [2, 20], [2, None]])
T_B_STRICT = (CREATESTRICT, ['k', 'v'], [3, 5], [[2, 5], [3, 7], [4, 1]])


def menu(s, others):
    """Concrete operations applied to frame s (others: frames usable as second operand)."""
    k, v = col('k'), col('v')
    m = []
    for cols in ([sx(k)], [sx(v), sx(k)], [STAR], [STAR, sx(k)], [sx(k), sx(k)], [sx(add(k, lit(1)))],
                 [sx(alias(add(k, v), 's'))], [sx(alias(k, 'v')), sx(v)], [sx(lit(1)), sx(lit(None))], [sx(neg(k))],
                 [sx(alias(mul(v, lit(2)), 'v'))], []):
        m.append((SELECT, s, cols))
    K, V = col('K'), col('V')
    m.append((SELECT, s, [sx(K)]))
    m.append((SELECT, s, [sx(k), sx(V)]))
    m.append((SELECT, s, [sx(add(K, lit(1)))]))
    m.append((WITHCOL, s, 'K', lit(1)))
    m.append((WITHCOL, s, 'n', K))
    m.append((DROP, s, ['K']))
    m.append((RENAME, s, 'K', 'y'))
    m.append((JOIN, s, others[0], 0, ['K']))
    m.append((AGG, s, [K], None, [(1, v, None)], 0))
    m.append((AGG, s, [k], None, [(1, V, None)], 0))
    m.append((AGG, s, [K], ('v', None), [(0, v, None), (1, v, None)], 0))
    m.append((AGG, s, [k], ('V', ['x']), [(1, v, None)], 0))
    m.append((SORT, s, [(K, True)]))
    m.append((REPART, s, 2, [K]))
    for n, e in (('n', lit(1)), ('v', add(k, lit(1))), ('k', v), ('s', add(k, v))):
        m.append((WITHCOL, s, n, e))
    for cols in (['v'], ['k'], ['k', 'v'], ['*'], ['k', 'k'], ['v', 'v'], ['k', 'v', 'k'], ['v', 'k', 'v', 'v']):
        m.append((DROP, s, cols))
    # the same name more than once in other multi-name arguments
    m.append((SORT, s, [(k, True), (k, False)]))
    m.append((JOIN, s, others[0], 0, ['k', 'k']))
    m.append((JOIN, s, others[0], 3, ['k', 'v', 'k']))
    m.append((TODF, s, ['k', 'k']))
    m.append((RENAME, s, 'v', 'k'))
    m.append((REPART, s, 2, [k, k]))
    for cols in ([], ['k'], ['k', 'k'], ['v', 'k', 'v'], ['K']):
        m.append((DROPDUP, s, cols))
    for o, n in (('k', 'v'), ('v', 'w'), ('zz', 'y'), ('k', 'k')):
        m.append((RENAME, s, o, n))
    for names in (['a', 'b'], ['a'], ['a', 'b', 'c'], ['a', 'a']):
        m.append((TODF, s, names))
    for how in range(6):
        m.append((JOIN, s, others[0], how, ['k']))
    m.append((JOIN, s, s, 0, ['k']))
    m.append((JOIN, s, s, 3, ['k']))
    m.append((JOIN, s, others[0], 0, ['k', 'v']))
    m.append((JOIN, s, others[0], 1, ['k', 'v']))
    m.append((JOIN, s, others[0], 0, []))
    m.append((JOIN, s, others[-1], 3, ['v']))
    m.append((JOIN, s, others[0], 2, ['v']))
    m.append((CROSS, s, others[0]))
    m.append((CROSS, s, s))
    # the frame as SECOND operand of a fixed table
    for how in (0, 2, 3):
        m.append((JOIN, others[0], s, how, ['k']))
    m.append((CROSS, others[0], s))
    m.append((UNION, others[0], s))
    m.append((UNIONBN, others[0], s))
    for o in (others[0], s):
        m.append((UNION, s, o))
        m.append((UNIONBN, s, o))
    sumv = (1, v, None)
    m.append((AGG, s, [k], None, [sumv], 0))
    m.append((AGG, s, [k], None, [(0, None, 'count')], 0))
    m.append((AGG, s, [], None, [(0, None, None), (3, add(k, lit(1)), None)], 0))
    m.append((AGG, s, [k, k], None, [(0, None, 'count')], 0))
    m.append((AGG, s, [add(k, lit(1)), v], None, [(2, v, None), (0, v, None)], 0))
    m.append((AGG, s, [], None, [sumv], 1))
    m.append((AGG, s, [], None, [(1, v, 's'), sumv, sumv], 2))
    m.append((AGG, s, [k], ('v', None), [(0, v, None), sumv], 0))
    m.append((AGG, s, [k], ('v', None), [sumv], 0))
    m.append((AGG, s, [k], ('v', ['x', 'y']), [(1, v, 's')], 0))
    m.append((AGG, s, [k], ('v', [10, 20]), [sumv], 0))                 # int pivot values, one aggregate
    if s == 0:
        # ... aliased, a value listed twice (only on a single-partition base table: GroupedStats.mergeStats
        # merges a repeated pivot value once per occurrence, so the counts depend on the partitioning)
        m.append((AGG, s, [k], ('v', [20, 5, 20]), [(0, None, 'count')], 0))
    m.append((AGG, s, [], ('k', None), [(3, v, None)], 0))
    m.append((AGG, s, [k], ('v', [10, 99]), [(0, None, None), (3, v, 'm')], 0))
    m.append((AGG, s, [], ('k', [2, 'z']), [sumv, (2, k, None)], 0))
    for keys in ([(k, True)], [(v, False)], [(k, True), (v, False)], [(add(k, v), True)]):
        m.append((SORT, s, keys))
    for n in (0, 1, 2, 100):
        m.append((LIMIT, s, n))
    m.append((DISTINCT, s))
    for wr, a, mm in ((False, 0, 2), (True, 1, 3), (False, 1, 0), (False, 0, 0), (True, 2, 0)):
        m.append((SAMPLE, s, wr, a, mm))
    for n, cols in ((2, []), (3, [k]), (1, [])):
        m.append((REPART, s, n, cols))
    return m


def aliasing_family():
    """parent (every kind of operation whose result holds materialised Row objects, and the lazy ones for
    comparison) -> child -> sibling of the child -> second child; impl() looks at every frame again at
    the end, so a child that changes its parent's or a sibling's rows / fields is seen."""
    k, v = col('k'), col('v')
    parents = [(AGG, 0, [k], None, [(1, v, None)], 0), (AGG, 0, [k], ('v', None), [(1, v, None), (0, v, None)], 0),
               (AGG, 0, [], None, [(3, k, 'k')], 1), (SORT, 0, [(k, False)]), (LIMIT, 0, 2), (DISTINCT, 0),
               (DROPDUP, 0, ['k']), (UNION, 0, 1), (UNIONBN, 0, 1), (REPART, 0, 2, []), (REPART, 0, 2, [k]),
               (SAMPLE, 0, False, 1, 0), (CROSS, 0, 1), (JOIN, 0, 1, 3, ['k']), (SELECT, 0, [STAR]), (TODF, 0, ['k', 'v'])]
    children = [(RENAME, 2, 'k', 'z'), (RENAME, 2, 'k', 'v'), (DROP, 2, ['k']), (DROP, 2, ['k', 'k']),
                (SELECT, 2, [sx(k)]), (SELECT, 2, [STAR]), (WITHCOL, 2, 'k', lit(0)), (WITHCOL, 2, 'n', lit(0)),
                (TODF, 2, ['a', 'b', 'c', 'd', 'e'])]
    out = []
    for p in parents:
        for c in children:
            out.append([T_A, T_B, p, c, (LIMIT, 2, 1), (RENAME, 2, 'k', 'y'), (SORT, 2, [(k, True)]), (RENAME, 4, 'k', 'x')])
    return out


def ok_for_model(prog):
    fl = []
    for ins in prog:
        f = flags(ins, fl)
        if f is None:
            return False
        fl.append(f)
    return True


def exhaustive(rng, tier):
    base = [T_A, T_B]
    cases = []
    m1 = menu(0, [1])
    for op1 in m1:
        cases.append(base + [op1])
    pairs = []
    for op1 in m1:
        for op2 in menu(2, [1, 0]):
            pairs.append(base + [op1, op2])
    cases += aliasing_family()
    # the second operand holds the same column names in another order / twice
    for base in ([T_A, (CREATE, True, ['v', 'k'], [[5, 2], [7, 3], [1, None]])],
                 [T_A, (CREATE, False, ['v', 'v'], [[5, 2], [7, 3]])]):
        for op1 in menu(0, [1]):
            cases.append(base + [op1])
    for tr in T_ROWS:
        for op1 in menu(0, [1]):
            cases.append([tr, T_B, op1])
    # every operation on an EMPTY frame (no row to infer anything from), as first and as second operand
    for base in ([T_A_EMPTY, T_B], [T_A_EMPTY, T_A_EMPTY], [(RANGE, 3, 3, 1, 2), T_B],
                 [(RANGE, 0, 3, -1, 1), (RANGE, 5, 0, 1, 1)]):
        for op1 in menu(0, [1]) + ([] if base[0][0] != RANGE else menu_id(0, 1)):
            cases.append(base + [op1])
    # a StructType with non-nullable / metadata / IntegerType fields as either operand
    for base in ([T_A, T_B_STRICT], [T_A_STRICT, T_B], [T_A_STRICT, T_B_STRICT]):
        for op1 in menu(0, [1]):
            cases.append(base + [op1])
    pairs = [p for p in pairs if ok_for_model(p)]
    if tier == 'quick':
        pairs = rng.sample(pairs, 1700)
    return cases + pairs


NAMES = ['k', 'v', 'w', 'x']
VALS = [None, 0, 1, 2, 3, -1, 10]


def rand_rows_table(rng):
    """createDataFrame over Row / namedtuple objects with a renaming schema."""
    ncol = rng.choice([1, 2, 2, 2, 3])
    kind = rng.randrange(3)
    own = rng.sample(['a', 'b', 'c', 'k', 'v'], ncol)
    if kind == 0:
        own = sorted(own)
    by_struct = rng.random() < 0.4
    new = rng.sample(NAMES + ['y', 'z'], ncol)
    r = rng.random()
    if by_struct:
        if r < 0.3:
            names = list(own)
        elif r < 0.6:
            names = rng.sample(own, ncol)                     # a permutation: matched by name
        elif r < 0.8:
            names = new if rng.random() < 0.7 else [rng.choice(own)] + new[1:]   # names the rows do not have
        elif r < 0.9:
            names = own[:-1] if ncol > 1 else own + own       # fewer / repeated names
        else:
            names = own + [rng.choice(own)]
    else:
        if r < 0.15:
            names = []                                        # schema=None
        elif r < 0.65:
            names = new
        elif r < 0.8:
            names = new[:-1]                                  # only the first columns are renamed
        elif r < 0.9:
            names = [new[0]] * ncol                           # duplicate new names
        elif r < 0.95:
            names = list(own)
        else:
            names = new + ['zz']                              # too many names: IndexError
    nrow = rng.choice([0, 1, 2, 3, 3, 4]) if by_struct else rng.choice([1, 2, 3, 3, 4])
    data = [[rng.choice(VALS) for _ in range(ncol)] for _ in range(nrow)]
    if not by_struct and rng.random() < 0.9:
        for j in range(ncol):
            if all(d[j] is None for d in data):
                data[0][j] = rng.choice(VALS[1:])
    flavor = kind + (4 if rng.random() < 0.35 else 0)
    if by_struct:
        flavor += 16 if rng.random() < 0.25 else 0
    else:
        flavor += 8 if rng.random() < 0.3 else 0
    return (CREATEROWS, by_struct, own, names, data, flavor)


def rand_strict_table(rng):
    """tuples under a StructType whose fields are not nullable / carry metadata / are IntegerType"""
    ncol = rng.choice([1, 2, 2, 2, 3])
    names = rng.sample(NAMES, ncol) if rng.random() > 0.1 else [rng.choice(NAMES[:2]) for _ in range(ncol)]
    attrs = [rng.choice([1, 1, 1, 3, 5, 7, 0, 2, 4]) for _ in range(ncol)]
    if not any(a & 1 for a in attrs):
        attrs[0] |= 1
    nrow = rng.choice([0, 1, 2, 3, 3, 4])
    keep_valid = rng.random() < 0.9
    data = [[rng.choice(VALS[1:] if (a & 1 and keep_valid) else VALS) for a in attrs] for _ in range(nrow)]
    return (CREATESTRICT, names, attrs, data)


def rand_table(rng):
    if rng.random() < 0.15:
        return rand_strict_table(rng)
    if rng.random() < 0.22:
        return rand_rows_table(rng)
    if rng.random() < 0.12:
        a = rng.choice([0, 1, -2])
        r = rng.random()
        if r < 0.6:
            return (RANGE, a, a + rng.choice([1, 2, 3, 5]), rng.choice([1, 2]), rng.choice([1, 2, 3]))
        if r < 0.75:
            return (RANGE, a + rng.choice([1, 3, 4]), a, rng.choice([-1, -2]), rng.choice([1, 2, 3]))   # counting down
        # empty ranges: a == b, a > b with a positive step, a < b with a negative step (and rarely step 0)
        return rng.choice([(RANGE, a, a, 1, 1), (RANGE, a + 3, a, 1, 2), (RANGE, a, a + 3, -1, 2), (RANGE, 0, 0, 2, 3),
                           (RANGE, a, a + 2, 0, 1)])
    ncol = rng.choice([1, 2, 2, 2, 3])
    if rng.random() < 0.2:
        names = [rng.choice(NAMES[:2]) for _ in range(ncol)]
    else:
        names = rng.sample(NAMES, ncol)
    by_struct = rng.random() < 0.5
    nrow = rng.choice([0, 1, 2, 3, 3, 4]) if by_struct else rng.choice([1, 2, 3, 3, 4])
    data = [[rng.choice(VALS) for _ in range(ncol)] for _ in range(nrow)]
    if not by_struct:
        # schema inference needs a non-null value per column; with duplicate names keep it null-free
        if len(set(names)) < len(names):
            data = [[rng.choice(VALS[1:]) for _ in range(ncol)] for _ in range(nrow)]
        else:
            for j in range(ncol):
                if all(r[j] is None for r in data):
                    data[0][j] = rng.choice(VALS[1:])
        if rng.random() < 0.1 and ncol > 1:
            names = names[:-1]          # fewer names than columns: padded with _N
    return (CREATE, by_struct, names, data)


def rand_expr(rng, cols, depth=0):
    r = rng.random()
    if not cols or r < 0.12:
        return lit(rng.choice([None, 0, 1, 2, -3, 7]))
    if r < 0.6 or depth >= 2:
        return col(rng.choice(cols))
    if r < 0.75:
        return add(rand_expr(rng, cols, depth + 1), rand_expr(rng, cols, depth + 1))
    if r < 0.85:
        return mul(rand_expr(rng, cols, depth + 1), lit(rng.choice([2, -1, 0])))
    if r < 0.92:
        return neg(rand_expr(rng, cols, depth + 1))
    return alias(rand_expr(rng, cols, depth + 1), rng.choice(NAMES + ['s']))


def other_case(n):
    return n.upper() if n != n.upper() else n.lower()


def rand_name(rng, cols, wild=0.06):
    r = rng.random()
    if cols and r > wild:
        return rng.choice(cols)
    if cols and r > wild / 2:
        # the right column in another letter case: names are matched exactly, so this must raise
        return other_case(rng.choice(cols))
    return rng.choice(NAMES + ['zz'])


def rand_agg(rng, cols):
    fn = rng.randrange(4)
    arg = None if fn == 0 and rng.random() < 0.4 else rand_expr(rng, cols, 1)
    if arg is not None and arg[0] == 5:
        arg = arg[1]
    return (fn, arg, rng.choice([None, None, None, 's', 'count', 'v']))


def rand_op(rng, s, cols, fl, n_frames):
    """One random instruction on frame s whose live column list is cols."""
    o, v = fl[s]
    others = list(range(n_frames))
    other = rng.choice(others + [s])
    kinds = [SELECT] * 3 + [WITHCOL] * 2 + [DROP] * 2 + [RENAME] * 2 + [TODF, CROSS, UNION, UNIONBN, SORT, SORT,
                                                                      LIMIT, LIMIT, REPART]
    if v:
        kinds += [JOIN] * 5 + [AGG] * 4 + [DISTINCT, DROPDUP, SAMPLE, SAMPLE]
    op = rng.choice(kinds)
    uniq = [c for c in cols if cols.count(c) == 1]
    if op == SELECT:
        n = rng.choice([1, 1, 2, 2, 3])
        items = []
        for _ in range(n):
            r = rng.random()
            if r < 0.15:
                items.append(STAR)
            elif r < 0.6:
                items.append(sx(col(rand_name(rng, cols))))
            else:
                items.append(sx(rand_expr(rng, cols)))
        return (SELECT, s, items)
    if op == WITHCOL:
        return (WITHCOL, s, rand_name(rng, cols, 0.5), rand_expr(rng, uniq or cols))
    if op == DROP:
        pool = uniq if rng.random() < 0.85 else cols
        if not pool:
            return (LIMIT, s, 1)
        names = rng.sample(pool, min(len(pool), rng.choice([1, 1, 2])))
        if rng.random() < 0.3:
            # the same name more than once, in front / in between / at the end
            names.insert(rng.randrange(len(names) + 1), rng.choice(names))
        return (DROP, s, names)
    if op == RENAME:
        return (RENAME, s, rand_name(rng, cols, 0.15), rng.choice(NAMES + ['y']))
    if op == TODF:
        n = max(0, len(cols) + rng.choice([0, 0, 0, 0, -1, 1]))
        return (TODF, s, [rng.choice(NAMES + ['a', 'b', 'c']) for _ in range(n)])
    if op == JOIN:
        if not fl[other][1]:
            other = s
        on_n = rng.choice([1, 1, 1, 1, 2, 0])
        on = []
        for _ in range(on_n):
            on.append(rand_name(rng, cols, 0.08))
        if rng.random() < 0.25:
            s, other = other, s
        return (JOIN, s, other, rng.randrange(6), on)
    if op in (CROSS, UNION, UNIONBN):
        # either operand order: the frame under construction is also used as the second operand
        return (op, s, other) if rng.random() < 0.7 else (op, other, s)
    if op == AGG:
        nk = rng.choice([0, 1, 1, 1, 2])
        keys = []
        for _ in range(nk):
            keys.append(col(rand_name(rng, cols, 0.07)) if rng.random() < 0.8 else rand_expr(rng, cols, 1))
        keys = [kx[1] if kx[0] == 5 else kx for kx in keys]
        aggs = [rand_agg(rng, cols) for _ in range(rng.choice([1, 1, 2, 2, 3]))]
        r = rng.random()
        pivot = None
        via = 0
        if r < 0.3 and cols:
            pc = rand_name(rng, cols, 0.07)
            pr = rng.random()
            if pr < 0.45:
                pv = None
            elif pr < 0.75:
                pv = [rng.choice(['x', 'y', 'p']) for _ in range(rng.choice([1, 2]))]
            else:
                pv = [rng.choice([0, 1, 2, 10, 'x']) for _ in range(rng.choice([0, 1, 2, 3]))]
            if pv is not None:
                pv = [x for i, x in enumerate(pv) if x not in pv[:i]]
            pivot = (pc, pv)
        elif not keys:
            via = rng.choice([0, 1, 2])
        return (AGG, s, keys, pivot, aggs, via)
    if op == SORT:
        keys = []
        for _ in range(rng.choice([1, 1, 2])):
            e = col(rand_name(rng, cols, 0.07)) if rng.random() < 0.75 else rand_expr(rng, cols, 1)
            if e[0] == 5:
                e = e[1]
            keys.append((e, rng.random() < 0.6))
        return (SORT, s, keys)
    if op == LIMIT:
        return (LIMIT, s, rng.choice([0, 1, 1, 2, 2, 3, 50]))
    if op == DISTINCT:
        return (DISTINCT, s)
    if op == DROPDUP:
        n = rng.choice([0, 1, 1, 2, 3])
        return (DROPDUP, s, [rand_name(rng, cols, 0.07) for _ in range(n)])
    if op == SAMPLE:
        r = rng.random()
        if r < 0.25:
            return (SAMPLE, s, False, rng.choice([0, 1]), 0)
        wr = rng.random() < 0.5
        return (SAMPLE, s, wr, rng.randrange(3), rng.choice([2, 2, 3, 0]) if wr else 2)
    if op == REPART:
        cols_ = [] if rng.random() < 0.6 or not cols else [col(rand_name(rng, cols, 0.07))]
        return (REPART, s, rng.choice([1, 2, 3, 4]), cols_)
    raise ValueError(op)


def random_program(rng, mods, max_ops=4):
    """Builds a program step by step, running the real implementation on the prefix to learn the live
    column list of every frame (the generator never looks at the Coq model)."""
    Context, SparkSession = mods[0], mods[1]
    spark = SparkSession(Context())
    prog, dfs, fl, cols = [], [], [], []

    def push(ins):
        f = flags(ins, fl)
        if f is None:
            return False
        prog.append(ins)
        try:
            df = exec_step(ins, dfs, spark, mods)
            if len(df.collect()) > 30:
                # self joins / crossJoins multiply rows: keep the tables small
                prog.pop()
                return False
            c = [fld.name for fld in df._jdf.bound_schema.fields]
        except Exception:  # pylint: disable=broad-except
            return False
        dfs.append(df)
        fl.append(f)
        cols.append(c)
        return True

    for _ in range(rng.choice([1, 2, 2, 3])):
        t = rand_table(rng)
        if not push(t):
            return prog
    n_ops = rng.choice([1, 2, 3, 3, 4, 4, 4]) if max_ops >= 4 else max_ops
    cur = len(dfs) - 1
    for _ in range(n_ops):
        s = cur if rng.random() < 0.85 else rng.randrange(len(dfs))
        ins = rand_op(rng, s, cols[s], fl, len(dfs))
        if not push(ins):
            break
        cur = len(dfs) - 1
    return prog


def load_corpus():
    import glob
    import json
    import os

    from common.coqlit import uncanon
    root = os.path.join(os.environ.get('VERIF_ROOT', '/verif'), 'corpus', ID)
    out = []
    for p in sorted(glob.glob(os.path.join(root, '*.json'))):
        out.append(uncanon(json.load(open(p))['case']))
    return out


def _listify(x):
    if isinstance(x, tuple):
        return tuple(_listify(y) for y in x)
    if isinstance(x, list):
        return [_listify(y) for y in x]
    return x


def generate(rng, tier):
    mods = _imports()
    cases = load_corpus()
    cases += exhaustive(rng, tier)
    n = 1500 if tier == 'quick' else 20000
    for _ in range(n):
        p = random_program(rng, mods)
        if p:
            cases.append(p)
    return [_listify(c) for c in cases]


# ----------------------------------------------------------------------------------------------
# oracle-only checks with the REAL samplers (the model cannot predict which rows a sampler takes):
#  (a) seeded samples at interior fractions, (b) UNSEEDED samples followed by further operations.
# For every DataFrame built: the property's statement on the observation (all of count(), collect(),
# df.rdd.collect() and a second collect() on the same object agree), two observations are equal, the
# sample has the parent's columns and only rows of the parent (a sub-multiset without replacement).
def _multiset(rows):
    d = {}
    for f, v in rows:
        key = (tuple(f), tuple(v))
        d[key] = d.get(key, 0) + 1
    return d


def _check_frame(df, site, note):
    o = observe(df, True, True)
    res = oracle([(SAMPLE, 0, False, 0, 1)], ([o], None))
    if res is not None:
        return o, (res[0].replace('sample:', site + ':'), f'{res[1]} ({note})')
    o2 = observe(df, True, True)
    if o != o2:
        return o, (f'{site}:recomputation-differs', f'two evaluations of the same DataFrame differ ({note})')
    return o, None


def extra_checks(rng, tier, workdir):
    mods = _imports()
    Context, SparkSession, F = mods[0], mods[1], mods[2]
    n = 120 if tier == 'quick' else 1200
    for it in range(n):
        spark = SparkSession(Context())
        t = rand_table(rng)
        if t[0] == CREATEROWS:
            t = (CREATE, True, list(t[3]) or ['k'], [])
        if t[0] == CREATESTRICT:
            t = (CREATE, True, list(t[1]), [])
        if t[0] == CREATE and len(t[3]) < 4:
            # enough rows for two independent draws to differ
            w = len(t[3][0]) if t[3] else len(t[2])
            t = (t[0], t[1], t[2], t[3] + [[rng.choice(VALS[1:]) for _ in range(w)] for _ in range(4)])
        try:
            df = exec_step(t, [], spark, mods)
            parent = observe(df, True, True)
        except Exception:  # pylint: disable=broad-except
            continue
        wr = rng.random() < 0.4
        frac = rng.choice([0.3, 0.5, 0.7, 1.5 if wr else 0.6])
        seeded = it % 2 == 0
        seed = rng.randrange(1000) if seeded else None
        call = f'sample({wr}, {frac}' + (f', {seed})' if seeded else ')  # no seed')
        prog = [t, ('sample', wr, frac, seed)]
        sdf = df.sample(wr, frac, seed) if seeded else df.sample(wr, frac)
        o, bad = _check_frame(sdf, 'sample', call)
        if bad is None:
            if o[0] != parent[0]:
                bad = ('sample:columns-changed', f'{call}: columns {o[0]} of parent {parent[0]}')
            else:
                pm, sm = _multiset(parent[2]), _multiset(o[2])
                if any(key not in pm or (not wr and c > pm[key]) for key, c in sm.items()):
                    bad = ('sample:rows-not-from-parent', f'{call}: sampled rows are not a sub-multiset of the parent')
        if bad is not None:
            yield (bad[0], 'real sampler', bad[1], prog)
            continue
        # further operations on top of the sample: every DataFrame down the chain must stay consistent
        dfs, fl, cols = [sdf], [(True, True)], [list(o[0])]
        for _ in range(rng.choice([0, 1, 2])):
            ins = rand_op(rng, len(dfs) - 1, cols[-1], fl, len(dfs))
            prog.append(ins)
            try:
                ndf = exec_step(ins, dfs, spark, mods)
                o, bad = _check_frame(ndf, OPNAMES[ins[0]] + '-after-sample', call)
            except Exception:  # pylint: disable=broad-except
                break
            if bad is not None:
                yield (bad[0], 'real sampler', bad[1], prog)
                break
            dfs.append(ndf)
            fl.append((True, True))
            cols.append(list(o[0]))
