"""Fault injection for the local file system and for partition computations (C09).

`FaultFS(root, wfaults)` is a context manager that replaces `pysparkling.fileio.fs.local.Local.dump` by a
wrapper that counts the dump calls and makes the k-th call fail as the plan says:

  mode 0 'before' : raise InjectedWriteFault before the real dump is entered (nothing happens)
  mode 1 'mkdir'  : the real dump runs, but `io.open` (as seen by local.py) raises -- the directory has been
                    created, the file has not
  mode 2 'torn' j : the real dump runs on a stream that yields the first j bytes and then raises -- the file
                    has been created/truncated and holds a prefix of its content

The real `Local.dump` code is executed in every mode but 'before', so its own order (makedirs, open, write)
is what is observed.  After every dump call (failed or not) the state of `root` is recorded in `.snapshots`.

`snapshot(root, ext)` describes the target path (whose name ends with the codec extension `ext`, '' for none):
(0,) absent | (1, bytes) file | (2, [((kind, idx), bytes), ...]) directory with its entries in byte order of their
names; contents are DECODED by the codec their file name selects (gzip output carries a timestamp; undecodable and
empty contents stay raw); names: part-NNNNN<suffix> -> (0, N), exactly _SUCCESS -> (1, 0),
old-K -> (2, K); any other name (or a sub-directory) -> (3, 0): not something a save may create (the model never
produces it, the oracle reports it).
"""
import io
import os
import re

from pysparkling.fileio import codec as _codec
from pysparkling.fileio.fs import local as _local


class InjectedWriteFault(Exception):
    pass


class InjectedComputeFault(Exception):
    pass


BEFORE, MKDIR, TORN = 0, 1, 2

# exception classes a fault can be raised with
INJECTED, OSERROR, STOP, GENEXIT, NATURAL = 0, 1, 2, 3, 4


def _exc(cls, own, msg):
    """cls 0: the injector's own Exception subclass `own`; 1: OSError; 2: StopIteration (an Exception that
    generators and iterator consumers treat specially); 3: GeneratorExit (a BaseException that `except Exception`
    does not catch)."""
    if cls == OSERROR:
        return OSError(msg)
    if cls == STOP:
        return StopIteration(msg)
    if cls == GENEXIT:
        return GeneratorExit(msg)
    return own(msg)

_PART = re.compile(r'^part-(\d{5,})$')
_OLD = re.compile(r'^old-(\d)$')


def codec_suffix(ext):
    """What the savers append to part names for a target with codec extension `ext`: its tail from the last dot."""
    return ext[ext.rfind('.'):] if ext else ''


def name_code(fname, sfx=''):
    """part-NNNNN<sfx> -> (0, N); exactly _SUCCESS -> (1, 0); old-K -> (2, K); anything else -> (3, 0)."""
    if fname == '_SUCCESS':
        return (1, 0)
    stem = fname[:len(fname) - len(sfx)] if sfx and fname.endswith(sfx) else (fname if not sfx else None)
    if stem is not None:
        m = _PART.match(stem)
        if m:
            return (0, int(m.group(1)))
    m = _OLD.match(fname)
    if m:
        return (2, int(m.group(1)))
    return (3, 0)    # not a name a save may create (a temporary file left behind, '_SUCCESS.gz', ...); judged by the oracle


def name_of(code, sfx=''):
    kind, idx = code
    if kind == 0:
        return f'part-{idx:05d}{sfx}'
    if kind == 1:
        return '_SUCCESS'
    return f'old-{idx}'


def decoded(path, raw):
    """File content as the reader would see it: decompressed by the codec the file name selects; an empty file
    and content the codec cannot decode (torn writes, foreign files) are returned as they are."""
    if not raw:
        return raw
    cls = _codec.get_codec(path)
    if cls is _codec.Codec or cls is _codec.NoCodec:
        return raw
    try:
        return cls().decompress(io.BytesIO(raw)).read()
    except Exception:  # pylint: disable=broad-except
        return raw


def snapshot(root, ext=''):
    sfx = codec_suffix(ext)
    if not os.path.lexists(root):
        return (0,)
    if os.path.isfile(root):
        with open(root, 'rb') as f:
            return (1, decoded(root, f.read()))
    entries = []
    for fname in sorted(os.listdir(root), key=lambda s: s.encode()):
        p = os.path.join(root, fname)
        if not os.path.isfile(p):
            entries.append(((3, 0), b''))
            continue
        with open(p, 'rb') as f:
            entries.append((name_code(fname, sfx), decoded(p, f.read())))
    return (2, entries)


def materialise(root, pre, ext=''):
    """Create the pre-state `pre` (same encoding as snapshot; contents written as they are) at `root`."""
    sfx = codec_suffix(ext)
    if pre[0] == 1:
        with open(root, 'wb') as f:
            f.write(pre[1])
    elif pre[0] == 2:
        os.makedirs(root)
        for code, content in pre[1]:
            with open(os.path.join(root, name_of(tuple(code), sfx)), 'wb') as f:
                f.write(content)


class _FailingOpenIO:
    """Stands in for the `io` module inside fileio/fs/local.py during one dump call."""

    def __init__(self, cls):
        self._cls = cls

    def __getattr__(self, item):
        return getattr(io, item)

    def open(self, *_a, **_k):
        raise _exc(self._cls, InjectedWriteFault, 'open')


class FaultFS:
    def __init__(self, root, wfaults, ext=''):
        self.root = root
        self.ext = ext
        self.wfaults = {int(w[0]): (int(w[1]), int(w[2]), int(w[3]) if len(w) > 3 else INJECTED) for w in wfaults}
        self.calls = 0
        self.snapshots = []
        self._orig = None

    def __enter__(self):
        self._orig = _local.Local.dump
        outer = self

        def dump(fs_self, stream):
            return outer._dump(fs_self, stream)
        _local.Local.dump = dump
        return self

    def __exit__(self, *exc):
        _local.Local.dump = self._orig
        return False

    def _dump(self, fs_self, stream):
        k = self.calls
        self.calls += 1
        fault = self.wfaults.get(k)
        try:
            if fault is None:
                return self._orig(fs_self, stream)
            mode, j, cls = fault
            if mode == BEFORE:
                raise _exc(cls, InjectedWriteFault, f'dump call {k}')
            if mode == MKDIR:
                _local.io = _FailingOpenIO(cls)
                try:
                    return self._orig(fs_self, stream)
                finally:
                    _local.io = io
            data = b''.join(stream)

            def torn():
                # a generator: a StopIteration raised here reaches the consumer as RuntimeError (PEP 479)
                yield data[:j]
                raise _exc(cls, InjectedWriteFault, f'dump call {k} after {j} bytes')
            return self._orig(fs_self, torn())
        finally:
            self.snapshots.append(snapshot(self.root, self.ext))


class PartitionData:
    """f(index, iterator) for RDD.mapPartitionsWithIndex: partition `i` yields data[i] (no faults)."""

    def __init__(self, data):
        self.data = data

    def __call__(self, idx, _it):
        return iter(list(self.data[idx]))


class FaultyPartitions:
    """f(index, iterator) for RDD.mapPartitionsWithIndex, applied on top of PartitionData: passes the elements of
    the partition through; while `armed`, attempt `a` (1-based, counted per partition) fails when the plan has an
    entry (i, a, cls, lazy, pos): eagerly (at the call of the partition function) or lazily -- a generator that
    passes `pos` elements through (all of them when the partition is shorter: the fault then comes after the last
    element) and raises when the next one is asked for, like a mapped function raising on element `pos` -- with an
    exception of class `cls`; cls NATURAL = the partition function does `next()` on an empty iterator, the classic
    head-of-partition idiom, which raises StopIteration by itself.  Not armed (while the harness materialises a
    persisted data set beforehand): plain pass-through, attempts not counted."""

    def __init__(self, cfaults):
        self.cfaults = {(int(c[0]), int(c[1])): (int(c[2]) if len(c) > 2 else INJECTED, bool(c[3]) if len(c) > 3 else False,
                                                 int(c[4]) if len(c) > 4 else 1)
                        for c in cfaults}
        self.attempts = {}
        self.armed = True

    def __call__(self, idx, it):
        if not self.armed:
            return it
        a = self.attempts.get(idx, 0) + 1
        self.attempts[idx] = a
        fault = self.cfaults.get((idx, a))
        if fault is not None:
            cls, lazy, pos = fault
            if cls == NATURAL:
                return [next(iter(()))]
            if not lazy:
                raise _exc(cls, InjectedComputeFault, f'partition {idx} attempt {a}')
            return self._lazy_fault(idx, a, cls, pos, it)
        return it

    @staticmethod
    def _lazy_fault(idx, a, cls, pos, it):
        for _, x in zip(range(pos), it):
            yield x
        raise _exc(cls, InjectedComputeFault, f'partition {idx} attempt {a} (lazy, element {pos})')
