#!/bin/bash
# Build the whole Coq development from the files on disk (offline).  Kernels are regenerated from /repo first.
set -u
export VERIF_ROOT="${VERIF_ROOT:-$(cd "$(dirname "$0")" && pwd)}"
export VERIF_REPO="${VERIF_REPO:-/repo}"
cd "$VERIF_ROOT" || exit 2
mkdir -p .work evidence replays
export PYTHONPATH="$VERIF_REPO:$VERIF_ROOT/py"
/venv/bin/python translator/gen.py || echo "setup: translator reported failures (reported again by the checks)"
/venv/bin/python - <<'PY'
import sys
import os
sys.path.insert(0, os.path.join(os.environ['VERIF_ROOT'], 'py'))
from common import build
build.coq_project()
PY
cd coq && timeout 3000 make -k -j16 > ../.work/setup_make.log 2>&1
rc=$?
tail -3 ../.work/setup_make.log
echo "setup: make exit $rc"
exit 0
