#!/bin/bash
# tools/verify_round.sh <suffix>: confirm (tools/verify_seed.sh) every candidate /tmp/mut/C??<suffix>/m*/ that has
# patch.diff, demo.py and meta.json and no verified.json yet; one line per candidate in .work/verify_<suffix>.txt
sfx=$1
for d in /tmp/mut/C??$sfx/m*/; do
  [ -f "$d/patch.diff" ] && [ -f "$d/demo.py" ] && [ -f "$d/meta.json" ] || continue
  [ -f "$d/verified.json" ] && continue
  /verif/tools/verify_seed.sh "$d" 2>&1 | grep '^RESULT' >> /verif/.work/verify_$sfx.txt
done
