#!/bin/bash
# Run a property's check against a seeded change WITHOUT touching /repo or /verif:
# a scratch worktree of /repo gets the patch, a scratch copy of /verif runs the check against it.
# usage: tools/seeded_scratch.sh <dir containing patch.diff and meta.json> [tier] [property override]
d=$(readlink -f "$1"); tier=${2:-quick}
pid=${3:-$(python3 -c "import json;print(json.load(open('$d/meta.json'))['property'])")}
tag=$(basename "$(dirname "$d")")_$(basename "$d")_$$
wt=/tmp/seedwt_$tag; vc=/tmp/seedv_$tag
git -C /repo worktree add -q --detach "$wt" HEAD || exit 2
if ! git -C "$wt" apply "$d/patch.diff"; then echo "$tag: patch does not apply"; git -C /repo worktree remove --force "$wt"; exit 2; fi
rsync -a --exclude .git --exclude .work --exclude replays /verif/ "$vc/"
mkdir -p "$vc/.work"
VERIF_ROOT="$vc" VERIF_REPO="$wt" timeout 2400 "$vc/check" $pid --tier $tier > "/verif/.work/seeded_$tag.log" 2>&1; rc=$?
[ $rc = 124 ] && echo "CHECK-TIMEOUT" >> "/verif/.work/seeded_$tag.log"
mkdir -p /verif/.work/seeded_replays
cp "$vc"/replays/$pid/*.json /verif/.work/seeded_replays/ 2>/dev/null
echo "$tag property=$pid rc=$rc :: $(grep '^VIOLATION' /verif/.work/seeded_$tag.log | head -1 | sed "s#$vc#/verif#") :: $(grep -m1 'tier=' /verif/.work/seeded_$tag.log | cut -c1-200)"
git -C /repo worktree remove --force "$wt"; rm -rf "$vc"
