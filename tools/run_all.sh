#!/bin/bash
# Run every claimed check (quick by default) on the current /repo and summarise.  usage: tools/run_all.sh [quick|thorough] [seed]
cd /verif || exit 2
tier=${1:-quick}; seed=${2:-0}
mkdir -p .work/runall
ids=$(python3 -c "import json;print(' '.join(c['property_id'] for c in json.load(open('MANIFEST.json'))['checks']))")
fail=0
for id in $ids; do
  start=$(date +%s)
  VERIF_SEED=$seed ./check $id --tier $tier > .work/runall/$id.log 2>&1; rc=$?
  end=$(date +%s)
  echo "$id rc=$rc $((end-start))s $(grep -c '^VIOLATION' .work/runall/$id.log) violation-lines; $(grep -c '^KNOWN-FINDING' .work/runall/$id.log) known; $(tail -1 .work/runall/$id.log | cut -c1-160)"
  [ $rc -ne 0 ] && fail=1
done
exit $fail
