#!/usr/bin/env python3
"""tools/adopt_round.py <suffix>: adopt every confirmed candidate of /tmp/mut/C??<suffix>/m*/ (verified.json confirmed,
not adopted before: no seeded/*/patch.diff with the same content) as seeded/<Cxx>_m<next free number>; prints the new names."""
import glob, hashlib, json, os, re, subprocess, sys
sfx = sys.argv[1]
have = {hashlib.md5(open(p, 'rb').read()).hexdigest() for p in glob.glob('/verif/seeded/*/patch.diff') + glob.glob('/verif/seeded/retired/*/patch.diff')}
new = []
for d in sorted(glob.glob('/tmp/mut/C??%s/m*/' % sfx)):
    v = os.path.join(d, 'verified.json')
    if not os.path.exists(v):
        continue
    if not json.load(open(v))['confirmed']:
        print('NOT CONFIRMED', d, json.load(open(v)), file=sys.stderr)
        continue
    h = hashlib.md5(open(os.path.join(d, 'patch.diff'), 'rb').read()).hexdigest()
    if h in have:
        continue
    pid = re.search(r'/(C\d\d)', d).group(1)
    nums = [int(re.search(r'_m(\d+)$', p).group(1)) for p in glob.glob('/verif/seeded/%s_m*' % pid) + glob.glob('/verif/seeded/retired/%s_m*' % pid)]
    name = '%s_m%d' % (pid, max(nums + [0]) + 1)
    subprocess.check_call(['python3', '/verif/tools/adopt_seed.py', d, name], stdout=subprocess.DEVNULL)
    have.add(h)
    new.append(name)
print(' '.join(new))
