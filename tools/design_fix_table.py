#!/usr/bin/env python3
"""Regenerate the table of repaired defects in DESIGN.md section 5 from known_findings.json and /repo's log."""
import json
import re
import subprocess

p = '/verif/DESIGN.md'
s = open(p).read()
kf = json.load(open('/verif/known_findings.json'))['findings']
seen = {}
for e in kf:
    if 'commit' in e:
        seen.setdefault(e['commit'], [[], e['what']])[0].append(e['property'])
rows = []
order = subprocess.check_output(['git', '-C', '/repo', 'log', '--reverse', '--format=%H %s'], text=True).strip().split('\n')[1:]
for line in order:
    h, subj = line.split(' ', 1)
    props, what = seen.get(h, (['?'], ''))
    rows.append(f"| {'/'.join(props)} | `{h[:7]}` | {subj[5:]} | {what} |")
head = '| prop | fix commit | repair | what failed before |\n|---|---|---|---|\n'
m = re.search(re.escape(head) + r'(?:\|.*\n)+', s)
s = s[:m.start()] + head + '\n'.join(rows) + '\n' + s[m.end():]
open(p, 'w').write(s)
print(len(rows), 'rows')
