#!/usr/bin/env python3
"""Copy a confirmed candidate seeded change into /verif/seeded/<name>/ (patch.diff, demo.py, meta.json)."""
import json
import os
import shutil
import sys

src, name = sys.argv[1], sys.argv[2]
ver = json.load(open(os.path.join(src, 'verified.json')))
assert ver['confirmed'], ver
dst = os.path.join('/verif/seeded', name)
os.makedirs(dst, exist_ok=True)
for f in ('patch.diff', 'demo.py'):
    shutil.copy(os.path.join(src, f), os.path.join(dst, f))
meta = json.load(open(os.path.join(src, 'meta.json')))
meta['confirmed_by_lead'] = {
    'ran': 'tools/verify_seed.sh: patch applied to a scratch worktree of /repo HEAD; demo.py on /repo (clean) and on the '
           'changed worktree; full pinned test suite with the change, compared with BASELINE.stable_pass',
    'demo_on_clean_rc': ver['demo_on_clean_rc'], 'demo_on_changed_rc': ver['demo_on_changed_rc'],
    'baseline_tests_missing_with_change': ver['baseline_tests_missing_with_change'],
}
out = open(os.path.join(src, 'demo_changed.out')).read().strip().split('\n')
meta['demo_output_on_changed'] = out[-1][:400] if out else ''
json.dump(meta, open(os.path.join(dst, 'meta.json'), 'w'), indent=1)
print('adopted', dst)
