#!/bin/bash
# Confirm a candidate seeded change: patch applies to /repo HEAD, demo passes on the clean tree and fails on the
# changed tree, and the pinned test suite still passes with the change.  usage: tools/verify_seed.sh <dir>
d=$(readlink -f "$1")
wt=/tmp/verify_wt_$$
git -C /repo worktree add -q --detach "$wt" HEAD || exit 2
trap 'git -C /repo worktree remove --force "$wt" >/dev/null 2>&1' EXIT
cd "$wt"
if ! git apply "$d/patch.diff"; then echo "RESULT $d patch-does-not-apply"; exit 1; fi
(cd /tmp && timeout 600 /venv/bin/python "$d/demo.py" /repo > "$d/demo_clean.out" 2>&1); rc_clean=$?
(cd /tmp && timeout 600 /venv/bin/python "$d/demo.py" "$wt" > "$d/demo_changed.out" 2>&1); rc_changed=$?
junit=/tmp/verify_junit_$$.xml
run_suite() {  # serialised: the TCP streaming tests bind fixed ports
  flock /tmp/verify_seed.lock env PYTHONPATH="$wt" timeout 1500 /venv/bin/python -m pytest -q -p no:cacheprovider --timeout=900 --continue-on-collection-errors --junitxml=$junit "$@" > "$d/pytest.out" 2>&1
}
count_missing() {
python3 - "$junit" "$1" <<'PY'
import json,sys,xml.etree.ElementTree as ET
base=json.load(open('/root/.vp/BASELINE.json'))
passed=set()
for tc in ET.parse(sys.argv[1]).getroot().iter('testcase'):
    if not any(ch.tag in ('failure','error','skipped') for ch in tc):
        passed.add(f"{tc.get('classname')}::{tc.get('name')}")
prev=set(json.load(open(sys.argv[2]))) if len(sys.argv)>2 and sys.argv[2] else None
want=[t for t in base['stable_pass'] if (prev is None or t in prev)]
miss=[t for t in want if t not in passed]
json.dump(miss,open(sys.argv[1]+'.missing','w'))
print(len(miss))
PY
}
run_suite
missing=$(count_missing "")
if [ "$missing" != "0" ] && [ "$missing" -lt 8 ]; then
  # port clashes with concurrently running suites make the TCP tests flaky: re-run the missing tests once, alone
  cp $junit.missing $junit.first
  files=$(python3 -c "
import json;m=json.load(open('$junit.first'));print(' '.join(sorted({'pysparkling/'+'/'.join(t.split('::')[0].split('.')[1:-1])+'.py' if t.split('::')[0].split('.')[-1][0].isupper() else 'pysparkling/'+'/'.join(t.split('::')[0].split('.')[1:])+'.py' for t in m})))")
  sleep 5
  run_suite $files
  missing=$(count_missing "$junit.first")
fi
rm -f $junit $junit.missing $junit.first
echo "RESULT $d demo_clean_rc=$rc_clean demo_changed_rc=$rc_changed baseline_missing=$missing :: $(tail -1 "$d/demo_changed.out" | cut -c1-150)"
python3 - "$d" $rc_clean $rc_changed $missing <<'PY'
import json,sys
d,rc1,rc2,miss=sys.argv[1],int(sys.argv[2]),int(sys.argv[3]),int(sys.argv[4])
json.dump({'demo_on_clean_rc':rc1,'demo_on_changed_rc':rc2,'baseline_tests_missing_with_change':miss,
           'confirmed': rc1==0 and rc2!=0 and miss==0}, open(d+'/verified.json','w'), indent=1)
PY
