#!/bin/bash
# tools/seed_sweep.sh <tier> <seed>...   -- run every claimed check for each seed, append one line per run to .work/sweep_<tier>.txt
cd /verif; tier=$1; shift
for seed in "$@"; do tools/run_all.sh $tier $seed 2>&1 | sed "s/^/seed=$seed /" >> .work/sweep_$tier.txt; done
