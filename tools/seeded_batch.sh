#!/bin/bash
# Run tools/seeded_scratch.sh for the given seeded/<name> directories, N at a time; results appended to .work/seeded_results.txt
cd /verif
par=${PAR:-3}
printf '%s\n' "$@" | xargs -P $par -I{} bash -c 'tools/seeded_scratch.sh {} quick >> .work/seeded_results.txt 2>&1'
