#!/usr/bin/env python3
"""Run the repository's pinned test suite (guard OFF) and compare with /root/.vp/BASELINE.json.

Exit 0 iff every test in BASELINE.stable_pass passes.
"""
import json
import os
import subprocess
import sys
import tempfile
import xml.etree.ElementTree as ET

base = json.load(open('/root/.vp/BASELINE.json'))
fd, junit = tempfile.mkstemp(suffix='.xml', dir='/verif/.work' if os.path.isdir('/verif/.work') else None)
os.close(fd)
env = dict(os.environ)
env.pop('PYSPARKLING_VERIF', None)
cmd = base['cmd'].replace('<file>', junit)
p = subprocess.run(cmd, shell=True, env=env, stdout=subprocess.PIPE, stderr=subprocess.STDOUT, text=True)
passed = set()
for tc in ET.parse(junit).getroot().iter('testcase'):
    if not any(ch.tag in ('failure', 'error', 'skipped') for ch in tc):
        passed.add(f"{tc.get('classname')}::{tc.get('name')}")
os.unlink(junit)
missing = [t for t in base['stable_pass'] if t not in passed]
print(f"baseline: {len(base['stable_pass'])} expected, {len(base['stable_pass']) - len(missing)} passed")
for t in missing:
    print('MISSING', t)
if missing:
    print(p.stdout[-3000:])
sys.exit(1 if missing else 0)
