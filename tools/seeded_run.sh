#!/bin/bash
# Apply a seeded change to /repo, run the check of the property it breaks, undo it straight afterwards.
# usage: tools/seeded_run.sh seeded/<name> [tier]     (expects seeded/<name>/patch.diff and meta.json with "property")
cd /verif || exit 2
d=$1; tier=${2:-quick}
pid=$(python3 -c "import json,sys;print(json.load(open('$d/meta.json'))['property'])")
if [ -n "$(git -C /repo status --porcelain --untracked-files=no)" ]; then echo "/repo is not clean"; exit 2; fi
git -C /repo apply "$PWD/$d/patch.diff" || { echo "patch does not apply"; exit 2; }
./check $pid --tier $tier > .work/seeded_$(basename $d).log 2>&1; rc=$?
git -C /repo checkout -- .
echo "$(basename $d) property=$pid rc=$rc :: $(grep '^VIOLATION' .work/seeded_$(basename $d).log | head -2 | tr '\n' ' ')"
exit 0
