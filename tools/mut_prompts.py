#!/usr/bin/env python3
"""Write the prompts for one more round of independent seeded-change agents: /tmp/mut/<Cxx><suffix>/PROMPT.txt.
The prompt holds the property text only (nothing from /verif's machinery) plus one line per change that
earlier rounds already produced, so that the new ones use other sites and mechanisms."""
import glob, json, os, re, sys
suffix = sys.argv[1]
root = os.path.dirname(os.path.dirname(os.path.abspath(__file__)))
tmpl = open(os.path.join(root, 'tools', 'mut_prompt.txt')).read()
extra_head = '''

Additional constraints for this round: earlier rounds already produced the changes listed below. Choose DIFFERENT code sites and mechanisms, and prefer clauses, operations and configurations of the property that these do not touch (read the statement again clause by clause, read the code paths each clause runs through, and list, for yourself, which clause x code-path combinations are still uncovered before choosing). Favour changes whose trigger is a COMBINATION (two features used together, a sequence of three or more steps, a value at a boundary of one feature meeting a particular configuration of another) rather than a single unusual value. A change that silently returns a wrong result is more interesting than one that makes the implementation hang or crash outright. If a command hangs, use `timeout 600 ...`; do not wait on anything longer than 15 minutes.
'''
for l in open(os.path.join(root, 'properties.jsonl')):
    p = json.loads(l)
    pid = p['id']
    tag = pid + suffix
    os.makedirs('/tmp/mut/' + tag, exist_ok=True)
    t = tmpl.replace('{ID}', pid)
    t = t.replace('{PID}', tag).replace('{TITLE}', p['title']).replace('{STATEMENT}', p['statement'])
    t = t.replace('{QUANT}', p['quantifier']['text'])
    lines = []
    ms = glob.glob(os.path.join(root, 'seeded', pid + '_m*', 'meta.json'))
    for m in sorted(ms, key=lambda s: int(re.search(r'_m(\d+)', s).group(1))):
        j = json.load(open(m))
        lines.append('- %s: %s (needed: %s)' % (', '.join(j.get('files_touched', [])),
                     str(j.get('clause_broken', ''))[:200].replace('\n', ' '),
                     str(j.get('what_it_needs_to_manifest', ''))[:220].replace('\n', ' ')))
    open('/tmp/mut/%s/PROMPT.txt' % tag, 'w').write(t + extra_head + '\n'.join(lines) + '\n')
    print(tag, len(lines))
