#!/usr/bin/env python3
"""Regenerate MANIFEST.json from py/manifest_entries.py (one entry per claimed property)."""
import json
import sys

import glob
import os


class M:
    NOTES = ('Every check = (1) regenerate coq/Gen from /repo with the fail-closed translator, (2) rebuild the property\'s '
             'Coq files and re-check Print Assumptions of every theorem in coq/Properties/<id>.v, (3) run the real '
             'implementation and the Gallina model on the same generated cases and compare inside Coq, (4) execute the '
             'property statement (oracle) on the implementation to produce concrete replays. See DESIGN.md.')
    CLAIMED = {os.path.basename(p)[:-5]: json.load(open(p)) for p in sorted(glob.glob('/verif/manifest.d/C*.json'))}
    NOT_CLAIMED = json.load(open('/verif/manifest.d/not_claimed.json')) if os.path.exists('/verif/manifest.d/not_claimed.json') else {}

props = [json.loads(l)['id'] for l in open('/verif/properties.jsonl')]
checks = []
for pid in props:
    if pid not in M.CLAIMED:
        continue
    e = M.CLAIMED[pid]
    checks.append({
        'property_id': pid,
        'quick_cmd': f'./check {pid} --tier quick',
        'thorough_cmd': f'./check {pid} --tier thorough',
        'evidence_file': f'/verif/evidence/{pid}.json',
        'replay_cmd_template': f'./check {pid} --replay {{path}}',
        'engine': 'coq-model+correspondence',
        'level_claimed': {'category': 'proof', 'text': e['text'], 'design_ref': f'DESIGN.md section 7, {pid}'},
        'level_note': e['note'],
        'technique': e.get('technique', 'machine-checked proof in Coq 8.16 over an executable Gallina model; '
                                        'model tied to the source by regenerated kernels and a differential correspondence run'),
    })
manifest = {
    'version': 1,
    'setup_cmd': './setup.sh',
    'hooks': {
        'guard': 'PYSPARKLING_VERIF',
        'enable': 'no source hooks exist: the checks import /repo as it is (PYTHONPATH=/repo) and instrument from outside '
                  '(sys.settrace, monkeypatched clock / file system / RNG); the variable is set by ./check for completeness',
        'baseline_off_cmd': 'python3 /verif/tools/baseline_check.py',
        'source_commits': [],
        'add_only': True,
    },
    'engines': [{
        'name': 'coq-model+correspondence',
        'path': '/verif/coq',
        'serves_properties': [c['property_id'] for c in checks],
        'kind_free_text': 'Coq 8.16.1 development (Base, Gen (regenerated from /repo on every run), Model, Proofs, Properties, Run) '
                          'plus a Python harness that runs the real implementation and the Gallina model (vm_compute) on the same cases',
    }],
    'checks': checks,
    'notes': M.NOTES,
    'not_applicable': [{'property_id': p, 'reason': M.NOT_CLAIMED.get(p, 'check not built yet in this session (work in progress); no claim is made')}
                       for p in props if p not in M.CLAIMED],
}
json.dump(manifest, open('/verif/MANIFEST.json', 'w'), indent=1)
print('claimed:', [c['property_id'] for c in checks])
