#!/usr/bin/env python3
"""Run every committed seeded change against the check of the property it breaks and record the outcome
in seeded/results.json (which DESIGN.md section 12.2 is generated from).

  --mode repo     (default) apply the patch to /repo itself (git apply), run ./check <prop> --tier quick, undo it
                  straight afterwards (git checkout -- .); sequential; /repo must be clean.
  --mode scratch  run in an isolated scratch worktree + scratch copy of /verif (tools/seeded_scratch.sh), N at a time.
  names...        restrict to these seeded/<name> directories
"""
import argparse
import json
import os
import re
import subprocess
import sys
from concurrent.futures import ThreadPoolExecutor

V = '/verif'


def parse(log, prop):
    viol = [l for l in log.split('\n') if l.startswith('VIOLATION')]
    summ = [l for l in log.split('\n') if re.match(rf'{prop} tier=', l)]
    m = re.search(r'mismatches=(\d+) oracle_failures=(\d+)', summ[0]) if summ else None
    mism, orc = (int(m.group(1)), int(m.group(2))) if m else (None, None)
    broken = [l.strip() for l in log.split('\n') if l.strip().startswith('broken:')]
    kinds = []
    if any('translator' in b or 'KERNEL-FAIL' in b for b in broken):
        kinds.append('kernel translator fails closed')
    if any('coq build' in b for b in broken):
        kinds.append('proof obligation breaks')
    if mism:
        kinds.append(f'correspondence ({mism} cases)')
    concrete = bool(viol) and 'no-failing-input-found' not in viol[0]
    if concrete:
        kinds.append('oracle (concrete replay)' + ('' if orc else ' found by the search step'))
    if not viol:
        outcome = 'MISSED (exit 0)'
    elif concrete:
        outcome = 'VIOLATION with concrete replay'
    else:
        outcome = 'VIOLATION no-failing-input-found'
    return outcome, ', '.join(kinds)


def one_scratch(name, prop=None):
    d = os.path.join(V, 'seeded', name)
    prop = prop or json.load(open(os.path.join(d, 'meta.json')))['property']
    subprocess.run([os.path.join(V, 'tools', 'seeded_scratch.sh'), d, 'quick', prop], stdout=subprocess.PIPE, stderr=subprocess.STDOUT)
    logs = sorted([f for f in os.listdir(os.path.join(V, '.work')) if f.startswith(f'seeded_seeded_{name}_') and f.endswith('.log')],
                  key=lambda f: os.path.getmtime(os.path.join(V, '.work', f)))
    log = open(os.path.join(V, '.work', logs[-1])).read() if logs else ''
    return name, prop, log


def one_repo(name, prop=None):
    d = os.path.join(V, 'seeded', name)
    prop = prop or json.load(open(os.path.join(d, 'meta.json')))['property']
    st = subprocess.run(['git', '-C', '/repo', 'status', '--porcelain', '--untracked-files=no'], stdout=subprocess.PIPE, text=True).stdout
    if st.strip():
        sys.exit('/repo is not clean')
    a = subprocess.run(['git', '-C', '/repo', 'apply', os.path.join(d, 'patch.diff')], stdout=subprocess.PIPE, stderr=subprocess.STDOUT, text=True)
    if a.returncode != 0:
        return name, prop, 'PATCH-DOES-NOT-APPLY ' + a.stdout
    try:
        p = subprocess.run(['timeout', '2400', os.path.join(V, 'check'), prop, '--tier', 'quick'], cwd=V, stdout=subprocess.PIPE, stderr=subprocess.STDOUT, text=True)
        log = p.stdout if p.returncode != 124 else 'CHECK-TIMEOUT'
    finally:
        subprocess.run(['git', '-C', '/repo', 'checkout', '--', '.'])
    return name, prop, log


def main():
    ap = argparse.ArgumentParser()
    ap.add_argument('--mode', default='repo', choices=['repo', 'scratch'])
    ap.add_argument('--par', type=int, default=3)
    ap.add_argument('names', nargs='*')
    a = ap.parse_args()
    names = a.names or sorted(n for n in os.listdir(os.path.join(V, 'seeded'))
                              if os.path.exists(os.path.join(V, 'seeded', n, 'patch.diff')))
    rp = os.path.join(V, 'seeded', 'results.json')
    res = json.load(open(rp)) if os.path.exists(rp) else {}
    res['_doc'] = ('Each seeded change (seeded/<name>/patch.diff, made by an independent agent that saw only the property text, '
                   'confirmed by tools/verify_seed.sh) was applied, the quick check of its property run, and the change undone. '
                   '"mode" says whether the patch was applied to /repo itself or to a scratch worktree checked by a scratch copy of /verif.')
    if a.mode == 'scratch':
        with ThreadPoolExecutor(a.par) as ex:
            results = list(ex.map(one_scratch, names))
    else:
        results = [one_repo(n) for n in names]
    for name, prop, log in results:
        meta = json.load(open(os.path.join(V, 'seeded', name, 'meta.json')))
        if log.startswith('PATCH-DOES-NOT-APPLY'):
            outcome, caught = 'patch does not apply to the current tree', ''
        elif log.startswith('CHECK-TIMEOUT') or log.rstrip().endswith('CHECK-TIMEOUT'):
            outcome, caught = 'MISSED (the check did not finish within 40 minutes)', ''
        else:
            outcome, caught = parse(log, prop)
        res[name] = {'property': prop, 'needs': meta.get('what_it_needs_to_manifest', ''), 'outcome': outcome,
                     'caught_by': caught, 'mode': a.mode}
        print(name, prop, outcome, '|', caught)
        for extra in meta.get('also_check', []):
            _, _, log2 = (one_scratch if a.mode == 'scratch' else one_repo)(name, extra)
            o2, c2 = parse(log2, extra)
            res[name]['outcome'] += f'; ./check {extra}: {o2}'
            res[name]['caught_by'] += f'; {extra}: {c2}'
            print(name, extra, o2, '|', c2)
        json.dump(res, open(rp, 'w'), indent=1)


if __name__ == '__main__':
    main()
