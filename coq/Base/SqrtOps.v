(* Square root on top of the abstract numeric operations of PV.Base.Num (used by the stdev /
   Pearson-correlation kernels of C17).  PrimFloat instance here; the R instance is in SqrtOpsR.v
   so that executable models do not load the Reals library. *)
From Coq Require Import ZArith PrimFloat.
Require Import PV.Base.Num.

Class SqrtOps (N : NumOps) := { fsqrt : @F N -> @F N }.

#[export] Instance FloatSqrtOps : SqrtOps FloatOps := {| fsqrt := PrimFloat.sqrt |}.
