(* Abstract numeric operations against which translated float kernels are emitted.
   Instantiated with PrimFloat (execution, bit-exact with CPython) here and with R
   (theorems) in NumR.v. *)
From Coq Require Import ZArith Bool.
From Coq Require Import PrimFloat Uint63.
Open Scope Z_scope.

Class NumOps := {
  F : Type;
  fadd : F -> F -> F;
  fsub : F -> F -> F;
  fmul : F -> F -> F;
  fdiv : F -> F -> F;
  fopp : F -> F;
  fofZ : Z -> F;
  fltb : F -> F -> bool;
  fleb : F -> F -> bool;
  feqb : F -> F -> bool;
}.

(* Python's max(a, b) returns a unless b > a; min(a, b) returns a unless b < a *)
Definition fmax `{NumOps} (a b : F) : F := if fltb a b then b else a.
Definition fmin `{NumOps} (a b : F) : F := if fltb b a then b else a.

(* int -> float conversion, exact for |z| < 2^53 (all uses), defined for |z| < 2^62 *)
Definition float_of_Z (z : Z) : float :=
  if z <? 0 then PrimFloat.opp (PrimFloat.of_uint63 (Uint63.of_Z (- z)))
  else PrimFloat.of_uint63 (Uint63.of_Z z).

#[export] Instance FloatOps : NumOps := {|
  F := float;
  fadd := PrimFloat.add;
  fsub := PrimFloat.sub;
  fmul := PrimFloat.mul;
  fdiv := PrimFloat.div;
  fopp := PrimFloat.opp;
  fofZ := float_of_Z;
  fltb := PrimFloat.ltb;
  fleb := PrimFloat.leb;
  feqb := PrimFloat.eqb;
|}.
