(* Square root and a not-a-number value on top of the abstract numeric operations of PV.Base.Num
   (used by the moment read-outs of ColumnStatHelper: stddev, skewness, kurtosis).
   PrimFloat instance for execution (math.sqrt is the correctly rounded IEEE-754 square root),
   R instance for the exact-arithmetic theorems (fnan is never reached there: the theorems assume m2 <> 0). *)
From Coq Require Import ZArith Reals.
From Coq Require Import PrimFloat.
Require Import PV.Base.Num PV.Base.NumR.

Class NumSqrt (N : NumOps) := {
  fsqrt : @F N -> @F N;
  fnan : @F N;
}.

Definition FloatSqrt : NumSqrt FloatOps := @Build_NumSqrt FloatOps PrimFloat.sqrt PrimFloat.nan.
#[export] Existing Instance FloatSqrt.

Definition RSqrt : NumSqrt ROps := @Build_NumSqrt ROps R_sqrt.sqrt 0%R.
#[export] Existing Instance RSqrt.
