(* Square root and a not-a-number value on top of the abstract numeric operations of PV.Base.Num
   (used by the moment read-outs of ColumnStatHelper: stddev, skewness, kurtosis).
   PrimFloat instance for execution (math.sqrt is the correctly rounded IEEE-754 square root),
   R instance for the exact-arithmetic theorems (fnan is never reached there: the theorems assume m2 <> 0). *)
From Coq Require Import ZArith Reals.
From Coq Require Import PrimFloat.
Require Import PV.Base.Num PV.Base.NumR.

Class NumSqrt (N : NumOps) := {
  fsqrt : F -> F;
  fnan : F;
}.

#[export] Instance FloatSqrt : NumSqrt FloatOps := {|
  fsqrt := PrimFloat.sqrt;
  fnan := PrimFloat.nan;
|}.

#[export] Instance RSqrt : NumSqrt ROps := {|
  fsqrt := R_sqrt.sqrt;
  fnan := 0%R;
|}.
