(* Python `str` / `bytes` operations used by the file-I/O models (C08): strings are lists of code points
   (`list N`), bytes are lists of `N` below 256.  Definitions only; lemmas live in Proofs/FilesStr.v. *)
From Coq Require Import ZArith NArith List Bool.
Import ListNotations.
Open Scope Z_scope.

Definition str := list N.

(* s.startswith(p) *)
Fixpoint starts_with (s p : str) {struct p} : bool :=
  match p, s with
  | [], _ => true
  | c :: p', d :: s' => N.eqb c d && starts_with s' p'
  | _ :: _, [] => false
  end.

(* s.endswith(e) *)
Definition ends_with (s e : str) : bool := starts_with (rev s) (rev e).

Fixpoint str_eqb (a b : str) : bool :=
  match a, b with
  | [], [] => true
  | x :: a', y :: b' => N.eqb x y && str_eqb a' b'
  | _, _ => false
  end.

(* c in s, for a one-character c *)
Definition contains_char (c : N) (s : str) : bool := existsb (N.eqb c) s.

(* s.rfind(c) for a one-character c: index of the last occurrence, -1 when absent *)
Fixpoint rfind_char (c : N) (s : str) : Z :=
  match s with
  | [] => -1
  | d :: s' =>
      let r := rfind_char c s' in
      if 0 <=? r then r + 1 else if N.eqb c d then 0 else -1
  end.

(* s[i:] with Python's treatment of a negative start *)
(* (indices are clamped to len(s) before the conversion to nat so that a huge index costs nothing) *)
Definition slice_from (i : Z) (s : str) : str :=
  if 0 <=? i then skipn (Z.to_nat (Z.min i (Z.of_nat (length s)))) s
  else skipn (Z.to_nat (Z.max 0 (Z.of_nat (length s) + i))) s.

(* s[:i] *)
Definition slice_to (i : Z) (s : str) : str :=
  if 0 <=? i then firstn (Z.to_nat (Z.min i (Z.of_nat (length s)))) s
  else firstn (Z.to_nat (Z.max 0 (Z.of_nat (length s) + i))) s.

(* a <= b for Python strings: lexicographic on code points *)
Fixpoint str_leb (a b : str) : bool :=
  match a, b with
  | [], _ => true
  | _ :: _, [] => false
  | x :: a', y :: b' => if N.ltb x y then true else if N.eqb x y then str_leb a' b' else false
  end.

(* sorted(list of str): stable insertion sort *)
Fixpoint insert_str (x : str) (l : list str) : list str :=
  match l with
  | [] => [x]
  | y :: l' => if str_leb x y then x :: l else y :: insert_str x l'
  end.
Fixpoint sort_str (l : list str) : list str :=
  match l with
  | [] => []
  | x :: l' => insert_str x (sort_str l')
  end.

(* decimal formatting *)
Definition digit (d : Z) : N := Z.to_N (48 + d).

(* the w least significant decimal digits of n, most significant first *)
Fixpoint fixed_digits (w : nat) (n : Z) : str :=
  match w with
  | O => []
  | S w' => fixed_digits w' (n / 10) ++ [digit (n mod 10)]
  end.

Fixpoint ndigits_fuel (fuel : nat) (n : Z) : nat :=
  match fuel with
  | O => 1%nat
  | S f => if n <? 10 then 1%nat else S (ndigits_fuel f (n / 10))
  end.
(* number of decimal digits of n >= 0 (log2 n bounds the number of divisions by ten) *)
Definition ndigits (n : Z) : nat := ndigits_fuel (Z.to_nat (Z.log2 n)) n.

(* str(n) *)
Definition str_of_int (n : Z) : str :=
  if n <? 0 then 45%N :: fixed_digits (ndigits (- n)) (- n) else fixed_digits (ndigits n) n.

(* format(n, '0{w}d'): sign, then zero padding up to total width w *)
Definition pad_int (w : nat) (n : Z) : str :=
  if n <? 0 then 45%N :: fixed_digits (Nat.max (w - 1) (ndigits (- n))) (- n)
  else fixed_digits (Nat.max w (ndigits n)) n.

(* os.path.join(a, b) on POSIX, two components *)
Definition path_join (a b : str) : str :=
  if starts_with b [47%N] then b
  else match a with
       | [] => b
       | _ => if ends_with a [47%N] then a ++ b else a ++ 47%N :: b
       end.

(* little-/big-endian fixed-width unsigned integers (struct formats '<B' '<H' '<I' '<Q' and '>...') *)
Fixpoint le_encode (w : nat) (n : Z) : list N :=
  match w with
  | O => []
  | S w' => Z.to_N (n mod 256) :: le_encode w' (n / 256)
  end.
Fixpoint le_decode (b : list N) : Z :=
  match b with
  | [] => 0
  | x :: b' => Z.of_N x + 256 * le_decode b'
  end.
Definition be_encode (w : nat) (n : Z) : list N := rev (le_encode w n).
Definition be_decode (b : list N) : Z := le_decode (rev b).
