(* The real-number instance of NumOps, used to state and prove the exact-arithmetic theorems. *)
From Coq Require Import ZArith Reals.
Require Import PV.Base.Num.

Definition Rltb (a b : R) : bool := if Rlt_dec a b then true else false.
Definition Rleb (a b : R) : bool := if Rle_dec a b then true else false.
Definition Reqb (a b : R) : bool := if Req_EM_T a b then true else false.

#[export] Instance ROps : NumOps := {|
  F := R;
  fadd := Rplus;
  fsub := Rminus;
  fmul := Rmult;
  fdiv := Rdiv;
  fopp := Ropp;
  fofZ := IZR;
  fltb := Rltb;
  fleb := Rleb;
  feqb := Reqb;
|}.
