(* The real-number instance of SqrtOps. *)
From Coq Require Import ZArith Reals.
Require Import PV.Base.Num PV.Base.NumR PV.Base.SqrtOps.

#[export] Instance RSqrtOps : SqrtOps ROps := {| fsqrt := sqrt |}.
