(* Python floats as [SpecFloat.spec_float] (binary64: prec 53, emax 1024).

   [spec_float] operations are plain Gallina (the reference semantics of IEEE-754 that Coq's
   primitive floats are specified against), so theorems about them need no axiom; they run under
   vm_compute, and [Prim2SF]/[SF2Prim] convert from/to the literals of the case files.
   The instance [SFOps] lets kernels translated against PV.Base.Num run on [spec_float]. *)
From Coq Require Import ZArith Bool List.
From Coq Require Import SpecFloat PrimFloat FloatOps.
Require Import PV.Base.Num.
Open Scope Z_scope.

Definition fl := spec_float.
Definition sf_add : fl -> fl -> fl := SFadd prec emax.
Definition sf_sub : fl -> fl -> fl := SFsub prec emax.
Definition sf_mul : fl -> fl -> fl := SFmul prec emax.
Definition sf_div : fl -> fl -> fl := SFdiv prec emax.
Definition sf_sqrt : fl -> fl := SFsqrt prec emax.
(* int -> float, correctly rounded (exact below 2^53) *)
Definition sf_ofZ (z : Z) : fl := binary_normalize prec emax z 0 false.
(* the float m * 2^e *)
Definition sf_ofme (m e : Z) : fl := binary_normalize prec emax m e false.
(* int(x) for a finite x: truncation toward zero; 0 for the values on which Python raises *)
Definition sf_trunc (x : fl) : Z :=
  match x with
  | S754_finite s m e =>
      let a := if 0 <=? e then Z.pos m * 2 ^ e else Z.pos m / 2 ^ (- e) in
      if s then - a else a
  | _ => 0
  end.

#[export] Instance SFOps : NumOps := {|
  F := fl;
  fadd := sf_add;
  fsub := sf_sub;
  fmul := sf_mul;
  fdiv := sf_div;
  fopp := SFopp;
  fofZ := sf_ofZ;
  fltb := SFltb;
  fleb := SFleb;
  feqb := SFeqb;
|}.

Definition sf_zero : fl := S754_zero false.
Definition sf_one : fl := sf_ofZ 1.
Definition sf_is_nan (x : fl) : bool := match x with S754_nan => true | _ => false end.
Definition sf_is_zero (x : fl) : bool := match x with S754_zero _ => true | _ => false end.

(* bit-level equality (distinguishes the zeros, identifies NaNs): used for table look-ups *)
Definition sf_same (x y : fl) : bool :=
  match x, y with
  | S754_zero a, S754_zero b => Bool.eqb a b
  | S754_infinity a, S754_infinity b => Bool.eqb a b
  | S754_nan, S754_nan => true
  | S754_finite a m e, S754_finite b n f => Bool.eqb a b && Pos.eqb m n && Z.eqb e f
  | _, _ => false
  end.
