(* The real-number instance of NumSqrt. *)
From Coq Require Import ZArith Reals.
Require Import PV.Base.Num PV.Base.NumR PV.Base.NumSqrt.

#[export] Instance RSqrt : NumSqrt ROps := {| fsqrt := sqrt |}.
