(* Python integer arithmetic as Gallina: // is Z.div, % is Z.modulo (both floor, sign of divisor),
   int(a / b) on ints is truncation of the quotient (exact while |a| < 2^53, see DESIGN 3.1). *)
From Coq Require Import ZArith.
Open Scope Z_scope.

Definition int_truediv (a b : Z) : Z := Z.quot a b.

Lemma int_truediv_nonneg a b : 0 <= a -> 0 < b -> int_truediv a b = a / b.
Proof. intros Ha Hb. unfold int_truediv. apply Z.quot_div_nonneg; assumption. Qed.

(* range(lo, hi) *)
From Coq Require Import List.
Import ListNotations.
Definition zrange (lo hi : Z) : list Z := map (fun k => lo + Z.of_nat k) (seq 0 (Z.to_nat (hi - lo))).
