(* Generic value universe used by the correspondence protocol.

   Every property's executable model is exposed as a function [run : val -> val];
   the harness encodes a case (input, configuration, schedule, history ...) and the
   outcome observed on the real implementation as two [val]s; [mismatches] evaluates
   the model inside Coq and returns the indices of the cases on which the model and
   the implementation differ.

   Python values are encoded as follows:
     None -> VNone, bool -> VBool, int -> VInt, float -> VFloat (bit-exact),
     str -> VStr (list of code points), tuple -> VTup, list -> VList,
     dict -> VList of 2-tuples, an exception -> VErr "ClassName". *)
From Coq Require Import ZArith NArith List Bool String.
From Coq Require Import PrimFloat.
Import ListNotations.
Open Scope Z_scope.

Inductive val : Type :=
| VNone
| VBool (b : bool)
| VInt (z : Z)
| VFloat (f : float)
| VStr (s : list N)
| VTup (l : list val)
| VList (l : list val)
| VErr (e : string).

(* bit-level equality of floats: distinguishes +0/-0, identifies all NaNs *)
Definition float_eqb (x y : float) : bool :=
  match PrimFloat.compare x y with
  | FEq =>
      if PrimFloat.eqb x PrimFloat.zero
      then (match PrimFloat.compare (PrimFloat.div PrimFloat.one x) (PrimFloat.div PrimFloat.one y) with
            | FEq => true | _ => false end)
      else true
  | FNotComparable => andb (PrimFloat.is_nan x) (PrimFloat.is_nan y)
  | _ => false
  end.

Fixpoint list_N_eqb (a b : list N) : bool :=
  match a, b with
  | [], [] => true
  | x :: a', y :: b' => andb (N.eqb x y) (list_N_eqb a' b')
  | _, _ => false
  end.

Fixpoint val_eqb (a b : val) {struct a} : bool :=
  let fix lst (xs ys : list val) {struct xs} : bool :=
      match xs, ys with
      | [], [] => true
      | x :: xs', y :: ys' => andb (val_eqb x y) (lst xs' ys')
      | _, _ => false
      end in
  match a, b with
  | VNone, VNone => true
  | VBool x, VBool y => Bool.eqb x y
  | VInt x, VInt y => Z.eqb x y
  | VFloat x, VFloat y => float_eqb x y
  | VStr x, VStr y => list_N_eqb x y
  | VTup x, VTup y => lst x y
  | VList x, VList y => lst x y
  | VErr x, VErr y => String.eqb x y
  | _, _ => false
  end.

Fixpoint mismatches_from (run : val -> val) (n : nat) (cs : list (val * val)) : list nat :=
  match cs with
  | [] => []
  | (c, e) :: cs' =>
      if val_eqb (run c) e then mismatches_from run (S n) cs'
      else n :: mismatches_from run (S n) cs'
  end.

Definition mismatches (run : val -> val) (cs : list (val * val)) : list nat :=
  mismatches_from run 0%nat cs.

(* what the model returns when the harness hands it something it cannot decode *)
Definition VBad : val := VErr "BadCase".
Definition VFuel : val := VErr "OutOfFuel".

(* decoding helpers *)
Definition as_Z (v : val) : option Z := match v with VInt z => Some z | _ => None end.
Definition as_list (v : val) : option (list val) :=
  match v with VList l => Some l | VTup l => Some l | _ => None end.
Definition as_str (v : val) : option (list N) := match v with VStr s => Some s | _ => None end.

Fixpoint all_Z (l : list val) : option (list Z) :=
  match l with
  | [] => Some []
  | VInt z :: l' => match all_Z l' with Some r => Some (z :: r) | None => None end
  | _ => None
  end.

Definition vints (l : list Z) : val := VList (map VInt l).
Definition vparts (ps : list (list val)) : val := VList (map VList ps).

Fixpoint as_parts (l : list val) : option (list (list val)) :=
  match l with
  | [] => Some []
  | VList p :: l' => match as_parts l' with Some r => Some (p :: r) | None => None end
  | _ => None
  end.
