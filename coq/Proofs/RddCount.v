(* C01 -- countByValue: per-partition count tables merged in order equal the count table of the flat list;
   val_eqb decides equality on float-free values. *)
From Coq Require Import String ZArith NArith List Bool Lia.
Require Import PV.Base.Val PV.Base.PyArith.
Require Import PV.Model.Rdd PV.Proofs.Rdd.
Import ListNotations.
Open Scope Z_scope.

(* ---------------------------------------------------------------- equality of values *)
(* values without a float anywhere: on these val_eqb decides Leibniz equality (Python == on the data domain) *)
Fixpoint simple (v : val) : bool :=
  let fix all (l : list val) : bool :=
      match l with [] => true | x :: l' => andb (simple x) (all l') end in
  match v with
  | VFloat _ => false
  | VTup l | VList l => all l
  | _ => true
  end.

Section ValInd.
  Variable P : val -> Prop.
  Hypothesis HNone : P VNone.
  Hypothesis HBool : forall b, P (VBool b).
  Hypothesis HInt : forall z, P (VInt z).
  Hypothesis HFloat : forall f, P (VFloat f).
  Hypothesis HStr : forall s, P (VStr s).
  Hypothesis HTup : forall l, Forall P l -> P (VTup l).
  Hypothesis HList : forall l, Forall P l -> P (VList l).
  Hypothesis HErr : forall e, P (VErr e).
  Fixpoint val_ind' (v : val) : P v :=
    match v with
    | VNone => HNone
    | VBool b => HBool b
    | VInt z => HInt z
    | VFloat f => HFloat f
    | VStr s => HStr s
    | VTup l => HTup l ((fix go (l : list val) : Forall P l :=
                           match l with [] => Forall_nil P | x :: l' => Forall_cons x (val_ind' x) (go l') end) l)
    | VList l => HList l ((fix go (l : list val) : Forall P l :=
                           match l with [] => Forall_nil P | x :: l' => Forall_cons x (val_ind' x) (go l') end) l)
    | VErr e => HErr e
    end.
End ValInd.

Definition list_eqb : list val -> list val -> bool :=
  fix lst (xs ys : list val) {struct xs} : bool :=
    match xs, ys with
    | [], [] => true
    | x :: xs', y :: ys' => andb (val_eqb x y) (lst xs' ys')
    | _, _ => false
    end.
Definition all_simple : list val -> bool :=
  fix all (l : list val) : bool := match l with [] => true | x :: l' => andb (simple x) (all l') end.

Lemma list_N_eqb_eq a : forall b, list_N_eqb a b = true <-> a = b.
Proof.
  induction a as [|x a IH]; destruct b as [|y b]; simpl; split; intros H; try reflexivity; try discriminate.
  - apply andb_true_iff in H. destruct H as [H1 H2]. apply N.eqb_eq in H1. apply IH in H2. subst; reflexivity.
  - inversion H; subst. rewrite N.eqb_refl. simpl. apply IH. reflexivity.
Qed.

Lemma list_eqb_eq l : Forall (fun x => simple x = true -> forall y, val_eqb x y = true <-> x = y) l ->
  all_simple l = true -> forall l', list_eqb l l' = true <-> l = l'.
Proof.
  induction 1 as [|x l Hx Hl IH]; intros Hs l'; destruct l' as [|y l']; simpl; split; intros H;
    try reflexivity; try discriminate.
  - simpl in Hs. apply andb_true_iff in Hs. destruct Hs as [Hs1 Hs2].
    apply andb_true_iff in H. destruct H as [H1 H2].
    apply (Hx Hs1) in H1. apply (IH Hs2) in H2. subst; reflexivity.
  - simpl in Hs. apply andb_true_iff in Hs. destruct Hs as [Hs1 Hs2].
    inversion H; subst. apply andb_true_iff. split; [apply (Hx Hs1); reflexivity|apply (IH Hs2); reflexivity].
Qed.

Lemma val_eqb_eq a : simple a = true -> forall b, val_eqb a b = true <-> a = b.
Proof.
  induction a using val_ind'; intros Hs b'.
  - destruct b'; simpl; split; intros; try reflexivity; discriminate.
  - destruct b'; simpl; split; intros H'; try discriminate.
    + apply Bool.eqb_prop in H'. subst; reflexivity.
    + inversion H'; subst. apply Bool.eqb_reflx.
  - destruct b'; simpl; split; intros H'; try discriminate.
    + apply Z.eqb_eq in H'. subst; reflexivity.
    + inversion H'; subst. apply Z.eqb_refl.
  - discriminate.
  - destruct b'; simpl; split; intros H'; try discriminate.
    + apply list_N_eqb_eq in H'. subst; reflexivity.
    + inversion H'; subst. apply list_N_eqb_eq. reflexivity.
  - destruct b' as [| | | | |l'| |]; try (simpl; split; intros; discriminate).
    change (val_eqb (VTup l) (VTup l')) with (list_eqb l l').
    change (simple (VTup l)) with (all_simple l) in Hs.
    rewrite (list_eqb_eq l H Hs l'). split; intros H'; [subst; reflexivity|inversion H'; reflexivity].
  - destruct b' as [| | | | | |l'|]; try (simpl; split; intros; discriminate).
    change (val_eqb (VList l) (VList l')) with (list_eqb l l').
    change (simple (VList l)) with (all_simple l) in Hs.
    rewrite (list_eqb_eq l H Hs l'). split; intros H'; [subst; reflexivity|inversion H'; reflexivity].
  - destruct b'; simpl; split; intros H'; try discriminate.
    + apply String.eqb_eq in H'. subst; reflexivity.
    + inversion H'; subst. apply String.eqb_refl.
Qed.

Definition Simple (v : val) : Prop := simple v = true.

Lemma eqb_dec a b : Simple a -> (val_eqb a b = true /\ a = b) \/ (val_eqb a b = false /\ a <> b).
Proof.
  intros Ha. destruct (val_eqb a b) eqn:E.
  - left. split; auto. apply (val_eqb_eq a Ha b). assumption.
  - right. split; auto. intros ->. pose proof (proj2 (val_eqb_eq b Ha b) eq_refl). congruence.
Qed.

(* ---------------------------------------------------------------- count tables *)
Definition keys (t : table) : list val := map fst t.
Definition foldcount (p : list val) (t : table) : table := fold_left (fun t x => bump x 1 t) p t.

Lemma bump_keys_in k c t k' : In k' (keys t) -> In k' (keys (bump k c t)).
Proof.
  induction t as [|[a ca] t IH]; simpl; intros H; [contradiction|].
  destruct (val_eqb a k); simpl; destruct H; auto.
Qed.

Lemma bump_key_self k c t : Forall Simple (keys t) -> Simple k -> In k (keys (bump k c t)).
Proof.
  induction t as [|[a ca] t IH]; simpl; intros Ht Hk; auto.
  inversion Ht; subst.
  destruct (eqb_dec a k H1) as [[E ->]|[E _]]; rewrite E; simpl; auto.
Qed.

Lemma bump_keys_simple k c t : Forall Simple (keys t) -> Simple k -> Forall Simple (keys (bump k c t)).
Proof.
  induction t as [|[a ca] t IH]; simpl; intros Ht Hk.
  - constructor; auto.
  - inversion Ht; subst. destruct (val_eqb a k); simpl; constructor; auto.
Qed.

(* bumping the same key twice *)
Lemma bump_twice k c d t : Forall Simple (keys t) -> Simple k ->
  bump k d (bump k c t) = bump k (c + d) t.
Proof.
  induction t as [|[a ca] t IH]; simpl; intros Ht Hk.
  - rewrite (proj2 (val_eqb_eq k Hk k) eq_refl). reflexivity.
  - inversion Ht; subst.
    destruct (eqb_dec a k H1) as [[E ->]|[E _]]; rewrite E; simpl; rewrite E.
    + f_equal. f_equal. lia.
    + f_equal. apply IH; assumption.
Qed.

(* bumping a key that is present commutes with any other bump *)
Lemma bump_comm k d k' c' t : Forall Simple (keys t) -> Simple k -> Simple k' -> In k (keys t) ->
  bump k d (bump k' c' t) = bump k' c' (bump k d t).
Proof.
  induction t as [|[a ca] t IH]; simpl; intros Ht Hk Hk' Hin; [contradiction|].
  inversion Ht; subst.
  destruct (eqb_dec a k H1) as [[E Ea]|[E Hne]]; destruct (eqb_dec a k' H1) as [[E' Ea']|[E' Hne']];
    rewrite ?E, ?E'; simpl; rewrite ?E, ?E'.
  - f_equal. f_equal. lia.
  - reflexivity.
  - reflexivity.
  - f_equal. apply IH; auto. destruct Hin; [contradiction|assumption].
Qed.

Lemma merge_keys_in acc t k : In k (keys acc) -> In k (keys (merge_counts acc t)).
Proof.
  unfold merge_counts. revert acc. induction t as [|[a ca] t IH]; simpl; intros acc H; auto.
  apply IH. apply bump_keys_in. assumption.
Qed.

Lemma merge_keys_simple acc t : Forall Simple (keys acc) -> Forall Simple (keys t) ->
  Forall Simple (keys (merge_counts acc t)).
Proof.
  unfold merge_counts. revert acc. induction t as [|[a ca] t IH]; simpl; intros acc Ha Ht; auto.
  inversion Ht; subst. apply IH; auto. apply bump_keys_simple; assumption.
Qed.

(* (N') a present key: bump after the merge = bump before the merge *)
Lemma bump_merge k d t : forall acc, Forall Simple (keys acc) -> Forall Simple (keys t) -> Simple k ->
  In k (keys acc) -> bump k d (merge_counts acc t) = merge_counts (bump k d acc) t.
Proof.
  unfold merge_counts. induction t as [|[a ca] t IH]; simpl; intros acc Ha Ht Hk Hin; auto.
  inversion Ht; subst.
  rewrite IH; auto using bump_keys_simple, bump_keys_in.
  f_equal. apply bump_comm; auto.
Qed.

(* (M) merging a table whose last update was "x += 1" = merging the table before it, then "x += 1" *)
Lemma merge_bump x t : forall acc, Forall Simple (keys acc) -> Forall Simple (keys t) -> Simple x ->
  merge_counts acc (bump x 1 t) = bump x 1 (merge_counts acc t).
Proof.
  induction t as [|[k c] t IH]; intros acc Ha Ht Hx.
  - reflexivity.
  - simpl in Ht. inversion Ht; subst. simpl bump.
    destruct (eqb_dec k x H1) as [[E ->]|[E Hne]]; rewrite E.
    + change (merge_counts acc ((x, c + 1) :: t)) with (merge_counts (bump x (c + 1) acc) t).
      change (merge_counts acc ((x, c) :: t)) with (merge_counts (bump x c acc) t).
      rewrite <- (bump_twice x c 1 acc) by assumption.
      rewrite bump_merge; auto using bump_keys_simple, bump_key_self.
    + change (merge_counts acc ((k, c) :: bump x 1 t)) with (merge_counts (bump k c acc) (bump x 1 t)).
      change (merge_counts acc ((k, c) :: t)) with (merge_counts (bump k c acc) t).
      apply IH; auto using bump_keys_simple.
Qed.

Lemma foldcount_keys_simple p : forall t, Forall Simple (keys t) -> Forall Simple p ->
  Forall Simple (keys (foldcount p t)).
Proof.
  unfold foldcount. induction p as [|x p IH]; simpl; intros t Ht Hp; auto.
  inversion Hp; subst. apply IH; auto using bump_keys_simple.
Qed.

Lemma merge_foldcount p : forall acc, Forall Simple (keys acc) -> Forall Simple p ->
  merge_counts acc (foldcount p []) = foldcount p acc.
Proof.
  induction p as [|x p IH] using rev_ind; intros acc Ha Hp.
  - reflexivity.
  - apply Forall_app in Hp. destruct Hp as [Hp Hx]. inversion Hx; subst.
    unfold foldcount. rewrite !fold_left_app. simpl.
    fold (foldcount p []). fold (foldcount p acc).
    rewrite merge_bump; auto.
    + rewrite IH; auto.
    + apply foldcount_keys_simple; auto.
Qed.

Lemma count_fold p : forall t,
  foldM count_step p t = if forallb hashable p then Ok (foldcount p t) else Err "TypeError".
Proof.
  induction p as [|x p IH]; intros t; simpl; auto.
  unfold count_step at 1. destruct (hashable x); simpl; auto.
Qed.

Lemma count_parts ps : Forall Simple (concat ps) -> forall acc, Forall Simple (keys acc) ->
  job_fold count_values (fun acc t => Ok (merge_counts acc t)) ps acc = foldM count_step (concat ps) acc.
Proof.
  induction ps as [|p ps IH]; intros Hs acc Ha; simpl; auto.
  simpl in Hs. apply Forall_app in Hs. destruct Hs as [Hp Hps].
  rewrite foldM_app. unfold count_values. rewrite !count_fold.
  destruct (forallb hashable p); simpl; auto.
  rewrite merge_foldcount by assumption.
  apply IH; auto. apply foldcount_keys_simple; assumption.
Qed.

Theorem countByValue_flat ps : Forall Simple (concat ps) ->
  run_act ACountByValue ps = run_list ACountByValue (concat ps).
Proof.
  intros H. simpl. rewrite count_parts; auto. constructor.
Qed.
