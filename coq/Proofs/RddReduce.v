(* C01 -- reduce in value form (associativity only); glom / flatMap(identity) round trip. *)
From Coq Require Import String ZArith NArith List Bool Lia.
Require Import PV.Base.Val PV.Base.PyArith.
Require Import PV.Model.Rdd PV.Model.RddLib PV.Proofs.Rdd PV.Proofs.RddTr PV.Proofs.RddCount PV.Proofs.RddAct.
Import ListNotations.
Open Scope Z_scope.

(* reduce, value form: for an associative operator (no condition on its exceptions) the dataset yields a
   value exactly when the plain left fold does, and then the same one *)
Lemma bind_ok_inv {A B} (r : res A) (k : A -> res B) v : bind r k = Ok v -> exists a, r = Ok a /\ k a = Ok v.
Proof. destruct r; simpl; intros H; [eauto|discriminate]. Qed.

Lemma reduce_tasks_ok (f : op2) : assoc_m f -> forall ps r v,
  (ts <- mapM (reduce_partition f) ps ;; foldM f (concat ts) r) = Ok v <-> foldM f (concat ps) r = Ok v.
Proof.
  intros Ha. induction ps as [|p ps IH]; intros r v; [reflexivity|].
  destruct p as [|x p].
  - simpl. rewrite <- IH. destruct (mapM (reduce_partition f) ps); reflexivity.
  - assert (R : foldM f (concat ((x :: p) :: ps)) r =
                (r' <- (y <- foldM f p x ;; f r y) ;; foldM f (concat ps) r')).
    { rewrite (assoc_fold f Ha p x r). simpl. rewrite bind_assoc. apply bind_ext. intros a1. apply foldM_app. }
    rewrite R. clear R. simpl mapM. simpl reduce_partition.
    destruct (foldM f p x) as [y|e]; simpl; [|split; discriminate].
    split; intros H.
    + destruct (mapM (reduce_partition f) ps) as [ts|e] eqn:Em; simpl in H; [|discriminate].
      destruct (f r y) as [r'|e]; simpl in *; [|discriminate].
      apply IH. simpl. exact H.
    + destruct (f r y) as [r'|e] eqn:Er; simpl in *; [|discriminate].
      apply IH in H. destruct (mapM (reduce_partition f) ps) as [ts|e]; simpl in *; [rewrite Er; exact H|discriminate].
Qed.

Theorem reduce_value f ps v : assoc_m f ->
  (run_act (AReduce f) ps = Ok v <-> run_list (AReduce f) (concat ps) = Ok v).
Proof.
  intros Ha. simpl.
  induction ps as [|p ps IH]; [reflexivity|].
  destruct p as [|x p].
  - simpl. simpl in IH. rewrite <- IH. destruct (mapM (reduce_partition f) ps); reflexivity.
  - simpl mapM. simpl reduce_partition.
    change (concat ((x :: p) :: ps)) with (x :: (p ++ concat ps)). cbv iota. rewrite foldM_app.
    destruct (foldM f p x) as [y|e]; simpl; [|reflexivity].
    rewrite <- (reduce_tasks_ok f Ha ps y v).
    destruct (mapM (reduce_partition f) ps); reflexivity.
Qed.

(* glom followed by flatMap(lambda x: x) restores the dataset, partition by partition *)
Lemma glom_unglom ps : bind (apply_tr TGlom ps) (apply_tr (TFlatMap g_iter)) = Ok ps.
Proof.
  simpl. unfold apply_tr. simpl elem_fn. cbv iota.
  induction ps as [|p ps IH]; simpl; [reflexivity|].
  rewrite IH. simpl. rewrite app_nil_r. reflexivity.
Qed.
