(* C14: re-ordering the rows.  Assigning the rows of a table to partitions in a different way changes the order in
   which the driver sees them (the concatenation of the partitions is a permutation of the table).  For aggregators
   whose fold does not depend on the order of the rows the grouped result is the same: same set of keys, equivalent
   state for every key. *)
From Coq Require Import ZArith List Bool Permutation Reals Lra Lia.
Require Import PV.Base.Num PV.Base.NumR PV.Base.NumSqrt PV.Gen.AggMoments PV.Model.Agg PV.Proofs.AggGrouped
  PV.Proofs.AggInstances PV.Proofs.AggMoments.
Import ListNotations.

Lemma Permutation_filter_ {X} (p : X -> bool) l l' : Permutation l l' -> Permutation (filter p l) (filter p l').
Proof.
  intros H. induction H as [|x l l' H IH|x y l|l l' l'' H1 IH1 H2 IH2]; simpl.
  - constructor.
  - destruct (p x); [constructor|]; exact IH.
  - destruct (p x), (p y); try apply Permutation_refl. apply perm_swap.
  - etransitivity; eassumption.
Qed.

Section Perm.
  Variables (Row K S O : Type).
  Variable keqb : K -> K -> bool.
  Variable key : Row -> K.
  Variable A : aggregator Row S O.
  Hypothesis keqb_spec : forall a b, keqb a b = true <-> a = b.
  Variable eqS : S -> S -> Prop.

  Definition perm_invariant : Prop := forall xs ys, Permutation xs ys -> eqS (a_fold A xs) (a_fold A ys).

  Theorem spec_perm : perm_invariant ->
    forall rows rows', Permutation rows rows' ->
      (forall k, In k (first_keys keqb (map key rows)) <-> In k (first_keys keqb (map key rows')))
      /\ (forall k, eqS (a_fold A (rows_of keqb key k rows)) (a_fold A (rows_of keqb key k rows'))).
  Proof.
    intros PI rows rows' HP. split.
    - intros k. rewrite !(In_first_keys keqb keqb_spec).
      split; apply Permutation_in; [|symmetry]; apply Permutation_map; exact HP.
    - intros k. apply PI. unfold rows_of. apply Permutation_filter_. exact HP.
  Qed.
End Perm.
Arguments perm_invariant {Row S O} A eqS.

(** * order-insensitive aggregators *)
Section Instances.
  Variables (Row E O : Type).
  Variable eqb : E -> E -> bool.
  Variable get : Row -> option E.
  Variable outf : list E -> O.
  Hypothesis eqb_spec : forall a b, eqb a b = true <-> a = b.

  Lemma values_of_perm_in rows rows' x :
    Permutation rows rows' -> In x (values_of get rows) -> In x (values_of get rows').
  Proof.
    intros HP H. unfold values_of in *. apply in_flat_map in H. destruct H as [r [Hr Hx]].
    apply in_flat_map. exists r. split; auto. apply (Permutation_in _ HP). exact Hr.
  Qed.

  (* collect_set / countDistinct / sumDistinct: the same set *)
  Theorem set_perm_invariant : perm_invariant (set_agg eqb get outf) (@Permutation E).
  Proof.
    intros xs ys HP. apply set_states_perm; auto.
    intros x. split; apply values_of_perm_in; [|symmetry]; exact HP.
  Qed.

  (* collect_list: the same multiset *)
  Theorem collect_list_perm_invariant : perm_invariant (collect_list_agg get) (@Permutation E).
  Proof.
    intros xs ys HP. rewrite !collect_list_direct. unfold values_of.
    induction HP as [|x l l' H IH|x y l|l l' l'' H1 IH1 H2 IH2]; simpl.
    - constructor.
    - apply Permutation_app_head. exact IH.
    - rewrite !app_assoc. apply Permutation_app_tail. apply Permutation_app_comm.
    - etransitivity; eassumption.
  Qed.
End Instances.

(** * ColumnStatHelper over R: count, sum and the central moments do not depend on the order of the values *)
Open Scope R_scope.

Lemma rsum_perm l l' : Permutation l l' -> rsum l = rsum l'.
Proof.
  intros H. induction H as [|x l l' H IH|x y l|l l' l'' H1 IH1 H2 IH2]; simpl; lra.
Qed.

Lemma rlen_perm l l' : Permutation l l' -> rlen l = rlen l'.
Proof. intros H. unfold rlen. rewrite (Permutation_length H). reflexivity. Qed.

Lemma cm_perm k l l' : Permutation l l' -> cm k l = cm k l'.
Proof.
  intros H. unfold cm, rmean. rewrite (rsum_perm _ _ H), (rlen_perm _ _ H).
  apply rsum_perm. apply Permutation_map. exact H.
Qed.

Definition csh_eqv (s t : @csh ROps) : Prop :=
  c_count s = c_count t /\ c_ok s = c_ok t /\ num_F (c_sum s) = num_F (c_sum t) /\
  c_m2 s = c_m2 t /\ c_m3 s = c_m3 t /\ c_m4 s = c_m4 t.

Theorem csh_of_perm xs ys : Permutation xs ys -> csh_eqv (csh_of xs) (csh_of ys).
Proof.
  intros H. assert (Permutation (vals xs) (vals ys)) as HV by (apply Permutation_map; exact H).
  unfold csh_eqv, csh_of. cbn [c_count c_ok c_sum c_m2 c_m3 c_m4].
  repeat split.
  - rewrite (Permutation_length H). reflexivity.
  - rewrite !sum_nums_F. apply rsum_perm. exact HV.
  - apply cm_perm. exact HV.
  - apply cm_perm. exact HV.
  - apply cm_perm. exact HV.
Qed.

(* ... and these fields determine count / avg / variance / stddev / skewness / kurtosis (sum up to its value) *)
Theorem csh_eqv_readouts s t : csh_eqv s t ->
  csh_count s = csh_count t /\ csh_avg s = csh_avg t /\ csh_var_pop s = csh_var_pop t /\
  csh_var_samp s = csh_var_samp t /\ csh_std_pop s = csh_std_pop t /\ csh_std_samp s = csh_std_samp t /\
  csh_skew s = csh_skew t /\ csh_kurt s = csh_kurt t.
Proof.
  intros [H1 [H2 [H3 [H4 [H5 H6]]]]].
  unfold csh_count, csh_avg, csh_var_pop, csh_var_samp, csh_std_pop, csh_std_samp, csh_skew, csh_kurt, c_mean.
  rewrite H1, H2, H3, H4, H5, H6. repeat split; reflexivity.
Qed.

Theorem stat_perm_invariant Row O (getn : Row -> option (@num ROps)) (outf : @csh ROps -> O) :
  perm_invariant (stat_agg (get_of Row getn) outf) csh_eqv.
Proof.
  intros xs ys HP. rewrite !stat_fold. apply csh_of_perm.
  unfold nums_of. induction HP as [|x l l' H IH|x y l|l l' l'' H1 IH1 H2 IH2]; simpl.
  - constructor.
  - apply Permutation_app_head. exact IH.
  - rewrite !app_assoc. apply Permutation_app_tail. apply Permutation_app_comm.
  - etransitivity; eassumption.
Qed.
