(* C01 -- transformations: flat content of apply_tr is apply_list of the flat content (incl. the coalesce grouping table). *)
From Coq Require Import String ZArith NArith List Bool Lia Sorted.
Require Import PV.Base.Val PV.Base.PyArith PV.Base.Num.
Require Import PV.Gen.Parallelize PV.Gen.Layout PV.Gen.StatCounter.
Require Import PV.Model.Rdd PV.Proofs.Rdd.
Import ListNotations.
Open Scope Z_scope.

(* ---------------------------------------------------------------- coalesce *)
Lemma pick_none j ms ps : Forall (fun m => m <> j) ms -> pick j ms ps = [].
Proof.
  revert ps; induction ms as [|m ms IH]; intros ps H; destruct ps; simpl; auto.
  inversion H; subst. destruct (m =? j) eqn:E; [apply Z.eqb_eq in E; contradiction|]. auto.
Qed.

Lemma concat_map_nil {A B} (l : list A) : concat (map (fun _ => @nil B) l) = [].
Proof. induction l; simpl; auto. Qed.

Lemma pick_concat ms : forall ps lo hi,
  length ms = length ps -> StronglySorted Z.le ms -> Forall (fun m => lo <= m < hi) ms ->
  concat (map (fun j => pick j ms ps) (zrange lo hi)) = concat ps.
Proof.
  induction ms as [|m ms IH]; intros ps lo hi Hlen Hs Hb.
  - destruct ps; try discriminate. simpl. apply concat_map_nil.
  - destruct ps as [|p ps]; try discriminate. simpl in Hlen. injection Hlen as Hlen.
    inversion Hs as [|? ? Hs' Hge]; subst. inversion Hb as [|? ? Hm Hb']; subst.
    rewrite (zrange_split lo m hi) by lia. rewrite (zrange_cons m hi) by lia.
    rewrite map_app, concat_app, map_cons, concat_cons.
    assert (E1 : map (fun j => pick j (m :: ms) (p :: ps)) (zrange lo m) = map (fun _ => []) (zrange lo m)).
    { apply map_ext_in. intros j Hj. apply zrange_in in Hj. simpl.
      destruct (m =? j) eqn:E; [apply Z.eqb_eq in E; lia|].
      apply pick_none. eapply Forall_impl; [|exact Hge]. simpl; intros; lia. }
    rewrite E1, concat_map_nil.
    assert (E2 : map (fun j => pick j (m :: ms) (p :: ps)) (zrange (m + 1) hi) =
                 map (fun j => pick j ms ps) (zrange (m + 1) hi)).
    { apply map_ext_in. intros j Hj. apply zrange_in in Hj. simpl.
      destruct (m =? j) eqn:E; [apply Z.eqb_eq in E; lia|]. reflexivity. }
    rewrite E2. simpl pick. rewrite Z.eqb_refl. simpl app.
    change (concat (p :: ps)) with (p ++ concat ps). rewrite <- app_assoc. f_equal.
    rewrite <- (IH ps m hi Hlen Hs').
    + rewrite (zrange_cons m hi) by lia. reflexivity.
    + apply Forall_forall. intros x Hx.
      rewrite Forall_forall in Hge, Hb'. specialize (Hge x Hx). specialize (Hb' x Hx). lia.
Qed.

(* the shape of partition_mapping in the regenerated kernel: blocks of equal indices *)
Definition blocks (c a b : Z) : list Z := flat_map (fun p => map (fun _ : Z => p) (zrange 0 c)) (zrange a b).

Lemma blocks_cons c a b : a < b -> blocks c a b = map (fun _ => a) (zrange 0 c) ++ blocks c (a + 1) b.
Proof. intros H. unfold blocks. rewrite (zrange_cons a b) by lia. reflexivity. Qed.

Lemma blocks_nil c a b : b <= a -> blocks c a b = [].
Proof. intros H. unfold blocks. rewrite (zrange_nil a b) by lia. reflexivity. Qed.

Lemma blocks_props c : forall (k : nat) a b, Z.to_nat (b - a) = k -> 0 <= c ->
  StronglySorted Z.le (blocks c a b) /\ Forall (fun m => a <= m < b) (blocks c a b) /\
  len (blocks c a b) = c * Z.max 0 (b - a).
Proof.
  induction k as [|k IH]; intros a b Hk Hc.
  - rewrite blocks_nil by lia. repeat split; try constructor. unfold len; simpl. nia.
  - rewrite blocks_cons by lia.
    destruct (IH (a + 1) b ltac:(lia) Hc) as [Hs [Hb Hl]].
    repeat split.
    + remember (zrange 0 c) as r. clear Heqr. induction r as [|x r IHr]; simpl; auto.
      constructor; auto. apply Forall_app; split.
      * apply Forall_forall. intros y Hy. apply in_map_iff in Hy. destruct Hy as [? [<- _]]. lia.
      * eapply Forall_impl; [|exact Hb]. simpl; intros; lia.
    + apply Forall_app; split.
      * apply Forall_forall. intros y Hy. apply in_map_iff in Hy. destruct Hy as [? [<- _]]. lia.
      * eapply Forall_impl; [|exact Hb]. simpl; intros; lia.
    + rewrite len_app, Hl. unfold len at 1. rewrite map_length, zrange_length. nia.
Qed.

Lemma sorted_app (l1 l2 : list Z) :
  StronglySorted Z.le l1 -> StronglySorted Z.le l2 ->
  (forall x y, In x l1 -> In y l2 -> x <= y) -> StronglySorted Z.le (l1 ++ l2).
Proof.
  intros H1 H2 H. induction H1 as [|x l1 H1 IH Hx]; simpl; auto.
  constructor.
  - apply IH. intros; apply H; simpl; auto.
  - apply Forall_app; split; auto. apply Forall_forall. intros y Hy. apply H; simpl; auto.
Qed.

Ltac Zify.zify_post_hook ::= Z.to_euclidean_division_equations.

Lemma coalesce_flat k ps : 1 <= k -> ps <> [] ->
  exists qs, coalesce k ps = Ok qs /\ concat qs = concat ps /\ qs <> [].
Proof.
  intros Hk Hps. unfold coalesce.
  assert (Hcur : 1 <= len ps) by (destruct ps; [contradiction|unfold len; simpl; lia]).
  set (cur := len ps) in *.
  unfold coalesce_plan. cbv zeta. simpl fst. simpl snd.
  set (new := Z.min k cur). assert (Hnew : 1 <= new <= cur) by (unfold new; lia).
  destruct (new =? 0) eqn:E0; [apply Z.eqb_eq in E0; lia|].
  set (small := cur / new). set (nbig := cur mod new).
  fold (blocks (small + 1) 0 nbig). fold (blocks small nbig (nbig + (new - nbig))).
  assert (Hsmall : 0 <= small) by (unfold small; apply Z.div_pos; lia).
  assert (Hnbig : 0 <= nbig < new) by (unfold nbig; apply Z.mod_pos_bound; lia).
  destruct (blocks_props (small + 1) _ 0 nbig eq_refl ltac:(lia)) as [S1 [B1 L1]].
  destruct (blocks_props small _ nbig (nbig + (new - nbig)) eq_refl Hsmall) as [S2 [B2 L2]].
  set (ms := blocks (small + 1) 0 nbig ++ blocks small nbig (nbig + (new - nbig))).
  assert (Hlen : length ms = length ps).
  { assert (len ms = cur).
    { unfold ms. rewrite len_app, L1, L2.
      assert (cur = new * small + nbig) by (unfold small, nbig; apply Z.div_mod; lia).
      nia. }
    unfold len, cur, len in H. lia. }
  destruct (length ms <? length ps)%nat eqn:El; [apply Nat.ltb_lt in El; lia|].
  eexists; split; [reflexivity|]. split.
  - apply pick_concat; auto.
    + apply sorted_app; auto. intros x y Hx Hy.
      rewrite Forall_forall in B1, B2. specialize (B1 x Hx). specialize (B2 y Hy). lia.
    + apply Forall_app; split; (eapply Forall_impl; [|eassumption]); simpl; intros; lia.
  - intros H. apply (f_equal (@length _)) in H. rewrite map_length, zrange_length in H. simpl in H. lia.
Qed.

(* ---------------------------------------------------------------- transformations *)
Definition part_hom (h : partf) : Prop :=
  h [] = Ok [] /\ forall xs ys, h (xs ++ ys) = (a <- h xs ;; b <- h ys ;; Ok (a ++ b)).

(* the transformations for which "the flat content is the plain-list result" is claimed:
   every one except glom (own law below); mapPartitions for partition-homomorphic functions;
   coalesce to at least one partition *)
Definition tr_ok (t : tr) : Prop :=
  match t with
  | TGlom => False
  | TMapPartitions h => part_hom h
  | TCoalesce k => 1 <= k
  | _ => True
  end.

Lemma part_hom_flat h ps : part_hom h -> rmap (@concat val) (mapM h ps) = h (concat ps).
Proof.
  intros [H0 Happ]. induction ps as [|p ps IH]; simpl. { rewrite H0; reflexivity. }
  rewrite Happ, <- IH. destruct (h p); simpl; auto. destruct (mapM h ps); reflexivity.
Qed.

Theorem tr_flat t ps : tr_ok t -> ps <> [] ->
  rmap (@concat val) (apply_tr t ps) = apply_list t (concat ps).
Proof.
  intros Hok Hps.
  destruct t; unfold apply_tr, apply_list; simpl elem_fn; cbv iota; try apply parts_flat.
  - apply part_hom_flat; assumption.
  - destruct Hok.
  - simpl. rewrite app_nil_r, parallelize_flat. reflexivity.
  - simpl. rewrite app_nil_r, parallelize_flat. reflexivity.
  - simpl. rewrite app_nil_r. reflexivity.
  - destruct (py_sorted k asc (concat ps)); simpl; auto. rewrite parallelize_flat. reflexivity.
  - destruct (coalesce_flat k ps Hok Hps) as [qs [E [Hc _]]]. rewrite E. simpl. rewrite Hc. reflexivity.
  - simpl. rewrite parallelize_flat. reflexivity.
  - reflexivity.
Qed.

Lemma tr_nonempty t ps qs : tr_ok t -> ps <> [] -> apply_tr t ps = Ok qs -> qs <> [].
Proof.
  intros Hok Hps.
  assert (Hm : forall (f : list val -> res (list val)), mapM f ps = Ok qs -> qs <> []).
  { intros f H. apply mapM_length in H. destruct ps; [contradiction|]. destruct qs; [discriminate|discriminate]. }
  destruct t; unfold apply_tr; simpl elem_fn; cbv iota; try (apply Hm); intros H.
  - destruct Hok.
  - inversion H; discriminate.
  - inversion H; discriminate.
  - inversion H; discriminate.
  - destruct (py_sorted k asc (concat ps)); simpl in H; inversion H. apply parallelize_nonempty.
  - destruct (coalesce_flat k ps Hok Hps) as [qs' [E [_ Hne]]]. rewrite E in H. inversion H; subst; assumption.
  - inversion H. apply parallelize_nonempty.
  - inversion H; subst; assumption.
Qed.

(* glom's own law: every partition becomes one list element; nothing is lost or reordered *)
Theorem glom_law ps :
  apply_tr TGlom ps = Ok (map (fun p => [VList p]) ps) /\
  concat (map (fun v => match v with VList l => l | _ => [] end) (concat (map (fun p => [VList p]) ps))) = concat ps.
Proof.
  split; [reflexivity|]. induction ps as [|p ps IH]; simpl; auto. rewrite IH. reflexivity.
Qed.

Lemma trs_flat ts : Forall tr_ok ts -> forall ps, ps <> [] ->
  rmap (@concat val) (apply_trs ts ps) = apply_lists ts (concat ps).
Proof.
  induction 1 as [|t ts Ht Hts IH]; intros ps Hps; simpl; auto.
  unfold apply_trs, apply_lists in *. simpl.
  pose proof (tr_flat t ps Ht Hps) as Hf.
  destruct (apply_tr t ps) as [qs|e] eqn:E; simpl in Hf; rewrite <- Hf; simpl; auto.
  apply IH. eapply tr_nonempty; eauto.
Qed.
