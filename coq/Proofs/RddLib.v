(* C01 -- the premises of the C01 theorems hold for members of the function library (non-vacuity). *)
From Coq Require Import String ZArith NArith List Bool Lia.
Require Import PV.Base.Val PV.Base.PyArith.
Require Import PV.Model.Rdd PV.Model.RddLib PV.Proofs.Rdd PV.Proofs.RddTr PV.Proofs.RddAct PV.Proofs.RddFold.
Import ListNotations.
Open Scope Z_scope.

(* The premises of the theorems are satisfiable: library members that meet them (and one that does not). *)

Lemma op_add_assoc : assoc_m op_add.
Proof.
  intros a b c. unfold op_add, terr.
  destruct a, b, c; simpl; try reflexivity; do 2 f_equal; try lia; apply app_assoc.
Qed.

Lemma pymax_max x y : (if x <? y then y else x) = Z.max x y.
Proof. destruct (Z.ltb_spec x y); lia. Qed.

Lemma op_max_assoc : assoc_m op_max.
Proof.
  intros a b c. unfold op_max, terr.
  destruct a, b, c; simpl; try reflexivity. do 2 f_equal. rewrite !pymax_max. lia.
Qed.

Lemma op_mul_assoc : assoc_m op_mul.
Proof.
  intros a b c. unfold op_mul, terr. destruct a, b, c; simpl; try reflexivity. do 2 f_equal. lia.
Qed.

Lemma op_first_assoc : assoc_m op_first.
Proof. intros a b c. reflexivity. Qed.
Lemma op_last_assoc : assoc_m op_last.
Proof. intros a b c. reflexivity. Qed.

Lemma op_extend_assoc : assoc_m op_extend.
Proof.
  intros a b c. unfold op_extend, terr.
  destruct a, b, c; simpl; try reflexivity. do 2 f_equal. apply app_assoc.
Qed.

(* the library operators raise nothing but TypeError *)
Lemma terr_single (f : op2) : (forall a b, f a b = terr \/ exists v, f a b = Ok v) -> single_err f.
Proof.
  intros H. exists "TypeError"%string. intros a b e E.
  destruct (H a b) as [H1|[v H1]]; rewrite H1 in E; inversion E; reflexivity.
Qed.

Lemma op_add_single : single_err op_add.
Proof. apply terr_single. intros a b. destruct a, b; simpl; eauto. Qed.
Lemma op_max_single : single_err op_max.
Proof. apply terr_single. intros a b. destruct a, b; simpl; eauto. Qed.
Lemma op_mul_single : single_err op_mul.
Proof. apply terr_single. intros a b. destruct a, b; simpl; eauto. Qed.
Lemma op_extend_single : single_err op_extend.
Proof. apply terr_single. intros a b. destruct a, b; simpl; eauto. Qed.
Lemma op_first_single : single_err op_first.
Proof. apply terr_single. intros a b. right. exists a. reflexivity. Qed.

Lemma op_sub_not_assoc : ~ assoc_m op_sub.
Proof. intros H. specialize (H (VInt 1) (VInt 1) (VInt 1)). vm_compute in H. discriminate. Qed.

(* fold(0, +): VInt (sum) when all elements are integers, TypeError otherwise -- on both sides of the contract *)
Fixpoint all_ints (xs : list val) : option (list Z) :=
  match xs with
  | [] => Some []
  | VInt z :: xs' => match all_ints xs' with Some l => Some (z :: l) | None => None end
  | _ => None
  end.

Lemma fold_add_char xs : forall a,
  foldM op_add xs (VInt a) =
  match all_ints xs with Some l => Ok (VInt (a + fold_right Z.add 0 l)) | None => Err "TypeError" end.
Proof.
  induction xs as [|v xs IH]; intros a; simpl.
  - do 2 f_equal. lia.
  - destruct v; simpl; auto. rewrite IH. destruct (all_ints xs); simpl; auto. do 2 f_equal. lia.
Qed.

Lemma all_ints_app xs ys :
  all_ints (xs ++ ys) =
  match all_ints xs, all_ints ys with Some a, Some b => Some (a ++ b) | _, _ => None end.
Proof.
  induction xs as [|v xs IH]; simpl.
  - destruct (all_ints ys); reflexivity.
  - destruct v; auto. rewrite IH. destruct (all_ints xs), (all_ints ys); reflexivity.
Qed.

Lemma fold_right_add_app a b : fold_right Z.add 0 (a ++ b) = fold_right Z.add 0 a + fold_right Z.add 0 b.
Proof. induction a; simpl; lia. Qed.

Lemma sum_agg_hom : agg_hom (VInt 0) op_add op_add.
Proof.
  split.
  - intros xs. rewrite fold_add_char. destruct (all_ints xs); reflexivity.
  - intros xs ys. rewrite !fold_add_char, all_ints_app.
    destruct (all_ints xs), (all_ints ys); simpl; auto.
    rewrite fold_right_add_app. do 2 f_equal; try lia.
Qed.

(* aggregate([], append, extend) -- the in-place pair on the Python side: collects the elements *)
Lemma fold_append xs : forall l, foldM op_append xs (VList l) = Ok (VList (l ++ xs)).
Proof.
  induction xs as [|x xs IH]; intros l; simpl. { rewrite app_nil_r; reflexivity. }
  rewrite IH, <- app_assoc. reflexivity.
Qed.

Lemma collect_agg_hom : agg_hom (VList []) op_append op_extend.
Proof.
  split; intros; rewrite ?fold_append; simpl; reflexivity.
Qed.

(* aggregate(0, count, +) *)
Lemma fold_count xs : forall c, foldM op_count xs (VInt c) = Ok (VInt (c + len xs)).
Proof.
  induction xs as [|x xs IH]; intros c; simpl. { unfold len; simpl. do 2 f_equal; lia. }
  rewrite IH. unfold len; simpl length. do 2 f_equal. lia.
Qed.

Lemma count_agg_hom : agg_hom (VInt 0) op_count op_add.
Proof.
  split; intros; rewrite ?fold_count; simpl; auto. rewrite len_app. do 2 f_equal; try lia.
Qed.

(* fold(z, first): any zero *)
Lemma fold_first xs : forall z, foldM op_first xs z = Ok z.
Proof. induction xs; intros; simpl; auto. Qed.
Lemma first_agg_hom z : agg_hom z op_first op_first.
Proof. split; intros; rewrite ?fold_first; reflexivity. Qed.

(* a zero that is not neutral violates the contract: fold(1, +) *)
Lemma one_not_agg_hom : ~ agg_hom (VInt 1) op_add op_add.
Proof. intros [H _]. specialize (H []). vm_compute in H. discriminate. Qed.

(* partition functions *)
Lemma mp_id_hom : part_hom mp_id.
Proof. split; reflexivity. Qed.

Lemma mp_inc_hom : part_hom mp_inc.
Proof. split; [reflexivity|]. intros. unfold mp_inc. apply mapM_app. Qed.

Lemma mp_dup_hom : part_hom mp_dup.
Proof. split; [reflexivity|]. intros. unfold mp_dup. simpl. rewrite flat_map_app. reflexivity. Qed.

Lemma mp_evens_hom : part_hom mp_evens.
Proof. split; [reflexivity|]. intros. unfold mp_evens. apply flat_mapM_app. Qed.

Lemma mp_rev_not_hom : ~ part_hom mp_rev.
Proof. intros [_ H]. specialize (H [VInt 1] [VInt 2]). vm_compute in H. discriminate. Qed.

(* integers under + with 0, and under max-style op_mul with 1, are monoids in the sense of fold_monoid *)
Definition is_int (v : val) : Prop := exists z, v = VInt z.

Lemma int_add_monoid : monoid_on is_int (VInt 0) op_add.
Proof.
  repeat split.
  - exists 0; reflexivity.
  - intros a b [x ->] [y ->]. eexists; split; [reflexivity|]. eexists; reflexivity.
  - destruct H as [x ->]. cbv [op_add op_mul]. do 2 f_equal; lia.
  - destruct H as [x ->]. cbv [op_add op_mul]. do 2 f_equal; lia.
  - intros a b c [x ->] [y ->] [w ->]. cbv [op_add op_mul bind]. do 2 f_equal; lia.
Qed.

Lemma int_mul_monoid : monoid_on is_int (VInt 1) op_mul.
Proof.
  repeat split.
  - exists 1; reflexivity.
  - intros a b [x ->] [y ->]. eexists; split; [reflexivity|]. eexists; reflexivity.
  - destruct H as [x ->]. cbv [op_add op_mul]. do 2 f_equal; lia.
  - destruct H as [x ->]. cbv [op_add op_mul]. do 2 f_equal; lia.
  - intros a b c [x ->] [y ->] [w ->]. cbv [op_add op_mul bind]. do 2 f_equal; lia.
Qed.
