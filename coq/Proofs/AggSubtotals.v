(* C14: rollup / cube.  add_subtotals merges every group into each of its subtotal keys.
   - the keys of the result are exactly the distinct subtotal keys of the groups (first-seen order);
   - the state of a subtotal key is the merge, in group order, of the states of the contributing groups;
   - hence (aggregate_hom + the homomorphism law) it is equivalent to the fold over the rows of those groups,
     which are, up to a permutation, the rows whose key has that subtotal key: grouping by the key subset;
   - which keys those are for rollup and cube. *)
From Coq Require Import ZArith List Bool Permutation Morphisms RelationClasses Lia.
Require Import PV.Base.Num PV.Model.Agg PV.Proofs.AggGrouped.
Import ListNotations.

Set Implicit Arguments.

Lemma fold_left_flat_map {X Y Z} (f : Z -> Y -> Z) (g : X -> list Y) l a :
  fold_left f (flat_map g l) a = fold_left (fun a x => fold_left f (g x) a) l a.
Proof. revert a. induction l as [|x l IH]; intros a; simpl; auto. rewrite fold_left_app. apply IH. Qed.

Lemma fold_left_map {X Y Z} (f : Z -> Y -> Z) (h : X -> Y) l a :
  fold_left f (map h l) a = fold_left (fun a x => f a (h x)) l a.
Proof. revert a. induction l as [|x l IH]; intros a; simpl; auto. Qed.

Lemma filter_flat_map {X Y} (p : Y -> bool) (g : X -> list Y) l :
  filter p (flat_map g l) = flat_map (fun x => filter p (g x)) l.
Proof. induction l as [|x l IH]; simpl; auto. rewrite filter_app, IH. reflexivity. Qed.

Lemma map_flat_map {X Y Z} (h : Y -> Z) (g : X -> list Y) l :
  map h (flat_map g l) = flat_map (fun x => map h (g x)) l.
Proof. induction l as [|x l IH]; simpl; auto. rewrite map_app, IH. reflexivity. Qed.

Lemma filter_map_comm {X Y} (p : Y -> bool) (h : X -> Y) l : filter p (map h l) = map h (filter (fun x => p (h x)) l).
Proof. induction l as [|x l IH]; simpl; auto. destruct (p (h x)); simpl; rewrite IH; reflexivity. Qed.

Lemma fold_left_ext_eq {X Z} (f g : Z -> X -> Z) :
  (forall a x, f a x = g a x) -> forall l a, fold_left f l a = fold_left g l a.
Proof. intros H l. induction l as [|x l IH]; intros a; simpl; auto. rewrite H. apply IH. Qed.

Lemma flat_map_ext_eq {X Y} (f g : X -> list Y) : (forall x, f x = g x) -> forall l, flat_map f l = flat_map g l.
Proof. intros H l. induction l as [|x l IH]; simpl; auto. rewrite H, IH. reflexivity. Qed.

Section Subtotals.
  Variables (Row K S O : Type).
  Variable keqb : K -> K -> bool.
  Variable key : Row -> K.
  Variable A : aggregator Row S O.
  Hypothesis keqb_spec : forall a b, keqb a b = true <-> a = b.
  Variable subkeys : K -> list K.

  Notation groups := (list (K * S)).

  Definition items (gs : groups) : list (K * S) :=
    flat_map (fun ks => map (fun sk => (sk, snd ks)) (subkeys (fst ks))) gs.

  (* the states merged into subtotal key sk, in order (a group contributes once per occurrence of sk among its
     subtotal keys) *)
  Definition contributions (sk : K) (gs : groups) : list S :=
    flat_map (fun ks => map (fun _ => snd ks) (filter (keqb sk) (subkeys (fst ks)))) gs.

  Lemma g_subtotals_absorb gs :
    g_subtotals keqb A subkeys gs = absorb_all keqb (fun s : S => s) (a_merge A) fst snd (items gs) [].
  Proof.
    unfold g_subtotals, absorb_all, items. rewrite fold_left_flat_map.
    apply fold_left_ext_eq. intros acc ks. rewrite fold_left_map. reflexivity.
  Qed.

  Theorem subtotal_keys gs :
    map fst (g_subtotals keqb A subkeys gs) = first_keys keqb (flat_map subkeys (map fst gs)).
  Proof.
    rewrite g_subtotals_absorb, (keys_absorb_all keqb). simpl. unfold first_keys. f_equal.
    unfold items. rewrite map_flat_map. rewrite flat_map_concat_map, flat_map_concat_map. f_equal.
    rewrite map_map. apply map_ext. intros ks. rewrite map_map. simpl. apply map_id.
  Qed.

  Lemma contributions_items sk gs :
    map snd (filter (fun y => keqb sk (fst y)) (items gs)) = contributions sk gs.
  Proof.
    unfold items, contributions. rewrite filter_flat_map, map_flat_map.
    apply flat_map_ext_eq. intros ks. rewrite filter_map_comm, map_map. reflexivity.
  Qed.

  Theorem subtotal_find gs sk :
    g_find keqb sk (g_subtotals keqb A subkeys gs) =
    match contributions sk gs with
    | [] => None
    | s :: ss => Some (fold_left (a_merge A) ss s)
    end.
  Proof.
    rewrite g_subtotals_absorb, (find_absorb_all keqb keqb_spec). simpl. rewrite ostep_fold_none.
    rewrite <- contributions_items.
    destruct (filter (fun y => keqb sk (fst y)) (items gs)) as [|y ys]; reflexivity.
  Qed.

  (** ** relating the contributions of the computed groups to those of the reference *)
  Variable eqS : S -> S -> Prop.
  Variable eqO : O -> O -> Prop.
  Hypothesis L : agg_laws_ne A eqS eqO.

  Lemma contributions_rel sk (G H : groups) :
    Forall2 (group_rel eqS) G H -> Forall2 eqS (contributions sk G) (contributions sk H).
  Proof.
    intros F. induction F as [|[k s] [k' t] G H [E1 E2] F IH]; simpl in *.
    - constructor.
    - subst k'. apply Forall2_app; [|exact IH].
      induction (filter (keqb sk) (subkeys k)); simpl; constructor; auto.
  Qed.

  Lemma filter_nodup_single sk l :
    NoDup l -> filter (keqb sk) l = if key_mem keqb sk l then [sk] else [].
  Proof.
    induction l as [|x l IH]; intros ND; simpl; auto.
    inversion ND as [|? ? Hnin ND']; subst.
    destruct (keqb sk x) eqn:E; simpl.
    - apply keqb_spec in E. subst x. rewrite IH by exact ND'.
      destruct (key_mem keqb sk l) eqn:E2; auto.
      apply (key_mem_In keqb keqb_spec) in E2. contradiction.
    - apply IH. exact ND'.
  Qed.

  Lemma contributions_spec sk (f : K -> S) ks :
    Forall (fun k => NoDup (subkeys k)) ks ->
    contributions sk (map (fun k => (k, f k)) ks) =
    map f (filter (fun k => key_mem keqb sk (subkeys k)) ks).
  Proof.
    unfold contributions. induction ks as [|k ks IH]; intros ND; simpl; auto.
    inversion ND as [|? ? ND1 ND2]; subst.
    rewrite IH by exact ND2. rewrite (filter_nodup_single sk ND1).
    destruct (key_mem keqb sk (subkeys k)); reflexivity.
  Qed.

  (* merging, in order, states equivalent to the folds of non-empty row lists: the fold of their concatenation *)
  Lemma chain_hom (Rs : list (list Row)) :
    Forall (fun R => R <> []) Rs -> Rs <> [] ->
    forall ss, Forall2 eqS ss (map (a_fold A) Rs) ->
      exists s ss', ss = s :: ss' /\ eqS (fold_left (a_merge A) ss' s) (a_fold A (concat Rs)) /\ concat Rs <> [].
  Proof.
    pose proof (l_equiv L) as Eq.
    induction Rs as [|R Rs IH] using rev_ind; intros NE NN ss F; [contradiction|].
    apply Forall_app in NE. destruct NE as [NE1 NE2]. inversion NE2 as [|? ? HR _]; subst.
    rewrite map_app in F. apply Forall2_app_inv_r in F.
    destruct F as [ss1 [ss2 [F1 [F2 ->]]]].
    inversion F2 as [|s2 ? ? ? HS F3]; subst. inversion F3; subst.
    rewrite concat_app. simpl. rewrite app_nil_r.
    destruct Rs as [|R0 Rs'].
    - inversion F1; subst. simpl. exists s2, []. split; [reflexivity|]. split; [exact HS|exact HR].
    - destruct (IH NE1 ltac:(discriminate) ss1 F1) as [s [ss' [-> [HE HN]]]].
      exists s, (ss' ++ [s2]). split; [reflexivity|]. split.
      + rewrite fold_left_app. simpl.
        etransitivity.
        * apply (l_merge_proper L); [exact HE|exact HS].
        * apply (l_hom_ne L); assumption.
      + intros E. apply app_eq_nil in E. destruct E as [E _]. contradiction.
  Qed.

  (** ** rollup_spec / cube_spec, generic in the subtotal-key function *)
  Theorem subtotal_spec (ps : list (list Row)) (sk : K) :
    (forall r, In r (concat ps) -> NoDup (subkeys (key r))) ->
    In sk (flat_map subkeys (map key (concat ps))) ->
    exists s, g_find keqb sk (g_subtotals keqb A subkeys (g_aggregate keqb key A ps)) = Some s /\
              eqS s (a_fold A (concat (map (fun k => rows_of keqb key k (concat ps))
                                           (filter (fun k => key_mem keqb sk (subkeys k))
                                                   (first_keys keqb (map key (concat ps))))))).
  Proof.
    intros SND Hin. set (rows := concat ps) in *.
    rewrite subtotal_find.
    pose proof (contributions_rel sk (aggregate_hom keqb key keqb_spec L ps)) as F.
    fold rows in F. unfold g_spec in F. rewrite contributions_spec in F.
    2:{ apply Forall_forall. intros k Hk. apply (proj1 (In_first_keys keqb keqb_spec _ _)) in Hk.
        apply in_map_iff in Hk. destruct Hk as [r [<- Hr]]. apply SND. exact Hr. }
    set (ks := filter (fun k => key_mem keqb sk (subkeys k)) (first_keys keqb (map key rows))) in *.
    rewrite <- (map_map (fun k => rows_of keqb key k rows) (a_fold A)) in F.
    assert (Forall (fun R => R <> []) (map (fun k => rows_of keqb key k rows) ks)) as NE.
    { apply Forall_forall. intros R HR. apply in_map_iff in HR. destruct HR as [k [<- Hk]].
      unfold ks in Hk. apply filter_In in Hk. destruct Hk as [Hk _].
      apply (proj1 (In_first_keys keqb keqb_spec _ _)) in Hk. apply in_map_iff in Hk. destruct Hk as [r [Hr1 Hr2]].
      intros E. assert (In r (rows_of keqb key k rows)) as Hr3.
      { unfold rows_of. apply filter_In. split; auto. subst k. apply (keqb_refl keqb keqb_spec). }
      rewrite E in Hr3. contradiction. }
    assert (map (fun k => rows_of keqb key k rows) ks <> []) as NN.
    { apply in_flat_map in Hin. destruct Hin as [k [Hk1 Hk2]].
      assert (In k ks) as Hk.
      { unfold ks. apply filter_In. split.
        - apply (In_first_keys keqb keqb_spec). exact Hk1.
        - apply (key_mem_In keqb keqb_spec). exact Hk2. }
      intros E. apply map_eq_nil in E. rewrite E in Hk. contradiction. }
    destruct (chain_hom NE NN F) as [s [ss' [-> [HE _]]]].
    exists (fold_left (a_merge A) ss' s). split; [reflexivity|exact HE].
  Qed.
End Subtotals.

(** * the rows of the contributing groups are, up to order, the rows whose key passes the test *)
Section Blocks.
  Variables (Row K : Type).
  Variable keqb : K -> K -> bool.
  Variable key : Row -> K.
  Hypothesis keqb_spec : forall a b, keqb a b = true <-> a = b.

  Lemma filter_disjoint_perm (p q : Row -> bool) l :
    (forall r, p r = true -> q r = true -> False) ->
    Permutation (filter p l ++ filter q l) (filter (fun r => p r || q r) l).
  Proof.
    intros D. induction l as [|r l IH]; simpl; auto.
    destruct (p r) eqn:Ep, (q r) eqn:Eq; simpl.
    - exfalso. eauto.
    - constructor. exact IH.
    - etransitivity; [symmetry; apply Permutation_middle|]. constructor. exact IH.
    - exact IH.
  Qed.

  Lemma blocks_perm ks rows :
    NoDup ks ->
    Permutation (concat (map (fun k => rows_of keqb key k rows) ks))
                (filter (fun r => key_mem keqb (key r) ks) rows).
  Proof.
    induction ks as [|k ks IH]; intros ND; simpl.
    - induction rows; simpl; auto.
    - inversion ND as [|? ? Hnin ND']; subst.
      etransitivity; [apply Permutation_app_head; apply IH; exact ND'|].
      unfold rows_of.
      etransitivity; [apply filter_disjoint_perm|].
      + intros r E1 E2. apply keqb_spec in E1. apply (key_mem_In keqb keqb_spec) in E2. subst k. contradiction.
      + apply Permutation_refl'. apply filter_ext. intros r. unfold key_mem. simpl.
        rewrite (keqb_sym keqb keqb_spec). reflexivity.
  Qed.

  Theorem group_blocks_perm (Q : K -> bool) rows :
    Permutation (concat (map (fun k => rows_of keqb key k rows) (filter Q (first_keys keqb (map key rows)))))
                (filter (fun r => Q (key r)) rows).
  Proof.
    etransitivity; [apply blocks_perm; apply NoDup_filter; apply (NoDup_first_keys keqb keqb_spec)|].
    apply Permutation_refl'. apply filter_ext_in. intros r Hr.
    destruct (Q (key r)) eqn:EQ.
    - apply (key_mem_In keqb keqb_spec). apply filter_In. split; auto.
      apply (In_first_keys keqb keqb_spec). apply in_map. exact Hr.
    - destruct (key_mem keqb (key r) (filter Q (first_keys keqb (map key rows)))) eqn:E; auto.
      apply (key_mem_In keqb keqb_spec) in E. apply filter_In in E. destruct E as [_ E]. congruence.
  Qed.
End Blocks.

(** * which keys are subtotal keys: rollup and cube *)
Section RollupCube.
  Context {Ops : NumOps}.
  Notation gkey := (@gkey Ops).

  Lemma map_const_repeat {X Y} (y : Y) (l : list X) : map (fun _ => y) l = repeat y (length l).
  Proof. induction l; simpl; congruence. Qed.

  Theorem rollup_keys_spec (k sk : gkey) :
    In sk (rollup_keys k) <-> exists i, (i <= length k)%nat /\ sk = firstn i k ++ repeat None (length k - i).
  Proof.
    revert sk. induction k as [|x k IH]; intros sk; simpl.
    - split.
      + intros [<-|[]]. exists 0%nat. split; auto.
      + intros [i [Hi ->]]. left. destruct i; reflexivity.
    - split.
      + intros [<-|H].
        * exists 0%nat. split; [lia|]. simpl. rewrite map_const_repeat. reflexivity.
        * apply in_map_iff in H. destruct H as [t [<- Ht]]. apply IH in Ht.
          destruct Ht as [i [Hi ->]]. exists (S i). split; [lia|]. reflexivity.
      + intros [i [Hi ->]]. destruct i as [|i].
        * left. simpl. rewrite map_const_repeat. reflexivity.
        * right. simpl. apply in_map. apply IH. exists i. split; [lia|reflexivity].
  Qed.

  Theorem cube_keys_spec (k sk : gkey) :
    In sk (cube_keys k) <-> Forall2 (fun s x => s = None \/ s = x) sk k.
  Proof.
    revert sk. induction k as [|x k IH]; intros sk; simpl.
    - split.
      + intros [<-|[]]. constructor.
      + intros H. inversion H. left. reflexivity.
    - rewrite in_app_iff, !in_map_iff. split.
      + intros [[t [<- Ht]]|[t [<- Ht]]]; constructor; auto; apply IH; exact Ht.
      + intros H. inversion H as [|s x' t k' Hs Ht]; subst.
        destruct Hs as [->| ->]; [left|right]; exists t; split; auto; apply IH; exact Ht.
  Qed.

  Lemma NoDup_app_intro {X} (a b : list X) :
    NoDup a -> NoDup b -> (forall x, In x a -> ~ In x b) -> NoDup (a ++ b).
  Proof.
    induction a as [|x a IH]; intros Na Nb D; simpl; auto.
    inversion Na as [|? ? Hnin Na']; subst. constructor.
    - rewrite in_app_iff. intros [H|H]; [contradiction|]. apply (D x); [left; reflexivity|exact H].
    - apply IH; auto. intros y Hy. apply D. right. exact Hy.
  Qed.

  Lemma NoDup_map_cons {X} (x : X) l : NoDup l -> NoDup (map (cons x) l).
  Proof.
    intros H. apply FinFun.Injective_map_NoDup; auto. intros a b E. injection E. auto.
  Qed.

  (* a key built from row values (no subtotal marker in it) has pairwise distinct subtotal keys *)
  Theorem subkeys_nodup (m : gmode) (k : gkey) : Forall (fun x => x <> None) k -> NoDup (subkeys m k).
  Proof.
    intros H. destruct m; simpl.
    - constructor; [intros []|constructor].
    - induction H as [|x k Hx H IH]; simpl.
      + constructor; [intros []|constructor].
      + constructor.
        * intros Hin. apply in_map_iff in Hin. destruct Hin as [t [E _]]. injection E as E _. congruence.
        * apply NoDup_map_cons. exact IH.
    - induction H as [|x k Hx H IH]; simpl.
      + constructor; [intros []|constructor].
      + apply NoDup_app_intro; try (apply NoDup_map_cons; exact IH).
        intros t H1 H2. apply in_map_iff in H1. apply in_map_iff in H2.
        destruct H1 as [a [<- _]]. destruct H2 as [b [E _]]. injection E as E _. congruence.
  Qed.

  Theorem key_of_no_marker keycols (r : @row Ops) : Forall (fun x => x <> None) (key_of keycols r).
  Proof. unfold key_of. apply Forall_forall. intros x Hx. apply in_map_iff in Hx. destruct Hx as [i [<- _]]. discriminate. Qed.

  Theorem subkeys_of_row_nodup (m : gmode) keycols (r : @row Ops) : NoDup (subkeys m (key_of keycols r)).
  Proof. apply subkeys_nodup. apply key_of_no_marker. Qed.
End RollupCube.
