(* C14: ColumnStatHelper over the real numbers.
   The regenerated kernels csh_update_moments / csh_merge_moments (PV.Gen.AggMoments, instantiated with R) keep
     m_k = sum over the values of (x - mean)^k        (k = 2, 3, 4)
   under single-row updates and under pairwise merges; together with the hand-modelled counters this gives:
   the state after folding a list of rows is a function [csh_of] of the list of non-null values alone,
   mergeStats of two such states is the state of the concatenation (EXACTLY, for all lists, empty ones included),
   and every read-out equals the textbook formula. *)
From Coq Require Import ZArith List Bool Reals Lra Lia.
Require Import PV.Base.Num PV.Base.NumR PV.Base.NumSqrt PV.Gen.AggMoments PV.Model.Agg PV.Proofs.AggGrouped
  PV.Proofs.AggInstances.
Import ListNotations.
Open Scope R_scope.

Notation rnum := (@num ROps).
Notation rcell := (@cell ROps).
Notation rcsh := (@csh ROps).

Ltac toR := change (@F ROps) with R in *.
Ltac absnum := repeat match goal with |- context [@num_F ROps ?x] => let r := fresh "r" in generalize (@num_F ROps x); intro r end; toR.

(** * sums, power sums, central sums *)
Definition rsum (l : list R) : R := fold_right Rplus 0 l.
Definition psum (k : nat) (l : list R) : R := rsum (map (fun v => v ^ k) l).
Definition rlen (l : list R) : R := IZR (Z.of_nat (length l)).
Definition rmean (l : list R) : R := rsum l / rlen l.
(* the textbook central sum: sum of (x - mean)^k *)
Definition cm (k : nat) (l : list R) : R := rsum (map (fun v => (v - rmean l) ^ k) l).

Lemma rsum_app a b : rsum (a ++ b) = rsum a + rsum b.
Proof. induction a; simpl; [ring|]. rewrite IHa. ring. Qed.
Lemma psum_app k a b : psum k (a ++ b) = psum k a + psum k b.
Proof. unfold psum. rewrite map_app. apply rsum_app. Qed.
Lemma rlen_cons x l : rlen (x :: l) = rlen l + 1.
Proof. unfold rlen. simpl length. rewrite Nat2Z.inj_succ, succ_IZR. reflexivity. Qed.
Lemma rlen_app a b : rlen (a ++ b) = rlen a + rlen b.
Proof. unfold rlen. rewrite app_length, Nat2Z.inj_add, plus_IZR. reflexivity. Qed.
Lemma psum_single k x : psum k [x] = x ^ k.
Proof. unfold psum. simpl. ring. Qed.
Lemma rsum_single x : rsum [x] = x.
Proof. simpl. ring. Qed.
Lemma rlen_single x : rlen [x] = 1.
Proof. reflexivity. Qed.
Lemma rlen_nil : rlen [] = 0.
Proof. reflexivity. Qed.
Lemma rlen_pos l : l <> [] -> 0 < rlen l.
Proof.
  intros H. destruct l as [|x l]; [contradiction|]. unfold rlen. apply IZR_lt. simpl length. lia.
Qed.
Lemma rlen_nonneg l : 0 <= rlen l.
Proof. unfold rlen. apply IZR_le. lia. Qed.

Lemma rsum_map_cons (f : R -> R) x l : rsum (map f (x :: l)) = f x + rsum (map f l).
Proof. reflexivity. Qed.

(* sum of (x - c)^k in terms of the power sums *)
Lemma shift2 c l : rsum (map (fun v => (v - c) ^ 2) l) = psum 2 l - 2 * c * rsum l + rlen l * c ^ 2.
Proof.
  induction l as [|x l IH]; [unfold psum, rlen; simpl; ring|].
  rewrite rlen_cons. unfold psum in *. rewrite !rsum_map_cons, IH. simpl. ring.
Qed.
Lemma shift3 c l :
  rsum (map (fun v => (v - c) ^ 3) l) = psum 3 l - 3 * c * psum 2 l + 3 * c ^ 2 * rsum l - rlen l * c ^ 3.
Proof.
  induction l as [|x l IH]; [unfold psum, rlen; simpl; ring|].
  rewrite rlen_cons. unfold psum in *. rewrite !rsum_map_cons, IH. simpl. ring.
Qed.
Lemma shift4 c l :
  rsum (map (fun v => (v - c) ^ 4) l) =
  psum 4 l - 4 * c * psum 3 l + 6 * c ^ 2 * psum 2 l - 4 * c ^ 3 * rsum l + rlen l * c ^ 4.
Proof.
  induction l as [|x l IH]; [unfold psum, rlen; simpl; ring|].
  rewrite rlen_cons. unfold psum in *. rewrite !rsum_map_cons, IH. simpl. ring.
Qed.

Definition M2 (n p1 p2 : R) : R := p2 - 2 * (p1 / n) * p1 + n * (p1 / n) ^ 2.
Definition M3 (n p1 p2 p3 : R) : R := p3 - 3 * (p1 / n) * p2 + 3 * (p1 / n) ^ 2 * p1 - n * (p1 / n) ^ 3.
Definition M4 (n p1 p2 p3 p4 : R) : R :=
  p4 - 4 * (p1 / n) * p3 + 6 * (p1 / n) ^ 2 * p2 - 4 * (p1 / n) ^ 3 * p1 + n * (p1 / n) ^ 4.

Lemma cm2_M l : cm 2 l = M2 (rlen l) (rsum l) (psum 2 l).
Proof. unfold cm, rmean, M2. apply shift2. Qed.
Lemma cm3_M l : cm 3 l = M3 (rlen l) (rsum l) (psum 2 l) (psum 3 l).
Proof. unfold cm, rmean, M3. apply shift3. Qed.
Lemma cm4_M l : cm 4 l = M4 (rlen l) (rsum l) (psum 2 l) (psum 3 l) (psum 4 l).
Proof. unfold cm, rmean, M4. apply shift4. Qed.

(** * the regenerated kernels over R *)
Lemma triple_eq {X Y Z} (a a' : X) (b b' : Y) (c c' : Z) : a = a' -> b = b' -> c = c' -> (a, b, c) = (a', b', c').
Proof. intros; subst; reflexivity. Qed.

Lemma upd_identity n N p1 p2 p3 p4 x :
  IZR n = N -> (0 < n)%Z -> N <> 0 -> N + 1 <> 0 ->
  @csh_update_moments ROps n (p1 / N) (M2 N p1 p2) (M3 N p1 p2 p3) (M4 N p1 p2 p3 p4) x =
  (M2 (N + 1) (p1 + x) (p2 + x ^ 2), M3 (N + 1) (p1 + x) (p2 + x ^ 2) (p3 + x ^ 3),
   M4 (N + 1) (p1 + x) (p2 + x ^ 2) (p3 + x ^ 3) (p4 + x ^ 4)).
Proof.
  intros HN Hn N0 N1. unfold csh_update_moments.
  assert ((0 <? n)%Z = true) as E by (apply Z.ltb_lt; exact Hn). rewrite E.
  cbn [fsub fadd fmul fdiv fofZ ROps]. rewrite plus_IZR, HN.
  unfold M2, M3, M4. change (@F ROps) with R in *. apply triple_eq; field; auto.
Qed.

Lemma upd_identity0 x :
  @csh_update_moments ROps 0 (0 / 0) 0 0 0 x = (0, 0, 0).
Proof.
  unfold csh_update_moments. cbn [fsub fadd fmul fdiv fofZ ROps Z.ltb Z.compare Z.add].
  change (@F ROps) with R in *. apply triple_eq; field.
Qed.

Lemma mrg_identity n1 n2 N1 N2 p1 p2 p3 p4 q1 q2 q3 q4 :
  IZR n1 = N1 -> IZR n2 = N2 -> (0 < n1)%Z -> (0 < n2)%Z -> N1 <> 0 -> N2 <> 0 -> N1 + N2 <> 0 ->
  @csh_merge_moments ROps n1 (p1 / N1) (M2 N1 p1 p2) (M3 N1 p1 p2 p3) (M4 N1 p1 p2 p3 p4)
                          n2 (q1 / N2) (M2 N2 q1 q2) (M3 N2 q1 q2 q3) (M4 N2 q1 q2 q3 q4) =
  (M2 (N1 + N2) (p1 + q1) (p2 + q2), M3 (N1 + N2) (p1 + q1) (p2 + q2) (p3 + q3),
   M4 (N1 + N2) (p1 + q1) (p2 + q2) (p3 + q3) (p4 + q4)).
Proof.
  intros H1 H2 P1 P2 Z1 Z2 Z12. unfold csh_merge_moments.
  assert ((n1 + n2 =? 0)%Z = false) as E by (apply Z.eqb_neq; lia). rewrite E.
  cbn [negb fsub fadd fmul fdiv fofZ ROps].
  rewrite ?plus_IZR, ?minus_IZR, ?mult_IZR, ?plus_IZR, ?H1, ?H2.
  unfold M2, M3, M4. change (@F ROps) with R in *. apply triple_eq; field; auto.
Qed.

(** * the state as a function of the values *)
Definition vals (xs : list rnum) : list R := map num_F xs.
Definition sum_nums (xs : list rnum) : rnum := fold_left num_add xs (NI 0).
Definition nmin (a b : rnum) : rnum := if num_ltb b a then b else a.
Definition nmax (a b : rnum) : rnum := if num_ltb a b then b else a.
Definition lmin (xs : list rnum) : rcell :=
  match xs with [] => CNull | x :: r => CNum (fold_left nmin r x) end.
Definition lmax (xs : list rnum) : rcell :=
  match xs with [] => CNull | x :: r => CNum (fold_left nmax r x) end.

Definition csh_of (xs : list rnum) : rcsh :=
  mkCsh (Z.of_nat (length xs)) true (sum_nums xs) (cm 2 (vals xs)) (cm 3 (vals xs)) (cm 4 (vals xs))
        (lmin xs) (lmax xs).

Lemma num_F_add (a b : rnum) : num_F (num_add a b) = num_F a + num_F b.
Proof. destruct a, b; simpl; auto. apply plus_IZR. Qed.

Lemma num_add_assoc (a b c : rnum) : num_add (num_add a b) c = num_add a (num_add b c).
Proof.
  destruct a, b, c; simpl; toR; try (f_equal; rewrite ?plus_IZR; try ring; lia).
Qed.

Lemma num_add_0_r (a : rnum) : num_add a (NI 0) = a.
Proof. destruct a; simpl; toR; f_equal; [lia|ring]. Qed.

Lemma sum_nums_gen xs a : fold_left num_add xs a = num_add a (sum_nums xs).
Proof.
  unfold sum_nums. revert a. induction xs as [|x xs IH] using rev_ind; intros a.
  - simpl. symmetry. apply num_add_0_r.
  - rewrite !fold_left_app. simpl. rewrite IH. rewrite num_add_assoc. reflexivity.
Qed.

Lemma sum_nums_app xs ys : sum_nums (xs ++ ys) = num_add (sum_nums xs) (sum_nums ys).
Proof. unfold sum_nums at 1. rewrite fold_left_app. apply sum_nums_gen. Qed.

Lemma sum_nums_F xs : num_F (sum_nums xs) = rsum (vals xs).
Proof.
  induction xs as [|x xs IH] using rev_ind.
  - reflexivity.
  - rewrite sum_nums_app, num_F_add, IH. unfold vals. rewrite map_app, rsum_app.
    replace (num_F (sum_nums [x])) with (num_F x).
    + simpl. absnum. ring.
    + unfold sum_nums. cbn [fold_left]. rewrite num_F_add. simpl. absnum. ring.
Qed.

Lemma vals_len xs : rlen (vals xs) = IZR (Z.of_nat (length xs)).
Proof. unfold rlen, vals. rewrite map_length. reflexivity. Qed.

Lemma c_mean_of xs : c_mean (csh_of xs) = rmean (vals xs).
Proof. unfold c_mean, csh_mean, rmean. simpl. rewrite sum_nums_F, vals_len. reflexivity. Qed.

(* comparison of numbers goes by value *)
Lemma num_ltb_R (a b : rnum) : num_ltb a b = Rltb (num_F a) (num_F b).
Proof.
  destruct a as [x|f], b as [y|g]; simpl; auto.
  unfold Rltb. destruct (Rlt_dec (IZR x) (IZR y)) as [H|H].
  - apply Z.ltb_lt. apply lt_IZR. exact H.
  - apply Z.ltb_ge. apply le_IZR. lra.
Qed.

Lemma Rltb_true x y : Rltb x y = true -> x < y.
Proof. unfold Rltb. destruct (Rlt_dec x y); [auto|discriminate]. Qed.
Lemma Rltb_false x y : Rltb x y = false -> ~ x < y.
Proof. unfold Rltb. destruct (Rlt_dec x y); [discriminate|auto]. Qed.

Ltac cmp_cases :=
  repeat match goal with
         | |- context [Rltb ?x ?y] => let E := fresh "E" in destruct (Rltb x y) eqn:E
         end;
  try reflexivity; exfalso;
  repeat match goal with
         | H : Rltb _ _ = true |- _ => apply Rltb_true in H
         | H : Rltb _ _ = false |- _ => apply Rltb_false in H
         end; lra.

Lemma nmin_assoc a b c : nmin (nmin a b) c = nmin a (nmin b c).
Proof.
  unfold nmin. rewrite !num_ltb_R.
  remember (num_F a) as ra eqn:Ha. remember (num_F b) as rb eqn:Hb. remember (num_F c) as rc eqn:Hc. toR.
  destruct (Rltb rb ra) eqn:E1; destruct (Rltb rc rb) eqn:E2;
    rewrite ?num_ltb_R, <- ?Ha, <- ?Hb, <- ?Hc, ?E1, ?E2; cmp_cases.
Qed.

Lemma nmax_assoc a b c : nmax (nmax a b) c = nmax a (nmax b c).
Proof.
  unfold nmax. rewrite !num_ltb_R.
  remember (num_F a) as ra eqn:Ha. remember (num_F b) as rb eqn:Hb. remember (num_F c) as rc eqn:Hc. toR.
  destruct (Rltb ra rb) eqn:E1; destruct (Rltb rb rc) eqn:E2;
    rewrite ?num_ltb_R, <- ?Ha, <- ?Hb, <- ?Hc, ?E1, ?E2; cmp_cases.
Qed.

Lemma fold_assoc_split {X} (f : X -> X -> X) :
  (forall a b c, f (f a b) c = f a (f b c)) ->
  forall l2 l1 a y, fold_left f (l1 ++ y :: l2) a = f (fold_left f l1 a) (fold_left f l2 y).
Proof.
  intros HA l2. induction l2 as [|z l2 IH] using rev_ind; intros l1 a y.
  - rewrite fold_left_app. reflexivity.
  - replace (l1 ++ y :: l2 ++ [z]) with ((l1 ++ y :: l2) ++ [z]) by (rewrite <- app_assoc; reflexivity).
    rewrite fold_left_app. simpl. rewrite IH. rewrite (fold_left_app f l2 [z]). simpl. apply HA.
Qed.

Lemma cell_min_num (a b : rnum) : cell_min (CNum a) (CNum b) = CNum (nmin a b).
Proof. unfold cell_min, nmin. simpl. destruct (num_ltb b a); reflexivity. Qed.
Lemma cell_max_num (a b : rnum) : cell_max (CNum a) (CNum b) = CNum (nmax a b).
Proof. unfold cell_max, nmax. simpl. destruct (num_ltb a b); reflexivity. Qed.

(** ** one more value *)
Lemma cm_snoc_pos l x : l <> [] ->
  @csh_update_moments ROps (Z.of_nat (length l)) (rmean l) (cm 2 l) (cm 3 l) (cm 4 l) x =
  (cm 2 (l ++ [x]), cm 3 (l ++ [x]), cm 4 (l ++ [x])).
Proof.
  intros NE. rewrite !cm2_M, !cm3_M, !cm4_M. unfold rmean.
  rewrite !rlen_app, !rsum_app, !psum_app, !psum_single, rsum_single, rlen_single.
  pose proof (rlen_pos _ NE) as HP.
  apply upd_identity; try lra.
  - reflexivity.
  - destruct l; [contradiction|]. simpl length. lia.
Qed.

Lemma cm_single x : (cm 2 [x], cm 3 [x], cm 4 [x]) = (0, 0, 0).
Proof.
  unfold cm, rmean, rlen. simpl. apply triple_eq; field.
Qed.

Theorem csh_update_of xs (x : rnum) : csh_update (csh_of xs) (CNum x) = csh_of (xs ++ [x]).
Proof.
  unfold csh_update. cbn [c_ok csh_of c_count c_m2 c_m3 c_m4 c_sum c_min c_max].
  rewrite c_mean_of.
  assert (@csh_update_moments ROps (Z.of_nat (length xs)) (rmean (vals xs)) (cm 2 (vals xs)) (cm 3 (vals xs))
                              (cm 4 (vals xs)) (num_F x) =
          (cm 2 (vals (xs ++ [x])), cm 3 (vals (xs ++ [x])), cm 4 (vals (xs ++ [x])))) as HM.
  { unfold vals. rewrite map_app. simpl map. rewrite <- (map_length (@num_F ROps) xs). destruct xs as [|y ys].
    - simpl map. simpl app. rewrite cm_single. unfold rmean, rsum, rlen. simpl length. simpl Z.of_nat.
      unfold cm. simpl. apply upd_identity0.
    - apply cm_snoc_pos. discriminate. }
  rewrite HM. unfold csh_of. f_equal.
  - rewrite app_length. simpl. lia.
  - unfold sum_nums. rewrite fold_left_app. reflexivity.
  - destruct xs as [|y ys]; simpl.
    + reflexivity.
    + rewrite cell_min_num. rewrite fold_left_app. reflexivity.
  - destruct xs as [|y ys]; simpl.
    + reflexivity.
    + rewrite cell_max_num. rewrite fold_left_app. reflexivity.
Qed.

(** ** merging two states *)
Lemma cm_app l1 l2 : l1 <> [] -> l2 <> [] ->
  @csh_merge_moments ROps (Z.of_nat (length l1)) (rmean l1) (cm 2 l1) (cm 3 l1) (cm 4 l1)
                          (Z.of_nat (length l2)) (rmean l2) (cm 2 l2) (cm 3 l2) (cm 4 l2) =
  (cm 2 (l1 ++ l2), cm 3 (l1 ++ l2), cm 4 (l1 ++ l2)).
Proof.
  intros N1 N2. rewrite !cm2_M, !cm3_M, !cm4_M. unfold rmean.
  rewrite !rlen_app, !rsum_app, !psum_app.
  pose proof (rlen_pos _ N1) as P1. pose proof (rlen_pos _ N2) as P2.
  apply mrg_identity; try lra; try reflexivity.
  - destruct l1; [contradiction|]. simpl length. lia.
  - destruct l2; [contradiction|]. simpl length. lia.
Qed.

Theorem csh_merge_of xs ys : csh_merge (csh_of xs) (csh_of ys) = csh_of (xs ++ ys).
Proof.
  destruct xs as [|x xs].
  - unfold csh_merge. simpl. reflexivity.
  - destruct ys as [|y ys].
    + rewrite app_nil_r. unfold csh_merge.
      cbn [c_ok csh_of c_count c_m2 c_m3 c_m4 c_sum c_min c_max].
      replace (Z.of_nat (length (x :: xs)) =? 0)%Z with false by (symmetry; apply Z.eqb_neq; simpl length; lia).
      change (Z.of_nat (length (@nil rnum))) with 0%Z. cbn [Z.eqb orb negb].
      unfold csh_of. f_equal; lia.
    + unfold csh_merge.
      cbn [c_ok csh_of c_count c_m2 c_m3 c_m4 c_sum c_min c_max].
      replace (Z.of_nat (length (x :: xs)) =? 0)%Z with false by (symmetry; apply Z.eqb_neq; simpl length; lia).
      replace (Z.of_nat (length (y :: ys)) =? 0)%Z with false by (symmetry; apply Z.eqb_neq; simpl length; lia).
      cbn [orb andb negb]. rewrite !c_mean_of.
      assert (vals (x :: xs) <> []) as V1 by (simpl; discriminate).
      assert (vals (y :: ys) <> []) as V2 by (simpl; discriminate).
      pose proof (cm_app _ _ V1 V2) as HM. unfold vals in HM at 1 6. rewrite !map_length in HM.
      rewrite HM. unfold csh_of. f_equal.
      * rewrite app_length. lia.
      * symmetry. apply sum_nums_app.
      * unfold vals. rewrite map_app. reflexivity.
      * unfold vals. rewrite map_app. reflexivity.
      * unfold vals. rewrite map_app. reflexivity.
      * unfold lmin. simpl app. rewrite cell_min_num. f_equal. symmetry.
        apply (fold_assoc_split nmin nmin_assoc).
      * unfold lmax. simpl app. rewrite cell_max_num. f_equal. symmetry.
        apply (fold_assoc_split nmax nmax_assoc).
Qed.

(** * the stat aggregator over rows *)
Section StatAgg.
  Variables (Row O : Type).
  Variable getn : Row -> option rnum.          (* the column: None = null *)
  Variable outf : rcsh -> O.
  Definition get_of (r : Row) : rcell := match getn r with Some n => CNum n | None => CNull end.
  Definition nums_of (rows : list Row) : list rnum :=
    flat_map (fun r => match getn r with Some n => [n] | None => [] end) rows.

  Lemma nums_of_app a b : nums_of (a ++ b) = nums_of a ++ nums_of b.
  Proof. apply flat_map_app. Qed.

  (* the state after any list of rows depends on the non-null values only *)
  Theorem stat_fold rows : a_fold (stat_agg get_of outf) rows = csh_of (nums_of rows).
  Proof.
    induction rows as [|r rows IH] using rev_ind.
    - reflexivity.
    - unfold a_fold in *. rewrite fold_left_app, IH. rewrite nums_of_app.
      cbn [fold_left a_step stat_agg]. unfold csh_step, get_of.
      replace (nums_of [r]) with (match getn r with Some n => [n] | None => [] end)
        by (unfold nums_of; simpl; rewrite app_nil_r; reflexivity).
      destruct (getn r) as [n|]; cbn [is_null].
      + apply csh_update_of.
      + rewrite app_nil_r. reflexivity.
  Qed.

  (* exact homomorphism, for all row lists: including those without any non-null value *)
  Theorem stat_laws : agg_laws (stat_agg get_of outf) eq eq.
  Proof.
    assert (forall xs ys, a_merge (stat_agg get_of outf) (a_fold (stat_agg get_of outf) xs)
                                  (a_fold (stat_agg get_of outf) ys) =
                          a_fold (stat_agg get_of outf) (xs ++ ys)) as HOM.
    { intros xs ys. rewrite !stat_fold. simpl. rewrite csh_merge_of, nums_of_app. reflexivity. }
    constructor; [constructor|..].
    - typeclasses eauto.
    - intros; subst; reflexivity.
    - intros; subst; reflexivity.
    - intros xs ys _ _. apply HOM.
    - intros ys. apply (HOM [] ys).
    - intros xs. pose proof (HOM xs []) as H. rewrite app_nil_r in H. exact H.
  Qed.
End StatAgg.

(** * read-outs = textbook formulas over the non-null values *)
Section Direct.
  Variable xs : list rnum.
  Let l := vals xs.
  Let n := IZR (Z.of_nat (length xs)).

  Theorem count_direct : csh_count (csh_of xs) = CNum (NI (Z.of_nat (length xs))).
  Proof. reflexivity. Qed.

  Theorem sum_direct_empty : xs = [] -> csh_sum (csh_of xs) = CNull.
  Proof. intros ->. reflexivity. Qed.

  Hypothesis NE : xs <> [].

  Lemma count_nz : (Z.of_nat (length xs) =? 0)%Z = false.
  Proof. apply Z.eqb_neq. destruct xs; [contradiction|]. simpl length. lia. Qed.

  Theorem sum_direct : exists s, csh_sum (csh_of xs) = CNum s /\ num_F s = rsum l.
  Proof.
    exists (sum_nums xs). split; [|apply sum_nums_F].
    unfold csh_sum. simpl. rewrite count_nz. reflexivity.
  Qed.

  Theorem avg_direct : csh_avg (csh_of xs) = cf (rsum l / n).
  Proof.
    unfold csh_avg. cbn [c_count c_ok csh_of]. rewrite count_nz. cbn [orb negb].
    rewrite c_mean_of. unfold rmean. rewrite vals_len. reflexivity.
  Qed.

  Theorem var_pop_direct : csh_var_pop (csh_of xs) = cf (cm 2 l / n).
  Proof. unfold csh_var_pop. cbn [c_count c_ok c_m2 csh_of]. rewrite count_nz. reflexivity. Qed.

  Theorem std_pop_direct : csh_std_pop (csh_of xs) = cf (sqrt (cm 2 l / n)).
  Proof. unfold csh_std_pop. cbn [c_count c_ok c_m2 csh_of]. rewrite count_nz. reflexivity. Qed.

  Theorem skew_direct : cm 2 l <> 0 ->
    csh_skew (csh_of xs) = cf (sqrt n * cm 3 l / sqrt (cm 2 l * cm 2 l * cm 2 l)).
  Proof.
    intros H. unfold csh_skew. cbn [c_count c_ok c_m2 c_m3 csh_of]. rewrite count_nz. cbn [negb].
    cbn [feqb ROps fofZ]. unfold Reqb. destruct (Req_EM_T (cm 2 (vals xs)) 0); [contradiction|]. reflexivity.
  Qed.

  Theorem kurt_direct : cm 2 l <> 0 ->
    csh_kurt (csh_of xs) = cf (n * cm 4 l / (cm 2 l * cm 2 l) - 3).
  Proof.
    intros H. unfold csh_kurt. cbn [c_count c_ok c_m2 c_m4 csh_of]. rewrite count_nz. cbn [negb].
    cbn [feqb ROps fofZ]. unfold Reqb. destruct (Req_EM_T (cm 2 (vals xs)) 0); [contradiction|]. reflexivity.
  Qed.

  Hypothesis TWO : (2 <= length xs)%nat.

  Lemma count_gt1 : (Z.of_nat (length xs) <=? 1)%Z = false.
  Proof. apply Z.leb_gt. generalize TWO. clear. intros TWO. lia. Qed.

  Theorem var_samp_direct : csh_var_samp (csh_of xs) = cf (cm 2 l / (n - 1)).
  Proof.
    unfold csh_var_samp. cbn [c_count c_ok c_m2 csh_of]. rewrite count_gt1. cbn [orb negb].
    unfold csh_variance_samp. cbn [fdiv fofZ ROps]. rewrite minus_IZR. reflexivity.
  Qed.

  Theorem std_samp_direct : csh_std_samp (csh_of xs) = cf (sqrt (cm 2 l / (n - 1))).
  Proof.
    unfold csh_std_samp. cbn [c_count c_ok c_m2 csh_of]. rewrite count_gt1. cbn [orb negb].
    unfold csh_variance_samp, csh_stddev_samp. cbn [fdiv fofZ ROps fsqrt RSqrt]. rewrite minus_IZR. reflexivity.
  Qed.
End Direct.

Ltac lraF := repeat match goal with H : context [@num_F ROps _] |- _ => revert H end; absnum; intros; lra.

Theorem sum_direct_both xs :
  (xs = [] -> csh_sum (csh_of xs) = CNull) /\
  (xs <> [] -> exists s, csh_sum (csh_of xs) = CNum s /\ num_F s = rsum (vals xs)).
Proof. split; [apply sum_direct_empty|apply sum_direct]. Qed.

(* min / max: the read-out is one of the values and bounds all of them *)
Lemma fold_nmin_le r : forall x v, In v (x :: r) -> num_F (fold_left nmin r x) <= num_F v.
Proof.
  induction r as [|y r IH]; intros x v Hin.
  - destruct Hin as [->|[]]. simpl. lraF.
  - simpl fold_left.
    assert (num_F (nmin x y) <= num_F x /\ num_F (nmin x y) <= num_F y) as [H1 H2].
    { unfold nmin. rewrite num_ltb_R. unfold Rltb. destruct (Rlt_dec (num_F y) (num_F x)); lraF. }
    destruct Hin as [<-|[<-|Hin]].
    + pose proof (IH (nmin x y) (nmin x y) (or_introl eq_refl)). lraF.
    + pose proof (IH (nmin x y) (nmin x y) (or_introl eq_refl)). lraF.
    + apply IH. right. exact Hin.
Qed.

Lemma fold_nmin_in r : forall x, In (fold_left nmin r x) (x :: r).
Proof.
  induction r as [|y r IH]; intros x.
  - left. reflexivity.
  - simpl fold_left. destruct (IH (nmin x y)) as [H|H].
    + rewrite <- H. unfold nmin. destruct (num_ltb y x); [right; left|left]; reflexivity.
    + right. right. exact H.
Qed.

Lemma fold_nmax_ge r : forall x v, In v (x :: r) -> num_F v <= num_F (fold_left nmax r x).
Proof.
  induction r as [|y r IH]; intros x v Hin.
  - destruct Hin as [->|[]]. simpl. lraF.
  - simpl fold_left.
    assert (num_F x <= num_F (nmax x y) /\ num_F y <= num_F (nmax x y)) as [H1 H2].
    { unfold nmax. rewrite num_ltb_R. unfold Rltb. destruct (Rlt_dec (num_F x) (num_F y)); lraF. }
    destruct Hin as [<-|[<-|Hin]].
    + pose proof (IH (nmax x y) (nmax x y) (or_introl eq_refl)). lraF.
    + pose proof (IH (nmax x y) (nmax x y) (or_introl eq_refl)). lraF.
    + apply IH. right. exact Hin.
Qed.

Lemma fold_nmax_in r : forall x, In (fold_left nmax r x) (x :: r).
Proof.
  induction r as [|y r IH]; intros x.
  - left. reflexivity.
  - simpl fold_left. destruct (IH (nmax x y)) as [H|H].
    + rewrite <- H. unfold nmax. destruct (num_ltb x y); [right; left|left]; reflexivity.
    + right. right. exact H.
Qed.

Theorem min_direct xs : xs <> [] ->
  exists m, csh_min (csh_of xs) = CNum m /\ In m xs /\ forall v, In v xs -> num_F m <= num_F v.
Proof.
  intros NE. destruct xs as [|x r]; [contradiction|].
  exists (fold_left nmin r x). split; [|split].
  - unfold csh_min. cbn [c_count csh_of c_min]. rewrite count_nz by discriminate. reflexivity.
  - apply fold_nmin_in.
  - apply fold_nmin_le.
Qed.

Theorem max_direct xs : xs <> [] ->
  exists m, csh_max (csh_of xs) = CNum m /\ In m xs /\ forall v, In v xs -> num_F v <= num_F m.
Proof.
  intros NE. destruct xs as [|x r]; [contradiction|].
  exists (fold_left nmax r x). split; [|split].
  - unfold csh_max. cbn [c_count csh_of c_max]. rewrite count_nz by discriminate. reflexivity.
  - apply fold_nmax_in.
  - apply fold_nmax_ge.
Qed.

(* the hypotheses of the generic theorems are satisfiable *)
Theorem laws_inhabited :
  exists l : list (lawful (list (option rnum)) rcell),
    length l = 2%nat /\ forall w, In w l -> agg_laws (p_agg (lw_p w)) (lw_eqS w) (lw_eqO w).
Proof.
  exists [Lawful (Pack (stat_agg (get_of _ (fun r => nth 0 r None)) csh_sum)) eq eq;
          Lawful (Pack (stat_agg (get_of _ (fun r => nth 1 r None)) csh_kurt)) eq eq].
  split; [reflexivity|].
  intros w [<-|[<-|[]]]; simpl; apply stat_laws.
Qed.
