(* C15 -- link lemmas for the kernels regenerated into PV.Gen.SchemaNames.

   Each lemma states that the two code paths of the implementation that must agree -- the one that
   builds the declared schema and the one that builds every Row -- do agree, on what was regenerated
   from the current source.  If one side is edited without the other these lemmas stop checking and
   with them every theorem of Properties/C15.v about joins / pivots. *)
From Coq Require Import NArith List Bool.
Require Import PV.Gen.SchemaNames.
Import ListNotations.

(* merge_schemas (schema) and merge_rows_joined_on_values (rows) keep the right side's fields for
   exactly the same join types *)
Lemma right_fields_agree : forall h, schema_keeps_right h = row_has_right_parts h.
Proof. destruct h; reflexivity. Qed.

(* a left-semi join returns the left rows with an EMPTY right part: the schema must not declare
   right fields for it (nor for left-anti) *)
Lemma semi_drops_right : schema_keeps_right G_LEFT_SEMI_JOIN = false.
Proof. reflexivity. Qed.
Lemma anti_drops_right : schema_keeps_right G_LEFT_ANTI_JOIN = false.
Proof. reflexivity. Qed.

(* InternalGroupedDataFrame.agg (schema) and get_pivoted_stats (rows) format pivot column names alike *)
Lemma pivot_names_agree : forall pv stat, pivot_name_schema pv stat = pivot_name_row pv stat.
Proof. reflexivity. Qed.
