(* Lemmas for the row-level part of C19: verifier, inference, conversion, Row. *)
From Coq Require Import ZArith NArith List Bool String Ascii Lia PeanoNat.
Require Import PV.Gen.TypeTables PV.Model.Types PV.Proofs.TypesJson.
Import ListNotations.
Open Scope list_scope.
Open Scope Z_scope.

(* ================================================================ Row: pickling and asDict *)
Section pyval_ind'.
  Variable P : pyval -> Prop.
  Hypothesis Hleaf : forall v, (match v with PList _ | PTuple _ | PDict _ | PRow _ _ => False | _ => True end) -> P v.
  Hypothesis Hlist : forall l, Forall P l -> P (PList l).
  Hypothesis Htuple : forall l, Forall P l -> P (PTuple l).
  Hypothesis Hdict : forall kv, Forall (fun p => P (fst p) /\ P (snd p)) kv -> P (PDict kv).
  Hypothesis Hrow : forall names vals, Forall P vals -> P (PRow names vals).

  Fixpoint pyval_ind' (v : pyval) : P v :=
    let many := fix go (l : list pyval) : Forall P l :=
                  match l with [] => Forall_nil _ | x :: r => Forall_cons x (pyval_ind' x) (go r) end in
    match v with
    | PList l => Hlist l (many l)
    | PTuple l => Htuple l (many l)
    | PDict kv => Hdict kv ((fix go (l : list (pyval * pyval)) : Forall (fun p => P (fst p) /\ P (snd p)) l :=
                               match l with
                               | [] => Forall_nil _
                               | p :: r => Forall_cons p (conj (pyval_ind' (fst p)) (pyval_ind' (snd p))) (go r)
                               end) kv)
    | PRow names vals => Hrow names vals (many vals)
    | v' => Hleaf v' I
    end.
End pyval_ind'.

Fixpoint loads_list (l : list pickled) : res (list pyval) :=
  match l with
  | [] => Ok []
  | x :: r => bind (pickle_loads x) (fun y => bind (loads_list r) (fun ys => Ok (y :: ys)))
  end.

Lemma loads_KList l : pickle_loads (KList l) = bind (loads_list l) (fun l' => Ok (PList l')).
Proof. reflexivity. Qed.
Lemma loads_KTuple l : pickle_loads (KTuple l) = bind (loads_list l) (fun l' => Ok (PTuple l')).
Proof. reflexivity. Qed.

Lemma loads_list_dumps l : Forall (fun v => pickle_loads (pickle_dumps v) = Ok v) l ->
  loads_list (map pickle_dumps l) = Ok l.
Proof. induction 1 as [|x l Hx _ IH]; simpl; [reflexivity|]. now rewrite Hx, IH. Qed.

Lemma loads_names names : loads_list (map (fun n => KLeaf (PStr n)) names) = Ok (map PStr names).
Proof. induction names as [|n r IH]; simpl; [reflexivity|]. now rewrite IH. Qed.

Lemma all_strs_map names : all_strs (map PStr names) = Some names.
Proof. induction names as [|n r IH]; simpl; [reflexivity|]. now rewrite IH. Qed.

Lemma pickle_roundtrip : forall v, pickle_loads (pickle_dumps v) = Ok v.
Proof.
  induction v as [v Hv|l IH|l IH|kv IH|names vals IH] using pyval_ind'.
  - destruct v; try contradiction; reflexivity.
  - cbn [pickle_dumps]. rewrite loads_KList, loads_list_dumps by exact IH. reflexivity.
  - cbn [pickle_dumps]. rewrite loads_KTuple, loads_list_dumps by exact IH. reflexivity.
  - cbn [pickle_dumps pickle_loads].
    match goal with |- bind ?g _ = _ => assert (E : g = Ok kv) end.
    { induction IH as [|[a b] r [Ha Hb] _ IHr]; [reflexivity|]. cbn [map fst snd] in *.
      rewrite Ha, Hb. cbn [bind]. rewrite IHr. reflexivity. }
    rewrite E. reflexivity.
  - cbn [pickle_dumps]. cbn [pickle_loads]. fold loads_list.
    change ((fix go (l : list pickled) : res (list pyval) :=
               match l with
               | [] => Ok []
               | x :: r => bind (pickle_loads x) (fun y => bind (go r) (fun ys => Ok (y :: ys)))
               end)) with loads_list.
    rewrite loads_names. cbn [bind]. rewrite loads_list_dumps by exact IH. cbn [bind create_row].
    rewrite all_strs_map. reflexivity.
Qed.

Lemma str_eqb_neq a b : a <> b -> str_eqb a b = false.
Proof. intro H. destruct (str_eqb a b) eqn:E; [|reflexivity]. apply str_eqb_eq in E. contradiction. Qed.

Lemma pdict_set_fresh k v d :
  (forall k' x, In (PStr k', x) d -> k' <> k) -> pdict_set k v d = d ++ [(PStr k, v)].
Proof.
  induction d as [|[kk x] d IH]; intro H; simpl; [reflexivity|].
  assert (IH' : pdict_set k v d = d ++ [(PStr k, v)]) by (apply IH; intros; eapply H; right; eassumption).
  destruct kk; try (now rewrite IH').
  rewrite (str_eqb_neq k s); [now rewrite IH'|]. intro E. subst s. eapply (H k x); [now left|reflexivity].
Qed.

Lemma dict_zip_nodup : forall names vals d, NoDup names ->
  (forall k' x, In (PStr k', x) d -> ~ In k' names) ->
  dict_zip names vals d = d ++ combine (map PStr names) vals.
Proof.
  induction names as [|n names IH]; intros vals d Hnd Hd; simpl; [now rewrite app_nil_r|].
  destruct vals as [|v vals]; [now rewrite app_nil_r|].
  inversion Hnd as [|? ? Hn Hnd']; subst.
  rewrite IH; [|assumption|].
  - rewrite pdict_set_fresh; [now rewrite <- app_assoc|]. intros k' x Hin E. subst k'. apply (Hd n x Hin). now left.
  - intros k' x Hin Hk. rewrite pdict_set_fresh in Hin.
    + apply in_app_or in Hin. destruct Hin as [Hin|[E|[]]].
      * apply (Hd k' x Hin). now right.
      * injection E as -> _. contradiction.
    + intros k'' x' Hin' E. subst k''. apply (Hd n x' Hin'). now left.
Qed.

Lemma as_dict_spec names vals : NoDup names ->
  as_dict (PRow names vals) = Ok (PDict (combine (map PStr names) vals)).
Proof. intro H. unfold as_dict. rewrite dict_zip_nodup; [reflexivity|assumption|intros ? ? []]. Qed.

Lemma as_dict_conv_spec names vals : NoDup names ->
  as_dict_conv (PRow names vals) = PDict (combine (map PStr names) (map as_dict_conv vals)).
Proof. intro H. cbn [as_dict_conv]. rewrite dict_zip_nodup; [reflexivity|assumption|intros ? ? []]. Qed.

(* dict lookup in a dict built from a row: the value of the field *)
Lemma dict_get_combine names vals n i : NoDup names -> List.length names = List.length vals ->
  nth_error names i = Some n -> Some (dict_get n (combine (map PStr names) vals)) = nth_error vals i.
Proof.
  revert vals i. induction names as [|m names IH]; intros vals i Hnd Hlen Hn; [destruct i; discriminate|].
  destruct vals as [|v vals]; [discriminate|]. inversion Hnd as [|? ? Hm Hnd']; subst.
  destruct i as [|i]; simpl in *.
  - injection Hn as ->. now rewrite str_eqb_refl.
  - rewrite str_eqb_neq; [apply IH; auto|]. intro E. subst m. apply Hm. eapply nth_error_In; eauto.
Qed.

(* ================================================================ the verifier *)
Definition rejected (r : res unit) : Prop := r <> Ok tt.

Lemma verify_none t n : verify t n PNone = if n then Ok tt else Err EValue.
Proof. destruct t; reflexivity. Qed.

Lemma verify_null_rejected t : verify t false PNone = Err EValue.
Proof. apply verify_none. Qed.

Definition atom_like (t : dtype) : Prop :=
  match t with TAtom _ | TDecimal _ _ => True | _ => False end.

Lemma verify_atom_like t n v : atom_like t -> is_none v = false ->
  verify t n v =
    if smem (dtype_class t) nocheck_types then Ok tt
    else bind (acceptable (dtype_class t) v) (fun _ =>
           match slookup (dtype_class t) ranged_types with
           | Some (lo, hi) =>
               match int_value v with
               | Some z => if (z <? lo) || (hi <? z) then Err EValue else Ok tt
               | None => Err EUnmodelled
               end
           | None => Ok tt
           end).
Proof. intros Ht Hv. destruct t; try contradiction; cbn [verify]; rewrite Hv; reflexivity. Qed.

(* a value of the wrong Python type *)
Lemma verify_wrong_type t n v classes :
  atom_like t \/ (exists e b, t = TArray e b) \/ (exists k x b, t = TMap k x b) ->
  is_none v = false -> smem (dtype_class t) nocheck_types = false ->
  slookup (dtype_class t) acceptable_types = Some classes -> isinstance v classes = false ->
  verify t n v = Err EType.
Proof.
  intros Ht Hv Hnc Hcl Hi.
  assert (Ha : acceptable (dtype_class t) v = Err EType) by (unfold acceptable; now rewrite Hcl, Hi).
  destruct Ht as [Ht|[(e & b & ->)|(k & x & b & ->)]].
  - rewrite verify_atom_like by assumption. now rewrite Hnc, Ha.
  - cbn [verify]. rewrite Hv. cbv zeta. rewrite Hnc, Ha. reflexivity.
  - cbn [verify]. rewrite Hv. cbv zeta. rewrite Hnc, Ha. reflexivity.
Qed.

Lemma verify_struct_wrong_type fs n v :
  match v with PNone | PDict _ | PRow _ _ | PTuple _ | PList _ => False | _ => True end ->
  verify (TStruct fs) n v = Err EType.
Proof. intro H. destruct v; try contradiction; reflexivity. Qed.

(* an integer outside the range of a ranged type *)
Lemma verify_out_of_range a n z lo hi :
  slookup (atomic_class a) ranged_types = Some (lo, hi) -> (z < lo \/ hi < z) ->
  verify (TAtom a) n (PInt z) = Err EValue.
Proof.
  intros Hr Hz. rewrite verify_atom_like by (exact I || reflexivity). cbn [dtype_class]. rewrite Hr.
  assert (Hn : smem (atomic_class a) nocheck_types = false).
  { destruct a; try reflexivity; cbv in Hr; discriminate. }
  rewrite Hn.
  assert (Ha : acceptable (atomic_class a) (PInt z) = Ok tt).
  { destruct a; try (cbv in Hr; discriminate); reflexivity. }
  rewrite Ha. cbn [bind int_value].
  assert (E : (z <? lo) || (hi <? z) = true).
  { apply orb_true_iff. destruct Hz; [left|right]; now apply Z.ltb_lt. }
  now rewrite E.
Qed.

Lemma ranged_types_are_the_signed_widths :
  slookup "ByteType" ranged_types = Some (- 2 ^ 7, 2 ^ 7 - 1) /\
  slookup "ShortType" ranged_types = Some (- 2 ^ 15, 2 ^ 15 - 1) /\
  slookup "IntegerType" ranged_types = Some (- 2 ^ 31, 2 ^ 31 - 1) /\
  slookup "LongType" ranged_types = Some (- 2 ^ 63, 2 ^ 63 - 1).
Proof. repeat split. Qed.

(* ---------- propagation of a rejection from a position to the whole value *)
Lemma each_rejects {A} (f : A -> res unit) l x : In x l -> rejected (f x) -> rejected (each f l).
Proof.
  induction l as [|y l IH]; intros Hin Hx; [contradiction|]. simpl.
  destruct Hin as [->|Hin].
  - destruct (f x) as [[]|e]; simpl; [now elim Hx|discriminate].
  - destruct (f y) as [[]|e]; simpl; [now apply IH|discriminate].
Qed.

Lemma bind_rejects {A} (r : res A) (k : A -> res unit) : (forall a, rejected (k a)) -> rejected (bind r k).
Proof. intro H. destruct r; simpl; [apply H|discriminate]. Qed.

Lemma verify_array_propagates e cn n l x :
  In x l -> rejected (verify e cn x) -> rejected (verify (TArray e cn) n (PList l)).
Proof.
  intros Hin Hx. cbn [verify is_none]. cbn. try (apply bind_rejects; intros _). now apply (each_rejects _ l x).
Qed.

Lemma verify_map_key_propagates k x b n kv p :
  In p kv -> rejected (verify k false (fst p)) -> rejected (verify (TMap k x b) n (PDict kv)).
Proof.
  intros Hin Hx. cbn [verify is_none]. cbn. try (apply bind_rejects; intros _).
  apply (each_rejects _ kv p Hin). destruct (verify k false (fst p)) as [[]|e]; [now elim Hx|discriminate].
Qed.

Lemma verify_map_value_propagates k x b n kv p :
  In p kv -> rejected (verify x b (snd p)) -> rejected (verify (TMap k x b) n (PDict kv)).
Proof.
  intros Hin Hx. cbn [verify is_none]. cbn. try (apply bind_rejects; intros _).
  apply (each_rejects _ kv p Hin). destruct (verify k false (fst p)) as [[]|e]; [exact Hx|discriminate].
Qed.

(* struct given positionally (tuple) *)
Fixpoint verify_pos (fs : list (sfield dtype)) (vals : list pyval) : res unit :=
  match fs, vals with
  | SField n ty nl _ :: r, x :: vals' => bind (verify ty nl x) (fun _ => verify_pos r vals')
  | _, _ => Ok tt
  end.

Lemma verify_struct_tuple fs n vals :
  verify (TStruct fs) n (PTuple vals) =
    if negb (Nat.eqb (List.length vals) (List.length fs)) then Err EValue else verify_pos fs vals.
Proof. reflexivity. Qed.

(* struct given as a Row: fields looked up by name *)
Definition verify_named (names : list str) (vals : list pyval) : list (sfield dtype) -> res unit :=
  fix go (fs : list (sfield dtype)) : res unit :=
    match fs with
    | [] => Ok tt
    | SField n ty nl _ :: r => bind (row_get names vals n) (fun x => bind (verify ty nl x) (fun _ => go r))
    end.

Lemma verify_struct_row fs n names vals :
  verify (TStruct fs) n (PRow names vals) = verify_named names vals fs.
Proof. reflexivity. Qed.

Lemma verify_pos_rejects : forall fs vals i f x,
  nth_error fs i = Some f -> nth_error vals i = Some x ->
  rejected (verify (sf_ty f) (sf_nullable f) x) -> rejected (verify_pos fs vals).
Proof.
  induction fs as [|[m ty nl md] fs IH]; intros vals i f x Hf Hx Hr; [destruct i; discriminate|].
  destruct vals as [|y vals]; [destruct i; discriminate|].
  destruct i as [|i]; simpl in *.
  - injection Hf as <-. injection Hx as <-. simpl in Hr.
    destruct (verify ty nl y) as [[]|e]; [now elim Hr|discriminate].
  - destruct (verify ty nl y) as [[]|e]; simpl; [|discriminate]. eapply IH; eauto.
Qed.

Lemma verify_tuple_field_propagates fs n vals i f x :
  nth_error fs i = Some f -> nth_error vals i = Some x ->
  rejected (verify (sf_ty f) (sf_nullable f) x) -> rejected (verify (TStruct fs) n (PTuple vals)).
Proof.
  intros Hf Hx Hr. rewrite verify_struct_tuple.
  destruct (negb (Nat.eqb (List.length vals) (List.length fs))); [discriminate|].
  eapply verify_pos_rejects; eauto.
Qed.

Lemma index_of_nodup : forall names i n, NoDup names -> nth_error names i = Some n -> index_of n names = Some i.
Proof.
  induction names as [|m names IH]; intros i n Hnd Hn; [destruct i; discriminate|].
  inversion Hnd as [|? ? Hm Hnd']; subst. destruct i as [|i]; simpl in *.
  - injection Hn as ->. now rewrite str_eqb_refl.
  - rewrite str_eqb_neq; [now rewrite (IH i n Hnd' Hn)|]. intro E. subst m. apply Hm. eapply nth_error_In; eauto.
Qed.

Lemma row_get_nodup names vals i n x : NoDup names ->
  nth_error names i = Some n -> nth_error vals i = Some x -> row_get names vals n = Ok x.
Proof. intros Hnd Hn Hx. unfold row_get. now rewrite (index_of_nodup names i n Hnd Hn), Hx. Qed.

Lemma verify_named_rejects names vals : NoDup names -> forall fs j i f x,
  (forall k g, nth_error fs k = Some g -> nth_error names (j + k) = Some (sf_name g)) ->
  nth_error fs i = Some f -> nth_error vals (j + i) = Some x ->
  rejected (verify (sf_ty f) (sf_nullable f) x) -> rejected (verify_named names vals fs).
Proof.
  intros Hnd. induction fs as [|[m ty nl md] fs IH]; intros j i f x Hnames Hf Hx Hr; [destruct i; discriminate|].
  simpl. destruct i as [|i]; simpl in Hf.
  - injection Hf as <-. simpl in Hr. rewrite Nat.add_0_r in Hx.
    pose proof (Hnames 0%nat _ eq_refl) as H0. rewrite Nat.add_0_r in H0. simpl in H0.
    rewrite (row_get_nodup names vals j m x Hnd H0 Hx). simpl.
    destruct (verify ty nl x) as [[]|e]; [now elim Hr|discriminate].
  - destruct (row_get names vals m) as [y|e]; simpl; [|discriminate].
    destruct (verify ty nl y) as [[]|e]; simpl; [|discriminate].
    apply (IH (S j) i f x); auto.
    + intros k g Hk. replace (S j + k)%nat with (j + S k)%nat by lia. now apply Hnames.
    + now replace (S j + i)%nat with (j + S i)%nat by lia.
Qed.

Lemma verify_row_field_propagates fs n vals i f x :
  NoDup (map sf_name fs) -> nth_error fs i = Some f -> nth_error vals i = Some x ->
  rejected (verify (sf_ty f) (sf_nullable f) x) ->
  rejected (verify (TStruct fs) n (PRow (map sf_name fs) vals)).
Proof.
  intros Hnd Hf Hx Hr. rewrite verify_struct_row.
  apply (verify_named_rejects _ _ Hnd fs 0%nat i f x); auto.
  intros k g Hk. simpl. now rewrite nth_error_map, Hk.
Qed.

(* the positions at which a damaged value is rejected, and the whole-value consequence *)
Inductive damaged : dtype -> bool -> pyval -> Prop :=
| D_null t : damaged t false PNone
| D_type t n v classes :
    atom_like t \/ (exists e b, t = TArray e b) \/ (exists k x b, t = TMap k x b) ->
    is_none v = false -> smem (dtype_class t) nocheck_types = false ->
    slookup (dtype_class t) acceptable_types = Some classes -> isinstance v classes = false ->
    damaged t n v
| D_struct_type fs n v :
    match v with PNone | PDict _ | PRow _ _ | PTuple _ | PList _ => False | _ => True end ->
    damaged (TStruct fs) n v
| D_range a n z lo hi :
    slookup (atomic_class a) ranged_types = Some (lo, hi) -> (z < lo \/ hi < z) -> damaged (TAtom a) n (PInt z)
| D_element e cn n l x : In x l -> damaged e cn x -> damaged (TArray e cn) n (PList l)
| D_key k x b n kv p : In p kv -> damaged k false (fst p) -> damaged (TMap k x b) n (PDict kv)
| D_value k x b n kv p : In p kv -> damaged x b (snd p) -> damaged (TMap k x b) n (PDict kv)
| D_tuple_field fs n vals i f x :
    nth_error fs i = Some f -> nth_error vals i = Some x -> damaged (sf_ty f) (sf_nullable f) x ->
    damaged (TStruct fs) n (PTuple vals)
| D_row_field fs n vals i f x :
    NoDup (map sf_name fs) -> nth_error fs i = Some f -> nth_error vals i = Some x ->
    damaged (sf_ty f) (sf_nullable f) x ->
    damaged (TStruct fs) n (PRow (map sf_name fs) vals).

Theorem verify_rejects : forall t n v, damaged t n v -> rejected (verify t n v).
Proof.
  induction 1.
  - rewrite verify_null_rejected. discriminate.
  - erewrite verify_wrong_type by eassumption. discriminate.
  - rewrite verify_struct_wrong_type by assumption. discriminate.
  - erewrite verify_out_of_range by eassumption. discriminate.
  - eapply verify_array_propagates; eauto.
  - eapply verify_map_key_propagates; eauto.
  - eapply verify_map_value_propagates; eauto.
  - eapply verify_tuple_field_propagates; eauto.
  - eapply verify_row_field_propagates; eauto.
Qed.

Definition int_bits (a : atomic) : Z :=
  match a with AByte => 7 | AShort => 15 | AInteger => 31 | _ => 63 end.

(* every integral type rejects the integers outside its two's-complement range *)
Lemma out_of_range_all : forall a n z, In a [AByte; AShort; AInteger; ALong] ->
    (z < - 2 ^ int_bits a \/ 2 ^ int_bits a - 1 < z) -> verify (TAtom a) n (PInt z) = Err EValue.
Proof.
  intros a n z Ha Hz.
  destruct Ha as [<-|[<-|[<-|[<-|[]]]]];
    (erewrite verify_out_of_range; [reflexivity|reflexivity|exact Hz]).
Qed.

(* ... and accepts the integers inside it *)
Lemma in_range_all : forall a n z, In a [AByte; AShort; AInteger; ALong] ->
    - 2 ^ int_bits a <= z <= 2 ^ int_bits a - 1 -> verify (TAtom a) n (PInt z) = Ok tt.
Proof.
  intros a n z Ha Hz.
  assert (E : forall lo hi, lo <= z <= hi -> (z <? lo) || (hi <? z) = false).
  { intros lo hi H. apply orb_false_iff. split; apply Z.ltb_ge; lia. }
  destruct Ha as [<-|[<-|[<-|[<-|[]]]]]; rewrite verify_atom_like by (exact I || reflexivity);
    cbn; cbn in Hz; rewrite E by lia; reflexivity.
Qed.

(* ---------- the regenerated Python-type tables are the documented ones *)
Lemma acceptable_table :
  acceptable_types =
    [("BooleanType", ["bool"]); ("ByteType", ["int"]); ("ShortType", ["int"]); ("IntegerType", ["int"]);
     ("LongType", ["int"]); ("FloatType", ["float"]); ("DoubleType", ["float"]); ("DecimalType", ["Decimal"]);
     ("StringType", ["str"]); ("BinaryType", ["bytearray"]); ("DateType", ["date"; "datetime"]);
     ("TimestampType", ["datetime"]); ("ArrayType", ["list"; "tuple"; "array"]); ("MapType", ["dict"]);
     ("StructType", ["tuple"; "list"; "dict"])]%string.
Proof. reflexivity. Qed.

Lemma type_mappings_table :
  type_mappings =
    [("NoneType", "NullType"); ("bool", "BooleanType"); ("int", "LongType"); ("float", "DoubleType");
     ("str", "StringType"); ("bytearray", "BinaryType"); ("Decimal", "DecimalType"); ("date", "DateType");
     ("datetime", "TimestampType"); ("time", "TimestampType")]%string /\
  infer_decimal = (38, 18) /\ decimal_default = (10, 0).
Proof. repeat split. Qed.
