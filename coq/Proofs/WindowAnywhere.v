(* C11 -- state_spec wherever the stateful stream is registered.
   (1) In ANY well-formed program, a stateful stream i on a queue source p (p < i, anything before, between and after
       them) holds the fold of the history after every run in which no tick raised.
   (2) Quiet programs (windows and stateful streams directly on queue sources, count() chains, capturing consumers
       anywhere; any number of sources) never raise -- so for them (1) holds unconditionally.
   (3) The two mixed programs of the correspondence run are well-formed and quiet; in particular the history of the
       repaired defect 7e069b7 (updateStateByKey registered after countByWindow(w, s > 1)) for every w, s, u, k. *)
From Coq Require Import ZArith NArith Bool String List Lia.
Require Import PV.Base.Val PV.Gen.Window PV.Model.Window PV.Proofs.Window PV.Proofs.WindowSpec PV.Proofs.WindowState PV.Proofs.WindowTick.
Import ListNotations.
Open Scope Z_scope.
Open Scope list_scope.

Lemma direct_untouched g i t st j : j <> i ->
  nth_error (gnodes (fst (direct g i t st))) j = nth_error (gnodes st) j.
Proof.
  intros Hne. unfold direct.
  destruct (nth_error g i) as [nd|]; [|reflexivity].
  destruct (nth_error (gnodes st) i) as [ns|]; [|reflexivity].
  destruct nd as [q|f p|w s p|u p|p1 p2].
  - cbn [fst]. apply nth_put_neq. congruence.
  - destruct (trans_post f t (rdd_of st p) ns) as [[n2 lg] e2]. cbn [fst]. unfold add_log; cbn [gnodes].
    apply nth_put_neq. congruence.
  - destruct (window_post w s (rdd_of st p) (set_time t ns)) as [n2 e2]. cbn [fst]. apply nth_put_neq. congruence.
  - destruct (stateful_post u t (rdd_of st p) ns) as [n2 e2]. cbn [fst]. apply nth_put_neq. congruence.
  - destruct (union_post t (rdd_of st p1) (rdd_of st p2) ns) as [n2 e2]. cbn [fst]. apply nth_put_neq. congruence.
Qed.

Lemma direct_nodes_untouched g t : forall is st m, ~ In m is ->
  nth_error (gnodes (fst (direct_nodes g is t st))) m = nth_error (gnodes st) m.
Proof.
  induction is as [|i is IH]; intros st m Hm; [reflexivity|].
  cbn [direct_nodes]. pose proof (direct_untouched g i t st m) as H.
  destruct (direct g i t st) as [st1 e]. cbn [fst] in H.
  assert (m <> i) by (intros ->; apply Hm; now left).
  destruct e; cbn [fst]; [auto|]. rewrite IH; auto. intros Hin. apply Hm. now right.
Qed.

Lemma direct_nodes_app g t a : forall b st,
  direct_nodes g (a ++ b) t st =
  (let '(s1, e) := direct_nodes g a t st in
   match e with Some _ => (s1, e) | None => direct_nodes g b t s1 end).
Proof.
  induction a as [|i a IH]; intros b st; [reflexivity|].
  cbn [app direct_nodes]. destruct (direct g i t st) as [s1 e]. destruct e; [reflexivity|]. apply IH.
Qed.

(* splitting the registration order at one stream j *)
Lemma seq_split_at a k j : (a <= j < a + k)%nat ->
  seq a k = seq a (j - a) ++ [j] ++ seq (S j) (a + k - S j).
Proof.
  intros H. replace k with ((j - a) + S (a + k - S j))%nat at 1 by lia.
  rewrite seq_app. f_equal. replace (a + (j - a))%nat with j by lia. reflexivity.
Qed.

(* in a non-raising run of direct over seq a k, stream j (in range) is updated by its own direct, applied to the
   state sj reached after the streams before it, in which j still has its initial state *)
Lemma direct_nodes_at g t a k j st :
  (a <= j < a + k)%nat -> snd (direct_nodes g (seq a k) t st) = None ->
  exists sj, direct_nodes g (seq a (j - a)) t st = (sj, None) /\
             nth_error (gnodes sj) j = nth_error (gnodes st) j /\
             snd (direct g j t sj) = None /\
             nth_error (gnodes (fst (direct_nodes g (seq a k) t st))) j
             = nth_error (gnodes (fst (direct g j t sj))) j.
Proof.
  intros Hj Hnone. rewrite (seq_split_at a k j Hj) in *.
  rewrite direct_nodes_app in *.
  destruct (direct_nodes g (seq a (j - a)) t st) as [sj e] eqn:E1.
  destruct e; [cbn in Hnone; discriminate|].
  exists sj. split; [reflexivity|].
  assert (U1 : nth_error (gnodes sj) j = nth_error (gnodes st) j).
  { pose proof (direct_nodes_untouched g t (seq a (j - a)) st j) as H. rewrite E1 in H. apply H.
    rewrite in_seq. lia. }
  split; [exact U1|].
  cbn [app] in *. cbn [direct_nodes] in *.
  destruct (direct g j t sj) as [s2 e2] eqn:E2.
  destruct e2; [cbn in Hnone; discriminate|].
  split; [reflexivity|]. cbn [fst].
  apply direct_nodes_untouched. rewrite in_seq. lia.
Qed.

(* a stateful stream i on a queue source p, anywhere in a program, in a non-raising pass over all streams *)
Lemma direct_nodes_source_and_state g t st p i q u nsp nsi :
  (p < i < length g)%nat ->
  nth_error g p = Some (Src q) -> nth_error g i = Some (Stateful u p) ->
  nth_error (gnodes st) p = Some nsp -> nth_error (gnodes st) i = Some nsi ->
  snd (direct_nodes g (seq 0 (length g)) t st) = None ->
  let st' := fst (direct_nodes g (seq 0 (length g)) t st) in
  let nsp' := src_pop (sd q) (set_time t nsp) in
  nth_error (gnodes st') p = Some nsp' /\
  nth_error (gnodes st') i = Some (fst (stateful_post u t (nrdd nsp') nsi)) /\
  snd (stateful_post u t (nrdd nsp') nsi) = None.
Proof.
  intros Hpi Hgp Hgi Hsp Hsi Hnone. cbv zeta.
  (* stream i *)
  destruct (direct_nodes_at g t 0 (length g) i st ltac:(lia) Hnone) as (si & Ei & Ui & Ni & Fi).
  rewrite Nat.sub_0_r in Ei.
  (* stream p, in the whole pass and in the pass up to i *)
  destruct (direct_nodes_at g t 0 (length g) p st ltac:(lia) Hnone) as (sp & Ep & Up & Np & Fp).
  assert (Hnone_i : snd (direct_nodes g (seq 0 i) t st) = None) by (now rewrite Ei).
  destruct (direct_nodes_at g t 0 i p st ltac:(lia) Hnone_i) as (sp2 & Ep2 & Up2 & Np2 & Fp2).
  rewrite Ep in Ep2. inversion Ep2; subst sp2. clear Ep2 Up2 Np2.
  rewrite Ei in Fp2. cbn [fst] in Fp2.
  (* direct p on sp *)
  assert (Dp : nth_error (gnodes (fst (direct g p t sp))) p = Some (src_pop (sd q) (set_time t nsp))).
  { unfold direct. rewrite Hgp, Up, Hsp. cbn [fst]. eapply nth_put_eq. rewrite Up. exact Hsp. }
  rewrite Dp in Fp, Fp2.
  split; [exact Fp|].
  (* direct i on si *)
  rewrite Fi. unfold direct in Ni |- *. rewrite Hgi, Ui, Hsi in Ni. rewrite Hgi, Ui, Hsi.
  rewrite (rdd_of_nth _ _ _ Fp2) in Ni. rewrite (rdd_of_nth _ _ _ Fp2).
  destruct (stateful_post u t (nrdd (src_pop (sd q) (set_time t nsp))) nsi) as [n2 e2]. cbn [fst snd] in *.
  split; [|exact Ni]. eapply nth_put_eq. rewrite Ui. exact Hsi.
Qed.

Lemma init_times_le g : times_le 0 (init_state g).
Proof.
  intros j ns Hj. unfold init_state in Hj; cbn [gnodes] in Hj. rewrite nth_error_map in Hj.
  destruct (nth_error g j) as [nd|]; [|discriminate]. cbn in Hj. inversion Hj; subst.
  destruct nd; cbn; unfold dstream_time_init; lia.
Qed.

Lemma init_nth g j nd : nth_error g j = Some nd -> nth_error (gnodes (init_state g)) j = Some (init_node nd).
Proof. intros H. unfold init_state; cbn [gnodes]. now rewrite nth_error_map, H. Qed.

Lemma run_ticks_snd_cons g t ts st :
  snd (run_ticks g (t :: ts) st) = snd (tick g t st) :: snd (run_ticks g ts (fst (tick g t st))).
Proof.
  cbn [run_ticks]. destruct (tick g t st) as [st1 e]. cbn [fst snd].
  destruct (run_ticks g ts st1) as [st2 es]. reflexivity.
Qed.

(* ---------- a stateful stream i on a queue source p, ANYWHERE in a well-formed program ---------- *)
Section StatefulAnywhere.
Variables (g : list node) (p i : nat) (u : list val -> val -> val) (kq : ksource).
Hypothesis Hwf : well_formed g.
Hypothesis Hpi : (p < i < length g)%nat.
Hypothesis Hgp : nth_error g p = Some (Src (enc_queue kq)).
Hypothesis Hgi : nth_error g i = Some (Stateful u p).

Definition AInv (n : nat) (T : Z) (st : gstate) : Prop :=
  length (gnodes st) = length g /\ times_le T st /\
  nth_error (gnodes st) p = Some (src_state (enc_queue kq) n T) /\
  nth_error (gnodes st) i = Some (st_state u kq n T).

Lemma ainv_init : AInv 0 0 (init_state g).
Proof.
  split; [unfold init_state; cbn [gnodes]; apply map_length|]. split; [apply init_times_le|]. split.
  - rewrite (init_nth g p _ Hgp). reflexivity.
  - rewrite (init_nth g i _ Hgi). reflexivity.
Qed.

Lemma ainv_tick n T t st :
  AInv n T st -> T < t -> snd (tick g t st) = None -> AInv (S n) t (fst (tick g t st)).
Proof.
  intros (HL & Hle & Hp & Hi) Ht Hnone.
  assert (Hlt : forall j ns, nth_error (gnodes st) j = Some ns -> ntime ns < t).
  { intros j ns Hj. specialize (Hle j ns Hj). lia. }
  assert (H2 : (2 <= length g)%nat) by lia.
  pose proof (tick_refines g t st Hwf H2 HL Hlt) as ER.
  assert (HL' : length (gnodes (fst (tick g t st))) = length (gnodes st))
    by (apply (tick_nodes_length (length g) g t (seq 0 (length g)) st)).
  assert (Hle' : times_le t (fst (tick g t st)))
    by (apply (tick_nodes_times_le (length g) g t (seq 0 (length g)) st (times_le_weaken T t st ltac:(lia) Hle))).
  rewrite ER in HL', Hle', Hnone |- *.
  destruct (direct_nodes_source_and_state g t st p i _ u _ _ Hpi Hgp Hgi Hp Hi Hnone) as (P1 & P2 & _).
  rewrite src_pop_state in P1, P2.
  replace (nrdd (src_state (enc_queue kq) (S n) t)) with (src_rdd (enc_queue kq) n) in P2 by reflexivity.
  rewrite stateful_post_state in P2. cbn [fst] in P2.
  split; [lia|]. split; [exact Hle'|]. split; assumption.
Qed.

Lemma ainv_run : forall ts n T st,
  AInv n T st -> increasing T ts -> snd (run_ticks g ts st) = map (fun _ => None) ts ->
  AInv (n + length ts) (last ts T) (fst (run_ticks g ts st)).
Proof.
  induction ts as [|t ts IH]; intros n T st HI Hinc Hnone.
  - cbn. now rewrite Nat.add_0_r.
  - destruct Hinc as [Ht Hinc]. rewrite run_ticks_snd_cons in Hnone. cbn [map] in Hnone.
    inversion Hnone as [[H1 H2]].
    rewrite run_ticks_cons, last_cons. cbn [length]. rewrite <- Nat.add_succ_comm.
    apply IH; [apply (ainv_tick n T); auto|exact Hinc|rewrite H1 in H2; exact H2].
Qed.

(* state_spec wherever the stateful stream and its source are registered, provided no tick raised *)
Lemma state_anywhere_if_no_raise ts :
  increasing 0 ts -> snd (run_graph g ts) = map (fun _ => None) ts ->
  rdd_of (final g ts) i = state_rdd u kq (length ts).
Proof.
  intros Hinc Hnone. unfold final, run_graph in *.
  destruct (ainv_run ts 0%nat 0 _ ainv_init Hinc Hnone) as (_ & _ & _ & Hi).
  unfold rdd_of. cbn [Nat.add] in Hi. now rewrite Hi.
Qed.
End StatefulAnywhere.

(* ---------- programs that cannot raise ----------
   live p: stream p holds an RDD (not None) as soon as it has been stepped once: queue sources, stateful streams,
   unions, and map-like transformed streams (mapPartitions-count, setName, map, filter, flatMap) on a live stream.
   quiet: windows and unions sit on live streams, stateful streams directly on queue sources of keyed batches, the
   reduce stream of count() on its setName / mapPartitions streams; capturing consumers and the map-like streams may
   sit anywhere; no mapValues stream (it raises on elements that are not pairs).  All the programs of the property,
   windows over derived streams, and any combination of them on any number of sources are quiet. *)
Definition keyed_batch (b : list val) : Prop := all_kv b <> None.
(* every batch the source can hand out (its entries and its default) holds (key, value) pairs *)
Definition keyed_source (q : source) : Prop := forall b, In (Some b) (sd q :: sq q) -> keyed_batch b.

Definition maplike (f : tfun) : bool :=
  match f with FCountParts | FSetName | FMapInc | FFilterEven | FFlatDup => true | _ => false end.

Inductive live (g : list node) : nat -> Prop :=
| live_src p q : nth_error g p = Some (Src q) -> live g p
| live_state p u p' : nth_error g p = Some (Stateful u p') -> live g p
| live_union p p1 p2 : nth_error g p = Some (Union p1 p2) -> live g p
| live_trans p f p' : nth_error g p = Some (Trans f p') -> maplike f = true -> live g p' -> live g p.

Definition quiet_node (g : list node) (nd : node) : Prop :=
  match nd with
  | Src _ => True
  | Trans FReduceAdd p =>
      exists p2 p3, nth_error g p = Some (Trans FSetName p2) /\ nth_error g p2 = Some (Trans FCountParts p3)
  | Trans FMapValuesInc _ => False
  | Trans _ _ => True
  | Window _ _ p => live g p
  | Stateful _ p => exists q, nth_error g p = Some (Src q) /\ keyed_source q
  | Union p1 p2 => live g p1 /\ live g p2
  end.
Definition quiet (g : list node) : Prop := forall j nd, nth_error g j = Some nd -> quiet_node g nd.

Definition cnt_shape (r : rdd) : Prop := r = RNone \/ r = REmpty \/ exists z, r = RData [VInt z].

Definition kind_ok (g : list node) (nd : node) (ns : nstate) : Prop :=
  match nd with
  | Src q => (forall b, nrdd ns = RData b -> In (Some b) (sd q :: sq q)) /\ (forall e, In e (nqueue ns) -> In e (sq q))
  | Window _ _ _ => existsb is_none_rdd (nbuf ns) = false
  | Trans FCountParts _ => cnt_shape (nrdd ns)
  | Trans FSetName p2 => (exists p3, nth_error g p2 = Some (Trans FCountParts p3)) -> cnt_shape (nrdd ns)
  | _ => True
  end.
(* a live stream that has been stepped (guard time > 0) holds an RDD *)
Definition node_ok (g : list node) (j : nat) (nd : node) (ns : nstate) : Prop :=
  kind_ok g nd ns /\ (live g j -> nrdd ns = RNone -> ntime ns <= 0).
Definition all_ok (g : list node) (st : gstate) : Prop :=
  forall j nd ns, nth_error g j = Some nd -> nth_error (gnodes st) j = Some ns -> node_ok g j nd ns.

Lemma all_ok_init g : all_ok g (init_state g).
Proof.
  intros j nd ns Hg Hs. rewrite (init_nth g j nd Hg) in Hs. inversion Hs; subst. clear Hs.
  split.
  - destruct nd as [q|f p|w s p|u p|p1 p2]; cbn; auto.
    + split; [discriminate|auto].
    + destruct f; cbn; auto; unfold cnt_shape; auto.
  - intros _ _. destruct nd; cbn; unfold dstream_time_init; lia.
Qed.

Lemma existsb_app' {A} (f : A -> bool) l1 l2 : existsb f (l1 ++ l2) = existsb f l1 || existsb f l2.
Proof. induction l1; cbn; auto. rewrite IHl1. now rewrite orb_assoc. Qed.

Section Quiet.
Variables (g : list node) (t : Z).
Hypothesis Hwf : well_formed g.
Hypothesis Hq : quiet g.
Hypothesis Ht : 0 < t.

(* one stream, at its turn *)
Lemma direct_quiet a st nd ns :
  Mid g t a st -> all_ok g st ->
  nth_error g a = Some nd -> nth_error (gnodes st) a = Some ns ->
  snd (direct g a t st) = None /\ all_ok g (fst (direct g a t st)).
Proof.
  intros [HL HM] Hok Hg Hs.
  pose proof (Hwf a nd Hg) as Hb. pose proof (Hq a nd Hg) as Hqn. destruct (Hok a nd ns Hg Hs) as [Hme Hmel].
  (* it suffices to show: no exception, and the new state of stream a is ok *)
  assert (Hsuff : forall n2 lg e2 (X : gstate * option string),
            X = (add_log lg (put a n2 st), e2) -> e2 = None -> node_ok g a nd n2 ->
            snd X = None /\ all_ok g (fst X)).
  { intros n2 lg e2 X E He Hn2. rewrite E. cbn [fst snd]. split; [exact He|].
    intros j ndj nsj Hgj Hsj. unfold add_log in Hsj; cbn [gnodes] in Hsj.
    destruct (Nat.eq_dec a j) as [<-|Hne].
    - rewrite (nth_put_eq _ _ _ _ Hs) in Hsj. rewrite Hg in Hgj.
      assert (nsj = n2) by congruence. assert (ndj = nd) by congruence. subst. exact Hn2.
    - rewrite nth_put_neq in Hsj by assumption. eapply Hok; eauto. }
  assert (Hadd : forall s0, add_log [] s0 = s0).
  { intros [nodes lg]. unfold add_log. cbn. now rewrite app_nil_r. }
  (* a parent registered before a has been stepped in this tick; if it is live it holds an RDD *)
  assert (Hpar : forall p, (p < a)%nat -> exists ndp nsp, nth_error g p = Some ndp /\ nth_error (gnodes st) p = Some nsp
                                     /\ t <= ntime nsp /\ kind_ok g ndp nsp /\ (live g p -> is_none_rdd (nrdd nsp) = false)).
  { intros p Hp.
    assert (Ha : (a < length g)%nat) by (apply nth_error_Some; congruence).
    destruct (nth_error g p) as [ndp|] eqn:E1; [|apply nth_error_None in E1; lia].
    destruct (nth_error (gnodes st) p) as [nsp|] eqn:E2; [|apply nth_error_None in E2; lia].
    pose proof (proj1 (HM p nsp E2) Hp) as Tp. destruct (Hok p ndp nsp E1 E2) as [K L].
    exists ndp, nsp. repeat (split; [reflexivity || assumption|]).
    intros Hl. destruct (nrdd nsp) eqn:Er; auto. specialize (L Hl eq_refl). lia. }
  (* a stream that is not live by construction *)
  assert (Hnl : forall (P : Prop), live g a ->
            (forall q, nd <> Src q) -> (forall u p, nd <> Stateful u p) -> (forall p1 p2, nd <> Union p1 p2) ->
            (forall f p, nd = Trans f p -> maplike f = true -> live g p -> P) -> P).
  { intros P Hl N1 N2 N3 N4. inversion Hl as [? q G|? u p' G|? p1 p2 G|? f p' G M L]; subst; rewrite Hg in G; inversion G; subst.
    - exfalso. eapply N1; reflexivity.
    - exfalso. eapply N2; reflexivity.
    - exfalso. eapply N3; reflexivity.
    - eapply N4; eauto. }
  unfold direct. rewrite Hg, Hs.
  destruct nd as [q|f p|w s p|u p|p1 p2].
  - (* source *)
    apply (Hsuff (src_pop (sd q) (set_time t ns)) [] None); [now rewrite Hadd|reflexivity|].
    destruct Hme as (M2 & M3). unfold src_pop. cbn [nqueue set_time].
    assert (Hnn : forall e, entry_rdd e = RNone -> t <= 0) by (intros [b0|] H; discriminate H).
    destruct (nqueue ns) as [|e r] eqn:Eq.
    + split; [split|intros _; apply Hnn].
      * cbn [nrdd set_rdd]. intros b0 Hb0. left. destruct (sd q); [cbn in Hb0; congruence|discriminate Hb0].
      * cbn [nqueue set_rdd set_time]. rewrite Eq. intros e0 He0. destruct He0.
    + split; [split|intros _; apply Hnn].
      * cbn [nrdd set_rdd set_queue]. intros b0 Hb0. right. apply M3. left.
        destruct e; [cbn in Hb0; congruence|discriminate Hb0].
      * cbn [nqueue set_queue]. intros e0 He0. apply M3. now right.
  - (* transformed *)
    destruct (trans_post f t (rdd_of st p) ns) as [[n2 lg] e2] eqn:E.
    unfold trans_post in E.
    destruct (Hpar p Hb) as (ndp & nsp & Gp & Sp & Tp & Okp & Lp). rewrite (rdd_of_nth _ _ _ Sp) in E.
    (* the live part of the new state: a live transformed stream is map-like on a live parent *)
    assert (Hlive : forall r, (maplike f = true -> is_none_rdd (nrdd nsp) = false -> r <> RNone) ->
                      live g a -> r = RNone -> t <= 0).
    { intros r Hr Hl Hn. exfalso.
      apply (Hnl False Hl); try discriminate.
      intros f0 p0 Ef M L. injection Ef as <- <-. apply (Hr M (Lp L) Hn). }
    destruct (nrdd nsp) as [| |xs] eqn:Er; cbn [is_none_rdd] in E.
    + (* the parent has no RDD yet *)
      inversion E; subst. apply (Hsuff (set_time t ns) [] None); [reflexivity|reflexivity|].
      split.
      * destruct f; cbn [kind_ok nrdd set_time] in *; auto.
      * cbn [nrdd ntime set_time]. intros Hl _. exfalso. apply (Hnl False Hl); try discriminate.
        intros f0 p0 Ef M L. injection Ef as <- <-. specialize (Lp L). discriminate Lp.
    + destruct f; cbn [apply_tfun collect] in E; try (destruct Hqn; fail); inversion E; subst;
        (eapply Hsuff; [reflexivity|reflexivity|]); (split; [cbn [kind_ok nrdd set_rdd set_time]|
           cbn [nrdd ntime set_rdd set_time]; apply Hlive; intros M _; try discriminate M; discriminate]); auto.
      * right; left; reflexivity.
      * intros _. right; left; reflexivity.
    + destruct f; cbn [apply_tfun collect] in E; try (destruct Hqn; fail).
      * inversion E; subst. eapply Hsuff; [reflexivity|reflexivity|].
        split; [exact I|cbn [nrdd ntime set_rdd set_time]; apply Hlive; intros M _; discriminate M].
      * inversion E; subst. eapply Hsuff; [reflexivity|reflexivity|].
        split; [right; right; eexists; reflexivity|cbn [nrdd ntime set_rdd set_time]; apply Hlive; intros _ _; discriminate].
      * inversion E; subst. eapply Hsuff; [reflexivity|reflexivity|].
        split; [|cbn [nrdd ntime set_rdd set_time]; apply Hlive; intros _ _; discriminate].
        cbn [kind_ok]. intros (p3 & Hp3). rewrite Gp in Hp3. inversion Hp3; subst. cbn [kind_ok] in Okp.
        rewrite Er in Okp. cbn. exact Okp.
      * (* reduce: its parent is setName over mapPartitions-count, so xs = [VInt z] *)
        destruct Hqn as (p2 & p3 & Q1 & Q2). rewrite Gp in Q1. inversion Q1; subst.
        cbn [kind_ok] in Okp. specialize (Okp (ex_intro _ p3 Q2)). rewrite Er in Okp.
        destruct Okp as [C|[C|[z C]]]; try discriminate. inversion C; subst. cbn [all_Z] in E.
        inversion E; subst. eapply Hsuff; [reflexivity|reflexivity|].
        split; [exact I|cbn [nrdd ntime set_rdd set_time]; apply Hlive; intros M _; discriminate M].
      * inversion E; subst. eapply Hsuff; [reflexivity|reflexivity|].
        split; [exact I|cbn [nrdd ntime set_rdd set_time]; apply Hlive; intros _ _; discriminate].
      * inversion E; subst. eapply Hsuff; [reflexivity|reflexivity|].
        split; [exact I|cbn [nrdd ntime set_rdd set_time]; apply Hlive; intros _ _; discriminate].
      * inversion E; subst. eapply Hsuff; [reflexivity|reflexivity|].
        split; [exact I|cbn [nrdd ntime set_rdd set_time]; apply Hlive; intros _ _; discriminate].
  - (* window on a live stream *)
    destruct (Hpar p Hb) as (ndp & nsp & Gp & Sp & Tp & Okp & Lp).
    rewrite (rdd_of_nth _ _ _ Sp).
    pose proof (Lp Hqn) as Hnn.
    cbn [kind_ok] in Hme.
    unfold window_post. cbn [nbuf set_time nctr].
    set (buf := trim w (nbuf ns ++ [nrdd nsp])).
    assert (Hbuf : existsb is_none_rdd buf = false).
    { unfold buf. rewrite trim_spec. unfold lastn. apply existsb_skipn.
      rewrite existsb_app', Hme. cbn. now rewrite Hnn. }
    assert (Hwl : forall r : rdd, live g a -> r = RNone -> t <= 0).
    { intros r Hl _. exfalso. apply (Hnl False Hl); discriminate. }
    destruct (win_skip (win_counter_next (nctr ns) s)).
    + eapply (Hsuff _ [] None); [rewrite Hadd; reflexivity|reflexivity|]. split; [cbn; exact Hbuf|cbn; apply Hwl].
    + rewrite (union_no_none buf Hbuf). eapply (Hsuff _ [] None); [rewrite Hadd; reflexivity|reflexivity|].
      split; [cbn; exact Hbuf|cbn; apply Hwl].
  - (* stateful on a source of keyed batches *)
    destruct Hqn as (q & Gq & Hkeyed).
    destruct (Hpar p Hb) as (ndp & nsp & Gp & Sp & Tp & Okp & Lp). rewrite Gq in Gp. inversion Gp; subst ndp.
    rewrite (rdd_of_nth _ _ _ Sp). destruct Okp as (M2 & _).
    pose proof (Lp (live_src g p q Gq)) as Hnn.
    unfold stateful_post.
    destruct (nrdd nsp) as [| |b] eqn:Er.
    + discriminate Hnn.
    + cbn [collect all_kv]. eapply (Hsuff _ [] None); [rewrite Hadd; reflexivity|reflexivity|].
      split; [exact I|cbn; intros _ H; discriminate H].
    + cbn [collect]. specialize (M2 b eq_refl).
      pose proof (Hkeyed b M2) as Hk. unfold keyed_batch in Hk.
      destruct (all_kv b) as [kb|]; [|congruence].
      eapply (Hsuff _ [] None); [rewrite Hadd; reflexivity|reflexivity|].
      split; [exact I|cbn; intros _ H; discriminate H].
  - (* union of two live streams *)
    destruct Hqn as [Hl1 Hl2]. destruct Hb as [Hb1 Hb2].
    destruct (Hpar p1 Hb1) as (nd1 & ns1 & G1 & S1 & T1 & _ & L1).
    destruct (Hpar p2 Hb2) as (nd2 & ns2 & G2 & S2 & T2 & _ & L2).
    rewrite (rdd_of_nth _ _ _ S1), (rdd_of_nth _ _ _ S2).
    unfold union_post.
    assert (Hnn : existsb is_none_rdd [nrdd ns1; nrdd ns2] = false).
    { cbn [existsb]. now rewrite (L1 Hl1), (L2 Hl2). }
    rewrite (union_no_none _ Hnn).
    eapply (Hsuff _ [] None); [rewrite Hadd; reflexivity|reflexivity|].
    split; [exact I|]. cbn [nrdd ntime set_rdd set_time]. intros _ H. exfalso. exact (union_data_not_none _ H).
Qed.

Lemma direct_nodes_quiet : forall k a st,
  (a + k = length g)%nat -> Mid g t a st -> all_ok g st ->
  snd (direct_nodes g (seq a k) t st) = None /\ all_ok g (fst (direct_nodes g (seq a k) t st)).
Proof.
  induction k as [|k IH]; intros a st Hlen HMid Hok; [split; [reflexivity|exact Hok]|].
  cbn [seq direct_nodes].
  assert (Ha : (a < length g)%nat) by lia.
  destruct HMid as [HL HM].
  destruct (nth_error g a) as [nd|] eqn:Hg; [|apply nth_error_None in Hg; lia].
  destruct (nth_error (gnodes st) a) as [ns|] eqn:Hs; [|apply nth_error_None in Hs; lia].
  destruct (direct_quiet a st nd ns (conj HL HM) Hok Hg Hs) as [Hn Hok'].
  destruct (direct_effect g a t st nd ns Hg Hs) as (E1 & E2 & ns' & E3 & E4).
  destruct (direct g a t st) as [st1 e]. cbn [fst snd] in *. subst e.
  apply IH; [lia| |exact Hok'].
  split; [lia|].
  intros j nsj Hj. destruct (Nat.eq_dec j a) as [->|Hne].
  - rewrite E3 in Hj. inversion Hj; subst. split; intros; lia.
  - rewrite E2 in Hj by assumption. destruct (HM j nsj Hj) as [M1 M2]. split; intros.
    + apply M1. lia.
    + apply M2. lia.
Qed.
End Quiet.

Section QuietRuns.
Variable g : list node.
Hypothesis Hwf : well_formed g.
Hypothesis Hq : quiet g.
Hypothesis Hlen : (2 <= length g)%nat.

Definition QInv (T : Z) (st : gstate) : Prop :=
  length (gnodes st) = length g /\ times_le T st /\ all_ok g st.

Lemma qinv_tick T t st : QInv T st -> 0 <= T -> T < t -> snd (tick g t st) = None /\ QInv t (fst (tick g t st)).
Proof.
  intros (HL & Hle & Hok) HT Ht.
  assert (Hlt : forall j ns, nth_error (gnodes st) j = Some ns -> ntime ns < t).
  { intros j ns Hj. specialize (Hle j ns Hj). lia. }
  pose proof (tick_refines g t st Hwf Hlen HL Hlt) as ER.
  assert (HL' : length (gnodes (fst (tick g t st))) = length (gnodes st))
    by (apply (tick_nodes_length (length g) g t (seq 0 (length g)) st)).
  assert (Hle' : times_le t (fst (tick g t st)))
    by (apply (tick_nodes_times_le (length g) g t (seq 0 (length g)) st (times_le_weaken T t st ltac:(lia) Hle))).
  assert (HM : Mid g t 0 st).
  { split; [exact HL|]. intros j ns Hj. split; [lia|]. intros _. eauto. }
  destruct (direct_nodes_quiet g t Hwf Hq ltac:(lia) (length g) 0 st eq_refl HM Hok) as [Hn Hok'].
  rewrite ER in *. split; [exact Hn|]. split; [lia|]. split; assumption.
Qed.

Lemma qinv_run : forall ts T st, QInv T st -> 0 <= T -> increasing T ts ->
  snd (run_ticks g ts st) = map (fun _ => None) ts.
Proof.
  induction ts as [|t ts IH]; intros T st HI HT Hinc; [reflexivity|].
  destruct Hinc as [Ht Hinc]. rewrite run_ticks_snd_cons. cbn [map].
  destruct (qinv_tick T t st HI HT Ht) as [Hn HI']. rewrite Hn. f_equal.
  apply (IH t); auto. lia.
Qed.

(* no tick of a quiet, well-formed program raises *)
Lemma quiet_never_raises ts : increasing 0 ts -> snd (run_graph g ts) = map (fun _ => None) ts.
Proof.
  intros Hinc. unfold run_graph. apply (qinv_run ts 0); [|lia|exact Hinc].
  split; [unfold init_state; cbn [gnodes]; apply map_length|]. split; [apply init_times_le|apply all_ok_init].
Qed.

(* state_spec in full: wherever the stateful stream and its source are registered, among any other streams *)
Lemma state_anywhere p i u kq ts :
  (p < i < length g)%nat ->
  nth_error g p = Some (Src (enc_queue kq)) -> nth_error g i = Some (Stateful u p) ->
  increasing 0 ts ->
  rdd_of (final g ts) i = state_rdd u kq (length ts).
Proof.
  intros Hpi Hgp Hgi Hinc.
  apply (state_anywhere_if_no_raise g p i u kq Hwf Hpi Hgp Hgi ts Hinc), quiet_never_raises, Hinc.
Qed.
End QuietRuns.

Lemma keyed_enc_queue kq : keyed_source (enc_queue kq).
Proof.
  intros b Hb. unfold keyed_batch.
  assert (H : exists kb, b = map enc_kv kb).
  { cbn [sd sq enc_queue] in Hb. destruct Hb as [Hb|Hb].
    - destruct (kdefault kq); cbn in Hb; [inversion Hb; eauto|discriminate].
    - apply in_map_iff in Hb as ([kb|] & E & _); cbn in E; [inversion E; eauto|discriminate]. }
  destruct H as (kb & ->). rewrite all_kv_enc. discriminate.
Qed.

(* ---------- the two mixed programs are well-formed and quiet ---------- *)
Lemma consumers_from_In p j0 k nd : In nd (consumers_from p j0 k) -> exists j, nd = Trans (FCapture j) p.
Proof. unfold consumers_from. intros H. apply in_map_iff in H as (j & <- & _). eauto. Qed.

Lemma nth_consumers_parent p j0 k j nd : nth_error (consumers_from p j0 k) j = Some nd -> exists c, nd = Trans (FCapture c) p.
Proof. intros H. apply nth_error_In in H. now apply consumers_from_In in H. Qed.

Lemma prog_count_state_wf kq w s u k : well_formed (prog_count_state (enc_queue kq) w s u k).
Proof.
  intros j nd H. unfold prog_count_state in H.
  do 5 (destruct j as [|j]; [inversion H; subst; cbn; lia|]). cbn [nth_error] in H.
  destruct (Nat.lt_ge_cases j k) as [Hj|Hj].
  - rewrite nth_error_app1 in H by (unfold consumers; now rewrite consumers_from_length).
    apply nth_consumers_parent in H as (c & ->). cbn. lia.
  - rewrite nth_error_app2 in H by (unfold consumers; now rewrite consumers_from_length).
    unfold consumers in H. rewrite consumers_from_length in H.
    destruct (j - k)%nat as [|m] eqn:E; cbn [nth_error] in H.
    + inversion H; subst. cbn. lia.
    + apply nth_consumers_parent in H as (c & ->). cbn. lia.
Qed.

Lemma prog_count_state_quiet kq w s u k : quiet (prog_count_state (enc_queue kq) w s u k).
Proof.
  intros j nd H. pose proof H as H0. unfold prog_count_state in H.
  do 5 (destruct j as [|j]; [inversion H; subst; cbn; try (do 2 eexists; split; reflexivity); try (eapply live_src; reflexivity); auto|]). cbn [nth_error] in H.
  apply nth_error_In in H. apply in_app_or in H as [H|[H|H]].
  - apply consumers_from_In in H as (c & ->). exact I.
  - subst nd. cbn. exists (enc_queue kq). split; [reflexivity|apply keyed_enc_queue].
  - apply consumers_from_In in H as (c & ->). exact I.
Qed.

Lemma prog_both_wf kq w s u k : well_formed (prog_both (enc_queue kq) w s u k).
Proof.
  intros j nd H. unfold prog_both in H.
  do 2 (destruct j as [|j]; [inversion H; subst; cbn; lia|]). cbn [nth_error] in H.
  destruct (Nat.lt_ge_cases j k) as [Hj|Hj].
  - rewrite nth_error_app1 in H by (unfold consumers; now rewrite consumers_from_length).
    apply nth_consumers_parent in H as (c & ->). cbn. lia.
  - rewrite nth_error_app2 in H by (unfold consumers; now rewrite consumers_from_length).
    unfold consumers in H. rewrite consumers_from_length in H.
    destruct (j - k)%nat as [|m] eqn:E; cbn [nth_error] in H.
    + inversion H; subst. cbn. lia.
    + apply nth_consumers_parent in H as (c & ->). cbn. lia.
Qed.

Lemma prog_both_quiet kq w s u k : quiet (prog_both (enc_queue kq) w s u k).
Proof.
  intros j nd H. unfold prog_both in H.
  do 2 (destruct j as [|j]; [inversion H; subst; cbn; try (do 2 eexists; split; reflexivity); try (eapply live_src; reflexivity); auto|]). cbn [nth_error] in H.
  apply nth_error_In in H. apply in_app_or in H as [H|[H|H]].
  - apply consumers_from_In in H as (c & ->). exact I.
  - subst nd. cbn. exists (enc_queue kq). split; [reflexivity|apply keyed_enc_queue].
  - apply consumers_from_In in H as (c & ->). exact I.
Qed.

Lemma nth_stateful_after_consumers (pre : list node) k p u rest :
  length pre = k -> nth_error (pre ++ Stateful u p :: rest) k = Some (Stateful u p).
Proof. intros H. rewrite nth_error_app2 by lia. now rewrite H, Nat.sub_diag. Qed.

(* updateStateByKey registered after countByWindow(w, s) and its consumers, on the same source: the history of the
   repaired defect 7e069b7, for every w, s, u, k and history *)
Lemma state_after_count kq w s u k ts : increasing 0 ts ->
  rdd_of (final (prog_count_state (enc_queue kq) w s u k) ts) (5 + k) = state_rdd u kq (length ts) /\
  snd (run_graph (prog_count_state (enc_queue kq) w s u k) ts) = map (fun _ => None) ts.
Proof.
  intros Hinc.
  assert (Hl : length (prog_count_state (enc_queue kq) w s u k) = (5 + k + 1 + k)%nat).
  { unfold prog_count_state, consumers. cbn [length]. rewrite app_length. cbn [length].
    rewrite !consumers_from_length. lia. }
  split.
  - apply (state_anywhere _ (prog_count_state_wf kq w s u k) (prog_count_state_quiet kq w s u k) ltac:(lia) 0%nat);
      [lia|reflexivity| |exact Hinc].
    unfold prog_count_state. cbn [Nat.add nth_error].
    apply nth_stateful_after_consumers. unfold consumers. apply consumers_from_length.
  - apply (quiet_never_raises _ (prog_count_state_wf kq w s u k) (prog_count_state_quiet kq w s u k)); [lia|exact Hinc].
Qed.

Lemma state_beside_window kq w s u k ts : increasing 0 ts ->
  rdd_of (final (prog_both (enc_queue kq) w s u k) ts) (2 + k) = state_rdd u kq (length ts) /\
  snd (run_graph (prog_both (enc_queue kq) w s u k) ts) = map (fun _ => None) ts.
Proof.
  intros Hinc.
  assert (Hl : length (prog_both (enc_queue kq) w s u k) = (2 + k + 1 + k)%nat).
  { unfold prog_both, consumers. cbn [length]. rewrite app_length. cbn [length].
    rewrite !consumers_from_length. lia. }
  split.
  - apply (state_anywhere _ (prog_both_wf kq w s u k) (prog_both_quiet kq w s u k) ltac:(lia) 0%nat);
      [lia|reflexivity| |exact Hinc].
    unfold prog_both. cbn [Nat.add nth_error].
    apply nth_stateful_after_consumers. unfold consumers. apply consumers_from_length.
  - apply (quiet_never_raises _ (prog_both_wf kq w s u k) (prog_both_quiet kq w s u k)); [lia|exact Hinc].
Qed.

(* the per-key reading of the state RDD used above *)
Lemma state_after_seen u kq n k pre b post :
  kbatches kq n = pre ++ b :: post -> (forall b', In b' pre -> vals k b' = []) -> vals k b <> [] ->
  vals k (state_after u kq n) = [fold_key u k (b :: post) VNone].
Proof. intros Hdec Hpre Hb. rewrite vals_state_after, Hdec, key_state_first by assumption. reflexivity. Qed.

Lemma state_rdd_S u kq n : state_rdd u kq (S n) = RData (map enc_kv (state_after u kq (S n))).
Proof. reflexivity. Qed.
