(* C08 -- compressed part files, wholeTextFiles, binaryRecords on files *)
From Coq Require Import String ZArith NArith List Bool Lia.
Require Import PV.Base.PyArith PV.Base.PyStrOps PV.Gen.Codecs PV.Gen.Parallelize PV.Model.Files.
Require Import PV.Proofs.FilesStr PV.Proofs.FilesText PV.Proofs.Files PV.Proofs.FilesCodec PV.Proofs.FilesChunks.
Import ListNotations.
Ltac Zify.zify_post_hook ::= Z.to_euclidean_division_equations.
Open Scope Z_scope.


Lemma Forall2_impl_in : forall {A B} (R R' : A -> B -> Prop) l1 l2,
  Forall2 R l1 l2 -> (forall x y, In x l1 -> R x y -> R' x y) -> Forall2 R' l1 l2.
Proof.
  intros A B R R' l1 l2 H. induction H as [|x y l1 l2 Hxy H IH]; intros Himp; [constructor|].
  constructor; [apply Himp; [left; reflexivity|assumption]|]. apply IH. intros; apply Himp; [right|]; assumption.
Qed.
Lemma concat_map_single : forall {A B} (h : A -> B) l, concat (map (fun x => [h x]) l) = map h l.
Proof. induction l as [|x l IH]; [reflexivity|]. cbn. rewrite IH. reflexivity. Qed.

Lemma fs_lookup_isfile : forall f p b, fs_lookup f p = Some b -> fs_isfile f p = true.
Proof.
  intros f p b H. unfold fs_lookup in H. unfold fs_isfile.
  destruct (find (fun e : str * bytes => str_eqb (fst e) p) f) as [e|] eqn:F; [|discriminate]. apply find_some in F. destruct F as [Hin Heq].
  apply existsb_exists. exists e. auto.
Qed.
Lemma resolve_file : forall f p b, fs_lookup f p = Some b -> sort_str (resolve f p) = [p].
Proof. intros f p b H. unfold resolve. rewrite (fs_lookup_isfile f p b H). reflexivity. Qed.

Section MoreReaders.
Variable compress : codec -> bytes -> bytes.
Variable decompress : codec -> bytes -> option bytes.
Hypothesis codec_roundtrip : forall c b, decompress c (compress c b) = Some b.

(* ---------- part files under a codec extension are compressed *)
Theorem part_codec_saved : forall f p (parts : list (list str)),
  has_codec_ext p = true ->
  fs_exists f p = false -> ends_with p [slash] = false -> contains_char slash p = true ->
  Z.of_nat (length parts) <= 100000 ->
  exists f', save_text compress f p parts = Ok f' /\
    sort_str (resolve f' p) = data_names text_codec_suffix p parts /\
    Forall2 (fun n xs => has_codec_ext n = true /\ compressing (get_codec n) = true /\
                         fs_lookup f' n = Some (compress (get_codec n) (text_payload xs)))
            (data_names text_codec_suffix p parts) (chunks parts).
Proof.
  intros f p parts Hext Hf He Hs Hn.
  destruct (save_layout compress text_payload text_codec_suffix text_part_name text_marker_name
              (fun i s => eq_refl) eq_refl eq_refl f p parts Hf He Hs Hn) as [f' [H1 [H2 H3]]].
  exists f'. split; [exact H1|]. split; [exact H2|].
  eapply Forall2_impl_in; [exact H3|]. intros n xs Hin Hl. cbv beta in *.
  destruct (data_names_compressed p parts n Hext Hin) as [Ha Hb].
  split; [exact Ha|]. split; [exact Hb|]. rewrite Hl. f_equal. apply enc_compressing. exact Hb.
Qed.

(* ---------- wholeTextFiles *)
Theorem whole_text_files_spec : forall f expr minP (content : path -> str),
  (forall n, In n (sort_str (resolve f expr)) -> load_text decompress f n = Ok (content n)) ->
  exists pss, whole_text_files decompress f expr minP = Ok pss /\
    concat pss = map (fun n => (n, content n)) (sort_str (resolve f expr)) /\
    sorted_str (map fst (concat pss)).
Proof.
  intros f expr minP content H. unfold whole_text_files.
  destruct (read_parts_ok (fun n => res_map (fun s => [(n, s)]) (load_text decompress f n))
              (fun n => [(n, content n)]) f expr minP) as [pss [Hr Hc]].
  { intros n Hn. rewrite (H n Hn). reflexivity. }
  exists pss. split; [exact Hr|]. rewrite Hc, concat_map_single. split; [reflexivity|].
  rewrite map_map. cbn [fst]. rewrite map_id. apply sort_is_sorted.
Qed.

Lemma load_text_written : forall f n s, scalar_str s ->
  fs_lookup f n = Some (enc compress (get_codec n) (utf8_encode s)) -> load_text decompress f n = Ok s.
Proof.
  intros f n s Hs Hl. unfold load_text.
  rewrite (load_written compress decompress codec_roundtrip f n _ Hl). cbn [res_map].
  rewrite utf8_roundtrip by exact Hs. reflexivity.
Qed.

(* every resolved file holds (compressed by the codec of its name) the utf8 encoding of a text:
   the result is exactly the (path, text) pairs, in path order -- carriage returns included *)
Theorem whole_text_files_content : forall f expr minP (txt : path -> str),
  (forall n, In n (sort_str (resolve f expr)) ->
     scalar_str (txt n) /\
     fs_lookup f n = Some (enc compress (get_codec n) (utf8_encode (txt n)))) ->
  exists pss, whole_text_files decompress f expr minP = Ok pss /\
    concat pss = map (fun n => (n, txt n)) (sort_str (resolve f expr)).
Proof.
  intros f expr minP txt H.
  destruct (whole_text_files_spec f expr minP txt) as [pss [Hr [Hc _]]].
  { intros n Hn. destruct (H n Hn) as [Hs Hl]. apply load_text_written; assumption. }
  exists pss. auto.
Qed.

(* one file: the value is the file's full decoded content, keyed by its path *)
Theorem whole_text_file : forall f p s minP, scalar_str s ->
  fs_lookup f p = Some (enc compress (get_codec p) (utf8_encode s)) ->
  exists pss, whole_text_files decompress f p minP = Ok pss /\ concat pss = [(p, s)].
Proof.
  intros f p s minP Hs Hl.
  destruct (whole_text_files_content f p minP (fun _ => s)) as [pss [Hr Hcc]].
  { rewrite (resolve_file f p _ Hl). intros n [<-|[]]. auto. }
  exists pss. split; [exact Hr|]. rewrite Hcc, (resolve_file f p _ Hl). reflexivity.
Qed.

(* ---------- binaryRecords on one file *)
Lemma binary_records_file : forall f p data rl rs,
  fs_lookup f p = Some (enc compress (get_codec p) data) -> chunker rl data = Ok rs ->
  exists pss, binary_records decompress f p rl = Ok pss /\ concat pss = rs.
Proof.
  intros f p data rl rs Hl Hch. unfold binary_records.
  destruct (read_parts_forall2 (fun n => res_bind (load_bytes decompress f n) (chunker rl)) f p None [p] [rs])
    as [pss [Hr Hc]].
  - exact (resolve_file f p _ Hl).
  - constructor; [|constructor]. rewrite (load_written compress decompress codec_roundtrip f p data Hl). exact Hch.
  - exists pss. split; [exact Hr|]. rewrite Hc. cbn. apply app_nil_r.
Qed.

Theorem binary_records_fixed : forall f p L rs,
  0 < L -> Forall (fun r : list N => Z.of_nat (length r) = L) rs ->
  fs_lookup f p = Some (enc compress (get_codec p) (concat rs)) ->
  exists pss, binary_records decompress f p (RLFixed L) = Ok pss /\ concat pss = rs.
Proof.
  intros f p L rs HL H Hl. apply (binary_records_file f p (concat rs)); [exact Hl|].
  apply fixed_chunks_exact; assumption.
Qed.

Theorem binary_records_prefixed : forall f p be w rs,
  (1 <= w)%nat -> Forall (fun r : list N => Z.of_nat (length r) < 256 ^ Z.of_nat w) rs ->
  fs_lookup f p = Some (enc compress (get_codec p) (concat (map (frame be w) rs))) ->
  exists pss, binary_records decompress f p (RLVar be w) = Ok pss /\ concat pss = rs.
Proof.
  intros f p be w rs Hw H Hl. apply (binary_records_file f p (concat (map (frame be w) rs))); [exact Hl|].
  apply prefixed_chunks_exact; assumption.
Qed.
End MoreReaders.
