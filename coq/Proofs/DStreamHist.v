(* C10 -- lemmas about one callback (tick_inv, exactly one get()/function call per node, for the
   registered order and for any order) and about histories of strictly increasing tick times
   (the machine refines the fold of the one-pass specification; queues hand out their batches in
   arrival order, once). *)
From Coq Require Import String ZArith NArith List Bool Lia Permutation.
Require Import PV.Base.Val PV.Gen.DStreamStep PV.Model.DStreamRdd PV.Model.DStream PV.Proofs.DStream.
Import ListNotations.
Open Scope Z_scope.

Lemma map_nth_seq {A} (l : list A) d : map (fun i => nth i l d) (seq 0 (length l)) = l.
Proof.
  apply nth_error_ext_eq. intros i.
  destruct (Nat.lt_ge_cases i (length l)) as [Hi|Hi].
  - rewrite nth_error_map, nth_error_nth' with (d := O) by (rewrite seq_length; auto).
    rewrite seq_nth by auto. simpl. symmetry. apply nth_error_nth'; auto.
  - replace (nth_error l i) with (@None A) by (symmetry; apply nth_error_None; auto).
    apply nth_error_None. rewrite map_length, seq_length; auto.
Qed.

Lemma tick_spec_len g env t st : length (ns (tick_spec g env t st)) = length g.
Proof. simpl. rewrite map_length, seq_length. reflexivity. Qed.

Lemma tick_spec_node g env t st i :
  (i < length g)%nat -> nth_error (ns (tick_spec g env t st)) i = Some (post_node g env t st i).
Proof.
  intros Hi. simpl. rewrite nth_error_map, nth_error_nth' with (d := O) by (rewrite seq_length; auto).
  rewrite seq_nth by auto. reflexivity.
Qed.

Lemma tick_spec_crdds g env t st :
  map crdd (ns (tick_spec g env t st)) = denot g t (delivered g env st).
Proof.
  simpl. rewrite map_map. simpl.
  rewrite <- (denot_length g t (delivered g env st)). apply map_nth_seq.
Qed.

Lemma tick_spec_time g env t st i s :
  nth_error (ns (tick_spec g env t st)) i = Some s -> ctime s = t.
Proof.
  intros H. assert (Hi : (i < length g)%nat).
  { rewrite <- (tick_spec_len g env t st). apply nth_error_Some. congruence. }
  rewrite tick_spec_node in H by auto. inversion H; reflexivity.
Qed.

Lemma crdd_at_map st i : crdd_at st i = nth i (map crdd (ns st)) RNone.
Proof.
  unfold crdd_at. destruct (nth_error (ns st) i) as [s|] eqn:E.
  - erewrite nth_indep with (d' := crdd s).
    + rewrite map_nth. erewrite nth_error_nth; eauto.
    + rewrite map_length. apply nth_error_Some. congruence.
  - apply nth_error_None in E. rewrite nth_overflow; auto. rewrite map_length; auto.
Qed.

(* after the callback ran at time t: every node is at time t and holds its function applied to what
   its parents hold NOW (same interval); a source holds the batch its stream delivered in this interval *)
Theorem tick_inv g env t st :
  wf g -> length (ns st) = length g -> (forall i s, nth_error (ns st) i = Some s -> ctime s < t) ->
  live g t (delivered g env st) ->
  exists st', tick g env t st = Some st' /\
    length (ns st') = length g /\
    (forall i s, nth_error (ns st') i = Some s -> ctime s = t) /\
    (forall i nd, nth_error g i = Some nd ->
       crdd_at st' i = node_val nd t (delivered g env st i) (map crdd (ns st'))).
Proof.
  intros Hwf Hlen Hlt Hlive. exists (tick_spec g env t st).
  split; [apply tick_refines; auto|]. split; [apply tick_spec_len|].
  split; [intros i s; apply tick_spec_time|].
  intros i nd Hg. rewrite crdd_at_map, tick_spec_crdds. apply denot_eqn; auto.
Qed.

(* ---------- events ---------- *)
Section Events.
Variables (g : graph) (env : nat -> listing) (t : Z) (st : state).
Let ev := event_of g env t st.

Lemma is_pop_ev i j : (j < length g)%nat -> is_pop i (ev j) = Nat.eqb i j && is_src g j.
Proof.
  intros Hj. unfold ev, event_of, is_src.
  destruct (nth_error g j) as [nd|] eqn:E.
  - destruct nd; simpl; rewrite ?andb_true_r, ?andb_false_r; auto.
  - apply nth_error_None in E; lia.
Qed.
Lemma is_fire_ev i j : (j < length g)%nat -> is_fire i (ev j) = Nat.eqb i j && is_fn g j.
Proof.
  intros Hj. unfold ev, event_of, is_fn.
  destruct (nth_error g j) as [nd|] eqn:E.
  - destruct nd; simpl; rewrite ?andb_true_r, ?andb_false_r; auto.
  - apply nth_error_None in E; lia.
Qed.

Lemma count_one (P : nat -> bool) (F : nat -> event -> bool) i dl :
  (forall j, In j dl -> F i (ev j) = Nat.eqb i j && P j) -> NoDup dl ->
  length (filter (F i) (map ev dl)) = if inb i dl && P i then 1%nat else 0%nat.
Proof.
  intros HF Hnd. induction dl as [|j dl IH]; simpl; auto.
  inversion Hnd as [|? ? Hn Hnd']; subst.
  rewrite (HF j (or_introl eq_refl)).
  specialize (IH (fun k Hk => HF k (or_intror Hk)) Hnd').
  destruct (Nat.eqb i j) eqn:E.
  - apply Nat.eqb_eq in E; subst j.
    assert (inb i dl = false).
    { destruct (inb i dl) eqn:E'; auto. apply inb_In in E'; contradiction. }
    rewrite H in IH. simpl in *. destruct (P i); simpl; rewrite IH; auto.
  - simpl. exact IH.
Qed.

Lemma events_once dl :
  NoDup dl -> (forall j, In j dl -> (j < length g)%nat) -> (forall j, (j < length g)%nat -> In j dl) ->
  forall i, pops i (map ev dl) = (if is_src g i then 1 else 0)%nat /\
            fires i (map ev dl) = (if is_fn g i then 1 else 0)%nat.
Proof.
  intros Hnd Hr Hc i. unfold pops, fires.
  rewrite (count_one (is_src g) is_pop i dl) by (auto; intros; apply is_pop_ev; auto).
  rewrite (count_one (is_fn g) is_fire i dl) by (auto; intros; apply is_fire_ev; auto).
  destruct (Nat.lt_ge_cases i (length g)) as [Hi|Hi].
  - replace (inb i dl) with true by (symmetry; apply inb_In; auto). auto.
  - unfold is_src, is_fn.
    replace (nth_error g i) with (@None node) by (symmetry; apply nth_error_None; auto).
    rewrite !andb_false_r. auto.
Qed.
End Events.

Lemma perm_props dl n :
  Permutation dl (seq 0 n) ->
  NoDup dl /\ (forall j, In j dl -> (j < n)%nat) /\ (forall j, (j < n)%nat -> In j dl).
Proof.
  intros HP. split; [|split].
  - eapply Permutation_NoDup; [apply Permutation_sym; eauto|apply seq_NoDup].
  - intros j Hj. eapply Permutation_in in Hj; eauto. apply in_seq in Hj; lia.
  - intros j Hj. eapply Permutation_in; [apply Permutation_sym; eauto|]. apply in_seq; lia.
Qed.

(* what each fire event carries: the tick time and the parents' RDDs of this interval *)
Lemma fire_event_args g env t st j tt args dl :
  In (EvFire j tt args) (map (event_of g env t st) dl) ->
  tt = t /\ exists nd, nth_error g j = Some nd /\
     args = map (fun p => nth p (denot g t (delivered g env st)) RNone) (parents nd).
Proof.
  intros H. apply in_map_iff in H as [k [Hk _]]. unfold event_of in Hk.
  destruct (nth_error g k) as [nd|] eqn:E; [|discriminate].
  destruct nd; try discriminate; inversion Hk; subst; split; auto; eexists; split; eauto.
Qed.

(* pop_once / fire_once for the registered order *)
Theorem tick_events g env t st :
  wf g -> length (ns st) = length g -> (forall i s, nth_error (ns st) i = Some s -> ctime s < t) ->
  live g t (delivered g env st) ->
  exists st' evs, tick g env t st = Some st' /\ log st' = log st ++ evs /\
    (forall i, pops i evs = (if is_src g i then 1 else 0)%nat) /\
    (forall i, fires i evs = (if is_fn g i then 1 else 0)%nat) /\
    (forall j tt args, In (EvFire j tt args) evs ->
       tt = t /\ exists nd, nth_error g j = Some nd /\ args = map (crdd_at st') (parents nd)).
Proof.
  intros Hwf Hlen Hlt Hlive.
  exists (tick_spec g env t st), (map (event_of g env t st) (seq 0 (length g))).
  split; [apply tick_refines; auto|]. split; [reflexivity|].
  destruct (perm_props (seq 0 (length g)) (length g) (Permutation_refl _)) as [Hnd [Hr Hc]].
  split; [intros i; apply (events_once g env t st _ Hnd Hr Hc i)|].
  split; [intros i; apply (events_once g env t st _ Hnd Hr Hc i)|].
  intros j tt args H. apply fire_event_args in H as [-> [nd [Hg ->]]].
  split; auto. exists nd; split; auto.
  apply map_ext. intros p. rewrite crdd_at_map, tick_spec_crdds. reflexivity.
Qed.

(* the same for ANY order in which the callback might step the registered nodes *)
Theorem any_order_once g env t st order :
  wf g -> length (ns st) = length g -> (forall i s, nth_error (ns st) i = Some s -> ctime s < t) ->
  live g t (delivered g env st) ->
  (forall i, In i order -> (i < length g)%nat) -> (forall i, (i < length g)%nat -> In i order) ->
  exists st' evs, step_all g env t order st = Some st' /\
    ns st' = ns (tick_spec g env t st) /\ log st' = log st ++ evs /\
    (forall i, pops i evs = (if is_src g i then 1 else 0)%nat) /\
    (forall i, fires i evs = (if is_fn g i then 1 else 0)%nat).
Proof.
  intros Hwf Hlen Hlt Hlive Hr Hc.
  destruct (any_order_refines g env t st Hwf Hlen Hlt Hlive order Hr Hc) as [st' [dl [E [Hns [Hlog HP]]]]].
  exists st', (map (event_of g env t st) dl). split; auto. split; auto. split; auto.
  destruct (perm_props dl (length g) HP) as [Hnd [Hr' Hc']].
  split; intros i; apply (events_once g env t st _ Hnd Hr' Hc' i).
Qed.


(* ---------- histories ---------- *)
Lemma delivered_defined g env st : length (ns st) = length g -> src_defined g (delivered g env st).
Proof.
  intros Hlen i k Hg. unfold delivered. rewrite Hg.
  destruct (nth_error (ns st) i) eqn:E; [discriminate|].
  apply nth_error_None in E. assert (i < length g)%nat by (apply nth_error_Some; congruence). lia.
Qed.

Lemma run_hist_refines g : wf g -> always_live g -> forall h c st,
  length (ns st) = length g -> (forall i s, nth_error (ns st) i = Some s -> ctime s <= c) ->
  increasing c h -> run_hist g h st = Some (spec_hist g h st).
Proof.
  intros Hwf Hal. induction h as [|[t env] h IH]; intros c st Hlen Hc Hinc; simpl; auto.
  destruct Hinc as [Hct Hinc].
  rewrite tick_refines; auto.
  2:{ intros i s Hs. specialize (Hc i s Hs). lia. }
  2:{ apply Hal. apply delivered_defined; auto. }
  apply (IH t).
  - apply tick_spec_len.
  - intros i s Hs. apply tick_spec_time in Hs. lia.
  - exact Hinc.
Qed.

Lemma init_len g : length (ns (init g)) = length g.
Proof. simpl. apply map_length. Qed.
Lemma init_time g i s : nth_error (ns (init g)) i = Some s -> ctime s <= 0.
Proof.
  simpl. rewrite nth_error_map. destruct (nth_error g i) as [nd|]; simpl; [|discriminate].
  intros H; inversion H; subst. destruct nd as [[? ? ?|?]| | |]; simpl; lia.
Qed.

Theorem run_hist_init g h :
  wf g -> always_live g -> increasing 0 h -> run_hist g h (init g) = Some (spec_hist g h (init g)).
Proof.
  intros Hwf Hal Hinc. apply (run_hist_refines g Hwf Hal h 0); auto.
  - apply init_len.
  - apply init_time.
Qed.

Lemma spec_hist_snoc g h t env st :
  spec_hist g (h ++ [(t, env)]) st = tick_spec g env t (spec_hist g h st).
Proof. unfold spec_hist. rewrite fold_left_app. reflexivity. Qed.

Lemma spec_hist_len g h st : length (ns st) = length g -> length (ns (spec_hist g h st)) = length g.
Proof.
  revert st; induction h as [|[t env] h IH]; intros st H; simpl; auto.
  apply IH. apply tick_spec_len.
Qed.

(* a source node after one more tick *)
Lemma tick_spec_src g env t st i k s :
  wf g -> nth_error g i = Some (Src k) -> nth_error (ns st) i = Some s ->
  nth_error (ns (tick_spec g env t st)) i =
    Some (mkNs t (RRdd (deserialize (fst (src_get k (env i) s))))
               (queue (snd (src_get k (env i) s))) (fdone (snd (src_get k (env i) s)))).
Proof.
  intros Hwf Hg Hs.
  assert (Hi : (i < length g)%nat) by (apply nth_error_Some; congruence).
  rewrite tick_spec_node by auto. f_equal.
  unfold post_node, popped. rewrite Hg, Hs. f_equal.
  rewrite (denot_eqn g t _ i (Src k) Hwf Hg). simpl. unfold delivered. rewrite Hg, Hs. reflexivity.
Qed.

Lemma skipn_step {A} (n : nat) (l : list A) b q : skipn n l = b :: q -> skipn (S n) l = q.
Proof.
  revert l; induction n as [|n IH]; intros l H.
  - simpl in H. subst l. reflexivity.
  - destruct l as [|a l]; [discriminate|]. simpl in H. apply IH in H. exact H.
Qed.

(* QueueStream.get through the regenerated branch kernel, as a case analysis on the queue *)
Lemma src_get_queue one dflt q0 ls s :
  src_get (SQueue one dflt q0) ls s =
    match queue s with
    | [] => (match dflt with None => QNone | Some d => QRdd (batch_rdd d) end, s)
    | b :: q' =>
        if one then (match b with Some x => QList x | None => QNone end, mkNs (ctime s) (crdd s) q' (fdone s))
        else (QList (concat (map entry_items (queue s)), None), mkNs (ctime s) (crdd s) [] (fdone s))
    end.
Proof.
  unfold src_get, queue_get_branch. destruct (queue s) as [|b q']; [reflexivity|].
  replace (Z.of_nat (length (b :: q')) =? 0) with false by (symmetry; apply Z.eqb_neq; simpl; lia).
  destruct one; reflexivity.
Qed.

(* ---------- a queue with oneAtATime=True hands out its batches one per interval, in order;
   afterwards the default (or an EmptyRDD) ---------- *)
Theorem queue_in_order g i dflt q0 :
  wf g -> nth_error g i = Some (Src (SQueue true dflt q0)) ->
  forall h, exists s,
    nth_error (ns (spec_hist g h (init g))) i = Some s /\
    queue s = skipn (length h) q0 /\
    (h <> [] -> crdd s = RRdd (match nth_error q0 (length h - 1) with
                              | Some (Some b) => batch_rdd b
                              | Some None => empty_rdd
                              | None => default_rdd dflt
                              end)).
Proof.
  intros Hwf Hg h. induction h as [|[t env] h IH] using rev_ind.
  - simpl. rewrite nth_error_map, Hg. simpl. eexists; split; [reflexivity|]. split; auto. congruence.
  - destruct IH as [s [Hs [Hq _]]].
    rewrite spec_hist_snoc, (tick_spec_src g env t _ i _ s Hwf Hg Hs).
    eexists; split; [reflexivity|]. rewrite app_length. cbn [length queue crdd].
    replace (length h + 1 - 1)%nat with (length h) by lia.
    replace (length h + 1)%nat with (S (length h)) by lia.
    rewrite src_get_queue, Hq.
    destruct (skipn (length h) q0) as [|b q'] eqn:E; cbn [fst snd queue fdone crdd ctime deserialize].
    + split.
      * rewrite Hq. symmetry. apply skipn_all2.
        assert (length (skipn (length h) q0) = 0%nat) by (rewrite E; reflexivity).
        rewrite skipn_length in H. lia.
      * intros _. f_equal.
        assert (length (skipn (length h) q0) = 0%nat) by (rewrite E; reflexivity).
        rewrite skipn_length in H.
        assert (Hnone : nth_error q0 (length h) = None) by (apply nth_error_None; lia).
        rewrite Hnone.
        destruct dflt; reflexivity.
    + assert (Hn : nth_error q0 (length h) = Some b).
      { rewrite <- (firstn_skipn (length h) q0) at 1. rewrite E.
        assert (length (skipn (length h) q0) = S (length q')) by (rewrite E; reflexivity).
        rewrite skipn_length in H.
        rewrite nth_error_app2 by (rewrite firstn_length; lia).
        rewrite firstn_length. replace (length h - Nat.min (length h) (length q0))%nat with 0%nat by lia.
        reflexivity. }
      split.
      * symmetry. apply (skipn_step _ _ _ _ E).
      * intros _. rewrite Hn. destruct b; reflexivity.
Qed.

(* oneAtATime=False: the first interval gets everything that is queued, concatenated, once *)
Theorem queue_all_at_once g i dflt q0 :
  wf g -> nth_error g i = Some (Src (SQueue false dflt q0)) ->
  forall h, exists s,
    nth_error (ns (spec_hist g h (init g))) i = Some s /\
    queue s = (match h with [] => q0 | _ => [] end) /\
    (h <> [] -> crdd s = RRdd (match length h, q0 with
                              | 1%nat, _ :: _ => parallelize (concat (map entry_items q0)) None
                              | _, _ => default_rdd dflt
                              end)).
Proof.
  intros Hwf Hg h. induction h as [|[t env] h IH] using rev_ind.
  - simpl. rewrite nth_error_map, Hg. simpl. eexists; split; [reflexivity|]. split; auto. congruence.
  - destruct IH as [s [Hs [Hq _]]].
    rewrite spec_hist_snoc, (tick_spec_src g env t _ i _ s Hwf Hg Hs).
    eexists; split; [reflexivity|]. rewrite app_length. cbn [length queue crdd].
    rewrite src_get_queue, Hq.
    destruct h as [|x h]; simpl.
    + destruct q0 as [|b q']; simpl; split; auto; intros _; destruct dflt; reflexivity.
    + split; [destruct (h ++ [(t, env)]) eqn:E; auto; destruct h; discriminate|].
      intros _. replace (length h + 1)%nat with (S (length h)) by lia.
      destruct dflt; reflexivity.
Qed.

(* ---------- not a new interval; closed form ---------- *)

Lemma guard_old nd t c : t <= c -> guard nd t c = true.
Proof.
  intros H. destruct nd; unfold guard, step_guard_DStream, step_guard_TransformedDStream,
    step_guard_TransformedWithDStream, step_guard_CogroupedDStream; apply Z.leb_le; auto.
Qed.

(* a callback whose timestamp is not later than what every node has already processed changes nothing:
   no get(), no function call *)
Theorem tick_stutter g env t st :
  length (ns st) = length g -> (forall i s, nth_error (ns st) i = Some s -> t <= ctime s) ->
  tick g env t st = Some st.
Proof.
  intros Hlen Hold. unfold tick.
  assert (H : forall order, (forall i, In i order -> (i < length g)%nat) -> step_all g env t order st = Some st).
  { induction order as [|i order IH]; intros Hr; cbn [step_all]; auto.
    assert (Hi : (i < length g)%nat) by (apply Hr; left; auto).
    cbn [step].
    destruct (nth_error g i) as [nd|] eqn:Hg; [|apply nth_error_None in Hg; lia].
    destruct (nth_error (ns st) i) as [s|] eqn:Hs; [|apply nth_error_None in Hs; lia].
    rewrite (guard_old nd t (ctime s) (Hold i s Hs)). apply IH. intros j Hj; apply Hr; right; auto. }
  apply H. intros i Hi. apply in_seq in Hi. lia.
Qed.

(* closed form: after a tick every node holds a function of the batches delivered in THIS interval only *)
Theorem tick_denot g env t st :
  wf g -> length (ns st) = length g -> (forall i s, nth_error (ns st) i = Some s -> ctime s < t) ->
  live g t (delivered g env st) ->
  exists st', tick g env t st = Some st' /\
    forall i, (i < length g)%nat -> crdd_at st' i = nth i (denot g t (delivered g env st)) RNone.
Proof.
  intros Hwf Hlen Hlt Hlive. exists (tick_spec g env t st). split; [apply tick_refines; auto|].
  intros i Hi. rewrite crdd_at_map, tick_spec_crdds. reflexivity.
Qed.

(* ---------- histories in which the graph grows (registration after start()) ---------- *)

Definition shape (g : graph) (st : state) (c : Z) : Prop :=
  length (ns st) = length g /\ forall i s, nth_error (ns st) i = Some s -> ctime s <= c.

Lemma init_node_time nd : ctime (init_node nd) = 0.
Proof. destruct nd as [[? ? ?|?]| | |]; reflexivity. Qed.

Lemma shape_extend g st c new : 0 <= c -> shape g st c -> shape (g ++ new) (extend_state st new) c.
Proof.
  intros Hc [Hlen Ht]. split.
  - simpl. rewrite !app_length, map_length, Hlen. reflexivity.
  - intros i s Hs. simpl in Hs.
    destruct (Nat.lt_ge_cases i (length (ns st))) as [Hl|Hl].
    + rewrite nth_error_app1 in Hs by auto. eauto.
    + rewrite nth_error_app2 in Hs by auto. rewrite nth_error_map in Hs.
      destruct (nth_error new (i - length (ns st))) as [nd|]; simpl in Hs; [|discriminate].
      inversion Hs; subst s. rewrite init_node_time. exact Hc.
Qed.

Lemma shape_tick g env t st c : shape g st c -> c < t -> shape g (tick_spec g env t st) t.
Proof.
  intros _ _. split; [apply tick_spec_len|].
  intros i s Hs. apply tick_spec_time in Hs. lia.
Qed.

Lemma shape_weaken g st c c' : shape g st c -> c <= c' -> shape g st c'.
Proof. intros [Hl Ht] Hc. split; auto. intros i s Hs. specialize (Ht i s Hs). lia. Qed.

(* the machine refines the specification along histories in which the graph grows *)
Theorem events_refine : forall h g st c,
  graphs_ok g h -> 0 <= c -> shape g st c -> ev_increasing c h ->
  run_events g st h = Some (spec_events g st h).
Proof.
  induction h as [|[t env|new] h IH]; intros g st c Hok Hc Hsh Hinc; simpl; auto.
  - destruct Hok as [Hwf [Hal Hok]]. destruct Hinc as [Hct Hinc]. destruct Hsh as [Hlen Ht].
    rewrite tick_refines; auto.
    + apply (IH g _ t); auto; try lia. apply (shape_tick g env t st c); auto. split; auto.
    + intros i s Hs. specialize (Ht i s Hs). lia.
    + apply Hal. apply delivered_defined; auto.
  - destruct Hok as [_ [_ Hok]]. apply (IH (g ++ new) _ c); auto. apply shape_extend; auto.
Qed.

(* invariants of the specification along such a history *)
Fixpoint last_time (c : Z) (h : list hevent) : Z :=
  match h with
  | [] => c
  | HTick t _ :: h' => last_time t h'
  | HReg _ :: h' => last_time c h'
  end.

Lemma events_inv : forall h g st c,
  graphs_ok g h -> 0 <= c -> shape g st c -> ev_increasing c h ->
  let '(g1, st1) := spec_events g st h in
  wf g1 /\ always_live g1 /\ shape g1 st1 (last_time c h) /\ 0 <= last_time c h /\
  exists new, g1 = g ++ new.
Proof.
  induction h as [|[t env|new] h IH]; intros g st c Hok Hc Hsh Hinc; simpl.
  - destruct Hok as [Hwf [Hal _]]. repeat split; auto; try apply Hsh. exists []. rewrite app_nil_r; auto.
  - destruct Hok as [Hwf [Hal Hok]]. destruct Hinc as [Hct Hinc].
    apply (IH g _ t); auto; try lia. apply (shape_tick g env t st c); auto.
  - destruct Hok as [_ [_ Hok]].
    pose proof (IH (g ++ new) (extend_state st new) c Hok Hc (shape_extend g st c new Hc Hsh) Hinc) as H.
    destruct (spec_events (g ++ new) (extend_state st new) h) as [g1 st1].
    destruct H as [H1 [H2 [H3 [H4 [more H5]]]]]. repeat split; auto; try apply H3.
    exists (new ++ more). rewrite H5, app_assoc. reflexivity.
Qed.

Lemma increasing_last : forall h c t env, ev_increasing c (h ++ [HTick t env]) -> last_time c h < t.
Proof.
  induction h as [|[t0 env0|new] h IH]; intros c t env H; simpl in *.
  - lia.
  - destruct H as [_ H]. eapply IH; eauto.
  - eapply IH; eauto.
Qed.

Lemma graphs_ok_app_l : forall h g h2, graphs_ok g (h ++ h2) -> graphs_ok g h.
Proof.
  induction h as [|[t env|new] h IH]; intros g h2 H; simpl in *.
  - destruct h2 as [|[? ?|?] ?]; simpl in H; destruct H as [H1 [H2 _]]; auto.
  - destruct H as [H1 [H2 H3]]. split; auto. split; auto. eapply IH; eauto.
  - destruct H as [H1 [H2 H3]]. split; auto. split; auto. eapply IH; eauto.
Qed.
Lemma ev_increasing_app_l : forall h c h2, ev_increasing c (h ++ h2) -> ev_increasing c h.
Proof.
  induction h as [|[t env|new] h IH]; intros c h2 H; simpl in *; auto.
  - destruct H; split; auto. eapply IH; eauto.
  - eapply IH; eauto.
Qed.

(* whatever was registered, and whenever: in every interval, every node registered SO FAR calls get()
   exactly once (sources) / has its function called exactly once (all others) and ends at time t --
   in particular an action or branch registered after start() takes part from the next interval on *)
Theorem tick_after_events g st c h t env :
  graphs_ok g (h ++ [HTick t env]) -> 0 <= c -> shape g st c -> ev_increasing c (h ++ [HTick t env]) ->
  let '(g1, st1) := spec_events g st h in
  run_events g st h = Some (g1, st1) /\
  (exists new, g1 = g ++ new) /\
  exists st2 evs, tick g1 env t st1 = Some st2 /\ log st2 = log st1 ++ evs /\
    length (ns st2) = length g1 /\
    (forall i s, nth_error (ns st2) i = Some s -> ctime s = t) /\
    (forall i, pops i evs = (if is_src g1 i then 1 else 0)%nat) /\
    (forall i, fires i evs = (if is_fn g1 i then 1 else 0)%nat) /\
    (forall i nd, nth_error g1 i = Some nd ->
       crdd_at st2 i = node_val nd t (delivered g1 env st1 i) (map crdd (ns st2))).
Proof.
  intros Hok Hc Hsh Hinc.
  pose proof (events_refine h g st c (graphs_ok_app_l _ _ _ Hok) Hc Hsh (ev_increasing_app_l _ _ _ Hinc)) as Href.
  pose proof (events_inv h g st c (graphs_ok_app_l _ _ _ Hok) Hc Hsh (ev_increasing_app_l _ _ _ Hinc)) as Hinv.
  destruct (spec_events g st h) as [g1 st1].
  destruct Hinv as [Hwf [Hal [[Hlen Ht] [_ Hext]]]].
  split; auto. split; auto.
  pose proof (increasing_last h c t env Hinc) as Hlt.
  assert (Hlt' : forall i s, nth_error (ns st1) i = Some s -> ctime s < t)
    by (intros i s Hs; specialize (Ht i s Hs); lia).
  assert (Hlive : live g1 t (delivered g1 env st1)) by (apply Hal; apply delivered_defined; auto).
  destruct (tick_events g1 env t st1 Hwf Hlen Hlt' Hlive) as [st2 [evs [E [Hlog [Hp [Hf _]]]]]].
  destruct (tick_inv g1 env t st1 Hwf Hlen Hlt' Hlive) as [st2' [E' [Hlen2 [Ht2 Hsol]]]].
  rewrite E in E'. inversion E'; subst st2'.
  exists st2, evs. repeat split; auto.
Qed.
