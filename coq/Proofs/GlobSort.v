(* C20 -- lemmas about the readers' sort: Python's order on str, insertion sort is a sorted permutation. *)
From Coq Require Import NArith List Bool Lia Sorted Permutation.
Require Import PV.Gen.FsDispatch PV.Model.Glob PV.Model.GlobSpec.
Import ListNotations.
Open Scope N_scope.

Lemma str_leb_refl a : str_leb a a = true.
Proof. induction a as [|x a IH]; simpl; auto. rewrite N.ltb_irrefl, N.eqb_refl. auto. Qed.

Lemma str_leb_total a b : str_leb a b = true \/ str_leb b a = true.
Proof.
  revert b. induction a as [|x a IH]; intros [|y b]; simpl; auto.
  destruct (N.ltb_spec x y); auto. destruct (N.ltb_spec y x); auto.
  assert (x = y) by lia. subst. rewrite N.eqb_refl. apply IH.
Qed.

Lemma str_leb_trans a b c : str_leb a b = true -> str_leb b c = true -> str_leb a c = true.
Proof.
  revert b c. induction a as [|x a IH]; intros [|y b] [|z c]; simpl; auto; try discriminate.
  destruct (N.ltb_spec x y), (N.ltb_spec y z); intros H1 H2.
  - assert (L : x <? z = true) by (apply N.ltb_lt; lia). rewrite L. auto.
  - destruct (N.eqb_spec y z); [|discriminate]. subst. assert (L : x <? z = true) by (apply N.ltb_lt; lia). rewrite L. auto.
  - destruct (N.eqb_spec x y); [|discriminate]. subst. assert (L : y <? z = true) by (apply N.ltb_lt; lia). rewrite L. auto.
  - destruct (N.eqb_spec x y); [|discriminate]. destruct (N.eqb_spec y z); [|discriminate]. subst.
    rewrite N.ltb_irrefl, N.eqb_refl. eauto.
Qed.

Lemma str_leb_antisym a b : str_leb a b = true -> str_leb b a = true -> a = b.
Proof.
  revert b. induction a as [|x a IH]; intros [|y b]; simpl; auto; try discriminate.
  destruct (N.ltb_spec x y), (N.ltb_spec y x); try lia; intros H1 H2.
  - destruct (N.eqb_spec y x); [lia | discriminate].
  - destruct (N.eqb_spec x y); [lia | discriminate].
  - destruct (N.eqb_spec x y); [|discriminate]. subst. rewrite N.eqb_refl in H2. f_equal. auto.
Qed.

Lemma insert_perm x l : Permutation (x :: l) (insert_name x l).
Proof.
  induction l as [|y l IH]; simpl; auto. destruct (str_leb x y); auto.
  eapply perm_trans; [apply perm_swap|]. auto.
Qed.

Lemma sort_perm l : Permutation l (sort_names l).
Proof.
  induction l as [|x l IH]; simpl; auto. eapply perm_trans; [|apply insert_perm]. auto.
Qed.

Lemma insert_sorted x l : StronglySorted str_le l -> StronglySorted str_le (insert_name x l).
Proof.
  induction 1 as [|y l S IH F]; simpl.
  - constructor; constructor.
  - destruct (str_leb x y) eqn:E.
    + constructor. constructor; auto. constructor; auto.
      eapply Forall_impl; [|exact F]. intros z Hz. unfold str_le in *. eapply str_leb_trans; eauto.
    + constructor; auto.
      assert (Hyx : str_le y x). { destruct (str_leb_total x y) as [T|T]; [congruence | exact T]. }
      eapply Permutation_Forall; [apply insert_perm|]. constructor; auto.
Qed.

Lemma sort_sorted l : StronglySorted str_le (sort_names l).
Proof. induction l; simpl. constructor. apply insert_sorted. auto. Qed.

Theorem read_order_sorted fs e l :
  read_order fs e = Names l ->
  exists r, resolve_all fs e = Names r /\ Permutation r l /\ StronglySorted str_le l.
Proof.
  unfold read_order. destruct (resolve_all fs e) as [r|m]; [|discriminate].
  intro H. inversion H; subst. exists r. split; auto. split. apply sort_perm. apply sort_sorted.
Qed.

(* the sorted order is unique: any two sorted permutations of the same names coincide *)
Lemma sorted_unique l1 l2 : Permutation l1 l2 -> StronglySorted str_le l1 -> StronglySorted str_le l2 -> l1 = l2.
Proof.
  revert l2. induction l1 as [|x l1 IH]; intros l2 P S1 S2.
  - apply Permutation_nil in P. auto.
  - destruct l2 as [|y l2]. { apply Permutation_sym, Permutation_nil in P. discriminate. }
    inversion S1 as [|? ? S1' F1]; subst. inversion S2 as [|? ? S2' F2]; subst.
    assert (x = y).
    { assert (I1 : In x (y :: l2)) by (eapply Permutation_in; [exact P | left; auto]).
      assert (I2 : In y (x :: l1)) by (eapply Permutation_in; [apply Permutation_sym; exact P | left; auto]).
      destruct I1 as [->|I1]; auto. destruct I2 as [->|I2]; auto.
      rewrite Forall_forall in F1, F2. apply str_leb_antisym; [apply F1 | apply F2]; auto. }
    subst y. f_equal. apply IH; auto. eapply Permutation_cons_inv; eauto.
Qed.
