(* C08 -- lemmas about the Python string operations of PV.Base.PyStrOps: prefixes/suffixes, rfind, lexicographic order, sorted(), zero-padded decimal formatting *)
From Coq Require Import String ZArith NArith List Bool Lia Sorting.Permutation.
Require Import PV.Base.PyStrOps.
Import ListNotations.
Ltac Zify.zify_post_hook ::= Z.to_euclidean_division_equations.
Open Scope Z_scope.

(* ---------- str_eqb *)
Lemma str_eqb_spec : forall a b, reflect (a = b) (str_eqb a b).
Proof.
  induction a as [|x a IH]; intros [|y b]; cbn [str_eqb]; try (constructor; congruence).
  destruct (N.eqb_spec x y) as [->|Hxy]; cbn [andb].
  - destruct (IH b) as [->|Hab]; constructor; congruence.
  - constructor. congruence.
Qed.
Lemma str_eqb_refl : forall a, str_eqb a a = true.
Proof. intros a. destruct (str_eqb_spec a a); congruence. Qed.

(* ---------- starts_with / ends_with *)
Lemma starts_with_spec : forall s p, starts_with s p = true <-> exists r, s = p ++ r.
Proof.
  intros s p. revert s. induction p as [|c p IH]; intros s.
  - cbn. split; [intros _; exists s; reflexivity|reflexivity].
  - destruct s as [|d s]; cbn [starts_with].
    + split; [discriminate|intros [r Hr]; discriminate].
    + rewrite andb_true_iff, N.eqb_eq, IH. split.
      * intros [-> [r ->]]. exists r. reflexivity.
      * intros [r Hr]. injection Hr as -> ->. split; [reflexivity|exists r; reflexivity].
Qed.
Lemma starts_with_app : forall p r, starts_with (p ++ r) p = true.
Proof. intros. apply starts_with_spec. exists r. reflexivity. Qed.
Lemma starts_with_app_same : forall a s p, starts_with (a ++ s) (a ++ p) = starts_with s p.
Proof.
  induction a as [|c a IH]; intros s p; [reflexivity|].
  cbn [app starts_with]. rewrite N.eqb_refl, IH. reflexivity.
Qed.
Lemma ends_with_spec : forall s e, ends_with s e = true <-> exists p, s = p ++ e.
Proof.
  intros s e. unfold ends_with. rewrite starts_with_spec. split.
  - intros [r Hr]. exists (rev r). rewrite <- (rev_involutive s), Hr, rev_app_distr, rev_involutive. reflexivity.
  - intros [p ->]. exists (rev p). apply rev_app_distr.
Qed.
Lemma ends_with_app : forall p e, ends_with (p ++ e) e = true.
Proof. intros. apply ends_with_spec. exists p. reflexivity. Qed.
Lemma ends_with_app_l : forall q s e, ends_with s e = true -> ends_with (q ++ s) e = true.
Proof.
  intros q s e H. apply ends_with_spec in H. destruct H as [p ->]. apply ends_with_spec.
  exists (q ++ p). apply app_assoc.
Qed.

(* two suffixes of the same string: the shorter one is a suffix of the longer one *)
Lemma prefix_of_prefix : forall a s b,
  starts_with s a = true -> starts_with s b = true -> (length a <= length b)%nat -> starts_with b a = true.
Proof.
  induction a as [|x a IH]; intros s b Ha Hb L; [reflexivity|].
  destruct s as [|d s]; [discriminate|]. destruct b as [|y b]; [cbn in L; lia|].
  cbn [starts_with] in *. apply andb_prop in Ha. apply andb_prop in Hb.
  destruct Ha as [Hx Ha]. destruct Hb as [Hy Hb].
  apply N.eqb_eq in Hx. apply N.eqb_eq in Hy. subst. rewrite N.eqb_refl. cbn [andb].
  apply (IH s b); try assumption. cbn in L. lia.
Qed.
Lemma suffix_of_suffix : forall s e1 e2,
  ends_with s e1 = true -> ends_with s e2 = true -> (length e1 <= length e2)%nat -> ends_with e2 e1 = true.
Proof.
  intros s e1 e2 H1 H2 L. unfold ends_with in *.
  apply (prefix_of_prefix _ (rev s)); try assumption. rewrite !rev_length. exact L.
Qed.
Lemma ends_with_length : forall s e, ends_with s e = true -> (length e <= length s)%nat.
Proof. intros s e H. apply ends_with_spec in H. destruct H as [p ->]. rewrite app_length. lia. Qed.
Lemma ends_with_same_length : forall s e, ends_with s e = true -> length s = length e -> s = e.
Proof.
  intros s e H L. apply ends_with_spec in H. destruct H as [p ->]. rewrite app_length in L.
  destruct p; [reflexivity|cbn in L; lia].
Qed.

(* ---------- rfind_char *)
Lemma rfind_range : forall c s, -1 <= rfind_char c s < Z.of_nat (length s).
Proof.
  induction s as [|d s IH]; [cbn; lia|].
  cbn [rfind_char length]. destruct (0 <=? rfind_char c s) eqn:E.
  - apply Z.leb_le in E. lia.
  - destruct (N.eqb c d); lia.
Qed.
Lemma rfind_absent : forall c s, contains_char c s = false <-> rfind_char c s = -1.
Proof.
  induction s as [|d s IH]; [cbn; tauto|].
  unfold contains_char in *. cbn [existsb rfind_char].
  pose proof (rfind_range c s) as R.
  destruct (0 <=? rfind_char c s) eqn:E.
  - apply Z.leb_le in E. rewrite orb_false_iff. split; [|lia]. intros [_ H]. apply IH in H. lia.
  - apply Z.leb_gt in E. assert (Hr : rfind_char c s = -1) by lia. apply IH in Hr.
    destruct (N.eqb c d); cbn [orb].
    + split; [discriminate|lia].
    + split; [reflexivity|intros _; exact Hr].
Qed.
Lemma rfind_present : forall c s, contains_char c s = true <-> 0 <= rfind_char c s.
Proof.
  intros c s. pose proof (rfind_range c s). pose proof (rfind_absent c s) as A.
  destruct (contains_char c s); split; intros; try reflexivity; try discriminate.
  - destruct (Z.eq_dec (rfind_char c s) (-1)) as [E|E]; [apply A in E; discriminate|lia].
  - assert (rfind_char c s = -1) by (apply A; reflexivity). lia.
Qed.
(* the last occurrence in p ++ e lies in e when e contains c ... *)
Lemma rfind_app_in : forall c p e, 0 <= rfind_char c e ->
  rfind_char c (p ++ e) = Z.of_nat (length p) + rfind_char c e.
Proof.
  induction p as [|d p IH]; intros e H; [cbn; lia|].
  cbn [app rfind_char length]. rewrite IH by assumption.
  destruct (0 <=? Z.of_nat (length p) + rfind_char c e) eqn:E; [lia|]. apply Z.leb_gt in E. lia.
Qed.
(* ... and in p otherwise *)
Lemma rfind_app_out : forall c p e, rfind_char c e = -1 -> rfind_char c (p ++ e) = rfind_char c p.
Proof.
  induction p as [|d p IH]; intros e H; [cbn; assumption|].
  cbn [app rfind_char]. rewrite IH by assumption. reflexivity.
Qed.
Lemma contains_app : forall c a b, contains_char c (a ++ b) = contains_char c a || contains_char c b.
Proof. intros. unfold contains_char. apply existsb_app. Qed.

Lemma slice_from_app : forall p e, slice_from (Z.of_nat (length p)) (p ++ e) = e.
Proof.
  intros p e. unfold slice_from. destruct (0 <=? Z.of_nat (length p)) eqn:E; [|apply Z.leb_gt in E; lia].
  rewrite app_length. replace (Z.to_nat _) with (length p + 0)%nat by lia.
  rewrite skipn_app. rewrite Nat.add_0_r, skipn_all. replace (length p - length p)%nat with 0%nat by lia.
  reflexivity.
Qed.
Lemma slice_from_app_plus : forall p e k, 0 <= k <= Z.of_nat (length e) ->
  slice_from (Z.of_nat (length p) + k) (p ++ e) = slice_from k e.
Proof.
  intros p e k Hk. unfold slice_from.
  destruct (0 <=? Z.of_nat (length p) + k) eqn:E; [|apply Z.leb_gt in E; lia].
  destruct (0 <=? k) eqn:E2; [|apply Z.leb_gt in E2; lia].
  rewrite app_length.
  replace (Z.to_nat (Z.min (Z.of_nat (length p) + k) (Z.of_nat (length p + length e))))
    with (length p + Z.to_nat k)%nat by lia.
  replace (Z.to_nat (Z.min k (Z.of_nat (length e)))) with (Z.to_nat k) by lia.
  rewrite skipn_app. rewrite skipn_all2 by lia. cbn [app].
  f_equal. lia.
Qed.

(* ---------- lexicographic order *)
Lemma str_leb_refl : forall a, str_leb a a = true.
Proof. induction a as [|x a IH]; [reflexivity|]. cbn. rewrite N.ltb_irrefl, N.eqb_refl. exact IH. Qed.
Lemma str_leb_total : forall a b, str_leb a b = true \/ str_leb b a = true.
Proof.
  induction a as [|x a IH]; intros [|y b]; cbn; auto.
  destruct (N.ltb_spec x y); auto. destruct (N.ltb_spec y x); auto.
  assert (x = y) by lia. subst. rewrite N.eqb_refl. apply IH.
Qed.
Lemma str_leb_antisym : forall a b, str_leb a b = true -> str_leb b a = true -> a = b.
Proof.
  induction a as [|x a IH]; intros [|y b]; cbn; try discriminate; auto.
  destruct (N.ltb_spec x y); destruct (N.ltb_spec y x); try lia.
  - destruct (N.eqb_spec y x); [lia|discriminate].
  - destruct (N.eqb_spec x y); [lia|discriminate].
  - assert (x = y) by lia. subst. rewrite N.eqb_refl. intros. f_equal. apply IH; assumption.
Qed.
Lemma str_leb_trans : forall a b c, str_leb a b = true -> str_leb b c = true -> str_leb a c = true.
Proof.
  induction a as [|x a IH]; intros [|y b] [|z c]; cbn; try discriminate; auto.
  destruct (N.ltb_spec x y); destruct (N.ltb_spec y z); destruct (N.ltb_spec x z); try lia; auto.
  - destruct (N.eqb_spec y z); [lia|discriminate].
  - destruct (N.eqb_spec x y); [lia|discriminate].
  - destruct (N.eqb_spec x y); [|discriminate]. destruct (N.eqb_spec y z); [|discriminate].
    subst. rewrite N.eqb_refl. apply IH.
Qed.
Lemma str_leb_app : forall p a b, str_leb (p ++ a) (p ++ b) = str_leb a b.
Proof. induction p as [|x p IH]; intros; [reflexivity|]. cbn. rewrite N.ltb_irrefl, N.eqb_refl. apply IH. Qed.

(* strictly smaller *)
Definition str_lt (a b : str) : Prop := str_leb a b = true /\ a <> b.

(* ---------- sorted(): insertion sort *)
Inductive sorted_str : list str -> Prop :=
| ss_nil : sorted_str []
| ss_one : forall a, sorted_str [a]
| ss_cons : forall a b l, str_leb a b = true -> sorted_str (b :: l) -> sorted_str (a :: b :: l).

Lemma insert_sorted_head : forall x l, sorted_str (x :: l) -> insert_str x l = x :: l.
Proof.
  intros x l H. destruct l as [|y l]; [reflexivity|]. inversion H; subst. cbn. rewrite H2. reflexivity.
Qed.
Lemma sorted_tail : forall x l, sorted_str (x :: l) -> sorted_str l.
Proof. intros x l H. inversion H; subst; [constructor|assumption]. Qed.
Lemma sort_sorted_id : forall l, sorted_str l -> sort_str l = l.
Proof.
  induction l as [|x l IH]; intros H; [reflexivity|].
  cbn. rewrite IH by (eapply sorted_tail; eassumption). apply insert_sorted_head. exact H.
Qed.
Lemma insert_perm : forall x l, Permutation (insert_str x l) (x :: l).
Proof.
  induction l as [|y l IH]; [reflexivity|]. cbn. destruct (str_leb x y); [reflexivity|].
  rewrite IH. apply perm_swap.
Qed.
Lemma sort_perm : forall l, Permutation (sort_str l) l.
Proof. induction l as [|x l IH]; [reflexivity|]. cbn. rewrite insert_perm. constructor. exact IH. Qed.
Lemma insert_keeps_sorted : forall x l, sorted_str l -> sorted_str (insert_str x l).
Proof.
  induction l as [|y l IH]; intros H; [constructor|].
  cbn. destruct (str_leb x y) eqn:E; [constructor; assumption|].
  assert (Hyx : str_leb y x = true) by (destruct (str_leb_total x y); congruence).
  pose proof (IH (sorted_tail _ _ H)) as S.
  destruct l as [|z l]; cbn in *.
  - constructor; [assumption|constructor].
  - destruct (str_leb x z) eqn:E2.
    + constructor; assumption.
    + inversion H; subst. constructor; assumption.
Qed.
Lemma sort_is_sorted : forall l, sorted_str (sort_str l).
Proof. induction l as [|x l IH]; [constructor|]. cbn. apply insert_keeps_sorted. exact IH. Qed.

Lemma sorted_head_le : forall x l, sorted_str (x :: l) -> forall y, In y l -> str_leb x y = true.
Proof.
  intros x l. revert x. induction l as [|z l IH]; intros x H y Hy; [contradiction|].
  inversion H; subst. destruct Hy as [->|Hy]; [assumption|].
  eapply str_leb_trans; [eassumption|]. apply IH; assumption.
Qed.
(* a sorted list is determined by its elements: sorted() does not depend on the order of the directory listing *)
Lemma sorted_perm_eq : forall l1 l2, sorted_str l1 -> sorted_str l2 -> Permutation l1 l2 -> l1 = l2.
Proof.
  induction l1 as [|x l1 IH]; intros l2 S1 S2 P.
  - apply Permutation_nil in P. congruence.
  - destruct l2 as [|y l2]; [apply Permutation_sym, Permutation_nil in P; discriminate|].
    assert (x = y).
    { apply str_leb_antisym.
      - assert (In y (x :: l1)) as [->|Hy] by (eapply Permutation_in; [apply Permutation_sym; exact P|left; reflexivity]).
        + apply str_leb_refl.
        + eapply sorted_head_le; eassumption.
      - assert (In x (y :: l2)) as [->|Hx] by (eapply Permutation_in; [exact P|left; reflexivity]).
        + apply str_leb_refl.
        + eapply sorted_head_le; eassumption. }
    subst. f_equal. apply IH; try (eapply sorted_tail; eassumption).
    eapply Permutation_cons_inv. exact P.
Qed.
Lemma sort_perm_invariant : forall l1 l2, Permutation l1 l2 -> sort_str l1 = sort_str l2.
Proof.
  intros l1 l2 P. apply sorted_perm_eq; try apply sort_is_sorted.
  eapply Permutation_trans; [apply sort_perm|]. eapply Permutation_trans; [exact P|]. apply Permutation_sym, sort_perm.
Qed.
Lemma fixed_digits_length : forall w n, length (fixed_digits w n) = w.
Proof. induction w as [|w IH]; intros n; [reflexivity|]. cbn. rewrite app_length, IH. cbn. lia. Qed.

Lemma ndigits_fuel_le : forall f k n, (1 <= k)%nat -> 0 <= n < 10 ^ Z.of_nat k -> (ndigits_fuel f n <= k)%nat.
Proof.
  induction f as [|f IH]; intros k n Hk Hn; [cbn; lia|].
  cbn [ndigits_fuel]. destruct (Z.ltb_spec n 10) as [E|E]; [lia|].
  destruct k as [|k]; [lia|]. destruct k as [|k].
  - change (10 ^ Z.of_nat 1) with 10 in Hn. lia.
  - apply le_n_S. apply IH; [lia|].
    replace (Z.of_nat (S (S k))) with (Z.of_nat (S k) + 1) in Hn by lia.
    rewrite Z.pow_add_r in Hn by lia. change (10 ^ 1) with 10 in Hn. lia.
Qed.

(* below 10^w the zero-padded form has exactly w digits *)
Lemma pad_int_small : forall w n, (1 <= w)%nat -> 0 <= n < 10 ^ Z.of_nat w -> pad_int w n = fixed_digits w n.
Proof.
  intros w n Hw Hn. unfold pad_int. destruct (Z.ltb_spec n 0); [lia|].
  f_equal. unfold ndigits. pose proof (ndigits_fuel_le (Z.to_nat (Z.log2 n)) w n Hw Hn). lia.
Qed.

(* strict lexicographic order witnessed by the first differing position *)
Definition lex_lt (a b : str) : Prop :=
  exists p x y a' b', a = p ++ x :: a' /\ b = p ++ y :: b' /\ (x < y)%N.

Lemma lex_lt_app : forall a b s t, lex_lt a b -> lex_lt (a ++ s) (b ++ t).
Proof.
  intros a b s t (p & x & y & a' & b' & -> & -> & H).
  exists p, x, y, (a' ++ s), (b' ++ t). rewrite <- !app_assoc. cbn. auto.
Qed.
Lemma lex_lt_pre : forall q a b, lex_lt a b -> lex_lt (q ++ a) (q ++ b).
Proof.
  intros q a b (p & x & y & a' & b' & -> & -> & H).
  exists (q ++ p), x, y, a', b'. rewrite !app_assoc. auto.
Qed.
Lemma lex_lt_leb : forall a b, lex_lt a b -> str_leb a b = true.
Proof.
  intros a b (p & x & y & a' & b' & -> & -> & H). rewrite str_leb_app. cbn.
  destruct (N.ltb_spec x y); [reflexivity|lia].
Qed.
Lemma lex_lt_neq : forall a b, lex_lt a b -> a <> b.
Proof.
  intros a b (p & x & y & a' & b' & -> & -> & H) E. apply app_inv_head in E. injection E as E _. lia.
Qed.

Lemma digit_lt : forall d e, 0 <= d < e -> (digit d < digit e)%N.
Proof. intros d e H. unfold digit. lia. Qed.

Lemma fixed_digits_lt : forall w i j, 0 <= i < j -> j < 10 ^ Z.of_nat w -> lex_lt (fixed_digits w i) (fixed_digits w j).
Proof.
  induction w as [|w IH]; intros i j Hij Hj.
  - change (10 ^ Z.of_nat 0) with 1 in Hj. lia.
  - cbn [fixed_digits].
    replace (Z.of_nat (S w)) with (Z.of_nat w + 1) in Hj by lia.
    rewrite Z.pow_add_r in Hj by lia. change (10 ^ 1) with 10 in Hj.
    destruct (Z.eq_dec (i / 10) (j / 10)) as [E|E].
    + rewrite E. exists (fixed_digits w (j / 10)), (digit (i mod 10)), (digit (j mod 10)), [], [].
      repeat split. apply digit_lt. lia.
    + apply lex_lt_app. apply IH; lia.
Qed.

(* part numbers below 100000 sort numerically *)
Lemma pad5_lt : forall i j, 0 <= i < j -> j < 100000 -> lex_lt (pad_int 5 i) (pad_int 5 j).
Proof.
  intros i j Hij Hj. rewrite !pad_int_small by (try lia; change (10 ^ Z.of_nat 5) with 100000; lia).
  apply fixed_digits_lt; [lia|]. change (10 ^ Z.of_nat 5) with 100000. lia.
Qed.
