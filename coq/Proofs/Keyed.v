(* C02: lemmas about the dict / defaultdict model of PV.Model.Keyed -- closed form of the grouping loop,
   first-occurrence key order, regrouping is a permutation -- and the join family, cogroup and subtractByKey
   against the comprehension specs of PV.Model.KeyedSpec.  Generic in the key type; the only assumption is that
   the boolean key equality decides Leibniz equality (section hypothesis, discharged into a premise). *)
From Coq Require Import ZArith List Bool Permutation Lia.
Require Import PV.Model.Keyed PV.Model.KeyedSpec.
Import ListNotations.

Section KeyedProofs.
  Context {K : Type} (keqb : K -> K -> bool).
  Hypothesis keqb_spec : forall a b, keqb a b = true <-> a = b.

  Lemma keqb_refl k : keqb k k = true.
  Proof. apply keqb_spec; reflexivity. Qed.
  Lemma keqb_false a b : keqb a b = false <-> a <> b.
  Proof.
    split; intros H.
    - intros E. apply keqb_spec in E. congruence.
    - destruct (keqb a b) eqn:E; [apply keqb_spec in E; contradiction | reflexivity].
  Qed.
  Lemma keqb_sym a b : keqb a b = keqb b a.
  Proof.
    destruct (keqb a b) eqn:E.
    - apply keqb_spec in E. subst. symmetry. apply keqb_refl.
    - symmetry. apply keqb_false. apply keqb_false in E. congruence.
  Qed.

  Lemma kmem_In k ks : kmem keqb k ks = true <-> In k ks.
  Proof.
    unfold kmem. rewrite existsb_exists. split.
    - intros [x [Hin He]]. apply keqb_spec in He. subst. exact Hin.
    - intros Hin. exists k. split; [exact Hin | apply keqb_refl].
  Qed.
  Lemma kmem_false k ks : kmem keqb k ks = false <-> ~ In k ks.
  Proof.
    rewrite <- kmem_In. destruct (kmem keqb k ks); split; intros H; try congruence; try reflexivity.
  Qed.

  (* ---------- firstkeys *)
  Lemma firstkeys_In ks k : In k (firstkeys keqb ks) <-> In k ks.
  Proof.
    induction ks as [|a ks IH]; simpl; [tauto|].
    rewrite filter_In, IH. split.
    - intros [H | [H _]]; auto.
    - intros [H | H]; auto.
      destruct (keqb a k) eqn:E.
      + left. apply keqb_spec. exact E.
      + right. split; [exact H | reflexivity].
  Qed.
  Lemma firstkeys_NoDup ks : NoDup (firstkeys keqb ks).
  Proof.
    induction ks as [|a ks IH]; simpl; constructor.
    - rewrite filter_In. intros [_ H]. rewrite keqb_refl in H. discriminate.
    - apply NoDup_filter. exact IH.
  Qed.
  Lemma kmem_firstkeys k ks : kmem keqb k (firstkeys keqb ks) = kmem keqb k ks.
  Proof.
    destruct (kmem keqb k ks) eqn:E.
    - apply kmem_In. apply firstkeys_In. apply kmem_In. exact E.
    - apply kmem_false. rewrite firstkeys_In. apply kmem_false. exact E.
  Qed.

  Lemma filter_filter {A} (p q : A -> bool) l : filter p (filter q l) = filter (fun x => q x && p x) l.
  Proof.
    induction l as [|a l IH]; simpl; [reflexivity|].
    destruct (q a); simpl; [destruct (p a); rewrite IH; reflexivity | exact IH].
  Qed.
  Lemma filter_all {A} (p : A -> bool) l : (forall x, In x l -> p x = true) -> filter p l = l.
  Proof.
    induction l as [|a l IH]; simpl; intros H; [reflexivity|].
    rewrite (H a (or_introl eq_refl)). f_equal. apply IH. intros x Hx. apply H. right. exact Hx.
  Qed.

  Lemma firstkeys_snoc l k :
    firstkeys keqb (l ++ [k]) = if kmem keqb k l then firstkeys keqb l else firstkeys keqb l ++ [k].
  Proof.
    induction l as [|a l IH]; simpl; [reflexivity|].
    rewrite IH. destruct (keqb a k) eqn:E; simpl.
    - destruct (kmem keqb k l); [reflexivity|].
      rewrite filter_app. simpl. rewrite E. simpl. rewrite app_nil_r. reflexivity.
    - destruct (kmem keqb k l); [reflexivity|].
      rewrite filter_app. simpl. rewrite E. reflexivity.
  Qed.

  Lemma firstkeys_nodup_id l : NoDup l -> firstkeys keqb l = l.
  Proof.
    induction l as [|a l IH]; intros H; simpl; [reflexivity|].
    inversion H as [|? ? Hn Hd]; subst. rewrite (IH Hd). f_equal.
    apply filter_all. intros x Hx. apply negb_true_iff. apply keqb_false. intros ->. contradiction.
  Qed.

  Lemma firstkeys_app a b :
    firstkeys keqb (a ++ b) = firstkeys keqb a ++ filter (fun k => negb (kmem keqb k a)) (firstkeys keqb b).
  Proof.
    induction a as [|x a IH]; simpl.
    - symmetry. apply filter_all. reflexivity.
    - rewrite IH, filter_app, filter_filter. f_equal. f_equal.
      apply filter_ext. intros k. rewrite (keqb_sym x k).
      destruct (keqb k x); simpl; [apply andb_false_r | apply andb_true_r].
  Qed.

  Lemma firstkeys_app_firstkeys a b :
    firstkeys keqb (firstkeys keqb a ++ firstkeys keqb b) = firstkeys keqb (a ++ b).
  Proof.
    rewrite !firstkeys_app. rewrite !(firstkeys_nodup_id (firstkeys keqb _)) by apply firstkeys_NoDup.
    f_equal. apply filter_ext. intros k. rewrite kmem_firstkeys. reflexivity.
  Qed.

  (* ---------- dict primitives on lists of the form map (fun k => (k, G k)) ks *)
  Lemma dget_map {A} (G : K -> A) k ks :
    dget keqb k (map (fun k' => (k', G k')) ks) = if kmem keqb k ks then Some (G k) else None.
  Proof.
    induction ks as [|a ks IH]; simpl; [reflexivity|].
    destruct (keqb a k) eqn:E; simpl.
    - apply keqb_spec in E. subst. reflexivity.
    - exact IH.
  Qed.

  Lemma upsert_notin {A} k (f : option A -> A) d :
    ~ In k (map fst d) -> upsert keqb k f d = d ++ [(k, f None)].
  Proof.
    induction d as [|[k' a] d IH]; simpl; intros H; [reflexivity|].
    destruct (keqb k' k) eqn:E.
    - apply keqb_spec in E. subst. exfalso. apply H. left. reflexivity.
    - rewrite IH; [reflexivity|]. intros Hin. apply H. right. exact Hin.
  Qed.

  Lemma upsert_map_in {A} (G : K -> A) k f ks :
    NoDup ks -> In k ks ->
    upsert keqb k f (map (fun k' => (k', G k')) ks) =
    map (fun k' => (k', if keqb k' k then f (Some (G k')) else G k')) ks.
  Proof.
    induction ks as [|a ks IH]; simpl; intros Hnd Hin; [contradiction|].
    inversion Hnd as [|? ? Hn Hd]; subst.
    destruct (keqb a k) eqn:E.
    - apply keqb_spec in E. subst. f_equal.
      apply map_ext_in. intros k' Hk'. destruct (keqb k' k) eqn:E'; [|reflexivity].
      apply keqb_spec in E'. subst. contradiction.
    - f_equal. apply IH; [exact Hd|]. destruct Hin as [-> | Hin]; [|exact Hin].
      rewrite keqb_refl in E. discriminate.
  Qed.

  (* ---------- values *)
  Lemma values_app {V} k (a b : list (K * V)) : values keqb k (a ++ b) = values keqb k a ++ values keqb k b.
  Proof. unfold values. rewrite filter_app, map_app. reflexivity. Qed.
  Lemma values_notin {V} k (xs : list (K * V)) : ~ In k (map fst xs) -> values keqb k xs = [].
  Proof.
    induction xs as [|[k' v] xs IH]; simpl; intros H; [reflexivity|].
    unfold values in *. simpl. destruct (keqb k' k) eqn:E.
    - apply keqb_spec in E. subst. exfalso. apply H. left. reflexivity.
    - apply IH. intros Hin. apply H. right. exact Hin.
  Qed.
  Lemma values_in_nonempty {V} k (xs : list (K * V)) : In k (map fst xs) -> values keqb k xs <> [].
  Proof.
    induction xs as [|[k' v] xs IH]; simpl; intros H; [contradiction|].
    unfold values in *. simpl. destruct (keqb k' k) eqn:E; [simpl; discriminate|].
    apply IH. destruct H as [-> | H]; [rewrite keqb_refl in E; discriminate | exact H].
  Qed.
  Lemma values_concat {V} k (ps : list (list (K * V))) :
    values keqb k (concat ps) = flat_map (values keqb k) ps.
  Proof.
    induction ps as [|p ps IH]; simpl; [reflexivity|]. rewrite values_app, IH. reflexivity.
  Qed.

  Lemma values_single {V} k k0 (v0 : V) : values keqb k [(k0, v0)] = if keqb k0 k then [v0] else [].
  Proof. unfold values. simpl. destruct (keqb k0 k); reflexivity. Qed.

  (* ---------- closed form of the defaultdict loop *)
  Theorem build_closed {A V} (step : A -> V -> A) (init : A) (xs : list (K * V)) :
    build keqb step init xs =
    map (fun k => (k, fold_left step (values keqb k xs) init)) (firstkeys keqb (map fst xs)).
  Proof.
    induction xs as [|[k0 v0] xs IH] using rev_ind; [reflexivity|].
    unfold build in *. rewrite fold_left_app. simpl. rewrite IH. clear IH.
    rewrite map_app. simpl. rewrite firstkeys_snoc.
    destruct (kmem keqb k0 (map fst xs)) eqn:M.
    - rewrite upsert_map_in.
      + apply map_ext. intros k. rewrite values_app, fold_left_app, values_single.
        rewrite (keqb_sym k k0). destruct (keqb k0 k); reflexivity.
      + apply firstkeys_NoDup.
      + apply firstkeys_In. apply kmem_In. exact M.
    - apply kmem_false in M. rewrite upsert_notin.
      + rewrite map_app. simpl. f_equal.
        * apply map_ext_in. intros k Hk. rewrite values_app, values_single.
          destruct (keqb k0 k) eqn:E; [|rewrite app_nil_r; reflexivity].
          apply keqb_spec in E. subst. apply (proj1 (firstkeys_In _ _)) in Hk. contradiction.
        * rewrite values_app, (values_notin _ _ M), values_single, keqb_refl. reflexivity.
      + rewrite map_map. simpl. rewrite map_id. rewrite firstkeys_In. exact M.
  Qed.

  Lemma fold_snoc {V} (vs acc : list V) : fold_left (fun l v => l ++ [v]) vs acc = acc ++ vs.
  Proof.
    revert acc. induction vs as [|v vs IH]; intros acc; simpl; [rewrite app_nil_r; reflexivity|].
    rewrite IH, <- app_assoc. reflexivity.
  Qed.

  Theorem group_by_key_closed {V} (xs : list (K * V)) :
    group_by_key keqb xs = map (fun k => (k, values keqb k xs)) (firstkeys keqb (map fst xs)).
  Proof.
    unfold group_by_key. rewrite build_closed. apply map_ext. intros k. rewrite fold_snoc. reflexivity.
  Qed.

  (* ---------- dict(pairs) / collectAsMap on a list with distinct keys *)
  Lemma dict_of_list_acc {A} (d acc : list (K * A)) :
    NoDup (map fst (acc ++ d)) ->
    fold_left (fun d kv => upsert keqb (fst kv) (fun _ => snd kv) d) d acc = acc ++ d.
  Proof.
    revert acc. induction d as [|[k a] d IH]; intros acc H; simpl; [rewrite app_nil_r; reflexivity|].
    rewrite upsert_notin.
    - simpl. rewrite IH; rewrite <- app_assoc; [reflexivity | exact H].
    - rewrite map_app in H. apply NoDup_remove_2 in H. intros Hin. apply H. apply in_or_app. left. exact Hin.
  Qed.
  Lemma dict_of_list_nodup {A} (d : list (K * A)) : NoDup (map fst d) -> dict_of_list keqb d = d.
  Proof. intros H. unfold dict_of_list. rewrite dict_of_list_acc; [reflexivity | exact H]. Qed.

  Lemma map_fst_mapform {A} (G : K -> A) ks : map fst (map (fun k => (k, G k)) ks) = ks.
  Proof. rewrite map_map. simpl. apply map_id. Qed.

  Lemma group_keys {V} (xs : list (K * V)) : map fst (group_by_key keqb xs) = firstkeys keqb (map fst xs).
  Proof. rewrite group_by_key_closed. apply map_fst_mapform. Qed.

  Lemma dict_group {V} (xs : list (K * V)) : dict_of_list keqb (group_by_key keqb xs) = group_by_key keqb xs.
  Proof. apply dict_of_list_nodup. rewrite group_keys. apply firstkeys_NoDup. Qed.

  Lemma dget_group {V} k (xs : list (K * V)) :
    dget keqb k (group_by_key keqb xs) = if kmem keqb k (map fst xs) then Some (values keqb k xs) else None.
  Proof. rewrite group_by_key_closed, dget_map, kmem_firstkeys. reflexivity. Qed.

  Lemma dflt_dget_group {V} k (xs : list (K * V)) : dflt (dget keqb k (group_by_key keqb xs)) = values keqb k xs.
  Proof.
    rewrite dget_group. destruct (kmem keqb k (map fst xs)) eqn:M; simpl; [reflexivity|].
    symmetry. apply values_notin. apply kmem_false. exact M.
  Qed.

  (* ---------- regrouping is a permutation *)
  Lemma flat_map_ext_in' {A B} (f g : A -> list B) l :
    (forall x, In x l -> f x = g x) -> flat_map f l = flat_map g l.
  Proof.
    induction l as [|a l IH]; simpl; intros H; [reflexivity|].
    rewrite (H a (or_introl eq_refl)), IH; [reflexivity|]. intros x Hx. apply H. right. exact Hx.
  Qed.
  Lemma flat_map_flat_map {A B C} (f : A -> list B) (g : B -> list C) l :
    flat_map g (flat_map f l) = flat_map (fun x => flat_map g (f x)) l.
  Proof. induction l as [|a l IH]; simpl; [reflexivity|]. rewrite flat_map_app, IH. reflexivity. Qed.
  Lemma flat_map_map {A B C} (f : A -> B) (g : B -> list C) l : flat_map g (map f l) = flat_map (fun x => g (f x)) l.
  Proof. induction l as [|a l IH]; simpl; [reflexivity|]. rewrite IH. reflexivity. Qed.
  Lemma flat_map_nil {A B} (l : list A) : flat_map (fun _ => @nil B) l = [].
  Proof. induction l; simpl; auto. Qed.

  Lemma regroup_perm {V} (ks : list K) (xs : list (K * V)) :
    NoDup ks -> (forall x, In x xs -> In (fst x) ks) ->
    Permutation (flat_map (fun k => map (fun v => (k, v)) (values keqb k xs)) ks) xs.
  Proof.
    intros Hnd. induction xs as [|[k0 v0] xs IH]; intros Hsub.
    - rewrite (flat_map_ext_in' _ (fun _ => [])); [rewrite flat_map_nil; constructor | reflexivity].
    - assert (Hk0 : In k0 ks) by (apply (Hsub (k0, v0)); left; reflexivity).
      apply in_split in Hk0. destruct Hk0 as [l1 [l2 ->]].
      assert (Hn1 : ~ In k0 l1 /\ ~ In k0 l2).
      { apply NoDup_remove_2 in Hnd. split; intros H; apply Hnd; apply in_or_app; [left | right]; exact H. }
      destruct Hn1 as [Hn1 Hn2].
      assert (Hother : forall l, ~ In k0 l ->
                flat_map (fun k => map (fun v => (k, v)) (values keqb k ((k0, v0) :: xs))) l =
                flat_map (fun k => map (fun v => (k, v)) (values keqb k xs)) l).
      { intros l Hl. apply flat_map_ext_in'. intros k Hk. unfold values. simpl.
        destruct (keqb k0 k) eqn:E; [|reflexivity]. apply keqb_spec in E. subst. contradiction. }
      rewrite flat_map_app. simpl. rewrite (Hother l1 Hn1), (Hother l2 Hn2).
      unfold values at 2. simpl. rewrite keqb_refl. simpl.
      apply Permutation_sym. apply Permutation_cons_app. apply Permutation_sym.
      specialize (IH (fun x Hx => Hsub x (or_intror Hx))).
      rewrite flat_map_app in IH. simpl in IH. exact IH.
  Qed.

  (* the general form: any per-(key, value) expansion g *)
  Lemma regroup_flat_perm {V B} (g : K -> V -> list B) (ks : list K) (xs : list (K * V)) :
    NoDup ks -> (forall x, In x xs -> In (fst x) ks) ->
    Permutation (flat_map (fun k => flat_map (g k) (values keqb k xs)) ks)
                (flat_map (fun x => g (fst x) (snd x)) xs).
  Proof.
    intros Hnd Hsub.
    apply Permutation_trans with
      (flat_map (fun x => g (fst x) (snd x)) (flat_map (fun k => map (fun v => (k, v)) (values keqb k xs)) ks)).
    - rewrite flat_map_flat_map. apply Permutation_refl'. apply flat_map_ext. intros k.
      rewrite flat_map_map. reflexivity.
    - apply Permutation_flat_map. apply regroup_perm; assumption.
  Qed.

  Lemma grouped_flat_perm {V B} (g : K -> V -> list B) (xs : list (K * V)) :
    Permutation (flat_map (fun kv => flat_map (g (fst kv)) (snd kv)) (group_by_key keqb xs))
                (flat_map (fun x => g (fst x) (snd x)) xs).
  Proof.
    rewrite group_by_key_closed, flat_map_map. simpl.
    apply regroup_flat_perm; [apply firstkeys_NoDup|].
    intros x Hx. apply firstkeys_In. apply in_map. exact Hx.
  Qed.

  (* RDD.groupByKey followed by flattening gives back the input as a multiset *)
  Theorem group_by_key_perm {V} (xs : list (K * V)) :
    Permutation (flat_map (fun kv => map (fun v => (fst kv, v)) (snd kv)) (group_by_key keqb xs)) xs.
  Proof.
    rewrite group_by_key_closed, flat_map_map. simpl.
    apply regroup_perm; [apply firstkeys_NoDup|].
    intros x Hx. apply firstkeys_In. apply in_map. exact Hx.
  Qed.
  Section JoinProofs.
    Context {V W : Type}.

    Lemma flat_map_app_perm {A B} (f g : A -> list B) l :
      Permutation (flat_map (fun x => f x ++ g x) l) (flat_map f l ++ flat_map g l).
    Proof.
      induction l as [|a l IH]; simpl; [constructor|].
      rewrite <- !app_assoc. apply Permutation_app_head.
      apply Permutation_trans with (g a ++ flat_map f l ++ flat_map g l).
      - apply Permutation_app_head. exact IH.
      - apply Permutation_app_swap_app.
    Qed.

    Lemma flat_map_swap_perm {A B C} (f : A -> B -> list C) l1 l2 :
      Permutation (flat_map (fun a => flat_map (f a) l2) l1) (flat_map (fun b => flat_map (fun a => f a b) l1) l2).
    Proof.
      induction l1 as [|a l1 IH]; simpl.
      - rewrite flat_map_nil. constructor.
      - apply Permutation_trans with (flat_map (f a) l2 ++ flat_map (fun b => flat_map (fun a' => f a' b) l1) l2).
        + apply Permutation_app_head. exact IH.
        + apply Permutation_sym. apply (flat_map_app_perm (f a) (fun b => flat_map (fun a' => f a' b) l1)).
    Qed.

    (* the matches of one left pair, as a comprehension over the right side *)
    Lemma matches_comprehension {B} (h : W -> B) k (ys : list (K * W)) :
      map h (values keqb k ys) = flat_map (fun y => if keqb (fst y) k then [h (snd y)] else []) ys.
    Proof.
      unfold values. induction ys as [|[k' w] ys IH]; simpl; [reflexivity|].
      destruct (keqb k' k); simpl; rewrite IH; reflexivity.
    Qed.

    Lemma values_nil_iff {X} k (xs : list (K * X)) : values keqb k xs = [] <-> kmem keqb k (map fst xs) = false.
    Proof.
      split; intros H.
      - apply kmem_false. intros Hin. apply values_in_nonempty in Hin. contradiction.
      - apply values_notin. apply kmem_false. exact H.
    Qed.

    (* ---------- join *)
    Theorem join_perm (xs : list (K * V)) (ys : list (K * W)) :
      Permutation (join keqb xs ys) (join_spec keqb xs ys).
    Proof.
      unfold join, join_fn, join_spec. rewrite dict_group.
      eapply Permutation_trans.
      - apply (grouped_flat_perm
                 (fun k v => map (fun w => (k, (v, w))) (dflt (dget keqb k (group_by_key keqb ys))))).
      - apply Permutation_refl'. apply flat_map_ext. intros [k v]. simpl.
        rewrite dflt_dget_group. apply matches_comprehension.
    Qed.

    (* the per-element form of join_spec *)
    Lemma join_spec_values (xs : list (K * V)) (ys : list (K * W)) :
      join_spec keqb xs ys = flat_map (fun x => map (fun w => (fst x, (snd x, w))) (values keqb (fst x) ys)) xs.
    Proof. unfold join_spec. apply flat_map_ext. intros x. symmetry. apply matches_comprehension. Qed.

    Lemma map_flat_map {A B C} (h : B -> C) (f : A -> list B) l : map h (flat_map f l) = flat_map (fun x => map h (f x)) l.
    Proof. induction l as [|a l IH]; simpl; [reflexivity|]. rewrite map_app, IH. reflexivity. Qed.
    Lemma map_filter_flat {A B} (h : A -> B) (p : A -> bool) l :
      map h (filter p l) = flat_map (fun x => if p x then [h x] else []) l.
    Proof. induction l as [|a l IH]; simpl; [reflexivity|]. destruct (p a); simpl; rewrite IH; reflexivity. Qed.

    (* ---------- leftOuterJoin *)
    Theorem left_outer_join_perm (xs : list (K * V)) (ys : list (K * W)) :
      Permutation (left_outer_join keqb xs ys) (left_outer_spec keqb xs ys).
    Proof.
      unfold left_outer_join, loj_fn, left_outer_spec, unmatched. rewrite dict_group.
      eapply Permutation_trans.
      - apply (grouped_flat_perm
                 (fun k v => map (fun w => (k, (v, w)))
                                 (match dget keqb k (group_by_key keqb ys) with Some ws => map Some ws | None => [None] end))).
      - rewrite join_spec_values, map_flat_map, map_filter_flat.
        eapply Permutation_trans; [|apply flat_map_app_perm].
        apply Permutation_refl'. apply flat_map_ext. intros [k v]. simpl.
        rewrite dget_group. destruct (kmem keqb k (map fst ys)) eqn:M; simpl.
        + rewrite app_nil_r, !map_map. reflexivity.
        + apply values_nil_iff in M. rewrite M. reflexivity.
    Qed.

    (* ---------- _leftSemiJoin / _leftAntiJoin *)
    Theorem left_semi_join_eq (xs : list (K * V)) (ys : list (K * W)) :
      Permutation (left_semi_join keqb xs ys) (matched keqb xs ys).
    Proof.
      unfold left_semi_join, semi_fn, matched. rewrite dict_group.
      eapply Permutation_trans.
      - apply (grouped_flat_perm
                 (fun k v => match dget keqb k (group_by_key keqb ys) with Some _ => [(k, v)] | None => [] end)).
      - rewrite <- (map_id (filter _ xs)), map_filter_flat.
        apply Permutation_refl'. apply flat_map_ext. intros [k v]. simpl.
        rewrite dget_group. destruct (kmem keqb k (map fst ys)); reflexivity.
    Qed.
    Theorem left_anti_join_eq (xs : list (K * V)) (ys : list (K * W)) :
      Permutation (left_anti_join keqb xs ys) (unmatched keqb xs ys).
    Proof.
      unfold left_anti_join, anti_fn, unmatched. rewrite dict_group.
      eapply Permutation_trans.
      - apply (grouped_flat_perm
                 (fun k v => match dget keqb k (group_by_key keqb ys) with Some _ => [] | None => [(k, v)] end)).
      - rewrite <- (map_id (filter _ xs)), map_filter_flat.
        apply Permutation_refl'. apply flat_map_ext. intros [k v]. simpl.
        rewrite dget_group. destruct (kmem keqb k (map fst ys)); reflexivity.
    Qed.
  End JoinProofs.

  Section JoinProofs2.
    Context {V W : Type}.

    (* join_spec with the roles of the two sides exchanged *)
    Lemma join_spec_swap (xs : list (K * V)) (ys : list (K * W)) :
      Permutation (join_spec keqb xs ys)
                  (map (fun e => (fst e, (snd (snd e), fst (snd e)))) (join_spec keqb ys xs)).
    Proof.
      unfold join_spec. rewrite map_flat_map.
      eapply Permutation_trans; [apply flat_map_swap_perm|].
      apply Permutation_refl'. apply flat_map_ext. intros [k w]. rewrite map_flat_map.
      apply flat_map_ext. intros [k' v]. simpl. rewrite (keqb_sym k k').
      destruct (keqb k' k) eqn:E; [|reflexivity]. apply keqb_spec in E. subst. reflexivity.
    Qed.

    (* ---------- rightOuterJoin: the left outer join of the exchanged sides, components exchanged *)
    Lemma right_outer_join_as_left (xs : list (K * V)) (ys : list (K * W)) :
      right_outer_join keqb xs ys =
      map (fun e => (fst e, (snd (snd e), fst (snd e)))) (left_outer_join keqb ys xs).
    Proof.
      unfold right_outer_join, left_outer_join, roj_fn, loj_fn.
      rewrite map_flat_map. apply flat_map_ext. intros [k ws]. simpl.
      rewrite map_flat_map. apply flat_map_ext. intros w. rewrite map_map. reflexivity.
    Qed.

    Theorem right_outer_join_perm (xs : list (K * V)) (ys : list (K * W)) :
      Permutation (right_outer_join keqb xs ys) (right_outer_spec keqb xs ys).
    Proof.
      rewrite right_outer_join_as_left.
      eapply Permutation_trans.
      - apply Permutation_map. apply left_outer_join_perm.
      - unfold left_outer_spec, right_outer_spec. rewrite map_app, !map_map. simpl.
        apply Permutation_app.
        + eapply Permutation_trans.
          2:{ apply Permutation_map. apply Permutation_sym. apply join_spec_swap. }
          rewrite map_map. simpl. apply Permutation_refl.
        + apply Permutation_refl.
    Qed.
  End JoinProofs2.

  Section CogroupProofs.
    Context {V W : Type}.

    (* list(set(l)) modelled as first-occurrence deduplication *)
    Lemma set_of_snoc l k :
      set_of keqb (l ++ [k]) = if kmem keqb k (set_of keqb l) then set_of keqb l else set_of keqb l ++ [k].
    Proof. unfold set_of. rewrite fold_left_app. reflexivity. Qed.
    Lemma set_of_firstkeys l : set_of keqb l = firstkeys keqb l.
    Proof.
      induction l as [|k l IH] using rev_ind; [reflexivity|].
      rewrite set_of_snoc, IH, firstkeys_snoc, kmem_firstkeys. reflexivity.
    Qed.

    (* ---------- cogroup: exactly the spec (in the model's key order; Python's set order is unspecified) *)
    Theorem cogroup_closed (xs : list (K * V)) (ys : list (K * W)) :
      cogroup keqb xs ys = cogroup_spec keqb xs ys.
    Proof.
      unfold cogroup, cogroup_spec. rewrite !dict_group, !group_keys.
      rewrite set_of_firstkeys, firstkeys_app_firstkeys.
      apply map_ext. intros k. rewrite !dflt_dget_group. reflexivity.
    Qed.

    Lemma cogroup_keys_NoDup (xs : list (K * V)) (ys : list (K * W)) : NoDup (map fst (cogroup keqb xs ys)).
    Proof.
      rewrite cogroup_closed. unfold cogroup_spec. rewrite map_fst_mapform. apply firstkeys_NoDup.
    Qed.
    Lemma cogroup_keys_In (xs : list (K * V)) (ys : list (K * W)) k :
      In k (map fst (cogroup keqb xs ys)) <-> In k (map fst xs) \/ In k (map fst ys).
    Proof.
      rewrite cogroup_closed. unfold cogroup_spec. rewrite map_fst_mapform, firstkeys_In, in_app_iff.
      reflexivity.
    Qed.

    Let ckeys (xs : list (K * V)) (ys : list (K * W)) := firstkeys keqb (map fst xs ++ map fst ys).
    Lemma ckeys_NoDup xs ys : NoDup (ckeys xs ys).
    Proof. apply firstkeys_NoDup. Qed.
    Lemma ckeys_left xs ys : forall x, In x xs -> In (fst x) (ckeys xs ys).
    Proof. intros x Hx. apply firstkeys_In. apply in_or_app. left. apply in_map. exact Hx. Qed.
    Lemma ckeys_right xs ys : forall y, In y ys -> In (fst y) (ckeys xs ys).
    Proof. intros y Hy. apply firstkeys_In. apply in_or_app. right. apply in_map. exact Hy. Qed.
    Lemma ckeys_either xs ys k : In k (ckeys xs ys) -> values keqb k xs <> [] \/ values keqb k ys <> [].
    Proof.
      intros H. unfold ckeys in H. apply (proj1 (firstkeys_In _ _)) in H. apply in_app_or in H.
      destruct H as [H | H]; [left | right]; apply values_in_nonempty; exact H.
    Qed.

    Lemma or_none_nonempty {X} (l : list X) : l <> [] -> or_none l = map Some l.
    Proof. destruct l; [congruence | reflexivity]. Qed.

    Lemma foj_fn_split (k : K) (vs : list V) (ws : list W) :
      vs <> [] \/ ws <> [] ->
      foj_fn (k, (vs, ws)) =
      flat_map (fun v => map (fun w => (k, (Some v, w))) (or_none ws)) vs
      ++ flat_map (fun w => if nonempty vs then [] else [(k, (@None V, Some w))]) ws.
    Proof.
      intros H. unfold foj_fn. simpl. destruct vs as [|v vs].
      - destruct H as [H | H]; [congruence|]. simpl.
        rewrite (or_none_nonempty _ H), app_nil_r, map_map.
        clear. induction ws as [|w ws IH]; simpl; [reflexivity | rewrite IH; reflexivity].
      - change (nonempty (v :: vs)) with true. cbv beta iota. rewrite flat_map_nil, app_nil_r.
        change (or_none (v :: vs)) with (map Some (v :: vs)). rewrite flat_map_map. reflexivity.
    Qed.

    (* ---------- fullOuterJoin *)
    Theorem full_outer_join_perm (xs : list (K * V)) (ys : list (K * W)) :
      Permutation (full_outer_join keqb xs ys) (full_outer_spec keqb xs ys).
    Proof.
      unfold full_outer_join. rewrite cogroup_closed. unfold cogroup_spec, full_outer_spec.
      rewrite flat_map_map. fold (ckeys xs ys).
      (* per key: the pairs led by a left value, then the right values without a left partner *)
      set (L := fun k => flat_map (fun v : V => map (fun w => (k, (Some v, w))) (or_none (values keqb k ys))) (values keqb k xs)).
      set (R := fun k => flat_map (fun w : W => if nonempty (values keqb k xs) then []
                                               else [(k, (@None V, Some w))]) (values keqb k ys)).
      apply Permutation_trans with (flat_map (fun k => L k ++ R k) (ckeys xs ys)).
      { apply Permutation_refl'. apply flat_map_ext_in'. intros k Hk. unfold L, R.
        apply foj_fn_split. apply ckeys_either. exact Hk. }
    eapply Permutation_trans; [apply flat_map_app_perm|].
      rewrite app_assoc. apply Permutation_app.
      - (* left-led part *)
        eapply Permutation_trans.
        { apply (regroup_flat_perm
                   (fun k v => map (fun w => (k, (Some v, w))) (or_none (values keqb k ys))) (ckeys xs ys) xs).
          apply ckeys_NoDup. apply ckeys_left. }
        rewrite join_spec_values, map_flat_map. unfold unmatched. rewrite map_filter_flat.
        eapply Permutation_trans; [|apply flat_map_app_perm].
        apply Permutation_refl'. apply flat_map_ext. intros [k v]. simpl.
        destruct (kmem keqb k (map fst ys)) eqn:M; simpl.
        + assert (Hne : values keqb k ys <> []).
          { apply values_in_nonempty. apply kmem_In. exact M. }
          rewrite (or_none_nonempty _ Hne), app_nil_r, !map_map. reflexivity.
        + apply values_nil_iff in M. rewrite M. reflexivity.
      - (* right values without a left partner *)
        eapply Permutation_trans.
        { apply (regroup_flat_perm
                   (fun k w => if nonempty (values keqb k xs) then [] else [(k, (@None V, Some w))]) (ckeys xs ys) ys).
          apply ckeys_NoDup. apply ckeys_right. }
        unfold unmatched. rewrite map_filter_flat.
        apply Permutation_refl'. apply flat_map_ext. intros [k w]. simpl.
        destruct (kmem keqb k (map fst xs)) eqn:M; simpl.
        + assert (Hne : values keqb k xs <> []).
          { apply values_in_nonempty. apply kmem_In. exact M. }
          destruct (values keqb k xs); [congruence | reflexivity].
        + apply values_nil_iff in M. rewrite M. reflexivity.
    Qed.

    (* ---------- subtractByKey *)
    Lemma flat_map_filter {A B} (f : A -> list B) (p : A -> bool) l :
      flat_map f (filter p l) = flat_map (fun x => if p x then f x else []) l.
    Proof. induction l as [|a l IH]; simpl; [reflexivity|]. destruct (p a); simpl; rewrite IH; reflexivity. Qed.

    Theorem subtract_by_key_perm (xs : list (K * V)) (ys : list (K * W)) :
      Permutation (subtract_by_key keqb xs ys) (unmatched keqb xs ys).
    Proof.
      unfold subtract_by_key. rewrite cogroup_closed. unfold cogroup_spec.
      rewrite flat_map_filter, flat_map_map. fold (ckeys xs ys).
      apply Permutation_trans with
        (flat_map (fun k => flat_map (fun v => if nonempty (values keqb k ys) then [] else [(k, v)]) (values keqb k xs))
                  (ckeys xs ys)).
      { apply Permutation_refl'. apply flat_map_ext. intros k. unfold subk_keep, subk_fn. simpl.
        destruct (values keqb k ys); simpl.
        - rewrite andb_true_r. destruct (values keqb k xs) as [|v vs]; simpl; [reflexivity|].
          f_equal.
        - rewrite andb_false_r. rewrite flat_map_nil. reflexivity. }
      eapply Permutation_trans.
      { apply (regroup_flat_perm
                 (fun k v => if nonempty (values keqb k ys) then [] else [(k, v)]) (ckeys xs ys) xs).
        apply ckeys_NoDup. apply ckeys_left. }
      unfold unmatched. rewrite <- (map_id (filter _ xs)), map_filter_flat.
      apply Permutation_refl'. apply flat_map_ext. intros [k v]. simpl.
      destruct (kmem keqb k (map fst ys)) eqn:M; simpl.
      - assert (Hne : values keqb k ys <> []).
        { apply values_in_nonempty. apply kmem_In. exact M. }
        destruct (values keqb k ys); [congruence | reflexivity].
      - apply values_nil_iff in M. rewrite M. reflexivity.
    Qed.
  End CogroupProofs.
End KeyedProofs.
