(* C01 -- actions: run_act on partitions equals run_list on the flat content; pipeline theorem. *)
From Coq Require Import String ZArith NArith List Bool Lia.
Require Import PV.Base.Val PV.Base.PyArith PV.Base.Num.
Require Import PV.Model.Rdd PV.Proofs.Rdd PV.Proofs.RddTr PV.Proofs.RddCount.
Import ListNotations.
Open Scope Z_scope.

(* ---------------------------------------------------------------- premises on user operators *)
(* associativity in the error monad: both groupings give the same value or the same exception *)
Definition assoc_m (f : op2) : Prop :=
  forall a b c, (bc <- f b c ;; f a bc) = (ab <- f a b ;; f ab c).

(* every exception the operator raises has the same class (all library operators: TypeError) *)
Definition single_err (f : op2) : Prop := exists e0, forall a b e, f a b = Err e -> e = e0.

(* Spark's contract for aggregate(zero, seqOp, combOp), stated on the images of the sequential fold:
   combining with the zero changes nothing, and combining two partial folds is the fold of the
   concatenation.  fold(zero, op) is the instance seqOp = combOp = op. *)
Definition agg_hom (z : val) (seq comb : op2) : Prop :=
  (forall xs, (s <- foldM seq xs z ;; comb z s) = foldM seq xs z) /\
  (forall xs ys, (a <- foldM seq xs z ;; b <- foldM seq ys z ;; comb a b) = foldM seq (xs ++ ys) z).

(* ---------------------------------------------------------------- count, sum, first *)
Lemma count_flat ps acc :
  job_fold (fun p => Ok (len p)) (fun s c => Ok (s + c)) ps acc = Ok (acc + len (concat ps)).
Proof.
  revert acc; induction ps as [|p ps IH]; intros acc; simpl.
  - unfold len; simpl. f_equal; lia.
  - rewrite IH, len_app. f_equal; lia.
Qed.

Definition sum_step (a : Z) (v : val) : res Z := z <- int_of v ;; Ok (a + z).

Lemma sum_shift xs : forall a b, foldM sum_step xs (a + b) = rmap (Z.add a) (foldM sum_step xs b).
Proof.
  induction xs as [|v xs IH]; intros a b; simpl; auto.
  unfold sum_step at 1 3. destruct (int_of v); simpl; auto.
  rewrite <- IH. f_equal. lia.
Qed.

Lemma sum_shift0 xs a : foldM sum_step xs a = rmap (Z.add a) (foldM sum_step xs 0).
Proof. rewrite <- sum_shift. f_equal. lia. Qed.

Lemma sum_flat ps : forall acc,
  job_fold sum_ints (fun s c => Ok (s + c)) ps acc = foldM sum_step (concat ps) acc.
Proof.
  induction ps as [|p ps IH]; intros acc; simpl; auto.
  rewrite foldM_app. rewrite (sum_shift0 p acc).
  unfold sum_ints. fold sum_step.
  destruct (foldM sum_step p 0); simpl; auto.
Qed.

Lemma first_flat ps : chain_first ps = match concat ps with x :: _ => Ok x | [] => Err "StopIteration" end.
Proof.
  induction ps as [|p ps IH]; simpl; auto. destruct p; simpl; auto.
Qed.

(* ---------------------------------------------------------------- reduce *)
(* f a (x + l1 + ... + lk) = (a + x) + l1 + ... + lk *)
Lemma assoc_fold (f : op2) : assoc_m f -> forall l x a,
  (y <- foldM f l x ;; f a y) = (a1 <- f a x ;; foldM f l a1).
Proof.
  intros Ha. induction l as [|z l IH]; intros x a; simpl.
  - destruct (f a x); reflexivity.
  - rewrite bind_assoc.
    transitivity (x1 <- f x z ;; a1 <- f a x1 ;; foldM f l a1).
    { apply bind_ext. intros x1. apply IH. }
    transitivity (a1 <- (x1 <- f x z ;; f a x1) ;; foldM f l a1).
    { rewrite bind_assoc. reflexivity. }
    rewrite (Ha a x z). rewrite bind_assoc. reflexivity.
Qed.

Lemma foldM_err (f : op2) e0 : (forall a b e, f a b = Err e -> e = e0) ->
  forall l a e, foldM f l a = Err e -> e = e0.
Proof.
  intros H. induction l as [|x l IH]; intros a e E; simpl in E; [discriminate|].
  destruct (f a x) eqn:Ef; simpl in E; eauto.
  inversion E; subst. eauto.
Qed.

Lemma tasks_err (f : op2) e0 : (forall a b e, f a b = Err e -> e = e0) ->
  forall ps e, mapM (reduce_partition f) ps = Err e -> e = e0.
Proof.
  intros H. induction ps as [|p ps IH]; intros e E; simpl in E; [discriminate|].
  destruct (reduce_partition f p) eqn:Et; simpl in E.
  - destruct (mapM (reduce_partition f) ps) eqn:Em; simpl in E; [discriminate|]. inversion E; subst. eauto.
  - inversion E; subst. destruct p as [|x p]; simpl in Et; [discriminate|].
    destruct (foldM f p x) eqn:Ef; simpl in Et; [discriminate|]. inversion Et; subst.
    eapply foldM_err; eauto.
Qed.

(* all tasks first, then the fold of the partial results = the fold of the flat list *)
Lemma reduce_tasks_fold (f : op2) e0 : assoc_m f -> (forall a b e, f a b = Err e -> e = e0) ->
  forall ps r, (ts <- mapM (reduce_partition f) ps ;; foldM f (concat ts) r) = foldM f (concat ps) r.
Proof.
  intros Ha He. induction ps as [|p ps IH]; intros r; [reflexivity|].
  destruct p as [|x p].
  - simpl. rewrite <- IH. destruct (mapM (reduce_partition f) ps); reflexivity.
  - assert (R : foldM f (concat ((x :: p) :: ps)) r =
                (r' <- (y <- foldM f p x ;; f r y) ;; foldM f (concat ps) r')).
    { rewrite (assoc_fold f Ha p x r). simpl. rewrite bind_assoc. apply bind_ext. intros a1. apply foldM_app. }
    rewrite R. clear R. simpl mapM. simpl reduce_partition.
    destruct (foldM f p x) as [y|e] eqn:Ey; simpl; [|reflexivity].
    destruct (mapM (reduce_partition f) ps) as [ts|e] eqn:Em; simpl.
    + destruct (f r y) as [r'|e] eqn:Er; simpl; [|reflexivity].
      exact (IH r').
    + apply (tasks_err f e0 He) in Em as Ee. subst e.
      destruct (f r y) as [r'|e] eqn:Er; simpl.
      * rewrite <- IH. reflexivity.
      * apply He in Er. subst e. reflexivity.
Qed.

Theorem reduce_flat f ps : assoc_m f -> single_err f ->
  run_act (AReduce f) ps = run_list (AReduce f) (concat ps).
Proof.
  intros Ha [e0 He]. simpl.
  induction ps as [|p ps IH]; [reflexivity|].
  destruct p as [|x p].
  - simpl. simpl in IH. rewrite <- IH. destruct (mapM (reduce_partition f) ps); reflexivity.
  - simpl mapM. simpl reduce_partition.
    change (concat ((x :: p) :: ps)) with (x :: (p ++ concat ps)). cbv iota. rewrite foldM_app.
    destruct (foldM f p x) as [y|e]; simpl; [|reflexivity].
    rewrite <- (reduce_tasks_fold f e0 Ha He ps y).
    destruct (mapM (reduce_partition f) ps); reflexivity.
Qed.

Theorem reduce_empty f ps : concat ps = [] -> run_act (AReduce f) ps = Err "ValueError".
Proof.
  intros H. simpl.
  assert (E : exists ts, mapM (reduce_partition f) ps = Ok ts /\ concat ts = []).
  { induction ps as [|p ps IH]; simpl; [exists []; auto|].
    simpl in H. apply app_eq_nil in H. destruct H as [-> H]. destruct (IH H) as [ts [E1 E2]].
    simpl. rewrite E1. simpl. exists ([] :: ts). auto. }
  destruct E as [ts [E1 E2]]. rewrite E1. simpl. rewrite E2. reflexivity.
Qed.

(* ---------------------------------------------------------------- fold / aggregate *)
Lemma agg_parts z seq comb : agg_hom z seq comb -> forall ps pre,
  (a <- foldM seq pre z ;; job_fold (fun p => foldM seq p z) comb ps a) = foldM seq (pre ++ concat ps) z.
Proof.
  intros [H1 H2]. induction ps as [|p ps IH]; intros pre.
  - simpl. rewrite app_nil_r. apply bind_ok_r.
  - simpl job_fold. simpl concat. rewrite app_assoc, <- IH, <- H2.
    rewrite !bind_assoc. apply bind_ext. intros a. rewrite bind_assoc. reflexivity.
Qed.

Theorem aggregate_flat z seq comb ps : agg_hom z seq comb ->
  run_act (AAggregate z seq comb) ps = run_list (AAggregate z seq comb) (concat ps).
Proof.
  intros H. simpl. destruct ps as [|p ps]; simpl; auto.
  pose proof (agg_parts z seq comb H ps p) as E. rewrite <- E.
  destruct H as [H1 _]. rewrite <- (H1 p) at 2. rewrite !bind_assoc. reflexivity.
Qed.

Theorem fold_flat z op ps : agg_hom z op op ->
  run_act (AFold z op) ps = run_list (AFold z op) (concat ps).
Proof. intros H. exact (aggregate_flat z op op ps H). Qed.

(* ---------------------------------------------------------------- take / top / takeOrdered *)
Lemma take_flat n ps : 0 <= n -> run_act (ATake n) ps = run_list (ATake n) (concat ps).
Proof.
  intros Hn. simpl. unfold islice_chain, py_slice_to.
  destruct (n <? 0) eqn:E; [apply Z.ltb_lt in E; lia|]. reflexivity.
Qed.

Lemma sorted_take_flat k asc n ps : 0 <= n ->
  (q <- apply_tr (TSortBy k asc None) ps ;; islice_chain n q) =
  (s <- py_sorted k asc (concat ps) ;; Ok (VList (py_slice_to n s))).
Proof.
  intros Hn. unfold apply_tr. simpl. rewrite bind_assoc. apply bind_ext. intros s. simpl.
  unfold islice_chain, py_slice_to.
  destruct (n <? 0) eqn:E; [apply Z.ltb_lt in E; lia|]. rewrite parallelize_flat. reflexivity.
Qed.

(* ---------------------------------------------------------------- lookup *)
Lemma lookup_flat key ps : run_act (ALookup key) ps = run_list (ALookup key) (concat ps).
Proof.
  simpl.
  pose proof (parts_flat (lookup_fn key) ps) as E1.
  destruct (mapM (flat_mapM (lookup_fn key)) ps) as [q|e]; simpl in E1; rewrite <- E1; simpl; auto.
Qed.

(* ---------------------------------------------------------------- min / max *)
Definition ext_wf (s : ext_state) : Prop := 0 <= fst s /\ (fst s = 0 <-> snd s = None).

Lemma ext_step_wf b s z : ext_wf s -> ext_wf (ext_step b s z).
Proof.
  intros [H1 H2]. unfold ext_step, ext_wf; simpl. clear H2.
  split; [lia|]. split; [intros; exfalso; lia|discriminate].
Qed.

Lemma ext_fold_wf b l : forall s, ext_wf s -> ext_wf (fold_left (ext_step b) l s).
Proof. induction l; simpl; auto using ext_step_wf. Qed.

Lemma ext_pick_max x y : ext_pick true x y = Z.max x y.
Proof. unfold ext_pick. destruct (Z.ltb_spec x y); lia. Qed.
Lemma ext_pick_min x y : ext_pick false x y = Z.min x y.
Proof. unfold ext_pick. destruct (Z.ltb_spec y x); lia. Qed.

Lemma ext_pick_assoc b x y z : ext_pick b (ext_pick b x y) z = ext_pick b x (ext_pick b y z).
Proof. destruct b; rewrite ?ext_pick_max, ?ext_pick_min; lia. Qed.

Lemma ext_comb_step b acc s x : ext_wf acc -> ext_wf s ->
  ext_comb b acc (ext_step b s x) = ext_step b (ext_comb b acc s) x.
Proof.
  intros [A1 A2] [S1 S2]. destruct acc as [na oa], s as [ns os]; simpl in *.
  unfold ext_comb, ext_step; simpl.
  destruct (na =? 0) eqn:Ea; [reflexivity|]. apply Z.eqb_neq in Ea.
  destruct oa as [a|]; [|exfalso; apply Ea, A2; reflexivity].
  destruct (ns + 1 =? 0) eqn:E1; [apply Z.eqb_eq in E1; lia|]. simpl.
  destruct (ns =? 0) eqn:E2; simpl.
  - apply Z.eqb_eq in E2. destruct os as [m|]; [destruct S2 as [S2 _]; specialize (S2 E2); discriminate|].
    subst. f_equal.
  - apply Z.eqb_neq in E2. destruct os as [m|]; [|exfalso; apply E2, S2; reflexivity].
    f_equal; [lia|]. rewrite ext_pick_assoc. reflexivity.
Qed.

Lemma ext_comb_fold b l : forall acc, ext_wf acc ->
  ext_comb b acc (fold_left (ext_step b) l (0, None)) = fold_left (ext_step b) l acc.
Proof.
  induction l as [|x l IH] using rev_ind; intros acc Hacc.
  - simpl. unfold ext_comb; simpl. destruct (fst acc =? 0) eqn:E; auto.
    destruct Hacc as [_ H]. apply Z.eqb_eq in E. destruct acc as [n o]; simpl in *.
    subst. destruct H as [H _]. rewrite H; reflexivity.
  - rewrite !fold_left_app. simpl.
    rewrite ext_comb_step; auto.
    + rewrite IH; auto.
    + apply ext_fold_wf. split; simpl; [lia|]. split; auto.
Qed.

Lemma ext_parts_flat b zs : ext_parts b zs = fold_left (ext_step b) (concat zs) (0, None).
Proof.
  unfold ext_parts.
  assert (H : forall acc, ext_wf acc ->
    fold_left (fun acc p => ext_comb b acc (fold_left (ext_step b) p (0, None))) zs acc =
    fold_left (ext_step b) (concat zs) acc).
  { induction zs as [|p zs IH]; intros acc Hacc; simpl; auto.
    rewrite fold_left_app. rewrite ext_comb_fold by assumption.
    apply IH. apply ext_fold_wf; assumption. }
  apply H. split; simpl; [lia|]. split; auto.
Qed.

Lemma ext_fold_some b l : forall n z,
  snd (fold_left (ext_step b) l (n, Some z)) = Some (fold_left (ext_pick b) l z).
Proof.
  induction l as [|x l IH]; intros n z; [reflexivity|].
  simpl fold_left. change (ext_step b (n, Some z) x) with (n + 1, Some (ext_pick b z x)). apply IH.
Qed.

Lemma fold_left_ext {A B} (f g : A -> B -> A) l : (forall a b, f a b = g a b) ->
  forall a, fold_left f l a = fold_left g l a.
Proof. intros H. induction l; simpl; intros; auto. rewrite H. auto. Qed.

Lemma minmax_flat (b : bool) ps : concat ps <> [] ->
  run_act (if b then AMax else AMin) ps = run_list (if b then AMax else AMin) (concat ps).
Proof.
  intros Hne.
  assert (E : (zs <- mapM ints_of ps ;; Ok (ext_result b (ext_parts b zs))) =
              (zs <- ints_of (concat ps) ;;
               match zs with
               | z :: zs' => Ok (VInt (fold_left (ext_pick b) zs' z))
               | [] => Err "ValueError" end)).
  { unfold ints_of. rewrite <- mapM_concat.
    destruct (mapM (mapM int_of) ps) as [zs|e] eqn:E; simpl; auto.
    rewrite ext_parts_flat.
    assert (Hz : concat zs <> []).
    { pose proof (mapM_concat int_of ps) as H. rewrite E in H. simpl in H. symmetry in H.
      apply mapM_length in H. destruct (concat zs); [|discriminate].
      destruct (concat ps); [contradiction|discriminate]. }
    destruct (concat zs) as [|z l]; [contradiction|]. cbn [fold_left].
    change (ext_step b (0, None) z) with (0 + 1, Some z).
    unfold ext_result. rewrite ext_fold_some. reflexivity. }
  destruct b; simpl; simpl in E; rewrite E; apply bind_ext; intros zs; destruct zs; auto;
    do 2 f_equal; apply fold_left_ext; auto using ext_pick_max, ext_pick_min.
Qed.

(* ---------------------------------------------------------------- all actions *)
(* premises, only where needed; xs is the plain-list data the action is applied to *)
Definition act_ok (a : act) (xs : list val) : Prop :=
  match a with
  | AReduce f => assoc_m f /\ single_err f
  | AFold z op => agg_hom z op op
  | AAggregate z seq comb => agg_hom z seq comb
  | ATake n | ATop n _ | ATakeOrdered n _ => 0 <= n
  | AMin | AMax => xs <> []
  | AMean => False              (* floating point: see mean_real *)
  | ACountByValue => Forall Simple xs     (* float-free values: == is decided by val_eqb *)
  | _ => True
  end.

Theorem act_flat a ps : act_ok a (concat ps) -> run_act a ps = run_list a (concat ps).
Proof.
  intros H. destruct a; simpl in H; try contradiction.
  - reflexivity.
  - simpl. rewrite count_flat. reflexivity.
  - apply first_flat.
  - apply take_flat; assumption.
  - simpl. rewrite sum_flat. reflexivity.
  - destruct H; apply reduce_flat; assumption.
  - apply fold_flat; assumption.
  - apply aggregate_flat; assumption.
  - apply countByValue_flat; assumption.
  - simpl. apply sorted_take_flat; assumption.
  - simpl. apply sorted_take_flat; assumption.
  - apply lookup_flat.
  - reflexivity.
  - reflexivity.
  - apply (minmax_flat false); assumption.
  - apply (minmax_flat true); assumption.
Qed.

(* ---------------------------------------------------------------- pipelines *)
Theorem pipeline_flat ts a xs n :
  Forall tr_ok ts -> (forall ys, apply_lists ts xs = Ok ys -> act_ok a ys) ->
  pipeline_rdd ts a xs n = pipeline_list ts a xs.
Proof.
  intros Hts Ha. unfold pipeline_rdd, pipeline_list.
  pose proof (trs_flat ts Hts (parallelize xs n) (parallelize_nonempty xs n)) as E.
  rewrite parallelize_flat in E.
  destruct (apply_trs ts (parallelize xs n)) as [qs|e]; simpl in E; rewrite <- E; simpl; auto.
  apply act_flat. apply Ha. symmetry; exact E.
Qed.

Corollary slices_irrelevant ts a xs n m :
  Forall tr_ok ts -> (forall ys, apply_lists ts xs = Ok ys -> act_ok a ys) ->
  pipeline_rdd ts a xs n = pipeline_rdd ts a xs m.
Proof. intros Hts Ha. rewrite !(pipeline_flat ts a xs) by assumption. reflexivity. Qed.
