(* createDataFrame(rows, [names]): the given names replace the rows' own names position by position; the values
   stay where they are. *)
From Coq Require Import ZArith NArith List Bool String Ascii Lia PeanoNat.
Require Import PV.Gen.TypeTables PV.Model.Types PV.Proofs.TypesJson PV.Proofs.TypesRows PV.Proofs.TypesInfer.
Import ListNotations.
Open Scope list_scope.
Open Scope Z_scope.

Definition relabel (cols : list str) (r : pyval) : pyval :=
  match r with PRow _ vals => PRow cols vals | _ => r end.

Lemma rename_fields_spec : forall given fs, (List.length given <= List.length fs)%nat ->
  exists fs', rename_fields fs given = Ok fs' /\
              map sf_name fs' = given ++ skipn (List.length given) (map sf_name fs) /\
              map sf_ty fs' = map sf_ty fs.
Proof.
  induction given as [|n given IH]; intros fs Hlen.
  - exists fs. destruct fs; repeat split; reflexivity.
  - destruct fs as [|[n0 ty nl m] fs]; [simpl in Hlen; lia|]. simpl in Hlen.
    destruct (IH fs ltac:(lia)) as (fs' & E & Hn & Ht). exists (SField n ty nl m :: fs').
    simpl. rewrite E. simpl. repeat split; [now rewrite Hn|now rewrite Ht].
Qed.

Lemma fields_ivalue_types : forall fs fs' vals, map sf_ty fs' = map sf_ty fs ->
  fields_ivalue fs vals -> fields_ivalue fs' vals.
Proof.
  induction fs as [|[n ty nl m] fs IH]; intros [|[n' ty' nl' m'] fs'] vals Ht H; simpl in Ht; try discriminate.
  - exact H.
  - destruct vals as [|x vals]; simpl in H; [contradiction|]. injection Ht as -> Ht. destruct H as [Hx H].
    simpl. split; [exact Hx|]. now apply (IH fs').
Qed.

Section Named.
  Variable local : Z.

  Definition to_internal_some : list (sfield dtype) -> list pyval -> res (list pyval) :=
    fix go (fs : list (sfield dtype)) (vals : list pyval) : res (list pyval) :=
      match fs, vals with
      | SField _ ty _ _ :: r, x :: vals' =>
          bind (if need_conversion ty then to_internal local ty x else Ok x)
               (fun y => bind (go r vals') (fun ys => Ok (y :: ys)))
      | _, _ => Ok []
      end.

  Lemma to_internal_struct_tuple fs vals :
    to_internal local (TStruct fs) (PTuple vals) =
      if existsb (fun f => need_conversion (sf_ty f)) fs
      then bind (to_internal_some fs vals) (fun vals' => Ok (PTuple vals'))
      else Ok (PTuple vals).
  Proof. reflexivity. Qed.

  Lemma fields_tz_id : forall fs vals, existsb (fun f => need_conversion (sf_ty f)) fs = false ->
    fields_ivalue fs vals -> map (tz_local local) vals = vals.
  Proof.
    induction fs as [|[n ty nl m] fs IH]; intros [|y vals] En Hv; simpl in Hv; try contradiction; [reflexivity|].
    destruct Hv as (Hy & Hv). simpl in En. apply orb_false_iff in En. destruct En as [En1 En2].
    simpl. rewrite (tz_local_id local ty y Hy En1). f_equal. now apply (IH vals).
  Qed.

  (* a tuple holding the values of a row is converted position by position *)
  Lemma to_internal_tuple : forall fs vals, fields_ivalue fs vals ->
    to_internal local (TStruct fs) (PTuple vals) = Ok (PTuple (map (tz_local local) vals)).
  Proof.
    intros fs vals Hv. rewrite to_internal_struct_tuple.
    destruct (existsb (fun f => need_conversion (sf_ty f)) fs) eqn:En.
    - assert (E : to_internal_some fs vals = Ok (map (tz_local local) vals)).
      { clear En. revert vals Hv. induction fs as [|[n ty nl m] fs IH]; intros [|y vals] Hv; simpl in Hv;
          try contradiction; [reflexivity|].
        destruct Hv as (Hy & Hv). simpl.
        destruct (need_conversion ty) eqn:Et.
        - rewrite (to_internal_ivalue local ty y Hy). simpl. rewrite (IH vals Hv). reflexivity.
        - simpl. rewrite (IH vals Hv). simpl. now rewrite (tz_local_id local ty y Hy Et). }
      rewrite E. reflexivity.
    - now rewrite (fields_tz_id fs vals En Hv).
  Qed.

  Lemma name_rows_rows fs given rows : Forall (is_row_of (TStruct fs)) rows ->
    map (name_row given) rows = rows /\ final_names given rows = given.
  Proof.
    unfold final_names. revert given. induction rows as [|r rows IH]; intros given H; [split; reflexivity|].
    inversion H as [|? ? Hr H']; subst. destruct (row_shape fs r Hr) as (vals & ->).
    destruct (IH given H') as [E1 E2]. simpl. rewrite E1. split; [reflexivity|exact E2].
  Qed.

  (* for every inferable tree, every list of rows of it (nulls anywhere) whose schema can be inferred and every list
     of at most as many names: the struct keeps its types, takes the given names position by position, and every
     row comes back with its values in their original positions *)
  Theorem create_named_id fs rows given s :
    inferable (TStruct fs) -> Forall (is_row_of (TStruct fs)) rows ->
    (List.length given <= List.length fs)%nat ->
    infer_schema_from_list rows = Ok s ->
    exists fs', map sf_name fs' = given ++ skipn (List.length given) (map sf_name fs) /\
                map sf_ty fs' = map sf_ty fs /\
                create_named local given rows
                  = Ok (TStruct fs', map (fun r => relabel (map sf_name fs') (tz_local local r)) rows).
  Proof.
    intros Hinf Hrows Hlen Hs.
    destruct (infer_verifies fs rows s Hinf Hrows Hs) as [-> _].
    destruct (rename_fields_spec given fs Hlen) as (fs' & Er & Hn & Ht).
    exists fs'. split; [exact Hn|]. split; [exact Ht|].
    unfold create_named, create_named_with.
    destruct (name_rows_rows fs given rows Hrows) as [E1 E2]. rewrite E1, E2, Hs. cbn [bind]. rewrite Er. cbn [bind].
    assert (E : mapM (fun r => bind (convert (TStruct fs) r) (fun r1 =>
                        bind (values_in_order (map sf_name fs) r1) (to_internal local (TStruct fs')))) rows
                = Ok (map (fun r => match tz_local local r with PRow _ vals => PTuple vals | x => x end) rows)).
    { apply mapM_id. rewrite Forall_forall in *. intros r Hr. pose proof (Hrows r Hr) as Hrow.
      destruct (row_shape fs r Hrow) as (vals & ->). destruct Hrow as [_ Hv].
      rewrite (convert_ivalue _ _ Hv). cbn [bind values_in_order]. rewrite strs_eqb_refl. cbn [negb andb bind].
      destruct Hv as [Hv|(vals0 & E0 & Hv)]; [discriminate Hv|]. injection E0 as <-. fold fields_ivalue in Hv.
      rewrite (to_internal_tuple fs' vals (fields_ivalue_types fs fs' vals Ht Hv)). reflexivity. }
    rewrite E. cbn [bind].
    rewrite (mapM_id _ (fun r => match r with PTuple vals => PRow (map sf_name fs') vals | x => x end)).
    - cbn [bind]. rewrite map_map. do 2 f_equal. apply map_ext_in. intros r Hr.
      rewrite Forall_forall in Hrows. destruct (row_shape fs r (Hrows r Hr)) as (vals & ->). reflexivity.
    - rewrite Forall_forall. intros r' Hr'. apply in_map_iff in Hr'. destruct Hr' as (r & <- & Hr).
      rewrite Forall_forall in Hrows. destruct (row_shape fs r (Hrows r Hr)) as (vals & ->). reflexivity.
  Qed.
End Named.
