(* C16 -- lemmas about the sampling model (PV.Model.Sample): everything except the float
   arithmetic of randomSplit's boundaries (PV.Proofs.SampleSplit). *)
From Coq Require Import ZArith NArith Bool String List Lia Permutation.
From Coq Require Import SpecFloat.
Require Import PV.Base.Num PV.Base.NumSF PV.Base.PyArith PV.Gen.Sampling PV.Gen.Parallelize PV.Model.Sample.
Import ListNotations.
Open Scope Z_scope.

(* ------------------------------------------------------------------ link lemmas (regenerated kernels) *)
Lemma bern_mult_link r p : bern_mult (N:=SFOps) r p = if SFltb r p then 1 else 0.
Proof. reflexivity. Qed.
Lemma bernkey_mult_link r p : bernkey_mult (N:=SFOps) r p = if SFltb r p then 1 else 0.
Proof. reflexivity. Qed.
Lemma bernkey_default_link : bernkey_default (N:=SFOps) = sf_zero.
Proof. reflexivity. Qed.
Lemma poiskey_default_link : poiskey_default (N:=SFOps) = sf_zero.
Proof. reflexivity. Qed.
Lemma poisson_guard_link lam : poisson_guard (N:=SFOps) lam = SFeqb lam sf_zero.
Proof. reflexivity. Qed.
Lemma poisson_guard_result_link : Z.to_nat poisson_guard_result = 0%nat.
Proof. reflexivity. Qed.
Lemma task_seed_link s i : task_seed s i = s + i.
Proof. reflexivity. Qed.

(* ------------------------------------------------------------------ subsequences *)
Inductive Subseq {A : Type} : list A -> list A -> Prop :=
| sub_nil : Subseq [] []
| sub_skip x l1 l2 : Subseq l1 l2 -> Subseq l1 (x :: l2)
| sub_keep x l1 l2 : Subseq l1 l2 -> Subseq (x :: l1) (x :: l2).

(* l1 is a sub-multiset of l2 *)
Definition SubMultiset {A : Type} (l1 l2 : list A) : Prop := exists rest, Permutation (l1 ++ rest) l2.

Section Lists.
Context {A : Type}.

Lemma Subseq_refl (l : list A) : Subseq l l.
Proof. induction l; constructor; assumption. Qed.

Lemma Subseq_nil_l (l : list A) : Subseq [] l.
Proof. induction l; constructor; assumption. Qed.

Lemma Subseq_app (a b c d : list A) : Subseq a b -> Subseq c d -> Subseq (a ++ c) (b ++ d).
Proof. intros Hab Hcd. induction Hab; simpl; [exact Hcd | apply sub_skip; assumption | apply sub_keep; assumption]. Qed.

Lemma Subseq_In (l1 l2 : list A) : Subseq l1 l2 -> forall x, In x l1 -> In x l2.
Proof. induction 1; simpl; intuition. Qed.

Lemma Subseq_length (l1 l2 : list A) : Subseq l1 l2 -> (List.length l1 <= List.length l2)%nat.
Proof. induction 1; simpl; lia. Qed.

Lemma Subseq_submultiset (l1 l2 : list A) : Subseq l1 l2 -> SubMultiset l1 l2.
Proof.
  induction 1 as [|x l1 l2 _ [rest IH]|x l1 l2 _ [rest IH]].
  - exists []. constructor.
  - exists (x :: rest). eapply Permutation_trans; [apply Permutation_sym, Permutation_middle|].
    constructor; assumption.
  - exists rest. simpl. constructor; assumption.
Qed.

Lemma Subseq_full_length (l1 l2 : list A) : Subseq l1 l2 -> List.length l1 = List.length l2 -> l1 = l2.
Proof.
  induction 1 as [|x l1 l2 H IH|x l1 l2 H IH]; simpl; intros Hl; auto.
  - apply Subseq_length in H. lia.
  - f_equal. apply IH. lia.
Qed.

Lemma Subseq_concat (ls1 ls2 : list (list A)) : Forall2 Subseq ls1 ls2 -> Subseq (concat ls1) (concat ls2).
Proof. induction 1; simpl; [constructor | apply Subseq_app; assumption]. Qed.

Lemma Subseq_filter (f : A -> bool) (l : list A) : Subseq (filter f l) l.
Proof. induction l as [|x l IH]; simpl; [constructor|]. destruct (f x); constructor; assumption. Qed.

Lemma Subseq_map {B : Type} (f : A -> B) (l1 l2 : list A) : Subseq l1 l2 -> Subseq (map f l1) (map f l2).
Proof. induction 1; simpl; constructor; assumption. Qed.

(* takeZ / dropZ *)
Lemma takeZ_dropZ (n : Z) (l : list A) : takeZ n l ++ dropZ n l = l.
Proof.
  revert n; induction l as [|x l IH]; intros n; simpl; auto.
  destruct (n <=? 0); simpl; auto. f_equal. apply IH.
Qed.

Lemma lenZ_takeZ (n : Z) (l : list A) : lenZ (takeZ n l) = Z.max 0 (Z.min n (lenZ l)).
Proof.
  unfold lenZ. revert n; induction l as [|x l IH]; intros n; cbn [takeZ List.length].
  - change (Z.of_nat 0) with 0. lia.
  - destruct (n <=? 0) eqn:E; cbn [List.length].
    + apply Z.leb_le in E. change (Z.of_nat 0) with 0. lia.
    + apply Z.leb_gt in E. rewrite !Nat2Z.inj_succ, IH. lia.
Qed.

Lemma lenZ_nonneg (l : list A) : 0 <= lenZ l.
Proof. unfold lenZ. lia. Qed.

Lemma takeZ_Subseq (n : Z) (l : list A) : Subseq (takeZ n l) l.
Proof.
  revert n; induction l as [|x l IH]; intros n; simpl; [constructor|].
  destruct (n <=? 0); [apply Subseq_nil_l | constructor; apply IH].
Qed.

Lemma takeZ_firstn (n : Z) (l : list A) : takeZ n l = firstn (Z.to_nat n) l.
Proof.
  revert n; induction l as [|x l IH]; intros n; simpl.
  - now rewrite firstn_nil.
  - destruct (n <=? 0) eqn:E.
    + apply Z.leb_le in E. replace (Z.to_nat n) with 0%nat by lia. reflexivity.
    + apply Z.leb_gt in E. replace (Z.to_nat n) with (S (Z.to_nat (n - 1))) by lia.
      simpl. f_equal. apply IH.
Qed.

(* swap is a permutation *)
Lemma upd_length (xs : list A) i v : length (upd A xs i v) = List.length xs.
Proof. revert i; induction xs; intros [|i]; simpl; auto. Qed.

Lemma upd_perm_aux (t : list A) j a b :
  nth_error t j = Some b -> Permutation (b :: upd A t j a) (a :: t).
Proof.
  revert j; induction t as [|x t IH]; intros [|j]; simpl; try discriminate.
  - intros [= ->]. apply perm_swap.
  - intros H. eapply Permutation_trans; [apply perm_swap|].
    eapply Permutation_trans; [|apply perm_swap]. constructor. apply IH; assumption.
Qed.

Lemma swap_perm (xs : list A) i j : Permutation (swap A xs i j) xs.
Proof.
  unfold swap. destruct (nth_error xs i) as [a|] eqn:Hi; [|reflexivity].
  destruct (nth_error xs j) as [b|] eqn:Hj; [|reflexivity].
  revert i j Hi Hj; induction xs as [|x t IH]; intros [|i] [|j]; simpl; try discriminate.
  - intros [= ->] [= ->]. reflexivity.
  - intros [= ->] Hj. apply upd_perm_aux; assumption.
  - intros Hi [= ->]. apply upd_perm_aux; assumption.
  - intros Hi Hj. constructor. apply IH; assumption.
Qed.

Lemma shuffle_go_perm i (xs : list A) bs l bs' :
  shuffle_go A i xs bs = Ok (l, bs') -> Permutation l xs.
Proof.
  revert xs bs; induction i as [|i IH]; intros xs bs; simpl.
  - intros [= <- _]. reflexivity.
  - destruct bs as [|b bs0]; simpl; [discriminate|]. intros H. apply IH in H.
    eapply Permutation_trans; [exact H | apply swap_perm].
Qed.

Lemma shuffle_perm (xs : list A) bs l bs' : shuffle A xs bs = Ok (l, bs') -> Permutation l xs.
Proof. apply shuffle_go_perm. Qed.

(* with enough raw integers the shuffle succeeds *)
Lemma shuffle_go_total i (xs : list A) bs :
  (i <= List.length bs)%nat -> exists l bs', shuffle_go A i xs bs = Ok (l, bs').
Proof.
  revert xs bs; induction i as [|i IH]; intros xs bs Hl; simpl.
  - eauto.
  - destruct bs as [|b bs0]; simpl in *; [lia|]. apply IH. lia.
Qed.

Lemma In_repeat (x y : A) n : In y (repeat x n) -> y = x.
Proof. induction n; simpl; intuition. Qed.

End Lists.

(* ------------------------------------------------------------------ draws in [0, 1) *)
Definition nonneg (r : fl) : Prop := SFleb sf_zero r = true.
Definition below1 (r : fl) : Prop := SFltb r sf_one = true.
Definition in01 (r : fl) : Prop := nonneg r /\ below1 r.
(* every generator of the oracle only answers .random() with values in [0, 1) *)
Definition draws01 (O : oracle) : Prop := forall k, Forall in01 (gu (O k)).

Lemma ltb_zero_false r p : nonneg r -> sf_is_zero p = true -> SFltb r p = false.
Proof.
  unfold nonneg. destruct p as [sp|sp| |sp mp ep]; try discriminate. intros H _.
  destruct r as [s|s| |s m e]; try destruct s; simpl in *; try discriminate; reflexivity.
Qed.

Lemma eqb_zero_true p : sf_is_zero p = true -> SFeqb p sf_zero = true.
Proof. destruct p; try discriminate; reflexivity. Qed.

Definition suffix {B : Type} (l' l : list B) : Prop := exists pre, l = pre ++ l'.
Lemma suffix_refl {B} (l : list B) : suffix l l.
Proof. exists []. reflexivity. Qed.
Lemma suffix_cons {B} (x : B) l : suffix l (x :: l).
Proof. exists [x]. reflexivity. Qed.
Lemma suffix_trans {B} (a b c : list B) : suffix a b -> suffix b c -> suffix a c.
Proof. intros [p ->] [q ->]. exists (q ++ p). now rewrite app_assoc. Qed.
Lemma suffix_Forall {B} (P : B -> Prop) l' l : suffix l' l -> Forall P l -> Forall P l'.
Proof. intros [p ->] H. apply Forall_app in H. tauto. Qed.

Section Samplers.
Variable fexp : fl -> fl.
Variable flog : fl -> fl.
Variables A K : Type.
Variable key_of : A -> res K.
Variable keq : K -> K -> bool.

Notation mult_of := (mult_of fexp A K key_of keq).
Notation sample_part := (sample_part fexp A K key_of keq).
Notation sample_parts_from := (sample_parts_from fexp A K key_of keq).
Notation sample_rdd := (sample_rdd fexp A K key_of keq).
Notation takeSample := (takeSample fexp flog A K key_of keq).
Notation ts_loop := (ts_loop fexp A K key_of keq).
Notation lookup := (lookup K keq).

Definition is_bern (s : sampler K) : bool :=
  match s with SBern _ _ | SBernKey _ _ => true | _ => false end.

(* a sampler consumes a prefix of its stream *)
Lemma knuth_suffix e prod n ds m ds' : knuth e prod n ds = Ok (m, ds') -> suffix ds' ds.
Proof.
  revert prod n; induction ds as [|r ds IH]; intros prod n; cbn [knuth]; [discriminate|].
  destruct (knuth_step (N:=SFOps) prod r e) as [prod' more]. destruct more.
  - intros H. apply IH in H. eapply suffix_trans; [exact H | apply suffix_cons].
  - intros [= _ <-]. apply suffix_cons.
Qed.

Lemma poisson_suffix lam ds m ds' : poisson fexp lam ds = Ok (m, ds') -> suffix ds' ds.
Proof.
  unfold poisson. destruct (poisson_guard (N:=SFOps) lam).
  - intros [= _ <-]. apply suffix_refl.
  - apply knuth_suffix.
Qed.

Lemma mult_of_suffix s x ds n ds' : mult_of s x ds = Ok (n, ds') -> suffix ds' ds.
Proof.
  destruct s as [p|lam|tbl|tbl]; simpl.
  - unfold bernoulli. destruct ds; [discriminate|]. intros [= _ <-]. apply suffix_cons.
  - apply poisson_suffix.
  - destruct (key_of x); [|discriminate]. destruct ds; [discriminate|]. intros [= _ <-]. apply suffix_cons.
  - destruct (key_of x); [|discriminate]. apply poisson_suffix.
Qed.

(* Bernoulli samplers keep or drop *)
Lemma mult_of_bern s x ds n ds' :
  is_bern s = true -> mult_of s x ds = Ok (n, ds') -> (n = 0 \/ n = 1)%nat.
Proof.
  destruct s as [p|lam|tbl|tbl]; simpl; try discriminate; intros _.
  - unfold bernoulli. destruct ds; [discriminate|]. rewrite bern_mult_link. intros [= <- _].
    destruct (SFltb _ _); auto.
  - destruct (key_of x); [|discriminate]. destruct ds; [discriminate|]. rewrite bernkey_mult_link.
    intros [= <- _]. destruct (SFltb _ _); auto.
Qed.

Lemma sample_part_subseq s xs ds r :
  is_bern s = true -> sample_part s xs ds = Ok r -> Subseq r xs.
Proof.
  intros Hb. revert ds r; induction xs as [|x xs IH]; intros ds r; simpl.
  - intros [= <-]. constructor.
  - destruct (mult_of s x ds) as [[n ds']|] eqn:Hm; [|discriminate].
    destruct (sample_part s xs ds') as [r'|] eqn:Hr; [|discriminate]. intros [= <-].
    apply IH in Hr. destruct (mult_of_bern _ _ _ _ _ Hb Hm) as [-> | ->]; simpl; constructor; assumption.
Qed.

(* the general shape: every element repeated some number of times, in order *)
Definition expand (xs : list A) (ns : list nat) : list A :=
  concat (map (fun xn => repeat (fst xn) (snd xn)) (combine xs ns)).

Lemma sample_part_expand s xs ds r :
  sample_part s xs ds = Ok r -> exists ns, List.length ns = List.length xs /\ r = expand xs ns.
Proof.
  revert ds r; induction xs as [|x xs IH]; intros ds r; simpl.
  - intros [= <-]. exists []. split; reflexivity.
  - destruct (mult_of s x ds) as [[n ds']|]; [|discriminate].
    destruct (sample_part s xs ds') as [r'|] eqn:Hr; [|discriminate]. intros [= <-].
    destruct (IH _ _ Hr) as [ns [Hl ->]]. exists (n :: ns). split; simpl; [lia | reflexivity].
Qed.

Lemma expand_In xs ns y : In y (expand xs ns) -> In y xs.
Proof.
  unfold expand. revert ns; induction xs as [|x xs IH]; intros [|n ns]; simpl; try tauto.
  intros H. apply in_app_or in H as [H|H]; [left; symmetry; eapply In_repeat; exact H | right; eapply IH; exact H].
Qed.

Lemma sample_part_In s xs ds r : sample_part s xs ds = Ok r -> forall y, In y r -> In y xs.
Proof. intros H y Hy. destruct (sample_part_expand _ _ _ _ H) as [ns [_ ->]]. eapply expand_In; exact Hy. Qed.

(* fraction 0: nothing is kept (draws are >= 0) *)
Lemma sample_part_f0 p xs ds r :
  sf_is_zero p = true -> Forall nonneg ds -> sample_part (SBern K p) xs ds = Ok r -> r = [].
Proof.
  intros Hp. revert ds r; induction xs as [|x xs IH]; intros ds r Hd; simpl.
  - intros [= <-]. reflexivity.
  - unfold bernoulli. destruct ds as [|d ds]; [discriminate|]. rewrite bern_mult_link.
    inversion Hd; subst. rewrite (ltb_zero_false d p) by assumption. simpl.
    destruct (sample_part (SBern K p) xs ds) as [r'|] eqn:Hr; [|discriminate]. intros [= <-].
    eapply IH; eauto.
Qed.

(* fraction 1: everything is kept (draws are < 1) *)
Lemma sample_part_f1 xs ds r :
  Forall below1 ds -> sample_part (SBern K sf_one) xs ds = Ok r -> r = xs.
Proof.
  revert ds r; induction xs as [|x xs IH]; intros ds r Hd; simpl.
  - intros [= <-]. reflexivity.
  - unfold bernoulli. destruct ds as [|d ds]; [discriminate|]. rewrite bern_mult_link.
    inversion Hd as [|? ? Hd1 Hd2]; subst. unfold below1 in Hd1. rewrite Hd1. simpl.
    destruct (sample_part (SBern K sf_one) xs ds) as [r'|] eqn:Hr; [|discriminate]. intros [= <-].
    f_equal. eapply IH; eauto.
Qed.

(* Bernoulli sampling succeeds as soon as the stream has one draw per element *)
Lemma sample_part_bern_total p xs ds :
  (List.length xs <= List.length ds)%nat -> exists r, sample_part (SBern K p) xs ds = Ok r.
Proof.
  revert ds; induction xs as [|x xs IH]; intros ds Hl; simpl; [eauto|].
  destruct ds as [|d ds]; simpl in *; [lia|]. destruct (IH ds) as [r ->]; [lia|]. eauto.
Qed.

(* keys with fraction zero (or missing: the default is 0.0) never appear *)
Definition is_keyed (s : sampler K) (tbl : list (K * fl)) : Prop := s = SBernKey K tbl \/ s = SPoisKey K tbl.

Lemma mult_of_zero_key s tbl x k ds n ds' :
  is_keyed s tbl -> Forall nonneg ds -> key_of x = Ok k -> sf_is_zero (lookup k tbl sf_zero) = true ->
  mult_of s x ds = Ok (n, ds') -> n = 0%nat.
Proof.
  intros [-> | ->] Hd Hk Hz; unfold Sample.mult_of; rewrite Hk.
  - destruct ds as [|d ds]; [discriminate|]. rewrite bernkey_mult_link, bernkey_default_link.
    inversion Hd; subst. rewrite ltb_zero_false by assumption. intros [= <- _]. reflexivity.
  - rewrite poiskey_default_link. unfold poisson. rewrite poisson_guard_link, eqb_zero_true by assumption.
    rewrite poisson_guard_result_link. intros [= <- _]. reflexivity.
Qed.

Lemma sample_part_zero_key s tbl xs ds r :
  is_keyed s tbl -> Forall nonneg ds -> sample_part s xs ds = Ok r ->
  forall y k, In y r -> key_of y = Ok k -> sf_is_zero (lookup k tbl sf_zero) = false.
Proof.
  intros Hs. revert ds r; induction xs as [|x xs IH]; intros ds r Hd; simpl.
  - intros [= <-] y k [].
  - destruct (mult_of s x ds) as [[n ds']|] eqn:Hm; [|discriminate].
    destruct (sample_part s xs ds') as [r'|] eqn:Hr; [|discriminate]. intros [= <-] y k Hy Hk.
    apply in_app_or in Hy as [Hy|Hy].
    + destruct (sf_is_zero (lookup k tbl sf_zero)) eqn:Hz; [|reflexivity].
      assert (y = x) by (eapply In_repeat; exact Hy). subst y.
      rewrite (mult_of_zero_key _ _ _ _ _ _ _ Hs Hd Hk Hz Hm) in Hy. destruct Hy.
    + eapply (IH ds'); eauto. eapply suffix_Forall; [eapply mult_of_suffix; exact Hm | exact Hd].
Qed.

Lemma lookup_missing k tbl d : (forall k' v, In (k', v) tbl -> keq k k' = false) -> lookup k tbl d = d.
Proof.
  induction tbl as [|[k' v] t IH]; simpl; intros H; [reflexivity|].
  rewrite (H k' v) by auto. apply IH. intros k2 v2 Hin. apply (H k2 v2). auto.
Qed.


(* ------------------------------------------------------------------ all partitions *)
Lemma sample_parts_from_Forall2 (P : list A -> list A -> Prop) O s seed :
  (forall xs ds r, sample_part s xs ds = Ok r -> Forall in01 ds -> P r xs) ->
  draws01 O ->
  forall parts i rs, sample_parts_from O s seed i parts = Ok rs -> Forall2 P rs parts.
Proof.
  intros HP HO. induction parts as [|p ps IH]; intros i rs; simpl.
  - intros [= <-]. constructor.
  - destruct (sample_part s p _) as [r|] eqn:Hr; [|discriminate].
    destruct (sample_parts_from O s seed (i + 1) ps) as [rs'|] eqn:Hrs; [|discriminate]. intros [= <-].
    constructor; [eapply HP; [exact Hr | apply HO] | eapply IH; exact Hrs].
Qed.

Lemma sample_parts_from_Forall2' (P : list A -> list A -> Prop) O s seed :
  (forall xs ds r, sample_part s xs ds = Ok r -> P r xs) ->
  forall parts i rs, sample_parts_from O s seed i parts = Ok rs -> Forall2 P rs parts.
Proof.
  intros HP. induction parts as [|p ps IH]; intros i rs; simpl.
  - intros [= <-]. constructor.
  - destruct (sample_part s p _) as [r|] eqn:Hr; [|discriminate].
    destruct (sample_parts_from O s seed (i + 1) ps) as [rs'|] eqn:Hrs; [|discriminate]. intros [= <-].
    constructor; [eapply HP; exact Hr | eapply IH; exact Hrs].
Qed.

Lemma in01_nonneg ds : Forall in01 ds -> Forall nonneg ds.
Proof. apply Forall_impl. intros a [H _]. exact H. Qed.
Lemma in01_below1 ds : Forall in01 ds -> Forall below1 ds.
Proof. apply Forall_impl. intros a [_ H]. exact H. Qed.

Lemma sample_rdd_inv O s seed parts g rs g' :
  sample_rdd O s seed parts g = Ok (rs, g') ->
  exists z, resolve_seed seed g = Ok (z, g') /\ sample_parts_from O s z 0 parts = Ok rs.
Proof.
  unfold Sample.sample_rdd. destruct (resolve_seed seed g) as [[z g1]|] eqn:E1; [|discriminate].
  destruct (sample_parts_from O s z 0 parts) as [r|] eqn:E2; [|discriminate]. intros [= <- <-].
  exists z. split; [reflexivity | exact E2].
Qed.

(* sample(False, f, seed) / sampleByKey(False, ...): each partition of the result is a subsequence of
   the corresponding input partition -- for EVERY oracle *)
Lemma sample_subseq O s seed parts g rs g' :
  is_bern s = true -> sample_rdd O s seed parts g = Ok (rs, g') -> Forall2 Subseq rs parts.
Proof.
  intros Hb H. apply sample_rdd_inv in H as [z [_ H]].
  eapply sample_parts_from_Forall2'; [|exact H]. intros xs ds r Hr. eapply sample_part_subseq; eauto.
Qed.

Lemma sample_f0_empty O p seed parts g rs g' :
  draws01 O -> sf_is_zero p = true ->
  sample_rdd O (SBern K p) seed parts g = Ok (rs, g') -> Forall (fun r => r = []) rs.
Proof.
  intros HO Hp H. apply sample_rdd_inv in H as [z [_ H]].
  assert (F2 : Forall2 (fun r (_ : list A) => r = []) rs parts).
  { eapply sample_parts_from_Forall2; [|exact HO|exact H]. intros xs ds r Hr Hd.
    exact (sample_part_f0 p xs ds r Hp (in01_nonneg _ Hd) Hr). }
  clear H. induction F2; constructor; auto.
Qed.

Lemma Forall2_eq_eq {B} (l1 l2 : list B) : Forall2 eq l1 l2 -> l1 = l2.
Proof. induction 1; congruence. Qed.

Lemma sample_f1_full O seed parts g rs g' :
  draws01 O -> sample_rdd O (SBern K sf_one) seed parts g = Ok (rs, g') -> rs = parts.
Proof.
  intros HO H. apply sample_rdd_inv in H as [z [_ H]]. apply Forall2_eq_eq.
  eapply sample_parts_from_Forall2; [|exact HO|exact H]. intros xs ds r Hr Hd.
  exact (sample_part_f1 xs ds r (in01_below1 _ Hd) Hr).
Qed.

(* any sampler (with or without replacement, per key or not): only existing elements, each repeated in place *)
Lemma sample_repl_members O s seed parts g rs g' :
  sample_rdd O s seed parts g = Ok (rs, g') ->
  Forall2 (fun r p => exists ns, List.length ns = List.length p /\ r = expand p ns) rs parts.
Proof.
  intros H. apply sample_rdd_inv in H as [z [_ H]].
  eapply sample_parts_from_Forall2'; [|exact H]. intros xs ds r Hr. eapply sample_part_expand; eauto.
Qed.

Lemma Forall2_In_concat (P : list A -> list A -> Prop) rs parts :
  Forall2 P rs parts -> (forall r p, P r p -> forall y, In y r -> In y p) ->
  forall y, In y (List.concat rs) -> In y (List.concat parts).
Proof.
  intros F HP. induction F as [|r p rs ps Hrp F IH]; simpl; [tauto|].
  intros y Hy. apply in_or_app. apply in_app_or in Hy as [Hy|Hy]; [left; eapply HP; eauto | right; auto].
Qed.

Lemma sample_members O s seed parts g rs g' :
  sample_rdd O s seed parts g = Ok (rs, g') -> forall y, In y (List.concat rs) -> In y (List.concat parts).
Proof.
  intros H. eapply Forall2_In_concat; [eapply sample_repl_members; exact H|].
  intros r p [ns [_ ->]] y. apply expand_In.
Qed.

Lemma sample_parts_from_members O s z i parts rs :
  sample_parts_from O s z i parts = Ok rs -> forall y, In y (List.concat rs) -> In y (List.concat parts).
Proof.
  intros H. eapply Forall2_In_concat.
  - eapply sample_parts_from_Forall2' with (P := fun r p => forall y, In y r -> In y p); [|exact H].
    intros xs ds r Hr. eapply sample_part_In; eauto.
  - auto.
Qed.

Lemma sampleByKey_zero_or_missing_absent O s tbl seed parts g rs g' :
  draws01 O -> is_keyed s tbl -> sample_rdd O s seed parts g = Ok (rs, g') ->
  forall y k, In y (List.concat rs) -> key_of y = Ok k -> sf_is_zero (lookup k tbl sf_zero) = false.
Proof.
  intros HO Hs H. apply sample_rdd_inv in H as [z [_ H]].
  assert (F2 : Forall2 (fun r (_ : list A) => forall y k, In y r -> key_of y = Ok k ->
                                            sf_is_zero (lookup k tbl sf_zero) = false) rs parts).
  { eapply sample_parts_from_Forall2; [|exact HO|exact H]. intros xs ds r Hr Hd.
    exact (sample_part_zero_key s tbl xs ds r Hs (in01_nonneg _ Hd) Hr). }
  clear H. induction F2 as [|r p rs ps Hr F IH]; simpl; [tauto|].
  intros y k Hy Hk. apply in_app_or in Hy as [Hy|Hy]; eauto.
Qed.

(* ------------------------------------------------------------------ determinism *)
(* The result of sample / sampleByKey with an integer seed is a function of (seed, partitioning, input)
   and of the streams of the generators seeded with seed + partition index ONLY: it does not read or
   advance the module-level generator and does not depend on any other generator. *)
Lemma sample_parts_from_ext O O' s seed parts i :
  (forall j, 0 <= j < lenZ parts -> gu (O (KInt (seed + (i + j)))) = gu (O' (KInt (seed + (i + j))))) ->
  sample_parts_from O s seed i parts = sample_parts_from O' s seed i parts.
Proof.
  revert i; induction parts as [|p ps IH]; intros i H; simpl; [reflexivity|].
  rewrite !task_seed_link. unfold lenZ in H. simpl List.length in H. rewrite Nat2Z.inj_succ in H.
  replace (seed + i) with (seed + (i + 0)) by lia. rewrite (H 0) by lia.
  destruct (sample_part s p _); [|reflexivity].
  rewrite (IH (i + 1)); [reflexivity|]. intros j Hj. replace (i + 1 + j) with (i + (j + 1)) by lia.
  apply H. unfold lenZ in Hj. lia.
Qed.

Definition value {B G} (r : res (B * G)) : res B :=
  match r with Ok (b, _) => Ok b | Err e => Err e end.

Lemma sample_deterministic O O' s z parts g g' :
  (forall j, 0 <= j < lenZ parts -> gu (O (KInt (z + j))) = gu (O' (KInt (z + j)))) ->
  value (sample_rdd O s (KInt z) parts g) = value (sample_rdd O' s (KInt z) parts g').
Proof.
  intros H. unfold Sample.sample_rdd. unfold resolve_seed; cbv beta iota.
  rewrite (sample_parts_from_ext O O' s z parts 0) by (intros j Hj; rewrite Z.add_0_l; auto).
  destruct (sample_parts_from O' s z 0 parts); reflexivity.
Qed.

Lemma sample_int_seed_frame O s z parts g rs g' :
  sample_rdd O s (KInt z) parts g = Ok (rs, g') -> g' = g.
Proof.
  unfold Sample.sample_rdd. unfold resolve_seed; cbv beta iota.
  destruct (sample_parts_from O s z 0 parts); [|discriminate]. now intros [= _ <-].
Qed.

(* Bernoulli sampling is total as soon as every task's stream has one draw per element *)
Lemma sample_bern_total O p z parts g :
  (forall j, 0 <= j < lenZ parts ->
             (List.length (nth (Z.to_nat j) parts []) <= List.length (gu (O (KInt (z + j)))))%nat) ->
  exists rs, sample_rdd O (SBern K p) (KInt z) parts g = Ok (rs, g).
Proof.
  intros H. unfold Sample.sample_rdd. unfold resolve_seed; cbv beta iota.
  assert (G : forall ps i, (forall j, 0 <= j < lenZ ps ->
              (List.length (nth (Z.to_nat j) ps []) <= List.length (gu (O (KInt (z + (i + j))))))%nat) ->
              exists rs, sample_parts_from O (SBern K p) z i ps = Ok rs).
  { induction ps as [|q ps IH]; intros i Hq; cbn [Sample.sample_parts_from]; [eauto|]. rewrite task_seed_link.
    assert (Hlen : lenZ (q :: ps) = lenZ ps + 1) by (unfold lenZ; cbn [List.length]; lia).
    pose proof (lenZ_nonneg ps) as Hnn.
    destruct (sample_part_bern_total p q (gu (O (KInt (z + i))))) as [r Hr].
    { specialize (Hq 0). rewrite Z.add_0_r in Hq. apply Hq. lia. }
    rewrite Hr. destruct (IH (i + 1)) as [rs Hrs].
    { intros j Hj. specialize (Hq (j + 1)). replace (i + 1 + j) with (i + (j + 1)) by lia.
      replace (Z.to_nat (j + 1)) with (S (Z.to_nat j)) in Hq by lia. apply Hq. lia. }
    rewrite Hrs. eauto. }
  destruct (G parts 0) as [rs Hrs]; [intros j Hj; rewrite Z.add_0_l; auto|]. rewrite Hrs. eauto.
Qed.

(* ------------------------------------------------------------------ takeSample *)
Lemma takeSample_norepl O num seed parts g l g' :
  0 <= num -> takeSample O false num seed parts g = Ok (l, g') ->
  lenZ l = Z.min num (lenZ (List.concat parts))
  /\ Permutation l (takeZ num (List.concat parts))
  /\ g' = g.
Proof.
  intros Hn. unfold Sample.takeSample.
  destruct (num <? 0) eqn:E1; [apply Z.ltb_lt in E1; lia|].
  destruct (num =? 0) eqn:E2.
  { apply Z.eqb_eq in E2. subst num. intros [= <- <-]. repeat split.
    - unfold lenZ. simpl. lia.
    - destruct (List.concat parts); simpl; constructor. }
  apply Z.eqb_neq in E2.
  pose proof (lenZ_takeZ num (List.concat parts)) as HL.
  destruct (lenZ (takeZ num (List.concat parts)) =? 0) eqn:E3.
  { apply Z.eqb_eq in E3. intros [= <- <-]. repeat split.
    - unfold lenZ in *. simpl. lia.
    - destruct (takeZ num (List.concat parts)); [constructor | unfold lenZ in E3; simpl in E3; lia]. }
  replace (lenZ (takeZ num (List.concat parts)) <=? num) with true by (symmetry; apply Z.leb_le; unfold lenZ in *; lia).
  simpl negb. simpl andb.
  destruct (shuffle A (takeZ num (List.concat parts)) (gb (O seed))) as [[l0 bs]|] eqn:Hs; [|discriminate].
  intros [= <- <-]. apply shuffle_perm in Hs. repeat split; [|exact Hs].
  unfold lenZ in *. rewrite (Permutation_length Hs). lia.
Qed.

Lemma takeSample_norepl_submultiset O num seed parts g l g' :
  0 <= num -> takeSample O false num seed parts g = Ok (l, g') -> SubMultiset l (List.concat parts).
Proof.
  intros Hn H. destruct (takeSample_norepl _ _ _ _ _ _ _ Hn H) as [_ [Hp _]].
  exists (dropZ num (List.concat parts)). rewrite <- (takeZ_dropZ num (List.concat parts)) at 2.
  apply Permutation_app_tail. exact Hp.
Qed.

Lemma ts_loop_inv O s parts num bs samples out bs' :
  (forall y, In y samples -> In y (List.concat parts)) ->
  ts_loop O s parts num bs samples = Ok (out, bs') ->
  num <= lenZ out /\ (forall y, In y out -> In y (List.concat parts)).
Proof.
  revert samples; induction bs as [|b bs IH]; intros samples Hin; simpl.
  - destruct (num <=? lenZ samples) eqn:E; [|discriminate]. intros [= <- _]. apply Z.leb_le in E. auto.
  - destruct (num <=? lenZ samples) eqn:E.
    + intros [= <- _]. apply Z.leb_le in E. auto.
    + destruct (sample_parts_from O s _ 0 parts) as [ps|] eqn:Hp; [|discriminate].
      apply IH. eapply sample_parts_from_members; exact Hp.
Qed.

(* takeSample(True, n): IF the re-sampling loop exits within the given streams, the result has exactly n
   elements, all of them present in the (non-empty) dataset *)
Lemma takeSample_repl_partial O num seed parts g l g' :
  0 < num -> List.concat parts <> [] -> takeSample O true num seed parts g = Ok (l, g') ->
  lenZ l = num /\ forall y, In y l -> In y (List.concat parts).
Proof.
  intros Hn Hne. unfold Sample.takeSample.
  destruct (num <? 0) eqn:E1; [apply Z.ltb_lt in E1; lia|].
  destruct (num =? 0) eqn:E2; [apply Z.eqb_eq in E2; lia|].
  pose proof (lenZ_takeZ num (List.concat parts)) as HL.
  destruct (lenZ (takeZ num (List.concat parts)) =? 0) eqn:E3.
  { apply Z.eqb_eq in E3. exfalso. apply Hne. destruct (List.concat parts); [reflexivity|].
    unfold lenZ in *. simpl List.length in *. lia. }
  simpl negb. simpl andb.
  destruct (max_sample_size <? num); [discriminate|].
  match goal with |- context [sample_rdd O ?s seed parts g] => set (smp := s) end.
  destruct (sample_rdd O smp seed parts g) as [[ps g1]|] eqn:Hs; [|discriminate].
  destruct (ts_loop O smp parts num (gb (O seed)) (List.concat ps)) as [[samples bs]|] eqn:Hl; [|discriminate].
  destruct (shuffle A samples bs) as [[l0 bs0]|] eqn:Hsh; [|discriminate]. intros [= <- _].
  apply ts_loop_inv in Hl as [Hlen Hin]; [|eapply sample_members; exact Hs].
  apply shuffle_perm in Hsh. split.
  - rewrite lenZ_takeZ. unfold lenZ in *. rewrite (Permutation_length Hsh). lia.
  - intros y Hy. apply Hin. eapply Permutation_in; [exact Hsh|].
    eapply Subseq_In; [apply takeZ_Subseq | exact Hy].
Qed.

(* with an integer seed takeSample neither reads nor advances the module-level generator *)
Lemma takeSample_deterministic O wr num z parts g1 g2 :
  value (takeSample O wr num (KInt z) parts g1) = value (takeSample O wr num (KInt z) parts g2).
Proof.
  unfold Sample.takeSample.
  destruct (num <? 0); [reflexivity|]. destruct (num =? 0); [reflexivity|].
  destruct (_ =? 0); [reflexivity|].
  destruct (negb wr && _).
  { destruct (shuffle A _ _) as [[? ?]|]; reflexivity. }
  destruct (max_sample_size <? num); [reflexivity|].
  unfold Sample.sample_rdd. unfold resolve_seed; cbv beta iota.
  destruct (sample_parts_from O _ z 0 parts); [|reflexivity].
  destruct (ts_loop O _ parts num _ _) as [[? ?]|]; [|reflexivity].
  destruct (shuffle A _ _) as [[? ?]|]; reflexivity.
Qed.

End Samplers.
