(* C05 -- no recomputation: when the entry of partition i of a persisted dataset is in the manager
   (and no stamp of it is expired), an action on that dataset or a descendant makes no call of any
   function upstream of it for partition i, and the entry is still there afterwards. *)
From Coq Require Import ZArith List Bool Lia.
Require Import PV.Model.Cache PV.Model.CacheSpec PV.Proofs.CacheStream.
Import ListNotations.
Open Scope Z_scope.

Section Recompute.
Variable A : Type.
Implicit Types (m : mgr A) (rn : list (node A)) (s : lstream A).

(* ---------------------------------------------------------------- event predicates on streams *)
Variable Q : event A -> Prop.

Definition stream_in s : Prop :=
  Forall (fun c => Forall Q (fst c)) (cells s) /\ Forall Q (trail s).

Lemma stream_in_of_list : forall xs, stream_in (of_list xs).
Proof.
  intros xs; split; simpl; auto. apply Forall_forall. intros c Hc. apply in_map_iff in Hc.
  destruct Hc as [x [<- _]]; simpl; auto.
Qed.

Lemma stream_in_lmap : forall rid i f s, (forall x, Q (Ev rid i x)) -> stream_in s -> stream_in (lmap rid i f s).
Proof.
  intros rid i f s HQ [H1 H2]; split; simpl; auto.
  apply Forall_forall. intros c Hc. apply in_map_iff in Hc. destruct Hc as [c0 [<- Hc0]]; simpl.
  rewrite Forall_forall in H1. apply Forall_app; split; auto.
Qed.

Lemma stream_in_lidx : forall rid i f s, (forall x, Q (Ev rid i x)) -> stream_in s -> stream_in (lidx rid i f s).
Proof.
  intros rid i f s HQ [H1 H2]; split; simpl; auto. generalize 0 as pos.
  induction (cells s) as [|[evs x] cs IH]; intros pos; simpl; auto.
  inversion H1; subst. constructor; auto. simpl in *. apply Forall_app; split; auto.
Qed.

Lemma stream_in_lfilter_go : forall rid i p cs pend tr,
  (forall x, Q (Ev rid i x)) -> Forall Q pend -> Forall (fun c => Forall Q (fst c)) cs -> Forall Q tr ->
  stream_in (lfilter_go rid i p pend cs tr).
Proof.
  induction cs as [|[evs x] cs IH]; intros pend tr HQ Hp Hc Ht; simpl.
  - split; simpl; auto. apply Forall_app; auto.
  - inversion Hc; subst; simpl in *.
    assert (He : Forall Q (pend ++ evs ++ [Ev rid i (Some x)])).
    { apply Forall_app; split; auto. apply Forall_app; split; auto. }
    destruct (p x).
    + destruct (IH [] tr HQ (Forall_nil _) H2 Ht) as [I1 I2]. split; simpl; auto.
    + apply IH; auto.
Qed.

Lemma stream_in_lflat_go : forall rid i g cs pend tr,
  (forall x, Q (Ev rid i x)) -> Forall Q pend -> Forall (fun c => Forall Q (fst c)) cs -> Forall Q tr ->
  stream_in (lflat_go rid i g pend cs tr).
Proof.
  induction cs as [|[evs x] cs IH]; intros pend tr HQ Hp Hc Ht; simpl.
  - split; simpl; auto. apply Forall_app; auto.
  - inversion Hc; subst; simpl in *.
    assert (He : Forall Q (pend ++ evs ++ [Ev rid i (Some x)])).
    { apply Forall_app; split; auto. apply Forall_app; split; auto. }
    destruct (g x) as [|y ys].
    + apply IH; auto.
    + destruct (IH [] tr HQ (Forall_nil _) H2 Ht) as [I1 I2]. split; simpl; auto.
      constructor; auto. apply Forall_app; split; auto.
      apply Forall_forall. intros c Hin. apply in_map_iff in Hin. destruct Hin as [y' [<- _]]; simpl; auto.
Qed.

Lemma stream_in_events0 : forall s, stream_in s -> Forall Q (concat (map fst (cells s)) ++ trail s).
Proof.
  intros s [H1 H2]. apply Forall_app; split; auto.
  induction (cells s) as [|c cs IH]; simpl; auto. inversion H1; subst. apply Forall_app; split; auto.
Qed.

Lemma stream_in_lpart : forall rid i h s, (forall x, Q (Ev rid i x)) -> stream_in s -> stream_in (lpart rid i h s).
Proof.
  intros rid i h s HQ Hs. pose proof (stream_in_events0 s Hs) as He. unfold lpart.
  destruct (h (map snd (cells s))) as [|y ys]; split; simpl; auto.
  constructor; simpl; auto. apply Forall_forall. intros c Hin. apply in_map_iff in Hin.
  destruct Hin as [y' [<- _]]; simpl; auto.
Qed.

Lemma stream_in_events : forall s, stream_in s -> Forall Q (stream_events s).
Proof.
  intros s [H1 H2]. unfold stream_events. apply Forall_app; split; auto.
  induction (cells s) as [|c cs IH]; simpl; auto. inversion H1; subst. apply Forall_app; split; auto.
Qed.

Lemma ltake_events : forall n cs tr,
  Forall (fun c => Forall Q (fst c)) cs -> Forall Q tr -> Forall Q (snd (fst (ltake n cs tr))).
Proof.
  induction n as [|n IH]; intros cs tr Hc Ht; simpl; auto.
  destruct cs as [|[evs x] cs]; simpl; auto.
  inversion Hc; subst. specialize (IH cs tr H2 Ht).
  destruct (ltake n cs tr) as [[xs es] r]; simpl in *. apply Forall_app; auto.
Qed.

(* all events of one partition's computation satisfy Q if the events of every stage of the descent do *)
Lemma compute_events : forall now rn i src m,
  (forall rid st x, In (rid, st) rn -> Q (Ev rid i x)) ->
  stream_in (fst (fst (compute now rn i src m))) /\ Forall Q (snd (compute now rn i src m)).
Proof.
  induction rn as [|[rid st] up IH]; intros i src m HQ; simpl.
  - split; auto. apply stream_in_of_list.
  - assert (HQ' : forall rid' st' x, In (rid', st') up -> Q (Ev rid' i x)) by (intros; eapply HQ; right; eauto).
    assert (HQr : forall x, Q (Ev rid i x)) by (intros; eapply HQ; left; eauto).
    specialize (IH i src m HQ').
    destruct st as [f|p|g|fi|h|].
    4: { destruct (compute now up i src m) as [[s m1] ev]; simpl in *. destruct IH; split; auto.
         apply stream_in_lidx; auto. }
    4: { destruct (compute now up i src m) as [[s m1] ev]; simpl in *. destruct IH; split; auto.
         apply stream_in_lpart; auto. }
    + destruct (compute now up i src m) as [[s m1] ev]; simpl in *. destruct IH; split; auto.
      apply stream_in_lmap; auto.
    + destruct (compute now up i src m) as [[s m1] ev]; simpl in *. destruct IH as [[I1 I2] I3]; split; auto.
      apply stream_in_lfilter_go; auto.
    + destruct (compute now up i src m) as [[s m1] ev]; simpl in *. destruct IH as [[I1 I2] I3]; split; auto.
      apply stream_in_lflat_go; auto.
    + destruct (m_get (rid, i) m) as [data|]; simpl.
      * split; auto. apply stream_in_of_list.
      * destruct (compute now up i src m) as [[s m1] ev]; simpl in *. destruct IH as [I1 I3]. split.
        -- apply stream_in_of_list.
        -- apply Forall_app; split; auto. apply stream_in_events; auto.
Qed.

End Recompute.

Section Keep.
Variable A : Type.
Implicit Types (m : mgr A) (rn : list (node A)) (s : lstream A).

(* ---------------------------------------------------------------- an entry that stays *)
Definition kept (now : Z) (k : key) m : Prop := has_key k m /\ stable now k m.

Lemma gc_go_keeps : forall fuel thr ta (es : list (key * (list A * Z))) k,
  In k (map fst es) -> (forall t, In (k, t) ta -> t > thr) -> In k (map fst (snd (gc_go fuel thr ta es))).
Proof.
  induction fuel as [|fuel IH]; intros thr ta es k Hk Hs; simpl; auto.
  destruct ta as [|[k' t'] ta]; simpl; auto.
  destruct (t' >? thr) eqn:E; simpl; auto.
  apply IH.
  - apply dict_del_keys; split; auto. intros ->. specialize (Hs t' (or_introl eq_refl)). lia.
  - intros t Ht. apply drop_stamps_In in Ht. apply Hs; right; tauto.
Qed.

Lemma kept_gc : forall now k m, kept now k m -> kept now k (m_gc now m).
Proof.
  intros now k m [Hk Hs]. unfold kept, has_key, stable in *. unfold m_gc.
  destruct (m_timeout m) as [to|] eqn:E.
  - pose proof (gc_go_keeps (length (m_times m)) (now - to) (m_times m) (m_entries m) k Hk Hs) as G.
    pose proof (gc_go_times_sub A (length (m_times m)) (now - to) (m_times m) (m_entries m)) as T.
    destruct (gc_go (length (m_times m)) (now - to) (m_times m) (m_entries m)) as [ta es]; simpl in *.
    split; auto.
  - rewrite E. split; auto.
Qed.

Lemma kept_add : forall now k k' d m,
  kept now k m -> (k <> k' \/ m_timeout m = None) -> kept now k (m_add now k' d m).
Proof.
  intros now k k' d m [Hk Hs] Hc. unfold m_add. destruct (m_timeout m) as [to|] eqn:E.
  - destruct Hc as [Hc|Hc]; [|discriminate]. apply kept_gc. unfold kept, has_key, stable in *; simpl.
    rewrite E in Hs. split.
    + apply dict_set_keys; auto.
    + intros t Ht. apply in_app_or in Ht. destruct Ht as [Ht|[Ht|[]]]; auto. inversion Ht; congruence.
  - unfold kept, has_key, stable in *; simpl. split; auto. apply dict_set_keys; auto.
Qed.

Lemma kept_delete : forall now k k' m, kept now k m -> k <> k' -> kept now k (m_delete k' m).
Proof.
  intros now k k' m [Hk Hs] Hn. unfold kept, has_key, stable, m_delete in *; simpl. split.
  - apply dict_del_keys; auto.
  - destruct (m_timeout m); auto. intros t Ht. apply drop_stamps_In in Ht. apply Hs; tauto.
Qed.

Lemma join_fold_keys : forall now (new es : list (key * (list A * Z))) k,
  In k (map fst es) -> In k (map fst (fold_left (fun acc kv => dict_set (fst kv) (fst (snd kv), now) acc) new es)).
Proof.
  induction new as [|kv new IH]; simpl; intros es k H; auto. apply IH. apply dict_set_keys; auto.
Qed.

Lemma kept_join : forall now k new m,
  kept now k m -> (~ In k (map fst new) \/ m_timeout m = None) -> kept now k (m_join now new m).
Proof.
  intros now k new m [Hk Hs] Hc. unfold m_join. destruct (m_timeout m) as [to|] eqn:E.
  - destruct Hc as [Hc|Hc]; [|discriminate]. apply kept_gc. unfold kept, has_key, stable in *; simpl.
    rewrite E in Hs. split.
    + apply join_fold_keys; auto.
    + intros t Ht. apply in_app_or in Ht. destruct Ht as [Ht|Ht]; auto.
      apply in_map_iff in Ht. destruct Ht as [kv [Ekv Hin]]. inversion Ekv; subst.
      exfalso. apply Hc. apply in_map; auto.
  - unfold kept, has_key, stable in *; simpl. split; auto. apply join_fold_keys; auto.
Qed.

(* compute of partition i' keeps every entry of another partition (and, with a plain manager, every entry) *)
Lemma compute_keeps : forall now rn i' src m k,
  kept now k m -> (snd k <> i' \/ m_timeout m = None) ->
  kept now k (snd (fst (compute now rn i' src m))) /\
  m_timeout (snd (fst (compute now rn i' src m))) = m_timeout m.
Proof.
  induction rn as [|[rid st] up IH]; intros i' src m k Hk Hc; simpl; auto.
  specialize (IH i' src m k Hk Hc).
  destruct st as [f|p|g|fi|h|];
    try (destruct (compute now up i' src m) as [[s m1] ev]; simpl in *; exact IH).
  destruct (m_get (rid, i') m) as [data|]; simpl; auto.
  destruct (compute now up i' src m) as [[s m1] ev]; simpl in *. destruct IH as [I1 I2]. split.
  - apply kept_add; auto. destruct Hc as [Hc|Hc]; [left | right; congruence].
    intros ->; simpl in Hc; congruence.
  - rewrite m_add_timeout; auto.
Qed.

(* new entries of partition i' carry index i' *)
Lemma compute_new_keys : forall now rn i' src m e,
  In e (m_entries (snd (fst (compute now rn i' src m)))) -> In e (m_entries m) \/ snd (fst e) = i'.
Proof.
  induction rn as [|[rid st] up IH]; intros i' src m e H; simpl in *; auto.
  specialize (IH i' src m e).
  destruct st as [f|p|g|fi|h|].
  4: { destruct (compute now up i' src m) as [[s m1] ev]; simpl in *; auto. }
  4: { destruct (compute now up i' src m) as [[s m1] ev]; simpl in *; auto. }
  - destruct (compute now up i' src m) as [[s m1] ev]; simpl in *; auto.
  - destruct (compute now up i' src m) as [[s m1] ev]; simpl in *; auto.
  - destruct (compute now up i' src m) as [[s m1] ev]; simpl in *; auto.
  - destruct (m_get (rid, i') m) as [data|]; simpl in *; auto.
    destruct (compute now up i' src m) as [[s m1] ev]; simpl in *.
    apply m_add_In in H. destruct H as [->|H]; auto.
Qed.

(* ---------------------------------------------------------------- the hit *)
(* descent through [down], then the persisted node whose entry is kept: nothing upstream is touched *)
Lemma compute_hit : forall now down rid up i src m (Q : event A -> Prop),
  kept now (rid, i) m -> ~ In rid (map fst down) ->
  (forall rid' st x, In (rid', st) down -> Q (Ev rid' i x)) ->
  let c := compute now (down ++ (rid, SPersist) :: up) i src m in
  stream_in A Q (fst (fst c)) /\ Forall Q (snd c) /\ kept now (rid, i) (snd (fst c)) /\
  m_timeout (snd (fst c)) = m_timeout m.
Proof.
  induction down as [|[rid' st] down IH]; intros rid up i src m Q Hk Hn HQ; simpl.
  - destruct Hk as [Hk Hs]. unfold has_key in Hk. apply dict_get_Some_key in Hk. destruct Hk as [[d t] Hd].
    unfold m_get. rewrite Hd. simpl. split; [apply stream_in_of_list | split; [constructor | split; [|reflexivity]]].
    split; auto. unfold has_key. apply dict_get_In in Hd. apply (in_map fst) in Hd; auto.
  - assert (Hn' : ~ In rid (map fst down)) by (intros H; apply Hn; right; auto).
    assert (Hne : rid <> rid') by (intros ->; apply Hn; left; auto).
    assert (HQ' : forall r (st' : stage A) x, In (r, st') down -> Q (Ev r i x)) by (intros; eapply HQ; right; eauto).
    assert (HQr : forall x, Q (Ev rid' i x)) by (intros; eapply HQ; left; eauto).
    specialize (IH rid up i src m Q Hk Hn' HQ'). simpl in IH.
    destruct st as [f|p|g|fi|h|].
    4: { destruct (compute now (down ++ (rid, SPersist) :: up) i src m) as [[s m1] ev]; simpl in *.
         destruct IH as [I1 [I2 [I3 I4]]]. split; [apply stream_in_lidx; auto | auto]. }
    4: { destruct (compute now (down ++ (rid, SPersist) :: up) i src m) as [[s m1] ev]; simpl in *.
         destruct IH as [I1 [I2 [I3 I4]]]. split; [apply stream_in_lpart; auto | auto]. }
    + destruct (compute now (down ++ (rid, SPersist) :: up) i src m) as [[s m1] ev]; simpl in *.
      destruct IH as [I1 [I2 [I3 I4]]]. split; [apply stream_in_lmap; auto | auto].
    + destruct (compute now (down ++ (rid, SPersist) :: up) i src m) as [[s m1] ev]; simpl in *.
      destruct IH as [[I0 I1] [I2 [I3 I4]]]. split; [apply stream_in_lfilter_go; auto | auto].
    + destruct (compute now (down ++ (rid, SPersist) :: up) i src m) as [[s m1] ev]; simpl in *.
      destruct IH as [[I0 I1] [I2 [I3 I4]]]. split; [apply stream_in_lflat_go; auto | auto].
    + destruct (m_get (rid', i) m) as [data|]; simpl.
      * split; [apply stream_in_of_list | auto].
      * destruct (compute now (down ++ (rid, SPersist) :: up) i src m) as [[s m1] ev]; simpl in *.
        destruct IH as [I1 [I2 [I3 I4]]]. split; [|split; [|split]].
        -- apply stream_in_of_list.
        -- apply Forall_app; split; auto. apply stream_in_events; auto.
        -- apply kept_add; auto. left. intros E; inversion E; congruence.
        -- rewrite m_add_timeout; auto.
Qed.

End Keep.
