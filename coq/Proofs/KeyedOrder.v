(* C02: the key order used by the correspondence run for sortByKey (pv_leb: Python's < on ints, on strings and
   on tuples of ints; a fixed rank between types) is total and transitive -- the premises of C02_sortByKey. *)
From Coq Require Import ZArith NArith List Bool Lia.
Require Import PV.Base.Val PV.Model.Keyed PV.Model.KeyedSpec PV.Proofs.KeyedPv.
Import ListNotations.

Fixpoint lex_cmp {A} (cmp : A -> A -> comparison) (xs ys : list A) : comparison :=
  match xs, ys with
  | [], [] => Eq
  | [], _ => Lt
  | _, [] => Gt
  | x :: xs', y :: ys' => match cmp x y with Eq => lex_cmp cmp xs' ys' | c => c end
  end.

Lemma pv_cmp_tup x y : pv_cmp (PTup x) (PTup y) = lex_cmp pv_cmp x y.
Proof.
  revert y. induction x as [|a x IH]; destruct y as [|b y]; try reflexivity.
  simpl. destruct (pv_cmp a b); try reflexivity. apply IH.
Qed.
Lemma pv_cmp_list x y : pv_cmp (PList x) (PList y) = lex_cmp pv_cmp x y.
Proof.
  revert y. induction x as [|a x IH]; destruct y as [|b y]; try reflexivity.
  simpl. destruct (pv_cmp a b); try reflexivity. apply IH.
Qed.
Lemma lexN_lex a b : lexN a b = lex_cmp N.compare a b.
Proof. revert b. induction a as [|x a IH]; destruct b as [|y b]; try reflexivity. simpl. rewrite IH. reflexivity. Qed.

Section Lex.
  Context {A : Type} (cmp : A -> A -> comparison).
  Lemma lex_eq xs : Forall (fun x => forall y, cmp x y = Eq -> x = y) xs ->
    forall ys, lex_cmp cmp xs ys = Eq -> xs = ys.
  Proof.
    induction 1 as [|x xs Hx _ IH]; intros ys; destruct ys as [|y ys]; simpl; try congruence.
    destruct (cmp x y) eqn:E; try discriminate. intros H. rewrite (Hx y E), (IH ys H). reflexivity.
  Qed.
  Lemma lex_refl xs : Forall (fun x => cmp x x = Eq) xs -> lex_cmp cmp xs xs = Eq.
  Proof. induction 1 as [|x xs Hx _ IH]; simpl; [reflexivity|]. rewrite Hx. exact IH. Qed.
  Lemma lex_antisym xs : Forall (fun x => forall y, cmp y x = CompOpp (cmp x y)) xs ->
    forall ys, lex_cmp cmp ys xs = CompOpp (lex_cmp cmp xs ys).
  Proof.
    induction 1 as [|x xs Hx _ IH]; intros ys; destruct ys as [|y ys]; simpl; try reflexivity.
    rewrite Hx. destruct (cmp x y); simpl; try reflexivity. apply IH.
  Qed.
  Hypothesis cmp_eq : forall x y, cmp x y = Eq -> x = y.
  Hypothesis cmp_refl : forall x, cmp x x = Eq.
  Lemma lex_trans xs :
    Forall (fun x => forall y z, cmp x y = Lt -> cmp y z = Lt -> cmp x z = Lt) xs ->
    forall ys zs, lex_cmp cmp xs ys = Lt -> lex_cmp cmp ys zs = Lt -> lex_cmp cmp xs zs = Lt.
  Proof.
    induction 1 as [|x xs Hx _ IH]; intros ys zs; destruct ys as [|y ys]; destruct zs as [|z zs]; simpl;
      try congruence.
    destruct (cmp x y) eqn:E1; try discriminate; destruct (cmp y z) eqn:E2; try discriminate; intros H1 H2.
    - apply cmp_eq in E1. apply cmp_eq in E2. subst. rewrite cmp_refl. apply (IH ys zs H1 H2).
    - apply cmp_eq in E1. subst. rewrite E2. reflexivity.
    - apply cmp_eq in E2. subst. rewrite E1. reflexivity.
    - rewrite (Hx y z E1 E2). reflexivity.
  Qed.
End Lex.

Lemma bool_cmp_eq x y : Bool.compare x y = Eq -> x = y.
Proof. destruct x, y; simpl; congruence. Qed.

Lemma pv_cmp_eq : forall a b, pv_cmp a b = Eq -> a = b.
Proof.
  induction a as [| b | z | s | l Hl | l Hl] using pv_ind'; intros y; destruct y; simpl; try discriminate;
    try reflexivity.
  - intros H. apply bool_cmp_eq in H. congruence.
  - intros H. apply Z.compare_eq in H. congruence.
  - rewrite lexN_lex. intros H. apply lex_eq in H; [congruence|].
    apply Forall_forall. intros x _ y0 E. apply N.compare_eq in E. exact E.
  - change (pv_cmp (PTup l) (PTup l0) = Eq -> PTup l = PTup l0). rewrite pv_cmp_tup. intros H.
    apply (lex_eq _ _ Hl) in H. congruence.
  - change (pv_cmp (PList l) (PList l0) = Eq -> PList l = PList l0). rewrite pv_cmp_list. intros H.
    apply (lex_eq _ _ Hl) in H. congruence.
Qed.

Lemma pv_cmp_refl : forall a, pv_cmp a a = Eq.
Proof.
  induction a as [| b | z | s | l Hl | l Hl] using pv_ind'; try reflexivity.
  - destruct b; reflexivity.
  - simpl. apply Z.compare_refl.
  - simpl. rewrite lexN_lex. apply lex_refl. apply Forall_forall. intros x _. apply N.compare_refl.
  - rewrite pv_cmp_tup. apply lex_refl. exact Hl.
  - rewrite pv_cmp_list. apply lex_refl. exact Hl.
Qed.

Lemma pv_cmp_antisym : forall a b, pv_cmp b a = CompOpp (pv_cmp a b).
Proof.
  induction a as [| b | z | s | l Hl | l Hl] using pv_ind'; intros y; destruct y; try reflexivity.
  - destruct b, b0; reflexivity.
  - simpl. apply Z.compare_antisym.
  - simpl. rewrite !lexN_lex. apply lex_antisym. apply Forall_forall. intros x _ y0. apply N.compare_antisym.
  - rewrite !pv_cmp_tup. apply lex_antisym. exact Hl.
  - rewrite !pv_cmp_list. apply lex_antisym. exact Hl.
Qed.

Lemma pv_cmp_trans : forall a b c, pv_cmp a b = Lt -> pv_cmp b c = Lt -> pv_cmp a c = Lt.
Proof.
  induction a as [| b | z | s | l Hl | l Hl] using pv_ind'; intros y w; destruct y; destruct w;
    try (simpl; intros; first [discriminate | reflexivity]).
  - destruct b, b0, b1; simpl; congruence.
  - simpl. rewrite !Z.compare_lt_iff. lia.
  - simpl. rewrite !lexN_lex. apply lex_trans.
    + intros x y0 E. apply N.compare_eq in E. exact E.
    + apply N.compare_refl.
    + apply Forall_forall. intros x _ y0 z0. rewrite !N.compare_lt_iff. lia.
  - rewrite !pv_cmp_tup. apply lex_trans; [exact pv_cmp_eq | exact pv_cmp_refl | exact Hl].
  - rewrite !pv_cmp_list. apply lex_trans; [exact pv_cmp_eq | exact pv_cmp_refl | exact Hl].
Qed.

Theorem pv_leb_total : forall a b, pv_leb a b = true \/ pv_leb b a = true.
Proof.
  intros a b. unfold pv_leb. rewrite (pv_cmp_antisym a b). destruct (pv_cmp a b); simpl; auto.
Qed.
Theorem pv_leb_trans : forall a b c, pv_leb a b = true -> pv_leb b c = true -> pv_leb a c = true.
Proof.
  intros a b c. unfold pv_leb.
  destruct (pv_cmp a b) eqn:E1; try discriminate; destruct (pv_cmp b c) eqn:E2; try discriminate; intros _ _.
  - apply pv_cmp_eq in E1. apply pv_cmp_eq in E2. subst. rewrite pv_cmp_refl. reflexivity.
  - apply pv_cmp_eq in E1. subst. rewrite E2. reflexivity.
  - apply pv_cmp_eq in E2. subst. rewrite E1. reflexivity.
  - rewrite (pv_cmp_trans _ _ _ E1 E2). reflexivity.
Qed.

(* on the classes of keys Python can order, pv_leb is Python's <= *)
Lemma pv_leb_int x y : pv_leb (PInt x) (PInt y) = Z.leb x y.
Proof. unfold pv_leb, Z.leb. simpl. destruct (x ?= y)%Z; reflexivity. Qed.
