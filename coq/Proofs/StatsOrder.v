(* C17: max / min are bounds of the data in EVERY instance of the arithmetic whose < is a strict weak order on the
   values involved (R; IEEE floats other than NaN).  Together with tree_max_min_in_data (the value returned is one
   of the data) this is the max / min clause without any rounding, for every partitioning and merge order. *)
From Coq Require Import String ZArith List Lia Bool.
Require Import PV.Base.Num PV.Base.SqrtOps.
Require Import PV.Gen.StatCounter PV.Gen.Covariance PV.Model.Stats PV.Proofs.StatsGeneric.
Import ListNotations.
Open Scope Z_scope.

Section Ordered.
Context {N : NumOps}.
Variable ok : F -> Prop.
Hypothesis lt_irrefl : forall a : F, ok a -> fltb a a = false.
Hypothesis lt_trans : forall a b c : F, ok a -> ok b -> ok c -> fltb a b = true -> fltb b c = true -> fltb a c = true.
Hypothesis lt_negtrans : forall a b c : F, ok a -> ok b -> ok c -> fltb a b = false -> fltb b c = false -> fltb a c = false.

Definition ub (m : F) (l : list F) : Prop := forall x, In x l -> fltb m x = false.
Definition lb (m : F) (l : list F) : Prop := forall x, In x l -> fltb x m = false.

Lemma fmax_ub a b l1 l2 : ok a -> ok b -> Forall ok l1 -> Forall ok l2 ->
  ub a l1 -> ub b l2 -> ub (fmax a b) (l1 ++ l2).
Proof.
  intros Ha Hb F1 F2 H1 H2 x Hx. rewrite Forall_forall in F1, F2.
  unfold fmax. destruct (fltb a b) eqn:E; apply in_app_or in Hx; destruct Hx as [Hx|Hx].
  - destruct (fltb b x) eqn:E2; [|reflexivity].
    pose proof (H1 x Hx) as C. rewrite (lt_trans a b x Ha Hb (F1 x Hx) E E2) in C. discriminate C.
  - apply H2, Hx.
  - apply H1, Hx.
  - exact (lt_negtrans a b x Ha Hb (F2 x Hx) E (H2 x Hx)).
Qed.

Lemma fmin_lb a b l1 l2 : ok a -> ok b -> Forall ok l1 -> Forall ok l2 ->
  lb a l1 -> lb b l2 -> lb (fmin a b) (l1 ++ l2).
Proof.
  intros Ha Hb F1 F2 H1 H2 x Hx. rewrite Forall_forall in F1, F2.
  unfold fmin. destruct (fltb b a) eqn:E; apply in_app_or in Hx; destruct Hx as [Hx|Hx].
  - destruct (fltb x b) eqn:E2; [|reflexivity].
    pose proof (H1 x Hx) as C. rewrite (lt_trans x b a (F1 x Hx) Hb Ha E2 E) in C. discriminate C.
  - apply H2, Hx.
  - apply H1, Hx.
  - exact (lt_negtrans x b a (F2 x Hx) Hb Ha (H2 x Hx) E).
Qed.

Lemma ok_fmax a b : ok a -> ok b -> ok (fmax a b).
Proof. intros Ha Hb. destruct (fmax_cases a b) as [->| ->]; assumption. Qed.
Lemma ok_fmin a b : ok a -> ok b -> ok (fmin a b).
Proof. intros Ha Hb. destruct (fmin_cases a b) as [->| ->]; assumption. Qed.

(* the invariant carried through folds and merges *)
Definition bounded (ninf pinf : F) (s : sc) (xs : list F) : Prop :=
  sc_n s = Z.of_nat (length xs) /\ ok (sc_max s) /\ ok (sc_min s) /\
  ub (sc_max s) (ninf :: xs) /\ lb (sc_min s) (pinf :: xs).

Lemma bounded_add ninf pinf s xs v : ok ninf -> ok pinf -> Forall ok xs -> ok v ->
  bounded ninf pinf s xs -> bounded ninf pinf (sc_add s v) (xs ++ [v]).
Proof.
  intros On Op Fx Ov (Hn & Omx & Omn & Hub & Hlb).
  destruct s as [n mu m2 mx mn]. cbn [sc_n sc_max sc_min] in *.
  unfold bounded, sc_add, sc_of5, sc_merge. cbn [sc_n sc_mu sc_m2 sc_max sc_min].
  split; [rewrite app_length, Nat2Z.inj_add; cbn; lia|].
  split; [apply ok_fmax; assumption|]. split; [apply ok_fmin; assumption|]. split.
  - change (ninf :: xs ++ [v]) with ((ninf :: xs) ++ [v]).
    apply fmax_ub; try assumption; [constructor; assumption | constructor; [assumption|constructor] |].
    intros x [<-|[]]. apply lt_irrefl, Ov.
  - change (pinf :: xs ++ [v]) with ((pinf :: xs) ++ [v]).
    apply fmin_lb; try assumption; [constructor; assumption | constructor; [assumption|constructor] |].
    intros x [<-|[]]. apply lt_irrefl, Ov.
Qed.

Lemma bounded_empty ninf pinf : ok ninf -> ok pinf -> bounded ninf pinf (sc_empty ninf pinf) [].
Proof.
  intros On Op. unfold bounded, sc_empty. cbn [sc_n sc_max sc_min length].
  repeat split; try assumption; intros x [<-|[]]; apply lt_irrefl; assumption.
Qed.

Lemma bounded_fold ninf pinf xs : ok ninf -> ok pinf -> Forall ok xs -> forall s ys, Forall ok ys ->
  bounded ninf pinf s ys -> bounded ninf pinf (fold_left sc_add xs s) (ys ++ xs).
Proof.
  intros On Op. induction xs as [|x xs IH]; intros Fx s ys Fy H; cbn [fold_left].
  - rewrite app_nil_r. exact H.
  - replace (ys ++ x :: xs) with ((ys ++ [x]) ++ xs) by (rewrite <- app_assoc; reflexivity).
    inversion Fx; subst. apply IH; [assumption | apply Forall_app; split; [assumption | constructor; [assumption|constructor]] |].
    apply bounded_add; assumption.
Qed.

Lemma nil_of_len0 {A} (l : list A) : 0 = Z.of_nat (length l) -> l = [].
Proof. destruct l; [reflexivity | cbn; lia]. Qed.

Lemma bounded_comb ninf pinf a b xs ys : ok ninf -> ok pinf -> Forall ok xs -> Forall ok ys ->
  bounded ninf pinf a xs -> bounded ninf pinf b ys -> bounded ninf pinf (sc_comb a b) (xs ++ ys).
Proof.
  intros On Op Fx Fy (Hn1 & Omx1 & Omn1 & Hub1 & Hlb1) (Hn2 & Omx2 & Omn2 & Hub2 & Hlb2).
  destruct a as [n1 mu1 m21 mx1 mn1], b as [n2 mu2 m22 mx2 mn2]. cbn [sc_n sc_max sc_min] in *.
  unfold bounded, sc_comb, sc_of5, sc_mergeStats. cbn [sc_n sc_mu sc_m2 sc_max sc_min].
  destruct (Z.eqb_spec n1 0) as [E1|E1].
  - rewrite E1 in Hn1. rewrite (nil_of_len0 xs Hn1). cbn [app sc_n sc_max sc_min]. repeat split; assumption.
  - destruct (Z.eqb_spec n2 0) as [E2|E2]; cbn [negb].
    + rewrite E2 in Hn2. rewrite (nil_of_len0 ys Hn2), app_nil_r. cbn [sc_n sc_max sc_min]. repeat split; assumption.
    + cbn [sc_n sc_max sc_min]. split; [rewrite app_length, Nat2Z.inj_add; lia|].
      split; [apply ok_fmax; assumption|]. split; [apply ok_fmin; assumption|]. split.
      * intros x Hx. apply (fmax_ub mx1 mx2 (ninf :: xs) (ninf :: ys)); try assumption;
          try (constructor; assumption).
        destruct Hx as [<-|Hx]; [left; reflexivity|].
        apply in_app_or in Hx. destruct Hx as [Hx|Hx]; [right; apply in_or_app; left; exact Hx|].
        right. apply in_or_app. right. right. exact Hx.
      * intros x Hx. apply (fmin_lb mn1 mn2 (pinf :: xs) (pinf :: ys)); try assumption;
          try (constructor; assumption).
        destruct Hx as [<-|Hx]; [left; reflexivity|].
        apply in_app_or in Hx. destruct Hx as [Hx|Hx]; [right; apply in_or_app; left; exact Hx|].
        right. apply in_or_app. right. right. exact Hx.
Qed.

Lemma tree_bounded ninf pinf t : ok ninf -> ok pinf -> Forall ok (tdata t) ->
  bounded ninf pinf (tree_stats ninf pinf t) (tdata t).
Proof.
  intros On Op. induction t as [xs | l IHl r IHr | t IH]; cbn [tree_stats tdata]; intros Fd.
  - unfold sc_of_list. apply (bounded_fold ninf pinf xs On Op Fd _ []); [constructor|]. apply bounded_empty; assumption.
  - apply Forall_app in Fd. destruct Fd as [Fl Fr]. apply bounded_comb; auto.
  - apply Forall_app in Fd. destruct Fd as [Fl _]. unfold sc_comb_self. apply bounded_comb; auto.
Qed.

(* nothing in the data exceeds the reported max; nothing is below the reported min *)
Lemma tree_max_min_bounds ninf pinf t : ok ninf -> ok pinf -> Forall ok (tdata t) ->
  (forall x, In x (tdata t) -> fltb (st_max (tree_stats ninf pinf t)) x = false) /\
  (forall x, In x (tdata t) -> fltb x (st_min (tree_stats ninf pinf t)) = false).
Proof.
  intros On Op Fd. destruct (tree_bounded ninf pinf t On Op Fd) as (_ & _ & _ & Hub & Hlb).
  split; intros x Hx; [apply Hub | apply Hlb]; right; exact Hx.
Qed.
End Ordered.
