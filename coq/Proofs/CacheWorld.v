(* C05 -- ids from the process-wide counter are fresh; with fresh ids every key stands for exactly one
   (dataset, partition); hence every history returns what the cache-free evaluator returns. *)
From Coq Require Import ZArith List Bool Lia.
Require Import PV.Model.Cache PV.Model.CacheSpec PV.Proofs.CacheStream PV.Proofs.CacheCorrect.
Import ListNotations.
Open Scope Z_scope.

(* ------------------------------------------------------------------ generic list facts *)
Lemma NoDup_app_disj : forall {X} (l1 l2 : list X) x, NoDup (l1 ++ l2) -> In x l1 -> In x l2 -> False.
Proof.
  induction l1 as [|a l1 IH]; simpl; intros l2 x H H1 H2; [contradiction|].
  inversion H; subst. destruct H1 as [->|H1].
  - apply H4, in_or_app; auto.
  - eapply IH; eauto.
Qed.
Lemma NoDup_app_l : forall {X} (l1 l2 : list X), NoDup (l1 ++ l2) -> NoDup l1.
Proof.
  induction l1 as [|a l1 IH]; simpl; intros l2 H; [constructor|].
  inversion H; subst. constructor; [intros Hin; apply H2, in_or_app; auto | eapply IH; eauto].
Qed.
Lemma NoDup_app_r : forall {X} (l1 l2 : list X), NoDup (l1 ++ l2) -> NoDup l2.
Proof. induction l1; simpl; intros l2 H; auto. inversion H; subst; auto. Qed.

Lemma concat_nodup_same : forall {X Y} (f : X -> list Y) (l : list X) a b x,
  NoDup (concat (map f l)) -> In a l -> In b l -> In x (f a) -> In x (f b) -> a = b.
Proof.
  induction l as [|c l IH]; simpl; intros a b x H Ha Hb Hxa Hxb; [contradiction|].
  assert (Hin : forall e, In e l -> In x (f e) -> In x (concat (map f l))).
  { intros e He Hx. apply in_concat. exists (f e); split; auto. apply in_map; auto. }
  destruct Ha as [->|Ha], Hb as [->|Hb]; auto.
  - exfalso. eapply NoDup_app_disj; eauto.
  - exfalso. eapply NoDup_app_disj; eauto.
  - eapply IH; eauto. eapply NoDup_app_r; eauto.
Qed.

Lemma concat_nodup_each : forall {X Y} (f : X -> list Y) (l : list X) a,
  NoDup (concat (map f l)) -> In a l -> NoDup (f a).
Proof.
  induction l as [|c l IH]; simpl; intros a H Ha; [contradiction|].
  destruct Ha as [->|Ha]; [eapply NoDup_app_l; eauto | apply IH; auto; eapply NoDup_app_r; eauto].
Qed.

(* strictly increasing above c *)
Fixpoint chain (c : Z) (l : list Z) : Prop :=
  match l with [] => True | x :: l' => c < x /\ chain x l' end.
Lemma chain_gt : forall l c x, chain c l -> In x l -> c < x.
Proof.
  induction l as [|a l IH]; simpl; intros c x H Hin; [contradiction|].
  destruct H as [H1 H2]. destruct Hin as [->|Hin]; auto. specialize (IH _ _ H2 Hin). lia.
Qed.
Lemma chain_NoDup : forall l c, chain c l -> NoDup l.
Proof.
  induction l as [|a l IH]; simpl; intros c H; [constructor|]. constructor.
  - destruct H as [_ H]. intros Hin. pose proof (chain_gt _ _ _ H Hin). lia.
  - destruct H as [_ H]. eapply IH; eauto.
Qed.
Lemma chain_weaken : forall l c c', c' <= c -> chain c l -> chain c' l.
Proof. destruct l; simpl; intros; auto. destruct H0; split; auto; lia. Qed.
Lemma chain_app : forall l1 l2 c c1,
  chain c l1 -> (forall x, In x l1 -> x <= c1) -> c <= c1 -> chain c1 l2 -> chain c (l1 ++ l2).
Proof.
  induction l1 as [|a l1 IH]; simpl; intros l2 c c1 H1 Hb Hc H2.
  - eapply chain_weaken; eauto.
  - destruct H1 as [Ha H1]. split; auto. eapply IH; eauto.
Qed.

Section World.
Variable A : Type.
Implicit Types (w : world A) (P : pipeline A) (m : mgr A) (st : state A).

(* ------------------------------------------------------------------ ids_fresh *)
Lemma number_chain : forall (sts : list (stage A)) c,
  chain c (map fst (fst (number c sts))) /\
  (forall x, In x (map fst (fst (number c sts))) -> x <= snd (number c sts)) /\
  c <= snd (number c sts).
Proof.
  induction sts as [|s sts IH]; intros c; simpl.
  - split; [exact I | split; [intros x [] | lia]].
  - specialize (IH (c + 1)). destruct (number (c + 1) sts) as [ns c'] eqn:E; simpl in *.
    destruct IH as [I1 [I2 I3]]. repeat split; auto; try lia.
    intros x [<-|Hx]; [lia | auto].
Qed.

Lemma alloc_chain : forall (specs : list (pipe_spec A)) c,
  chain c (concat (map (@pipe_ids A) (fst (alloc_all c specs)))) /\
  (forall x, In x (concat (map (@pipe_ids A) (fst (alloc_all c specs)))) -> x <= snd (alloc_all c specs)) /\
  c <= snd (alloc_all c specs).
Proof.
  induction specs as [|[[cx parts] sts] specs IH]; intros c; simpl.
  - split; [exact I | split; [intros x [] | lia]].
  - pose proof (number_chain sts (c + 1)) as [N1 [N2 N3]].
    destruct (number (c + 1) sts) as [ns c1] eqn:E; simpl in *.
    specialize (IH c1). destruct (alloc_all c1 specs) as [ps c2] eqn:E2; simpl in *.
    destruct IH as [I1 [I2 I3]].
    unfold pipe_ids at 1; simpl. repeat split; try lia.
    + eapply chain_app with (c1 := c1); eauto; lia.
    + unfold pipe_ids at 1; simpl. intros x [<-|Hx]; [lia|].
      apply in_app_or in Hx. destruct Hx as [Hx|Hx]; [specialize (N2 _ Hx); lia | auto].
Qed.

Lemma built_ids_fresh : forall w, built w -> NoDup (world_ids w).
Proof.
  intros w [c [specs H]]. unfold world_ids. rewrite H.
  pose proof (alloc_chain specs c) as [C _]. eapply chain_NoDup; eauto.
Qed.

(* ------------------------------------------------------------------ a key stands for one thing *)
Lemma node_id_in_pipe : forall P j rid s, nth_error (p_nodes P) j = Some (rid, s) -> In rid (pipe_ids P).
Proof.
  intros P j rid s H. right. apply nth_error_In in H. apply (in_map fst) in H; auto.
Qed.

Lemma node_pos_unique : forall P j1 j2 rid s1 s2,
  NoDup (pipe_ids P) ->
  nth_error (p_nodes P) j1 = Some (rid, s1) -> nth_error (p_nodes P) j2 = Some (rid, s2) -> j1 = j2.
Proof.
  intros P j1 j2 rid s1 s2 Hnd H1 H2.
  unfold pipe_ids in Hnd. inversion Hnd as [|x l Hx Hnd']; subst.
  rewrite NoDup_nth_error in Hnd'. apply Hnd'.
  - rewrite map_length. assert (Hne : nth_error (p_nodes P) j1 <> None) by congruence.
    apply nth_error_Some in Hne; exact Hne.
  - rewrite (map_nth_error fst _ _ H1), (map_nth_error fst _ _ H2). reflexivity.
Qed.

Lemma wspec_functional : forall w P j rid idx src d,
  NoDup (world_ids w) -> In P (w_pipes w) ->
  nth_error (p_nodes P) j = Some (rid, SPersist) -> nth_error (p_parts P) idx = Some src ->
  (wspec w (rid, Z.of_nat idx) d <-> d = plain_rev (Z.of_nat idx) (rev_prefix j (p_nodes P)) src).
Proof.
  intros w P j rid idx src d Hnd HP Hj Hsrc. split.
  - intros [P' [j' [idx' [src' [HP' [Hj' [Hi [Hs' ->]]]]]]]]. simpl in *.
    assert (P' = P).
    { eapply (concat_nodup_same (@pipe_ids A)); eauto; eapply node_id_in_pipe; eauto. }
    subst P'. assert (j' = j).
    { eapply node_pos_unique; eauto. eapply (concat_nodup_each (@pipe_ids A)); eauto. }
    subst j'. apply Nat2Z.inj in Hi. subst idx'. congruence.
  - intros ->. exists P, j, idx, src. simpl. repeat split; auto.
Qed.

Lemma nodes_ok_suffixes : forall (S : key -> list A -> Prop) rn i src,
  (forall down rid up, rn = down ++ (rid, SPersist) :: up -> forall d, S (rid, i) d <-> d = plain_rev i up src) ->
  nodes_ok A S rn i src.
Proof.
  induction rn as [|[rid st] up IH]; intros i src H; simpl; auto. split.
  - destruct st; auto. apply (H [] rid up); reflexivity.
  - apply IH. intros down rid' up' E. apply (H ((rid, st) :: down) rid' up'). rewrite E; reflexivity.
Qed.

Lemma rev_prefix_split : forall (ns : list (node A)) j down rid up,
  rev_prefix j ns = down ++ (rid, SPersist) :: up ->
  nth_error ns (length up) = Some (rid, SPersist) /\ rev_prefix (length up) ns = up.
Proof.
  intros ns j down rid up H. unfold rev_prefix in *.
  assert (E : firstn j ns = rev up ++ (rid, SPersist) :: rev down).
  { rewrite <- (rev_involutive (firstn j ns)), H, rev_app_distr; simpl. rewrite <- app_assoc; reflexivity. }
  assert (E2 : ns = rev up ++ (rid, SPersist) :: (rev down ++ skipn j ns)).
  { rewrite <- (firstn_skipn j ns) at 1. rewrite E, <- app_assoc; reflexivity. }
  split.
  - rewrite E2. rewrite nth_error_app2; rewrite rev_length; [|lia]. rewrite Nat.sub_diag; reflexivity.
  - rewrite E2. rewrite <- (rev_length up) at 1. rewrite firstn_app, firstn_all, Nat.sub_diag; simpl.
    rewrite app_nil_r, rev_involutive; reflexivity.
Qed.

Lemma world_nodes_ok : forall w P j idx src,
  NoDup (world_ids w) -> In P (w_pipes w) -> nth_error (p_parts P) idx = Some src ->
  nodes_ok A (wspec w) (rev_prefix j (p_nodes P)) (Z.of_nat idx) src.
Proof.
  intros w P j idx src Hnd HP Hsrc. apply nodes_ok_suffixes.
  intros down rid up E d. apply rev_prefix_split in E. destruct E as [E1 E2].
  rewrite <- E2. eapply wspec_functional; eauto.
Qed.

Lemma parts_ok_from : forall (S : key -> list A -> Prop) rn parts o,
  (forall idx src, nth_error parts idx = Some src -> nodes_ok A S rn (o + Z.of_nat idx) src) ->
  parts_ok A S rn o parts.
Proof.
  induction parts as [|src ps IH]; intros o H; simpl; auto. split.
  - specialize (H 0%nat src eq_refl). simpl in H. rewrite Z.add_0_r in H; auto.
  - apply IH. intros idx s Hs. specialize (H (Datatypes.S idx) s Hs).
    replace (o + 1 + Z.of_nat idx) with (o + Z.of_nat (Datatypes.S idx)) by lia. auto.
Qed.

Lemma world_parts_ok : forall w P j,
  NoDup (world_ids w) -> In P (w_pipes w) ->
  parts_ok A (wspec w) (rev_prefix j (p_nodes P)) 0 (p_parts P).
Proof.
  intros w P j Hnd HP. apply parts_ok_from. intros idx src Hs. simpl. eapply world_nodes_ok; eauto.
Qed.

(* ------------------------------------------------------------------ steps and histories *)
Lemma set_nth_length : forall {X} n (x : X) l, length (set_nth n x l) = length l.
Proof. induction n; destruct l; simpl; auto. Qed.
Lemma set_nth_Forall : forall {X} (Q : X -> Prop) n x l, Forall Q l -> Q x -> Forall Q (set_nth n x l).
Proof.
  induction n; destruct l; simpl; intros Hl Hx; auto; inversion Hl; subst; constructor; auto.
Qed.
Lemma nth_error_lt_Some : forall {X} (l : list X) n, (n < length l)%nat -> exists x, nth_error l n = Some x.
Proof. intros X l n H. destruct (nth_error l n) eqn:E; eauto. apply nth_error_None in E; lia. Qed.
Lemma Forall_nth_error : forall {X} (Q : X -> Prop) l n x, Forall Q l -> nth_error l n = Some x -> Q x.
Proof. intros X Q l n x H E. rewrite Forall_forall in H. apply H. eapply nth_error_In; eauto. Qed.

Lemma st_ok_nth : forall w st n m, st_ok w st -> nth_error (s_mgrs st) n = Some m -> mgr_ok A (wspec w) m.
Proof.
  intros w st n m Hok E. unfold st_ok in Hok. rewrite Forall_forall in Hok.
  unfold mgr_ok. apply Hok. eapply nth_error_In; eauto.
Qed.
Lemma st_ok_set : forall w st n m, st_ok w st -> mgr_ok A (wspec w) m -> st_ok w (St (s_now st) (set_nth n m (s_mgrs st))).
Proof. intros w st n m Hok Hm. unfold st_ok; simpl. apply set_nth_Forall; auto. Qed.

Lemma step_correct : forall w st a,
  NoDup (world_ids w) -> wf_world w (length (s_mgrs st)) -> st_ok w st ->
  fst (fst (step w st a)) = spec_action w a /\
  st_ok w (snd (step w st a)) /\
  length (s_mgrs (snd (step w st a))) = length (s_mgrs st).
Proof.
  intros w st a Hnd Hwf Hok. destruct a as [k j ak|k j|dt|mi]; simpl.
  - destruct (nth_error (w_pipes w) k) as [P|] eqn:EP; [|simpl; auto].
    assert (HP : In P (w_pipes w)) by (eapply nth_error_In; eauto).
    unfold wf_world in Hwf. rewrite Forall_forall in Hwf. destruct (Hwf P HP) as [cx [Ecx Hlt]].
    rewrite Ecx. destruct (nth_error_lt_Some _ _ Hlt) as [m Em]. rewrite Em.
    destruct (length (p_nodes P) <? j)%nat; [simpl; auto|].
    assert (Hm : mgr_ok A (wspec w) m) by (eapply st_ok_nth; eauto).
    pose proof (run_action_correct A (wspec w) (c_pool cx) (s_now st) (rev_prefix j (p_nodes P)) (p_parts P) ak m
                  Hm (world_parts_ok w P j Hnd HP)) as [R1 R2].
    destruct (run_action_on (c_pool cx) (s_now st) (rev_prefix j (p_nodes P)) (p_parts P) ak m) as [[r ev] m'].
    simpl in *. repeat split; auto.
    + apply st_ok_set; auto.
    + apply set_nth_length.
  - destruct (nth_error (w_pipes w) k) as [P|] eqn:EP; [|simpl; auto].
    assert (HP : In P (w_pipes w)) by (eapply nth_error_In; eauto).
    unfold wf_world in Hwf. rewrite Forall_forall in Hwf. destruct (Hwf P HP) as [cx [Ecx Hlt]].
    rewrite Ecx. destruct (nth_error_lt_Some _ _ Hlt) as [m Em]. rewrite Em.
    destruct j as [|j']; [simpl; auto|].
    destruct (nth_error (p_nodes P) j') as [[rid [f|p|g|fi0|h0|]]|] eqn:EN; simpl; auto.
    repeat split; auto.
    + apply st_ok_set; auto. apply (delete_parts_ok A (wspec w)). eapply st_ok_nth; eauto.
    + apply set_nth_length.
  - repeat split; auto.
  - destruct (nth_error (s_mgrs st) mi) as [m|] eqn:Em; simpl; auto.
    repeat split; auto.
    + apply st_ok_set; auto. apply (mgr_ok_gc A (wspec w)). eapply st_ok_nth; eauto.
    + apply set_nth_length.
Qed.

Theorem history_transparent : forall w h st,
  NoDup (world_ids w) -> wf_world w (length (s_mgrs st)) -> st_ok w st ->
  map (fun t => fst (fst t)) (run_history w st h) = map (spec_action w) h.
Proof.
  intros w h. induction h as [|a h IH]; intros st Hnd Hwf Hok; simpl; auto.
  pose proof (step_correct w st a Hnd Hwf Hok) as [S1 [S2 S3]].
  destruct (step w st a) as [[r ev] st']; simpl in *. f_equal; auto.
  apply IH; auto. rewrite S3; auto.
Qed.

Lemma init_ok : forall w tos, st_ok w (init_state A tos).
Proof.
  intros w tos. unfold st_ok, init_state; simpl. apply Forall_forall.
  intros m Hm. apply in_map_iff in Hm. destruct Hm as [t [<- _]]. simpl. intros k d t' [].
Qed.

(* reachable states keep the invariant *)
Lemma history_ok : forall w h st,
  NoDup (world_ids w) -> wf_world w (length (s_mgrs st)) -> st_ok w st ->
  st_ok w (final_state w st h) /\ length (s_mgrs (final_state w st h)) = length (s_mgrs st).
Proof.
  intros w h. unfold final_state. induction h as [|a h IH]; intros st Hnd Hwf Hok; simpl; auto.
  pose proof (step_correct w st a Hnd Hwf Hok) as [S1 [S2 S3]].
  destruct (IH (snd (step w st a)) Hnd) as [I1 I2]; auto; [rewrite S3; auto|].
  split; auto. rewrite I2; auto.
Qed.

Theorem persist_transparent : forall w tos h,
  built w -> wf_world w (length tos) ->
  map (fun t => fst (fst t)) (run_history w (init_state A tos) h) = map (spec_action w) h.
Proof.
  intros w tos h Hb Hwf. apply history_transparent.
  - apply built_ids_fresh; auto.
  - unfold init_state; simpl. rewrite map_length; auto.
  - apply init_ok.
Qed.

End World.
