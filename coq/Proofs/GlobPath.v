(* C20 -- lemmas about path strings: split/join, components, os.walk over a finite tree (sound and complete
   for canonical names below the root). *)
From Coq Require Import NArith List Bool Lia.
Require Import PV.Gen.FsDispatch PV.Model.Glob PV.Model.GlobSpec.
Import ListNotations.
Open Scope N_scope.

(* ---------- equality tests *)
Lemma str_eqb_eq a b : str_eqb a b = true <-> a = b.
Proof.
  revert b. induction a as [|x a IH]; intros [|y b]; simpl; split; try congruence; auto.
  - intro H. apply andb_true_iff in H. destruct H as [H1 H2]. apply N.eqb_eq in H1. apply IH in H2. congruence.
  - intro H. inversion H; subst. rewrite N.eqb_refl. apply IH. auto.
Qed.
Lemma str_eqb_refl a : str_eqb a a = true.
Proof. apply str_eqb_eq. auto. Qed.
Lemma comps_eqb_eq a b : comps_eqb a b = true <-> a = b.
Proof.
  revert b. induction a as [|x a IH]; intros [|y b]; simpl; split; try congruence; auto.
  - intro H. apply andb_true_iff in H. destruct H as [H1 H2]. apply str_eqb_eq in H1. apply IH in H2. congruence.
  - intro H. inversion H; subst. rewrite str_eqb_refl. apply IH. auto.
Qed.

Lemma starts_with_spec pre s : starts_with pre s = true <-> exists r, s = pre ++ r.
Proof.
  revert s. induction pre as [|x pre IH]; intros s; simpl.
  - split; eauto.
  - destruct s as [|y s].
    + split; [discriminate|]. intros (r & H). discriminate.
    + rewrite andb_true_iff, N.eqb_eq, IH. split.
      * intros (-> & r & ->). eauto.
      * intros (r & H). inversion H; subst. eauto.
Qed.

(* ---------- has_slash / ends_slash *)
Lemma has_slash_app a b : has_slash (a ++ b) = has_slash a || has_slash b.
Proof. unfold has_slash. apply existsb_app. Qed.
Lemma has_slash_false s : has_slash s = false <-> forall c, In c s -> c <> c_slash.
Proof.
  unfold has_slash. split.
  - intros H c Hc E. subst. assert (T : existsb (N.eqb c_slash) s = true) by (apply existsb_exists; exists c_slash; split; auto).
    congruence.
  - intro H. destruct (existsb (N.eqb c_slash) s) eqn:E; auto. apply existsb_exists in E. destruct E as (c & Hc & E).
    apply N.eqb_eq in E. subst. exfalso. eapply H; eauto.
Qed.

Lemma ends_slash_snoc r c : ends_slash (r ++ [c]) = (c =? c_slash).
Proof.
  induction r as [|x r IH]; simpl; auto. destruct (r ++ [c]) eqn:E.
  - destruct r; discriminate.
  - exact IH.
Qed.
Lemma ends_slash_inv r : ends_slash r = true -> exists r', r = r' ++ [c_slash].
Proof.
  induction r as [|x r IH]. discriminate.
  destruct r as [|y r].
  - simpl. intro H. apply N.eqb_eq in H. subst. exists []. auto.
  - intro H. change (ends_slash (y :: r) = true) in H. destruct (IH H) as (r' & E). exists (x :: r'). rewrite E. auto.
Qed.
Lemma ends_slash_has r : ends_slash r = true -> has_slash r = true.
Proof. intro H. apply ends_slash_inv in H. destruct H as (r' & ->). rewrite has_slash_app. simpl. apply orb_true_r. Qed.

(* ---------- split / join *)
Lemma split_nonnil sep s : split_on sep s <> [].
Proof. destruct s as [|c s]; simpl. discriminate. destruct (c =? sep). discriminate. destruct (split_on sep s); discriminate. Qed.

Lemma split_app sep a b : split_on sep (a ++ sep :: b) = split_on sep a ++ split_on sep b.
Proof.
  induction a as [|c a IH]; simpl.
  - rewrite N.eqb_refl. reflexivity.
  - destruct (c =? sep). { rewrite IH. reflexivity. }
    rewrite IH. destruct (split_on sep a) eqn:E. { exfalso. eapply split_nonnil; eauto. } reflexivity.
Qed.

Lemma split_nosep sep s : (forall c, In c s -> c <> sep) -> split_on sep s = [s].
Proof.
  induction s as [|c s IH]; intro H; simpl; auto.
  destruct (N.eqb_spec c sep) as [E|_]. { exfalso. apply (H c); simpl; auto. }
  rewrite IH. reflexivity. intros x Hx. apply H. right. auto.
Qed.

Lemma split_join sep l : l <> [] -> (forall w, In w l -> forall c, In c w -> c <> sep) -> split_on sep (join sep l) = l.
Proof.
  induction l as [|w l IH]; intros NE H. congruence.
  destruct l as [|w' l].
  - simpl. apply split_nosep. apply H. left. auto.
  - change (join sep (w :: w' :: l)) with (w ++ sep :: join sep (w' :: l)). rewrite split_app.
    rewrite split_nosep by (apply H; left; auto). rewrite IH. reflexivity. discriminate.
    intros x Hx. apply H. right. auto.
Qed.

Lemma join_split sep s : join sep (split_on sep s) = s.
Proof.
  induction s as [|c s IH]; simpl; auto.
  destruct (N.eqb_spec c sep) as [->|NE].
  - destruct (split_on sep s) eqn:E. { exfalso. eapply split_nonnil; eauto. }
    rewrite <- IH. reflexivity.
  - destruct (split_on sep s) as [|w ws] eqn:E. { exfalso. eapply split_nonnil; eauto. }
    rewrite <- IH. destruct ws; reflexivity.
Qed.

(* ---------- components *)
Lemma comp_ok_spec c : comp_ok c = true -> is_proper c = true /\ has_slash c = false.
Proof. unfold comp_ok. intro H. apply andb_true_iff in H. destruct H as [H1 H2]. apply negb_true_iff in H2. auto. Qed.

Lemma norm_id l : forallb comp_ok l = true -> norm_comps l = l.
Proof.
  induction l as [|c l IH]; simpl; auto. intro H. apply andb_true_iff in H. destruct H as [H1 H2].
  apply comp_ok_spec in H1. destruct H1 as [H1 _]. rewrite H1, IH; auto.
Qed.
Lemma norm_app a b : norm_comps (a ++ b) = norm_comps a ++ norm_comps b.
Proof. apply filter_app. Qed.

Lemma split_join_ok cs : cs <> [] -> forallb comp_ok cs = true -> split_on c_slash (join c_slash cs) = cs.
Proof.
  intros NE H. apply split_join; auto. intros w Hw. rewrite forallb_forall in H. apply H in Hw.
  apply comp_ok_spec in Hw. destruct Hw as [_ Hw]. apply has_slash_false. auto.
Qed.

Lemma forallb_app_inv {A} (f : A -> bool) a b : forallb f (a ++ b) = true -> forallb f a = true /\ forallb f b = true.
Proof. rewrite forallb_app. apply andb_true_iff. Qed.

Lemma strip_pre_app d x : strip_pre d (d ++ x) = Some x.
Proof. induction d as [|c d IH]; simpl; auto. rewrite str_eqb_refl. auto. Qed.
Lemma strip_pre_spec d f x : strip_pre d f = Some x -> f = d ++ x.
Proof.
  revert f. induction d as [|c d IH]; intros f H; simpl in *. congruence.
  destruct f as [|y f]; [discriminate|]. destruct (str_eqb c y) eqn:E; [|discriminate].
  apply str_eqb_eq in E. subst. f_equal. auto.
Qed.

(* ---------- disp *)
Lemma is_abs_disp R rest : R <> [] -> is_abs (disp R rest) = is_abs R.
Proof. destruct R; [congruence|]. reflexivity. Qed.

(* the components of root/rest are those of root (up to '' and '.') followed by those of rest *)
Lemma split_disp R rest : R <> [] ->
  exists A, A <> [] /\ split_on c_slash (disp R rest) = A ++ split_on c_slash rest /\
            norm_comps A = norm_comps (split_on c_slash R).
Proof.
  intro NE. unfold disp. destruct (ends_slash R) eqn:E.
  - apply ends_slash_inv in E. destruct E as (R' & ->). exists (split_on c_slash R').
    split. apply split_nonnil. split.
    + rewrite <- app_assoc. simpl. apply split_app.
    + rewrite split_app. simpl. rewrite norm_app. simpl. rewrite app_nil_r. reflexivity.
  - exists (split_on c_slash R). split. apply split_nonnil. split; auto.
    simpl. apply split_app.
Qed.

Definition lead_comps (l : lead) : list str :=
  match l with LAbs => [[]] | LDot => [[c_dot]] | LBare => [] end.

Lemma split_cname l cs : cs <> [] -> forallb comp_ok cs = true ->
  split_on c_slash (lead_str l ++ join c_slash cs) = lead_comps l ++ cs.
Proof.
  intros NE H. pose proof (split_join_ok cs NE H) as S. destruct l; simpl.
  - rewrite S. reflexivity.
  - rewrite S. reflexivity.
  - exact S.
Qed.

Lemma norm_lead l : norm_comps (lead_comps l) = [].
Proof. destruct l; reflexivity. Qed.

Lemma is_abs_cname l cs : cs <> [] -> forallb comp_ok cs = true ->
  is_abs (lead_str l ++ join c_slash cs) = match l with LAbs => true | _ => false end.
Proof.
  intros NE H. destruct l; simpl; auto.
  destruct cs as [|c cs]; [congruence|]. simpl in H. apply andb_true_iff in H. destruct H as [H _].
  apply comp_ok_spec in H. destruct H as [P S]. destruct c as [|x c]; [discriminate|].
  assert (x <> c_slash) by (eapply has_slash_false; eauto; left; auto).
  destruct cs; simpl; apply N.eqb_neq; auto.
Qed.

Lemma wf_cwd fs : wf_fs fs = true -> forallb comp_ok (cwd fs) = true.
Proof. unfold wf_fs. intro H. apply andb_true_iff in H. tauto. Qed.
Lemma wf_file fs f : wf_fs fs = true -> In f (files fs) -> forallb comp_ok f = true /\ f <> [].
Proof.
  unfold wf_fs. intros H I. apply andb_true_iff in H. destruct H as [_ H]. rewrite forallb_forall in H.
  apply H in I. apply andb_true_iff in I. destruct I as [I1 I2]. split; auto. destruct f; congruence.
Qed.

(* ---------- os.walk: soundness *)
Lemma walk_sound fs R s : In s (walk fs R) ->
  R <> [] /\ exists f x, In f (files fs) /\ x <> [] /\ f = denote fs R ++ x /\ s = disp R (join c_slash x).
Proof.
  unfold walk. destruct R as [|r0 R]. { intros []. }
  intro H. split. discriminate. apply in_flat_map in H. destruct H as (f & If & H).
  destruct (strip_pre (denote fs (r0 :: R)) f) as [[|c x]|] eqn:E; try destruct H as [H|[]]; try destruct H.
  apply strip_pre_spec in E. exists f, (c :: x). repeat split; auto. discriminate.
Qed.

Lemma last_app_ne {A} (a b : list A) d : b <> [] -> last (a ++ b) d = last b d.
Proof.
  intro NE. induction a as [|x a IH]; auto. simpl app. simpl. destruct (a ++ b) eqn:E.
  - apply app_eq_nil in E. destruct E. congruence.
  - exact IH.
Qed.

Lemma last_forallb {A} (f : A -> bool) l d : l <> [] -> forallb f l = true -> f (last l d) = true.
Proof.
  intros NE H. rewrite forallb_forall in H. apply H. destruct (exists_last NE) as (l' & x & ->).
  rewrite last_last. apply in_or_app. right. left. auto.
Qed.

(* every walked path names the file it was produced from *)
Lemma walk_names fs R s : wf_fs fs = true -> In s (walk fs R) ->
  In (denote fs s) (files fs) /\ last_proper s = true.
Proof.
  intros WF H. apply walk_sound in H. destruct H as (NE & f & x & If & Nx & Ef & Es).
  destruct (wf_file fs f WF If) as [Okf _]. subst f. apply forallb_app_inv in Okf. destruct Okf as [_ Okx].
  destruct (split_disp R (join c_slash x) NE) as (A & NA & SA & NormA). rewrite split_join_ok in SA by auto.
  split.
  - unfold denote in *. rewrite Es, is_abs_disp by auto. rewrite SA, norm_app, NormA, (norm_id x) by auto.
    rewrite app_assoc. exact If.
  - unfold last_proper. rewrite Es, SA, last_app_ne by auto.
    assert (C : comp_ok (last x []) = true) by (apply last_forallb; auto). apply comp_ok_spec in C. tauto.
Qed.

Lemma walk_isfile fs R s : wf_fs fs = true -> In s (walk fs R) -> isfile fs s = true.
Proof.
  intros WF H. destruct (walk_names fs R s WF H) as [I L]. unfold isfile. rewrite L. simpl.
  apply existsb_exists. exists (denote fs s). split; auto. apply comps_eqb_eq. auto.
Qed.

(* ---------- os.walk: completeness for canonical names below the root *)
Lemma walk_complete fs R rest s f :
  wf_fs fs = true -> In f (files fs) -> cname fs s f -> R <> [] -> s = disp R rest -> In s (walk fs R).
Proof.
  intros WF If (l & cs & NE & Ok & Es & Ef) NR Ed.
  destruct (split_disp R rest NR) as (A & NA & SA & NormA).
  assert (Sp : lead_comps l ++ cs = A ++ split_on c_slash rest).
  { rewrite <- SA, <- Ed, Es. symmetry. apply split_cname; auto. }
  assert (AB : is_abs R = match l with LAbs => true | _ => false end).
  { rewrite <- (is_abs_disp R rest NR), <- Ed, Es. apply is_abs_cname; auto. }
  assert (exists A2, cs = A2 ++ split_on c_slash rest /\ norm_comps A = A2) as (A2 & Ecs & EA2).
  { destruct l; simpl in Sp.
    - destruct A as [|a0 A']; [congruence|]. injection Sp as E0 E1. exists A'. split; [exact E1|].
      subst a0. simpl. apply norm_id. rewrite E1 in Ok. apply forallb_app_inv in Ok. tauto.
    - destruct A as [|a0 A']; [congruence|]. injection Sp as E0 E1. exists A'. split; [exact E1|].
      subst a0. simpl. apply norm_id. rewrite E1 in Ok. apply forallb_app_inv in Ok. tauto.
    - exists A. split; auto. apply norm_id. rewrite Sp in Ok. apply forallb_app_inv in Ok. tauto. }
  assert (D : f = denote fs R ++ split_on c_slash rest).
  { unfold denote. rewrite AB, <- NormA, EA2, Ef, Ecs, app_assoc. destruct l; reflexivity. }
  unfold walk. destruct R as [|r0 R]; [congruence|]. apply in_flat_map. exists f. split; auto.
  rewrite D, strip_pre_app. destruct (split_on c_slash rest) as [|c x] eqn:E.
  { exfalso. eapply split_nonnil; eauto. }
  left. rewrite <- E, join_split. auto.
Qed.
