(* C08 -- binaryRecords framing: fixed-length and struct-length-prefixed records *)
From Coq Require Import String ZArith NArith List Bool Lia.
Require Import PV.Base.PyArith PV.Base.PyStrOps PV.Gen.Codecs PV.Gen.Parallelize PV.Model.Files.
Require Import PV.Proofs.FilesStr PV.Proofs.FilesText PV.Proofs.Files.
Import ListNotations.
Ltac Zify.zify_post_hook ::= Z.to_euclidean_division_equations.
Open Scope Z_scope.


Lemma slice_to_app : forall (r x : list N), slice_to (Z.of_nat (length r)) (r ++ x) = r.
Proof.
  intros r x. unfold slice_to. destruct (Z.leb_spec 0 (Z.of_nat (length r))); [|lia].
  rewrite app_length. replace (Z.to_nat _) with (length r + 0)%nat by lia.
  rewrite firstn_app_2. cbn. apply app_nil_r.
Qed.

(* ---------- FixedLengthChunker *)
Lemma fixed_chunks_at : forall L rs (pre : list N) a,
  0 < L -> Forall (fun r : list N => Z.of_nat (length r) = L) rs ->
  Z.of_nat (length pre) = Z.of_nat a * L ->
  map (fun k => fixed_chunk_at (pre ++ concat rs) L (Z.of_nat k * L)) (seq a (length rs)) = rs.
Proof.
  intros L rs. induction rs as [|r rs IH]; intros pre a HL H Hpre; [reflexivity|].
  apply Forall_cons_iff in H. destruct H as [Hr Hrs].
  cbn [length seq map concat]. f_equal.
  - unfold fixed_chunk_at. rewrite <- Hpre, slice_from_app, <- Hr. apply slice_to_app.
  - rewrite app_assoc. apply IH; [assumption|assumption|].
    rewrite app_length. lia.
Qed.

Theorem fixed_chunks_exact : forall L rs,
  0 < L -> Forall (fun r : list N => Z.of_nat (length r) = L) rs ->
  fixed_chunks L (concat rs) = Ok rs.
Proof.
  intros L rs HL H. unfold fixed_chunks.
  destruct (Z.eqb_spec L 0); [lia|]. destruct (Z.ltb_spec L 0); [lia|].
  f_equal. unfold chunk_starts. rewrite map_map.
  assert (Hlen : Z.of_nat (length (concat rs)) = Z.of_nat (length rs) * L).
  { clear -H. induction H as [|r rs Hr _ IH]; [reflexivity|]. cbn [concat length]. rewrite app_length. lia. }
  rewrite Hlen.
  replace (Z.to_nat ((Z.of_nat (length rs) * L + L - 1) / L)) with (length rs).
  2:{ replace (Z.of_nat (length rs) * L + L - 1) with (Z.of_nat (length rs) * L + (L - 1)) by ring.
      rewrite Z.div_add_l by lia. rewrite Z.div_small by lia. lia. }
  apply (fixed_chunks_at L rs [] 0); [assumption|assumption|reflexivity].
Qed.

(* ---------- struct length prefixes *)
Lemma le_encode_length : forall w n, length (le_encode w n) = w.
Proof. induction w as [|w IH]; intros n; [reflexivity|]. cbn. rewrite IH. reflexivity. Qed.
Lemma le_roundtrip : forall w n, 0 <= n < 256 ^ Z.of_nat w -> le_decode (le_encode w n) = n.
Proof.
  induction w as [|w IH]; intros n Hn.
  - change (256 ^ Z.of_nat 0) with 1 in Hn. cbn. lia.
  - cbn [le_encode le_decode].
    replace (Z.of_nat (S w)) with (Z.of_nat w + 1) in Hn by lia.
    rewrite Z.pow_add_r in Hn by lia. change (256 ^ 1) with 256 in Hn.
    rewrite IH by lia. rewrite Z2N.id by lia. lia.
Qed.
Lemma unpack_encoded : forall be w n, 0 <= n < 256 ^ Z.of_nat w ->
  unpack_len be w (if be then be_encode w n else le_encode w n) = Some n.
Proof.
  intros be w n Hn. unfold unpack_len. destruct be.
  - unfold be_encode, be_decode. rewrite rev_length, le_encode_length, Nat.eqb_refl, rev_involutive, le_roundtrip by exact Hn.
    reflexivity.
  - rewrite le_encode_length, Nat.eqb_refl, le_roundtrip by exact Hn. reflexivity.
Qed.

Lemma var_step_frame : forall be w r rest, 0 <= Z.of_nat (length r) < 256 ^ Z.of_nat w ->
  var_chunk_step (unpack_len be w) (Z.of_nat w) (frame be w r ++ rest) = Some (r, rest).
Proof.
  intros be w r rest Hr. unfold var_chunk_step, frame.
  set (e := if be then be_encode w (Z.of_nat (length r)) else le_encode w (Z.of_nat (length r))).
  assert (He : length e = w).
  { unfold e. destruct be; [unfold be_encode; rewrite rev_length|]; apply le_encode_length. }
  rewrite <- !app_assoc. replace (Z.of_nat w) with (Z.of_nat (length e)) by (rewrite He; reflexivity).
  rewrite slice_to_app, slice_from_app.
  unfold e. rewrite unpack_encoded by exact Hr. rewrite slice_to_app, slice_from_app. reflexivity.
Qed.

Lemma var_chunks_frames : forall be w rs fuel, (1 <= w)%nat ->
  Forall (fun r : list N => Z.of_nat (length r) < 256 ^ Z.of_nat w) rs ->
  (length (concat (map (frame be w) rs)) <= fuel)%nat ->
  var_chunks_fuel fuel be w (concat (map (frame be w) rs)) = Ok rs.
Proof.
  intros be w rs. induction rs as [|r rs IH]; intros fuel Hw H Hf; [destruct fuel; reflexivity|].
  apply Forall_cons_iff in H. destruct H as [Hr Hrs]. cbn [map concat] in *.
  assert (Hfl : (w <= length (frame be w r))%nat).
  { unfold frame. rewrite app_length. destruct be; [unfold be_encode; rewrite rev_length|]; rewrite le_encode_length; lia. }
  destruct (frame be w r ++ concat (map (frame be w) rs)) as [|x d] eqn:E.
  { apply (f_equal (@length N)) in E. rewrite app_length in E. cbn in E. lia. }
  destruct fuel as [|fuel]; [cbn in Hf; lia|].
  cbn [var_chunks_fuel]. rewrite <- E. rewrite var_step_frame by lia.
  rewrite IH; [reflexivity|assumption|assumption|].
  rewrite <- E, app_length in Hf. lia.
Qed.

Theorem prefixed_chunks_exact : forall be w rs, (1 <= w)%nat ->
  Forall (fun r : list N => Z.of_nat (length r) < 256 ^ Z.of_nat w) rs ->
  var_chunks be w (concat (map (frame be w) rs)) = Ok rs.
Proof. intros be w rs Hw H. unfold var_chunks. apply var_chunks_frames; [assumption|assumption|apply le_n]. Qed.
