(* C16 -- randomSplit: exactly one split per element, given monotone lower boundaries.
   (The monotonicity itself is float arithmetic: PV.Proofs.SampleFloat.) *)
From Coq Require Import ZArith NArith Bool String List Lia Permutation.
From Coq Require Import SpecFloat.
Require Import PV.Base.Num PV.Base.NumSF PV.Gen.Sampling PV.Model.Sample PV.Proofs.Sample PV.Proofs.SampleOrd.
Import ListNotations.
Open Scope Z_scope.

Lemma rs_member_link lb r ub : rs_member (N:=SFOps) lb r ub = SFleb lb r && SFltb r ub.
Proof. reflexivity. Qed.
Lemma rs_first_link : rs_first (N:=SFOps) = sf_zero.
Proof. reflexivity. Qed.
Lemma rs_force_last_link : rs_force_last (N:=SFOps) = Some sf_one.
Proof. reflexivity. Qed.
Lemma rs_next_link last w s : rs_next (N:=SFOps) last w s = sf_add last (sf_div w s).
Proof. reflexivity. Qed.

(* intervals over lower bounds lb, c1, c2, ... and a final upper bound U *)
Fixpoint ivs_of (lb : fl) (cs : list fl) (U : fl) : list (fl * fl) :=
  match cs with
  | [] => [(lb, U)]
  | c :: cs' => (lb, c) :: ivs_of c cs' U
  end.
Fixpoint mono (lb : fl) (cs : list fl) : Prop :=
  match cs with
  | [] => True
  | c :: cs' => SFleb lb c = true /\ mono c cs'
  end.
Definition count (r : fl) (ivs : list (fl * fl)) : nat := List.length (filter (fun iv => member iv r) ivs).

Lemma member_eq lb ub r : member (lb, ub) r = SFleb lb r && SFltb r ub.
Proof. unfold member. simpl. apply rs_member_link. Qed.

Lemma none_above cs : forall lb U r, SFltb r lb = true -> mono lb cs -> count r (ivs_of lb cs U) = 0%nat.
Proof.
  induction cs as [|c cs IH]; intros lb U r Hr Hm; unfold count; simpl; rewrite member_eq, (lt_not_le _ _ Hr); simpl.
  - reflexivity.
  - destruct Hm as [Hc Hm]. apply IH; [eapply lt_le_trans; eauto | exact Hm].
Qed.

Lemma exactly_one cs : forall lb U r,
  SFleb lb r = true -> SFltb r U = true -> mono lb cs -> count r (ivs_of lb cs U) = 1%nat.
Proof.
  induction cs as [|c cs IH]; intros lb U r Hl Hu Hm; unfold count; simpl; rewrite member_eq, Hl; simpl.
  - rewrite Hu. reflexivity.
  - destruct Hm as [Hc Hm]. destruct (SFltb r c) eqn:E; simpl.
    + f_equal. apply none_above; assumption.
    + apply IH; [|exact Hu|exact Hm]. apply not_lt_le; [apply (SFleb_nonnan _ _ Hl) | apply (SFleb_nonnan _ _ Hc) | exact E].
Qed.

Lemma mono_removelast cs : forall lb, mono lb cs -> mono lb (removelast cs).
Proof.
  induction cs as [|c cs IH]; intros lb H; simpl; [exact I|]. destruct H as [H1 H2].
  destruct cs as [|c' cs']; [exact I|]. split; [exact H1 | apply IH; exact H2].
Qed.

Lemma intervals_ivs (R : list fl) : forall b0 U, intervals (b0 :: R ++ [U]) = ivs_of b0 R U.
Proof.
  induction R as [|c R IH]; intros b0 U; [reflexivity|].
  cbn [ivs_of]. rewrite <- IH. reflexivity.
Qed.

Lemma removelast_cons (b0 : fl) l : l <> [] -> removelast (b0 :: l) = b0 :: removelast l.
Proof. destruct l; [congruence | reflexivity]. Qed.

Lemma intervals_forced (l : list fl) b0 U : l <> [] ->
  intervals (removelast (b0 :: l) ++ [U]) = ivs_of b0 (removelast l) U.
Proof. intros H. rewrite removelast_cons by exact H. apply intervals_ivs. Qed.

(* ---------------- from "exactly one interval per draw" to an assignment of elements to splits *)
Section Assign.
Variable A : Type.

Fixpoint idx (ivs : list (fl * fl)) (r : fl) : nat :=
  match ivs with
  | [] => 0%nat
  | iv :: t => if member iv r then 0%nat else S (idx t r)
  end.

Lemma count_zero r ivs : count r ivs = 0%nat -> forall i d, member (nth i ivs d) r = true -> (List.length ivs <= i)%nat.
Proof.
  unfold count. induction ivs as [|iv t IH]; intros H i d Hm; simpl; [lia|].
  simpl in H. destruct (member iv r) eqn:E; [discriminate|].
  destruct i as [|i]; simpl in Hm; [congruence|]. specialize (IH H i d Hm). lia.
Qed.

Lemma unique_member r ivs d : count r ivs = 1%nat ->
  (idx ivs r < List.length ivs)%nat /\
  forall i, (i < List.length ivs)%nat -> member (nth i ivs d) r = Nat.eqb (idx ivs r) i.
Proof.
  unfold count. induction ivs as [|iv t IH]; simpl; [discriminate|].
  destruct (member iv r) eqn:E; simpl; intros H.
  - split; [lia|]. intros [|i] Hi; [exact E|]. simpl.
    destruct (member (nth i t d) r) eqn:Em; [|reflexivity].
    assert (Hz : count r t = 0%nat) by (unfold count; lia).
    pose proof (count_zero r t Hz i d Em). lia.
  - destruct (IH H) as [H1 H2]. split; [lia|]. intros [|i] Hi; [exact E|]. simpl. apply H2. lia.
Qed.

(* the elements assigned to split i, in order *)
Definition select (i : nat) (es : list A) (a : list nat) : list A :=
  map fst (filter (fun ea => Nat.eqb (snd ea) i) (combine es a)).

Lemma tag_draws_inv (es : list A) us tagged rest :
  tag_draws A es us = Ok (tagged, rest) ->
  map fst tagged = es /\ us = map snd tagged ++ rest.
Proof.
  revert us tagged rest; induction es as [|e es IH]; intros us tagged rest; simpl.
  - intros [= <- <-]. auto.
  - destruct us as [|r us]; [discriminate|].
    destruct (tag_draws A es us) as [[l rst]|] eqn:E; [|discriminate]. intros [= <- <-].
    destruct (IH _ _ _ E) as [H1 H2]. simpl. subst. auto.
Qed.

Lemma splits_assignment (ivs : list (fl * fl)) (tagged : list (A * fl)) :
  Forall (fun er => count (snd er) ivs = 1%nat) tagged ->
  let a := map (fun er => idx ivs (snd er)) tagged in
  List.length a = List.length (map fst tagged) /\
  Forall (fun i => (i < List.length ivs)%nat) a /\
  splits_of A ivs tagged = map (fun i => select i (map fst tagged) a) (seq 0 (List.length ivs)).
Proof.
  intros Hall a. split; [unfold a; now rewrite !map_length|]. split.
  - unfold a. apply Forall_forall. intros i Hi. apply in_map_iff in Hi as [er [<- Her]].
    rewrite Forall_forall in Hall. apply (unique_member _ _ (sf_zero, sf_zero) (Hall er Her)).
  - unfold splits_of.
    assert (E : ivs = map (fun i => nth i ivs (sf_zero, sf_zero)) (seq 0 (List.length ivs))).
    { clear. induction ivs as [|iv t IH]; simpl; [reflexivity|]. f_equal. rewrite <- seq_shift, map_map. exact IH. }
    rewrite E at 1. rewrite map_map. apply map_ext_in. intros i Hi. apply in_seq in Hi.
    unfold select, a. clear a E.
    induction tagged as [|[e r] t IH]; simpl; [reflexivity|].
    inversion Hall as [|? ? H1 H2]; subst. simpl in H1.
    destruct (unique_member r ivs (sf_zero, sf_zero) H1) as [_ Hu]. rewrite Hu by lia.
    destruct (Nat.eqb (idx ivs r) i); simpl; [f_equal|]; apply IH; exact H2.
Qed.

Lemma select_Subseq i (es : list A) a : List.length a = List.length es -> Subseq (select i es a) es.
Proof.
  unfold select. revert a; induction es as [|e es IH]; intros [|n a] Hl; simpl in *; try discriminate.
  - constructor.
  - destruct (Nat.eqb n i); simpl; constructor; apply IH; lia.
Qed.

Lemma select_partition (es : list A) a n :
  List.length a = List.length es -> Forall (fun i => (i < n)%nat) a ->
  Permutation (List.concat (map (fun i => select i es a) (seq 0 n))) es.
Proof.
  revert a; induction es as [|e es IH]; intros [|k a] Hl Ha; simpl in *; try discriminate.
  - clear. induction (seq 0 n); simpl; [constructor | assumption].
  - inversion Ha as [|? ? Hk Ha']; subst.
    specialize (IH a ltac:(lia) Ha').
    eapply Permutation_trans; [|constructor; exact IH].
    clear IH Ha Ha' Hl. unfold select. simpl.
    assert (G : forall l, NoDup l -> 
      (In k l -> Permutation (List.concat (map (fun i => map fst (if Nat.eqb k i then (e, k) :: filter (fun ea => Nat.eqb (snd ea) i) (combine es a) else filter (fun ea => Nat.eqb (snd ea) i) (combine es a))) l))
                             (e :: List.concat (map (fun i => map fst (filter (fun ea => Nat.eqb (snd ea) i) (combine es a))) l))) /\
      (~ In k l -> List.concat (map (fun i => map fst (if Nat.eqb k i then (e, k) :: filter (fun ea => Nat.eqb (snd ea) i) (combine es a) else filter (fun ea => Nat.eqb (snd ea) i) (combine es a))) l)
                   = List.concat (map (fun i => map fst (filter (fun ea => Nat.eqb (snd ea) i) (combine es a))) l))).
    { induction l as [|i l IHl]; intros Hnd; simpl.
      - split; [tauto | reflexivity].
      - inversion Hnd as [|? ? Hni Hnd']; subst. destruct (IHl Hnd') as [I1 I2]. split.
        + intros [-> | Hin].
          * rewrite Nat.eqb_refl. simpl. constructor. rewrite I2 by assumption. reflexivity.
          * destruct (Nat.eqb_spec k i) as [-> | Hne]; [contradiction|].
            eapply Permutation_trans; [apply Permutation_app_head; apply I1; exact Hin|].
            apply Permutation_sym, Permutation_middle.
        + intros Hn. destruct (Nat.eqb_spec k i) as [-> | Hne]; [exfalso; apply Hn; auto|].
          f_equal. apply I2. intros Hin. apply Hn. auto. }
    apply (G (seq 0 n) (seq_NoDup n 0)). apply in_seq. lia.
Qed.

End Assign.
