(* C15 -- row counts of the operations (count() = number of collected rows throughout). *)
From Coq Require Import String ZArith NArith List Bool Lia.
Require Import PV.Base.Val PV.Gen.SchemaNames PV.Model.Schema PV.Proofs.Schema PV.Proofs.SchemaOps PV.Proofs.SchemaChain.
Import ListNotations.
Open Scope Z_scope.
Close Scope string_scope.

Lemma count_rows : forall f, count f = Z.of_nat (length (rows f)).
Proof. intros f. unfold count, rdd_count. simpl. lia. Qed.

(* projections keep the number of rows *)
Lemma select_count : forall f cols p, select f cols = Ok p -> length (p_rows p) = length (rows f).
Proof.
  intros f cols p H. unfold select in H. inv_bind H as pfs Hpfs. inv_bind H as rs Hrs.
  inversion H; subst. simpl. eapply mapM_length; eauto.
Qed.
Lemma with_column_count : forall f n e p, with_column f n e = Ok p -> length (p_rows p) = length (rows f).
Proof. intros f n e p H. unfold with_column in H. destruct (mem_name n (snames f)); eapply select_count; eauto. Qed.
Lemma drop_count : forall f cols p, drop f cols = Ok p -> length (p_rows p) = length (rows f).
Proof.
  intros f cols p H. unfold drop in H. inv_bind H as ps Hps. inv_bind H as rs Hrs.
  inversion H; subst. simpl. eapply mapM_length; eauto.
Qed.
Lemma rename_count : forall f o n p, rename f o n = Ok p -> length (p_rows p) = length (rows f).
Proof.
  intros f o n p H. unfold rename in H. inv_bind H as rs Hrs. inversion H; subst. simpl. eapply mapM_length; eauto.
Qed.
Lemma to_df_count : forall f names p, to_df f names = Ok p -> length (p_rows p) = length (rows f).
Proof.
  intros f names p H. unfold to_df in H. inv_bind H as rs Hrs. inversion H; subst. simpl. eapply mapM_length; eauto.
Qed.

Lemma union_count : forall f g p, union f g = Ok p -> length (p_rows p) = (length (rows f) + length (rows g))%nat.
Proof.
  intros f g p H. unfold union in H. destruct (negb _); [discriminate|]. inversion H; subst. simpl.
  now rewrite app_length, map_length.
Qed.
Lemma union_by_name_count : forall f g p,
  union_by_name f g = Ok p -> length (p_rows p) = (length (rows f) + length (rows g))%nat.
Proof.
  intros f g p H. unfold union_by_name in H.
  destruct (negb (nodup_names (map fname (fields f)))); [discriminate|].
  destruct (negb (nodup_names (map fname (fields g)))); [discriminate|].
  destruct (negb (Nat.eqb _ _)); [discriminate|].
  inv_bind H as rs Hrs. inversion H; subst. simpl. rewrite app_length. f_equal. eapply mapM_length; eauto.
Qed.

Lemma flat_map_map_length {A B C} (h : A -> B -> C) (ys : list B) : forall xs : list A,
  length (flat_map (fun l => map (h l) ys) xs) = (length xs * length ys)%nat.
Proof. induction xs as [|x xs IH]; simpl; auto. now rewrite app_length, map_length, IH. Qed.

Lemma cross_join_count : forall f g p,
  cross_join f g = Ok p -> length (p_rows p) = (length (rows f) * length (rows g))%nat.
Proof.
  intros f g p H. unfold cross_join in H. inversion H; subst. simpl.
  apply (flat_map_map_length (fun l r : row => (fst l ++ fst r, snd l ++ snd r))).
Qed.

Lemma limit_count : forall f n p, limit f n = Ok p -> length (p_rows p) = Nat.min (Z.to_nat n) (length (rows f)).
Proof. intros f n p H. inversion H; subst. simpl. apply firstn_length. Qed.

(* every left row goes to exactly one of the left-semi and the left-anti join *)
Lemma split_length {A B} (c : A -> bool) (x y : A -> B) : forall l : list A,
  (length (flat_map (fun a => if c a then [x a] else []) l)
   + length (flat_map (fun a => if c a then [] else [y a]) l))%nat = length l.
Proof.
  induction l as [|a l IH]; simpl; auto. rewrite !app_length. destruct (c a); simpl; lia.
Qed.

Lemma semi_anti_pairs : forall lk rk,
  (length (join_pairs JSemi lk rk) + length (join_pairs JAnti lk rk))%nat = length lk.
Proof.
  intros lk rk.
  set (c := fun l : list val * row =>
              match filter (fun kr : list val * row => vals_eqb (fst l) (fst kr)) rk with [] => false | _ => true end).
  rewrite <- (split_length c (fun l => (Some (snd l), Some (([] : list name), ([] : list val))))
                             (fun l => (Some (snd l), @None row)) lk).
  f_equal; unfold join_pairs; f_equal; apply flat_map_ext; intros a; unfold c;
    destruct (filter _ rk); reflexivity.
Qed.

Lemma join_count_pairs : forall f g how on p lk rk,
  mapM (fun r => bind (mapM (row_get r) on) (fun k => Ok (k, r))) (rows f) = Ok lk ->
  mapM (fun r => bind (mapM (row_get r) on) (fun k => Ok (k, r))) (rows g) = Ok rk ->
  join f g how on = Ok p -> length (p_rows p) = length (join_pairs how lk rk).
Proof.
  intros f g how on p lk rk Hlk Hrk H. unfold join in H.
  inv_bind H as pfs Hpfs. inv_bind H as lon Hlon. inv_bind H as ron Hron.
  inv_bind H as lk' Hlk'. inv_bind H as rk' Hrk'. inv_bind H as rs Hrs. inversion H; subst. simpl.
  assert (lk' = lk) by congruence. assert (rk' = rk) by congruence. subst.
  eapply mapM_length; eauto.
Qed.

Theorem semi_anti_partition : forall f g on ps pa,
  join f g JSemi on = Ok ps -> join f g JAnti on = Ok pa ->
  (length (p_rows ps) + length (p_rows pa))%nat = length (rows f).
Proof.
  intros f g on ps pa Hs Ha.
  assert (Hk : exists lk rk,
     mapM (fun r => bind (mapM (row_get r) on) (fun k => Ok (k, r))) (rows f) = Ok lk /\
     mapM (fun r => bind (mapM (row_get r) on) (fun k => Ok (k, r))) (rows g) = Ok rk).
  { unfold join in Hs. inv_bind Hs as pfs Hpfs. inv_bind Hs as lon Hlon. inv_bind Hs as ron Hron.
    inv_bind Hs as lk Hlk. inv_bind Hs as rk Hrk. eauto. }
  destruct Hk as [lk [rk [Hlk Hrk]]].
  rewrite (join_count_pairs _ _ _ _ _ _ _ Hlk Hrk Hs), (join_count_pairs _ _ _ _ _ _ _ Hlk Hrk Ha).
  rewrite semi_anti_pairs. eapply mapM_length; eauto.
Qed.
