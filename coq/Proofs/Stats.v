(* C17, exact-arithmetic part: the StatCounter model instantiated with R.
   Rep lo hi s xs -- the counter s represents the data xs: n = |xs|, n*mu = sum, m2 = sum (x-mu)^2, max/min are the
   running max/min started from the sentinels lo/hi.  Rep is established by the empty counter, preserved by the
   Welford update (Rep_add) and by the Chan merge on all five paths (Rep_comb), hence by every merge tree over every
   composition of the data (tree_rep, tree_over_rep) and by RDD.aggregate (rdd_stats_rep); it is invariant under
   permutations of the data; and it implies that every accessor equals the two-pass value (Rep_two_pass). *)
From Coq Require Import ZArith Reals List Lra Lia Permutation Bool.
Require Import PV.Base.Num PV.Base.NumR PV.Base.SqrtOps PV.Base.SqrtOpsR.
Require Import PV.Gen.StatCounter PV.Gen.Covariance PV.Model.Stats.
Import ListNotations.
Open Scope R_scope.

Fixpoint sumR (xs : list R) : R := match xs with [] => 0 | x :: r => x + sumR r end.
Definition ssq (c : R) (xs : list R) : R := sumR (map (fun x => (x - c) * (x - c)) xs).
Fixpoint lmax (lo : R) (xs : list R) : R := match xs with [] => lo | x :: r => Rmax x (lmax lo r) end.
Fixpoint lmin (hi : R) (xs : list R) : R := match xs with [] => hi | x :: r => Rmin x (lmin hi r) end.
Definition len {A} (xs : list A) : R := IZR (Z.of_nat (length xs)).

Lemma len_nil {A} : len (@nil A) = 0.
Proof. reflexivity. Qed.
Lemma len_cons {A} (x : A) xs : len (x :: xs) = len xs + 1.
Proof. unfold len. cbn [length]. rewrite Nat2Z.inj_succ, succ_IZR. reflexivity. Qed.
Lemma len_app {A} (xs ys : list A) : len (xs ++ ys) = len xs + len ys.
Proof. unfold len. rewrite app_length, Nat2Z.inj_add, plus_IZR. reflexivity. Qed.
Lemma len_nonneg {A} (xs : list A) : 0 <= len xs.
Proof. unfold len. apply IZR_le. lia. Qed.
Lemma len_pos {A} (xs : list A) : xs <> [] -> 0 < len xs.
Proof. destruct xs; [congruence|]. intros _. rewrite len_cons. pose proof (len_nonneg xs). lra. Qed.

Lemma sumR_app xs ys : sumR (xs ++ ys) = sumR xs + sumR ys.
Proof. induction xs as [|x xs IH]; cbn; [lra|]. rewrite IH. lra. Qed.
Lemma ssq_app c xs ys : ssq c (xs ++ ys) = ssq c xs + ssq c ys.
Proof. unfold ssq. rewrite map_app, sumR_app. reflexivity. Qed.
Lemma ssq_nonneg c xs : 0 <= ssq c xs.
Proof. unfold ssq. induction xs as [|x xs IH]; cbn; [lra|]. pose proof (Rle_0_sqr (x - c)) as H. unfold Rsqr in H. lra. Qed.

(* the shift identity: sum of squares about c in terms of the sum of squares about m *)
Lemma ssq_shift c m xs :
  ssq c xs = ssq m xs + 2 * (m - c) * (sumR xs - len xs * m) + len xs * ((m - c) * (m - c)).
Proof.
  induction xs as [|x xs IH].
  - unfold ssq, len. cbn. lra.
  - unfold ssq in *. cbn [map sumR]. rewrite IH, len_cons. ring.
Qed.

Lemma lmax_ge_lo lo xs : lo <= lmax lo xs.
Proof. induction xs as [|x xs IH]; cbn; [lra|]. pose proof (Rmax_r x (lmax lo xs)). lra. Qed.
Lemma lmin_le_hi hi xs : lmin hi xs <= hi.
Proof. induction xs as [|x xs IH]; cbn; [lra|]. pose proof (Rmin_r x (lmin hi xs)). lra. Qed.
Lemma lmax_app lo xs ys : lmax lo (xs ++ ys) = Rmax (lmax lo xs) (lmax lo ys).
Proof.
  induction xs as [|x xs IH]; cbn.
  - rewrite Rmax_right; [reflexivity | apply lmax_ge_lo].
  - rewrite IH, Rmax_assoc. reflexivity.
Qed.
Lemma lmin_app hi xs ys : lmin hi (xs ++ ys) = Rmin (lmin hi xs) (lmin hi ys).
Proof.
  induction xs as [|x xs IH]; cbn.
  - rewrite Rmin_right; [reflexivity | apply lmin_le_hi].
  - rewrite IH, Rmin_assoc. reflexivity.
Qed.

(* fmax / fmin of the R instance are Rmax / Rmin *)
Lemma fmax_R (a b : R) : @fmax ROps a b = Rmax a b.
Proof.
  unfold fmax. cbn. unfold Rltb. destruct (Rlt_dec a b) as [H|H].
  - rewrite Rmax_right; lra.
  - rewrite Rmax_left; lra.
Qed.
Lemma fmin_R (a b : R) : @fmin ROps a b = Rmin a b.
Proof.
  unfold fmin. cbn. unfold Rltb. destruct (Rlt_dec b a) as [H|H].
  - rewrite Rmin_right; lra.
  - rewrite Rmin_left; lra.
Qed.

Notation scR := (@sc ROps).

Record Rep (lo hi : R) (s : scR) (xs : list R) : Prop := mkRep {
  rep_n : sc_n s = Z.of_nat (length xs);
  rep_mu : IZR (sc_n s) * sc_mu s = sumR xs;
  rep_m2 : sc_m2 s = ssq (sc_mu s) xs;
  rep_max : sc_max s = lmax lo xs;
  rep_min : sc_min s = lmin hi xs }.

Lemma Rep_empty lo hi : Rep lo hi (sc_empty lo hi) [].
Proof. constructor; cbn; try reflexivity; lra. Qed.

Lemma Rep_add lo hi s xs v : Rep lo hi s xs -> Rep lo hi (sc_add s v) (xs ++ [v]).
Proof.
  destruct s as [n mu m2 mx mn]. intros [Hn Hmu Hm2 Hmx Hmn]. cbn in *.
  assert (Hlen : IZR n = len xs) by (unfold len; rewrite Hn; reflexivity).
  pose proof (len_nonneg xs) as Hpos.
  unfold sc_add, sc_of5, sc_merge. cbn [sc_n sc_mu sc_m2 sc_max sc_min].
  cbn [F fadd fsub fmul fdiv fofZ ROps].
  constructor; cbn [sc_n sc_mu sc_m2 sc_max sc_min].
  - rewrite app_length. cbn. lia.
  - rewrite sumR_app. cbn. rewrite plus_IZR, Hlen. rewrite Hlen in Hmu. rewrite <- Hmu. field. lra.
  - rewrite ssq_app. rewrite (ssq_shift _ mu xs). rewrite <- Hm2, <- Hmu, plus_IZR, Hlen.
    unfold ssq. cbn. field. lra.
  - rewrite fmax_R, lmax_app, Hmx. cbn. pose proof (lmax_ge_lo lo xs).
    unfold Rmax. repeat destruct Rle_dec; lra.
  - rewrite fmin_R, lmin_app, Hmn. cbn. pose proof (lmin_le_hi hi xs).
    unfold Rmin. repeat destruct Rle_dec; lra.
Qed.


Lemma Rep_len lo hi s xs : Rep lo hi s xs -> IZR (sc_n s) = len xs.
Proof. intros [Hn _ _ _ _]. unfold len. rewrite Hn. reflexivity. Qed.

Lemma len_zero_nil {A} (xs : list A) : Z.of_nat (length xs) = 0%Z -> xs = [].
Proof. destruct xs; [reflexivity | cbn; lia]. Qed.

(* the pairwise merge, all five paths: self empty / other empty / other much smaller / self much smaller / comparable *)
Lemma Rep_comb lo hi a b xs ys :
  Rep lo hi a xs -> Rep lo hi b ys -> Rep lo hi (sc_comb a b) (xs ++ ys).
Proof.
  intros Ha Hb.
  pose proof (Rep_len _ _ _ _ Ha) as Hla. pose proof (Rep_len _ _ _ _ Hb) as Hlb.
  destruct a as [n1 mu1 m21 mx1 mn1]. destruct b as [n2 mu2 m22 mx2 mn2].
  destruct Ha as [Hn1 Hmu1 Hm21 Hmx1 Hmn1]. destruct Hb as [Hn2 Hmu2 Hm22 Hmx2 Hmn2].
  cbn [sc_n sc_mu sc_m2 sc_max sc_min] in *.
  unfold sc_comb, sc_of5, sc_mergeStats. cbn [sc_n sc_mu sc_m2 sc_max sc_min].
  destruct (Z.eqb_spec n1 0) as [E1|E1].
  - (* self is empty: take other's fields *)
    assert (xs = []) by (apply len_zero_nil; lia). subst xs. cbn [app].
    constructor; cbn [sc_n sc_mu sc_m2 sc_max sc_min]; assumption.
  - destruct (Z.eqb_spec n2 0) as [E2|E2]; cbn [negb].
    + (* other is empty: unchanged *)
      assert (ys = []) by (apply len_zero_nil; lia). subst ys. rewrite app_nil_r.
      constructor; cbn [sc_n sc_mu sc_m2 sc_max sc_min]; assumption.
    + assert (Hp1 : 0 < len xs) by (rewrite <- Hla; apply IZR_lt; lia).
      assert (Hp2 : 0 < len ys) by (rewrite <- Hlb; apply IZR_lt; lia).
      rewrite Hla in Hmu1. rewrite Hlb in Hmu2.
      assert (Hmu : forall m, m = (len xs * mu1 + len ys * mu2) / (len xs + len ys) ->
                 Rep lo hi (mkSC (n1 + n2) m
                    (m21 + (m22 + (mu2 - mu1) * (mu2 - mu1) * IZR n1 * IZR n2 / IZR (n1 + n2)))
                    (fmax mx1 mx2) (fmin mn1 mn2)) (xs ++ ys)).
      { intros m Hm. constructor; cbn [sc_n sc_mu sc_m2 sc_max sc_min]; change (@F ROps) with R in *.
        - rewrite app_length. lia.
        - rewrite plus_IZR, Hla, Hlb, sumR_app, <- Hmu1, <- Hmu2, Hm. field. lra.
        - rewrite ssq_app, (ssq_shift m mu1 xs), (ssq_shift m mu2 ys), <- Hm21, <- Hm22, <- Hmu1, <- Hmu2.
          rewrite plus_IZR, Hla, Hlb, Hm. field. lra.
        - rewrite fmax_R, lmax_app, Hmx1, Hmx2. reflexivity.
        - rewrite fmin_R, lmin_app, Hmn1, Hmn2. reflexivity. }
      cbn [F fadd fsub fmul fdiv fofZ ROps].
      destruct (Z.ltb_spec (n2 * 10) n1) as [L1|L1];
        [| destruct (Z.ltb_spec (n1 * 10) n2) as [L2|L2]];
        apply Hmu; rewrite plus_IZR, Hla, Hlb; field; lra.
Qed.


Lemma Rep_fold lo hi xs : forall s ys, Rep lo hi s ys -> Rep lo hi (fold_left sc_add xs s) (ys ++ xs).
Proof.
  induction xs as [|x xs IH]; intros s ys H; cbn [fold_left].
  - rewrite app_nil_r. exact H.
  - replace (ys ++ x :: xs) with ((ys ++ [x]) ++ xs) by (rewrite <- app_assoc; reflexivity).
    apply IH. apply Rep_add. exact H.
Qed.

Lemma Rep_of_list lo hi xs : Rep lo hi (sc_of_list lo hi xs) xs.
Proof. unfold sc_of_list. apply (Rep_fold lo hi xs _ []). apply Rep_empty. Qed.

Lemma Rep_self lo hi s xs : Rep lo hi s xs -> Rep lo hi (sc_comb_self s) (xs ++ xs).
Proof. intros H. unfold sc_comb_self. apply Rep_comb; exact H. Qed.

Lemma tree_rep lo hi t : Rep lo hi (tree_stats lo hi t) (tdata t).
Proof.
  induction t as [xs | l IHl r IHr | t IH]; cbn [tree_stats tdata].
  - apply Rep_of_list.
  - apply Rep_comb; assumption.
  - apply Rep_self; assumption.
Qed.

(* RDD.aggregate is the left-comb merge order starting from the (empty) zero value *)
Lemma aggregate_fold lo hi parts : forall acc,
  fold_left sc_comb (map (fun p => fold_left sc_add p (sc_empty lo hi)) parts) (tree_stats lo hi acc)
  = tree_stats lo hi (left_comb acc parts).
Proof.
  induction parts as [|p ps IH]; intros acc; cbn [map fold_left left_comb].
  - reflexivity.
  - rewrite <- IH. reflexivity.
Qed.

Lemma rdd_stats_left_comb lo hi parts :
  rdd_stats lo hi parts = tree_stats lo hi (left_comb (MLeaf []) parts).
Proof. unfold rdd_stats, aggregate. rewrite <- aggregate_fold. reflexivity. Qed.

Lemma tdata_left_comb {A} (parts : list (list A)) : forall acc,
  tdata (left_comb acc parts) = tdata acc ++ concat parts.
Proof.
  induction parts as [|p ps IH]; intros acc; cbn [left_comb concat].
  - rewrite app_nil_r. reflexivity.
  - rewrite IH. cbn [tdata]. rewrite app_assoc. reflexivity.
Qed.

Lemma rdd_stats_rep lo hi parts : Rep lo hi (rdd_stats lo hi parts) (concat parts).
Proof.
  rewrite rdd_stats_left_comb.
  replace (concat parts) with (tdata (left_comb (MLeaf []) parts)) by (rewrite tdata_left_comb; reflexivity).
  apply tree_rep.
Qed.

(* ---------- the representation does not depend on the order of the data *)
Lemma sumR_perm xs ys : Permutation xs ys -> sumR xs = sumR ys.
Proof. induction 1; cbn; lra. Qed.
Lemma ssq_perm c xs ys : Permutation xs ys -> ssq c xs = ssq c ys.
Proof. intros H. unfold ssq. apply sumR_perm. apply Permutation_map. exact H. Qed.
Lemma lmax_perm lo xs ys : Permutation xs ys -> lmax lo xs = lmax lo ys.
Proof.
  induction 1; cbn; try congruence.
  rewrite !Rmax_assoc, (Rmax_comm y x). reflexivity.
Qed.
Lemma lmin_perm hi xs ys : Permutation xs ys -> lmin hi xs = lmin hi ys.
Proof.
  induction 1; cbn; try congruence.
  rewrite !Rmin_assoc, (Rmin_comm y x). reflexivity.
Qed.

Lemma Rep_perm lo hi s xs ys : Permutation xs ys -> Rep lo hi s xs -> Rep lo hi s ys.
Proof.
  intros P [Hn Hmu Hm2 Hmx Hmn]. constructor.
  - rewrite Hn. rewrite (Permutation_length P). reflexivity.
  - rewrite Hmu. apply sumR_perm, P.
  - rewrite Hm2. apply ssq_perm, P.
  - rewrite Hmx. apply lmax_perm, P.
  - rewrite Hmn. apply lmin_perm, P.
Qed.

Lemma tdata_leaves {A} (t : mtree A) : tdata t = concat (leaves t).
Proof.
  induction t as [xs | l IHl r IHr | t IH]; cbn [tdata leaves concat].
  - rewrite app_nil_r. reflexivity.
  - rewrite concat_app, IHl, IHr. reflexivity.
  - rewrite concat_app, IH. reflexivity.
Qed.

Lemma concat_perm {A} (l l' : list (list A)) : Permutation l l' -> Permutation (concat l) (concat l').
Proof.
  induction 1; cbn [concat].
  - constructor.
  - apply Permutation_app_head. assumption.
  - rewrite !app_assoc. apply Permutation_app_tail. apply Permutation_app_comm.
  - eapply Permutation_trans; eassumption.
Qed.

(* every merge tree whose leaves are the partitions (in any order) of any composition of xs represents xs *)
Lemma tree_over_rep lo hi (xs : list R) parts t :
  concat parts = xs -> Permutation (leaves t) parts -> Rep lo hi (tree_stats lo hi t) xs.
Proof.
  intros Hc Hp. subst xs. eapply Rep_perm; [| apply tree_rep].
  rewrite tdata_leaves. apply concat_perm. exact Hp.
Qed.


(* ---------- the textbook two-pass formulas *)
Definition tp_mean (xs : list R) : R := sumR xs / len xs.
Definition tp_var (xs : list R) : R := ssq (tp_mean xs) xs / len xs.
Definition tp_svar (xs : list R) : R := ssq (tp_mean xs) xs / (len xs - 1).
Definition is_max (m : R) (xs : list R) : Prop := In m xs /\ forall x, In x xs -> x <= m.
Definition is_min (m : R) (xs : list R) : Prop := In m xs /\ forall x, In x xs -> m <= x.

Lemma lmax_is_max lo xs : xs <> [] -> (forall x, In x xs -> lo <= x) -> is_max (lmax lo xs) xs.
Proof.
  induction xs as [|x xs IH]; [congruence|]. intros _ Hlo. cbn [lmax].
  destruct xs as [|y ys].
  - cbn [lmax]. rewrite Rmax_left by (apply Hlo; left; reflexivity).
    split; [left; reflexivity|]. intros z [<-|[]]. lra.
  - destruct IH as [Hin Hub]; [congruence | intros z Hz; apply Hlo; right; exact Hz |].
    set (m := lmax lo (y :: ys)) in *.
    unfold Rmax. destruct (Rle_dec x m) as [L|L].
    + split; [right; exact Hin|]. intros z [<-|Hz]; [exact L | apply Hub, Hz].
    + split; [left; reflexivity|]. intros z [<-|Hz]; [lra|]. specialize (Hub z Hz). lra.
Qed.

Lemma lmin_is_min hi xs : xs <> [] -> (forall x, In x xs -> x <= hi) -> is_min (lmin hi xs) xs.
Proof.
  induction xs as [|x xs IH]; [congruence|]. intros _ Hhi. cbn [lmin].
  destruct xs as [|y ys].
  - cbn [lmin]. rewrite Rmin_left by (apply Hhi; left; reflexivity).
    split; [left; reflexivity|]. intros z [<-|[]]. lra.
  - destruct IH as [Hin Hlb]; [congruence | intros z Hz; apply Hhi; right; exact Hz |].
    set (m := lmin hi (y :: ys)) in *.
    unfold Rmin. destruct (Rle_dec x m) as [L|L].
    + split; [left; reflexivity|]. intros z [<-|Hz]; [lra|]. specialize (Hlb z Hz). lra.
    + split; [right; exact Hin|]. intros z [<-|Hz]; [lra | apply Hlb, Hz].
Qed.

(* what "the accessors of s equal the two-pass values of xs" means *)
Record TwoPass (lo hi : R) (s : scR) (xs : list R) : Prop := mkTwoPass {
  tp_count_ok : st_count s = Z.of_nat (length xs);
  tp_sum_ok : st_sum s = sumR xs;
  tp_mean_ok : xs <> [] -> st_mean s = tp_mean xs;
  tp_max_ok : xs <> [] -> (forall x, In x xs -> lo <= x) -> is_max (st_max s) xs;
  tp_min_ok : xs <> [] -> (forall x, In x xs -> x <= hi) -> is_min (st_min s) xs;
  tp_var_ok : st_variance s = match xs with [] => None | _ => Some (tp_var xs) end;
  tp_svar_ok : st_sampleVariance s = match xs with [] | [_] => None | _ => Some (tp_svar xs) end;
  tp_stdev_ok : st_stdev s = match xs with [] => None | _ => Some (sqrt (tp_var xs)) end;
  tp_sstdev_ok : st_sampleStdev s = match xs with [] | [_] => None | _ => Some (sqrt (tp_svar xs)) end }.

Lemma Rep_mean lo hi s xs : Rep lo hi s xs -> xs <> [] -> sc_mu s = tp_mean xs.
Proof.
  intros H Hne. pose proof (Rep_len _ _ _ _ H) as Hl. destruct H as [_ Hmu _ _ _].
  pose proof (len_pos xs Hne). unfold tp_mean. rewrite <- Hmu, Hl.
  destruct s as [n mu m2 mx mn]. cbn [sc_mu]. change (@F ROps) with R in *. field. lra.
Qed.

Lemma Rep_two_pass lo hi s xs : Rep lo hi s xs -> TwoPass lo hi s xs.
Proof.
  intros H. pose proof (Rep_len _ _ _ _ H) as Hl. pose proof (Rep_mean _ _ _ _ H) as Hmean.
  destruct H as [Hn Hmu Hm2 Hmx Hmn].
  assert (Hvar : st_variance s = match xs with [] => None | _ => Some (tp_var xs) end).
  { unfold st_variance, sc_variance. destruct xs as [|x xs'].
    - rewrite Hn. reflexivity.
    - destruct (Z.eqb_spec (sc_n s) 0) as [E|E]; [rewrite Hn in E; cbn in E; lia|].
      f_equal. unfold tp_var. rewrite <- Hmean by congruence. rewrite <- Hm2, <- Hl. reflexivity. }
  assert (Hsvar : st_sampleVariance s = match xs with [] | [_] => None | _ => Some (tp_svar xs) end).
  { unfold st_sampleVariance, sc_sampleVariance. destruct xs as [|x [|y xs']].
    - rewrite Hn. reflexivity.
    - rewrite Hn. reflexivity.
    - destruct (Z.leb_spec (sc_n s) 1) as [E|E]; [rewrite Hn in E; cbn [length] in E; lia|].
      f_equal. unfold tp_svar. rewrite <- Hmean by congruence. rewrite <- Hm2, <- Hl.
      cbn [F fdiv fofZ ROps]. rewrite minus_IZR. reflexivity. }
  constructor.
  - exact Hn.
  - unfold st_sum, sc_sum. cbn [F fmul fofZ ROps]. exact Hmu.
  - exact Hmean.
  - intros Hne Hlo. unfold st_max. rewrite Hmx. apply lmax_is_max; assumption.
  - intros Hne Hhi. unfold st_min. rewrite Hmn. apply lmin_is_min; assumption.
  - exact Hvar.
  - exact Hsvar.
  - unfold st_stdev. rewrite Hvar. destruct xs; reflexivity.
  - unfold st_sampleStdev. rewrite Hsvar. destruct xs as [|x [|y xs']]; reflexivity.
Qed.

(* the max / min are unique, so is_max pins the value *)
Lemma is_max_unique m m' xs : is_max m xs -> is_max m' xs -> m = m'.
Proof. intros [I1 U1] [I2 U2]. apply Rle_antisym; [apply U2, I1 | apply U1, I2]. Qed.
Lemma is_min_unique m m' xs : is_min m xs -> is_min m' xs -> m = m'.
Proof. intros [I1 U1] [I2 U2]. apply Rle_antisym; [apply U1, I2 | apply U2, I1]. Qed.

(* the headline statement: every composition, every merge order *)
Lemma any_partitioning_any_order lo hi (xs : list R) (parts : list (list R)) (t : mtree R) :
  concat parts = xs -> Permutation (leaves t) parts -> TwoPass lo hi (tree_stats lo hi t) xs.
Proof. intros Hc Hp. apply Rep_two_pass. eapply tree_over_rep; eassumption. Qed.

Lemma rdd_stats_two_pass lo hi parts : TwoPass lo hi (rdd_stats lo hi parts) (concat parts).
Proof. apply Rep_two_pass, rdd_stats_rep. Qed.

Lemma tree_two_pass lo hi t : TwoPass lo hi (tree_stats lo hi t) (tdata t).
Proof. apply Rep_two_pass, tree_rep. Qed.

(* the single clauses for RDD.stats(), unfolded *)
Lemma mean_unfolded lo hi parts : concat parts <> [] ->
  st_mean (rdd_stats lo hi parts) = sumR (concat parts) / len (concat parts).
Proof. intros H. exact (tp_mean_ok _ _ _ _ (rdd_stats_two_pass lo hi parts) H). Qed.

Lemma variance_unfolded lo hi parts : concat parts <> [] ->
  st_variance (rdd_stats lo hi parts) = Some (ssq (tp_mean (concat parts)) (concat parts) / len (concat parts)).
Proof.
  intros H. rewrite (tp_var_ok _ _ _ _ (rdd_stats_two_pass lo hi parts)).
  destruct (concat parts); [congruence | reflexivity].
Qed.

Lemma max_unfolded lo hi parts m : concat parts <> [] -> (forall x, In x (concat parts) -> lo <= x) ->
  is_max m (concat parts) -> st_max (rdd_stats lo hi parts) = m.
Proof.
  intros Hne Hlo Hm. eapply is_max_unique; [| exact Hm].
  exact (tp_max_ok _ _ _ _ (rdd_stats_two_pass lo hi parts) Hne Hlo).
Qed.

Lemma min_unfolded lo hi parts m : concat parts <> [] -> (forall x, In x (concat parts) -> x <= hi) ->
  is_min m (concat parts) -> st_min (rdd_stats lo hi parts) = m.
Proof.
  intros Hne Hhi Hm. eapply is_min_unique; [| exact Hm].
  exact (tp_min_ok _ _ _ _ (rdd_stats_two_pass lo hi parts) Hne Hhi).
Qed.

(* the representation pins the counter: over exact arithmetic the result does not depend on the partitioning or on the
   merge order at all (for non-empty data; for empty data the mean field is not constrained by Rep) *)
Lemma Rep_unique lo hi s s' xs : xs <> [] -> Rep lo hi s xs -> Rep lo hi s' xs -> s = s'.
Proof.
  intros Hne H H'. pose proof (Rep_mean _ _ _ _ H Hne) as Hm. pose proof (Rep_mean _ _ _ _ H' Hne) as Hm'.
  destruct H as [Hn _ Hm2 Hmx Hmn]. destruct H' as [Hn' _ Hm2' Hmx' Hmn'].
  destruct s as [n mu m2 mx mn]. destruct s' as [n' mu' m2' mx' mn']. cbn [sc_n sc_mu sc_m2 sc_max sc_min] in *.
  subst. reflexivity.
Qed.

Lemma merge_order_irrelevant lo hi (t t' : mtree R) :
  Permutation (tdata t) (tdata t') -> tdata t <> [] -> tree_stats lo hi t = tree_stats lo hi t'.
Proof.
  intros P Hne. apply (Rep_unique lo hi _ _ (tdata t) Hne); [apply tree_rep|].
  eapply Rep_perm; [apply Permutation_sym, P | apply tree_rep].
Qed.

Lemma rdd_stats_partitioning_irrelevant lo hi parts parts' :
  Permutation (concat parts) (concat parts') -> concat parts <> [] -> rdd_stats lo hi parts = rdd_stats lo hi parts'.
Proof.
  intros P Hne. apply (Rep_unique lo hi _ _ (concat parts) Hne); [apply rdd_stats_rep|].
  eapply Rep_perm; [apply Permutation_sym, P | apply rdd_stats_rep].
Qed.

(* the order premises of PV.Proofs.StatsOrder hold for R (on all values) *)
Lemma Rltb_true a b : Rltb a b = true <-> a < b.
Proof. unfold Rltb. destruct (Rlt_dec a b); split; intros; try lra; try discriminate; reflexivity. Qed.
Lemma Rltb_false a b : Rltb a b = false <-> b <= a.
Proof. unfold Rltb. destruct (Rlt_dec a b); split; intros; try lra; try discriminate; reflexivity. Qed.
Lemma R_order_premises :
  (forall a : @F ROps, True -> fltb a a = false) /\
  (forall a b c : @F ROps, True -> True -> True -> fltb a b = true -> fltb b c = true -> fltb a c = true) /\
  (forall a b c : @F ROps, True -> True -> True -> fltb a b = false -> fltb b c = false -> fltb a c = false).
Proof.
  cbn [F fltb ROps]. repeat split.
  - intros a _. apply Rltb_false. lra.
  - intros a b c _ _ _ H1 H2. apply Rltb_true in H1, H2. apply Rltb_true. lra.
  - intros a b c _ _ _ H1 H2. apply Rltb_false in H1, H2. apply Rltb_false. lra.
Qed.

(* sessions on reused RDDs: every summary on the stack and every observation represents its ghost data, and the ghost
   data of an observation of RDD j is exactly the data of RDD j -- whatever was done with earlier summaries *)
Definition good lo hi (o : scR * list R) : Prop := Rep lo hi (fst o) (snd o).
Definition of_rdd (rdds : list (list (list R))) (o : scR * list R) : Prop :=
  exists parts, In parts rdds /\ snd o = concat parts.

Lemma session_rep lo hi rdds prog : forall stack obs res_obs res_stack,
  Forall (good lo hi) stack -> Forall (fun o => good lo hi o /\ of_rdd rdds o) obs ->
  session lo hi rdds prog stack obs = Some (res_obs, res_stack) ->
  Forall (good lo hi) res_stack /\ Forall (fun o => good lo hi o /\ of_rdd rdds o) res_obs.
Proof.
  induction prog as [|op p IH]; intros stack obs ro rs Hs Ho H; simpl in H.
  - inversion H; subst. split; [exact Hs|]. apply Forall_rev. exact Ho.
  - destruct op as [i | | | v | j].
    + destruct (nth_error rdds i) as [parts|] eqn:E; [|discriminate].
      eapply IH; [| exact Ho | exact H]. constructor; [|exact Hs]. apply rdd_stats_rep.
    + destruct stack as [|[r dr] [|[l dl] st]]; try discriminate.
      inversion Hs as [|? ? Hr Hs']; subst. inversion Hs' as [|? ? Hl Hs'']; subst.
      eapply IH; [| exact Ho | exact H]. constructor; [|exact Hs'']. apply Rep_comb; assumption.
    + destruct stack as [|[s d] st]; try discriminate. inversion Hs as [|? ? Hd Hs']; subst.
      eapply IH; [| exact Ho | exact H]. constructor; [|exact Hs']. apply Rep_self; assumption.
    + destruct stack as [|[s d] st]; try discriminate. inversion Hs as [|? ? Hd Hs']; subst.
      eapply IH; [| exact Ho | exact H]. constructor; [|exact Hs']. apply Rep_add; assumption.
    + destruct (nth_error rdds j) as [parts|] eqn:E; [|discriminate].
      eapply IH; [exact Hs | | exact H]. constructor; [|exact Ho]. split; [apply rdd_stats_rep|].
      exists parts. split; [eapply nth_error_In; exact E | reflexivity].
Qed.

Lemma session_two_pass lo hi rdds prog obs stack :
  session lo hi rdds prog [] [] = Some (obs, stack) ->
  Forall (fun o => TwoPass lo hi (fst o) (snd o)) stack /\
  Forall (fun o => TwoPass lo hi (fst o) (snd o) /\ exists parts, In parts rdds /\ snd o = concat parts) obs.
Proof.
  intros H. destruct (session_rep lo hi rdds prog [] [] obs stack (Forall_nil _) (Forall_nil _) H) as [Hs Ho].
  split.
  - eapply Forall_impl; [| exact Hs]. intros o Hg. apply Rep_two_pass, Hg.
  - eapply Forall_impl; [| exact Ho]. intros o [Hg Hr]. split; [apply Rep_two_pass, Hg | exact Hr].
Qed.
