(* C11 -- updateStateByKey: the state RDD after n intervals, read key by key as a fold of the update function. *)
From Coq Require Import ZArith NArith Bool String List Lia.
Require Import PV.Base.Val PV.Gen.Window PV.Model.Window PV.Proofs.Window.
Import ListNotations.
Open Scope Z_scope.
Open Scope list_scope.

(* ---------- keyed batches ---------- *)
(* a queue source of keyed batches: entries (None = an explicit idle interval) and the default batch *)
Record ksource : Type := mkK { kentries : list (option (list (Z * val))); kdefault : option (list (Z * val)) }.
Definition plain_k (l : list (list (Z * val))) : ksource := mkK (map Some l) None.
Definition enc_entry (e : option (list (Z * val))) : option (list val) := option_map (map enc_kv) e.
Definition enc_queue (kq : ksource) : source := mkSource (map enc_entry (kentries kq)) (enc_entry (kdefault kq)).
(* the keyed batch of interval i+1; nothing once the queue is exhausted *)
Definition kbatch (kq : ksource) (i : nat) : list (Z * val) :=
  match nth i (kentries kq) (kdefault kq) with Some b => b | None => [] end.
Definition kbatches (kq : ksource) (n : nat) : list (list (Z * val)) := map (kbatch kq) (seq 0 n).

(* the state RDD after n intervals (iterating the cogroup/mapValues step of the model) *)
Fixpoint state_after (u : list val -> val -> val) (kq : ksource) (n : nat) : list (Z * val) :=
  match n with O => [] | S m => state_step u (kbatch kq m) (state_after u kq m) end.
Definition state_rdd (u : list val -> val -> val) (kq : ksource) (n : nat) : rdd :=
  match n with O => RNone | S _ => RData (map enc_kv (state_after u kq n)) end.
Definition st_state (u : list val -> val -> val) (kq : ksource) (n : nat) (T : Z) : nstate :=
  mkN T (state_rdd u kq n) [] [] win_counter_init (state_after u kq n).

Lemma all_kv_enc l : all_kv (map enc_kv l) = Some l.
Proof.
  induction l as [|[k v] l IH]; [reflexivity|]. cbn [map all_kv]. rewrite IH. reflexivity.
Qed.

Lemma src_rdd_enc kq i :
  src_rdd (enc_queue kq) i <> RNone /\ all_kv (collect (src_rdd (enc_queue kq) i)) = Some (kbatch kq i).
Proof.
  unfold src_rdd, enc_queue, kbatch. cbn [sq sd]. rewrite (map_nth enc_entry).
  destruct (nth i (kentries kq) (kdefault kq)) as [b|]; cbn [enc_entry option_map entry_rdd collect].
  - split; [discriminate|]. apply all_kv_enc.
  - split; [discriminate|]. reflexivity.
Qed.

Lemma stateful_post_state u kq n T t :
  stateful_post u t (src_rdd (enc_queue kq) n) (st_state u kq n T) = (st_state u kq (S n) t, None).
Proof.
  destruct (src_rdd_enc kq n) as [Hn Hk]. unfold stateful_post.
  destruct (src_rdd (enc_queue kq) n) eqn:E; [congruence| |]; rewrite Hk; reflexivity.
Qed.

Section StatefulInstance.
Variables (u : list val -> val -> val) (kq : ksource).

Lemma st_S1_step : forall F tail st n T t,
  nth_error (gnodes st) 0 = Some (src_state (enc_queue kq) (S n) t) ->
  nth_error (gnodes st) 1 = Some (st_state u kq n T) -> T < t ->
  step (S (S F)) (Src (enc_queue kq) :: Stateful u 0 :: tail) 1 t st = (put 1 (st_state u kq (S n) t) st, None).
Proof.
  intros F tail st n T t H0 H1 Ht.
  rewrite (step_stateful_go F (Src (enc_queue kq) :: Stateful u 0 :: tail) 1 t st u 0 _ (Src (enc_queue kq)) _
             eq_refl H1 ltac:(cbn; lia) eq_refl H0 ltac:(cbn; lia)).
  replace (nrdd (src_state (enc_queue kq) (S n) t)) with (src_rdd (enc_queue kq) n) by reflexivity.
  now rewrite stateful_post_state.
Qed.

Lemma st_S1_init : init_node (Stateful u 0) = st_state u kq 0 0.
Proof. reflexivity. Qed.

Definition stateful_node_state tail :=
  node1_state (enc_queue kq) (Stateful u 0) (st_state u kq) (fun n T => eq_refl) st_S1_init st_S1_step tail.
Definition stateful_rdd_after tail :=
  node1_rdd (enc_queue kq) (Stateful u 0) (st_state u kq) (state_rdd u kq) (fun n T => eq_refl) (fun n T => eq_refl)
            st_S1_init st_S1_step tail.
Definition stateful_program_log k :=
  consumers_log (enc_queue kq) (Stateful u 0) (st_state u kq) (state_rdd u kq) (fun n T => eq_refl)
                (fun n T => eq_refl) st_S1_init st_S1_step k.
End StatefulInstance.

(* ---------- per-key reading of the state ---------- *)
Definition memZ (k : Z) (l : list Z) : bool := existsb (Z.eqb k) l.

Lemma memZ_In k l : memZ k l = true <-> In k l.
Proof.
  unfold memZ. rewrite existsb_exists. split.
  - intros (x & Hx & E). apply Z.eqb_eq in E. now subst.
  - intros H. exists k. split; auto. apply Z.eqb_refl.
Qed.

Lemma memZ_false k l : memZ k l = false <-> ~ In k l.
Proof. rewrite <- memZ_In. destruct (memZ k l); split; congruence. Qed.

Lemma In_nodupZ x l : In x (nodupZ l) <-> In x l.
Proof.
  induction l as [|a l IH]; [reflexivity|]. cbn [nodupZ In]. rewrite filter_In, IH.
  destruct (Z.eq_dec a x) as [->|Hne]; [tauto|].
  split; [tauto|]. intros [H|H]; [tauto|]. right. split; auto.
  apply negb_true_iff, Z.eqb_neq. congruence.
Qed.

Lemma NoDup_nodupZ l : NoDup (nodupZ l).
Proof.
  induction l as [|a l IH]; [constructor|]. cbn [nodupZ]. constructor.
  - rewrite filter_In. intros [_ H]. rewrite Z.eqb_refl in H. discriminate.
  - now apply NoDup_filter.
Qed.

Lemma vals_nil_iff {A} k (l : list (Z * A)) : vals k l = [] <-> ~ In k (map fst l).
Proof.
  unfold vals. induction l as [|[a v] l IH]; cbn [filter map fst In]; [tauto|].
  destruct (a =? k) eqn:E.
  - apply Z.eqb_eq in E. subst. cbn [map]. split; [discriminate|tauto].
  - apply Z.eqb_neq in E. rewrite IH. tauto.
Qed.

Lemma vals_map_keys (F : Z -> val) K k : NoDup K ->
  vals k (map (fun k' => (k', F k')) K) = if memZ k K then [F k] else [].
Proof.
  unfold vals. induction K as [|a K IH]; intros Hnd; [reflexivity|].
  inversion Hnd as [|? ? Hnot Hnd']; subst.
  cbn [map filter fst]. unfold memZ in *. cbn [existsb].
  destruct (a =? k) eqn:E.
  - apply Z.eqb_eq in E. subst a. rewrite Z.eqb_refl. cbn [orb map snd]. f_equal.
    rewrite IH by assumption. apply memZ_false in Hnot. unfold memZ in Hnot. now rewrite Hnot.
  - rewrite Z.eqb_sym, E. cbn [orb]. now apply IH.
Qed.

Lemma In_insZ x y l : In x (insZ y l) <-> x = y \/ In x l.
Proof.
  induction l as [|a l IH]; cbn [insZ In]; [intuition|].
  destruct (y <=? a); cbn [In]; [intuition|]. rewrite IH. intuition.
Qed.
Lemma In_sortZ x l : In x (sortZ l) <-> In x l.
Proof.
  unfold sortZ. induction l as [|a l IH]; cbn [fold_right In]; [reflexivity|]. rewrite In_insZ, IH. intuition.
Qed.
Lemma NoDup_insZ y l : ~ In y l -> NoDup l -> NoDup (insZ y l).
Proof.
  induction l as [|a l IH]; intros Hn Hd; cbn [insZ]; [repeat constructor; auto|].
  destruct (y <=? a); [constructor; auto|].
  inversion Hd as [|? ? Ha Hd']; subst. constructor.
  - rewrite In_insZ. intros [->|H]; [apply Hn; now left|contradiction].
  - apply IH; auto. intros H. apply Hn. now right.
Qed.
Lemma NoDup_sortZ l : NoDup l -> NoDup (sortZ l).
Proof.
  unfold sortZ. induction l as [|a l IH]; intros Hd; cbn [fold_right]; [constructor|].
  inversion Hd as [|? ? Ha Hd']; subst. apply NoDup_insZ; auto.
  change (~ In a (sortZ l)). now rewrite In_sortZ.
Qed.
Lemma In_cogroup_keys {A B} x (b : list (Z * A)) (st : list (Z * B)) :
  In x (cogroup_keys b st) <-> In x (map fst b ++ map fst st).
Proof. unfold cogroup_keys. now rewrite In_sortZ, In_nodupZ. Qed.
Lemma NoDup_cogroup_keys {A B} (b : list (Z * A)) (st : list (Z * B)) : NoDup (cogroup_keys b st).
Proof. unfold cogroup_keys. apply NoDup_sortZ, NoDup_nodupZ. Qed.

Lemma keys_state_step u b st : map fst (state_step u b st) = cogroup_keys b st.
Proof. unfold state_step. rewrite map_map. cbn [fst]. apply map_id. Qed.

Lemma vals_state_step u b st k :
  vals k (state_step u b st) =
  if memZ k (map fst b ++ map fst st) then [u (vals k b) (last (vals k st) VNone)] else [].
Proof.
  unfold state_step. rewrite (vals_map_keys (fun k' => u (vals k' b) (last (vals k' st) VNone))) by apply NoDup_cogroup_keys.
  destruct (memZ k (map fst b ++ map fst st)) eqn:E.
  - apply memZ_In in E. apply In_cogroup_keys in E. apply memZ_In in E. now rewrite E.
  - apply memZ_false in E. rewrite <- In_cogroup_keys in E. apply memZ_false in E. now rewrite E.
Qed.

(* one interval, seen from one key: the state is created by the first batch that mentions the key *)
Definition step_key (u : list val -> val -> val) (vs : list val) (cur : option val) : option val :=
  match cur with
  | Some s => Some (u vs s)
  | None => match vs with [] => None | _ => Some (u vs VNone) end
  end.
Definition key_state (u : list val -> val -> val) (k : Z) (bs : list (list (Z * val))) : option val :=
  fold_left (fun cur b => step_key u (vals k b) cur) bs None.
Definition opt_list {A} (o : option A) : list A := match o with Some x => [x] | None => [] end.

Lemma kbatches_S kq n : kbatches kq (S n) = kbatches kq n ++ [kbatch kq n].
Proof. unfold kbatches. rewrite seq_S, map_app. reflexivity. Qed.

Lemma vals_state_after u kq k n : vals k (state_after u kq n) = opt_list (key_state u k (kbatches kq n)).
Proof.
  induction n as [|n IH]; [reflexivity|].
  cbn [state_after]. rewrite vals_state_step, kbatches_S. unfold key_state in *. rewrite fold_left_app.
  cbn [fold_left]. set (cur := fold_left _ (kbatches kq n) None) in *.
  destruct cur as [s|]; cbn [opt_list] in IH.
  - assert (Hin : In k (map fst (state_after u kq n))).
    { destruct (in_dec Z.eq_dec k (map fst (state_after u kq n))) as [H|H]; auto.
      apply vals_nil_iff in H. rewrite H in IH. discriminate. }
    assert (E : memZ k (map fst (kbatch kq n) ++ map fst (state_after u kq n)) = true).
    { apply memZ_In, in_or_app. now right. }
    rewrite E, IH. reflexivity.
  - pose proof (proj1 (vals_nil_iff k _) IH) as Hst.
    cbn [step_key]. destruct (vals k (kbatch kq n)) as [|v vs] eqn:Ev.
    + pose proof (proj1 (vals_nil_iff k _) Ev) as Hb.
      assert (E : memZ k (map fst (kbatch kq n) ++ map fst (state_after u kq n)) = false).
      { apply memZ_false. intros H. apply in_app_or in H. tauto. }
      now rewrite E.
    + assert (Hb : In k (map fst (kbatch kq n))).
      { destruct (in_dec Z.eq_dec k (map fst (kbatch kq n))) as [H|H]; auto.
        apply vals_nil_iff in H. rewrite H in Ev. discriminate. }
      assert (E : memZ k (map fst (kbatch kq n) ++ map fst (state_after u kq n)) = true).
      { apply memZ_In, in_or_app. now left. }
      rewrite E, IH. reflexivity.
Qed.

(* the plain fold of the property text *)
Definition fold_key (u : list val -> val -> val) (k : Z) (bs : list (list (Z * val))) (s0 : val) : val :=
  fold_left (fun s b => u (vals k b) s) bs s0.

Lemma fold_step_key_none u k pre :
  (forall b, In b pre -> vals k b = []) ->
  fold_left (fun cur b => step_key u (vals k b) cur) pre None = None.
Proof.
  induction pre as [|b pre IH]; intros H; [reflexivity|].
  cbn [fold_left]. rewrite (H b (or_introl eq_refl)). cbn [step_key]. apply IH. intros; apply H; now right.
Qed.

Lemma fold_step_key_some u k post : forall s,
  fold_left (fun cur b => step_key u (vals k b) cur) post (Some s) = Some (fold_key u k post s).
Proof.
  induction post as [|b post IH]; intros s; [reflexivity|]. cbn [fold_left step_key]. apply IH.
Qed.

Lemma key_state_unseen u k bs : (forall b, In b bs -> vals k b = []) -> key_state u k bs = None.
Proof. apply fold_step_key_none. Qed.

Lemma key_state_first u k pre b post :
  (forall b', In b' pre -> vals k b' = []) -> vals k b <> [] ->
  key_state u k (pre ++ b :: post) = Some (fold_key u k (b :: post) VNone).
Proof.
  intros Hpre Hb. unfold key_state. rewrite fold_left_app, fold_step_key_none by assumption.
  cbn [fold_left]. destruct (vals k b) as [|v vs] eqn:E; [congruence|].
  cbn [step_key]. rewrite fold_step_key_some. unfold fold_key. cbn [fold_left]. now rewrite E.
Qed.

(* for update functions that treat u [] None like "no state", folding from interval 1 gives the same *)
Lemma fold_key_from_start u k pre b post :
  (forall vs, u vs (u [] VNone) = u vs VNone) ->
  (forall b', In b' pre -> vals k b' = []) ->
  fold_key u k (pre ++ b :: post) VNone = fold_key u k (b :: post) VNone.
Proof.
  intros Hu Hpre. unfold fold_key. rewrite fold_left_app. cbn [fold_left].
  assert (H : forall vs, u vs (fold_left (fun s b0 => u (vals k b0) s) pre VNone) = u vs VNone).
  { clear b post. revert Hpre. induction pre as [|b pre IH] using rev_ind; intros Hpre vs; [reflexivity|].
    rewrite fold_left_app. cbn [fold_left].
    rewrite (Hpre b) by (apply in_or_app; right; now left).
    rewrite IH by (intros; apply Hpre, in_or_app; now left). apply Hu. }
  now rewrite H.
Qed.

(* ---------- statements ---------- *)
Section Statements.
Variables (u : list val -> val -> val) (kq : ksource) (tail : list node).
Local Notation g := (Src (enc_queue kq) :: Stateful u 0 :: tail).

(* what a consumer collecting the state stream after the ticks ts decodes *)
Lemma state_collected ts : increasing 0 ts -> (0 < length ts)%nat ->
  rdd_of (final g ts) 1 = RData (map enc_kv (state_after u kq (length ts))).
Proof.
  intros Hinc Hn. rewrite (stateful_rdd_after u kq tail ts Hinc). destruct (length ts); [lia|reflexivity].
Qed.

Lemma state_keys_nodup n : NoDup (map fst (state_after u kq n)).
Proof. destruct n; [constructor|]. cbn [state_after]. rewrite keys_state_step. apply NoDup_cogroup_keys. Qed.

(* state_spec: a key first mentioned in batch b (intervals before: pre, after: post) *)
Lemma state_spec_seen ts k pre b post :
  increasing 0 ts -> (0 < length ts)%nat ->
  kbatches kq (length ts) = pre ++ b :: post ->
  (forall b', In b' pre -> vals k b' = []) -> vals k b <> [] ->
  exists l, rdd_of (final g ts) 1 = RData (map enc_kv l) /\ NoDup (map fst l) /\
            vals k l = [fold_key u k (b :: post) VNone].
Proof.
  intros Hinc Hn Hdec Hpre Hb. exists (state_after u kq (length ts)).
  split; [now apply state_collected|]. split; [apply state_keys_nodup|].
  rewrite vals_state_after, Hdec, key_state_first by assumption. reflexivity.
Qed.

Lemma state_spec_unseen ts k :
  increasing 0 ts -> (0 < length ts)%nat ->
  (forall b, In b (kbatches kq (length ts)) -> vals k b = []) ->
  exists l, rdd_of (final g ts) 1 = RData (map enc_kv l) /\ vals k l = [].
Proof.
  intros Hinc Hn Hun. exists (state_after u kq (length ts)).
  split; [now apply state_collected|].
  rewrite vals_state_after, key_state_unseen by assumption. reflexivity.
Qed.

(* keys never disappear *)
Lemma state_keys_persist n k : In k (map fst (state_after u kq n)) -> In k (map fst (state_after u kq (S n))).
Proof.
  intros H. cbn [state_after]. rewrite keys_state_step. apply In_cogroup_keys, in_or_app. now right.
Qed.

(* the keys of the state are exactly the keys mentioned so far *)
Lemma state_keys_exact n k :
  In k (map fst (state_after u kq n)) <-> exists b, In b (kbatches kq n) /\ In k (map fst b).
Proof.
  induction n as [|n IH].
  - cbn. split; [tauto|]. intros (b & [] & _).
  - cbn [state_after]. rewrite keys_state_step. rewrite In_cogroup_keys, in_app_iff, IH, kbatches_S.
    split.
    + intros [H|(b & Hb & Hk)].
      * exists (kbatch kq n). split; auto. apply in_or_app. right. now left.
      * exists b. split; auto. apply in_or_app. now left.
    + intros (b & Hb & Hk). apply in_app_or in Hb as [Hb|[<-|[]]]; eauto.
Qed.
End Statements.

(* ---------- the library of update functions treats u [] None like "no state" ---------- *)
Definition no_state_like (u : list val -> val -> val) : Prop := forall vs, u vs (u [] VNone) = u vs VNone.

Lemma u_sum_no_state : no_state_like u_sum.
Proof. intros vs. reflexivity. Qed.
Lemma u_last_no_state : no_state_like u_last.
Proof. intros vs. reflexivity. Qed.
Lemma u_count_no_state : no_state_like u_count.
Proof. intros vs. reflexivity. Qed.
Lemma u_append_no_state : no_state_like u_append.
Proof. intros vs. reflexivity. Qed.

Lemma u_decay_no_state : no_state_like u_decay.
Proof. intros vs. reflexivity. Qed.
Lemma u_reset_no_state : no_state_like u_reset.
Proof. intros vs. reflexivity. Qed.
Lemma u_minopt_no_state : no_state_like u_minopt.
Proof. intros vs. reflexivity. Qed.
(* last, reset and min-or-None can return None: the key then stays in the state RDD with state None *)

(* last, reset and min-or-None can return None: the key then stays in the state RDD with state None *)
Lemma none_is_a_state :
  state_after u_last (plain_k [[(0, VInt 3); (0, VNone)]; []]) 2 = [(0, VNone)] /\
  state_after u_reset (plain_k [[(0, VInt 3)]; []; [(0, VInt 1)]]) 2 = [(0, VNone)] /\
  state_after u_reset (plain_k [[(0, VInt 3)]; []; [(0, VInt 1)]]) 3 = [(0, VInt 1)] /\
  state_after u_minopt (plain_k [[(0, VNone); (1, VInt 2)]; [(1, VNone); (1, VInt (-1))]]) 2 = [(0, VNone); (1, VInt (-1))].
Proof. vm_compute. repeat split. Qed.

(* the other two library functions are NOT of that kind (for them only the reading from the key's first interval
   is what the code computes), and all three change the state of a key that is absent from an interval: they show
   whether the update function is called with [] *)
Lemma u_history_not_no_state : ~ no_state_like u_history.
Proof. intros H. specialize (H []). discriminate H. Qed.
Lemma u_idle_not_no_state : ~ no_state_like u_idle.
Proof. intros H. specialize (H []). discriminate H. Qed.
Lemma absent_key_changes_state :
  u_history [] (VList []) <> VList [] /\ u_idle [] (VInt 0) <> VInt 0 /\ u_decay [] (VInt 3) <> VInt 3.
Proof. repeat split; discriminate. Qed.

(* state_spec read from interval 1, for such update functions *)
Lemma state_spec_from_start u kq tail ts k pre b post :
  no_state_like u ->
  increasing 0 ts -> (0 < length ts)%nat ->
  kbatches kq (length ts) = pre ++ b :: post ->
  (forall b', In b' pre -> vals k b' = []) -> vals k b <> [] ->
  exists l, rdd_of (final (Src (enc_queue kq) :: Stateful u 0 :: tail) ts) 1 = RData (map enc_kv l) /\
            NoDup (map fst l) /\
            vals k l = [fold_key u k (kbatches kq (length ts)) VNone].
Proof.
  intros Hu Hinc Hn Hdec Hpre Hb.
  destruct (state_spec_seen u kq tail ts k pre b post Hinc Hn Hdec Hpre Hb) as (l & H1 & H2 & H3).
  exists l. repeat split; auto. rewrite H3, Hdec. now rewrite fold_key_from_start.
Qed.

Lemma stateful_consumers u kq k ts : increasing 0 ts ->
  run_graph (prog_state (enc_queue kq) u k) ts = (final (prog_state (enc_queue kq) u k) ts, map (fun _ => None) ts) /\
  glog (final (prog_state (enc_queue kq) u k) ts) = cons_log (state_rdd u kq) k 0 ts.
Proof. intros Hinc. exact (stateful_program_log u kq k ts Hinc). Qed.
