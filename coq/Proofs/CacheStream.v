(* C05 -- lemmas about lazy streams, dictionaries and the cache managers (no invariants yet). *)
From Coq Require Import ZArith List Bool Lia.
Require Import PV.Model.Cache.
Import ListNotations.
Open Scope Z_scope.

Lemma key_eqb_eq : forall a b : key, key_eqb a b = true <-> a = b.
Proof.
  intros [a1 a2] [b1 b2]; unfold key_eqb; simpl. rewrite andb_true_iff, !Z.eqb_eq.
  split; [intros [-> ->]; reflexivity | intros H; inversion H; auto].
Qed.
Lemma key_eqb_refl : forall a, key_eqb a a = true.
Proof. intros; apply key_eqb_eq; reflexivity. Qed.
Lemma key_eqb_neq : forall a b : key, key_eqb a b = false <-> a <> b.
Proof.
  intros a b; split; intros H.
  - intros E; apply key_eqb_eq in E; congruence.
  - destruct (key_eqb a b) eqn:E; auto. apply key_eqb_eq in E; contradiction.
Qed.

Section Streams.
Variable A : Type.
Implicit Types (s : lstream A) (cs : list (cell A)) (m : mgr A) (e : key * (list A * Z)).

(* ---------------------------------------------------------------- elements of the stage streams *)
Lemma elems_of_list : forall xs : list A, stream_elems (of_list xs) = xs.
Proof.
  intros xs; unfold stream_elems, of_list; simpl. rewrite map_map; simpl. apply map_id.
Qed.
Lemma events_of_list : forall xs : list A, stream_events (of_list xs) = [].
Proof.
  intros xs; unfold stream_events, of_list; simpl. rewrite app_nil_r, map_map; simpl.
  induction xs; simpl; auto.
Qed.

Lemma elems_lmap : forall rid i f s, stream_elems (lmap rid i f s) = map f (stream_elems s).
Proof. intros; unfold stream_elems, lmap; simpl. rewrite !map_map; reflexivity. Qed.

Lemma elems_lfilter_go : forall rid i p cs pend tr,
  map snd (cells (lfilter_go rid i p pend cs tr)) = filter p (map snd cs).
Proof.
  induction cs as [|[evs x] cs IH]; intros; simpl; auto.
  destruct (p x); simpl; rewrite IH; reflexivity.
Qed.
Lemma elems_lfilter : forall rid i p s, stream_elems (lfilter rid i p s) = filter p (stream_elems s).
Proof. intros; apply elems_lfilter_go. Qed.

Lemma elems_lflat_go : forall rid i g cs pend tr,
  map snd (cells (lflat_go rid i g pend cs tr)) = flat_map g (map snd cs).
Proof.
  induction cs as [|[evs x] cs IH]; intros; simpl; auto.
  destruct (g x) as [|y ys]; simpl.
  - apply IH.
  - rewrite map_app, map_map; simpl. rewrite map_id, IH. reflexivity.
Qed.
Lemma elems_lflat : forall rid i g s, stream_elems (lflat rid i g s) = flat_map g (stream_elems s).
Proof. intros; apply elems_lflat_go. Qed.

Lemma elems_lidx_go : forall rid i f cs (pos : Z), map snd (lidx_go rid i f pos cs) = enum_from (f i) pos (map snd cs).
Proof.
  induction cs as [|[evs x] cs IH]; intros pos; simpl; auto. rewrite IH; reflexivity.
Qed.
Lemma elems_lidx : forall rid i f s, stream_elems (lidx rid i f s) = enum_from (f i) 0 (stream_elems s).
Proof. intros; apply elems_lidx_go. Qed.

Lemma elems_lpart : forall rid i h s, stream_elems (lpart rid i h s) = h (stream_elems s).
Proof.
  intros; unfold stream_elems, lpart. destruct (h (map snd (cells s))) as [|y ys]; simpl; auto.
  rewrite map_map; simpl. rewrite map_id; reflexivity.
Qed.

(* ---------------------------------------------------------------- islice *)
Lemma ltake_spec : forall n cs tr,
  fst (fst (ltake n cs tr)) = firstn n (map snd cs) /\
  snd (ltake n cs tr) = (n - length cs)%nat.
Proof.
  induction n as [|n IH]; intros; simpl; auto.
  destruct cs as [|[evs x] cs]; simpl; auto.
  specialize (IH cs tr). destruct (ltake n cs tr) as [[xs es] r]; simpl in *.
  destruct IH as [-> ->]; auto.
Qed.

Lemma firstn_app_sub : forall {X} n (l1 l2 : list X),
  firstn n (l1 ++ l2) = firstn n l1 ++ firstn (n - length l1) l2.
Proof. intros; apply firstn_app. Qed.

(* ---------------------------------------------------------------- dictionaries *)
Lemma dict_get_In : forall {V} (k : key) (d : list (key * V)) v, dict_get k d = Some v -> In (k, v) d.
Proof.
  induction d as [|[k' v'] d IH]; simpl; intros v H; [discriminate|].
  destruct (key_eqb k k') eqn:E.
  - apply key_eqb_eq in E; subst. inversion H; auto.
  - right; auto.
Qed.
Lemma dict_get_None : forall {V} (k : key) (d : list (key * V)), dict_get k d = None <-> ~ In k (map fst d).
Proof.
  induction d as [|[k' v'] d IH]; simpl; [tauto|].
  destruct (key_eqb k k') eqn:E.
  - apply key_eqb_eq in E; subst. split; [discriminate | intros H; exfalso; apply H; auto].
  - apply key_eqb_neq in E. rewrite IH. split; [intros H [H1|H1]; [congruence|auto] | intros H H1; apply H; auto].
Qed.
Lemma dict_get_Some_key : forall {V} (k : key) (d : list (key * V)), In k (map fst d) -> exists v, dict_get k d = Some v.
Proof.
  intros V k d H. destruct (dict_get k d) eqn:E; eauto. apply dict_get_None in E; contradiction.
Qed.
Lemma dict_set_In : forall {V} (k : key) (v : V) d x, In x (dict_set k v d) -> x = (k, v) \/ In x d.
Proof.
  induction d as [|[k' v'] d IH]; simpl; intros x H.
  - destruct H as [<-|[]]; auto.
  - destruct (key_eqb k k') eqn:E.
    + apply key_eqb_eq in E; subst. destruct H as [<-|H]; auto.
    + destruct H as [<-|H]; auto. destruct (IH _ H); auto.
Qed.
Lemma dict_set_keys : forall {V} (k : key) (v : V) d k', In k' (map fst (dict_set k v d)) <-> k' = k \/ In k' (map fst d).
Proof.
  induction d as [|[k1 v1] d IH]; simpl; intros k'.
  - split; [intros [<-|[]]; auto | intros [->|[]]; auto].
  - destruct (key_eqb k k1) eqn:E; simpl.
    + apply key_eqb_eq in E; subst. split; [intros [<-|H]; auto | intros [->|[<-|H]]; auto].
    + rewrite IH. split; [intros [<-|[->|H]]; auto | intros [->|[<-|H]]; auto].
Qed.
Lemma dict_set_has : forall {V} (k : key) (v : V) d, In (k, v) (dict_set k v d).
Proof.
  induction d as [|[k1 v1] d IH]; simpl; auto.
  destruct (key_eqb k k1) eqn:E; simpl; auto. apply key_eqb_eq in E; subst; auto.
Qed.
Lemma dict_set_other : forall {V} (k : key) (v : V) d x, In x d -> fst x <> k -> In x (dict_set k v d).
Proof.
  induction d as [|[k1 v1] d IH]; simpl; intros x H N; [contradiction|].
  destruct (key_eqb k k1) eqn:E; simpl.
  - apply key_eqb_eq in E; subst. destruct H as [<-|H]; [simpl in N; congruence | auto].
  - destruct H as [<-|H]; auto.
Qed.
Lemma dict_del_In : forall {V} (k : key) (d : list (key * V)) x, In x (dict_del k d) <-> In x d /\ fst x <> k.
Proof.
  intros; unfold dict_del. rewrite filter_In, negb_true_iff, key_eqb_neq. intuition congruence.
Qed.
Lemma dict_del_keys : forall {V} (k : key) (d : list (key * V)) k', In k' (map fst (dict_del k d)) <-> In k' (map fst d) /\ k' <> k.
Proof.
  intros. rewrite !in_map_iff. split.
  - intros [x [<- H]]. apply dict_del_In in H. destruct H; split; eauto.
  - intros [[x [<- H]] N]. exists x; split; auto. apply dict_del_In; auto.
Qed.

(* ---------------------------------------------------------------- gc *)
Lemma drop_stamps_In : forall k ta (x : key * Z), In x (drop_stamps k ta) <-> In x ta /\ fst x <> k.
Proof.
  intros; unfold drop_stamps. rewrite filter_In, negb_true_iff, key_eqb_neq. intuition congruence.
Qed.
Lemma drop_stamps_length : forall k ta, (length (drop_stamps k ta) <= length ta)%nat.
Proof.
  intros k ta; unfold drop_stamps. induction ta as [|a ta IH]; simpl; auto.
  destruct (negb (key_eqb k (fst a))); simpl; lia.
Qed.

Lemma gc_go_sub : forall fuel thr ta (es : list (key * (list A * Z))) x, In x (snd (gc_go fuel thr ta es)) -> In x es.
Proof.
  induction fuel as [|fuel IH]; intros thr ta es x H; simpl in *; auto.
  destruct ta as [|[k t] ta]; simpl in *; auto.
  destruct (t >? thr); simpl in *; auto. apply IH in H. apply dict_del_In in H; tauto.
Qed.
Lemma gc_go_times_sub : forall fuel thr ta (es : list (key * (list A * Z))) x, In x (fst (gc_go fuel thr ta es)) -> In x ta.
Proof.
  induction fuel as [|fuel IH]; intros thr ta es x H; simpl in *; auto.
  destruct ta as [|[k t] ta]; simpl in *; auto.
  destruct (t >? thr); simpl in *; auto. apply IH in H. apply drop_stamps_In in H. tauto.
Qed.

Lemma m_gc_sub : forall now m e, In e (m_entries (m_gc now m)) -> In e (m_entries m).
Proof.
  intros now m e; unfold m_gc. destruct (m_timeout m) as [to|]; auto.
  destruct (gc_go (length (m_times m)) (now - to) (m_times m) (m_entries m)) as [ta es] eqn:E; simpl.
  intros H. apply (gc_go_sub (length (m_times m)) (now - to) (m_times m)). rewrite E; auto.
Qed.
Lemma m_gc_timeout : forall now m, m_timeout (m_gc now m) = m_timeout m.
Proof.
  intros; unfold m_gc. destruct (m_timeout m) eqn:E; auto.
  destruct (gc_go _ _ _); simpl; auto.
Qed.
Lemma m_add_In : forall now k d m e, In e (m_entries (m_add now k d m)) -> e = (k, (d, now)) \/ In e (m_entries m).
Proof.
  intros now k d m e; unfold m_add. destruct (m_timeout m) as [to|]; simpl.
  - intros H. apply m_gc_sub in H; simpl in H. apply dict_set_In; auto.
  - apply dict_set_In.
Qed.
Lemma m_add_timeout : forall now k d m, m_timeout (m_add now k d m) = m_timeout m.
Proof.
  intros; unfold m_add. destruct (m_timeout m) eqn:E; simpl; auto. rewrite m_gc_timeout; auto.
Qed.
Lemma m_delete_In : forall k m e, In e (m_entries (m_delete k m)) <-> In e (m_entries m) /\ fst e <> k.
Proof. intros; unfold m_delete; simpl. apply dict_del_In. Qed.

Lemma join_fold_In : forall now (new : list (key * (list A * Z))) es (x : key * (list A * Z)),
  In x (fold_left (fun acc kv => dict_set (fst kv) (fst (snd kv), now) acc) new es) ->
  In x es \/ exists kv, In kv new /\ x = (fst kv, (fst (snd kv), now)).
Proof.
  induction new as [|kv new IH]; simpl; intros es x H; auto.
  apply IH in H. destruct H as [H|[kv' [H1 H2]]].
  - apply dict_set_In in H. destruct H as [->|H]; eauto.
  - eauto.
Qed.
Lemma m_join_In : forall now new m e, In e (m_entries (m_join now new m)) ->
  In e (m_entries m) \/ exists kv, In kv new /\ e = (fst kv, (fst (snd kv), now)).
Proof.
  intros now new m e; unfold m_join. destruct (m_timeout m) as [to|]; simpl.
  - intros H. apply m_gc_sub in H; simpl in H. apply join_fold_In; auto.
  - apply join_fold_In.
Qed.
Lemma m_join_timeout : forall now new m, m_timeout (m_join now new m) = m_timeout m.
Proof.
  intros; unfold m_join. destruct (m_timeout m) eqn:E; simpl; auto. rewrite m_gc_timeout; auto.
Qed.
Lemma m_clone_In : forall idx m e, In e (m_entries (m_clone idx m)) <-> In e (m_entries m) /\ snd (fst e) = idx.
Proof. intros; unfold m_clone; simpl. rewrite filter_In, Z.eqb_eq. tauto. Qed.
Lemma m_not_in_In : forall ks m e, In e (m_not_in ks m) -> In e (m_entries m).
Proof. intros ks m e; unfold m_not_in. rewrite filter_In; tauto. Qed.

Lemma m_get_In : forall k m d, m_get k m = Some d -> exists t, In (k, (d, t)) (m_entries m).
Proof.
  intros k m d; unfold m_get. destruct (dict_get k (m_entries m)) as [[d' t]|] eqn:E; [|discriminate].
  intros H; inversion H; subst. exists t. apply dict_get_In; auto.
Qed.
Lemma m_get_None : forall k m, m_get k m = None <-> ~ In k (map fst (m_entries m)).
Proof.
  intros; unfold m_get. rewrite <- dict_get_None. destruct (dict_get k (m_entries m)) as [[d t]|]; split; congruence.
Qed.

End Streams.
