(* The tree that comes back through the JSON text equals the original as Python compares it:
   dict equality ignores the order of the entries (metadata). *)
From Coq Require Import ZArith NArith List Bool String Permutation.
Require Import PV.Gen.TypeTables PV.Model.Types PV.Proofs.TypesJson.
Import ListNotations.
Open Scope list_scope.

Inductive jeqv : json -> json -> Prop :=
| JE_refl j : jeqv j j
| JE_arr l l' : Forall2 jeqv l l' -> jeqv (JArr l) (JArr l')
| JE_obj kv kv1 kv2 :
    Forall2 (fun a b => fst a = fst b /\ jeqv (snd a) (snd b)) kv kv1 -> Permutation kv1 kv2 ->
    jeqv (JObj kv) (JObj kv2).

Inductive teqv : dtype -> dtype -> Prop :=
| TE_refl t : teqv t t
| TE_arr e e' b : teqv e e' -> teqv (TArray e b) (TArray e' b)
| TE_map k k' v v' b : teqv k k' -> teqv v v' -> teqv (TMap k v b) (TMap k' v' b)
| TE_struct fs fs' :
    Forall2 (fun f f' => sf_name f = sf_name f' /\ sf_nullable f = sf_nullable f' /\
                         teqv (sf_ty f) (sf_ty f') /\ jeqv (JObj (sf_meta f)) (JObj (sf_meta f'))) fs fs' ->
    teqv (TStruct fs) (TStruct fs').

Section json_ind'.
  Variable P : json -> Prop.
  Hypothesis Hatom : forall j, (match j with JArr _ | JObj _ => False | _ => True end) -> P j.
  Hypothesis Harr : forall l, Forall P l -> P (JArr l).
  Hypothesis Hobj : forall kv, Forall (fun p => P (snd p)) kv -> P (JObj kv).

  Fixpoint json_ind' (j : json) : P j :=
    match j with
    | JArr l => Harr l ((fix go (l : list json) : Forall P l :=
                           match l with [] => Forall_nil _ | x :: r => Forall_cons x (json_ind' x) (go r) end) l)
    | JObj kv => Hobj kv ((fix go (l : list (str * json)) : Forall (fun p => P (snd p)) l :=
                             match l with
                             | [] => Forall_nil _
                             | p :: r => Forall_cons p (json_ind' (snd p)) (go r)
                             end) kv)
    | j' => Hatom j' I
    end.
End json_ind'.

Lemma ins_kv_perm {A} k (v : A) l : Permutation ((k, v) :: l) (ins_kv k v l).
Proof.
  induction l as [|[k' v'] l IH]; simpl; [apply Permutation_refl|].
  destruct (str_leb k k'); [apply Permutation_refl|].
  eapply Permutation_trans; [apply perm_swap|]. now apply perm_skip.
Qed.

Lemma sort_meta_perm m : Permutation (map (fun p => (fst p, jsort (snd p))) m) (sort_meta m).
Proof.
  unfold sort_meta. cbn [jsort].
  induction m as [|p m IH]; [apply Permutation_refl|]. cbn [map].
  eapply Permutation_trans; [|apply ins_kv_perm]. now apply perm_skip.
Qed.

Lemma jsort_eqv : forall j, jeqv j (jsort j).
Proof.
  induction j as [j Hj|l IH|kv IH] using json_ind'.
  - destruct j; try contradiction; apply JE_refl.
  - cbn [jsort]. apply JE_arr. induction IH as [|x l Hx _ IHl]; simpl; constructor; assumption.
  - rewrite jsort_obj. eapply JE_obj; [|apply sort_meta_perm].
    induction IH as [|p kv Hp _ IHkv]; simpl; constructor; [split; [reflexivity|exact Hp]|assumption].
Qed.

Theorem tsort_eqv : forall t, teqv t (tsort t).
Proof.
  induction t as [a|p s|e b IHe|k v b IHk IHv|fs IH] using dtype_ind'; try apply TE_refl.
  - cbn [tsort]. now apply TE_arr.
  - cbn [tsort]. now apply TE_map.
  - cbn [tsort]. apply TE_struct.
    induction IH as [|[n ty nl m] fs Hf _ IHfs]; simpl; constructor; [|assumption].
    simpl in *. repeat split; [exact Hf|]. rewrite <- jsort_obj. apply jsort_eqv.
Qed.
