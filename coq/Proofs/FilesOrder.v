(* C08 -- the order of the directory listing is irrelevant; the partition bound is tight; wholeTextFiles over a saved data set *)
From Coq Require Import String ZArith NArith List Bool Lia Sorting.Permutation.
Require Import PV.Base.PyArith PV.Base.PyStrOps PV.Gen.Codecs PV.Gen.Parallelize PV.Model.Files.
Require Import PV.Proofs.FilesStr PV.Proofs.FilesText PV.Proofs.Files PV.Proofs.FilesCodec PV.Proofs.FilesChunks PV.Proofs.FilesReaders.
Import ListNotations.
Open Scope Z_scope.


(* ---------- the order in which a directory walk lists the files is irrelevant *)
Lemma existsb_perm : forall {A} (P : A -> bool) l1 l2, Permutation l1 l2 -> existsb P l1 = existsb P l2.
Proof.
  intros A P l1 l2 H. induction H as [|x l1 l2 H IH|x y l|l1 l2 l3 H1 IH1 H2 IH2]; cbn.
  - reflexivity.
  - rewrite IH. reflexivity.
  - destruct (P x), (P y); reflexivity.
  - congruence.
Qed.
Lemma filter_perm : forall {A} (P : A -> bool) l1 l2, Permutation l1 l2 -> Permutation (filter P l1) (filter P l2).
Proof.
  intros A P l1 l2 H. induction H as [|x l1 l2 H IH|x y l|l1 l2 l3 H1 IH1 H2 IH2]; cbn.
  - constructor.
  - destruct (P x); [constructor|]; exact IH.
  - destruct (P x), (P y); try reflexivity. apply perm_swap.
  - eapply Permutation_trans; eassumption.
Qed.

Lemma fs_lookup_some_in : forall f p b, fs_lookup f p = Some b -> In (p, b) f.
Proof.
  intros f p b H. unfold fs_lookup in H.
  destruct (find (fun e : str * bytes => str_eqb (fst e) p) f) as [e|] eqn:F; [|discriminate].
  apply find_some in F. destruct F as [Hin Heq]. apply str_eqb_eq in Heq. injection H as <-.
  rewrite <- Heq, <- surjective_pairing. exact Hin.
Qed.
Lemma fs_lookup_none_all : forall f p, fs_lookup f p = None -> forall e, In e f -> fst e <> p.
Proof.
  intros f p H e He. unfold fs_lookup in H.
  destruct (find (fun e : str * bytes => str_eqb (fst e) p) f) as [e'|] eqn:F; [discriminate|].
  pose proof (find_none _ _ F e He) as Hn. cbv beta in Hn. apply str_eqb_false. exact Hn.
Qed.
Lemma fs_lookup_all_none : forall f p, (forall e, In e f -> fst e <> p) -> fs_lookup f p = None.
Proof.
  intros f p H. rewrite <- (app_nil_r f). rewrite fs_lookup_skip by exact H. reflexivity.
Qed.

Lemma fs_lookup_perm : forall f1 f2 p, Permutation f1 f2 -> NoDup (map fst f1) -> fs_lookup f1 p = fs_lookup f2 p.
Proof.
  intros f1 f2 p HP Hnd.
  assert (Hnd2 : NoDup (map fst f2)) by (eapply Permutation_NoDup; [apply Permutation_map; exact HP|exact Hnd]).
  destruct (fs_lookup f1 p) as [b|] eqn:E.
  - symmetry. apply fs_lookup_nodup; [exact Hnd2|]. eapply Permutation_in; [exact HP|]. apply fs_lookup_some_in. exact E.
  - symmetry. apply fs_lookup_all_none. intros e He. apply (fs_lookup_none_all f1 p E).
    eapply Permutation_in; [apply Permutation_sym; exact HP|exact He].
Qed.

Lemma resolve_perm : forall f1 f2 expr, Permutation f1 f2 -> Permutation (resolve f1 expr) (resolve f2 expr).
Proof.
  intros f1 f2 expr HP.
  assert (E : fs_isfile f1 expr = fs_isfile f2 expr) by (apply existsb_perm; exact HP).
  unfold resolve. rewrite E. destruct (fs_isfile f2 expr); [reflexivity|]. apply Permutation_map. apply filter_perm. exact HP.
Qed.

Section ListingOrder.
Variable decompress : codec -> bytes -> option bytes.

Lemma load_bytes_perm : forall f1 f2 n, Permutation f1 f2 -> NoDup (map fst f1) ->
  load_bytes decompress f1 n = load_bytes decompress f2 n.
Proof.
  intros f1 f2 n HP Hnd. unfold load_bytes, fs_lookup_rel.
  rewrite (fs_lookup_perm f1 f2 n HP Hnd), (fs_lookup_perm f1 f2 (skipn 2 n) HP Hnd). reflexivity.
Qed.

Lemma read_parts_perm : forall {A} (L : fs -> path -> res (list A)) f1 f2 expr minP,
  Permutation f1 f2 -> (forall n, L f1 n = L f2 n) ->
  read_parts (L f1) f1 expr minP = read_parts (L f2) f2 expr minP.
Proof.
  intros A L f1 f2 expr minP HP HL. unfold read_parts.
  rewrite (sort_perm_invariant _ _ (resolve_perm f1 f2 expr HP)).
  f_equal. apply map_ext. intros part. f_equal. f_equal. apply map_ext. exact HL.
Qed.

(* two file systems with the same files, listed in a different order, read the same *)
Theorem readers_listing_order : forall f1 f2 expr minP, Permutation f1 f2 -> NoDup (map fst f1) ->
  read_text decompress f1 expr minP = read_text decompress f2 expr minP /\
  whole_text_files decompress f1 expr minP = whole_text_files decompress f2 expr minP /\
  binary_files decompress f1 expr minP = binary_files decompress f2 expr minP /\
  (forall rl, binary_records decompress f1 expr rl = binary_records decompress f2 expr rl).
Proof.
  intros f1 f2 expr minP HP Hnd.
  assert (HL : forall n, load_bytes decompress f1 n = load_bytes decompress f2 n)
    by (intros n; apply load_bytes_perm; assumption).
  repeat split.
  - unfold read_text. apply (read_parts_perm (fun f n => res_map splitlines (load_text decompress f n))); [exact HP|].
    intros n. unfold load_text. rewrite HL. reflexivity.
  - unfold whole_text_files.
    apply (read_parts_perm (fun f n => res_map (fun s => [(n, s)]) (load_text decompress f n))); [exact HP|].
    intros n. unfold load_text. rewrite HL. reflexivity.
  - unfold binary_files.
    apply (read_parts_perm (fun f n => res_map (fun b => [(n, b)]) (load_bytes decompress f n))); [exact HP|].
    intros n. rewrite HL. reflexivity.
  - intros rl. unfold binary_records.
    apply (read_parts_perm (fun f n => res_bind (load_bytes decompress f n) (chunker rl))); [exact HP|].
    intros n. rewrite HL. reflexivity.
Qed.

Theorem pickle_file_listing_order : forall (obj : Type) (loads : bytes -> res (list obj)) f1 f2 expr minP,
  Permutation f1 f2 -> NoDup (map fst f1) ->
  pickle_file decompress obj loads f1 expr minP = pickle_file decompress obj loads f2 expr minP.
Proof.
  intros obj loads f1 f2 expr minP HP Hnd. unfold pickle_file.
  apply (read_parts_perm (fun f n => res_bind (load_bytes decompress f n) loads)); [exact HP|].
  intros n. rewrite (load_bytes_perm f1 f2 n HP Hnd). reflexivity.
Qed.
End ListingOrder.

(* the bound of 100000 partitions is tight: the next part name sorts before its predecessor *)
Lemma part_100000_sorts_first : forall s,
  str_leb (std_part_name 100000 s) (std_part_name 99999 s) = true /\ std_part_name 100000 s <> std_part_name 99999 s.
Proof.
  intros s. assert (L : lex_lt (std_part_name 100000 s) (std_part_name 99999 s)).
  { exists [112; 97; 114; 116; 45]%N, 49%N, 57%N, ([48; 48; 48; 48; 48]%N ++ s), ([57; 57; 57; 57]%N ++ s).
    split; [vm_compute; reflexivity|]. split; [vm_compute; reflexivity|]. reflexivity. }
  split; [apply lex_lt_leb; exact L|apply lex_lt_neq; exact L].
Qed.


Lemma Forall2_combine_map : forall {A B C} (R : A -> B -> Prop) (R' : A -> C -> Prop) (h : A -> B -> C) l1 l2,
  Forall2 R l1 l2 -> (forall x y, R x y -> R' x (h x y)) ->
  Forall2 R' l1 (map (fun xy => h (fst xy) (snd xy)) (combine l1 l2)).
Proof.
  intros A B C R R' h l1 l2 H Himp. induction H as [|x y l1 l2 Hxy H IH]; [constructor|].
  cbn. constructor; [apply Himp; exact Hxy|exact IH].
Qed.
Lemma Forall2_and_right : forall {A B} (R : A -> B -> Prop) (P : B -> Prop) l1 l2,
  Forall2 R l1 l2 -> Forall P l2 -> Forall2 (fun x y => R x y /\ P y) l1 l2.
Proof.
  intros A B R P l1 l2 H. induction H as [|x y l1 l2 Hxy H IH]; intros HP; [constructor|].
  inversion HP; subst. constructor; auto.
Qed.

Section WholeSaved.
Variable compress : codec -> bytes -> bytes.
Variable decompress : codec -> bytes -> option bytes.
Hypothesis codec_roundtrip : forall c b, decompress c (compress c b) = Some b.

(* wholeTextFiles over a data set written by saveAsTextFile: one pair per data file, keyed by its path,
   holding exactly the text of its partition *)
Theorem whole_text_saved : forall f p parts minP,
  fs_exists f p = false -> ends_with p [slash] = false -> contains_char slash p = true ->
  Z.of_nat (length parts) <= 100000 ->
  Forall (Forall no_break) parts -> Forall (Forall scalar_str) parts ->
  exists f' pss,
    save_text compress f p parts = Ok f' /\
    whole_text_files decompress f' p minP = Ok pss /\
    concat pss = map (fun nx => (fst nx, concat (map text_line (snd nx))))
                     (combine (data_names text_codec_suffix p parts) (chunks parts)).
Proof.
  intros f p parts minP Hf He Hs Hn Hb Hsc.
  destruct (save_layout compress text_payload text_codec_suffix text_part_name text_marker_name
              (fun i s => eq_refl) eq_refl eq_refl f p parts Hf He Hs Hn) as [f' [H1 [H2 H3]]].
  assert (Hgood : Forall good_lines (chunks parts)).
  { unfold chunks. destruct (length parts =? 1)%nat.
    - constructor; [|constructor]. split; apply Forall_concat_intro; assumption.
    - clear -Hb Hsc. induction parts as [|x parts IH]; [constructor|].
      inversion Hb; inversion Hsc; subst. constructor; [split; assumption|apply IH; assumption]. }
  pose proof (Forall2_and_right _ _ _ _ H3 Hgood) as H4.
  pose proof (Forall2_combine_map _
                (fun n c => res_map (fun s => [(n, s)]) (load_text decompress f' n) = Ok c)
                (fun n xs => [(n, concat (map text_line xs))]) _ _ H4) as H5.
  assert (HF := H5). clear H5.
  assert (Himp : forall (n : path) (xs : list str),
            (fs_lookup f' n = Some (enc compress (get_codec n) (text_payload xs)) /\ good_lines xs) ->
            res_map (fun s => [(n, s)]) (load_text decompress f' n) = Ok [(n, concat (map text_line xs))]).
  { intros n xs [Hl [Hnb Hscal]].
    rewrite (load_text_written compress decompress codec_roundtrip f' n (concat (map text_line xs)));
      [reflexivity|apply scalar_lines; exact Hscal|exact Hl]. }
  specialize (HF Himp).
  destruct (read_parts_forall2 _ f' p minP _ _ H2 HF) as [pss [Hr Hc]].
  exists f', pss. split; [exact H1|]. split; [exact Hr|].
  rewrite Hc. rewrite concat_map_single. reflexivity.
Qed.
End WholeSaved.
