(* C03 -- lemmas about the interleaving semantics of PV.Model.Sched (see Properties/C03.v for the statements). *)
From Coq Require Import ZArith List Bool PrimFloat Lia.
Require Import PV.Base.PyArith PV.Gen.Layout PV.Model.Sched.
Import ListNotations.
Open Scope Z_scope.

(* ------------------------------------------------------------------------------------------- *)
(* caches *)
Lemma key_eqb_eq (a b : key) : key_eqb a b = true <-> a = b.
Proof.
  destruct a as [a1 a2], b as [b1 b2]; unfold key_eqb; simpl.
  rewrite andb_true_iff, !Z.eqb_eq. split.
  - intros [H1 H2]; subst; reflexivity.
  - intros H; inversion H; auto.
Qed.

Lemma key_eqb_refl (a : key) : key_eqb a a = true.
Proof. apply key_eqb_eq; reflexivity. Qed.

Lemma c_get_In c k d : c_get c k = Some d -> In (k, d) c.
Proof.
  induction c as [|[k' d'] c IH]; simpl; [discriminate|].
  destruct (key_eqb k' k) eqn:E.
  - intros H; inversion H; subst. apply key_eqb_eq in E; subst. left; reflexivity.
  - intros H; right; auto.
Qed.

Lemma c_set_In c k d k' d' : In (k', d') (c_set c k d) -> In (k', d') c \/ (k' = k /\ d' = d).
Proof.
  induction c as [|[k0 d0] c IH]; simpl.
  - intros [H|[]]; inversion H; auto.
  - destruct (key_eqb k0 k) eqn:E; simpl.
    + intros [H|H]; [inversion H; subst; apply key_eqb_eq in E; auto | auto].
    + intros [H|H]; [auto | destruct (IH H); auto].
Qed.

Lemma c_set_keys c k d k' : In k' (c_keys (c_set c k d)) -> In k' (c_keys c) \/ k' = k.
Proof.
  unfold c_keys. rewrite in_map_iff. intros [[k0 d0] [E H]]; simpl in E; subst.
  destruct (c_set_In _ _ _ _ _ H) as [H1|[H1 _]]; [left; apply in_map_iff; exists (k', d0); auto | auto].
Qed.

Lemma c_update_In delta : forall c k d, In (k, d) (c_update c delta) -> In (k, d) c \/ In (k, d) delta.
Proof.
  unfold c_update. induction delta as [|[k0 d0] delta IH]; simpl; intros c k d H; [auto|].
  destruct (IH _ _ _ H) as [H1|H1]; [|auto].
  destruct (c_set_In _ _ _ _ _ H1) as [H2|[H2 H3]]; [auto | subst; auto].
Qed.

Lemma c_clone_In c i k d : In (k, d) (c_clone c i) -> In (k, d) c.
Proof. unfold c_clone. rewrite filter_In. tauto. Qed.

Lemma c_not_in_In c ks k d : In (k, d) (c_not_in c ks) -> In (k, d) c.
Proof. unfold c_not_in. rewrite filter_In. tauto. Qed.

Lemma c_get_clone c i id : c_get (c_clone c i) (id, i) = c_get c (id, i).
Proof.
  induction c as [|[[id' i'] d] c IH]; simpl; [reflexivity|].
  destruct (i' =? i) eqn:E; simpl.
  - rewrite IH. reflexivity.
  - rewrite IH. unfold key_eqb; simpl. rewrite E, andb_false_r. reflexivity.
Qed.

(* ------------------------------------------------------------------------------------------- *)
(* lists *)
Lemma nth_error_upd_nth_eq {B} (l : list B) n b x : nth_error l n = Some x -> nth_error (upd_nth l n b) n = Some b.
Proof. revert n; induction l as [|y l IH]; intros [|n]; simpl; try discriminate; auto. Qed.

Lemma nth_error_upd_nth_neq {B} (l : list B) n m b : n <> m -> nth_error (upd_nth l n b) m = nth_error l m.
Proof.
  revert n m; induction l as [|y l IH]; intros [|n] [|m] H; simpl; auto; try congruence.
Qed.

Lemma upd_nth_same {B} (l : list B) n x : nth_error l n = Some x -> upd_nth l n x = l.
Proof. revert n; induction l as [|y l IH]; intros [|n]; simpl; try discriminate; intros H; [inversion H; auto | f_equal; auto]. Qed.

Lemma length_upd_nth {B} (l : list B) n b : length (upd_nth l n b) = length l.
Proof. revert n; induction l as [|y l IH]; intros [|n]; simpl; auto. Qed.

Lemma Forall2_upd_nth {A B} (R : A -> B -> Prop) l0 l n a0 b :
  Forall2 R l0 l -> nth_error l0 n = Some a0 -> R a0 b -> Forall2 R l0 (upd_nth l n b).
Proof.
  intros H; revert n; induction H as [|x y l0 l Hxy H IH]; intros [|n]; simpl; try discriminate.
  - intros E Hb; inversion E; subst; constructor; auto.
  - intros E Hb; constructor; eauto.
Qed.

Lemma Forall2_nth_error {A B} (R : A -> B -> Prop) l0 l n b :
  Forall2 R l0 l -> nth_error l n = Some b -> exists a0, nth_error l0 n = Some a0 /\ R a0 b.
Proof.
  intros H; revert n; induction H as [|x y l0 l Hxy H IH]; intros [|n]; simpl; try discriminate.
  - intros E; inversion E; subst; eauto.
  - intros E; eauto.
Qed.

Lemma Forall2_nth_error_l {A B} (R : A -> B -> Prop) l0 l n a0 :
  Forall2 R l0 l -> nth_error l0 n = Some a0 -> exists b, nth_error l n = Some b /\ R a0 b.
Proof.
  intros H; revert n; induction H as [|x y l0 l Hxy H IH]; intros [|n]; simpl; try discriminate.
  - intros E; inversion E; subst; eauto.
  - intros E; eauto.
Qed.

Lemma Forall2_eq_map {A B} (F : A -> B) l0 l : Forall2 (fun a b => b = F a) l0 l -> l = map F l0.
Proof. induction 1; simpl; congruence. Qed.

Lemma Forall2_impl' {A B} (R S : A -> B -> Prop) l0 l :
  (forall a b, R a b -> S a b) -> Forall2 R l0 l -> Forall2 S l0 l.
Proof. intros H; induction 1; constructor; auto. Qed.

Lemma Forall2_and_right {A B} (R : A -> B -> Prop) (P : B -> Prop) l0 l :
  Forall2 R l0 l -> (forall n b, nth_error l n = Some b -> P b) -> Forall2 (fun a b => R a b /\ P b) l0 l.
Proof.
  induction 1 as [|a b l0 l Hab H IH]; intros HP; constructor.
  - split; auto. apply (HP 0%nat); reflexivity.
  - apply IH. intros n b' Hn. apply (HP (S n)); auto.
Qed.

Lemma Forall2_len {A B} (R : A -> B -> Prop) l0 l : Forall2 R l0 l -> length l = length l0.
Proof. induction 1; simpl; auto. Qed.

Lemma NoDup_app_snoc {B} (l : list B) x : NoDup l -> ~ In x l -> NoDup (l ++ [x]).
Proof.
  induction l as [|y l IH]; simpl; intros Hnd Hx.
  - constructor; auto.
  - inversion Hnd; subst. constructor.
    + rewrite in_app_iff. simpl. intros [H|[H|[]]]; [auto | subst; auto].
    + apply IH; auto.
Qed.

(* ------------------------------------------------------------------------------------------- *)
(* programs that do not touch the shared state *)
Section Local.
Variable draw : Z -> nat -> float.

Definition lop_local (o : lop) : bool := match o with LSampGlobal _ => false | _ => true end.
Definition val_local (l : lstate) : Prop := forallb lop_local (v_pend (l_val l)) = true.
Definition rng0 : rng := (0, 0%nat).
Definition force_l (ops : list lop) (xs : list Z) : list Z := fst (force_ops draw ops xs rng0).

Lemma force_ops_local ops :
  forallb lop_local ops = true -> forall xs g, force_ops draw ops xs g = (force_l ops xs, g).
Proof.
  induction ops as [|o ops IH]; simpl; intros H xs g; [reflexivity|].
  apply andb_true_iff in H as [Ho H].
  destruct o; simpl in *; try discriminate; unfold force_l; simpl; rewrite !(IH H); reflexivity.
Qed.

Lemma force_ops_app a : forall b xs g,
  force_ops draw (a ++ b) xs g = let '(ys, g') := force_ops draw a xs g in force_ops draw b ys g'.
Proof.
  induction a as [|o a IH]; simpl; intros b xs g; [reflexivity|].
  destruct o; apply IH.
Qed.

Lemma force_l_snoc ops o xs :
  forallb lop_local ops = true -> lop_local o = true ->
  force_l (ops ++ [o]) xs = force_l [o] (force_l ops xs).
Proof.
  intros H Ho. unfold force_l at 1. rewrite force_ops_app, (force_ops_local _ H).
  reflexivity.
Qed.

Definition do_act_l (idx : Z) (part : list Z) (a : act) (l : lstate) : lstate :=
  snd (do_act draw idx part a shared0 l).

Lemma set_rng_same sh : set_rng sh (sh_rng sh) = sh.
Proof. destruct sh; reflexivity. Qed.

Lemma do_act_local idx part a sh l :
  act_local a = true -> val_local l ->
  do_act draw idx part a sh l = (sh, do_act_l idx part a l) /\ val_local (do_act_l idx part a l).
Proof.
  unfold val_local, do_act_l. intros Ha Hl.
  destruct a; simpl in Ha; try discriminate; simpl.
  - auto.
  - destruct o; try discriminate; simpl; split; auto; rewrite forallb_app, Hl; reflexivity.
  - split; auto. rewrite forallb_app, Hl; reflexivity.
  - unfold forced. rewrite !(force_ops_local _ Hl). simpl. rewrite set_rng_same. auto.
  - auto.
  - destruct (c_get (l_cache l) (id, idx)); simpl; auto.
  - unfold forced. rewrite !(force_ops_local _ Hl). simpl. rewrite set_rng_same.
    destruct tf; simpl in Ha; try discriminate; auto.
Qed.

Definition lexec (idx : Z) (part : list Z) (p : prog) (l : lstate) : lstate :=
  snd (exec draw idx part p shared0 l).

Lemma exec_local idx part p :
  prog_local p = true -> forall sh l, val_local l -> exec draw idx part p sh l = (sh, lexec idx part p l).
Proof.
  unfold lexec.
  induction p as [|lb k IH|a k IH|c km IHm kh IHh]; simpl; intros Hp sh l Hl.
  - reflexivity.
  - auto.
  - apply andb_true_iff in Hp as [Ha Hk].
    destruct (do_act_local idx part a sh l Ha Hl) as [E1 Hl1].
    destruct (do_act_local idx part a shared0 l Ha Hl) as [E0 _].
    rewrite E1, E0. destruct (l_crash (do_act_l idx part a l)); [reflexivity|].
    rewrite (IH Hk sh _ Hl1). reflexivity.
  - apply andb_true_iff in Hp as [Hp Hh]. apply andb_true_iff in Hp as [Hc Hm].
    destruct c; simpl in Hc; try discriminate. simpl.
    destruct (c_has (l_cache l) (id, idx)); auto.
Qed.

Definition settled (p : prog) : Prop := match p with PAct _ _ | PIf _ _ _ => False | _ => True end.

Lemma settle_local idx part p :
  prog_local p = true -> forall sh l p' sh' l', val_local l ->
  settle draw idx part p sh l = (p', sh', l') ->
  sh' = sh /\ prog_local p' = true /\ val_local l' /\ settled p' /\ (plen p' <= plen p)%nat /\
  lexec idx part p' l' = lexec idx part p l.
Proof.
  induction p as [|lb k IH|a k IH|c km IHm kh IHh]; simpl; intros Hp sh l p' sh' l' Hl E.
  - inversion E; subst; simpl; auto 10.
  - inversion E; subst; simpl; auto 10.
  - apply andb_true_iff in Hp as [Ha Hk].
    destruct (do_act_local idx part a sh l Ha Hl) as [E1 Hl1].
    destruct (do_act_local idx part a shared0 l Ha Hl) as [E0 _].
    rewrite E1 in E. unfold lexec at 2. simpl. rewrite E0.
    destruct (l_crash (do_act_l idx part a l)).
    + inversion E; subst; simpl. repeat split; auto; lia.
    + destruct (IH Hk _ _ _ _ _ Hl1 E) as (H1 & H2 & H3 & H4 & H5 & H6). repeat split; auto.
  - apply andb_true_iff in Hp as [Hp Hh]. apply andb_true_iff in Hp as [Hc Hm].
    destruct c; simpl in Hc; try discriminate. simpl in E. unfold lexec at 2. simpl.
    destruct (c_has (l_cache l) (id, idx)).
    + destruct (IHh Hh _ _ _ _ _ Hl E) as (H1 & H2 & H3 & H4 & H5 & H6). repeat split; auto; lia.
    + destruct (IHm Hm _ _ _ _ _ Hl E) as (H1 & H2 & H3 & H4 & H5 & H6). repeat split; auto; lia.
Qed.

End Local.

(* ------------------------------------------------------------------------------------------- *)
(* a job whose task program is local: the final state of every task is its own uninterrupted run,
   for every schedule and on both backends *)
Section Global.
Variable draw : Z -> nat -> float.
Variable b : backend.
Variable p0 : prog.
Hypothesis Hp0 : prog_local p0 = true.
Variable tasks0 : list task.
Variable shs : list shared.
Hypothesis Hslot : forall tid, (tid < length tasks0)%nat -> exists sh, nth_error shs (slot b tid) = Some sh.
Hypothesis Hinit : Forall (fun t0 => t_prog t0 = p0 /\ val_local (t_l t0)) tasks0.

Record WInv (t0 t : task) : Prop := {
  w_idx : t_idx t = t_idx t0;
  w_part : t_part t = t_part t0;
  w_cm0 : t_cm0 t = t_cm0 t0;
  w_local : prog_local (t_prog t) = true;
  w_val : val_local (t_l t);
  w_dest : lexec draw (t_idx t0) (t_part t0) (t_prog t) (t_l t) = lexec draw (t_idx t0) (t_part t0) p0 (t_l t0);
  w_len : (plen (t_prog t) <= plen p0)%nat
}.

Definition GW (g : gstate) : Prop := g_sh g = shs /\ Forall2 WInv tasks0 (g_tasks g).

Lemma WInv_init : Forall2 WInv tasks0 tasks0.
Proof.
  assert (H : forall l, Forall (fun t0 => t_prog t0 = p0 /\ val_local (t_l t0)) l -> Forall2 WInv l l).
  { induction 1 as [|t0 l [Hp Hv] _ IH]; constructor; auto.
    constructor; auto; rewrite Hp; auto with arith. }
  apply H, Hinit.
Qed.

Lemma settle_task_W g tid t0 t p :
  GW g -> nth_error tasks0 tid = Some t0 -> nth_error (g_tasks g) tid = Some t -> WInv t0 t ->
  prog_local p = true ->
  lexec draw (t_idx t0) (t_part t0) p (t_l t) = lexec draw (t_idx t0) (t_part t0) (t_prog t) (t_l t) ->
  (plen p <= plen (t_prog t))%nat ->
  exists t', settle_task draw b tid p g =
               {| g_sh := shs; g_tasks := upd_nth (g_tasks g) tid t'; g_events := g_events g |} /\
             WInv t0 t' /\ settled (t_prog t') /\ (plen (t_prog t') <= plen p)%nat.
Proof.
  intros [Hsh HF] H0 Ht HW Hp He Hl.
  assert (Hlt : (tid < length tasks0)%nat) by (apply nth_error_Some; congruence).
  destruct (Hslot tid Hlt) as [sh Hs].
  unfold settle_task. rewrite Ht, Hsh, Hs.
  destruct (settle draw (t_idx t) (t_part t) p sh (t_l t)) as [[p' sh'] l'] eqn:E.
  destruct (settle_local draw _ _ _ Hp _ _ _ _ _ (w_val _ _ HW) E) as (H1 & H2 & H3 & H4 & H5 & H6).
  subst sh'. rewrite (upd_nth_same _ _ _ Hs).
  exists (with_prog t p' l'). split; [reflexivity|]. split; [|split]; simpl; auto.
  destruct HW as [Wi Wp Wc Wl Wv Wd Wn]. constructor; simpl; auto.
  - rewrite Wi, Wp in H6. rewrite H6, He. exact Wd.
  - lia.
Qed.

(* every thread is started *)
Definition GI (g : gstate) : Prop :=
  g_sh g = shs /\ Forall2 (fun t0 t => WInv t0 t /\ settled (t_prog t)) tasks0 (g_tasks g).

Lemma GI_GW g : GI g -> GW g.
Proof. intros [H1 H2]; split; auto. eapply Forall2_impl'; [|exact H2]. simpl; tauto. Qed.

Lemma start_prefix n : (n <= length tasks0)%nat ->
  let g := fold_left (fun g tid => settle_task draw b tid p0 g) (seq 0 n)
                     {| g_sh := shs; g_tasks := tasks0; g_events := [] |} in
  GW g /\ length (g_tasks g) = length tasks0 /\
  (forall tid t, (tid < n)%nat -> nth_error (g_tasks g) tid = Some t -> settled (t_prog t)) /\
  (forall tid, (n <= tid)%nat -> nth_error (g_tasks g) tid = nth_error tasks0 tid).
Proof.
  induction n as [|n IH]; intros Hn.
  - simpl. split; [split; [reflexivity | apply WInv_init]|]. split; [reflexivity|]. split; [intros; lia | auto].
  - rewrite seq_S, fold_left_app. simpl.
    destruct (IH ltac:(lia)) as (HG & Hlen & Hs & Hrest). clear IH.
    set (g := fold_left _ (seq 0 n) _) in *.
    destruct (nth_error tasks0 n) as [t0|] eqn:E0; [|apply nth_error_None in E0; lia].
    assert (Et : nth_error (g_tasks g) n = Some t0) by (rewrite Hrest; auto).
    destruct HG as [Hsh HF].
    destruct (Forall2_nth_error _ _ _ _ _ HF Et) as (t0' & E0' & HW). rewrite E0 in E0'; inversion E0'; subst t0'.
    assert (Hp : t_prog t0 = p0).
    { rewrite Forall_forall in Hinit. apply (Hinit t0). eapply nth_error_In; eauto. }
    destruct (settle_task_W g n t0 t0 p0 (conj Hsh HF) E0 Et HW Hp0) as (t' & Eg & HW' & Hset & Hlen').
    { rewrite Hp; reflexivity. } { rewrite Hp; lia. }
    rewrite Eg; simpl. split; [split; [reflexivity | eapply Forall2_upd_nth; eauto]|].
    split; [rewrite length_upd_nth; auto|]. split.
    + intros tid t Hlt Ht. destruct (Nat.eq_dec tid n) as [->|Hne].
      * rewrite (nth_error_upd_nth_eq _ _ _ _ Et) in Ht. inversion Ht as [Hteq]. rewrite <- Hteq. auto.
      * rewrite nth_error_upd_nth_neq in Ht by auto. apply (Hs tid); auto; lia.
    + intros tid Hle. rewrite nth_error_upd_nth_neq by lia. apply Hrest; lia.
Qed.

Lemma start_all_GI :
  let g := start_all draw b p0 {| g_sh := shs; g_tasks := tasks0; g_events := [] |} in GI g.
Proof.
  unfold start_all; simpl.
  destruct (start_prefix (length tasks0) (le_n _)) as ([Hsh HF] & Hlen & Hs & _).
  set (g := fold_left _ _ _) in *. split; auto.
  apply Forall2_and_right; auto.
  intros tid t Ht. apply (Hs tid t); auto. rewrite <- Hlen. apply nth_error_Some; congruence.
Qed.

Lemma plen_settled_zero p : settled p -> plen p = 0%nat -> p = PDone.
Proof. destruct p; simpl; intros H E; try tauto; try lia; discriminate. Qed.

(* one grant keeps the invariant, leaves the other tasks alone, and makes progress on a gate *)
Lemma grant_GI g tid : GI g ->
  GI (grant draw b g tid) /\
  (forall m, m <> tid -> nth_error (g_tasks (grant draw b g tid)) m = nth_error (g_tasks g) m) /\
  (forall t, nth_error (g_tasks g) tid = Some t ->
     exists t', nth_error (g_tasks (grant draw b g tid)) tid = Some t' /\
                (t_prog t = PDone -> t' = t) /\
                (t_prog t <> PDone -> (S (plen (t_prog t')) <= plen (t_prog t))%nat)).
Proof.
  intros HG. unfold grant.
  destruct (nth_error (g_tasks g) tid) as [t|] eqn:Et.
  2:{ split; auto. split; auto. intros; discriminate. }
  destruct HG as [Hsh HF].
  destruct (Forall2_nth_error _ _ _ _ _ HF Et) as (t0 & E0 & HW & Hset).
  destruct (t_prog t) as [|lb k|a k|c km kh] eqn:Ep; simpl in Hset; try tauto.
  - split; [split; auto|]. split; auto. intros t1 E1; inversion E1; subst. exists t1; split; auto. split; auto. congruence.
  - set (g1 := {| g_sh := g_sh g; g_tasks := g_tasks g; g_events := (Z.of_nat tid, lb) :: g_events g |}).
    assert (HG1 : GW g1).
    { split; auto. simpl. eapply Forall2_impl'; [|exact HF]. simpl; tauto. }
    destruct (settle_task_W g1 tid t0 t k HG1 E0 Et HW) as (t' & Eg & HW' & Hset' & Hlen').
    { pose proof (w_local _ _ HW) as Hl. rewrite Ep in Hl. exact Hl. }
    { rewrite Ep. reflexivity. }
    { rewrite Ep. simpl. lia. }
    rewrite Eg. simpl. split; [split; auto|].
    + eapply Forall2_upd_nth; eauto.
    + split.
      * intros m Hm. apply nth_error_upd_nth_neq; auto.
      * intros t1 E1; inversion E1; subst t1. exists t'. split; [eapply nth_error_upd_nth_eq; eauto|].
        split; [rewrite Ep; discriminate|]. intros _. rewrite Ep; simpl. lia.
Qed.

Lemma run_sched_GI sched : forall g, GI g -> GI (run_sched draw b sched g).
Proof.
  unfold run_sched. induction sched as [|tid sched IH]; simpl; intros g HG; auto.
  apply IH. apply grant_GI; auto.
Qed.

Definition done_at (g : gstate) (tid : nat) : Prop :=
  forall t, nth_error (g_tasks g) tid = Some t -> t_prog t = PDone.

Lemma grant_done g tid m : GI g -> done_at g m -> done_at (grant draw b g tid) m.
Proof.
  intros HG Hd. destruct (grant_GI g tid HG) as (_ & Ho & Hs).
  destruct (Nat.eq_dec m tid) as [->|Hne].
  - intros t' Ht'. destruct (nth_error (g_tasks g) tid) as [t|] eqn:Et.
    + destruct (Hs t eq_refl) as (t1 & E1 & Hsame & _). rewrite E1 in Ht'; inversion Ht'; subst.
      rewrite (Hsame (Hd t Et)). apply (Hd t Et).
    + unfold grant in Ht'. rewrite Et in Ht'. congruence.
  - intros t Ht. rewrite Ho in Ht by auto. apply Hd; auto.
Qed.

Lemma run_sched_done sched : forall g m, GI g -> done_at g m -> done_at (run_sched draw b sched g) m.
Proof.
  unfold run_sched. induction sched as [|tid sched IH]; simpl; intros g m HG Hd; auto.
  apply IH; [apply grant_GI; auto | apply grant_done; auto].
Qed.

Lemma repeat_grant_progress tid : forall n g, GI g ->
  forall t, nth_error (g_tasks g) tid = Some t ->
  exists t', nth_error (g_tasks (run_sched draw b (repeat tid n) g)) tid = Some t' /\
             (t_prog t' = PDone \/ (plen (t_prog t') + n <= plen (t_prog t))%nat).
Proof.
  unfold run_sched. induction n as [|n IH]; simpl; intros g HG t Ht.
  - exists t; split; auto. right; lia.
  - destruct (grant_GI g tid HG) as (HG' & _ & Hs).
    destruct (Hs t Ht) as (t1 & E1 & Hsame & Hprog).
    destruct (IH _ HG' t1 E1) as (t' & E' & Hd). exists t'; split; auto.
    destruct Hd as [Hd|Hd]; auto.
    destruct (t_prog t) eqn:Ep.
    + left. rewrite (Hsame eq_refl) in Hd. rewrite Ep in Hd. simpl in Hd.
      destruct HG as [_ HF]. 
      assert (HG2 : GI (fold_left (grant draw b) (repeat tid n) (grant draw b g tid))) by (apply (run_sched_GI (repeat tid n)); auto).
      destruct HG2 as [_ HF2]. destruct (Forall2_nth_error _ _ _ _ _ HF2 E') as (t0 & _ & _ & Hset).
      apply plen_settled_zero; auto. lia.
    + right. assert (Hne : PGate label p <> PDone) by discriminate. specialize (Hprog Hne). lia.
    + right. assert (Hne : PAct a p <> PDone) by discriminate. specialize (Hprog Hne). lia.
    + right. assert (Hne : PIf c p1 p2 <> PDone) by discriminate. specialize (Hprog Hne). lia.
Qed.

Lemma drain_prefix n : forall g, GI g -> (n <= length tasks0)%nat ->
  let g' := run_sched draw b (drain_sched p0 n) g in
  GI g' /\ forall tid, (tid < n)%nat -> done_at g' tid.
Proof.
  induction n as [|n IH]; intros g HG Hn.
  - simpl. split; auto. intros; lia.
  - unfold drain_sched. rewrite seq_S, flat_map_app. simpl. rewrite app_nil_r.
    unfold run_sched. rewrite fold_left_app.
    destruct (IH g HG ltac:(lia)) as (HG1 & Hdone). unfold drain_sched, run_sched in HG1, Hdone.
    set (g1 := fold_left (grant draw b) (flat_map _ (seq 0 n)) g) in *.
    split; [apply (run_sched_GI (repeat n (plen p0))); auto|].
    intros tid Hlt. destruct (Nat.eq_dec tid n) as [->|Hne].
    + intros t' Ht'.
      destruct HG1 as [Hsh HF].
      destruct (nth_error tasks0 n) as [t0|] eqn:E0; [|apply nth_error_None in E0; lia].
      destruct (Forall2_nth_error_l _ _ _ _ _ HF E0) as (t & Et & HW & Hset).
      destruct (repeat_grant_progress n (plen p0) g1 (conj Hsh HF) t Et) as (t1 & E1 & Hd).
      unfold run_sched in E1. rewrite E1 in Ht'; inversion Ht'; subst t1.
      destruct Hd as [Hd|Hd]; auto.
      pose proof (w_len _ _ HW) as Hl.
      assert (HG2 : GI (fold_left (grant draw b) (repeat n (plen p0)) g1)) by (apply (run_sched_GI (repeat n (plen p0))); split; auto).
      destruct HG2 as [_ HF2]. destruct (Forall2_nth_error _ _ _ _ _ HF2 E1) as (t0' & _ & _ & Hset').
      apply plen_settled_zero; auto. lia.
    + apply (run_sched_done (repeat n (plen p0))); auto. apply Hdone; lia.
Qed.


(* --- events: every task executes exactly the line sequence of its own uninterrupted run ------------------------- *)
Fixpoint ltrace (idx : Z) (part : list Z) (p : prog) (l : lstate) : list Z :=
  match p with
  | PDone => []
  | PGate lb k => lb :: ltrace idx part k l
  | PAct a k => let l' := do_act_l draw idx part a l in if l_crash l' then [] else ltrace idx part k l'
  | PIf c km kh => if eval_cond idx c shared0 l then ltrace idx part kh l else ltrace idx part km l
  end.

Lemma settle_trace idx part p :
  prog_local p = true -> forall sh l p' sh' l', val_local l ->
  settle draw idx part p sh l = (p', sh', l') -> ltrace idx part p' l' = ltrace idx part p l.
Proof.
  induction p as [|lb k IH|a k IH|c km IHm kh IHh]; simpl; intros Hp sh l p' sh' l' Hl E.
  - inversion E; subst; reflexivity.
  - inversion E; subst; reflexivity.
  - apply andb_true_iff in Hp as [Ha Hk].
    destruct (do_act_local draw idx part a sh l Ha Hl) as [E1 Hl1]. rewrite E1 in E.
    destruct (l_crash (do_act_l draw idx part a l)).
    + inversion E; subst; reflexivity.
    + apply (IH Hk _ _ _ _ _ Hl1 E).
  - apply andb_true_iff in Hp as [Hp Hh]. apply andb_true_iff in Hp as [Hc Hm].
    destruct c; simpl in Hc; try discriminate. simpl in E. simpl.
    destruct (c_has (l_cache l) (id, idx)); eauto.
Qed.

Definition proj (tid : nat) (evs : list (Z * Z)) : list (Z * Z) := filter (fun e => fst e =? Z.of_nat tid) evs.
Definition tag (tid : nat) (ls : list Z) : list (Z * Z) := map (fun lb => (Z.of_nat tid, lb)) ls.

Definition EI (g : gstate) : Prop :=
  forall tid t0 t, nth_error tasks0 tid = Some t0 -> nth_error (g_tasks g) tid = Some t ->
    proj tid (rev (g_events g)) ++ tag tid (ltrace (t_idx t0) (t_part t0) (t_prog t) (t_l t))
    = tag tid (ltrace (t_idx t0) (t_part t0) p0 (t_l t0)).

(* what settle_task does to the trace of the task it advances *)
Lemma settle_task_E g tid p :
  GW g ->
  (forall m t0 t, m <> tid -> nth_error tasks0 m = Some t0 -> nth_error (g_tasks g) m = Some t ->
     proj m (rev (g_events g)) ++ tag m (ltrace (t_idx t0) (t_part t0) (t_prog t) (t_l t))
     = tag m (ltrace (t_idx t0) (t_part t0) p0 (t_l t0))) ->
  (forall t0 t, nth_error tasks0 tid = Some t0 -> nth_error (g_tasks g) tid = Some t ->
     prog_local p = true /\
     proj tid (rev (g_events g)) ++ tag tid (ltrace (t_idx t0) (t_part t0) p (t_l t))
     = tag tid (ltrace (t_idx t0) (t_part t0) p0 (t_l t0))) ->
  EI (settle_task draw b tid p g).
Proof.
  intros [Hsh HF] Ho Hp. unfold settle_task.
  assert (Hsame : EI g -> EI g) by auto.
  destruct (nth_error (g_tasks g) tid) as [t|] eqn:Et.
  2:{ intros m t0 t H0 Hm. destruct (Nat.eq_dec m tid) as [->|Hne]; [congruence | apply Ho; auto]. }
  destruct (nth_error (g_sh g) (slot b tid)) as [sh|] eqn:Es.
  2:{ exfalso. assert (Hlt : (tid < length tasks0)%nat).
      { rewrite <- (Forall2_len _ _ _ HF). apply nth_error_Some. congruence. }
      destruct (Hslot tid Hlt) as [s Hs]. rewrite Hsh in Es. congruence. }
  destruct (settle draw (t_idx t) (t_part t) p sh (t_l t)) as [[p' sh'] l'] eqn:E.
  intros m t0m tm H0 Hm. simpl in Hm. simpl g_events.
  destruct (Nat.eq_dec m tid) as [->|Hne].
  - rewrite (nth_error_upd_nth_eq _ _ _ _ Et) in Hm. inversion Hm; subst tm. simpl.
    destruct (Forall2_nth_error _ _ _ _ _ HF Et) as (t0' & E0' & HW). rewrite H0 in E0'; inversion E0'; subst t0'.
    destruct (Hp t0m t H0 eq_refl) as [Hpl Htr].
    pose proof (settle_trace (t_idx t) (t_part t) p Hpl _ _ _ _ _ (w_val _ _ HW) E) as Hst.
    rewrite (w_idx _ _ HW), (w_part _ _ HW) in Hst. rewrite Hst. exact Htr.
  - rewrite nth_error_upd_nth_neq in Hm by auto. apply (Ho m t0m tm Hne H0 Hm).
Qed.

Lemma EI_init : EI {| g_sh := shs; g_tasks := tasks0; g_events := [] |}.
Proof.
  intros tid t0 t H0 Ht. simpl in *. rewrite H0 in Ht; inversion Ht; subst t.
  rewrite Forall_forall in Hinit. destruct (Hinit t0 (nth_error_In _ _ H0)) as [Hp _]. rewrite Hp. reflexivity.
Qed.

Lemma start_prefix_E n : (n <= length tasks0)%nat ->
  EI (fold_left (fun g tid => settle_task draw b tid p0 g) (seq 0 n)
                {| g_sh := shs; g_tasks := tasks0; g_events := [] |}).
Proof.
  induction n as [|n IH]; intros Hn; [apply EI_init|].
  rewrite seq_S, fold_left_app. simpl.
  destruct (start_prefix n ltac:(lia)) as (HG & _ & _ & Hrest).
  specialize (IH ltac:(lia)).
  set (g := fold_left _ (seq 0 n) _) in *.
  apply settle_task_E; [exact HG| |].
  - intros m t0 t _ H0 Ht. apply (IH m t0 t H0 Ht).
  - intros t0 t H0 Ht. split; auto. pose proof (IH n t0 t H0 Ht) as HI.
    rewrite Hrest in Ht by lia. rewrite H0 in Ht; inversion Ht; subst t.
    rewrite Forall_forall in Hinit. destruct (Hinit t0 (nth_error_In _ _ H0)) as [Hp _]. rewrite Hp in HI. exact HI.
Qed.

Lemma proj_snoc tid evs e : proj tid (evs ++ [e]) = proj tid evs ++ (if fst e =? Z.of_nat tid then [e] else []).
Proof. unfold proj. rewrite filter_app. simpl. destruct (fst e =? Z.of_nat tid); reflexivity. Qed.

Lemma grant_E g tid : GI g -> EI g -> EI (grant draw b g tid).
Proof.
  intros HG HE. unfold grant.
  destruct (nth_error (g_tasks g) tid) as [t|] eqn:Et; [|exact HE].
  destruct (t_prog t) as [|lb k|a k|c km kh] eqn:Ep; try exact HE.
  set (g1 := {| g_sh := g_sh g; g_tasks := g_tasks g; g_events := (Z.of_nat tid, lb) :: g_events g |}).
  destruct HG as [Hsh HF].
  assert (HG1 : GW g1).
  { split; auto. simpl. eapply Forall2_impl'; [|exact HF]. simpl; tauto. }
  apply settle_task_E; [exact HG1| |].
  - intros m t0m tm Hne H0 Hm. simpl in Hm. simpl g_events. simpl rev. rewrite proj_snoc. simpl fst.
    assert (Hz : Z.of_nat tid =? Z.of_nat m = false) by (apply Z.eqb_neq; intros Hx; apply Nat2Z.inj in Hx; auto).
    rewrite Hz, app_nil_r. apply (HE m t0m tm H0 Hm).
  - intros t0 t' H0 Ht'. simpl in Ht'. rewrite Et in Ht'; inversion Ht'; subst t'.
    destruct (Forall2_nth_error _ _ _ _ _ HF Et) as (t0' & E0' & HW & _).
    pose proof (w_local _ _ HW) as Hl. rewrite Ep in Hl. simpl in Hl. split; auto.
    simpl g_events. simpl rev. rewrite proj_snoc. simpl fst. rewrite Z.eqb_refl.
    rewrite <- (HE tid t0 t H0 Et). rewrite Ep. simpl. rewrite <- app_assoc. reflexivity.
Qed.

Definition fin (t0 : task) : task :=
  with_prog t0 PDone (lexec draw (t_idx t0) (t_part t0) p0 (t_l t0)).

Theorem local_job_final sched :
  let g := run_sched draw b (sched ++ drain_sched p0 (length tasks0))
             (start_all draw b p0 {| g_sh := shs; g_tasks := tasks0; g_events := [] |}) in
  g_sh g = shs /\ g_tasks g = map fin tasks0.
Proof.
  unfold run_sched. rewrite fold_left_app.
  pose proof start_all_GI as HG0. simpl in HG0.
  pose proof (run_sched_GI sched _ HG0) as HG1. unfold run_sched in HG1.
  destruct (drain_prefix (length tasks0) _ HG1 (le_n _)) as ([Hsh HF] & Hdone).
  unfold run_sched in *. set (g := fold_left (grant draw b) (drain_sched p0 (length tasks0)) _) in *.
  split; auto. apply Forall2_eq_map.
  assert (Hd : forall tid t, nth_error (g_tasks g) tid = Some t -> t_prog t = PDone).
  { intros tid t Ht. apply (Hdone tid); auto. rewrite <- (Forall2_len _ _ _ HF). apply nth_error_Some; congruence. }
  pose proof (Forall2_and_right _ (fun t => t_prog t = PDone) _ _ HF Hd) as HF2.
  eapply Forall2_impl'; [|exact HF2]. simpl.
  intros t0 t [[HW _] Hp].
  destruct HW as [Wi Wp Wc Wl Wv Wd Wn]. rewrite Hp in Wd. unfold lexec at 1 in Wd. simpl in Wd.
  unfold fin, with_prog. destruct t; simpl in *; subst; reflexivity.
Qed.

Lemma run_sched_E sched : forall g, GI g -> EI g -> EI (run_sched draw b sched g).
Proof.
  unfold run_sched. induction sched as [|tid sched IH]; simpl; intros g HG HE; auto.
  apply IH; [apply grant_GI; auto | apply grant_E; auto].
Qed.

Theorem local_job_events sched :
  let g := run_sched draw b (sched ++ drain_sched p0 (length tasks0))
             (start_all draw b p0 {| g_sh := shs; g_tasks := tasks0; g_events := [] |}) in
  forall tid t0, nth_error tasks0 tid = Some t0 ->
  proj tid (rev (g_events g)) = tag tid (ltrace (t_idx t0) (t_part t0) p0 (t_l t0)).
Proof.
  intros g tid t0 H0.
  assert (HE : EI g).
  { apply run_sched_E; [apply start_all_GI | apply (start_prefix_E (length tasks0) (le_n _))]. }
  destruct (local_job_final sched) as [_ Ht]. fold g in Ht.
  assert (Hn : nth_error (g_tasks g) tid = Some (fin t0)) by (rewrite Ht, nth_error_map, H0; reflexivity).
  pose proof (HE tid t0 (fin t0) H0 Hn) as H. simpl in H. rewrite app_nil_r in H. exact H.
Qed.

End Global.

(* ------------------------------------------------------------------------------------------- *)
(* today's program computes the lineage, and keeps the cache invariant *)
Section Today.
Variable draw : Z -> nat -> float.
Variable lin : Z -> rdd.
Variable parts : list (list Z).
Variable Sd : Z -> Prop.

Notation lx := (lexec draw).
Notation dal := (do_act_l draw).
Notation fl := (force_l draw).
Notation eval := (eval draw).
Notation cache_ok := (cache_ok_on draw Sd lin parts).

Lemma compile_local r : forall k, prog_local k = true -> prog_local (compile today r k) = true.
Proof.
  induction r as [|f r IH|id r IH|s fr r IH]; simpl; intros k Hk.
  - exact Hk.
  - apply IH. simpl. exact Hk.
  - rewrite Hk, IH; simpl; auto.
  - apply IH. simpl. exact Hk.
Qed.

Definition mk (c : cache) (v : value) (l : lstate) : lstate :=
  {| l_cache := c; l_val := v; l_res := l_res l; l_crash := false |}.

Lemma lexec_gate idx part lb k l : lx idx part (PGate lb k) l = lx idx part k l.
Proof. reflexivity. Qed.

Lemma lexec_act idx part a k l :
  act_local a = true -> val_local l -> l_crash (dal idx part a l) = false ->
  lx idx part (PAct a k) l = lx idx part k (dal idx part a l).
Proof.
  intros Ha Hl Hc. unfold lexec at 1. simpl.
  destruct (do_act_local draw idx part a shared0 l Ha Hl) as [E _]. rewrite E, Hc. reflexivity.
Qed.

Lemma lexec_if idx part id km kh l :
  lx idx part (PIf (CHas id) km kh) l =
  if c_has (l_cache l) (id, idx) then lx idx part kh l else lx idx part km l.
Proof. unfold lexec. simpl. destruct (c_has (l_cache l) (id, idx)); reflexivity. Qed.

Lemma do_act_l_force idx part l : val_local l ->
  dal idx part AForce l = set_val l {| v_base := fl (v_pend (l_val l)) (v_base (l_val l)); v_pend := [] |}.
Proof. intros Hl. unfold do_act_l. simpl. unfold forced. rewrite (force_ops_local draw _ Hl). reflexivity. Qed.

Lemma do_act_l_finish idx part tf l : val_local l ->
  dal idx part (AFinish tf) l = set_res l (apply_tfun tf (fl (v_pend (l_val l)) (v_base (l_val l)))).
Proof.
  intros Hl. unfold do_act_l. simpl. unfold forced. rewrite (force_ops_local draw _ Hl).
  destruct tf; reflexivity.
Qed.

Lemma cache_ok_set c id n p d :
  cache_ok c -> nth_error parts n = Some p -> d = eval (lin id) (Z.of_nat n) p ->
  cache_ok (c_set c (id, Z.of_nat n) d).
Proof.
  intros Hc Hn Hd k d' Hin HS. destruct (c_set_In _ _ _ _ _ Hin) as [H|[H1 H2]]; [apply Hc; auto|].
  subst k d'. exists n, p. simpl. auto.
Qed.

Lemma cache_ok_get c id n p d :
  cache_ok c -> Sd id -> nth_error parts n = Some p -> c_get c (id, Z.of_nat n) = Some d -> d = eval (lin id) (Z.of_nat n) p.
Proof.
  intros Hc HS Hn Hg. destruct (Hc _ _ (c_get_In _ _ _ Hg) HS) as (n' & p' & E & Hn' & Hd). simpl in *.
  apply Nat2Z.inj in E. subst n'. congruence.
Qed.

(* the cache after computing partition (i, p) of r, starting from c *)
Fixpoint adds (r : rdd) (i : Z) (p : list Z) (c : cache) : cache :=
  match r with
  | Src => c
  | Map _ r' => adds r' i p c
  | Sample _ _ r' => adds r' i p c
  | Persist id r' => if c_has c (id, i) then c else c_set (adds r' i p c) (id, i) (eval r' i p)
  end.

Lemma exec_compile_on n p (Hn : nth_error parts n = Some p) r :
  wf lin r -> (forall id, In id (ids r) -> Sd id) -> forall k l, val_local l -> l_crash l = false -> cache_ok (l_cache l) ->
  exists c' v',
    lx (Z.of_nat n) p (compile today r k) l = lx (Z.of_nat n) p k (mk c' v' l) /\
    forallb lop_local (v_pend v') = true /\
    fl (v_pend v') (v_base v') = eval r (Z.of_nat n) p /\
    cache_ok c' /\ c' = adds r (Z.of_nat n) p (l_cache l).
Proof.
  induction r as [|f r IH|id r IH|s fr r IH]; simpl; intros Hwf HS k l Hl Hcr Hc.
  - exists (l_cache l), {| v_base := p; v_pend := [] |}.
    rewrite lexec_act by (auto; simpl; auto). split; [|simpl; auto].
    unfold do_act_l, mk; simpl. unfold set_val. rewrite Hcr. reflexivity.
  - destruct (IH Hwf HS (PAct (APush (LMap f)) k) l Hl Hcr Hc) as (c1 & v1 & E & Hv1 & Hf1 & Hc1 & Ha1).
    exists c1, {| v_base := v_base v1; v_pend := v_pend v1 ++ [LMap f] |}.
    rewrite E, lexec_act by (auto; simpl; auto). split; [reflexivity|]. simpl.
    split; [rewrite forallb_app, Hv1; reflexivity|]. split; auto.
    rewrite force_l_snoc by auto. rewrite Hf1. reflexivity.
  - destruct Hwf as [Hlin Hwf]. rewrite !lexec_gate, lexec_if.
    destruct (c_has (l_cache l) (id, Z.of_nat n)) eqn:Eh.
    + unfold c_has in Eh. destruct (c_get (l_cache l) (id, Z.of_nat n)) as [d|] eqn:Eg; [|discriminate].
      rewrite !lexec_gate.
      assert (Ea : dal (Z.of_nat n) p (AGet id) l = mk (l_cache l) {| v_base := d; v_pend := [] |} l).
      { unfold do_act_l; simpl. rewrite Eg. simpl. unfold set_val, mk. rewrite Hcr. reflexivity. }
      rewrite lexec_act by (auto; rewrite Ea; reflexivity). rewrite Ea, lexec_gate.
      exists (l_cache l), {| v_base := d; v_pend := [] |}. split; [reflexivity|]. simpl. split; auto. split; auto.
      unfold force_l; simpl. rewrite <- Hlin. eapply cache_ok_get; eauto; apply HS; left; reflexivity.
    + rewrite lexec_gate.
      destruct (IH Hwf (fun j Hj => HS j (or_intror Hj)) (PAct AForce (PGate L_add (PAct (AAdd id) (PGate L_cm (PGate L_ret k))))) l Hl Hcr Hc)
        as (c1 & v1 & E & Hv1 & Hf1 & Hc1 & Ha1).
      rewrite E.
      assert (Hl1 : val_local (mk c1 v1 l)) by exact Hv1.
      rewrite lexec_act by (auto; rewrite do_act_l_force by auto; reflexivity).
      rewrite do_act_l_force by auto. simpl. rewrite Hf1, lexec_gate.
      rewrite lexec_act by (auto; reflexivity).
      rewrite !lexec_gate.
      exists (c_set c1 (id, Z.of_nat n) (eval r (Z.of_nat n) p)), {| v_base := eval r (Z.of_nat n) p; v_pend := [] |}.
      split; [reflexivity|]. simpl. split; auto. split; [reflexivity|]. split; [|rewrite Ha1; reflexivity].
      apply cache_ok_set with (p := p); auto. rewrite Hlin. reflexivity.
  - rewrite !lexec_gate.
    destruct (IH Hwf HS (PGate L_gen (PAct (APushSampOwn s fr) k)) l Hl Hcr Hc) as (c1 & v1 & E & Hv1 & Hf1 & Hc1 & Ha1).
    exists c1, {| v_base := v_base v1; v_pend := v_pend v1 ++ [LSampOwn (s + Z.of_nat n) fr] |}.
    rewrite E, lexec_gate, lexec_act by (auto; simpl; auto). split; [reflexivity|]. simpl.
    split; [rewrite forallb_app, Hv1; reflexivity|]. split; auto.
    rewrite force_l_snoc by auto. rewrite Hf1. reflexivity.
Qed.

Definition linit (c : cache) : lstate :=
  {| l_cache := c; l_val := {| v_base := []; v_pend := [] |}; l_res := None; l_crash := false |}.

Lemma task_today_on n p r tf c0 :
  nth_error parts n = Some p -> wf lin r -> (forall id, In id (ids r) -> Sd id) -> tfun_pure tf = true -> cache_ok c0 ->
  let lf := lx (Z.of_nat n) p (task_prog today r tf) (linit c0) in
  l_res lf = Some (apply_tfun tf (eval r (Z.of_nat n) p)) /\ l_crash lf = false /\ cache_ok (l_cache lf) /\
  l_cache lf = adds r (Z.of_nat n) p c0.
Proof.
  intros Hn Hwf HS Htf Hc. unfold task_prog.
  destruct (exec_compile_on n p Hn r Hwf HS (PAct (AFinish tf) PDone) (linit c0) eq_refl eq_refl Hc)
    as (c1 & v1 & E & Hv1 & Hf1 & Hc1 & Ha1).
  simpl. rewrite E.
  assert (Hl1 : val_local (mk c1 v1 (linit c0))) by exact Hv1.
  rewrite lexec_act by (auto; rewrite do_act_l_finish by auto; reflexivity).
  rewrite do_act_l_finish by auto. simpl. rewrite Hf1. unfold lexec; simpl. auto.
Qed.

End Today.

Lemma task_today draw lin parts n p r tf c0 :
  nth_error parts n = Some p -> wf lin r -> tfun_pure tf = true -> cache_ok draw lin parts c0 ->
  let lf := lexec draw (Z.of_nat n) p (task_prog today r tf) (linit c0) in
  l_res lf = Some (apply_tfun tf (eval draw r (Z.of_nat n) p)) /\ l_crash lf = false /\ cache_ok draw lin parts (l_cache lf) /\
  l_cache lf = adds draw r (Z.of_nat n) p c0.
Proof.
  intros Hn Hwf Htf Hc. apply (task_today_on draw lin parts (fun _ => True)); auto.
Qed.

(* ------------------------------------------------------------------------------------------- *)
(* jobs *)
Lemma mapi_from_spec {B C} (f : nat -> B -> C) l : forall a,
  mapi_from f a l = map (fun ip => f (fst ip) (snd ip)) (combine (seq a (length l)) l).
Proof. induction l as [|x l IH]; simpl; intros a; [reflexivity|]. rewrite IH. reflexivity. Qed.

Lemma In_combine_seq {B} (l : list B) : forall a i x,
  In (i, x) (combine (seq a (length l)) l) -> (a <= i)%nat /\ nth_error l (i - a) = Some x.
Proof.
  induction l as [|y l IH]; simpl; intros a i x H; [tauto|].
  destruct H as [H|H].
  - inversion H; subst. rewrite Nat.sub_diag. auto.
  - destruct (IH _ _ _ H) as [H1 H2]. split; [lia|].
    replace (i - a)%nat with (S (i - S a)) by lia. exact H2.
Qed.

Lemma In_combine_seq0 {B} (l : list B) i x :
  In (i, x) (combine (seq 0 (length l)) l) -> nth_error l i = Some x.
Proof. intros H. destruct (In_combine_seq l 0 i x H) as [_ H2]. rewrite Nat.sub_0_r in H2. exact H2. Qed.

Section Jobs.
Variable draw : Z -> nat -> float.
Variable lin : Z -> rdd.
Variable parts : list (list Z).
Variable Sd : Z -> Prop.
Notation cache_ok := (cache_ok_on draw Sd lin parts).

Lemma cache_ok_sub_on c c' : (forall k d, In (k, d) c' -> In (k, d) c) -> cache_ok c -> cache_ok c'.
Proof. intros H Hc k d Hin HS. apply Hc; auto. Qed.

Lemma cache_ok_update_on c delta : cache_ok c -> cache_ok delta -> cache_ok (c_update c delta).
Proof. intros Hc Hd k d Hin HS. destruct (c_update_In _ _ _ _ Hin); [apply Hc | apply Hd]; auto. Qed.

Lemma fold_join_ok_on ts : forall d,
  (forall t, In t ts -> cache_ok (l_cache (t_l t))) -> cache_ok d ->
  cache_ok (fold_left (fun d t => c_update d (delta t)) ts d).
Proof.
  induction ts as [|t ts IH]; simpl; intros d Ht Hd; auto.
  apply IH; [intros; apply Ht; auto|].
  apply cache_ok_update_on; auto.
  eapply cache_ok_sub_on; [|apply (Ht t); auto]. unfold delta. apply c_not_in_In.
Qed.

Lemma init_state_eq b p0 driver sh :
  init_state b p0 parts driver sh =
  {| g_sh := match b with InProcess => [sh] | Copying => map (fun _ => sh) parts end;
     g_tasks := mapi_from (init_task p0 driver) 0 parts; g_events := [] |}.
Proof. reflexivity. Qed.

Lemma mapi_from_length {B C} (f : nat -> B -> C) l : forall a, length (mapi_from f a l) = length l.
Proof. induction l; simpl; intros; auto. Qed.

(* the final task list of a job whose task program is local *)
Lemma job_final b p0 sched driver sh :
  prog_local p0 = true ->
  let g := run_sched draw b (sched ++ drain_sched p0 (length parts))
             (start_all draw b p0 (init_state b p0 parts driver sh)) in
  g_sh g = match b with InProcess => [sh] | Copying => map (fun _ => sh) parts end /\
  g_tasks g = map (fun ip => fin draw p0 (init_task p0 driver (fst ip) (snd ip)))
                  (combine (seq 0 (length parts)) parts).
Proof.
  intros Hp0. rewrite init_state_eq.
  set (shs := match b with InProcess => [sh] | Copying => map (fun _ => sh) parts end).
  set (tasks0 := mapi_from (init_task p0 driver) 0 parts).
  assert (Hlen : length tasks0 = length parts) by apply mapi_from_length.
  assert (Hslot : forall tid, (tid < length tasks0)%nat -> exists s, nth_error shs (slot b tid) = Some s).
  { intros tid Hlt. unfold shs. destruct b; simpl.
    - eauto.
    - destruct (nth_error (map (fun _ => sh) parts) tid) eqn:E; eauto.
      apply nth_error_None in E. rewrite map_length in E. lia. }
  assert (Hinit : Forall (fun t0 => t_prog t0 = p0 /\ val_local (t_l t0)) tasks0).
  { unfold tasks0. rewrite mapi_from_spec. apply Forall_forall. intros t Ht.
    apply in_map_iff in Ht as (ip & <- & _). split; reflexivity. }
  destruct (local_job_final draw b p0 Hp0 tasks0 shs Hslot Hinit sched) as [H1 H2].
  rewrite Hlen in H1, H2.
  split; [exact H1|]. rewrite H2. unfold tasks0. rewrite mapi_from_spec, map_map. reflexivity.
Qed.

Lemma nth_error_mapi_from {B C} (f : nat -> B -> C) l : forall a n x,
  nth_error l n = Some x -> nth_error (mapi_from f a l) n = Some (f (a + n)%nat x).
Proof.
  induction l as [|y l IH]; intros a [|n] x H; simpl in *; try discriminate.
  - inversion H; subst. rewrite Nat.add_0_r. reflexivity.
  - rewrite (IH (S a) n x H). f_equal. f_equal. lia.
Qed.

(* the events of a job whose task program is local: task by task, the line sequence of the task's own run *)
Theorem job_events b p0 sched driver sh :
  prog_local p0 = true ->
  let g := run_sched draw b (sched ++ drain_sched p0 (length parts))
             (start_all draw b p0 (init_state b p0 parts driver sh)) in
  forall tid part, nth_error parts tid = Some part ->
  proj tid (rev (g_events g)) =
  tag tid (ltrace draw (Z.of_nat tid) part p0 (t_l (init_task p0 driver tid part))).
Proof.
  intros Hp0 g tid part Hn. unfold g. rewrite init_state_eq.
  set (shs := match b with InProcess => [sh] | Copying => map (fun _ => sh) parts end).
  set (tasks0 := mapi_from (init_task p0 driver) 0 parts).
  assert (Hlen : length tasks0 = length parts) by apply mapi_from_length.
  assert (Hslot : forall tid, (tid < length tasks0)%nat -> exists s, nth_error shs (slot b tid) = Some s).
  { intros m Hlt. unfold shs. destruct b; simpl.
    - eauto.
    - destruct (nth_error (map (fun _ => sh) parts) m) eqn:E; eauto.
      apply nth_error_None in E. rewrite map_length in E. lia. }
  assert (Hinit : Forall (fun t0 => t_prog t0 = p0 /\ val_local (t_l t0)) tasks0).
  { unfold tasks0. rewrite mapi_from_spec. apply Forall_forall. intros t Ht.
    apply in_map_iff in Ht as (ip & <- & _). split; reflexivity. }
  pose proof (local_job_events draw b p0 Hp0 tasks0 shs Hslot Hinit sched tid (init_task p0 driver tid part)) as H.
  rewrite Hlen in H. apply H. unfold tasks0. apply (nth_error_mapi_from _ _ 0%nat tid part Hn).
Qed.

Lemma task_prog_local r tf : tfun_pure tf = true -> prog_local (task_prog today r tf) = true.
Proof. intros H. unfold task_prog. apply compile_local. simpl. rewrite H. reflexivity. Qed.

Theorem dist_job_on r tf driver : wf lin r -> (forall id, In id (ids r) -> Sd id) -> tfun_pure tf = true -> cache_ok driver ->
  forall b sched sh,
  let o := run_job draw b today r tf parts sched driver sh in
  o_results o = spec_results draw r tf parts /\ cache_ok (o_driver o) /\ o_shared o = sh.
Proof.
  intros Hwf HS Htf Hd b sched sh. unfold run_job.
  destruct (job_final b (task_prog today r tf) sched driver sh (task_prog_local r tf Htf)) as [Hsh Ht].
  simpl. rewrite Ht, Hsh. clear Ht Hsh.
  assert (Hclone : forall i, cache_ok (c_clone driver i)).
  { intros i. eapply cache_ok_sub_on; [|exact Hd]. apply c_clone_In. }
  split; [|split].
  - unfold spec_results. rewrite map_map. apply map_ext_in. intros [i p] Hin. simpl.
    destruct (task_today_on draw lin parts Sd i p r tf (c_clone driver (Z.of_nat i)) (In_combine_seq0 _ _ _ Hin) Hwf HS Htf (Hclone _))
      as (Hr & Hc & _ & _).
    unfold linit in *. rewrite Hc. exact Hr.
  - apply fold_join_ok_on; auto. intros t Hin. apply in_map_iff in Hin as ([i p] & <- & Hin). simpl.
    destruct (task_today_on draw lin parts Sd i p r tf (c_clone driver (Z.of_nat i)) (In_combine_seq0 _ _ _ Hin) Hwf HS Htf (Hclone _))
      as (_ & _ & Hok & _). exact Hok.
  - destruct b; reflexivity.
Qed.

End Jobs.

Lemma cache_ok_sub draw lin parts c c' :
  (forall k d, In (k, d) c' -> In (k, d) c) -> cache_ok draw lin parts c -> cache_ok draw lin parts c'.
Proof. apply cache_ok_sub_on. Qed.

Theorem dist_job draw lin parts r tf driver : wf lin r -> tfun_pure tf = true -> cache_ok draw lin parts driver ->
  forall b sched sh,
  let o := run_job draw b today r tf parts sched driver sh in
  o_results o = spec_results draw r tf parts /\ cache_ok draw lin parts (o_driver o) /\ o_shared o = sh.
Proof. intros Hwf Htf Hd. apply (dist_job_on draw lin parts (fun _ => True)); auto. Qed.

Section Jobs2.
Variable draw : Z -> nat -> float.
Variable lin : Z -> rdd.
Variable parts : list (list Z).
Notation cache_ok := (cache_ok draw lin parts).

(* the default executor *)
Lemma local_from r tf sh : wf lin r -> tfun_pure tf = true ->
  forall rest pre driver, parts = pre ++ rest -> cache_ok driver ->
  exists d', run_local_from draw (task_prog today r tf) (length pre) rest driver sh =
             (map (fun ip => Some (apply_tfun tf (eval draw r (Z.of_nat (fst ip)) (snd ip))))
                  (combine (seq (length pre) (length rest)) rest), d', sh) /\ cache_ok d' /\
             d' = fold_left (fun d ip => adds draw r (Z.of_nat (fst ip)) (snd ip) d)
                            (combine (seq (length pre) (length rest)) rest) driver.
Proof.
  intros Hwf Htf. induction rest as [|part rest IH]; intros pre driver Hp Hd; simpl.
  - eauto 6.
  - assert (Hn : nth_error parts (length pre) = Some part).
    { rewrite Hp, nth_error_app2, Nat.sub_diag by lia. reflexivity. }
    rewrite (exec_local draw _ _ _ (task_prog_local r tf Htf) sh _ (eq_refl : val_local (linit driver))).
    destruct (task_today draw lin parts _ _ r tf driver Hn Hwf Htf Hd) as (Hr & Hc & Hok & Ha).
    destruct (IH (pre ++ [part]) _ ltac:(rewrite <- app_assoc; exact Hp) Hok) as (d' & E & Hd' & Hf).
    rewrite app_length in E, Hf. simpl in E, Hf. rewrite Nat.add_1_r in E, Hf. unfold linit in *. rewrite E.
    exists d'. split; [rewrite Hc, Hr; reflexivity|]. split; auto. rewrite Hf, Ha. reflexivity.
Qed.

Theorem local_job r tf driver sh : wf lin r -> tfun_pure tf = true -> cache_ok driver ->
  exists d', run_local draw today r tf parts driver sh = (spec_results draw r tf parts, d', sh) /\ cache_ok d'.
Proof.
  intros Hwf Htf Hd. unfold run_local, spec_results.
  destruct (local_from r tf sh Hwf Htf parts [] driver eq_refl Hd) as (d' & E & H & _). eauto.
Qed.

Definition job_ok (j : jobspec) : Prop := wf lin (fst (fst j)) /\ tfun_pure (snd (fst j)) = true.

Theorem history_dist b js : Forall job_ok js -> forall driver sh, cache_ok driver ->
  fst (run_jobs draw b today js parts driver sh) = map (fun j => spec_results draw (fst (fst j)) (snd (fst j)) parts) js /\
  cache_ok (snd (run_jobs draw b today js parts driver sh)).
Proof.
  induction 1 as [|[[r tf] sched] js [Hwf Htf] _ IH]; intros driver sh Hd; simpl; [auto|].
  simpl in Hwf, Htf.
  destruct (dist_job draw lin parts r tf driver Hwf Htf Hd b sched sh) as (Hr & Hc & Hs).
  destruct (IH _ (o_shared (run_job draw b today r tf parts sched driver sh)) Hc) as [IH1 IH2].
  destruct (run_jobs draw b today js parts _ _) as [rs d]. simpl in *. rewrite Hr, IH1. auto.
Qed.

Theorem history_local js : Forall job_ok js -> forall driver sh, cache_ok driver ->
  fst (run_jobs_local draw today js parts driver sh) = map (fun j => spec_results draw (fst (fst j)) (snd (fst j)) parts) js /\
  cache_ok (snd (run_jobs_local draw today js parts driver sh)).
Proof.
  induction 1 as [|[[r tf] sched] js [Hwf Htf] _ IH]; intros driver sh Hd; simpl; [auto|].
  simpl in Hwf, Htf.
  destruct (local_job r tf driver sh Hwf Htf Hd) as (d' & E & Hd'). rewrite E.
  destruct (IH d' sh Hd') as [IH1 IH2].
  destruct (run_jobs_local draw today js parts d' sh) as [rs d]. simpl in *. rewrite IH1. auto.
Qed.

End Jobs2.

(* ------------------------------------------------------------------------------------------- *)
(* independence of schedule and backend for every local task program; stamps; refutations of the variants *)
Section Indep.
Variable draw : Z -> nat -> float.
Variable parts : list (list Z).

Theorem local_prog_indep v r tf driver sh :
  prog_local (task_prog v r tf) = true ->
  forall b1 b2 s1 s2,
  let o1 := run_job draw b1 v r tf parts s1 driver sh in
  let o2 := run_job draw b2 v r tf parts s2 driver sh in
  o_results o1 = o_results o2 /\ o_driver o1 = o_driver o2 /\ o_stamped o1 = o_stamped o2 /\
  o_shared o1 = sh /\ o_shared o2 = sh.
Proof.
  intros Hp b1 b2 s1 s2. unfold run_job.
  destruct (job_final draw parts b1 (task_prog v r tf) s1 driver sh Hp) as [Hs1 Ht1].
  destruct (job_final draw parts b2 (task_prog v r tf) s2 driver sh Hp) as [Hs2 Ht2].
  simpl. rewrite Ht1, Ht2, Hs1, Hs2. repeat split; destruct b1, b2; reflexivity.
Qed.

Lemma c_update_keys c delta k : In k (c_keys (c_update c delta)) -> In k (c_keys c) \/ In k (c_keys delta).
Proof.
  unfold c_keys. rewrite !in_map_iff. intros [[k' d] [E H]]. simpl in E; subst k'.
  destruct (c_update_In _ _ _ _ H); [left|right]; exists (k, d); auto.
Qed.

Lemma fold_join_keys ts : forall d k,
  In k (c_keys (fold_left (fun d t => c_update d (delta t)) ts d)) ->
  In k (c_keys d) \/ In k (flat_map (fun t => c_keys (delta t)) ts).
Proof.
  induction ts as [|t ts IH]; simpl; intros d k H; auto.
  destruct (IH _ _ H) as [H1|H1].
  - destruct (c_update_keys _ _ _ H1); auto. right. apply in_or_app; auto.
  - right. apply in_or_app; auto.
Qed.

(* TimedCacheManager.join: whatever the program and the schedule, an entry of the driver's cache after the job
   was there before or has been stamped by a join of this job *)
Theorem stamps_cover b v r tf sched driver sh k :
  let o := run_job draw b v r tf parts sched driver sh in
  In k (c_keys (o_driver o)) -> In k (c_keys driver) \/ In k (o_stamped o).
Proof. simpl. apply fold_join_keys. Qed.

End Indep.

(* the variants: not today's code *)
Definition draw_const (_ : Z) (_ : nat) : float := 0%float.
Definition two_parts : list (list Z) := [[0; 1]; [2; 3]].

Lemma shared_key_variant_bad_schedule :
  let o1 := run_job draw_const InProcess old_shared_key (Persist 1 Src) FCollect two_parts [1;1;1;1;0;0;1]%nat [] shared0 in
  let o2 := run_job draw_const InProcess old_shared_key (Persist 1 Src) FCollect two_parts [] (o_driver o1) (o_shared o1) in
  o_results o1 = [Some [0; 1]; Some [2; 3]] /\
  o_driver o1 = [((1, 0), [2; 3])] /\
  o_results o2 = [Some [2; 3]; Some [2; 3]].
Proof. vm_compute. repeat split. Qed.

Lemma shared_key_variant_copying_same_schedule :
  let o1 := run_job draw_const Copying old_shared_key (Persist 1 Src) FCollect two_parts [1;1;1;1;0;0;1]%nat [] shared0 in
  let o2 := run_job draw_const Copying old_shared_key (Persist 1 Src) FCollect two_parts [] (o_driver o1) (o_shared o1) in
  o_driver o1 = [((1, 0), [0; 1]); ((1, 1), [2; 3])] /\ o_results o2 = [Some [0; 1]; Some [2; 3]].
Proof. vm_compute. repeat split. Qed.

Definition draw_by_seed (s : Z) (_ : nat) : float := if s =? 5 then 0.125%float else 0.875%float.

Lemma global_rng_variant_bad_schedule :
  o_results (run_job draw_by_seed InProcess old_global_rng (Sample 5 (SBern 0.5) Src) FCollect two_parts [] [] shared0)
    = [Some [0; 1]; Some []] /\
  o_results (run_job draw_by_seed InProcess old_global_rng (Sample 5 (SBern 0.5) Src) FCollect two_parts [0; 1]%nat [] shared0)
    = [Some []; Some []] /\
  spec_results draw_by_seed (Sample 5 (SBern 0.5) Src) FCollect two_parts = [Some [0; 1]; Some []].
Proof. vm_compute. repeat split. Qed.

Lemma smuggle_variant_copying :
  let oi := run_job draw_const InProcess today Src FSmuggle two_parts [] [] shared0 in
  let oc := run_job draw_const Copying today Src FSmuggle two_parts [] [] shared0 in
  regroup_box 1 2 (sh_box (o_shared oi)) = [[0; 1; 2; 3]] /\ regroup_box 1 2 (sh_box (o_shared oc)) = [[]] /\
  regroup 1 two_parts = [[0; 1; 2; 3]].
Proof. vm_compute. repeat split. Qed.

(* ------------------------------------------------------------------------------------------- *)
(* the driver's cache after a pool job is, entry by entry and in dict order, the cache after the same job on the
   default executor *)
Lemma c_get_app a b k : c_get (a ++ b) k = match c_get a k with Some d => Some d | None => c_get b k end.
Proof. induction a as [|[k' d'] a IH]; simpl; [reflexivity|]. destruct (key_eqb k' k); auto. Qed.

Lemma c_set_absent c k v : c_get c k = None -> c_set c k v = c ++ [(k, v)].
Proof.
  induction c as [|[k' d'] c IH]; simpl; [reflexivity|].
  destruct (key_eqb k' k); [discriminate|]. intros H. rewrite IH; auto.
Qed.

Lemma c_get_notin c k : (forall k' d, In (k', d) c -> k' <> k) -> c_get c k = None.
Proof.
  induction c as [|[k' d'] c IH]; simpl; intros H; [reflexivity|].
  destruct (key_eqb k' k) eqn:E.
  - apply key_eqb_eq in E. exfalso. apply (H k' d'); auto.
  - apply IH. intros k2 d2 Hin. apply (H k2 d2); auto.
Qed.

Lemma c_get_None_keys c k : c_get c k = None -> ~ In k (c_keys c).
Proof.
  induction c as [|[k' d'] c IH]; simpl; [tauto|].
  destruct (key_eqb k' k) eqn:E; [discriminate|]. intros H [H1|H1].
  - subst. rewrite key_eqb_refl in E. discriminate.
  - apply IH; auto.
Qed.

Lemma existsb_key k ks : existsb (key_eqb k) ks = true <-> In k ks.
Proof.
  rewrite existsb_exists. split.
  - intros (x & Hx & E). apply key_eqb_eq in E. subst; auto.
  - intros H. exists k. split; auto. apply key_eqb_refl.
Qed.

Lemma c_not_in_app_new c0 acc :
  (forall k d, In (k, d) acc -> c_get c0 k = None) -> c_not_in (c0 ++ acc) (c_keys c0) = acc.
Proof.
  intros H. unfold c_not_in. rewrite filter_app.
  assert (E1 : filter (fun kv : key * list Z => negb (existsb (key_eqb (fst kv)) (c_keys c0))) c0 = []).
  { assert (G : forall l, (forall kv, In kv l -> In (fst kv) (c_keys c0)) ->
                filter (fun kv : key * list Z => negb (existsb (key_eqb (fst kv)) (c_keys c0))) l = []).
    { induction l as [|kv l IH]; simpl; intros Hl; [reflexivity|].
      rewrite (proj2 (existsb_key _ _) (Hl kv (or_introl eq_refl))). simpl. apply IH. intros; apply Hl; auto. }
    apply G. intros kv Hin. unfold c_keys. apply in_map. exact Hin. }
  rewrite E1. simpl.
  induction acc as [|[k d] acc IH]; simpl; [reflexivity|].
  destruct (existsb (key_eqb k) (c_keys c0)) eqn:E.
  - apply existsb_key in E. exfalso. apply (c_get_None_keys c0 k); auto. apply (H k d). left; reflexivity.
  - simpl. f_equal. apply IH. intros k' d' Hin. apply (H k' d'). right; exact Hin.
Qed.

Lemma c_update_fresh acc : forall d,
  NoDup (c_keys acc) -> (forall k v, In (k, v) acc -> c_get d k = None) -> c_update d acc = d ++ acc.
Proof.
  unfold c_update. induction acc as [|[k v] acc IH]; simpl; intros d Hnd Hf.
  - rewrite app_nil_r. reflexivity.
  - inversion Hnd as [|? ? Hk Hnd']; subst.
    rewrite (c_set_absent d k v) by (apply (Hf k v); auto).
    rewrite IH; auto.
    + rewrite <- app_assoc. reflexivity.
    + intros k' v' Hin. rewrite c_get_app, (Hf k' v') by auto. simpl.
      destruct (key_eqb k k') eqn:E; [|reflexivity].
      apply key_eqb_eq in E. subst k'. exfalso. apply Hk. unfold c_keys. apply in_map_iff. exists (k, v'). auto.
Qed.

Fixpoint size (r : rdd) : nat :=
  match r with Src => 0 | Map _ r' => S (size r') | Sample _ _ r' => S (size r') | Persist _ r' => S (size r') end.

Lemma wf_ids_size lin r : wf lin r -> forall id, In id (ids r) -> (size (lin id) < size r)%nat.
Proof.
  induction r as [|f r IH|id0 r IH|s fr r IH]; simpl; intros Hwf id Hin.
  - tauto.
  - specialize (IH Hwf id Hin). lia.
  - destruct Hwf as [Hl Hwf]. destruct Hin as [->|Hin]; [rewrite Hl; lia | specialize (IH Hwf id Hin); lia].
  - specialize (IH Hwf id Hin). lia.
Qed.

Lemma wf_fresh lin id r : wf lin (Persist id r) -> ~ In id (ids r).
Proof.
  intros [Hl Hwf] Hin. pose proof (wf_ids_size lin r Hwf id Hin) as H. rewrite Hl in H. lia.
Qed.

Section Exact.
Variable draw : Z -> nat -> float.
Variable lin : Z -> rdd.

Lemma adds_split r i p : wf lin r -> forall dL c0,
  (forall id, c_get dL (id, i) = c_get c0 (id, i)) ->
  exists acc, adds draw r i p dL = dL ++ acc /\ adds draw r i p c0 = c0 ++ acc /\
              (forall k d, In (k, d) acc -> snd k = i /\ In (fst k) (ids r) /\ c_get dL k = None) /\
              NoDup (c_keys acc).
Proof.
  induction r as [|f r IH|id r IH|s fr r IH]; simpl; intros Hwf dL c0 Hag.
  - exists []. rewrite !app_nil_r. split; [reflexivity|]. split; [reflexivity|]. split; [intros ? ? []|simpl; constructor].
  - apply IH; auto.
  - pose proof (wf_fresh lin id r Hwf) as Hfresh. destruct Hwf as [Hl Hwf].
    unfold c_has. rewrite <- (Hag id).
    destruct (c_get dL (id, i)) as [d0|] eqn:Eg.
    + exists []. rewrite !app_nil_r. split; [reflexivity|]. split; [reflexivity|]. split; [intros ? ? []|simpl; constructor].
    + destruct (IH Hwf dL c0 Hag) as (acc & E1 & E2 & Hk & Hnd).
      assert (Hacc : c_get acc (id, i) = None).
      { apply c_get_notin. intros k' d' Hin Heq. subst k'. destruct (Hk _ _ Hin) as (_ & Hin' & _). simpl in Hin'. auto. }
      exists (acc ++ [((id, i), eval draw r i p)]).
      rewrite E1, E2.
      rewrite !c_set_absent by (rewrite c_get_app; try rewrite <- (Hag id); rewrite Eg; exact Hacc).
      rewrite <- !app_assoc. split; [reflexivity|]. split; [reflexivity|]. split.
      * intros k d Hin. apply in_app_or in Hin as [Hin|[Hin|[]]].
        -- destruct (Hk _ _ Hin) as (H1 & H2 & H3). auto.
        -- inversion Hin; subst. simpl. auto.
      * unfold c_keys. rewrite map_app. simpl. apply NoDup_app_snoc; auto.
        intros Hin. apply in_map_iff in Hin as ([k d] & Ek & Hin). simpl in Ek. subst k.
        destruct (Hk _ _ Hin) as (_ & Hin' & _). simpl in Hin'. auto.
  - apply IH; auto.
Qed.

End Exact.

Lemma fold_left_ext_in {A B} (f g : A -> B -> A) l : 
  (forall x, In x l -> forall a, f a x = g a x) -> forall a, fold_left f l a = fold_left g l a.
Proof.
  induction l as [|x l IH]; simpl; intros H a; [reflexivity|].
  rewrite (H x (or_introl eq_refl)). apply IH. intros; apply H; auto.
Qed.

Lemma fold_left_map {A B C} (f : A -> C -> A) (g : B -> C) l : forall a,
  fold_left f (map g l) a = fold_left (fun a x => f a (g x)) l a.
Proof. induction l; simpl; auto. Qed.

Lemma map_fst_combine_seq {B} (l : list B) : forall a, map fst (combine (seq a (length l)) l) = seq a (length l).
Proof. induction l; simpl; intros; [reflexivity | f_equal; auto]. Qed.

Section ExactJobs.
Variable draw : Z -> nat -> float.
Variable lin : Z -> rdd.
Variable parts : list (list Z).
Variable r : rdd.
Hypothesis Hwf : wf lin r.
Variable driver : cache.

Definition step_dist (d : cache) (ip : nat * list Z) : cache :=
  let c0 := c_clone driver (Z.of_nat (fst ip)) in
  c_update d (c_not_in (adds draw r (Z.of_nat (fst ip)) (snd ip) c0) (c_keys c0)).
Definition step_local (d : cache) (ip : nat * list Z) : cache := adds draw r (Z.of_nat (fst ip)) (snd ip) d.

Lemma fold_steps_eq ips : NoDup (map fst ips) -> forall A,
  (forall ip k d, In ip ips -> In (k, d) A -> snd k <> Z.of_nat (fst ip)) ->
  fold_left step_dist ips (driver ++ A) = fold_left step_local ips (driver ++ A).
Proof.
  induction ips as [|[i p] ips IH]; simpl; intros Hnd A HA; [reflexivity|].
  inversion Hnd as [|? ? Hi Hnd']; subst.
  set (I := Z.of_nat i).
  assert (Hag : forall id, c_get (driver ++ A) (id, I) = c_get (c_clone driver I) (id, I)).
  { intros id. rewrite c_get_app, c_get_clone. destruct (c_get driver (id, I)); [reflexivity|].
    apply c_get_notin. intros k' d' Hin Heq. subst k'. apply (HA (i, p) _ _ (or_introl eq_refl) Hin). reflexivity. }
  destruct (adds_split draw lin r I p Hwf (driver ++ A) (c_clone driver I) Hag) as (acc & E1 & E2 & Hk & Hnd2).
  unfold step_dist at 2, step_local at 2. simpl. fold I. rewrite E1, E2.
  rewrite c_not_in_app_new.
  2:{ intros k d Hin. destruct (Hk _ _ Hin) as (H1 & _ & H3). destruct k as [id j]. simpl in H1. subst j.
      rewrite <- Hag. exact H3. }
  rewrite c_update_fresh; auto.
  2:{ intros k v Hin. apply (Hk _ _ Hin). }
  rewrite <- app_assoc. apply IH; auto.
  intros ip k d Hip Hin. apply in_app_or in Hin as [Hin|Hin].
  - apply (HA ip k d); auto.
  - destruct (Hk _ _ Hin) as (H1 & _ & _). rewrite H1. unfold I. intros Heq. apply Nat2Z.inj in Heq.
    apply Hi. rewrite Heq. apply in_map. exact Hip.
Qed.

Hypothesis Hok : cache_ok draw lin parts driver.

Theorem dist_cache_eq_local tf : tfun_pure tf = true ->
  forall b sched sh,
  o_driver (run_job draw b today r tf parts sched driver sh) = snd (fst (run_local draw today r tf parts driver sh)).
Proof.
  intros Htf b sched sh.
  (* the default executor *)
  destruct (local_from draw lin parts r tf sh Hwf Htf parts [] driver eq_refl Hok) as (d' & E & _ & Hd').
  unfold run_local. simpl in E. rewrite E. simpl. rewrite Hd'. clear E Hd' d'.
  (* the pool *)
  unfold run_job.
  destruct (job_final draw parts b (task_prog today r tf) sched driver sh (task_prog_local r tf Htf)) as [_ Ht].
  simpl. rewrite Ht. clear Ht. rewrite fold_left_map.
  rewrite (fold_left_ext_in _ step_dist).
  - pose proof (fold_steps_eq (combine (seq 0 (length parts)) parts)) as H.
    rewrite map_fst_combine_seq in H. specialize (H (seq_NoDup _ _) []). rewrite app_nil_r in H.
    apply H. intros ip k d _ [].
  - intros [i p] Hin d. unfold step_dist, delta. simpl.
    assert (Hclone : cache_ok draw lin parts (c_clone driver (Z.of_nat i))).
    { eapply cache_ok_sub; [|exact Hok]. apply c_clone_In. }
    destruct (task_today draw lin parts i p r tf _ (In_combine_seq0 _ _ _ Hin) Hwf Htf Hclone) as (_ & _ & _ & Ha).
    unfold linit in Ha. rewrite Ha. reflexivity.
Qed.

End ExactJobs.

(* ------------------------------------------------------------------------------------------- *)
(* on copies (process pools) every program -- local or not, variants and closure-filling task functions included --
   is independent of the schedule: each task owns its copy of the "shared" objects *)
Lemma nth_error_ext_eq {B} (l l' : list B) : (forall n, nth_error l n = nth_error l' n) -> l = l'.
Proof.
  revert l'; induction l as [|x l IH]; intros [|y l'] H; auto.
  - specialize (H 0%nat); discriminate.
  - specialize (H 0%nat); discriminate.
  - pose proof (H 0%nat) as H0; simpl in H0; inversion H0; subst. f_equal. apply IH. intros n. apply (H (S n)).
Qed.

Section Copies.
Variable draw : Z -> nat -> float.
Variable p0 : prog.
Variable tasks0 : list task.
Variable sh0 : shared.
Hypothesis Hinit : Forall (fun t0 => t_prog t0 = p0) tasks0.

Lemma settle_gen idx part p : forall sh l p' sh' l',
  settle draw idx part p sh l = (p', sh', l') ->
  settled p' /\ (plen p' <= plen p)%nat /\ exec draw idx part p' sh' l' = exec draw idx part p sh l.
Proof.
  induction p as [|lb k IH|a k IH|c km IHm kh IHh]; simpl; intros sh l p' sh' l' E.
  - inversion E; subst; simpl; auto.
  - inversion E; subst; simpl; auto.
  - destruct (do_act draw idx part a sh l) as [sh1 l1].
    destruct (l_crash l1) eqn:Ec.
    + inversion E; subst; simpl. repeat split; auto; lia.
    + destruct (IH _ _ _ _ _ E) as (H1 & H2 & H3). auto.
  - destruct (eval_cond idx c sh l).
    + destruct (IHh _ _ _ _ _ E) as (H1 & H2 & H3). repeat split; auto; lia.
    + destruct (IHm _ _ _ _ _ E) as (H1 & H2 & H3). repeat split; auto; lia.
Qed.

Record PInv (t0 : task) (sh : shared) (t : task) : Prop := {
  p_idx : t_idx t = t_idx t0;
  p_part : t_part t = t_part t0;
  p_cm0 : t_cm0 t = t_cm0 t0;
  p_dest : exec draw (t_idx t0) (t_part t0) (t_prog t) sh (t_l t) = exec draw (t_idx t0) (t_part t0) p0 sh0 (t_l t0);
  p_len : (plen (t_prog t) <= plen p0)%nat
}.

Definition CInv (g : gstate) : Prop :=
  length (g_tasks g) = length tasks0 /\
  forall tid t0, nth_error tasks0 tid = Some t0 ->
    exists sh t, nth_error (g_sh g) tid = Some sh /\ nth_error (g_tasks g) tid = Some t /\ PInv t0 sh t.

Definition csettled (g : gstate) (tid : nat) : Prop :=
  forall t, nth_error (g_tasks g) tid = Some t -> settled (t_prog t).

Lemma settle_task_C g tid t0 sh t p :
  CInv g -> nth_error tasks0 tid = Some t0 -> nth_error (g_sh g) tid = Some sh -> nth_error (g_tasks g) tid = Some t ->
  PInv t0 sh t ->
  exec draw (t_idx t0) (t_part t0) p sh (t_l t) = exec draw (t_idx t0) (t_part t0) (t_prog t) sh (t_l t) ->
  (plen p <= plen (t_prog t))%nat ->
  exists sh' t', settle_task draw Copying tid p g =
                   {| g_sh := upd_nth (g_sh g) tid sh'; g_tasks := upd_nth (g_tasks g) tid t'; g_events := g_events g |} /\
                 PInv t0 sh' t' /\ settled (t_prog t') /\ (plen (t_prog t') <= plen p)%nat.
Proof.
  intros HC H0 Hs Ht HP He Hl. unfold settle_task. simpl. rewrite Ht, Hs.
  destruct (settle draw (t_idx t) (t_part t) p sh (t_l t)) as [[p' sh'] l'] eqn:E.
  destruct (settle_gen _ _ _ _ _ _ _ _ E) as (H1 & H2 & H3).
  exists sh', (with_prog t p' l'). split; [reflexivity|]. split; [|split]; simpl; auto.
  destruct HP as [Pi Pp Pc Pd Pn]. constructor; simpl; auto.
  - rewrite Pi, Pp in H3. rewrite H3, He. exact Pd.
  - lia.
Qed.

Lemma CInv_upd g tid t0 sh' t' :
  CInv g -> nth_error tasks0 tid = Some t0 -> PInv t0 sh' t' ->
  CInv {| g_sh := upd_nth (g_sh g) tid sh'; g_tasks := upd_nth (g_tasks g) tid t'; g_events := g_events g |}.
Proof.
  intros [Hlen HC] H0 HP. split; simpl; [rewrite length_upd_nth; auto|].
  intros m t0m Hm. destruct (Nat.eq_dec m tid) as [->|Hne].
  - rewrite H0 in Hm; inversion Hm; subst t0m.
    destruct (HC tid t0 H0) as (sh & t & Hs & Ht & _).
    exists sh', t'. rewrite (nth_error_upd_nth_eq _ _ _ _ Hs), (nth_error_upd_nth_eq _ _ _ _ Ht). auto.
  - destruct (HC m t0m Hm) as (sh & t & Hs & Ht & HPm).
    exists sh, t. rewrite !nth_error_upd_nth_neq by auto. auto.
Qed.

Lemma CInv_events g ev : CInv g -> CInv {| g_sh := g_sh g; g_tasks := g_tasks g; g_events := ev |}.
Proof. intros H; exact H. Qed.

Lemma c_start_prefix n : (n <= length tasks0)%nat ->
  let g := fold_left (fun g tid => settle_task draw Copying tid p0 g) (seq 0 n)
                     {| g_sh := map (fun _ => sh0) tasks0; g_tasks := tasks0; g_events := [] |} in
  CInv g /\ (forall tid, (tid < n)%nat -> csettled g tid) /\
  (forall tid, (n <= tid)%nat -> nth_error (g_tasks g) tid = nth_error tasks0 tid /\
                                nth_error (g_sh g) tid = nth_error (map (fun _ => sh0) tasks0) tid).
Proof.
  induction n as [|n IH]; intros Hn.
  - simpl. split; [|split; [intros; lia | auto]].
    split; [reflexivity|]. intros tid t0 H0. exists sh0, t0. split; [|split; auto].
    + simpl. rewrite nth_error_map, H0. reflexivity.
    + rewrite Forall_forall in Hinit. pose proof (Hinit t0 (nth_error_In _ _ H0)) as Hp.
      constructor; auto; rewrite Hp; auto with arith.
  - rewrite seq_S, fold_left_app. simpl.
    destruct (IH ltac:(lia)) as (HC & Hs & Hrest). clear IH.
    set (g := fold_left _ (seq 0 n) _) in *.
    destruct (nth_error tasks0 n) as [t0|] eqn:E0; [|apply nth_error_None in E0; lia].
    destruct (Hrest n (le_n _)) as [Et Es]. rewrite E0 in Et. rewrite nth_error_map, E0 in Es. simpl in Es.
    destruct (proj2 HC n t0 E0) as (sh & t & Hs' & Ht' & HP). rewrite Es in Hs'; inversion Hs'; subst sh.
    rewrite Et in Ht'; inversion Ht'; subst t.
    assert (Hp : t_prog t0 = p0).
    { rewrite Forall_forall in Hinit. apply (Hinit t0). eapply nth_error_In; eauto. }
    destruct (settle_task_C g n t0 sh0 t0 p0 HC E0 Es Et HP) as (sh' & t' & Eg & HP' & Hset & Hlen').
    { rewrite Hp; reflexivity. } { rewrite Hp; lia. }
    rewrite Eg. split; [apply (CInv_upd g n t0); auto|]. split.
    + intros tid Hlt t Ht. simpl in Ht. destruct (Nat.eq_dec tid n) as [->|Hne].
      * rewrite (nth_error_upd_nth_eq _ _ _ _ Et) in Ht. inversion Ht as [Hteq]. rewrite <- Hteq. auto.
      * rewrite nth_error_upd_nth_neq in Ht by auto. apply (Hs tid); auto; lia.
    + intros tid Hle. simpl. rewrite !nth_error_upd_nth_neq by lia. apply Hrest; lia.
Qed.

Definition CI (g : gstate) : Prop := CInv g /\ forall tid, csettled g tid.

Lemma c_start_all :
  CI (start_all draw Copying p0 {| g_sh := map (fun _ => sh0) tasks0; g_tasks := tasks0; g_events := [] |}).
Proof.
  unfold start_all; simpl.
  destruct (c_start_prefix (length tasks0) (le_n _)) as (HC & Hs & _).
  split; auto. intros tid t Ht. apply (Hs tid); auto.
  rewrite <- (proj1 HC). apply nth_error_Some. congruence.
Qed.

Lemma c_grant g tid : CI g ->
  CI (grant draw Copying g tid) /\
  (forall m, m <> tid -> nth_error (g_tasks (grant draw Copying g tid)) m = nth_error (g_tasks g) m) /\
  (forall t, nth_error (g_tasks g) tid = Some t ->
     exists t', nth_error (g_tasks (grant draw Copying g tid)) tid = Some t' /\
                (t_prog t = PDone -> t' = t) /\
                (t_prog t <> PDone -> (S (plen (t_prog t')) <= plen (t_prog t))%nat)).
Proof.
  intros [HC Hset]. unfold grant.
  destruct (nth_error (g_tasks g) tid) as [t|] eqn:Et.
  2:{ split; [split; auto|]. split; auto. intros; discriminate. }
  assert (Hlt : (tid < length tasks0)%nat) by (rewrite <- (proj1 HC); apply nth_error_Some; congruence).
  destruct (nth_error tasks0 tid) as [t0|] eqn:E0; [|apply nth_error_None in E0; lia].
  destruct (proj2 HC tid t0 E0) as (sh & t1 & Hs & Ht1 & HP). rewrite Et in Ht1; inversion Ht1; subst t1.
  pose proof (Hset tid t Et) as Hst.
  destruct (t_prog t) as [|lb k|a k|c km kh] eqn:Ep; simpl in Hst; try tauto.
  - split; [split; auto|]. split; auto. intros t1 E1; inversion E1; subst. exists t1; split; auto. split; auto. congruence.
  - set (g1 := {| g_sh := g_sh g; g_tasks := g_tasks g; g_events := (Z.of_nat tid, lb) :: g_events g |}).
    destruct (settle_task_C g1 tid t0 sh t k HC E0 Hs Et HP) as (sh' & t' & Eg & HP' & Hset' & Hlen').
    { rewrite Ep. reflexivity. } { rewrite Ep. simpl. lia. }
    rewrite Eg. split; [split|].
    + apply (CInv_upd g1 tid t0); auto.
    + intros m tm Hm. simpl in Hm. destruct (Nat.eq_dec m tid) as [->|Hne].
      * rewrite (nth_error_upd_nth_eq _ _ _ _ Et) in Hm. inversion Hm as [Hteq]. rewrite <- Hteq. auto.
      * rewrite nth_error_upd_nth_neq in Hm by auto. apply (Hset m); auto.
    + simpl. split.
      * intros m Hm. apply nth_error_upd_nth_neq; auto.
      * intros t1 E1; inversion E1; subst t1. exists t'. split; [eapply nth_error_upd_nth_eq; eauto|].
        split; [intros Hx; try rewrite Ep in Hx; discriminate Hx|]. intros _. try rewrite Ep. simpl. lia.
Qed.

Lemma c_run_sched sched : forall g, CI g -> CI (run_sched draw Copying sched g).
Proof.
  unfold run_sched. induction sched as [|tid sched IH]; simpl; intros g HG; auto.
  apply IH. apply c_grant; auto.
Qed.

Lemma c_grant_done g tid m : CI g -> done_at g m -> done_at (grant draw Copying g tid) m.
Proof.
  intros HG Hd. destruct (c_grant g tid HG) as (_ & Ho & Hs).
  destruct (Nat.eq_dec m tid) as [->|Hne].
  - intros t' Ht'. destruct (nth_error (g_tasks g) tid) as [t|] eqn:Et.
    + destruct (Hs t eq_refl) as (t1 & E1 & Hsame & _). rewrite E1 in Ht'; inversion Ht'; subst.
      rewrite (Hsame (Hd t Et)). apply (Hd t Et).
    + unfold grant in Ht'. rewrite Et in Ht'. congruence.
  - intros t Ht. rewrite Ho in Ht by auto. apply Hd; auto.
Qed.

Lemma c_run_sched_done sched : forall g m, CI g -> done_at g m -> done_at (run_sched draw Copying sched g) m.
Proof.
  unfold run_sched. induction sched as [|tid sched IH]; simpl; intros g m HG Hd; auto.
  apply IH; [apply c_grant; auto | apply c_grant_done; auto].
Qed.

Lemma c_repeat_progress tid : forall n g, CI g ->
  forall t, nth_error (g_tasks g) tid = Some t ->
  exists t', nth_error (g_tasks (run_sched draw Copying (repeat tid n) g)) tid = Some t' /\
             (t_prog t' = PDone \/ (plen (t_prog t') + n <= plen (t_prog t))%nat).
Proof.
  unfold run_sched. induction n as [|n IH]; simpl; intros g HG t Ht.
  - exists t; split; auto. right; lia.
  - destruct (c_grant g tid HG) as (HG' & _ & Hs).
    destruct (Hs t Ht) as (t1 & E1 & Hsame & Hprog).
    destruct (IH _ HG' t1 E1) as (t' & E' & Hd). exists t'; split; auto.
    destruct Hd as [Hd|Hd]; auto.
    destruct (t_prog t) eqn:Ep.
    + left. rewrite (Hsame eq_refl) in Hd. rewrite Ep in Hd. simpl in Hd.
      pose proof (c_run_sched (repeat tid n) _ HG') as [_ Hset2]. unfold run_sched in Hset2.
      apply plen_settled_zero; [apply (Hset2 tid); auto | lia].
    + right. assert (Hne : PGate label p <> PDone) by discriminate. specialize (Hprog Hne). lia.
    + right. assert (Hne : PAct a p <> PDone) by discriminate. specialize (Hprog Hne). lia.
    + right. assert (Hne : PIf c p1 p2 <> PDone) by discriminate. specialize (Hprog Hne). lia.
Qed.

Lemma c_drain_prefix n : forall g, CI g -> (n <= length tasks0)%nat ->
  let g' := run_sched draw Copying (drain_sched p0 n) g in
  CI g' /\ forall tid, (tid < n)%nat -> done_at g' tid.
Proof.
  induction n as [|n IH]; intros g HG Hn.
  - simpl. split; auto. intros; lia.
  - unfold drain_sched. rewrite seq_S, flat_map_app. simpl. rewrite app_nil_r.
    unfold run_sched. rewrite fold_left_app.
    destruct (IH g HG ltac:(lia)) as (HG1 & Hdone). unfold drain_sched, run_sched in HG1, Hdone.
    set (g1 := fold_left (grant draw Copying) (flat_map _ (seq 0 n)) g) in *.
    split; [apply (c_run_sched (repeat n (plen p0))); auto|].
    intros tid Hlt. destruct (Nat.eq_dec tid n) as [->|Hne].
    + intros t' Ht'.
      destruct (nth_error tasks0 n) as [t0|] eqn:E0; [|apply nth_error_None in E0; lia].
      destruct (proj2 (proj1 HG1) n t0 E0) as (sh & t & Hs & Et & HP).
      destruct (c_repeat_progress n (plen p0) g1 HG1 t Et) as (t1 & E1 & Hd).
      unfold run_sched in E1. rewrite E1 in Ht'; inversion Ht'; subst t1.
      destruct Hd as [Hd|Hd]; auto.
      pose proof (p_len _ _ _ HP) as Hl.
      pose proof (c_run_sched (repeat n (plen p0)) _ HG1) as [_ Hset2]. unfold run_sched in Hset2.
      apply plen_settled_zero; [apply (Hset2 n); auto | lia].
    + apply (c_run_sched_done (repeat n (plen p0))); auto. apply Hdone; lia.
Qed.

Definition cfin (t0 : task) : task :=
  with_prog t0 PDone (snd (exec draw (t_idx t0) (t_part t0) p0 sh0 (t_l t0))).

Theorem copies_job_final sched :
  let g := run_sched draw Copying (sched ++ drain_sched p0 (length tasks0))
             (start_all draw Copying p0 {| g_sh := map (fun _ => sh0) tasks0; g_tasks := tasks0; g_events := [] |}) in
  g_tasks g = map cfin tasks0.
Proof.
  unfold run_sched. rewrite fold_left_app.
  pose proof (c_run_sched sched _ c_start_all) as HG1. unfold run_sched in HG1.
  destruct (c_drain_prefix (length tasks0) _ HG1 (le_n _)) as ([[Hlen HC] _] & Hdone).
  unfold run_sched in *. set (g := fold_left (grant draw Copying) (drain_sched p0 (length tasks0)) _) in *.
  apply nth_error_ext_eq. intros n. rewrite nth_error_map.
  destruct (nth_error tasks0 n) as [t0|] eqn:E0; simpl.
  - destruct (HC n t0 E0) as (sh & t & Hs & Et & HP). rewrite Et. f_equal.
    assert (Hp : t_prog t = PDone). { apply (Hdone n); auto. apply nth_error_Some. congruence. }
    destruct HP as [Pi Pp Pc Pd Pn]. rewrite Hp in Pd. simpl in Pd.
    unfold cfin, with_prog. rewrite <- Pd. simpl. destruct t; simpl in *; subst; reflexivity.
  - apply nth_error_None. rewrite Hlen. apply nth_error_None. exact E0.
Qed.

End Copies.

Theorem copies_sched_indep draw parts v r tf driver sh s1 s2 :
  let o1 := run_job draw Copying v r tf parts s1 driver sh in
  let o2 := run_job draw Copying v r tf parts s2 driver sh in
  o_results o1 = o_results o2 /\ o_driver o1 = o_driver o2 /\ o_stamped o1 = o_stamped o2 /\
  o_shared o1 = sh /\ o_shared o2 = sh.
Proof.
  unfold run_job. set (p0 := task_prog v r tf).
  assert (Hinit : Forall (fun t0 => t_prog t0 = p0) (mapi_from (init_task p0 driver) 0 parts)).
  { rewrite mapi_from_spec. apply Forall_forall. intros t Ht. apply in_map_iff in Ht as (ip & <- & _). reflexivity. }
  assert (Hsh : map (fun _ : task => sh) (mapi_from (init_task p0 driver) 0 parts) = map (fun _ => sh) parts).
  { rewrite mapi_from_spec, map_map. clear. generalize 0%nat. induction parts; simpl; intros; f_equal; auto. }
  pose proof (copies_job_final draw p0 _ sh Hinit s1) as H1.
  pose proof (copies_job_final draw p0 _ sh Hinit s2) as H2.
  rewrite mapi_from_length, Hsh in H1, H2.
  simpl. unfold init_state. simpl. rewrite H1, H2. auto.
Qed.

(* ------------------------------------------------------------------------------------------- *)
(* the property in one statement: whatever the pool does, a history of jobs returns job by job what the default
   executor returns and leaves the same cache_obj *)
Theorem history_pool_equals_default draw lin parts b js :
  Forall (job_ok lin) js -> forall driver sh, cache_ok draw lin parts driver ->
  run_jobs draw b today js parts driver sh = run_jobs_local draw today js parts driver sh.
Proof.
  induction 1 as [|[[r tf] sched] js [Hwf Htf] _ IH]; intros driver sh Hd; [reflexivity|].
  simpl in Hwf, Htf. cbn [run_jobs run_jobs_local].
  destruct (dist_job draw lin parts r tf driver Hwf Htf Hd b sched sh) as (Hr & Hc & Hs).
  pose proof (dist_cache_eq_local draw lin parts r Hwf driver Hd tf Htf b sched sh) as Hcache.
  destruct (local_job draw lin parts r tf driver sh Hwf Htf Hd) as (d' & E & Hd').
  rewrite E in Hcache. cbn [fst snd] in Hcache. rewrite E.
  rewrite Hs, Hcache, Hr. rewrite (IH d' sh Hd'). reflexivity.
Qed.

(* RDD.coalesce on any pool: the regrouping of the partitions' own data *)
Definition got (rs : list (option (list Z))) : list (list Z) :=
  map (fun x => match x with Some l => l | None => [] end) rs.

Theorem coalesce_job draw lin parts r driver n :
  wf lin r -> cache_ok draw lin parts driver -> forall b sched sh,
  regroup n (got (o_results (run_job draw b today r FCollect parts sched driver sh))) =
  regroup n (map (fun ip => eval draw r (Z.of_nat (fst ip)) (snd ip)) (combine (seq 0 (length parts)) parts)).
Proof.
  intros Hwf Hd b sched sh.
  rewrite (proj1 (dist_job draw lin parts r FCollect driver Hwf eq_refl Hd b sched sh)).
  unfold spec_results, got. rewrite map_map. reflexivity.
Qed.

(* events of a job: the grants given to task tid are, in order, the lines of that task's own uninterrupted run *)
Theorem job_events_own_trace draw parts b v r tf sched driver sh :
  prog_local (task_prog v r tf) = true ->
  forall tid part, nth_error parts tid = Some part ->
  proj tid (o_events (run_job draw b v r tf parts sched driver sh)) =
  tag tid (ltrace draw (Z.of_nat tid) part (task_prog v r tf) (t_l (init_task (task_prog v r tf) driver tid part))).
Proof.
  intros Hp tid part Hn. unfold run_job. simpl.
  exact (job_events draw parts b (task_prog v r tf) sched driver sh Hp tid part Hn).
Qed.

(* ------------------------------------------------------------------------------------------- *)
(* unpersist *)
Lemma c_unpersist_In n id c k d : In (k, d) (c_unpersist n id c) -> In (k, d) c.
Proof. unfold c_unpersist. rewrite filter_In. tauto. Qed.

Lemma c_unpersist_not n id c k d :
  In (k, d) (c_unpersist n id c) -> ~ (fst k = id /\ 0 <= snd k < Z.of_nat n).
Proof.
  unfold c_unpersist. rewrite filter_In. simpl. intros [_ H] (H1 & H2 & H3).
  apply negb_true_iff in H. rewrite !andb_false_iff in H.
  destruct H as [[H|H]|H].
  - apply Z.eqb_neq in H. auto.
  - apply Z.leb_gt in H. lia.
  - apply Z.ltb_ge in H. lia.
Qed.

Lemma c_unpersist_keeps n id c k d : In (k, d) c -> fst k <> id -> In (k, d) (c_unpersist n id c).
Proof.
  intros Hin Hne. unfold c_unpersist. apply filter_In. split; auto. simpl.
  apply negb_true_iff. apply Z.eqb_neq in Hne. rewrite Hne. reflexivity.
Qed.

(* after unpersist() no partition of the dataset is cached: the next action on it misses everywhere *)
Lemma c_unpersist_gone n id c i : (i < n)%nat -> c_get (c_unpersist n id c) (id, Z.of_nat i) = None.
Proof.
  intros Hi. apply c_get_notin. intros k' d' Hin Heq. subst k'.
  apply (c_unpersist_not _ _ _ _ _ Hin). simpl. lia.
Qed.

Lemma cache_ok_unpersist draw lin parts n id c :
  cache_ok draw lin parts c -> cache_ok draw lin parts (c_unpersist n id c).
Proof. apply cache_ok_sub. intros k d. apply c_unpersist_In. Qed.

Definition step_ok (lin : Z -> rdd) (s : step) : Prop :=
  match s with SJob j => job_ok lin j | SUnpersist _ => True end.

Fixpoint jobs_of (ss : list step) : list jobspec :=
  match ss with [] => [] | SJob j :: ss' => j :: jobs_of ss' | SUnpersist _ :: ss' => jobs_of ss' end.

(* histories with unpersist() between the jobs: pool = default executor, step by step and for the final cache *)
Theorem steps_pool_equals_default draw lin parts b ss :
  Forall (step_ok lin) ss -> forall driver sh, cache_ok draw lin parts driver ->
  run_steps draw b today ss parts driver sh = run_steps_local draw today ss parts driver sh /\
  fst (run_steps draw b today ss parts driver sh)
    = map (fun j => spec_results draw (fst (fst j)) (snd (fst j)) parts) (jobs_of ss) /\
  cache_ok draw lin parts (snd (run_steps draw b today ss parts driver sh)).
Proof.
  induction 1 as [|s ss Hs _ IH]; intros driver sh Hd; [simpl; auto|].
  destruct s as [[[r tf] sched]|id].
  - destruct Hs as [Hwf Htf]. simpl in Hwf, Htf. cbn [run_steps run_steps_local jobs_of map].
    destruct (dist_job draw lin parts r tf driver Hwf Htf Hd b sched sh) as (Hr & Hc & Hsh).
    pose proof (dist_cache_eq_local draw lin parts r Hwf driver Hd tf Htf b sched sh) as Hcache.
    destruct (local_job draw lin parts r tf driver sh Hwf Htf Hd) as (d' & E & Hd').
    rewrite E in Hcache. cbn [fst snd] in Hcache. rewrite E.
    rewrite Hsh, Hcache, Hr.
    destruct (IH d' sh Hd') as (IH1 & IH2 & IH3). rewrite <- IH1.
    destruct (run_steps draw b today ss parts d' sh) as [rs d]. simpl in *. rewrite IH2. auto.
  - cbn [run_steps run_steps_local jobs_of]. apply IH. apply cache_ok_unpersist; auto.
Qed.

(* freshness: whatever stale entries the cache holds (no assumption that they are right), once the persisted datasets
   of a lineage have been unpersisted the next action on it returns the data of the CURRENT source *)
Definition idx_in_range (n : nat) (c : cache) : Prop := forall k d, In (k, d) c -> 0 <= snd k < Z.of_nat n.
Definition unpersist_all (n : nat) (l : list Z) (c : cache) : cache := fold_left (fun c id => c_unpersist n id c) l c.

Lemma unpersist_all_In n l : forall c k d, In (k, d) (unpersist_all n l c) ->
  In (k, d) c /\ (0 <= snd k < Z.of_nat n -> ~ In (fst k) l).
Proof.
  unfold unpersist_all. induction l as [|id l IH]; simpl; intros c k d Hin; [tauto|].
  destruct (IH _ _ _ Hin) as [H1 H2]. split; [eapply c_unpersist_In; eauto|].
  intros Hr [Heq|Hl]; [|apply (H2 Hr Hl)].
  apply (c_unpersist_not _ _ _ _ _ H1). auto.
Qed.

Theorem unpersist_then_fresh draw lin parts r tf driver :
  wf lin r -> tfun_pure tf = true -> idx_in_range (length parts) driver ->
  forall b sched sh,
  o_results (run_job draw b today r tf parts sched (unpersist_all (length parts) (ids r) driver) sh)
  = spec_results draw r tf parts.
Proof.
  intros Hwf Htf Hidx b sched sh.
  apply (dist_job_on draw lin parts (fun id => In id (ids r)) r tf _ Hwf (fun id H => H) Htf).
  intros k d Hin HS. exfalso.
  destruct (unpersist_all_In _ _ _ _ _ Hin) as [H1 H2]. apply H2; auto. apply (Hidx _ _ H1).
Qed.

Theorem sample_job draw lin parts s fr r tf driver :
  wf lin r -> tfun_pure tf = true -> cache_ok draw lin parts driver ->
  forall b sched sh,
  o_results (run_job draw b today (Sample s fr r) tf parts sched driver sh)
  = map (fun ip => Some (apply_tfun tf (samp draw (s + Z.of_nat (fst ip)) fr (eval draw r (Z.of_nat (fst ip)) (snd ip)))))
        (combine (seq 0 (length parts)) parts).
Proof.
  intros Hwf Htf Hd b sched sh.
  exact (proj1 (dist_job draw lin parts (Sample s fr r) tf driver Hwf Htf Hd b sched sh)).
Qed.
