(* C17: sessions on summary OBJECTS reused by several folds -- after every step every live summary (receiver or not)
   represents exactly its own data.  Generic in the summary type; instantiated for StatCounter and CovarianceCounter. *)
From Coq Require Import ZArith Reals List Lra Lia Permutation Bool.
Require Import PV.Base.Num PV.Base.NumR PV.Base.SqrtOps PV.Base.SqrtOpsR.
Require Import PV.Gen.StatCounter PV.Gen.Covariance PV.Model.Stats PV.Proofs.Stats PV.Proofs.StatsCov.
Import ListNotations.
Open Scope R_scope.

(* object sessions: after EVERY step EVERY live summary (receiver or not) represents exactly its own data *)
Section ObjectSessions.
Context {T D : Type} (empty : T) (comb : T -> T -> T) (add : T -> D -> T) (R : T -> list D -> Prop).
Hypothesis R_empty : R empty [].
Hypothesis R_comb : forall a b xs ys, R a xs -> R b ys -> R (comb a b) (xs ++ ys).
Hypothesis R_add : forall a xs v, R a xs -> R (add a v) (xs ++ [v]).

Definition pool_ok (slots : list (T * list D)) : Prop := Forall (fun o => R (fst o) (snd o)) slots.

Lemma set_nth_ok slots : forall i x, pool_ok slots -> R (fst x) (snd x) -> pool_ok (set_nth slots i x).
Proof.
  induction slots as [|y r IH]; intros i x Hs Hx; cbn [set_nth]; [constructor|].
  inversion Hs; subst. destruct i; constructor; auto. apply IH; assumption.
Qed.

Lemma nth_ok slots i o : pool_ok slots -> nth_error slots i = Some o -> R (fst o) (snd o).
Proof. intros Hs E. unfold pool_ok in Hs. rewrite Forall_forall in Hs. apply Hs. eapply nth_error_In, E. Qed.

Lemma ostep_ok slots op slots' : pool_ok slots -> ostep empty comb add slots op = Some slots' -> pool_ok slots'.
Proof.
  intros Hs H. destruct op as [| i | i j | i v]; cbn [ostep] in H.
  - inversion H; subst. apply Forall_app. split; [exact Hs|]. constructor; [exact R_empty | constructor].
  - destruct (nth_error slots i) as [s|] eqn:E; [|discriminate]. inversion H; subst.
    apply Forall_app. split; [exact Hs|]. constructor; [eapply nth_ok; eassumption | constructor].
  - destruct (nth_error slots i) as [[a da]|] eqn:Ei; [|discriminate].
    destruct (nth_error slots j) as [[b db]|] eqn:Ej; [|discriminate]. inversion H; subst.
    apply set_nth_ok; [exact Hs|]. cbn [fst snd].
    apply R_comb; [exact (nth_ok _ _ _ Hs Ei) | exact (nth_ok _ _ _ Hs Ej)].
  - destruct (nth_error slots i) as [[a da]|] eqn:Ei; [|discriminate]. inversion H; subst.
    apply set_nth_ok; [exact Hs|]. cbn [fst snd]. apply R_add. exact (nth_ok _ _ _ Hs Ei).
Qed.

Lemma osession_ok prog : forall slots tr,
  pool_ok slots -> osession empty comb add slots prog = Some tr -> Forall pool_ok tr.
Proof.
  induction prog as [|op p IH]; intros slots tr Hs H; simpl in H.
  - inversion H; subst. constructor.
  - destruct (ostep empty comb add slots op) as [slots'|] eqn:E; [|discriminate].
    destruct (osession empty comb add slots' p) as [tr'|] eqn:E2; [|discriminate].
    inversion H; subst. pose proof (ostep_ok _ _ _ Hs E) as Hs'. constructor; [exact Hs' | eapply IH; eassumption].
Qed.
End ObjectSessions.

Lemma sc_osession_rep lo hi parts prog tr :
  sc_osession lo hi parts prog = Some tr ->
  Forall (Forall (fun o => Rep lo hi (fst o) (snd o) /\ TwoPass lo hi (fst o) (snd o))) tr.
Proof.
  intros H. unfold sc_osession in H.
  assert (H0 : pool_ok (Rep lo hi) (map (fun p => (sc_of_list lo hi p, p)) parts)).
  { unfold pool_ok. apply Forall_forall. intros o Ho. apply in_map_iff in Ho. destruct Ho as [p [<- _]]. apply Rep_of_list. }
  pose proof (osession_ok (sc_empty lo hi) sc_comb sc_add (Rep lo hi) (Rep_empty lo hi) (Rep_comb lo hi) (Rep_add lo hi)
                prog _ tr H0 H) as Hall.
  eapply Forall_impl; [| exact Hall]. intros pool Hp. eapply Forall_impl; [| exact Hp].
  intros o Ho. split; [exact Ho | apply Rep_two_pass, Ho].
Qed.

Lemma cc_osession_rep parts prog tr :
  cc_osession parts prog = Some tr ->
  Forall (Forall (fun o => RepC (fst o) (snd o) /\ TwoPassC (fst o) (snd o))) tr.
Proof.
  intros H. unfold cc_osession in H.
  assert (H0 : pool_ok RepC (map (fun p => (cc_of_list p, p)) parts)).
  { unfold pool_ok. apply Forall_forall. intros o Ho. apply in_map_iff in Ho. destruct Ho as [p [<- _]]. apply RepC_of_list. }
  pose proof (osession_ok cc_empty cc_comb cc_step RepC RepC_empty RepC_comb RepC_add prog _ tr H0 H) as Hall.
  eapply Forall_impl; [| exact Hall]. intros pool Hp. eapply Forall_impl; [| exact Hp].
  intros o Ho. split; [exact Ho | apply RepC_two_pass, Ho].
Qed.
