(* C05 -- no recomputation at the level of worlds: one step of a history. *)
From Coq Require Import ZArith List Bool Lia.
Require Import PV.Model.Cache PV.Model.CacheSpec PV.Proofs.CacheStream PV.Proofs.CacheWorld
  PV.Proofs.CacheRecompute2 PV.Proofs.CacheTimed.
Import ListNotations.
Open Scope Z_scope.

Section Step.
Variable A : Type.
Implicit Types (w : world A) (P : pipeline A) (m : mgr A) (st : state A).

Lemma built_pipe_nodup : forall w P, built w -> In P (w_pipes w) -> NoDup (map fst (p_nodes P)).
Proof.
  intros w P Hb HP. pose proof (built_ids_fresh A w Hb) as Hnd.
  pose proof (concat_nodup_each (@pipe_ids A) (w_pipes w) P Hnd HP) as H.
  unfold pipe_ids in H. inversion H; auto.
Qed.

(* the entry of partition i of the persisted node is in the manager of its context and none of its
   stamps is expired: an action on that node (jd = 0) or a descendant makes no upstream call for i *)
Theorem no_recompute_step : forall w st k P cx m pre rid post jd ak i,
  built w ->
  nth_error (w_pipes w) k = Some P -> p_nodes P = pre ++ (rid, SPersist) :: post ->
  nth_error (w_ctxs w) (p_ctx P) = Some cx -> nth_error (s_mgrs st) (c_mgr cx) = Some m ->
  has_key (rid, i) m -> stable (s_now st) (rid, i) m ->
  user_calls_of (map fst pre) i (snd (fst (step w st (Act k (length pre + 1 + jd) ak)))) = [].
Proof.
  intros w st k P cx m pre rid post jd ak i Hb EP EN Ecx Em Hk Hs.
  assert (HP : In P (w_pipes w)) by (eapply nth_error_In; eauto).
  pose proof (built_pipe_nodup w P Hb HP) as Hnd. rewrite EN in Hnd.
  unfold step. rewrite EP, Ecx, Em.
  destruct (length (p_nodes P) <? length pre + 1 + jd)%nat; [reflexivity|].
  rewrite EN.
  pose proof (no_recompute_action A (c_pool cx) (s_now st) pre post rid jd (p_parts P) ak i m Hnd Hk Hs) as [R _]. cbv zeta in R.
  match goal with |- context [run_action_on ?a ?b ?c ?d ?e ?f] =>
    change (user_calls_of (map fst pre) i (snd (fst (run_action_on a b c d e f))) = []) in R;
    destruct (run_action_on a b c d e f) as [[r ev] m'] end.
  simpl in *. exact R.
Qed.

Corollary no_recompute_step_plain : forall w st k P cx m pre rid post jd ak i,
  built w ->
  nth_error (w_pipes w) k = Some P -> p_nodes P = pre ++ (rid, SPersist) :: post ->
  nth_error (w_ctxs w) (p_ctx P) = Some cx -> nth_error (s_mgrs st) (c_mgr cx) = Some m ->
  m_timeout m = None -> has_key (rid, i) m ->
  user_calls_of (map fst pre) i (snd (fst (step w st (Act k (length pre + 1 + jd) ak)))) = [].
Proof.
  intros. eapply no_recompute_step; eauto. unfold stable. rewrite H4. exact I.
Qed.

Lemma built_pipes_nodup : forall w, built w -> pipes_nodup A w.
Proof.
  intros w Hb. unfold pipes_nodup. apply Forall_forall. intros P HP. eapply built_pipe_nodup; eauto.
Qed.

(* ---- TimedCacheManager, every reachable state of every history with a monotone clock ---- *)
Theorem timed_invariant_reachable : forall w tos h mi m to,
  built w -> clock_monotone h ->
  let st := final_state w (init_state A tos) h in
  nth_error (s_mgrs st) mi = Some m -> m_timeout m = Some to -> timed_inv (s_now st) m.
Proof.
  intros w tos h mi m to Hb Hm st Em Hto.
  pose proof (history_inv A w h (init_state A tos) (built_pipes_nodup w Hb) (init_inv A tos) Hm) as Hi.
  fold st in Hi. pose proof (Forall_nth _ _ _ _ Hi Em) as Hmi. unfold mgr_inv in Hmi. rewrite Hto in Hmi. exact Hmi.
Qed.

(* whatever happened before (adds, joins from pool workers, unpersists, earlier gcs), a gc() at the current
   time leaves nothing that was added at or before now - timeout ... *)
Theorem gc_complete : forall w tos h mi m to,
  built w -> clock_monotone h ->
  let st := final_state w (init_state A tos) h in
  nth_error (s_mgrs st) mi = Some m -> m_timeout m = Some to ->
  forall k d t, In (k, (d, t)) (m_entries (m_gc (s_now st) m)) -> t > s_now st - to.
Proof.
  intros w tos h mi m to Hb Hm st Em Hto k d t Hin.
  eapply gc_complete_mgr; eauto. eapply (timed_invariant_reachable w tos h); eauto.
Qed.

(* ... and removes nothing younger *)
Theorem gc_only_expired : forall w tos h mi m to,
  built w -> clock_monotone h ->
  let st := final_state w (init_state A tos) h in
  nth_error (s_mgrs st) mi = Some m -> m_timeout m = Some to ->
  forall k d t, In (k, (d, t)) (m_entries m) -> t > s_now st - to -> has_key k (m_gc (s_now st) m).
Proof.
  intros w tos h mi m to Hb Hm st Em Hto k d t Hin Ht.
  eapply gc_only_expired_mgr; eauto. eapply (timed_invariant_reachable w tos h); eauto.
Qed.

(* cached and younger than the timeout => not recomputed *)
Theorem no_recompute_step_timed : forall w tos h k P cx m to pre rid post jd ak i d t,
  built w -> clock_monotone h ->
  let st := final_state w (init_state A tos) h in
  nth_error (w_pipes w) k = Some P -> p_nodes P = pre ++ (rid, SPersist) :: post ->
  nth_error (w_ctxs w) (p_ctx P) = Some cx -> nth_error (s_mgrs st) (c_mgr cx) = Some m ->
  m_timeout m = Some to ->
  In ((rid, i), (d, t)) (m_entries m) -> t > s_now st - to ->
  user_calls_of (map fst pre) i (snd (fst (step w st (Act k (length pre + 1 + jd) ak)))) = [].
Proof.
  intros w tos h k P cx m to pre rid post jd ak i d t Hb Hm st EP EN Ecx Em Hto Hin Ht.
  eapply no_recompute_step; eauto.
  - unfold has_key. apply (in_map fst) in Hin; auto.
  - eapply fresh_entry_stable; eauto. eapply (timed_invariant_reachable w tos h); eauto.
Qed.

(* both classes of manager in one statement *)
Theorem no_recompute_step_any : forall w tos h k P cx m pre rid post jd ak i d t,
  built w -> clock_monotone h ->
  let st := final_state w (init_state A tos) h in
  nth_error (w_pipes w) k = Some P -> p_nodes P = pre ++ (rid, SPersist) :: post ->
  nth_error (w_ctxs w) (p_ctx P) = Some cx -> nth_error (s_mgrs st) (c_mgr cx) = Some m ->
  In ((rid, i), (d, t)) (m_entries m) ->
  (forall to, m_timeout m = Some to -> t > s_now st - to) ->
  user_calls_of (map fst pre) i (snd (fst (step w st (Act k (length pre + 1 + jd) ak)))) = [].
Proof.
  intros w tos h k P cx m pre rid post jd ak i d t Hb Hm st EP EN Ecx Em Hin Ht.
  destruct (m_timeout m) as [to|] eqn:Hto.
  - eapply (no_recompute_step_timed w tos h); eauto.
  - eapply no_recompute_step_plain; eauto. unfold has_key. apply (in_map fst) in Hin; auto.
Qed.

End Step.
