(* C14: the aggregator laws for the combinators (several stats per group, pivot slots, output mapping) and for
   the collector / first / last classes.  All of these are EXACT (Leibniz equality of states). *)
From Coq Require Import ZArith List Bool Permutation Morphisms RelationClasses Lia.
Require Import PV.Base.Num PV.Base.NumSqrt PV.Model.Agg PV.Proofs.AggGrouped.
Import ListNotations.

Set Implicit Arguments.

(** * An aggregator whose mergeStats is an associative operation and whose row step is "merge with the
      one-row state" is a homomorphism *)
Section Monoid.
  Variables (Row S O : Type).
  Variable A : aggregator Row S O.
  Hypothesis step_merge : forall s r, a_step A s r = a_merge A s (a_step A (a_init A) r).
  Hypothesis merge_assoc : forall a b c, a_merge A (a_merge A a b) c = a_merge A a (a_merge A b c).

  Lemma monoid_fold_ne ys : ys <> [] ->
    forall s, fold_left (a_step A) ys s = a_merge A s (a_fold A ys).
  Proof.
    induction ys as [|y ys IH]; intros NE s; [contradiction|].
    destruct ys as [|y' ys].
    - simpl. unfold a_fold. simpl. apply step_merge.
    - assert (y' :: ys <> []) as NE' by discriminate.
      change (fold_left (a_step A) (y :: y' :: ys) s) with (fold_left (a_step A) (y' :: ys) (a_step A s y)).
      rewrite (IH NE'). rewrite step_merge, merge_assoc.
      unfold a_fold at 2.
      change (fold_left (a_step A) (y :: y' :: ys) (a_init A))
        with (fold_left (a_step A) (y' :: ys) (a_step A (a_init A) y)).
      rewrite (IH NE'). reflexivity.
  Qed.

  Lemma monoid_laws_ne : agg_laws_ne A eq eq.
  Proof.
    constructor.
    - typeclasses eauto.
    - intros; subst; reflexivity.
    - intros; subst; reflexivity.
    - intros xs ys _ NE. unfold a_fold at 3. rewrite fold_left_app.
      rewrite (monoid_fold_ne NE). reflexivity.
  Qed.

  Hypothesis merge_init_r : forall s, a_merge A s (a_init A) = s.

  Lemma monoid_fold ys s : fold_left (a_step A) ys s = a_merge A s (a_fold A ys).
  Proof.
    destruct ys as [|y ys].
    - simpl. unfold a_fold. simpl. symmetry. apply merge_init_r.
    - apply monoid_fold_ne. discriminate.
  Qed.

  Lemma monoid_laws : agg_laws A eq eq.
  Proof.
    constructor.
    - exact monoid_laws_ne.
    - intros ys. rewrite <- monoid_fold. reflexivity.
    - intros xs. apply merge_init_r.
  Qed.
End Monoid.

(** * Output mapping *)
Section MapOut.
  Variables (Row S O O' : Type).
  Variable f : O -> O'.
  Variable A : aggregator Row S O.
  Variable eqS : S -> S -> Prop.
  Variable eqO : O -> O -> Prop.
  Variable eqO' : O' -> O' -> Prop.
  Hypothesis f_proper : forall o o', eqO o o' -> eqO' (f o) (f o').

  Lemma fold_map_out rows : a_fold (agg_map_out f A) rows = a_fold A rows.
  Proof. reflexivity. Qed.

  Lemma laws_ne_map_out : agg_laws_ne A eqS eqO -> agg_laws_ne (agg_map_out f A) eqS eqO'.
  Proof.
    intros L. constructor.
    - exact (l_equiv L).
    - exact (l_merge_proper L).
    - intros s s' H. simpl. apply f_proper. apply (l_out_proper L). exact H.
    - exact (l_hom_ne L).
  Qed.

  Lemma laws_map_out : agg_laws A eqS eqO -> agg_laws (agg_map_out f A) eqS eqO'.
  Proof.
    intros L. constructor.
    - apply laws_ne_map_out. exact (l_ne L).
    - exact (l_init_l L).
    - exact (l_init_r L).
  Qed.
End MapOut.

(** * Several stats per group *)
Definition pair_rel {X Y} (R1 : X -> X -> Prop) (R2 : Y -> Y -> Prop) (a b : X * Y) : Prop :=
  R1 (fst a) (fst b) /\ R2 (snd a) (snd b).
Definition cons_rel {X} (R1 : X -> X -> Prop) (R2 : list X -> list X -> Prop) (a b : list X) : Prop :=
  match a, b with
  | x :: a', y :: b' => R1 x y /\ R2 a' b'
  | _, _ => False
  end.

Section Pair.
  Variables (Row S1 S2 O : Type).
  Variable A : aggregator Row S1 O.
  Variable B : aggregator Row S2 (list O).
  Variable eqS1 : S1 -> S1 -> Prop.
  Variable eqS2 : S2 -> S2 -> Prop.
  Variable eqO1 : O -> O -> Prop.
  Variable eqO2 : list O -> list O -> Prop.

  Lemma fold_pair_gen rows s t :
    fold_left (a_step (agg_pair A B)) rows (s, t) = (fold_left (a_step A) rows s, fold_left (a_step B) rows t).
  Proof. revert s t. induction rows as [|r rows IH]; intros s t; simpl; auto. Qed.

  Lemma fold_pair rows : a_fold (agg_pair A B) rows = (a_fold A rows, a_fold B rows).
  Proof. apply fold_pair_gen. Qed.

  Lemma pair_equiv : Equivalence eqS1 -> Equivalence eqS2 -> Equivalence (pair_rel eqS1 eqS2).
  Proof.
    intros E1 E2. constructor.
    - intros [a b]. split; reflexivity.
    - intros [a b] [c d] [H1 H2]. split; symmetry; assumption.
    - intros [a b] [c d] [e f] [H1 H2] [H3 H4]. split; etransitivity; eassumption.
  Qed.

  Lemma laws_ne_pair :
    agg_laws_ne A eqS1 eqO1 -> agg_laws_ne B eqS2 eqO2 ->
    agg_laws_ne (agg_pair A B) (pair_rel eqS1 eqS2) (cons_rel eqO1 eqO2).
  Proof.
    intros LA LB. constructor.
    - apply pair_equiv; [exact (l_equiv LA)|exact (l_equiv LB)].
    - intros [a1 a2] [a1' a2'] [b1 b2] [b1' b2'] [H1 H2] [H3 H4]. split; simpl in *.
      + apply (l_merge_proper LA); assumption.
      + apply (l_merge_proper LB); assumption.
    - intros [s1 s2] [t1 t2] [H1 H2]. simpl in *. split.
      + apply (l_out_proper LA); assumption.
      + apply (l_out_proper LB); assumption.
    - intros xs ys NX NY. rewrite !fold_pair. split; simpl.
      + apply (l_hom_ne LA); assumption.
      + apply (l_hom_ne LB); assumption.
  Qed.

  Lemma laws_pair :
    agg_laws A eqS1 eqO1 -> agg_laws B eqS2 eqO2 ->
    agg_laws (agg_pair A B) (pair_rel eqS1 eqS2) (cons_rel eqO1 eqO2).
  Proof.
    intros LA LB. constructor.
    - apply laws_ne_pair; [exact (l_ne LA)|exact (l_ne LB)].
    - intros ys. rewrite !fold_pair. split; simpl; [apply (l_init_l LA)|apply (l_init_l LB)].
    - intros xs. rewrite !fold_pair. split; simpl; [apply (l_init_r LA)|apply (l_init_r LB)].
  Qed.
End Pair.

Lemma laws_nil Row O : agg_laws (@agg_nil Row O) eq eq.
Proof.
  constructor; [constructor|..].
  - typeclasses eauto.
  - intros; subst; reflexivity.
  - intros; subst; reflexivity.
  - intros xs ys _ _. destruct (a_fold agg_nil (xs ++ ys)), (a_merge agg_nil (a_fold agg_nil xs) (a_fold agg_nil ys)). reflexivity.
  - intros ys. destruct (a_fold agg_nil ys), (a_merge agg_nil (a_init agg_nil) tt). reflexivity.
  - intros xs. destruct (a_fold agg_nil xs), (a_merge agg_nil tt (a_init agg_nil)). reflexivity.
Qed.

(* a packed aggregator together with the relations under which it is lawful *)
Record lawful (Row O : Type) : Type := Lawful {
  lw_p : packed Row O;
  lw_eqS : p_S lw_p -> p_S lw_p -> Prop;
  lw_eqO : O -> O -> Prop;
}.

Fixpoint all_eqS {Row O} (l : list (lawful Row O)) : all_S (map (@lw_p Row O) l) -> all_S (map (@lw_p Row O) l) -> Prop :=
  match l with
  | [] => eq
  | w :: l' => pair_rel (lw_eqS w) (all_eqS l')
  end.

Fixpoint all_eqO {Row O} (l : list (lawful Row O)) : list O -> list O -> Prop :=
  match l with
  | [] => eq
  | w :: l' => cons_rel (lw_eqO w) (all_eqO l')
  end.

Lemma laws_ne_all Row O (l : list (lawful Row O)) :
  (forall w, In w l -> agg_laws_ne (p_agg (lw_p w)) (lw_eqS w) (lw_eqO w)) ->
  agg_laws_ne (agg_all (map (@lw_p Row O) l)) (all_eqS l) (all_eqO l).
Proof.
  induction l as [|w l IH]; intros H; simpl.
  - exact (l_ne (laws_nil Row O)).
  - apply laws_ne_pair.
    + apply H. left. reflexivity.
    + apply IH. intros w' Hin. apply H. right. exact Hin.
Qed.

Lemma laws_all Row O (l : list (lawful Row O)) :
  (forall w, In w l -> agg_laws (p_agg (lw_p w)) (lw_eqS w) (lw_eqO w)) ->
  agg_laws (agg_all (map (@lw_p Row O) l)) (all_eqS l) (all_eqO l).
Proof.
  induction l as [|w l IH]; intros H; simpl.
  - exact (laws_nil Row O).
  - apply laws_pair.
    + apply H. left. reflexivity.
    + apply IH. intros w' Hin. apply H. right. exact Hin.
Qed.

(* the state of every stat in the list is the fold of that stat alone *)
Lemma out_all_cons Row O (p : packed Row O) (l : list (packed Row O)) rows :
  a_out (agg_all (p :: l)) (a_fold (agg_all (p :: l)) rows) =
  a_out (p_agg p) (a_fold (p_agg p) rows) :: a_out (agg_all l) (a_fold (agg_all l) rows).
Proof. simpl. rewrite fold_pair. reflexivity. Qed.

Theorem out_all Row O (l : list (packed Row O)) rows :
  a_out (agg_all l) (a_fold (agg_all l) rows) = map (fun p => a_out (p_agg p) (a_fold (p_agg p) rows)) l.
Proof.
  induction l as [|p l IH].
  - reflexivity.
  - rewrite out_all_cons, IH. reflexivity.
Qed.

(* aggregators are values: a stat that occurs twice in the list (the same Column object passed twice to agg(), or
   under an alias) yields the same output twice, each equal to what the stat yields alone *)
Corollary out_all_twice Row O (p : packed Row O) (l : list (packed Row O)) rows :
  a_out (agg_all (p :: p :: l)) (a_fold (agg_all (p :: p :: l)) rows) =
  a_out (p_agg p) (a_fold (p_agg p) rows) :: a_out (p_agg p) (a_fold (p_agg p) rows)
  :: a_out (agg_all l) (a_fold (agg_all l) rows).
Proof. rewrite !out_all. reflexivity. Qed.

(** * Pivot slots *)
Section PivotLaws.
  Variables (Row P S O : Type).
  Variable peqb : P -> P -> bool.
  Variable pv_of : Row -> P.
  Variable A : aggregator Row S O.

  Definition cell_rows (pv : P) (rows : list Row) : list Row := filter (fun r => peqb (pv_of r) pv) rows.

  Lemma pv_step_map pvs (f : P -> S) r :
    pv_step peqb pv_of A pvs (map f pvs) r =
    map (fun p => if peqb (pv_of r) p then a_step A (f p) r else f p) pvs.
  Proof. induction pvs as [|p pvs IH]; simpl; auto. rewrite IH. reflexivity. Qed.

  Lemma pivot_fold_gen pvs rows (f : P -> S) :
    fold_left (pv_step peqb pv_of A pvs) rows (map f pvs) =
    map (fun p => fold_left (a_step A) (cell_rows p rows) (f p)) pvs.
  Proof.
    revert f. induction rows as [|r rows IH]; intros f; simpl.
    - reflexivity.
    - rewrite pv_step_map. rewrite IH. apply map_ext. intros p.
      destruct (peqb (pv_of r) p); reflexivity.
  Qed.

  (* pivot_spec: the slot of pivot value p holds the fold over the rows whose pivot column equals p *)
  Theorem pivot_fold pvs rows :
    a_fold (agg_pivot peqb pv_of pvs A) rows = map (fun p => a_fold A (cell_rows p rows)) pvs.
  Proof. unfold a_fold at 1. simpl. apply (pivot_fold_gen pvs rows (fun _ => a_init A)). Qed.

  Lemma pv_merge_map pvs (f g : P -> S) :
    pv_merge A (map f pvs) (map g pvs) = map (fun p => a_merge A (f p) (g p)) pvs.
  Proof. induction pvs as [|p pvs IH]; simpl; auto. rewrite IH. reflexivity. Qed.

  Variable eqS : S -> S -> Prop.
  Variable eqO : O -> O -> Prop.
  Hypothesis L : agg_laws A eqS eqO.

  Lemma Forall2_equiv : Equivalence (Forall2 eqS).
  Proof.
    pose proof (l_equiv (l_ne L)) as E. constructor.
    - intros l. induction l; constructor; auto. reflexivity.
    - intros a b H. induction H; constructor; auto. symmetry. assumption.
    - intros a b c H. revert c. induction H; intros c H2; inversion H2; subst; constructor.
      + etransitivity; eassumption.
      + auto.
  Qed.

  Lemma Forall2_map_pw {X Y} (R : Y -> Y -> Prop) (f g : X -> Y) l :
    (forall x, R (f x) (g x)) -> Forall2 R (map f l) (map g l).
  Proof. intros H. induction l; simpl; constructor; auto. Qed.

  Theorem laws_pivot pvs : agg_laws (agg_pivot peqb pv_of pvs A) (Forall2 eqS) (Forall2 eqO).
  Proof.
    assert (forall xs ys,
               Forall2 eqS (a_merge (agg_pivot peqb pv_of pvs A) (a_fold (agg_pivot peqb pv_of pvs A) xs)
                                    (a_fold (agg_pivot peqb pv_of pvs A) ys))
                       (a_fold (agg_pivot peqb pv_of pvs A) (xs ++ ys))) as HOM.
    { intros xs ys. rewrite !pivot_fold. simpl. rewrite pv_merge_map. apply Forall2_map_pw.
      intros p. unfold cell_rows. rewrite filter_app. apply (laws_hom L). }
    constructor; [constructor|..].
    - exact Forall2_equiv.
    - intros a a' b b' H. revert b b'.
      induction H as [|x y a a' Hxy H IH]; intros b b' H2; inversion H2 as [|u v b0 b0' Huv H3]; subst; simpl;
        constructor.
      + apply (l_merge_proper (l_ne L)); assumption.
      + apply IH. exact H3.
    - intros s s' H. simpl. induction H; simpl; constructor; auto. apply (l_out_proper (l_ne L)). assumption.
    - intros xs ys _ _. apply HOM.
    - intros ys. apply (HOM [] ys).
    - intros xs. pose proof (HOM xs []) as H. rewrite app_nil_r in H. exact H.
  Qed.
End PivotLaws.

(** * collect_list *)
Section CollectList.
  Variables (Row E : Type).
  Variable get : Row -> option E.

  Definition values_of (rows : list Row) : list E :=
    flat_map (fun r => match get r with Some x => [x] | None => [] end) rows.

  Lemma collect_list_fold_gen rows s :
    fold_left (a_step (collect_list_agg get)) rows s = s ++ values_of rows.
  Proof.
    revert s. induction rows as [|r rows IH]; intros s; simpl.
    - rewrite app_nil_r. reflexivity.
    - rewrite IH. destruct (get r); simpl.
      + rewrite <- app_assoc. reflexivity.
      + reflexivity.
  Qed.

  (* X_direct for collect_list: the non-null values of the group's rows, in row order *)
  Theorem collect_list_direct rows : a_fold (collect_list_agg get) rows = values_of rows.
  Proof. apply (collect_list_fold_gen rows []). Qed.

  Theorem collect_list_laws : agg_laws (collect_list_agg get) eq eq.
  Proof.
    apply monoid_laws.
    - intros s r. simpl. destruct (get r); simpl; auto. rewrite app_nil_r. reflexivity.
    - intros a b c. simpl. symmetry. apply app_assoc.
    - intros s. simpl. apply app_nil_r.
  Qed.
End CollectList.

(** * the set collectors: collect_set, countDistinct, sumDistinct *)
Section SetAgg.
  Variables (Row E O : Type).
  Variable eqb : E -> E -> bool.
  Variable get : Row -> option E.
  Variable outf : list E -> O.
  Hypothesis eqb_spec : forall a b, eqb a b = true <-> a = b.

  Lemma set_add_is_add_key s x : set_add eqb s x = add_key eqb s x.
  Proof. reflexivity. Qed.

  Lemma set_union_fold a b : set_union eqb a b = fold_left (add_key eqb) b a.
  Proof. reflexivity. Qed.

  Lemma set_union_assoc a b c :
    set_union eqb (set_union eqb a b) c = set_union eqb a (set_union eqb b c).
  Proof.
    induction c as [|x c IH] using rev_ind.
    - reflexivity.
    - rewrite !set_union_fold in *. rewrite !fold_left_app. simpl. rewrite IH.
      destruct (key_mem eqb x (fold_left (add_key eqb) c b)) eqn:EM.
      + rewrite (@add_key_in _ eqb (fold_left (add_key eqb) c b) x EM).
        apply add_key_in. rewrite key_mem_fold by assumption. rewrite key_mem_fold in EM by assumption.
        rewrite key_mem_fold by assumption.
        destruct (key_mem eqb x a); simpl; auto.
      + rewrite (@add_key_notin _ eqb (fold_left (add_key eqb) c b) x EM). rewrite fold_left_app. reflexivity.
  Qed.

  Theorem set_laws : agg_laws (set_agg eqb get outf) eq eq.
  Proof.
    apply monoid_laws.
    - intros s r. simpl. destruct (get r); reflexivity.
    - intros a b c. simpl. apply set_union_assoc.
    - intros s. reflexivity.
  Qed.

  (* X_direct: the state is the duplicate-free list of the non-null values, in first-seen order *)
  Theorem set_direct rows : a_fold (set_agg eqb get outf) rows = first_keys eqb (values_of get rows).
  Proof.
    unfold a_fold, first_keys. simpl. generalize (@nil E) as s.
    induction rows as [|r rows IH]; intros s; simpl; auto.
    rewrite IH. destruct (get r); simpl; reflexivity.
  Qed.

  Theorem set_direct_full rows :
    NoDup (a_fold (set_agg eqb get outf) rows)
    /\ forall x, In x (a_fold (set_agg eqb get outf) rows) <-> In x (values_of get rows).
  Proof.
    rewrite set_direct. split; [apply NoDup_first_keys|intros x; apply In_first_keys]; exact eqb_spec.
  Qed.

  Theorem set_state_nodup rows : NoDup (a_fold (set_agg eqb get outf) rows).
  Proof. rewrite set_direct. apply NoDup_first_keys. exact eqb_spec. Qed.

  Theorem set_state_elements rows x :
    In x (a_fold (set_agg eqb get outf) rows) <-> In x (values_of get rows).
  Proof. rewrite set_direct. apply In_first_keys. exact eqb_spec. Qed.

  (* "up to set equality": two states with the same elements are permutations of each other, so any read-out
     that is invariant under permutation (length, sum over a commutative ring, the sorted list) agrees *)
  Theorem set_states_perm rows rows' :
    (forall x, In x (values_of get rows) <-> In x (values_of get rows')) ->
    Permutation (a_fold (set_agg eqb get outf) rows) (a_fold (set_agg eqb get outf) rows').
  Proof.
    intros H. apply NoDup_Permutation; try apply set_state_nodup.
    intros x. rewrite !set_state_elements. apply H.
  Qed.
End SetAgg.

(** * first / last *)
Section FirstLastLaws.
  Context {Ops : NumOps}.
  Variable Row : Type.
  Variable get : Row -> @cell Ops.

  Theorem first_laws ign : agg_laws (first_agg get ign) eq eq.
  Proof.
    apply monoid_laws.
    - intros s r. simpl. destruct s as [v|]; simpl; auto.
    - intros a b c. simpl.
      destruct a as [a|], b as [b|], c as [c|]; destruct ign; simpl; auto;
        repeat (match goal with
                | |- context [if is_null ?x then _ else _] => destruct (is_null x) eqn:?; simpl
                end); auto; congruence.
    - intros s. simpl. reflexivity.
  Qed.

  (* X_direct for first: the first row's value, or with ignore_nulls the first non-null value *)
  Definition first_direct (ign : bool) (rows : list Row) : @cell Ops :=
    if ign then hd CNull (filter (fun c => negb (is_null c)) (map get rows)) else hd CNull (map get rows).

  Theorem first_out_direct ign rows :
    a_out (first_agg get ign) (a_fold (first_agg get ign) rows) = first_direct ign rows.
  Proof.
    unfold first_direct, a_fold. simpl.
    destruct rows as [|r rows]; [destruct ign; reflexivity|]. simpl.
    destruct ign; simpl.
    - generalize (get r) as v. induction rows as [|r' rows IH]; intros v; simpl.
      + destruct (is_null v) eqn:E; simpl; auto. destruct v; simpl in *; auto; discriminate.
      + destruct (is_null v) eqn:E; simpl.
        * apply IH.
        * assert (forall l, fold_left (first_step get true) l (Some v) = Some v) as K.
          { induction l; simpl; auto. rewrite E. simpl. auto. }
          rewrite K. reflexivity.
    - assert (forall l v, fold_left (first_step get false) l (Some v) = Some v) as K.
      { induction l; simpl; auto. }
      rewrite K. reflexivity.
  Qed.

  (* Last: mergeStats is associative with the fresh copy as unit, the row step is "merge with the one-row state" *)
  Theorem last_laws ign : agg_laws (last_agg get ign) eq eq.
  Proof.
    apply monoid_laws.
    - intros s r. simpl. unfold last_step, last_merge. simpl.
      destruct (ign && is_null (get r)) eqn:E; simpl; auto. rewrite E. reflexivity.
    - intros a b c. simpl. unfold last_merge.
      destruct c as [c|]; auto. destruct (ign && is_null c) eqn:Ec; auto.
      destruct b as [b|]; [destruct (ign && is_null b)|]; rewrite ?Ec; reflexivity.
    - intros s. reflexivity.
  Qed.

  Definition last_direct (ign : bool) (rows : list Row) : @cell Ops :=
    if ign then last (filter (fun c => negb (is_null c)) (map get rows)) CNull else last (map get rows) CNull.

  Theorem last_out_direct ign rows :
    a_out (last_agg get ign) (a_fold (last_agg get ign) rows) = last_direct ign rows.
  Proof.
    unfold last_direct. simpl. induction rows as [|r rows IH] using rev_ind.
    - destruct ign; reflexivity.
    - unfold a_fold in *. rewrite fold_left_app. simpl. unfold last_step at 1.
      rewrite map_app. simpl. destruct ign; simpl.
      + rewrite filter_app. simpl. destruct (is_null (get r)) eqn:E; simpl.
        * rewrite app_nil_r. exact IH.
        * rewrite last_last. reflexivity.
      + rewrite last_last. reflexivity.
  Qed.
End FirstLastLaws.

Theorem describe_agree (Ops : NumOps) (Q : NumSqrt Ops) (cols : list nat) (parts : list (list (@row Ops))) :
  run_describe cols parts =
  (let hs := match g_result (describe_stats cols)
                            (g_aggregate (fun _ _ : unit => true) (fun _ => tt) (describe_stats cols) parts) with
             | (_, l) :: _ => l | [] => [] end in
   [map csh_count hs; map csh_avg hs; map csh_stddev hs; map csh_min hs; map csh_max hs])
  /\ forall s : @csh Ops, csh_stddev s = csh_std_samp s.
Proof.
  split; [reflexivity|].
  intros s. unfold csh_stddev, csh_std_samp. destruct (c_count s =? 0)%Z eqn:E; auto.
  apply Z.eqb_eq in E. rewrite E. reflexivity.
Qed.
