(* Lemmas about Model/Save.v (C09).  The savers' regenerated step lists are linked to the order the proofs
   are written for by [text_steps_link] / [pickle_steps_link] (reflexivity: they fail when the source order
   changes); [lock_release_link] does the same for the place where Context.runJob releases the lock. *)
From Coq Require Import List Bool Arith NArith Lia.
Require Import PV.Gen.SaveOrder PV.Model.Save.
Import ListNotations.

Definition canonical_steps : list step := [SCheckExists; SSingle; SRunJob; SMarker].
Lemma text_steps_link : text_steps = canonical_steps. Proof. reflexivity. Qed.
Lemma pickle_steps_link : pickle_steps = canonical_steps. Proof. reflexivity. Qed.
Lemma lock_release_link : runjob_lock_release = ReleaseFinally. Proof. reflexivity. Qed.
Lemma local_kind_link : runjob_local_kind = TaskGenerator. Proof. reflexivity. Qed.
Lemma task_boundary_gen : forall e s, task_boundary e s = (Err (in_generator e), s).
Proof. intros. unfold task_boundary. rewrite local_kind_link. reflexivity. Qed.

(* where an exception comes from, whatever class it was raised with (RuntimeError = a converted StopIteration) *)
Definition from_write (e : exn) : Prop := (exists c, e = EWrite c) \/ e = ERuntime.
Definition from_compute (e : exn) : Prop := (exists c, e = ECompute c) \/ e = ERuntime.
Lemma from_write_gen : forall e, from_write e -> from_write (in_generator e).
Proof. intros e [[c ->]| ->]; [destruct c; simpl; unfold from_write; eauto|right; reflexivity]. Qed.
Lemma from_compute_gen : forall e, from_compute e -> from_compute (in_generator e).
Proof. intros e [[c ->]| ->]; [destruct c; simpl; unfold from_compute; eauto|right; reflexivity]. Qed.
Lemma from_compute_exn : forall p i a, from_compute (compute_exn p i a).
Proof. intros. unfold compute_exn. destruct (cl p i a); [apply from_compute_gen|]; left; eauto. Qed.
Lemma in_generator_not_stop : forall e, is_stop (in_generator e) = false.
Proof. destruct e as [|[]|[]| | | | |]; reflexivity. Qed.

Lemma lock_after_error_false : lock_after_error = false.
Proof. unfold lock_after_error. rewrite lock_release_link. reflexivity. Qed.

Lemma name_eqb_refl : forall n, name_eqb n n = true.
Proof. destruct n; simpl; auto using Nat.eqb_refl. Qed.
Lemma name_eqb_eq : forall a b, name_eqb a b = true -> a = b.
Proof. destruct a, b; simpl; intros H; try discriminate; auto; apply Nat.eqb_eq in H; subst; auto. Qed.

Lemma lookup_app_none : forall nm l r, lookup nm l = None -> lookup nm (l ++ r) = lookup nm r.
Proof.
  induction l as [|[n c] l IH]; simpl; intros r H; auto.
  destruct (name_eqb nm n); [discriminate|auto].
Qed.
Lemma lookup_app_some : forall nm l r c, lookup nm l = Some c -> lookup nm (l ++ r) = Some c.
Proof.
  induction l as [|[n c0] l IH]; simpl; intros r c H; [discriminate|].
  destruct (name_eqb nm n); auto.
Qed.
Lemma set_child_absent : forall nm c l, lookup nm l = None -> set_child nm c l = l ++ [(nm, c)].
Proof.
  induction l as [|[n c0] l IH]; simpl; intros H; auto.
  destruct (name_eqb nm n); [discriminate|]. rewrite IH; auto.
Qed.
Lemma set_child_last : forall nm c c0 l, lookup nm l = None -> set_child nm c (l ++ [(nm, c0)]) = l ++ [(nm, c)].
Proof.
  induction l as [|[n c1] l IH]; simpl; intros H.
  - rewrite name_eqb_refl. reflexivity.
  - destruct (name_eqb nm n); [discriminate|]. rewrite IH; auto.
Qed.

Section S.
Variable A : Type.
Variable render : A -> bytes.
Notation part_files := (part_files A render).
Notation complete_dir := (complete_dir A render).

Lemma part_files_app : forall xs ys i,
  part_files i (xs ++ ys) = part_files i xs ++ part_files (i + length xs) ys.
Proof.
  induction xs as [|x xs IH]; simpl; intros ys i.
  - rewrite Nat.add_0_r. reflexivity.
  - rewrite IH. replace (S i + length xs) with (i + S (length xs)) by lia. reflexivity.
Qed.
Lemma lookup_part_out : forall xs i k, k < i \/ i + length xs <= k -> lookup (NPart k) (part_files i xs) = None.
Proof.
  induction xs as [|x xs IH]; simpl; intros i k H; auto.
  destruct (Nat.eqb k i) eqn:E.
  - apply Nat.eqb_eq in E. lia.
  - apply IH. lia.
Qed.
Lemma lookup_part_marker : forall xs i, lookup NMarker (part_files i xs) = None.
Proof. induction xs; simpl; auto. Qed.
Lemma lookup_part_in : forall xs i k x, nth_error xs k = Some x -> lookup (NPart (i + k)) (part_files i xs) = Some (render x).
Proof.
  induction xs as [|y xs IH]; intros i k x H.
  - destruct k; discriminate.
  - destruct k; simpl in *.
    + inversion H; subst. rewrite Nat.add_0_r, Nat.eqb_refl. reflexivity.
    + destruct (Nat.eqb (i + S k) i) eqn:E. { apply Nat.eqb_eq in E. lia. }
      replace (i + S k) with (S i + k) by lia. apply IH; auto.
Qed.

Definition tail_ok (i : nat) (tail : list (name * bytes)) : Prop := tail = [] \/ exists c, tail = [(NPart i, c)].
Definition job_fs (done : list A) (tail : list (name * bytes)) (f : fs) : Prop :=
  (f = FAbsent /\ done = [] /\ tail = []) \/ f = FDir (part_files 0 done ++ tail).
Definition no_marker (f : fs) : Prop := child f NMarker = None.

Lemma job_fs_no_marker : forall done tail f, tail_ok (length done) tail -> job_fs done tail f -> no_marker f.
Proof.
  intros done tail f Ht [[-> _]| ->]; unfold no_marker; simpl; auto.
  rewrite lookup_app_none by apply lookup_part_marker.
  destruct Ht as [->|[c ->]]; simpl; auto.
Qed.

Lemma job_fs_snoc : forall done x f,
  job_fs done [(NPart (length done), render x)] f -> job_fs (done ++ [x]) [] f.
Proof.
  intros done x f [[_ [_ H]]| ->]; [discriminate|]. right.
  rewrite part_files_app, app_nil_r. simpl. reflexivity.
Qed.

Lemma write_part : forall done tail f c,
  tail_ok (length done) tail -> job_fs done tail f ->
  exists f', write_to (TChild (NPart (length done))) c f = Ok f' /\ job_fs done [(NPart (length done), c)] f'.
Proof.
  intros done tail f c Ht [[-> [-> ->]]| ->]; simpl.
  - eexists; split; eauto. right. reflexivity.
  - eexists; split; eauto. right. f_equal.
    assert (Hn : lookup (NPart (length done)) (part_files 0 done) = None) by (apply lookup_part_out; lia).
    destruct Ht as [->|[c0 ->]].
    + rewrite app_nil_r. apply set_child_absent; auto.
    + apply set_child_last; auto.
Qed.

Lemma mkdir_part : forall done tail f nm, job_fs done tail f -> job_fs done tail (mkdir_for (TChild nm) f).
Proof.
  intros done tail f nm [[-> [-> ->]]| ->]; simpl.
  - right. reflexivity.
  - right. reflexivity.
Qed.

(* monotone growth of the observable state *)
Definition grow (P : fs -> Prop) (s s' : st) : Prop :=
  s_locked s' = s_locked s /\ s_calls s <= s_calls s' /\ exists l, s_hist s' = s_hist s ++ l /\ Forall P l.
Lemma grow_refl : forall P s, grow P s s.
Proof. intros. repeat split; auto. exists []. rewrite app_nil_r. auto. Qed.
Lemma grow_trans : forall P a b c, grow P a b -> grow P b c -> grow P a c.
Proof.
  intros P a b c [L1 [C1 [l1 [H1 F1]]]] [L2 [C2 [l2 [H2 F2]]]]. repeat split; try congruence; try lia.
  exists (l1 ++ l2). rewrite H2, H1, app_assoc. split; auto. apply Forall_app; auto.
Qed.

Definition TInv (done : list A) (s : st) : Prop :=
  exists tail, tail_ok (length done) tail /\ job_fs done tail (s_fs s).

Lemma dump_part : forall p done x s r s',
  TInv done s ->
  dump p (TChild (NPart (length done))) (render x) s = (r, s') ->
  grow no_marker s s' /\ s_calls s' = S (s_calls s) /\
  ((r = Ok tt /\ wf p (s_calls s) = None /\ job_fs (done ++ [x]) [] (s_fs s'))
   \/ (exists e, r = Err e /\ from_write e /\ wf p (s_calls s) <> None /\ TInv done s')).
Proof.
  intros p done x s r s' [tail [Ht Hj]] H. unfold dump in H.
  assert (G : forall f' r0, (exists t', tail_ok (length done) t' /\ job_fs done t' f') ->
     (r0, mkst f' (S (s_calls s)) (s_locked s) (s_hist s ++ [f'])) = (r, s') ->
     grow no_marker s s' /\ s_calls s' = S (s_calls s)).
  { intros f' r0 [t' [Ht' Hj']] E. inversion E; subst; simpl. split; [|reflexivity].
    unfold grow; simpl. split; [reflexivity|]. split; [lia|].
    exists [f']. split; [reflexivity|]. constructor; [|constructor]. eapply job_fs_no_marker; eauto. }
  destruct (wf p (s_calls s)) as [[| |j]|] eqn:W.
  - (* before *)
    destruct (G (s_fs s) (Err (EWrite (wc p (s_calls s))))) as [Gg Gc]; [eauto|exact H|].
    split; [exact Gg|]. split; [exact Gc|].
    inversion H; subst. right. eexists. split; [reflexivity|]. split; [left; eauto|]. split; [discriminate|]. exists tail. simpl. auto.
  - (* mkdir *)
    assert (Hm : exists t', tail_ok (length done) t' /\ job_fs done t' (mkdir_for (TChild (NPart (length done))) (s_fs s))).
    { exists tail. split; auto. apply mkdir_part; auto. }
    destruct (G _ _ Hm H) as [Gg Gc].
    split; [exact Gg|]. split; [exact Gc|].
    inversion H; subst. right. eexists. split; [reflexivity|]. split; [left; eauto|]. split; [discriminate|]. exact Hm.
  - (* torn *)
    destruct (write_part done tail (s_fs s) (firstn j (render x)) Ht Hj) as [f' [Hw Hj']].
    rewrite Hw in H.
    assert (Hm : exists t', tail_ok (length done) t' /\ job_fs done t' f').
    { eexists; split; [|exact Hj']. right; eauto. }
    destruct (G _ _ Hm H) as [Gg Gc].
    split; [exact Gg|]. split; [exact Gc|].
    inversion H; subst. right. eexists. split; [reflexivity|]. split; [apply (from_write_gen (EWrite (wc p (s_calls s)))); left; eauto|]. split; [discriminate|]. exact Hm.
  - destruct (write_part done tail (s_fs s) (render x) Ht Hj) as [f' [Hw Hj']].
    rewrite Hw in H.
    assert (Hm : exists t', tail_ok (length done) t' /\ job_fs done t' f').
    { eexists; split; [|exact Hj']. right; eauto. }
    destruct (G _ _ Hm H) as [Gg Gc].
    split; [exact Gg|]. split; [exact Gc|].
    inversion H; subst. left. split; [reflexivity|]. split; [reflexivity|]. simpl. apply job_fs_snoc; auto.
Qed.

(* what a job can raise, and why: only faults that are in the plan *)
Definition job_err (p : plan) (m : nat) (e : exn) : Prop :=
  (from_write e /\ exists k, wf p k <> None) \/ (from_compute e /\ exists i a, cf p i a = true) \/ (e = ENoRetries /\ m = 0).
Lemma job_err_S : forall p k m e, job_err p (S k) e -> job_err p m e.
Proof. intros p k m e [H|[H|[_ H]]]; [left|right; left|discriminate]; auto. Qed.
Lemma job_err_gen : forall p m e, job_err p m e -> job_err p m (in_generator e).
Proof.
  intros p m e [[H K]|[[H K]|[-> K]]]; [left; split; auto using from_write_gen|right; left; split; auto using from_compute_gen|].
  right; right; auto.
Qed.
Lemma job_err_write : forall p m e k, from_write e -> wf p k <> None -> job_err p m e.
Proof. intros. left. eauto. Qed.
Lemma job_err_compute : forall p m e i a, from_compute e -> cf p i a = true -> job_err p m e.
Proof. intros. right. left. eauto. Qed.

Lemma attempts_write : forall p x done rem a s r s',
  TInv done s ->
  attempts p (write_act A render p (length done) x) (length done) rem a s = (r, s') ->
  grow no_marker s s' /\
  ((r = Ok tt /\ job_fs (done ++ [x]) [] (s_fs s')) \/ (exists e, r = Err e /\ job_err p rem e /\ TInv done s')).
Proof.
  induction rem as [|rem IH]; intros a s r s' Hi H; simpl in H.
  - inversion H; subst. split; [apply grow_refl|]. right. exists ENoRetries. unfold job_err; intuition auto.
  - destruct (cf p (length done) a) eqn:C.
    + assert (J : job_err p (S rem) (compute_exn p (length done) a))
        by (eapply job_err_compute; [apply from_compute_exn|exact C]).
      destruct (catchable (compute_exn p (length done) a)).
      * destruct rem.
        -- inversion H; subst. split; [apply grow_refl|]. right. eauto.
        -- apply IH in H; auto. destruct H as [G [R|[e [E [J2 T]]]]]; split; auto. right. exists e. eauto using job_err_S.
      * inversion H; subst. split; [apply grow_refl|]. right. eauto.
    + unfold write_act in H at 1.
      destruct (dump p (TChild (NPart (length done))) (render x) s) as [r1 s1] eqn:D.
      destruct (dump_part _ _ _ _ _ _ Hi D) as [G [_ [[-> [_ Hj]]|[e1 [-> [Fw [Wn Hi1]]]]]]].
      * inversion H; subst. split; auto.
      * assert (J : job_err p (S rem) e1) by (eapply job_err_write; eauto).
        destruct (catchable e1).
        -- destruct rem.
           ++ inversion H; subst. split; auto. right. eauto.
           ++ apply IH in H; auto. destruct H as [G2 R]. split; [eapply grow_trans; eauto|].
              destruct R as [R|[e [E [J2 T]]]]; auto. right. exists e. eauto using job_err_S.
        -- inversion H; subst. split; auto. right. eauto.
Qed.

Lemma tasks_write : forall p m todo done s r s',
  job_fs done [] (s_fs s) ->
  tasks A p (write_act A render p) m (length done) todo s = (r, s') ->
  grow no_marker s s' /\
  ((r = Ok tt /\ job_fs (done ++ todo) [] (s_fs s'))
   \/ (exists e, r = Err e /\ job_err p m e /\ exists done' rest, done ++ todo = done' ++ rest /\ rest <> [] /\ TInv done' s')).
Proof.
  induction todo as [|x todo IH]; intros done s r s' Hj H; simpl in H.
  - inversion H; subst. split; [apply grow_refl|]. left. rewrite app_nil_r. auto.
  - destruct (attempts p (write_act A render p (length done) x) (length done) m 1 s) as [r1 s1] eqn:E.
    assert (Hi : TInv done s) by (exists []; split; [left; auto|auto]).
    destruct (attempts_write _ _ _ _ _ _ _ _ Hi E) as [G [[-> Hj1]|[e [-> [He Hi1]]]]].
    + replace (S (length done)) with (length (done ++ [x])) in H by (rewrite app_length; simpl; lia).
      apply IH in H; auto. destruct H as [G2 R]. split; [eapply grow_trans; eauto|].
      rewrite <- app_assoc in R. simpl in R. exact R.
    + rewrite task_boundary_gen in H. inversion H; subst. split; auto. right. exists (in_generator e).
      split; [reflexivity|]. split; [apply job_err_gen; auto|].
      exists done, (x :: todo). repeat split; auto. discriminate.
Qed.

(* tasks that only compute (collect): no effect on the file system *)
Lemma attempts_noop : forall p i x rem a s r s',
  attempts p (noop_act A i x) i rem a s = (r, s') ->
  s' = s /\ (r = Ok tt \/ exists e, r = Err e /\ job_err p rem e).
Proof.
  induction rem as [|rem IH]; intros a s r s' H; simpl in H.
  - inversion H; subst. split; auto. right. exists ENoRetries. unfold job_err; intuition auto.
  - destruct (cf p i a) eqn:C.
    + assert (J : job_err p (S rem) (compute_exn p i a)) by (eapply job_err_compute; [apply from_compute_exn|exact C]).
      destruct (catchable (compute_exn p i a)).
      * destruct rem.
        -- inversion H; subst. split; auto. right. eauto.
        -- apply IH in H. destruct H as [E [R|[e [E2 J2]]]]; split; auto. right. exists e. eauto using job_err_S.
      * inversion H; subst. split; auto. right. eauto.
    + unfold noop_act in H at 1. inversion H; subst. auto.
Qed.

Lemma tasks_noop : forall p m xs i s r s',
  tasks A p (noop_act A) m i xs s = (r, s') ->
  s' = s /\ (r = Ok tt \/ exists e, r = Err e /\ job_err p m e).
Proof.
  induction xs as [|x xs IH]; intros i s r s' H; simpl in H.
  - inversion H; subst. auto.
  - destruct (attempts p (noop_act A i x) i m 1 s) as [r1 s1] eqn:E.
    apply attempts_noop in E. destruct E as [-> [->|[e [-> He]]]].
    + apply IH in H. exact H.
    + rewrite task_boundary_gen in H. inversion H; subst. split; auto. right. eauto using job_err_gen.
Qed.

(* Context.runJob around a body that keeps the lock flag: the lock is free afterwards *)
Lemma run_job_spec : forall (body : st -> res unit * st) s r s',
  s_locked s = false ->
  run_job body s = (r, s') ->
  exists s1, body (set_locked true s) = (r, s1) /\ s' = set_locked false s1.
Proof.
  intros body s r s' L H. unfold run_job in H. rewrite L in H.
  destruct (body (set_locked true s)) as [[u|e] s1] eqn:B.
  - inversion H; subst. destruct u. eauto.
  - inversion H; subst. rewrite lock_after_error_false. eauto.
Qed.

Lemma grow_set_locked : forall P s s1 b b', grow P (set_locked b s) s1 ->
  s_locked (set_locked b' s1) = b' /\ s_calls s <= s_calls s1 /\ exists l, s_hist (set_locked b' s1) = s_hist s ++ l /\ Forall P l.
Proof. intros P s s1 b b' [L [C [l [H F]]]]. simpl in *. repeat split; auto. exists l. auto. Qed.

Definition hent (xs : list A) (f : fs) : Prop := no_marker f \/ f = complete_dir xs.

Lemma Forall_hent : forall xs l, Forall no_marker l -> Forall (hent xs) l.
Proof. intros xs l H. eapply Forall_impl; [|exact H]. intros f Hf. left. exact Hf. Qed.

(* the marker write on the directory of a finished write job *)
Lemma dump_marker : forall p xs s r s',
  job_fs xs [] (s_fs s) ->
  dump p (TChild NMarker) [] s = (r, s') ->
  s_locked s' = s_locked s /\ s_calls s' = S (s_calls s) /\ s_hist s' = s_hist s ++ [s_fs s'] /\
  ((r = Ok tt /\ wf p (s_calls s) = None /\ s_fs s' = complete_dir xs)
   \/ (exists e, r = Err e /\ from_write e /\
       ((no_marker (s_fs s') /\ job_fs xs [] (s_fs s') /\ (wf p (s_calls s) = Some WBefore \/ wf p (s_calls s) = Some WMkdir))
        \/ (s_fs s' = complete_dir xs /\ exists j, wf p (s_calls s) = Some (WTorn j))))).
Proof.
  intros p xs s r s' Hj H. unfold dump in H.
  assert (W : write_to (TChild NMarker) [] (s_fs s) = Ok (complete_dir xs)).
  { destruct Hj as [[-> [-> _]]| ->]; simpl; auto. unfold complete_dir. rewrite app_nil_r.
    rewrite set_child_absent; auto. apply lookup_part_marker. }
  assert (NM : no_marker (s_fs s)) by (eapply job_fs_no_marker; [|exact Hj]; left; auto).
  destruct (wf p (s_calls s)) as [[| |j]|] eqn:E.
  - inversion H; subst; simpl. repeat split; auto. right. eexists. split; [reflexivity|]. split; [left; eauto|]. auto.
  - inversion H; subst; simpl. repeat split; auto. right. eexists. split; [reflexivity|]. split; [left; eauto|]. left.
    assert (J : job_fs xs [] (mkdir_for (TChild NMarker) (s_fs s))) by (apply mkdir_part; auto).
    repeat split; auto. eapply job_fs_no_marker; [|exact J]. left; auto.
  - replace (firstn j []) with (@nil N) in H by (destruct j; reflexivity). rewrite W in H.
    inversion H; subst; simpl. repeat split; auto. right. eexists. split; [reflexivity|].
    split; [apply (from_write_gen (EWrite (wc p (s_calls s)))); left; eauto|]. right. eauto.
  - rewrite W in H. inversion H; subst; simpl. repeat split; auto.
Qed.

Lemma complete_dir_marker : forall xs, child (complete_dir xs) NMarker = Some [].
Proof. intros xs. unfold complete_dir. simpl. rewrite lookup_app_none by apply lookup_part_marker. reflexivity. Qed.

(* ---------- the whole save, started on an absent target ---------- *)

Definition save_post (p : plan) (m : nat) (xs : list A) (r : res unit) (s' : st) : Prop :=
  s_locked s' = false /\ Forall (hent xs) (s_hist s') /\ hent xs (s_fs s') /\
  ((r = Ok tt /\ s_fs s' = match xs with [x] => FFile (render x) | _ => complete_dir xs end)
   \/ (exists e, r = Err e /\ job_err p m e /\
        (no_marker (s_fs s')
         \/ (s_fs s' = complete_dir xs /\ from_write e /\ exists j, wf p (pred (s_calls s')) = Some (WTorn j))))).

Lemma save_multi : forall p m xs c0 r s',
  (forall x, xs <> [x]) ->
  run_steps A render p m xs canonical_steps (init_st FAbsent c0 false) = (r, s') ->
  save_post p m xs r s'.
Proof.
  intros p m xs c0 r s' Hn H.
  assert (H2 : match run_job (tasks A p (write_act A render p) m 0 xs) (init_st FAbsent c0 false) with
               | (Ok _, s1) => match dump p (TChild NMarker) [] s1 with
                               | (Ok _, s2) => (Ok tt, s2) | (Err e, s2) => (Err e, s2) end
               | (Err e, s1) => (Err e, s1) end = (r, s')).
  { destruct xs as [|x [|y xs]]; [| exfalso; eapply Hn; reflexivity |]; simpl in H; exact H. }
  clear H.
  destruct (run_job (tasks A p (write_act A render p) m 0 xs) (init_st FAbsent c0 false)) as [r1 s1] eqn:J.
  apply run_job_spec in J; [|reflexivity]. destruct J as [s1' [B ->]].
  change 0 with (length (@nil A)) in B.
  apply tasks_write in B; [|left; auto].
  destruct B as [G R]. apply grow_set_locked with (b' := false) in G. destruct G as [L [C [l [Hh Fl]]]].
  simpl in Hh.
  destruct R as [[-> Hj]|[e [-> [He [done' [rest [_ [_ [tail [Ht Hj]]]]]]]]]].
  - simpl in Hj.
    destruct (dump p (TChild NMarker) [] (set_locked false s1')) as [r2 s2] eqn:D.
    apply dump_marker with (xs := xs) in D; [|exact Hj].
    destruct D as [L2 [C2 [H2' R2]]].
    destruct R2 as [[-> [_ Fs]]|[e2 [-> [Fw R2]]]].
    + inversion H2; subst. unfold save_post. rewrite L2, L. split; auto.
      assert (HE : hent xs (s_fs s')) by (right; auto).
      split. { rewrite H2'. simpl. apply Forall_app. split; [apply Forall_hent; auto|]. constructor; auto. }
      split; auto. left. split; auto. rewrite Fs. destruct xs as [|x [|y xs]]; auto. exfalso. eapply Hn; reflexivity.
    + inversion H2; subst. unfold save_post. rewrite L2, L. split; auto.
      assert (HE : hent xs (s_fs s')). { destruct R2 as [[N _]|[Fs _]]; [left|right]; auto. }
      split. { rewrite H2'. simpl. apply Forall_app. split; [apply Forall_hent; auto|]. constructor; auto. }
      assert (Wn : wf p (s_calls (set_locked false s1')) <> None).
      { destruct R2 as [[_ [_ [W|W]]]|[_ [j W]]]; rewrite W; discriminate. }
      split; auto. right. exists e2. split; auto. split; [eapply job_err_write; eauto|].
      destruct R2 as [[N _]|[Fs [j W]]]; [left; auto|right]. split; auto. split; auto.
      exists j. rewrite C2. simpl. exact W.
  - inversion H2; subst. unfold save_post.
    assert (N : no_marker (s_fs (set_locked false s1'))) by (simpl; eapply job_fs_no_marker; eauto).
    split; auto. split. { simpl. apply Forall_hent; auto. }
    split. { left; auto. }
    right. exists e. split; auto.
Qed.

Lemma save_single : forall p m x c0 r s',
  run_steps A render p m [x] canonical_steps (init_st FAbsent c0 false) = (r, s') ->
  save_post p m [x] r s' /\ no_marker (s_fs s') /\ Forall no_marker (s_hist s').
Proof.
  intros p m x c0 r s' H.
  assert (H2 : match run_job (tasks A p (noop_act A) m 0 [x]) (init_st FAbsent c0 false) with
               | (Ok _, s1) => dump p TRoot (render x) s1
               | (Err e, s1) => (Err e, s1) end = (r, s')) by exact H.
  clear H. rename H2 into H.
  destruct (run_job (tasks A p (noop_act A) m 0 [x]) (init_st FAbsent c0 false)) as [r1 s1] eqn:J.
  apply run_job_spec in J; [|reflexivity]. destruct J as [s1' [B ->]].
  apply tasks_noop in B. destruct B as [-> [->|[e [-> He]]]].
  - unfold dump in H. simpl in H.
    assert (K : forall f r0, no_marker f -> (r0 = Ok tt /\ f = FFile (render x) \/ (exists e, r0 = Err e /\ from_write e) /\ wf p c0 <> None) ->
               (r0, mkst f (S c0) false [f]) = (r, s') ->
               save_post p m [x] r s' /\ no_marker (s_fs s') /\ Forall no_marker (s_hist s')).
    { intros f r0 N R E. inversion E; subst; simpl. split; [|split; auto].
      unfold save_post; simpl. split; auto. split. { constructor; auto. left; auto. }
      split. { left; auto. }
      destruct R as [[-> ->]|[[e [-> Fw]] Wn]]; [left; auto|right]. exists e. split; auto. split; [eapply job_err_write; eauto|auto]. }
    assert (Fg : from_write (in_generator (EWrite (wc p c0)))) by (apply from_write_gen; left; eauto).
    assert (Fd : from_write (EWrite (wc p c0))) by (left; eauto).
    destruct (wf p c0) as [[| |j]|] eqn:W; eapply K; try exact H; unfold no_marker; simpl; auto;
      right; (split; [eexists; split; [reflexivity|assumption]|discriminate]).
  - inversion H; subst; simpl. split; [|split; [reflexivity|constructor]].
    unfold save_post; simpl. split; auto. split; [constructor|]. split; [left; reflexivity|].
    right. exists e. split; auto. split; auto. left. reflexivity.
Qed.

Lemma save_canonical : forall p m xs c0 r s',
  run_steps A render p m xs canonical_steps (init_st FAbsent c0 false) = (r, s') ->
  save_post p m xs r s'.
Proof.
  intros p m xs c0 r s' H.
  destruct xs as [|x [|y xs]].
  - eapply save_multi; [|exact H]. intros x; discriminate.
  - apply save_single in H. apply H.
  - eapply save_multi; [|exact H]. intros x'; discriminate.
Qed.

Lemma no_overwrite_canonical : forall p m xs f0 c0 lk,
  fs_exists f0 = true ->
  run_steps A render p m xs canonical_steps (init_st f0 c0 lk) = (Err EExists, init_st f0 c0 lk).
Proof. intros p m xs f0 c0 lk H. simpl. rewrite H. reflexivity. Qed.

Lemma steps_of_canonical : forall sv, steps_of sv = canonical_steps.
Proof. destruct sv; [apply text_steps_link|apply pickle_steps_link]. Qed.

(* ---------- statements used by Properties/C09.v ---------- *)

Theorem no_overwrite : forall sv p m xs f0 c0 lk,
  fs_exists f0 = true ->
  save A render sv p m xs (init_st f0 c0 lk) = (Err EExists, init_st f0 c0 lk).
Proof. intros. unfold save. rewrite steps_of_canonical. apply no_overwrite_canonical; auto. Qed.

Lemma save_spec : forall sv p m xs c0 r s',
  save A render sv p m xs (init_st FAbsent c0 false) = (r, s') -> save_post p m xs r s'.
Proof. intros sv p m xs c0 r s' H. unfold save in H. rewrite steps_of_canonical in H. eapply save_canonical; eauto. Qed.

Lemma hent_marker : forall xs f, hent xs f -> child f NMarker <> None -> f = complete_dir xs.
Proof. intros xs f [N|E] H; auto. contradiction. Qed.

Theorem marker_implies_complete : forall sv p m xs c0 r s',
  save A render sv p m xs (init_st FAbsent c0 false) = (r, s') ->
  forall f, In f (s_hist s' ++ [s_fs s']) -> child f NMarker <> None ->
  f = complete_dir xs /\ length xs <> 1.
Proof.
  intros sv p m xs c0 r s' H f Hin Hm.
  assert (P := save_spec _ _ _ _ _ _ _ H). destruct P as [_ [Fh [He _]]].
  assert (Hf : hent xs f).
  { apply in_app_or in Hin. destruct Hin as [Hin|[<-|[]]]; auto. rewrite Forall_forall in Fh. auto. }
  split; [apply hent_marker; auto|].
  intros L1. destruct xs as [|x [|y xs]]; try discriminate.
  unfold save in H. rewrite steps_of_canonical in H. apply save_single in H. destruct H as [_ [N Fn]].
  apply Hm. apply in_app_or in Hin. destruct Hin as [Hin|[<-|[]]]; auto.
  rewrite Forall_forall in Fn. apply Fn; auto.
Qed.

Theorem complete_dir_parts : forall xs i,
  child (complete_dir xs) (NPart i) = option_map render (nth_error xs i).
Proof.
  intros xs i. unfold complete_dir. simpl.
  destruct (nth_error xs i) as [x|] eqn:E; simpl.
  - assert (L := lookup_part_in xs 0 i x E). simpl in L. apply lookup_app_some. exact L.
  - apply nth_error_None in E. rewrite lookup_app_none by (apply lookup_part_out; lia). reflexivity.
Qed.

Theorem failure_no_marker : forall sv p m xs c0 e s',
  save A render sv p m xs (init_st FAbsent c0 false) = (Err e, s') ->
  child (s_fs s') NMarker = None
  \/ (s_fs s' = complete_dir xs /\ from_write e /\ exists j, wf p (pred (s_calls s')) = Some (WTorn j)).
Proof.
  intros sv p m xs c0 e s' H. apply save_spec in H. destruct H as [_ [_ [_ [[H _]|[e' [H [_ R]]]]]]]; [discriminate|].
  inversion H; subst. exact R.
Qed.

Theorem failure_no_marker_atomic : forall sv p m xs c0 e s',
  (forall k j, wf p k <> Some (WTorn j)) ->
  save A render sv p m xs (init_st FAbsent c0 false) = (Err e, s') ->
  child (s_fs s') NMarker = None.
Proof.
  intros sv p m xs c0 e s' Hat H. apply failure_no_marker in H. destruct H as [H|[_ [_ [j W]]]]; auto.
  exfalso. eapply Hat; eauto.
Qed.

(* ---------- the error reaches the caller ---------- *)

Theorem failure_is_injected_fault : forall sv p m xs f0 c0 e s',
  1 <= m ->
  save A render sv p m xs (init_st f0 c0 false) = (Err e, s') ->
  (e = EExists /\ fs_exists f0 = true)
  \/ (from_write e /\ exists k, wf p k <> None)
  \/ (from_compute e /\ exists i a, cf p i a = true).
Proof.
  intros sv p m xs f0 c0 e s' Hm H.
  destruct (fs_exists f0) eqn:X.
  - rewrite no_overwrite in H by auto. inversion H; subst. auto.
  - destruct f0; try discriminate. apply save_spec in H.
    destruct H as [_ [_ [_ [[H _]|[e' [H [[J|[J|[_ J]]] _]]]]]]]; try discriminate; inversion H; subst; auto. lia.
Qed.

(* success is reported only for a complete output *)
Theorem ok_implies_complete : forall sv p m xs c0 s',
  save A render sv p m xs (init_st FAbsent c0 false) = (Ok tt, s') ->
  s_fs s' = match xs with [x] => FFile (render x) | _ => complete_dir xs end.
Proof.
  intros sv p m xs c0 s' H. apply save_spec in H.
  destruct H as [_ [_ [_ [[_ H]|[e [H _]]]]]]; [exact H|discriminate].
Qed.

(* a partition whose computation fails on every attempt *)
Lemma attempts_cf_all : forall p act i rem a s,
  1 <= rem -> (forall a', a <= a' < a + rem -> cf p i a' = true) ->
  exists e, attempts p act i rem a s = (Err e, s) /\ from_compute e.
Proof.
  induction rem as [|rem IH]; intros a s Hr Hc; [lia|]. simpl.
  rewrite Hc by lia. destruct (catchable (compute_exn p i a)).
  - destruct rem; [eexists; split; [reflexivity|apply from_compute_exn]|].
    apply IH; [lia|]. intros a' Ha. apply Hc. lia.
  - eexists; split; [reflexivity|apply from_compute_exn].
Qed.

Lemma tasks_cf_err : forall p act m xs off k s r s',
  1 <= m -> k < length xs -> (forall a, 1 <= a <= m -> cf p (off + k) a = true) ->
  tasks A p act m off xs s = (r, s') -> exists e, r = Err e.
Proof.
  induction xs as [|x xs IH]; intros off k s r s' Hm Hk Hc H; simpl in *; [lia|].
  destruct (attempts p (act off x) off m 1 s) as [[u|e] s1] eqn:E.
  - destruct k.
    + rewrite Nat.add_0_r in Hc. destruct (attempts_cf_all p (act off x) off m 1 s) as [e [E2 _]]; auto.
      { intros a' Ha. apply Hc. lia. }
      rewrite E2 in E. discriminate.
    + eapply (IH (S off) k); eauto; [lia|]. intros a Ha. replace (S off + k) with (off + S k) by lia. auto.
  - rewrite task_boundary_gen in H. inversion H; subst. eauto.
Qed.

Lemma run_job_err : forall (body : st -> res unit * st) s r s',
  s_locked s = false -> run_job body s = (r, s') ->
  (forall r1 s1, body (set_locked true s) = (r1, s1) -> exists e, r1 = Err e) -> exists e, r = Err e.
Proof.
  intros body s r s' L H Hb. apply run_job_spec in H; auto. destruct H as [s1 [B _]]. eauto.
Qed.

Lemma job_err_origin : forall p m e, 1 <= m -> job_err p m e -> from_compute e \/ from_write e.
Proof. intros p m e Hm [[H _]|[[H _]|[_ H]]]; auto. lia. Qed.

Theorem compute_failure_surfaces : forall sv p m xs c0 i r s',
  1 <= m -> i < length xs -> (forall a, 1 <= a <= m -> cf p i a = true) ->
  save A render sv p m xs (init_st FAbsent c0 false) = (r, s') ->
  exists e, r = Err e /\ (from_compute e \/ from_write e) /\ child (s_fs s') NMarker = None.
Proof.
  intros sv p m xs c0 i r s' Hm Hi Hc H.
  unfold save in H. rewrite steps_of_canonical in H.
  destruct xs as [|x [|y xs]]; [simpl in Hi; lia| |].
  - assert (H2 : match run_job (tasks A p (noop_act A) m 0 [x]) (init_st FAbsent c0 false) with
             | (Ok _, s1) => dump p TRoot (render x) s1
             | (Err e, s1) => (Err e, s1) end = (r, s')) by exact H.
    destruct (run_job (tasks A p (noop_act A) m 0 [x]) (init_st FAbsent c0 false)) as [r1 s1] eqn:J.
    apply run_job_spec in J; [|reflexivity]. destruct J as [s1' [B ->]].
    assert (Eb : exists e, r1 = Err e) by (eapply (tasks_cf_err _ _ _ _ 0 i); eauto).
    destruct Eb as [e ->]. inversion H2; subst.
    apply tasks_noop in B. destruct B as [-> [B|[e' [B J]]]]; [discriminate|]. inversion B; subst e'.
    exists e. split; auto. split; [eapply job_err_origin; eauto|reflexivity].
  - assert (H2 : match run_job (tasks A p (write_act A render p) m 0 (x :: y :: xs)) (init_st FAbsent c0 false) with
             | (Ok _, s1) => match dump p (TChild NMarker) [] s1 with
                             | (Ok _, s2) => (Ok tt, s2) | (Err e, s2) => (Err e, s2) end
             | (Err e, s1) => (Err e, s1) end = (r, s')) by exact H.
    destruct (run_job (tasks A p (write_act A render p) m 0 (x :: y :: xs)) (init_st FAbsent c0 false)) as [r1 s1] eqn:J.
    apply run_job_spec in J; [|reflexivity]. destruct J as [s1' [B ->]].
    assert (Eb : exists e, r1 = Err e) by (eapply (tasks_cf_err _ _ _ _ 0 i); eauto).
    destruct Eb as [e ->]. inversion H2; subst.
    change 0 with (length (@nil A)) in B. apply tasks_write in B; [|left; auto].
    destruct B as [_ [[B _]|[e' [B [J [d [rest [_ [_ [tl [Ht Hj]]]]]]]]]]]; [discriminate|]. inversion B; subst e'.
    exists e. split; auto. split; [eapply job_err_origin; eauto|].
    simpl. eapply job_fs_no_marker; eauto.
Qed.

(* a job never lets a bare StopIteration out: what Context.runJob raises is never taken for "end of iteration" *)
Lemma tasks_never_stop : forall (B : Type) p (act : nat -> B -> st -> res unit * st) m ys i s e s',
  tasks B p act m i ys s = (Err e, s') -> is_stop e = false.
Proof.
  induction ys as [|y ys IH]; intros i s e s' H; simpl in H; [discriminate|].
  destruct (attempts p (act i y) i m 1 s) as [[u|e1] s1].
  - eapply IH; eauto.
  - rewrite task_boundary_gen in H. inversion H; subst. apply in_generator_not_stop.
Qed.

(* ---------- the context remains usable ---------- *)

Lemma tasks_noop_ok : forall (B : Type) p m (ys : list B) i s,
  1 <= m -> (forall j a, cf p j a = false) -> tasks B p (noop_act B) m i ys s = (Ok tt, s).
Proof.
  induction ys as [|y ys IH]; intros i s Hm Hc; simpl; auto.
  destruct m; [lia|]. simpl. rewrite Hc. unfold noop_act at 1. apply IH; auto.
Qed.

Theorem context_usable_after_save : forall sv p m xs f0 c0 r s',
  save A render sv p m xs (init_st f0 c0 false) = (r, s') ->
  s_locked s' = false /\
  forall (B : Type) p2 m2 (ys : list B), 1 <= m2 -> (forall j a, cf p2 j a = false) ->
    collect_job B p2 m2 ys s' = (Ok tt, s').
Proof.
  intros sv p m xs f0 c0 r s' H.
  assert (L : s_locked s' = false).
  { destruct (fs_exists f0) eqn:X.
    - rewrite no_overwrite in H by auto. inversion H; subst. reflexivity.
    - destruct f0; try discriminate. apply save_spec in H. apply H. }
  split; auto. intros B p2 m2 ys Hm Hc. unfold collect_job, run_job. rewrite L.
  rewrite tasks_noop_ok; auto. f_equal. destruct s'; simpl in *. subst. reflexivity.
Qed.

(* ---------- a write that fails on every attempt ---------- *)

Lemma tasks_app : forall p act m xs ys i s,
  tasks A p act m i (xs ++ ys) s =
  match tasks A p act m i xs s with
  | (Ok _, s1) => tasks A p act m (i + length xs) ys s1
  | (Err e, s1) => (Err e, s1)
  end.
Proof.
  induction xs as [|x xs IH]; intros ys i s; simpl.
  - rewrite Nat.add_0_r. reflexivity.
  - destruct (attempts p (act i x) i m 1 s) as [[u|e] s1]; [|rewrite task_boundary_gen; reflexivity].
    rewrite IH. replace (S i + length xs) with (i + S (length xs)) by lia. reflexivity.
Qed.

Lemma attempts_ok_first : forall p x done rem a s,
  TInv done s -> cf p (length done) a = false -> wf p (s_calls s) = None ->
  exists s', attempts p (write_act A render p (length done) x) (length done) (S rem) a s = (Ok tt, s')
             /\ s_calls s' = S (s_calls s) /\ s_locked s' = s_locked s /\ job_fs (done ++ [x]) [] (s_fs s').
Proof.
  intros p x done rem a s Hi Hc Hw. simpl. rewrite Hc. unfold write_act at 1.
  destruct (dump p (TChild (NPart (length done))) (render x) s) as [r1 s1] eqn:D.
  destruct (dump_part _ _ _ _ _ _ Hi D) as [[L _] [C [[-> [_ Hj]]|[e1 [_ [_ [Wn _]]]]]]]; [|contradiction].
  exists s1. auto.
Qed.

Lemma tasks_prefix_ok : forall p m todo done s,
  1 <= m -> (forall i a, length done <= i < length done + length todo -> cf p i a = false) -> job_fs done [] (s_fs s) ->
  (forall k, s_calls s <= k < s_calls s + length todo -> wf p k = None) ->
  exists s', tasks A p (write_act A render p) m (length done) todo s = (Ok tt, s')
             /\ s_calls s' = s_calls s + length todo /\ s_locked s' = s_locked s
             /\ job_fs (done ++ todo) [] (s_fs s').
Proof.
  induction todo as [|x todo IH]; intros done s Hm Hc Hj Hw; simpl.
  - exists s. rewrite app_nil_r. repeat split; auto.
  - destruct m; [lia|].
    assert (Hi : TInv done s) by (exists []; split; [left; auto|auto]).
    destruct (attempts_ok_first p x done m 1 s Hi) as [s1 [E [C1 [L1 Hj1]]]].
    { apply Hc. simpl. lia. }
    { apply Hw. simpl. lia. }
    rewrite E.
    replace (S (length done)) with (length (done ++ [x])) by (rewrite app_length; simpl; lia).
    destruct (IH (done ++ [x]) s1) as [s2 [E2 [C2 [L2 Hj2]]]]; auto.
    { intros i a Hi2. apply Hc. rewrite app_length in Hi2. simpl in *. lia. }
    { intros k Hk. apply Hw. simpl. lia. }
    exists s2. rewrite <- app_assoc in Hj2. simpl in Hj2. repeat split; auto; simpl; try lia. congruence.
Qed.

Lemma attempts_all_wfail : forall p x done rem a s r s',
  TInv done s -> (forall a', cf p (length done) a' = false) -> 1 <= rem ->
  (forall k, s_calls s <= k < s_calls s + rem -> wf p k <> None) ->
  attempts p (write_act A render p (length done) x) (length done) rem a s = (r, s') ->
  (exists e, r = Err e /\ from_write e) /\ s_calls s < s_calls s' <= s_calls s + rem.
Proof.
  induction rem as [|rem IH]; intros a s r s' Hi Hc Hr Hw H; [lia|]. simpl in H.
  rewrite Hc in H. unfold write_act in H at 1.
  destruct (dump p (TChild (NPart (length done))) (render x) s) as [r1 s1] eqn:D.
  destruct (dump_part _ _ _ _ _ _ Hi D) as [_ [C [[_ [Wn _]]|[e1 [-> [Fw [_ Hi1]]]]]]].
  - exfalso. apply (Hw (s_calls s)); [lia|auto].
  - destruct (catchable e1).
    + destruct rem.
      * inversion H; subst. split; [eauto|lia].
      * apply IH in H; auto; [|lia|].
        -- destruct H as [E C2]. split; auto. lia.
        -- intros k Hk. apply Hw. lia.
    + inversion H; subst. split; [eauto|lia].
Qed.

Lemma split_at : forall (xs : list A) k, k < length xs ->
  exists d x rest, xs = d ++ x :: rest /\ length d = k.
Proof.
  induction xs as [|y xs IH]; intros k Hk; simpl in Hk; [lia|].
  destruct k.
  - exists [], y, xs. auto.
  - destruct (IH k) as [d [x [rest [-> L]]]]; [lia|]. exists (y :: d), x, rest. simpl. auto.
Qed.

Lemma run_canonical_multi : forall p m xs s, (forall x, xs <> [x]) ->
  run_steps A render p m xs canonical_steps s =
  if fs_exists (s_fs s) then (Err EExists, s) else
  match run_job (tasks A p (write_act A render p) m 0 xs) s with
  | (Ok _, s1) => match dump p (TChild NMarker) [] s1 with
                  | (Ok _, s2) => (Ok tt, s2) | (Err e, s2) => (Err e, s2) end
  | (Err e, s1) => (Err e, s1) end.
Proof.
  intros p m xs s Hn. destruct xs as [|x [|y xs]]; [| exfalso; eapply Hn; reflexivity |]; reflexivity.
Qed.

Theorem write_failure_surfaces_part : forall sv p m xs c0 k r s',
  1 <= m -> length xs <> 1 -> k < length xs -> (forall i a, cf p i a = false) ->
  (forall k', c0 <= k' < c0 + k -> wf p k' = None) ->
  (forall k', c0 + k <= k' < c0 + k + m -> wf p k' <> None) ->
  save A render sv p m xs (init_st FAbsent c0 false) = (r, s') ->
  (exists e, r = Err e /\ from_write e) /\ c0 + k < s_calls s' <= c0 + k + m /\ child (s_fs s') NMarker = None.
Proof.
  intros sv p m xs c0 k r s' Hm Hn Hk Hc Hok Hbad H.
  assert (Hn' : forall x, xs <> [x]) by (intros x E; subst; apply Hn; reflexivity).
  unfold save in H. rewrite steps_of_canonical, run_canonical_multi in H by auto. simpl fs_exists in H. cbv iota in H.
  destruct (split_at xs k Hk) as [d [x [rest [-> Ld]]]].
  destruct (run_job (tasks A p (write_act A render p) m 0 (d ++ x :: rest)) (init_st FAbsent c0 false)) as [r1 s1] eqn:J.
  apply run_job_spec in J; [|reflexivity]. destruct J as [s1' [B ->]].
  rewrite tasks_app in B.
  destruct (tasks_prefix_ok p m d [] (set_locked true (init_st FAbsent c0 false))) as [s2 [E2 [C2 [L2 Hj2]]]]; auto.
  { left; auto. }
  { simpl. intros k' Hk'. apply Hok. lia. }
  simpl in E2, C2, Hj2. rewrite E2 in B. simpl in B.
  assert (T : TInv d s2) by (exists []; split; [left; auto|auto]).
  destruct (attempts p (write_act A render p (length d) x) (length d) m 1 s2) as [r3 s3] eqn:E3.
  assert (E3' := E3).
  apply attempts_all_wfail in E3; auto.
  - destruct E3 as [[e3 [-> Fw]] C3]. rewrite task_boundary_gen in B. inversion B; subst. inversion H; subst. simpl.
    split; [eexists; split; [reflexivity|apply from_write_gen; auto]|]. split; [lia|].
    apply attempts_write in E3'; auto.
    destruct E3' as [_ [[Q _]|[e' [_ [_ [tl [Ht Hj]]]]]]]; [discriminate|].
    eapply job_fs_no_marker; eauto.
  - simpl. intros k' Hk'. apply Hbad. lia.
Qed.

Theorem write_failure_surfaces_marker : forall sv p m xs c0 r s',
  1 <= m -> length xs <> 1 -> (forall i a, cf p i a = false) ->
  (forall k', c0 <= k' < c0 + length xs -> wf p k' = None) ->
  wf p (c0 + length xs) <> None ->
  save A render sv p m xs (init_st FAbsent c0 false) = (r, s') ->
  (exists e, r = Err e /\ from_write e) /\ s_calls s' = c0 + length xs + 1 /\
  forall i x, nth_error xs i = Some x -> child (s_fs s') (NPart i) = Some (render x).
Proof.
  intros sv p m xs c0 r s' Hm Hn Hc Hok Hbad H.
  assert (Hn' : forall x, xs <> [x]) by (intros x E; subst; apply Hn; reflexivity).
  unfold save in H. rewrite steps_of_canonical, run_canonical_multi in H by auto. simpl fs_exists in H. cbv iota in H.
  destruct (run_job (tasks A p (write_act A render p) m 0 xs) (init_st FAbsent c0 false)) as [r1 s1] eqn:J.
  apply run_job_spec in J; [|reflexivity]. destruct J as [s1' [B ->]].
  destruct (tasks_prefix_ok p m xs [] (set_locked true (init_st FAbsent c0 false))) as [s2 [E2 [C2 [L2 Hj2]]]]; auto.
  { left; auto. }
  simpl in E2, C2, Hj2. rewrite E2 in B. inversion B; subst.
  destruct (dump p (TChild NMarker) [] (set_locked false s1')) as [r2 s2] eqn:D.
  apply dump_marker with (xs := xs) in D; [|exact Hj2].
  destruct D as [_ [C3 [_ [[_ [W _]]|[e2 [-> [Fw R]]]]]]].
  - simpl in W. rewrite C2 in W. contradiction.
  - inversion H; subst. split; [eauto|]. split; [simpl in C3; lia|].
    intros i x Hx.
    assert (Q : forall ch, s_fs s' = FDir (part_files 0 xs ++ ch) -> child (s_fs s') (NPart i) = Some (render x)).
    { intros ch ->. simpl. apply lookup_app_some. apply (lookup_part_in xs 0 i x Hx). }
    destruct R as [[_ [[[F0 [X0 _]]|F1] _]]|[Fs _]].
    + subst xs. destruct i; discriminate.
    + apply (Q []). exact F1.
    + apply (Q [(NMarker, [])]). exact Fs.
Qed.

Theorem write_failure_surfaces_single : forall sv p m x c0 r s',
  1 <= m -> (forall a, cf p 0 a = false) -> wf p c0 <> None ->
  save A render sv p m [x] (init_st FAbsent c0 false) = (r, s') ->
  (exists e, r = Err e /\ from_write e) /\ s_calls s' = S c0.
Proof.
  intros sv p m x c0 r s' Hm Hc Hw H.
  unfold save in H. rewrite steps_of_canonical in H.
  assert (H2 : match run_job (tasks A p (noop_act A) m 0 [x]) (init_st FAbsent c0 false) with
               | (Ok _, s1) => dump p TRoot (render x) s1
               | (Err e, s1) => (Err e, s1) end = (r, s')) by exact H.
  clear H. unfold run_job in H2. simpl s_locked in H2. cbv iota in H2.
  destruct m; [lia|]. simpl tasks in H2. rewrite Hc in H2. unfold noop_act in H2 at 1.
  unfold dump in H2. simpl in H2.
  assert (Fg : from_write (in_generator (EWrite (wc p c0)))) by (apply from_write_gen; left; eauto).
  assert (Fd : from_write (EWrite (wc p c0))) by (left; eauto).
  destruct (wf p c0) as [[| |j]|]; [| | |contradiction]; inversion H2; subst; eauto.
Qed.

(* ---------- StopIteration: what the real code does with it today ---------- *)

Lemma dump_not_compute : forall p t c s e s', dump p t c s = (Err e, s') -> forall k, e <> ECompute k.
Proof.
  intros p t c s e s' H k. unfold dump in H.
  destruct (wf p (s_calls s)) as [[| |j]|].
  - inversion H; subst. discriminate.
  - inversion H; subst. discriminate.
  - destruct (write_to t (firstn j c) (s_fs s)) as [f'|e0] eqn:W.
    + inversion H; subst. destruct (wc p (s_calls s)); discriminate.
    + inversion H; subst. destruct t, (s_fs s); simpl in W; inversion W; discriminate.
  - destruct (write_to t c (s_fs s)) as [f'|e0] eqn:W.
    + inversion H.
    + inversion H; subst. destruct t, (s_fs s); simpl in W; inversion W; discriminate.
Qed.

Lemma run_job_never_stop : forall (B : Type) p (act : nat -> B -> st -> res unit * st) m ys s e s',
  run_job (tasks B p act m 0 ys) s = (Err e, s') -> is_stop e = false.
Proof.
  intros B p act m ys s e s' H. unfold run_job in H. destruct (s_locked s).
  - inversion H; subst. reflexivity.
  - destruct (tasks B p act m 0 ys (set_locked true s)) as [[u|e1] s1] eqn:T; inversion H; subst.
    eapply tasks_never_stop; eauto.
Qed.

(* a StopIteration raised by a partition computation never reaches the caller as StopIteration (it would be
   taken for the end of an iteration): it crosses the generator of _runJob_local and arrives as RuntimeError *)
Theorem compute_stop_never_bare : forall sv p m xs f0 c0 lk e s',
  save A render sv p m xs (init_st f0 c0 lk) = (Err e, s') -> e <> ECompute KStop.
Proof.
  intros sv p m xs f0 c0 lk e s' H. unfold save in H. rewrite steps_of_canonical in H.
  assert (NS : forall e0, is_stop e0 = false -> e0 <> ECompute KStop) by (intros e0 Hs ->; discriminate).
  destruct (fs_exists f0) eqn:X.
  { rewrite no_overwrite_canonical in H by auto. inversion H; subst. discriminate. }
  destruct xs as [|x [|y xs]].
  - rewrite run_canonical_multi in H by (intros x; discriminate). simpl s_fs in H. rewrite X in H.
    destruct (run_job (tasks A p (write_act A render p) m 0 []) (init_st f0 c0 lk)) as [[u|e1] s1] eqn:J.
    + destruct (dump p (TChild NMarker) [] s1) as [[u2|e2] s2] eqn:D; inversion H; subst. eapply dump_not_compute; eauto.
    + inversion H; subst. apply NS. eapply run_job_never_stop; eauto.
  - assert (H2 : (if fs_exists f0 then (Err EExists, init_st f0 c0 lk) else
               match run_job (tasks A p (noop_act A) m 0 [x]) (init_st f0 c0 lk) with
               | (Ok _, s1) => dump p TRoot (render x) s1
               | (Err e, s1) => (Err e, s1) end) = (Err e, s')) by exact H.
    rewrite X in H2.
    destruct (run_job (tasks A p (noop_act A) m 0 [x]) (init_st f0 c0 lk)) as [[u|e1] s1] eqn:J.
    + eapply dump_not_compute; eauto.
    + inversion H2; subst. apply NS. eapply run_job_never_stop; eauto.
  - rewrite run_canonical_multi in H by (intros x'; discriminate). simpl s_fs in H. rewrite X in H.
    destruct (run_job (tasks A p (write_act A render p) m 0 (x :: y :: xs)) (init_st f0 c0 lk)) as [[u|e1] s1] eqn:J.
    + destruct (dump p (TChild NMarker) [] s1) as [[u2|e2] s2] eqn:D; inversion H; subst. eapply dump_not_compute; eauto.
    + inversion H; subst. apply NS. eapply run_job_never_stop; eauto.
Qed.

Lemma attempts_stop_all : forall p act i rem a s,
  1 <= rem -> (forall a', a <= a' < a + rem -> cf p i a' = true /\ cc p i a' = KStop) ->
  exists e, attempts p act i rem a s = (Err e, s) /\ in_generator e = ERuntime.
Proof.
  induction rem as [|rem IH]; intros a s Hr Hc; [lia|]. simpl.
  destruct (Hc a ltac:(lia)) as [C K]. rewrite C.
  assert (X : catchable (compute_exn p i a) = true /\ in_generator (compute_exn p i a) = ERuntime).
  { unfold compute_exn. rewrite K. destruct (cl p i a); split; reflexivity. }
  destruct X as [X1 X2]. rewrite X1.
  destruct rem; [eauto|]. apply IH; [lia|]. intros a' Ha. apply Hc. lia.
Qed.

(* crash plan "partition i raises StopIteration on every attempt" (eagerly, lazily, or by next() on an empty
   iterator), nothing else failing: the caller gets RuntimeError, partitions before i are written, no marker *)
Theorem compute_stop_surfaces_as_runtime_error : forall sv p m xs c0 i r s',
  1 <= m -> i < length xs ->
  (forall a, 1 <= a <= m -> cf p i a = true /\ cc p i a = KStop) ->
  (forall i' a, i' <> i -> cf p i' a = false) -> (forall k, wf p k = None) ->
  save A render sv p m xs (init_st FAbsent c0 false) = (r, s') ->
  r = Err ERuntime /\ s_calls s' = c0 + (if length xs =? 1 then 0 else i) /\ child (s_fs s') NMarker = None.
Proof.
  intros sv p m xs c0 i r s' Hm Hi Hs Hother Hw H.
  unfold save in H. rewrite steps_of_canonical in H.
  destruct xs as [|x [|y xs]]; [simpl in Hi; lia| |].
  - assert (i = 0) by (simpl in Hi; lia). subst i.
    assert (H2 : match run_job (tasks A p (noop_act A) m 0 [x]) (init_st FAbsent c0 false) with
             | (Ok _, s1) => dump p TRoot (render x) s1
             | (Err e, s1) => (Err e, s1) end = (r, s')) by exact H.
    clear H. unfold run_job in H2. simpl s_locked in H2. cbv iota in H2. simpl tasks in H2.
    destruct (attempts_stop_all p (noop_act A 0 x) 0 m 1 (set_locked true (init_st FAbsent c0 false))) as [e [E G]]; auto.
    { intros a' Ha. apply Hs. lia. }
    rewrite E, task_boundary_gen, G in H2. inversion H2; subst. simpl. repeat split; auto.
  - set (ys := x :: y :: xs) in *.
    rewrite run_canonical_multi in H by (intros x'; discriminate). simpl fs_exists in H. cbv iota in H.
    destruct (split_at ys i Hi) as [d [z [rest [Eq Ld]]]]. rewrite Eq in H.
    destruct (run_job (tasks A p (write_act A render p) m 0 (d ++ z :: rest)) (init_st FAbsent c0 false)) as [r1 s1] eqn:J.
    apply run_job_spec in J; [|reflexivity]. destruct J as [s1' [B ->]].
    rewrite tasks_app in B.
    destruct (tasks_prefix_ok p m d [] (set_locked true (init_st FAbsent c0 false))) as [s2 [E2 [C2 [L2 Hj2]]]]; auto.
    { intros i' a Hi'. apply Hother. simpl in Hi'. lia. }
    { left; auto. }
    simpl in E2, C2, Hj2. rewrite E2 in B. simpl in B.
    destruct (attempts_stop_all p (write_act A render p (length d) z) (length d) m 1 s2) as [e [E G]]; auto.
    { intros a' Ha. rewrite Ld. apply Hs. lia. }
    rewrite E, task_boundary_gen, G in B. inversion B; subst. inversion H; subst. simpl.
    split; auto. split; [lia|].
    eapply job_fs_no_marker; [|exact Hj2]. left; reflexivity.
Qed.

(* ---------- reading a marked directory back ---------- *)

Lemma filter_part_files : forall xs i, filter is_part (part_files i xs) = part_files i xs.
Proof. induction xs as [|x xs IH]; intros i; simpl; [reflexivity|]. rewrite IH. reflexivity. Qed.

Lemma sort_part_files : forall xs i, sort_entries (part_files i xs) = part_files i xs.
Proof.
  induction xs as [|x xs IH]; intros i; [reflexivity|].
  change (sort_entries (part_files i (x :: xs))) with (insert_entry (NPart i, render x) (sort_entries (part_files (S i) xs))).
  rewrite IH. destruct xs as [|y xs]; simpl; [reflexivity|].
  replace (i <=? S i) with true by (symmetry; apply Nat.leb_le; lia). reflexivity.
Qed.

Section Read.
Variable B : Type.
Variable items : A -> list B.
Variable decode : bytes -> res (list B).
Hypothesis decode_render : forall x, decode (render x) = Ok (items x).

Lemma read_part_files : forall xs i, read_files B decode (part_files i xs) = Ok (concat (map items xs)).
Proof.
  induction xs as [|x xs IH]; intros i; simpl; [reflexivity|].
  rewrite decode_render, IH. reflexivity.
Qed.

Lemma read_complete : forall xs, read_target B decode (complete_dir xs) = Ok (concat (map items xs)).
Proof.
  intros xs. unfold complete_dir, read_target. rewrite filter_app, filter_part_files. simpl.
  rewrite app_nil_r, sort_part_files. apply read_part_files.
Qed.

Theorem read_marked_dir : forall sv p m xs c0 r s',
  save A render sv p m xs (init_st FAbsent c0 false) = (r, s') ->
  forall f, In f (s_hist s' ++ [s_fs s']) -> child f NMarker <> None ->
  read_target B decode f = Ok (concat (map items xs)).
Proof.
  intros sv p m xs c0 r s' H f Hin Hm.
  destruct (marker_implies_complete _ _ _ _ _ _ _ H f Hin Hm) as [-> _]. apply read_complete.
Qed.
End Read.

End S.

(* ---------- the text saver's rendering is inverted by the text reader's line splitting ---------- *)

Lemma split_lines_line : forall l cur rest, ~ In nl l ->
  split_lines cur (l ++ nl :: rest) = (rev cur ++ l) :: split_lines [] rest.
Proof.
  induction l as [|c l IH]; intros cur rest Hn; simpl.
  - rewrite app_nil_r. reflexivity.
  - destruct (N.eqb c nl) eqn:E.
    + apply N.eqb_eq in E. exfalso. apply Hn. left. auto.
    + rewrite IH by (intros Hin; apply Hn; right; auto). simpl. rewrite <- app_assoc. reflexivity.
Qed.

Lemma decode_render_text : forall ls, Forall (fun l => ~ In nl l) ls -> decode_text (render_text ls) = Ok ls.
Proof.
  intros ls H. unfold decode_text. f_equal. induction H as [|l ls Hl _ IH]; [reflexivity|].
  unfold render_text. simpl. rewrite <- app_assoc. simpl.
  rewrite split_lines_line by auto. simpl. f_equal. exact IH.
Qed.

(* read_target with a decoder that is only known to invert render on the partitions actually saved *)
Lemma read_part_files_on : forall (A B : Type) (render : A -> bytes) (items : A -> list B) decode xs i,
  Forall (fun x => decode (render x) = Ok (items x)) xs ->
  read_files B decode (part_files A render i xs) = Ok (concat (map items xs)).
Proof.
  intros A B render items decode xs. induction xs as [|x xs IH]; intros i H; simpl; [reflexivity|].
  inversion H; subst. rewrite H2, IH by auto. reflexivity.
Qed.

Theorem read_marked_dir_text : forall p m (xs : list (list bytes)) c0 r s',
  Forall (Forall (fun l => ~ In nl l)) xs ->
  save (list bytes) render_text SvText p m xs (init_st FAbsent c0 false) = (r, s') ->
  forall f, In f (s_hist s' ++ [s_fs s']) -> child f NMarker <> None ->
  read_target bytes decode_text f = Ok (concat xs).
Proof.
  intros p m xs c0 r s' Hl H f Hin Hm.
  destruct (marker_implies_complete _ _ _ _ _ _ _ _ _ H f Hin Hm) as [-> _].
  unfold complete_dir, read_target. rewrite filter_app, filter_part_files. simpl.
  rewrite app_nil_r, sort_part_files.
  rewrite (read_part_files_on _ _ _ (fun x => x)).
  - rewrite map_id. reflexivity.
  - eapply Forall_impl; [|exact Hl]. intros a Ha. apply decode_render_text. exact Ha.
Qed.
