(* Lemmas about Model/Save.v (C09).  The savers' regenerated step lists are linked to the order the proofs
   are written for by [text_steps_link] / [pickle_steps_link] (reflexivity: they fail when the source order
   changes); [lock_release_link] does the same for the place where Context.runJob releases the lock. *)
From Coq Require Import List Bool Arith NArith Lia.
Require Import PV.Gen.SaveOrder PV.Model.Save.
Import ListNotations.

Definition canonical_steps : list step := [SCheckExists; SSingle; SRunJob; SMarker].
Lemma text_steps_link : text_steps = canonical_steps. Proof. reflexivity. Qed.
Lemma pickle_steps_link : pickle_steps = canonical_steps. Proof. reflexivity. Qed.
Lemma lock_release_link : runjob_lock_release = ReleaseFinally. Proof. reflexivity. Qed.
Lemma lock_after_error_false : lock_after_error = false.
Proof. unfold lock_after_error. rewrite lock_release_link. reflexivity. Qed.

Lemma name_eqb_refl : forall n, name_eqb n n = true.
Proof. destruct n; simpl; auto using Nat.eqb_refl. Qed.
Lemma name_eqb_eq : forall a b, name_eqb a b = true -> a = b.
Proof. destruct a, b; simpl; intros H; try discriminate; auto; apply Nat.eqb_eq in H; subst; auto. Qed.

Lemma lookup_app_none : forall nm l r, lookup nm l = None -> lookup nm (l ++ r) = lookup nm r.
Proof.
  induction l as [|[n c] l IH]; simpl; intros r H; auto.
  destruct (name_eqb nm n); [discriminate|auto].
Qed.
Lemma lookup_app_some : forall nm l r c, lookup nm l = Some c -> lookup nm (l ++ r) = Some c.
Proof.
  induction l as [|[n c0] l IH]; simpl; intros r c H; [discriminate|].
  destruct (name_eqb nm n); auto.
Qed.
Lemma set_child_absent : forall nm c l, lookup nm l = None -> set_child nm c l = l ++ [(nm, c)].
Proof.
  induction l as [|[n c0] l IH]; simpl; intros H; auto.
  destruct (name_eqb nm n); [discriminate|]. rewrite IH; auto.
Qed.
Lemma set_child_last : forall nm c c0 l, lookup nm l = None -> set_child nm c (l ++ [(nm, c0)]) = l ++ [(nm, c)].
Proof.
  induction l as [|[n c1] l IH]; simpl; intros H.
  - rewrite name_eqb_refl. reflexivity.
  - destruct (name_eqb nm n); [discriminate|]. rewrite IH; auto.
Qed.

Section S.
Variable A : Type.
Variable render : A -> bytes.
Notation part_files := (part_files A render).
Notation complete_dir := (complete_dir A render).

Lemma part_files_app : forall xs ys i,
  part_files i (xs ++ ys) = part_files i xs ++ part_files (i + length xs) ys.
Proof.
  induction xs as [|x xs IH]; simpl; intros ys i.
  - rewrite Nat.add_0_r. reflexivity.
  - rewrite IH. replace (S i + length xs) with (i + S (length xs)) by lia. reflexivity.
Qed.
Lemma lookup_part_out : forall xs i k, k < i \/ i + length xs <= k -> lookup (NPart k) (part_files i xs) = None.
Proof.
  induction xs as [|x xs IH]; simpl; intros i k H; auto.
  destruct (Nat.eqb k i) eqn:E.
  - apply Nat.eqb_eq in E. lia.
  - apply IH. lia.
Qed.
Lemma lookup_part_marker : forall xs i, lookup NMarker (part_files i xs) = None.
Proof. induction xs; simpl; auto. Qed.
Lemma lookup_part_in : forall xs i k x, nth_error xs k = Some x -> lookup (NPart (i + k)) (part_files i xs) = Some (render x).
Proof.
  induction xs as [|y xs IH]; intros i k x H.
  - destruct k; discriminate.
  - destruct k; simpl in *.
    + inversion H; subst. rewrite Nat.add_0_r, Nat.eqb_refl. reflexivity.
    + destruct (Nat.eqb (i + S k) i) eqn:E. { apply Nat.eqb_eq in E. lia. }
      replace (i + S k) with (S i + k) by lia. apply IH; auto.
Qed.

Definition tail_ok (i : nat) (tail : list (name * bytes)) : Prop := tail = [] \/ exists c, tail = [(NPart i, c)].
Definition job_fs (done : list A) (tail : list (name * bytes)) (f : fs) : Prop :=
  (f = FAbsent /\ done = [] /\ tail = []) \/ f = FDir (part_files 0 done ++ tail).
Definition no_marker (f : fs) : Prop := child f NMarker = None.

Lemma job_fs_no_marker : forall done tail f, tail_ok (length done) tail -> job_fs done tail f -> no_marker f.
Proof.
  intros done tail f Ht [[-> _]| ->]; unfold no_marker; simpl; auto.
  rewrite lookup_app_none by apply lookup_part_marker.
  destruct Ht as [->|[c ->]]; simpl; auto.
Qed.

Lemma job_fs_snoc : forall done x f,
  job_fs done [(NPart (length done), render x)] f -> job_fs (done ++ [x]) [] f.
Proof.
  intros done x f [[_ [_ H]]| ->]; [discriminate|]. right.
  rewrite part_files_app, app_nil_r. simpl. reflexivity.
Qed.

Lemma write_part : forall done tail f c,
  tail_ok (length done) tail -> job_fs done tail f ->
  exists f', write_to (TChild (NPart (length done))) c f = Ok f' /\ job_fs done [(NPart (length done), c)] f'.
Proof.
  intros done tail f c Ht [[-> [-> ->]]| ->]; simpl.
  - eexists; split; eauto. right. reflexivity.
  - eexists; split; eauto. right. f_equal.
    assert (Hn : lookup (NPart (length done)) (part_files 0 done) = None) by (apply lookup_part_out; lia).
    destruct Ht as [->|[c0 ->]].
    + rewrite app_nil_r. apply set_child_absent; auto.
    + apply set_child_last; auto.
Qed.

Lemma mkdir_part : forall done tail f nm, job_fs done tail f -> job_fs done tail (mkdir_for (TChild nm) f).
Proof.
  intros done tail f nm [[-> [-> ->]]| ->]; simpl.
  - right. reflexivity.
  - right. reflexivity.
Qed.

(* monotone growth of the observable state *)
Definition grow (P : fs -> Prop) (s s' : st) : Prop :=
  s_locked s' = s_locked s /\ s_calls s <= s_calls s' /\ exists l, s_hist s' = s_hist s ++ l /\ Forall P l.
Lemma grow_refl : forall P s, grow P s s.
Proof. intros. repeat split; auto. exists []. rewrite app_nil_r. auto. Qed.
Lemma grow_trans : forall P a b c, grow P a b -> grow P b c -> grow P a c.
Proof.
  intros P a b c [L1 [C1 [l1 [H1 F1]]]] [L2 [C2 [l2 [H2 F2]]]]. repeat split; try congruence; try lia.
  exists (l1 ++ l2). rewrite H2, H1, app_assoc. split; auto. apply Forall_app; auto.
Qed.

Definition TInv (done : list A) (s : st) : Prop :=
  exists tail, tail_ok (length done) tail /\ job_fs done tail (s_fs s).

Lemma dump_part : forall p done x s r s',
  TInv done s ->
  dump p (TChild (NPart (length done))) (render x) s = (r, s') ->
  grow no_marker s s' /\ s_calls s' = S (s_calls s) /\
  ((r = Ok tt /\ wf p (s_calls s) = None /\ job_fs (done ++ [x]) [] (s_fs s'))
   \/ (r = Err EWrite /\ wf p (s_calls s) <> None /\ TInv done s')).
Proof.
  intros p done x s r s' [tail [Ht Hj]] H. unfold dump in H.
  assert (G : forall f' r0, (exists t', tail_ok (length done) t' /\ job_fs done t' f') ->
     (r0, mkst f' (S (s_calls s)) (s_locked s) (s_hist s ++ [f'])) = (r, s') ->
     grow no_marker s s' /\ s_calls s' = S (s_calls s)).
  { intros f' r0 [t' [Ht' Hj']] E. inversion E; subst; simpl. split; [|reflexivity].
    unfold grow; simpl. split; [reflexivity|]. split; [lia|].
    exists [f']. split; [reflexivity|]. constructor; [|constructor]. eapply job_fs_no_marker; eauto. }
  destruct (wf p (s_calls s)) as [[| |j]|] eqn:W.
  - (* before *)
    destruct (G (s_fs s) (Err EWrite)) as [Gg Gc]; [eauto|exact H|].
    split; [exact Gg|]. split; [exact Gc|].
    inversion H; subst. right. split; [reflexivity|]. split; [discriminate|]. exists tail. simpl. auto.
  - (* mkdir *)
    assert (Hm : exists t', tail_ok (length done) t' /\ job_fs done t' (mkdir_for (TChild (NPart (length done))) (s_fs s))).
    { exists tail. split; auto. apply mkdir_part; auto. }
    destruct (G _ _ Hm H) as [Gg Gc].
    split; [exact Gg|]. split; [exact Gc|].
    inversion H; subst. right. split; [reflexivity|]. split; [discriminate|]. exact Hm.
  - (* torn *)
    destruct (write_part done tail (s_fs s) (firstn j (render x)) Ht Hj) as [f' [Hw Hj']].
    rewrite Hw in H.
    assert (Hm : exists t', tail_ok (length done) t' /\ job_fs done t' f').
    { eexists; split; [|exact Hj']. right; eauto. }
    destruct (G _ _ Hm H) as [Gg Gc].
    split; [exact Gg|]. split; [exact Gc|].
    inversion H; subst. right. split; [reflexivity|]. split; [discriminate|]. exact Hm.
  - destruct (write_part done tail (s_fs s) (render x) Ht Hj) as [f' [Hw Hj']].
    rewrite Hw in H.
    assert (Hm : exists t', tail_ok (length done) t' /\ job_fs done t' f').
    { eexists; split; [|exact Hj']. right; eauto. }
    destruct (G _ _ Hm H) as [Gg Gc].
    split; [exact Gg|]. split; [exact Gc|].
    inversion H; subst. left. split; [reflexivity|]. split; [reflexivity|]. simpl. apply job_fs_snoc; auto.
Qed.

Definition job_err (e : exn) : Prop := e = EWrite \/ e = ECompute \/ e = ENoRetries.

Lemma attempts_write : forall p x done rem a s r s',
  TInv done s ->
  attempts p (write_act A render p (length done) x) (length done) rem a s = (r, s') ->
  grow no_marker s s' /\
  ((r = Ok tt /\ job_fs (done ++ [x]) [] (s_fs s')) \/ (exists e, r = Err e /\ job_err e /\ TInv done s')).
Proof.
  induction rem as [|rem IH]; intros a s r s' Hi H; simpl in H.
  - inversion H; subst. split; [apply grow_refl|]. right. exists ENoRetries. unfold job_err; auto.
  - destruct (cf p (length done) a) eqn:C.
    + destruct rem.
      * inversion H; subst. split; [apply grow_refl|]. right. exists ECompute. unfold job_err; auto.
      * apply IH in H; auto.
    + unfold write_act in H at 1.
      destruct (dump p (TChild (NPart (length done))) (render x) s) as [r1 s1] eqn:D.
      destruct (dump_part _ _ _ _ _ _ Hi D) as [G [_ [[-> [_ Hj]]|[-> [_ Hi1]]]]].
      * inversion H; subst. split; auto.
      * destruct rem.
        -- inversion H; subst. split; auto. right. exists EWrite. unfold job_err; auto.
        -- apply IH in H; auto. destruct H as [G2 R]. split; auto. eapply grow_trans; eauto.
Qed.

Lemma tasks_write : forall p m todo done s r s',
  job_fs done [] (s_fs s) ->
  tasks A p (write_act A render p) m (length done) todo s = (r, s') ->
  grow no_marker s s' /\
  ((r = Ok tt /\ job_fs (done ++ todo) [] (s_fs s'))
   \/ (exists e, r = Err e /\ job_err e /\ exists done' rest, done ++ todo = done' ++ rest /\ rest <> [] /\ TInv done' s')).
Proof.
  induction todo as [|x todo IH]; intros done s r s' Hj H; simpl in H.
  - inversion H; subst. split; [apply grow_refl|]. left. rewrite app_nil_r. auto.
  - destruct (attempts p (write_act A render p (length done) x) (length done) m 1 s) as [r1 s1] eqn:E.
    assert (Hi : TInv done s) by (exists []; split; [left; auto|auto]).
    destruct (attempts_write _ _ _ _ _ _ _ _ Hi E) as [G [[-> Hj1]|[e [-> [He Hi1]]]]].
    + replace (S (length done)) with (length (done ++ [x])) in H by (rewrite app_length; simpl; lia).
      apply IH in H; auto. destruct H as [G2 R]. split; [eapply grow_trans; eauto|].
      rewrite <- app_assoc in R. simpl in R. exact R.
    + inversion H; subst. split; auto. right. exists e. repeat split; auto.
      exists done, (x :: todo). repeat split; auto. discriminate.
Qed.

(* tasks that only compute (collect): no effect on the file system *)
Lemma attempts_noop : forall p i x rem a s r s',
  attempts p (noop_act A i x) i rem a s = (r, s') ->
  s' = s /\ (r = Ok tt \/ exists e, r = Err e /\ job_err e).
Proof.
  induction rem as [|rem IH]; intros a s r s' H; simpl in H.
  - inversion H; subst. split; auto. right. exists ENoRetries. unfold job_err; auto.
  - destruct (cf p i a).
    + destruct rem.
      * inversion H; subst. split; auto. right. exists ECompute. unfold job_err; auto.
      * apply IH in H. exact H.
    + unfold noop_act in H at 1. inversion H; subst. auto.
Qed.

Lemma tasks_noop : forall p m xs i s r s',
  tasks A p (noop_act A) m i xs s = (r, s') ->
  s' = s /\ (r = Ok tt \/ exists e, r = Err e /\ job_err e).
Proof.
  induction xs as [|x xs IH]; intros i s r s' H; simpl in H.
  - inversion H; subst. auto.
  - destruct (attempts p (noop_act A i x) i m 1 s) as [r1 s1] eqn:E.
    apply attempts_noop in E. destruct E as [-> [->|[e [-> He]]]].
    + apply IH in H. exact H.
    + inversion H; subst. split; auto. right. eauto.
Qed.

(* Context.runJob around a body that keeps the lock flag: the lock is free afterwards *)
Lemma run_job_spec : forall (body : st -> res unit * st) s r s',
  s_locked s = false ->
  run_job body s = (r, s') ->
  exists s1, body (set_locked true s) = (r, s1) /\ s' = set_locked false s1.
Proof.
  intros body s r s' L H. unfold run_job in H. rewrite L in H.
  destruct (body (set_locked true s)) as [[u|e] s1] eqn:B.
  - inversion H; subst. destruct u. eauto.
  - inversion H; subst. rewrite lock_after_error_false. eauto.
Qed.

Lemma grow_set_locked : forall P s s1 b b', grow P (set_locked b s) s1 ->
  s_locked (set_locked b' s1) = b' /\ s_calls s <= s_calls s1 /\ exists l, s_hist (set_locked b' s1) = s_hist s ++ l /\ Forall P l.
Proof. intros P s s1 b b' [L [C [l [H F]]]]. simpl in *. repeat split; auto. exists l. auto. Qed.

Definition hent (xs : list A) (f : fs) : Prop := no_marker f \/ f = complete_dir xs.

Lemma Forall_hent : forall xs l, Forall no_marker l -> Forall (hent xs) l.
Proof. intros xs l H. eapply Forall_impl; [|exact H]. intros f Hf. left. exact Hf. Qed.

(* the marker write on the directory of a finished write job *)
Lemma dump_marker : forall p xs s r s',
  job_fs xs [] (s_fs s) ->
  dump p (TChild NMarker) [] s = (r, s') ->
  s_locked s' = s_locked s /\ s_calls s' = S (s_calls s) /\ s_hist s' = s_hist s ++ [s_fs s'] /\
  ((r = Ok tt /\ wf p (s_calls s) = None /\ s_fs s' = complete_dir xs)
   \/ (r = Err EWrite /\
       ((no_marker (s_fs s') /\ job_fs xs [] (s_fs s') /\ (wf p (s_calls s) = Some WBefore \/ wf p (s_calls s) = Some WMkdir))
        \/ (s_fs s' = complete_dir xs /\ exists j, wf p (s_calls s) = Some (WTorn j))))).
Proof.
  intros p xs s r s' Hj H. unfold dump in H.
  assert (W : write_to (TChild NMarker) [] (s_fs s) = Ok (complete_dir xs)).
  { destruct Hj as [[-> [-> _]]| ->]; simpl; auto. unfold complete_dir. rewrite app_nil_r.
    rewrite set_child_absent; auto. apply lookup_part_marker. }
  assert (NM : no_marker (s_fs s)) by (eapply job_fs_no_marker; [|exact Hj]; left; auto).
  destruct (wf p (s_calls s)) as [[| |j]|] eqn:E.
  - inversion H; subst; simpl. repeat split; auto. right. split; auto.
  - inversion H; subst; simpl. repeat split; auto. right. split; auto. left.
    assert (J : job_fs xs [] (mkdir_for (TChild NMarker) (s_fs s))) by (apply mkdir_part; auto).
    repeat split; auto. eapply job_fs_no_marker; [|exact J]. left; auto.
  - replace (firstn j []) with (@nil N) in H by (destruct j; reflexivity). rewrite W in H.
    inversion H; subst; simpl. repeat split; auto. right. split; auto. right. eauto.
  - rewrite W in H. inversion H; subst; simpl. repeat split; auto.
Qed.

Lemma complete_dir_marker : forall xs, child (complete_dir xs) NMarker = Some [].
Proof. intros xs. unfold complete_dir. simpl. rewrite lookup_app_none by apply lookup_part_marker. reflexivity. Qed.

(* ---------- the whole save, started on an absent target ---------- *)

Definition save_post (p : plan) (xs : list A) (r : res unit) (s' : st) : Prop :=
  s_locked s' = false /\ Forall (hent xs) (s_hist s') /\ hent xs (s_fs s') /\
  ((r = Ok tt /\ s_fs s' = match xs with [x] => FFile (render x) | _ => complete_dir xs end)
   \/ (exists e, r = Err e /\ job_err e /\
        (no_marker (s_fs s')
         \/ (s_fs s' = complete_dir xs /\ e = EWrite /\ exists j, wf p (pred (s_calls s')) = Some (WTorn j))))).

Lemma save_multi : forall p m xs c0 r s',
  (forall x, xs <> [x]) ->
  run_steps A render p m xs canonical_steps (init_st FAbsent c0 false) = (r, s') ->
  save_post p xs r s'.
Proof.
  intros p m xs c0 r s' Hn H.
  assert (H2 : match run_job (tasks A p (write_act A render p) m 0 xs) (init_st FAbsent c0 false) with
               | (Ok _, s1) => match dump p (TChild NMarker) [] s1 with
                               | (Ok _, s2) => (Ok tt, s2) | (Err e, s2) => (Err e, s2) end
               | (Err e, s1) => (Err e, s1) end = (r, s')).
  { destruct xs as [|x [|y xs]]; [| exfalso; eapply Hn; reflexivity |]; simpl in H; exact H. }
  clear H.
  destruct (run_job (tasks A p (write_act A render p) m 0 xs) (init_st FAbsent c0 false)) as [r1 s1] eqn:J.
  apply run_job_spec in J; [|reflexivity]. destruct J as [s1' [B ->]].
  change 0 with (length (@nil A)) in B.
  apply tasks_write in B; [|left; auto].
  destruct B as [G R]. apply grow_set_locked with (b' := false) in G. destruct G as [L [C [l [Hh Fl]]]].
  simpl in Hh.
  destruct R as [[-> Hj]|[e [-> [He [done' [rest [_ [_ [tail [Ht Hj]]]]]]]]]].
  - simpl in Hj.
    destruct (dump p (TChild NMarker) [] (set_locked false s1')) as [r2 s2] eqn:D.
    apply dump_marker with (xs := xs) in D; [|exact Hj].
    destruct D as [L2 [C2 [H2' R2]]].
    destruct R2 as [[-> [_ Fs]]|[-> R2]].
    + inversion H2; subst. unfold save_post. rewrite L2, L. split; auto.
      assert (HE : hent xs (s_fs s')) by (right; auto).
      split. { rewrite H2'. simpl. apply Forall_app. split; [apply Forall_hent; auto|]. constructor; auto. }
      split; auto. left. split; auto. rewrite Fs. destruct xs as [|x [|y xs]]; auto. exfalso. eapply Hn; reflexivity.
    + inversion H2; subst. unfold save_post. rewrite L2, L. split; auto.
      assert (HE : hent xs (s_fs s')). { destruct R2 as [[N _]|[Fs _]]; [left|right]; auto. }
      split. { rewrite H2'. simpl. apply Forall_app. split; [apply Forall_hent; auto|]. constructor; auto. }
      split; auto. right. exists EWrite. split; auto. split; [unfold job_err; auto|].
      destruct R2 as [[N _]|[Fs [j W]]]; [left; auto|right]. split; auto. split; auto.
      exists j. rewrite C2. simpl. exact W.
  - inversion H2; subst. unfold save_post.
    assert (N : no_marker (s_fs (set_locked false s1'))) by (simpl; eapply job_fs_no_marker; eauto).
    split; auto. split. { simpl. apply Forall_hent; auto. }
    split. { left; auto. }
    right. exists e. split; auto.
Qed.

Lemma save_single : forall p m x c0 r s',
  run_steps A render p m [x] canonical_steps (init_st FAbsent c0 false) = (r, s') ->
  save_post p [x] r s' /\ no_marker (s_fs s') /\ Forall no_marker (s_hist s').
Proof.
  intros p m x c0 r s' H.
  assert (H2 : match run_job (tasks A p (noop_act A) m 0 [x]) (init_st FAbsent c0 false) with
               | (Ok _, s1) => dump p TRoot (render x) s1
               | (Err e, s1) => (Err e, s1) end = (r, s')) by exact H.
  clear H. rename H2 into H.
  destruct (run_job (tasks A p (noop_act A) m 0 [x]) (init_st FAbsent c0 false)) as [r1 s1] eqn:J.
  apply run_job_spec in J; [|reflexivity]. destruct J as [s1' [B ->]].
  apply tasks_noop in B. destruct B as [-> [->|[e [-> He]]]].
  - unfold dump in H. simpl in H.
    assert (K : forall f r0, no_marker f -> (r0 = Ok tt /\ f = FFile (render x) \/ r0 = Err EWrite) ->
               (r0, mkst f (S c0) false [f]) = (r, s') ->
               save_post p [x] r s' /\ no_marker (s_fs s') /\ Forall no_marker (s_hist s')).
    { intros f r0 N R E. inversion E; subst; simpl. split; [|split; auto].
      unfold save_post; simpl. split; auto. split. { constructor; auto. left; auto. }
      split. { left; auto. }
      destruct R as [[-> ->]| ->]; [left; auto|right]. exists EWrite. split; auto. split; [unfold job_err; auto|auto]. }
    destruct (wf p c0) as [[| |j]|]; eapply K; try exact H; unfold no_marker; simpl; auto.
  - inversion H; subst; simpl. split; [|split; [reflexivity|constructor]].
    unfold save_post; simpl. split; auto. split; [constructor|]. split; [left; reflexivity|].
    right. exists e. split; auto. split; auto. left. reflexivity.
Qed.

Lemma save_canonical : forall p m xs c0 r s',
  run_steps A render p m xs canonical_steps (init_st FAbsent c0 false) = (r, s') ->
  save_post p xs r s'.
Proof.
  intros p m xs c0 r s' H.
  destruct xs as [|x [|y xs]].
  - eapply save_multi; [|exact H]. intros x; discriminate.
  - apply save_single in H. apply H.
  - eapply save_multi; [|exact H]. intros x'; discriminate.
Qed.

Lemma no_overwrite_canonical : forall p m xs f0 c0 lk,
  fs_exists f0 = true ->
  run_steps A render p m xs canonical_steps (init_st f0 c0 lk) = (Err EExists, init_st f0 c0 lk).
Proof. intros p m xs f0 c0 lk H. simpl. rewrite H. reflexivity. Qed.

Lemma steps_of_canonical : forall sv, steps_of sv = canonical_steps.
Proof. destruct sv; [apply text_steps_link|apply pickle_steps_link]. Qed.

(* ---------- statements used by Properties/C09.v ---------- *)

Theorem no_overwrite : forall sv p m xs f0 c0 lk,
  fs_exists f0 = true ->
  save A render sv p m xs (init_st f0 c0 lk) = (Err EExists, init_st f0 c0 lk).
Proof. intros. unfold save. rewrite steps_of_canonical. apply no_overwrite_canonical; auto. Qed.

Lemma save_spec : forall sv p m xs c0 r s',
  save A render sv p m xs (init_st FAbsent c0 false) = (r, s') -> save_post p xs r s'.
Proof. intros sv p m xs c0 r s' H. unfold save in H. rewrite steps_of_canonical in H. eapply save_canonical; eauto. Qed.

Lemma hent_marker : forall xs f, hent xs f -> child f NMarker <> None -> f = complete_dir xs.
Proof. intros xs f [N|E] H; auto. contradiction. Qed.

Theorem marker_implies_complete : forall sv p m xs c0 r s',
  save A render sv p m xs (init_st FAbsent c0 false) = (r, s') ->
  forall f, In f (s_hist s' ++ [s_fs s']) -> child f NMarker <> None ->
  f = complete_dir xs /\ length xs <> 1.
Proof.
  intros sv p m xs c0 r s' H f Hin Hm.
  assert (P := save_spec _ _ _ _ _ _ _ H). destruct P as [_ [Fh [He _]]].
  assert (Hf : hent xs f).
  { apply in_app_or in Hin. destruct Hin as [Hin|[<-|[]]]; auto. rewrite Forall_forall in Fh. auto. }
  split; [apply hent_marker; auto|].
  intros L1. destruct xs as [|x [|y xs]]; try discriminate.
  unfold save in H. rewrite steps_of_canonical in H. apply save_single in H. destruct H as [_ [N Fn]].
  apply Hm. apply in_app_or in Hin. destruct Hin as [Hin|[<-|[]]]; auto.
  rewrite Forall_forall in Fn. apply Fn; auto.
Qed.

Theorem complete_dir_parts : forall xs i,
  child (complete_dir xs) (NPart i) = option_map render (nth_error xs i).
Proof.
  intros xs i. unfold complete_dir. simpl.
  destruct (nth_error xs i) as [x|] eqn:E; simpl.
  - assert (L := lookup_part_in xs 0 i x E). simpl in L. apply lookup_app_some. exact L.
  - apply nth_error_None in E. rewrite lookup_app_none by (apply lookup_part_out; lia). reflexivity.
Qed.

Theorem failure_no_marker : forall sv p m xs c0 e s',
  save A render sv p m xs (init_st FAbsent c0 false) = (Err e, s') ->
  child (s_fs s') NMarker = None
  \/ (s_fs s' = complete_dir xs /\ e = EWrite /\ exists j, wf p (pred (s_calls s')) = Some (WTorn j)).
Proof.
  intros sv p m xs c0 e s' H. apply save_spec in H. destruct H as [_ [_ [_ [[H _]|[e' [H [_ R]]]]]]]; [discriminate|].
  inversion H; subst. exact R.
Qed.

Theorem failure_no_marker_atomic : forall sv p m xs c0 e s',
  (forall k j, wf p k <> Some (WTorn j)) ->
  save A render sv p m xs (init_st FAbsent c0 false) = (Err e, s') ->
  child (s_fs s') NMarker = None.
Proof.
  intros sv p m xs c0 e s' Hat H. apply failure_no_marker in H. destruct H as [H|[_ [_ [j W]]]]; auto.
  exfalso. eapply Hat; eauto.
Qed.

End S.
