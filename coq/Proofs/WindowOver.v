(* C11 -- window(w, s) over ANY parent stream (derived streams: map / filter / flatMap / updateStateByKey / union /
   transform ...): in a well-formed program, after every run in which no tick raised, the window's buffer is exactly
   the parent's most recent w RDDs as the parent emitted them, and at an emitting interval its RDD is their union.
   The derived programs of the correspondence run are well-formed and quiet, so for them this holds unconditionally. *)
From Coq Require Import ZArith NArith Bool String List Lia.
Require Import PV.Base.Val PV.Gen.Window PV.Model.Window PV.Proofs.Window PV.Proofs.WindowSpec PV.Proofs.WindowState PV.Proofs.WindowTick PV.Proofs.WindowAnywhere.
Import ListNotations.
Open Scope Z_scope.
Open Scope list_scope.

(* in a non-raising pass, a stream registered before i already has its final state when i's turn comes *)
Lemma direct_nodes_parent_seen g t st p i :
  (p < i < length g)%nat -> snd (direct_nodes g (seq 0 (length g)) t st) = None ->
  exists si, direct_nodes g (seq 0 i) t st = (si, None) /\
             nth_error (gnodes si) i = nth_error (gnodes st) i /\
             nth_error (gnodes si) p = nth_error (gnodes (fst (direct_nodes g (seq 0 (length g)) t st))) p /\
             snd (direct g i t si) = None /\
             nth_error (gnodes (fst (direct_nodes g (seq 0 (length g)) t st))) i
             = nth_error (gnodes (fst (direct g i t si))) i.
Proof.
  intros Hpi Hnone.
  destruct (direct_nodes_at g t 0 (length g) i st ltac:(lia) Hnone) as (si & Ei & Ui & Ni & Fi).
  rewrite Nat.sub_0_r in Ei.
  destruct (direct_nodes_at g t 0 (length g) p st ltac:(lia) Hnone) as (sp & Ep & Up & Np & Fp).
  assert (Hnone_i : snd (direct_nodes g (seq 0 i) t st) = None) by (now rewrite Ei).
  destruct (direct_nodes_at g t 0 i p st ltac:(lia) Hnone_i) as (sp2 & Ep2 & Up2 & Np2 & Fp2).
  rewrite Ep in Ep2. inversion Ep2; subst sp2.
  rewrite Ei in Fp2. cbn [fst] in Fp2.
  exists si. repeat split; auto. now rewrite Fp2, Fp.
Qed.

(* the RDDs stream p holds after each tick of a run *)
Fixpoint rdd_trace (g : list node) (p : nat) (ts : list Z) (st : gstate) : list rdd :=
  match ts with
  | [] => []
  | t :: ts' => let st1 := fst (tick g t st) in rdd_of st1 p :: rdd_trace g p ts' st1
  end.

(* ---------- a windowed stream i on ANY parent stream p, anywhere in a well-formed program ---------- *)
Section WindowOverAny.
Variables (g : list node) (p i : nat) (w s : Z).
Hypothesis Hwf : well_formed g.
Hypothesis Hpi : (p < i < length g)%nat.
Hypothesis Hgi : nth_error g i = Some (Window w s p).
Hypothesis Hs : 0 < s.

Definition WAInv (hist : list rdd) (T : Z) (st : gstate) : Prop :=
  length (gnodes st) = length g /\ times_le T st /\
  exists nsi, nth_error (gnodes st) i = Some nsi /\
    nbuf nsi = lastn (Z.to_nat w) hist /\ nctr nsi = Z.of_nat (length hist) mod s /\
    (hist <> [] -> Z.of_nat (length hist) mod s = 0 -> union (nbuf nsi) = Ok (nrdd nsi)).

Lemma wainv_init : WAInv [] 0 (init_state g).
Proof.
  split; [unfold init_state; cbn [gnodes]; apply map_length|]. split; [apply init_times_le|].
  exists (init_node (Window w s p)). split; [apply (init_nth g i _ Hgi)|]. cbn. repeat split; congruence.
Qed.

Lemma wainv_tick hist T t st :
  WAInv hist T st -> T < t -> snd (tick g t st) = None ->
  WAInv (hist ++ [rdd_of (fst (tick g t st)) p]) t (fst (tick g t st)).
Proof.
  intros (HL & Hle & nsi & Hi & Hbuf & Hctr & _) Ht Hnone.
  assert (Hlt : forall j ns, nth_error (gnodes st) j = Some ns -> ntime ns < t).
  { intros j ns Hj. specialize (Hle j ns Hj). lia. }
  assert (H2 : (2 <= length g)%nat) by lia.
  pose proof (tick_refines g t st Hwf H2 HL Hlt) as ER.
  assert (HL' : length (gnodes (fst (tick g t st))) = length (gnodes st))
    by (apply (tick_nodes_length (length g) g t (seq 0 (length g)) st)).
  assert (Hle' : times_le t (fst (tick g t st)))
    by (apply (tick_nodes_times_le (length g) g t (seq 0 (length g)) st (times_le_weaken T t st ltac:(lia) Hle))).
  rewrite ER in HL', Hle', Hnone |- *.
  destruct (direct_nodes_parent_seen g t st p i Hpi Hnone) as (si & Ei & Ui & Up & Ni & Fi).
  set (st' := fst (direct_nodes g (seq 0 (length g)) t st)) in *.
  assert (Hpr : rdd_of si p = rdd_of st' p) by (unfold rdd_of; now rewrite Up).
  unfold direct in Ni, Fi. rewrite Hgi, Ui, Hi in Ni, Fi. rewrite Hpr in Ni, Fi.
  split; [lia|]. split; [exact Hle'|].
  unfold window_post in Ni, Fi. cbn [nbuf nctr set_time] in Ni, Fi.
  rewrite Hbuf, Hctr in Ni, Fi.
  rewrite trim_spec, lastn_snoc, counter_next in Ni, Fi by assumption.
  set (pr := rdd_of st' p) in *.
  set (buf' := lastn (Z.to_nat w) (hist ++ [pr])) in *.
  assert (Hlen : length (hist ++ [pr]) = S (length hist)) by (rewrite app_length; cbn; lia).
  unfold win_skip in Ni, Fi.
  destruct (Z.of_nat (S (length hist)) mod s =? 0) eqn:E0; cbn [negb] in Ni, Fi.
  - destruct (union buf') as [r|e] eqn:Eu; cbn [fst snd] in Ni, Fi; [|discriminate Ni].
    eexists. split; [rewrite Fi; eapply nth_put_eq; rewrite Ui; exact Hi|].
    cbn [nbuf nctr nrdd set_win set_rdd set_time]. rewrite Hlen. repeat split; auto.
  - cbn [fst snd] in Ni, Fi.
    eexists. split; [rewrite Fi; eapply nth_put_eq; rewrite Ui; exact Hi|].
    cbn [nbuf nctr nrdd set_win set_rdd set_time]. rewrite Hlen. repeat split; auto.
    intros _ H0. apply Z.eqb_neq in E0. congruence.
Qed.

Lemma wainv_run : forall ts hist T st,
  WAInv hist T st -> increasing T ts -> snd (run_ticks g ts st) = map (fun _ => None) ts ->
  WAInv (hist ++ rdd_trace g p ts st) (last ts T) (fst (run_ticks g ts st)).
Proof.
  induction ts as [|t ts IH]; intros hist T st HI Hinc Hnone.
  - cbn. now rewrite app_nil_r.
  - destruct Hinc as [Ht Hinc]. rewrite run_ticks_snd_cons in Hnone. cbn [map] in Hnone.
    inversion Hnone as [[H1 H2]]. rewrite H1 in H2.
    rewrite run_ticks_cons, last_cons. cbn [rdd_trace].
    replace (hist ++ rdd_of (fst (tick g t st)) p :: rdd_trace g p ts (fst (tick g t st)))
      with ((hist ++ [rdd_of (fst (tick g t st)) p]) ++ rdd_trace g p ts (fst (tick g t st)))
      by (rewrite <- app_assoc; reflexivity).
    apply IH; [apply (wainv_tick hist T); auto|exact Hinc|exact H2].
Qed.

Lemma rdd_trace_length : forall ts st, length (rdd_trace g p ts st) = length ts.
Proof. induction ts as [|t ts IH]; intros st; cbn [rdd_trace length]; auto. Qed.

(* the window holds exactly the parent's most recent w RDDs, as the parent emitted them, and at an emitting interval
   its RDD is their union (Context.union: in-order concatenation of their collected elements) *)
Lemma window_over_any ts :
  increasing 0 ts -> snd (run_graph g ts) = map (fun _ => None) ts ->
  exists nsi, nth_error (gnodes (final g ts)) i = Some nsi /\
    nbuf nsi = lastn (Z.to_nat w) (rdd_trace g p ts (init_state g)) /\
    nctr nsi = Z.of_nat (length ts) mod s /\
    (ts <> [] -> Z.of_nat (length ts) mod s = 0 -> union (nbuf nsi) = Ok (nrdd nsi)).
Proof.
  intros Hinc Hnone. unfold final, run_graph in *.
  destruct (wainv_run ts [] 0 _ wainv_init Hinc Hnone) as (_ & _ & nsi & Hi & Hb & Hc & He).
  cbn [app] in *. rewrite rdd_trace_length in *.
  exists nsi. repeat split; auto. intros Hne. apply He. intros Hnil.
  apply (f_equal (@length rdd)) in Hnil. rewrite rdd_trace_length in Hnil. destruct ts; [congruence|discriminate].
Qed.
End WindowOverAny.

Lemma union_ok_collect l r : union l = Ok r -> collect r = concat (map collect l).
Proof.
  unfold union. destruct (forallb is_empty_rdd l) eqn:E.
  - intros H. inversion H; subst. now rewrite concat_all_empty.
  - destruct (existsb is_none_rdd l); intros H; inversion H; subst. reflexivity.
Qed.

(* ---------- window(w, s) [.count()] over a derived parent: well-formed and quiet ---------- *)
Lemma nth_app_some {A} (l r : list A) j x : nth_error l j = Some x -> nth_error (l ++ r) j = Some x.
Proof. intros H. rewrite nth_error_app1; auto. apply nth_error_Some. congruence. Qed.

Lemma live_app pre rest p : live pre p -> live (pre ++ rest) p.
Proof.
  induction 1 as [p q H|p u p' H|p p1 p2 H|p f p' H M L IH].
  - eapply live_src. apply nth_app_some, H.
  - eapply live_state. apply nth_app_some, H.
  - eapply live_union. apply nth_app_some, H.
  - eapply live_trans; [apply nth_app_some, H|exact M|exact IH].
Qed.

Lemma quiet_node_app pre rest nd : quiet_node pre nd -> quiet_node (pre ++ rest) nd.
Proof.
  destruct nd as [q|f p|w s p|u p|p1 p2]; cbn; auto.
  - destruct f; auto. intros (p2 & p3 & H1 & H2). exists p2, p3. split; apply nth_app_some; assumption.
  - apply live_app.
  - intros (q & H & K). exists q. split; [now apply nth_app_some|exact K].
  - intros [H1 H2]. split; now apply live_app.
Qed.

Section Over.
Variables (pre : list node) (count : bool) (w s : Z) (k : nat).
Hypothesis Hne : pre <> [].
Hypothesis Hwf : well_formed pre.
Hypothesis Hq : quiet pre.
Hypothesis Hlive : live pre (length pre - 1).
Let p := (length pre - 1)%nat.
Let g := prog_window_over count pre w s k.

Lemma pre_len : length pre = S p.
Proof. subst p. destruct pre; [congruence|cbn; lia]. Qed.

Lemma over_cases j nd : nth_error g j = Some nd ->
  (j < S p)%nat /\ nth_error pre j = Some nd \/
  (S p <= j)%nat /\ (
    (j = S p /\ nd = Window w s p) \/
    (count = true /\ j = S (S p) /\ nd = Trans FCountParts (S p)) \/
    (count = true /\ j = S (S (S p)) /\ nd = Trans FSetName (S (S p))) \/
    (count = true /\ j = S (S (S (S p))) /\ nd = Trans FReduceAdd (S (S (S p)))) \/
    (exists c q, nd = Trans (FCapture c) q /\ (q < j)%nat)).
Proof.
  intros H. unfold g, prog_window_over in H. fold p in H.
  destruct (Nat.lt_ge_cases j (S p)) as [Hj|Hj].
  - left. split; auto. rewrite nth_error_app1 in H by (rewrite pre_len; lia). exact H.
  - right. split; auto. rewrite nth_error_app2 in H by (rewrite pre_len; lia). rewrite pre_len in H.
    destruct count.
    + remember (j - S p)%nat as d eqn:Ed.
      destruct d as [|[|[|[|d]]]]; cbn [app nth_error] in H.
      * left. inversion H. split; [lia|reflexivity].
      * right; left. inversion H. repeat split; try lia. f_equal. lia.
      * right; right; left. inversion H. repeat split; try lia. f_equal. lia.
      * right; right; right; left. inversion H. repeat split; try lia. f_equal. lia.
      * right; right; right; right. cbn [length] in H.
        destruct (Nat.lt_ge_cases d k) as [Hd|Hd].
        -- rewrite nth_error_app1 in H by (unfold consumers; now rewrite consumers_from_length).
           apply nth_consumers_parent in H as (c & ->). exists c, (p + 4)%nat. split; [reflexivity|lia].
        -- rewrite nth_error_app2 in H by (unfold consumers; now rewrite consumers_from_length).
           unfold consumers in H. rewrite consumers_from_length in H.
           destruct (d - k)%nat as [|m]; cbn in H; [|destruct m; discriminate].
           inversion H. exists (Z.of_nat k), p. split; [reflexivity|lia].
    + remember (j - S p)%nat as d eqn:Ed.
      destruct d as [|d]; cbn [app nth_error] in H.
      * left. inversion H. split; [lia|reflexivity].
      * right; right; right; right. cbn [length] in H.
        destruct (Nat.lt_ge_cases d k) as [Hd|Hd].
        -- rewrite nth_error_app1 in H by (unfold consumers; now rewrite consumers_from_length).
           apply nth_consumers_parent in H as (c & ->). exists c, (p + 1)%nat. split; [reflexivity|lia].
        -- rewrite nth_error_app2 in H by (unfold consumers; now rewrite consumers_from_length).
           unfold consumers in H. rewrite consumers_from_length in H.
           destruct (d - k)%nat as [|m]; cbn in H; [|destruct m; discriminate].
           inversion H. exists (Z.of_nat k), p. split; [reflexivity|lia].
Qed.

Lemma over_wf : well_formed g.
Proof.
  intros j nd H. destruct (over_cases j nd H) as [[Hj Hp]|[Hj [[-> ->]|[(_ & -> & ->)|[(_ & -> & ->)|[(_ & -> & ->)|(c & q & -> & Hq')]]]]]]; cbn; try lia.
  apply (Hwf j nd Hp).
Qed.

Lemma g_pre j nd : nth_error pre j = Some nd -> nth_error g j = Some nd.
Proof. intros H. unfold g, prog_window_over. now apply nth_app_some. Qed.

Lemma over_quiet : quiet g.
Proof.
  intros j nd H. pose proof H as H0.
  destruct (over_cases j nd H) as [[Hj Hp]|[Hj [[-> ->]|[(Hc & -> & ->)|[(Hc & -> & ->)|[(Hc & -> & ->)|(c & q & -> & Hq')]]]]]]; cbn [quiet_node]; auto.
  - unfold g, prog_window_over. apply quiet_node_app, (Hq j nd Hp).
  - unfold g, prog_window_over. apply live_app. exact Hlive.
  - (* the reduce stream of count(): its setName and mapPartitions streams *)
    exists (S (S p)), (S p). unfold g, prog_window_over. cbv zeta. fold p. rewrite Hc.
    split; (rewrite nth_error_app2 by (rewrite pre_len; lia); rewrite pre_len).
    + replace (S (S (S p)) - S p)%nat with 2%nat by lia. cbn. do 2 f_equal. lia.
    + replace (S (S p) - S p)%nat with 1%nat by lia. cbn. do 2 f_equal. lia.
Qed.

Lemma over_length : (2 <= length g)%nat.
Proof. unfold g, prog_window_over. rewrite !app_length, pre_len. destruct count; cbn; lia. Qed.
End Over.

(* the derived parents of the correspondence run (all but mapValues) satisfy the hypotheses *)
Lemma derived_parent_ok pv u qq pre : derived_parent pv u qq = Some pre -> In pv [0; 1; 2; 4; 5; 6] ->
  (pv = 4 -> keyed_source qq) ->
  pre <> [] /\ well_formed pre /\ quiet pre /\ live pre (length pre - 1).
Proof.
  intros H Hpv Hk. cbn [In] in Hpv.
  destruct Hpv as [<-|[<-|[<-|[<-|[<-|[<-|[]]]]]]]; cbn in H; inversion H; subst; clear H;
    (split; [discriminate|]);
    (split; [intros j nd Hj; do 4 (try (destruct j as [|j]; [inversion Hj; subst; cbn; lia|])); destruct j; discriminate|]);
    (split; [intros j nd Hj; do 4 (try (destruct j as [|j]; [inversion Hj; subst; cbn [quiet_node]; auto|])); try (destruct j; discriminate)|]).
  all: try (cbn [length Nat.sub]; repeat (eapply live_trans; [reflexivity|reflexivity|]); eapply live_src; reflexivity).
  all: try (eexists; split; [reflexivity|apply Hk; reflexivity]).
  all: try (eapply live_state; reflexivity).
  all: try (split; eapply live_src; reflexivity).
  all: try (eapply live_union; reflexivity).
Qed.

(* window(w, s) [.count()] over a derived stream (map, filter, flatMap, updateStateByKey, union, transform), with k
   consumers and a consumer on the parent: no tick raises, and the window holds exactly the parent's most recent w
   RDDs as the parent emitted them; at an emitting interval its RDD is their union *)
Lemma window_over_derived pv u qq pre count w s k ts :
  derived_parent pv u qq = Some pre -> In pv [0; 1; 2; 4; 5; 6] -> (pv = 4 -> keyed_source qq) ->
  0 < s -> increasing 0 ts ->
  let g := prog_window_over count pre w s k in
  snd (run_graph g ts) = map (fun _ => None) ts /\
  exists nsi, nth_error (gnodes (final g ts)) (length pre) = Some nsi /\
    nbuf nsi = lastn (Z.to_nat w) (rdd_trace g (length pre - 1) ts (init_state g)) /\
    nctr nsi = Z.of_nat (length ts) mod s /\
    (ts <> [] -> Z.of_nat (length ts) mod s = 0 ->
     union (nbuf nsi) = Ok (nrdd nsi) /\ collect (nrdd nsi) = concat (map collect (nbuf nsi))).
Proof.
  intros Hd Hpv Hk Hs Hinc g.
  destruct (derived_parent_ok pv u qq pre Hd Hpv Hk) as (Hne & Hwf & Hq & Hl).
  assert (Gwf : well_formed g) by (eapply over_wf; eauto).
  assert (Gq : quiet g) by (eapply over_quiet; eauto).
  assert (Gl : (2 <= length g)%nat) by (eapply over_length; eauto).
  pose proof (quiet_never_raises g Gwf Gq Gl ts Hinc) as Hnone.
  split; [exact Hnone|].
  assert (Hlen : length pre = S (length pre - 1)) by (destruct pre; [congruence|cbn; lia]).
  assert (Hgi : nth_error g (length pre) = Some (Window w s (length pre - 1))).
  { unfold g, prog_window_over. cbv zeta. rewrite nth_error_app2 by lia. rewrite Nat.sub_diag.
    destruct count; reflexivity. }
  assert (Hpi : (length pre - 1 < length pre < length g)%nat).
  { split; [lia|]. apply nth_error_Some. congruence. }
  destruct (window_over_any g (length pre - 1) (length pre) w s Gwf Hpi Hgi Hs ts Hinc Hnone) as (nsi & H1 & H2 & H3 & H4).
  exists nsi. split; [exact H1|]. split; [exact H2|]. split; [exact H3|].
  intros Ha Hb. split; [now apply H4|]. apply union_ok_collect. now apply H4.
Qed.

(* ---------- the queue source registered first: what it emits, whatever is registered after it ---------- *)
Section SourceFirst.
Variables (q : source) (tail : list node).
Local Notation g := (Src q :: tail).

Lemma src0_tick n T t st :
  nth_error (gnodes st) 0 = Some (src_state q n T) -> T < t ->
  nth_error (gnodes (fst (tick g t st))) 0 = Some (src_state q (S n) t).
Proof.
  intros H0 Ht. unfold tick. cbn [length seq tick_nodes].
  rewrite (step_src_go _ g 0 t st q _ eq_refl H0) by (cbn; lia).
  rewrite src_pop_state.
  apply tick_nodes_frozen; [apply (nth_put_eq _ _ _ _ H0)|cbn; lia].
Qed.

Lemma rdd_trace_src0 : forall ts n T st,
  nth_error (gnodes st) 0 = Some (src_state q n T) -> increasing T ts ->
  rdd_trace g 0 ts st = map (src_rdd q) (seq n (length ts)).
Proof.
  induction ts as [|t ts IH]; intros n T st H0 Hinc; [reflexivity|].
  destruct Hinc as [Ht Hinc]. cbn [rdd_trace length seq map].
  pose proof (src0_tick n T t st H0 Ht) as H1.
  f_equal.
  - unfold rdd_of. rewrite H1. reflexivity.
  - apply (IH (S n) t); auto.
Qed.

(* a windowed view of the source registered ANYWHERE after it, among any other streams (sibling views of the same or of
   other lengths and slides, consumers, stateful streams ...): after every run in which no tick raised, the view holds
   the source's most recent w interval RDDs, and at its emitting intervals a consumer sees exactly the in-order
   concatenation of the source's most recent w batches -- each view independently of its siblings *)
Lemma window_view_of_source i w s ts :
  well_formed g -> (0 < i < length g)%nat -> nth_error g i = Some (Window w s 0) -> 0 < s ->
  increasing 0 ts -> snd (run_graph g ts) = map (fun _ => None) ts ->
  exists nsi, nth_error (gnodes (final g ts)) i = Some nsi /\
    nbuf nsi = win_buf q w (length ts) /\ nctr nsi = Z.of_nat (length ts) mod s /\
    (ts <> [] -> Z.of_nat (length ts) mod s = 0 ->
     obs_of (nrdd nsi) = Some (concat (lastn (Z.to_nat w) (batches q (length ts))))).
Proof.
  intros Hwf Hi Hgi Hs Hinc Hnone.
  destruct (window_over_any g 0 i w s Hwf Hi Hgi Hs ts Hinc Hnone) as (nsi & H1 & H2 & H3 & H4).
  assert (Htr : rdd_trace g 0 ts (init_state g) = src_rdds q (length ts)).
  { apply (rdd_trace_src0 ts 0%nat 0); [reflexivity|exact Hinc]. }
  rewrite Htr in H2. exists nsi. split; [exact H1|]. split; [exact H2|]. split; [exact H3|].
  intros Hne Hm. specialize (H4 Hne Hm). rewrite H2 in H4. fold (win_buf q w (length ts)) in H4.
  rewrite (union_no_none _ (win_buf_no_none q w (length ts))) in H4. inversion H4 as [E]. apply obs_window.
Qed.
End SourceFirst.

(* ---------- sibling views: prog_views is well-formed and quiet, for every list of views ---------- *)
Lemma nth_error_skipn' {A} (l : list A) : forall b k, nth_error (skipn b l) k = nth_error l (b + k).
Proof. induction l as [|x l IH]; intros [|b] k; cbn; auto. destruct k; reflexivity. Qed.

Lemma views_local g : forall vs base j,
  nth_error g 0 <> None -> (exists q, nth_error g 0 = Some (Src q)) -> (1 <= base)%nat ->
  skipn base g = views_nodes base j vs ->
  forall idx nd, nth_error g (base + idx) = Some nd -> parent_before (base + idx) nd /\ quiet_node g nd.
Proof.
  induction vs as [|[[c w] s] vs IH]; intros base j H0 (q & Hq) Hb Hsk idx nd Hnd.
  - rewrite <- nth_error_skipn', Hsk in Hnd. destruct idx; discriminate.
  - assert (Hlive : live g 0) by (eapply live_src; exact Hq).
    assert (Hat : forall k, nth_error g (base + k) = nth_error (views_nodes base j ((c, w, s) :: vs)) k)
      by (intros k; rewrite <- nth_error_skipn', Hsk; reflexivity).
    destruct c; cbn [views_nodes] in Hat, Hsk.
    + destruct idx as [|[|[|[|[|idx]]]]]; rewrite Hat in Hnd; cbn [nth_error] in Hnd.
      * inversion Hnd; subst. cbn. split; [lia|exact Hlive].
      * inversion Hnd; subst. cbn. split; [lia|exact I].
      * inversion Hnd; subst. cbn. split; [lia|exact I].
      * inversion Hnd; subst. split; [cbn; lia|]. cbn [quiet_node].
        exists (base + 1)%nat, base. split.
        -- replace (base + 2)%nat with (base + 2)%nat by lia. rewrite (Hat 2%nat). reflexivity.
        -- rewrite (Hat 1%nat). reflexivity.
      * inversion Hnd; subst. cbn. split; [lia|exact I].
      * replace (base + S (S (S (S (S idx)))))%nat with ((base + 5) + idx)%nat by lia.
        assert (Hnd' : nth_error g (base + 5 + idx) = Some nd) by (rewrite <- Nat.add_assoc, Hat; exact Hnd).
        refine (IH (base + 5)%nat (j + 1) H0 (ex_intro _ q Hq) ltac:(lia) _ idx nd Hnd').
        replace (skipn (base + 5) g) with (skipn 5 (skipn base g)) by (rewrite skipn_skipn'; f_equal; lia).
        rewrite Hsk. reflexivity.
    + destruct idx as [|[|idx]]; rewrite Hat in Hnd; cbn [nth_error] in Hnd.
      * inversion Hnd; subst. cbn. split; [lia|exact Hlive].
      * inversion Hnd; subst. cbn. split; [lia|exact I].
      * replace (base + S (S idx))%nat with ((base + 2) + idx)%nat by lia.
        assert (Hnd' : nth_error g (base + 2 + idx) = Some nd) by (rewrite <- Nat.add_assoc, Hat; exact Hnd).
        refine (IH (base + 2)%nat (j + 1) H0 (ex_intro _ q Hq) ltac:(lia) _ idx nd Hnd').
        replace (skipn (base + 2) g) with (skipn 2 (skipn base g)) by (rewrite skipn_skipn'; f_equal; lia).
        rewrite Hsk. reflexivity.
Qed.

Lemma prog_views_wf_quiet q views : well_formed (prog_views q views) /\ quiet (prog_views q views).
Proof.
  assert (H : forall i nd, nth_error (prog_views q views) i = Some nd ->
                parent_before i nd /\ quiet_node (prog_views q views) nd).
  { intros [|i] nd Hnd.
    - inversion Hnd; subst. cbn. auto.
    - replace (S i) with (1 + i)%nat in * by lia.
      apply (views_local (prog_views q views) views 1%nat 0); auto.
      + discriminate.
      + exists q. reflexivity. }
  split; intros i nd Hnd; apply (H i nd Hnd).
Qed.

(* sibling views of one source: no tick raises, and EVERY window of the program is a view in the sense above *)
Lemma sibling_views q views i w s ts :
  views <> [] -> nth_error (prog_views q views) i = Some (Window w s 0) -> 0 < s -> increasing 0 ts ->
  snd (run_graph (prog_views q views) ts) = map (fun _ => None) ts /\
  exists nsi, nth_error (gnodes (final (prog_views q views) ts)) i = Some nsi /\
    nbuf nsi = win_buf q w (length ts) /\ nctr nsi = Z.of_nat (length ts) mod s /\
    (ts <> [] -> Z.of_nat (length ts) mod s = 0 ->
     obs_of (nrdd nsi) = Some (concat (lastn (Z.to_nat w) (batches q (length ts))))).
Proof.
  intros Hv Hgi Hs Hinc.
  destruct (prog_views_wf_quiet q views) as [Hwf Hq].
  assert (Hl : (2 <= length (prog_views q views))%nat).
  { unfold prog_views. destruct views as [|[[c w0] s0] vs]; [congruence|]. destruct c; cbn; lia. }
  pose proof (quiet_never_raises _ Hwf Hq Hl ts Hinc) as Hnone.
  split; [exact Hnone|].
  assert (Hi : (0 < i < length (prog_views q views))%nat).
  { split; [destruct i; [discriminate Hgi|lia]|apply nth_error_Some; congruence]. }
  exact (window_view_of_source q (views_nodes 1 0 views) i w s ts Hwf Hi Hgi Hs Hinc Hnone).
Qed.
