(* Lemmas about str(int) / int(str) round trips and date strings (C18). *)
From Coq Require Import ZArith NArith List Bool String Lia.
Require Import PV.Base.Val PV.Gen.Casts PV.Model.Cast PV.Proofs.Cast.
Import ListNotations.
Open Scope Z_scope.

Definition dchar (d : Z) : N := Z.to_N (d + 48).
Definition dval (ds : list N) (acc : Z) : Z := fold_left (fun a c => a * 10 + (ch c - 48)) ds acc.

Lemma is_digit_dchar d : 0 <= d <= 9 -> is_digit (dchar d) = true.
Proof.
  intros H. unfold is_digit, dchar. apply andb_true_intro. split; apply N.leb_le; lia.
Qed.

Lemma ch_dchar d : 0 <= d -> ch (dchar d) - 48 = d.
Proof. intros H. unfold ch, dchar. rewrite Z2N.id by lia. lia. Qed.

Definition all_digits (s : list N) : Prop := Forall (fun c => is_digit c = true) s.

Lemma digit_not_95 c : is_digit c = true -> N.eqb c 95 = false.
Proof. unfold is_digit. rewrite andb_true_iff, !N.leb_le. intros [H1 H2]. apply N.eqb_neq. lia. Qed.

Lemma digits_val_all s : all_digits s -> forall acc b, s <> [] \/ b = true ->
  digits_val s acc b = Some (dval s acc).
Proof.
  induction 1 as [|c s Hc Hs IH]; intros acc b Hne.
  - destruct Hne as [Hne|Hb]; [contradiction|subst b; reflexivity].
  - cbn [digits_val dval fold_left]. rewrite Hc. apply IH. right. reflexivity.
Qed.

Lemma pos_digits_digits f : forall z acc, 0 <= z -> all_digits acc -> all_digits (pos_digits f z acc).
Proof.
  induction f as [|f IH]; intros z acc Hz Hacc; cbn [pos_digits]; [assumption|].
  assert (Hd : is_digit (Z.to_N (z mod 10 + 48)) = true).
  { apply (is_digit_dchar (z mod 10)). pose proof (Z.mod_pos_bound z 10). lia. }
  destruct (z <? 10).
  - constructor; assumption.
  - apply IH; [apply Z.div_pos; lia | constructor; assumption].
Qed.

Lemma pos_digits_nonempty f z acc : (0 < f)%nat -> pos_digits f z acc <> [].
Proof.
  revert z acc. induction f as [|f IH]; intros z acc Hf; [lia|].
  cbn [pos_digits]. destruct (z <? 10); [discriminate|].
  destruct f as [|f']; [cbn; discriminate|]. apply IH. lia.
Qed.

Lemma pos_digits_val f : forall z acc, 0 <= z < 10 ^ Z.of_nat f ->
  dval (pos_digits f z acc) 0 = dval acc z.
Proof.
  induction f as [|f IH]; intros z acc Hz.
  - cbn in Hz. assert (z = 0) by lia. subst. reflexivity.
  - cbn [pos_digits].
    assert (Hm : 0 <= z mod 10 < 10) by (apply Z.mod_pos_bound; lia).
    destruct (Z.ltb_spec z 10) as [Hlt|Hge].
    + unfold dval. cbn [fold_left]. fold (dchar (z mod 10)). rewrite ch_dchar by lia.
      rewrite Z.mod_small by lia. reflexivity.
    + rewrite IH.
      * unfold dval. cbn [fold_left]. fold (dchar (z mod 10)). rewrite ch_dchar by lia.
        f_equal. pose proof (Z.div_mod z 10). lia.
      * rewrite Nat2Z.inj_succ, Z.pow_succ_r in Hz by lia.
        split; [apply Z.div_pos; lia|]. apply Z.div_lt_upper_bound; lia.
Qed.

Lemma fuel_enough z : 0 <= z -> z < 10 ^ Z.of_nat (S (Z.to_nat (Z.log2 z))).
Proof.
  intros Hz. rewrite Nat2Z.inj_succ, Z2Nat.id by apply Z.log2_nonneg.
  destruct (Z.eq_dec z 0) as [->|Hnz]; [cbn; lia|].
  assert (Hl : z < 2 ^ Z.succ (Z.log2 z)) by (apply Z.log2_spec; lia).
  eapply Z.lt_le_trans; [exact Hl|].
  apply Z.pow_le_mono_l. pose proof (Z.log2_nonneg z). lia.
Qed.

Lemma lstrip_id c s : is_space c = false -> lstrip (c :: s) = c :: s.
Proof. intros H. cbn [lstrip]. rewrite H. reflexivity. Qed.

Lemma digit_not_space c : is_digit c = true -> is_space c = false.
Proof.
  unfold is_digit. rewrite andb_true_iff, !N.leb_le. intros [H1 H2].
  unfold is_space. cbn [existsb].
  repeat match goal with |- context [N.eqb c ?k] => replace (N.eqb c k) with false by (symmetry; apply N.eqb_neq; lia) end.
  reflexivity.
Qed.

Lemma strip_id s : s <> [] -> is_space (hd 0%N s) = false -> is_space (last s 0%N) = false -> strip s = s.
Proof.
  intros Hne Hh Hl. unfold strip.
  destruct s as [|c s]; [contradiction|]. cbn [hd] in Hh.
  rewrite (lstrip_id c s Hh).
  destruct (rev (c :: s)) as [|d r] eqn:Hr.
  - apply (f_equal (@List.length N)) in Hr. rewrite rev_length in Hr. discriminate.
  - assert (Hd : d = last (c :: s) 0%N).
    { rewrite <- (rev_involutive (c :: s)), Hr. cbn [rev]. rewrite last_last. reflexivity. }
    rewrite lstrip_id by (rewrite Hd; exact Hl).
    rewrite <- Hr. apply rev_involutive.
Qed.

Lemma all_digits_last s : all_digits s -> s <> [] -> is_digit (last s 0%N) = true.
Proof.
  intros H Hne. unfold all_digits in H. rewrite Forall_forall in H. apply H.
  destruct s; [contradiction|]. apply (@exists_last _ (n :: s)) in Hne as [l' [a ->]].
  rewrite last_last. apply in_or_app. right. left. reflexivity.
Qed.

Lemma int_str_roundtrip z : py_int_of_str (str_of_int z) = Some z.
Proof.
  unfold str_of_int.
  destruct (Z.ltb_spec z 0) as [Hneg|Hpos].
  - set (f := S (Z.to_nat (Z.log2 (- z)))).
    assert (Hd : all_digits (pos_digits f (- z) [])) by (apply pos_digits_digits; [lia|constructor]).
    assert (Hn : pos_digits f (- z) [] <> []) by (apply pos_digits_nonempty; unfold f; lia).
    unfold py_int_of_str. rewrite strip_id.
    + replace (N.eqb 45 45) with true by reflexivity.
      rewrite digits_val_all by (auto). cbn [option_map].
      rewrite pos_digits_val by (split; [lia|apply fuel_enough; lia]).
      unfold dval. cbn. f_equal. lia.
    + discriminate.
    + reflexivity.
    + cbn [last]. destruct (pos_digits f (- z) []) as [|a l] eqn:E; [contradiction|].
      change (is_space (last (a :: l) 0%N) = false). apply digit_not_space.
      rewrite <- E in *. apply all_digits_last; assumption.
  - set (f := S (Z.to_nat (Z.log2 z))).
    assert (Hd : all_digits (pos_digits f z [])) by (apply pos_digits_digits; [lia|constructor]).
    assert (Hn : pos_digits f z [] <> []) by (apply pos_digits_nonempty; unfold f; lia).
    unfold py_int_of_str. rewrite strip_id; try assumption.
    + destruct (pos_digits f z []) as [|c r] eqn:E; [contradiction|].
      assert (Hc : is_digit c = true) by (inversion Hd; assumption).
      assert (H45 : N.eqb c 45 = false).
      { unfold is_digit in Hc. rewrite andb_true_iff, !N.leb_le in Hc. apply N.eqb_neq. lia. }
      assert (H43 : N.eqb c 43 = false).
      { unfold is_digit in Hc. rewrite andb_true_iff, !N.leb_le in Hc. apply N.eqb_neq. lia. }
      rewrite H45, H43. rewrite digits_val_all by (auto; left; discriminate).
      rewrite <- E. rewrite pos_digits_val by (split; [lia|apply fuel_enough; lia]).
      reflexivity.
    + destruct (pos_digits f z []) as [|c r] eqn:E; [contradiction|]. cbn [hd].
      apply digit_not_space. inversion Hd; assumption.
    + apply digit_not_space. apply all_digits_last; assumption.
Qed.

(* ---- to string and back *)
Lemma str_of_int_nonempty z : str_of_int z <> [].
Proof.
  unfold str_of_int. destruct (z <? 0); [discriminate|].
  apply pos_digits_nonempty. lia.
Qed.

Lemma int_string_roundtrip t lo hi z :
  bounds t = Some (lo, hi) -> lo <= z <= hi ->
  cast TString t (cast t TString (VInt z)) = VInt z.
Proof.
  intros Hb Hz.
  assert (H1 : cast t TString (VInt z) = VStr (str_of_int z)) by (destruct t; simpl in Hb; try discriminate; reflexivity).
  rewrite H1.
  rewrite (cast_string_integral t lo hi (str_of_int z) z Hb (str_of_int_nonempty z) (int_str_roundtrip z)).
  replace (lo <=? z) with true by (symmetry; apply Z.leb_le; lia).
  replace (z <=? hi) with true by (symmetry; apply Z.leb_le; lia).
  reflexivity.
Qed.

(* ---- splitting *)
Lemma split_on_no_sep sep s cur : ~ In sep s -> split_on sep s cur = [rev cur ++ s].
Proof.
  revert cur. induction s as [|c s IH]; intros cur Hn; cbn [split_on].
  - rewrite app_nil_r. reflexivity.
  - destruct (N.eqb_spec c sep) as [->|Hne]; [exfalso; apply Hn; left; reflexivity|].
    rewrite IH by (intros Hin; apply Hn; right; exact Hin).
    cbn [rev]. rewrite <- app_assoc. reflexivity.
Qed.

Lemma split_on_sep sep a b cur : ~ In sep a ->
  split_on sep (a ++ sep :: b) cur = (rev cur ++ a) :: split_on sep b [].
Proof.
  revert cur. induction a as [|c a IH]; intros cur Hn; cbn [app split_on].
  - rewrite N.eqb_refl, app_nil_r. reflexivity.
  - destruct (N.eqb_spec c sep) as [->|Hne]; [exfalso; apply Hn; left; reflexivity|].
    rewrite IH by (intros Hin; apply Hn; right; exact Hin).
    cbn [rev]. rewrite <- app_assoc. reflexivity.
Qed.

Lemma split_no_sep sep s : ~ In sep s -> split sep s = [s].
Proof. intros H. unfold split. rewrite split_on_no_sep by assumption. reflexivity. Qed.

Lemma split_sep sep a b : ~ In sep a -> split sep (a ++ sep :: b) = a :: split sep b.
Proof. intros H. unfold split. rewrite split_on_sep by assumption. reflexivity. Qed.

Lemma digits_no c s : all_digits s -> is_digit c = false -> ~ In c s.
Proof.
  intros H Hc Hin. unfold all_digits in H. rewrite Forall_forall in H.
  specialize (H c Hin). congruence.
Qed.

Lemma existsb_eqb_false c s : ~ In c s -> existsb (N.eqb c) s = false.
Proof.
  intros H. apply not_true_is_false. intros Hx. apply existsb_exists in Hx as [x [Hin Heq]].
  apply N.eqb_eq in Heq. subst. contradiction.
Qed.

(* the value of a non-empty digit string *)
Lemma py_int_digits s : all_digits s -> s <> [] -> py_int_of_str s = Some (dval s 0).
Proof.
  intros Hd Hne. unfold py_int_of_str.
  rewrite strip_id; try assumption.
  - destruct s as [|c r]; [contradiction|].
    assert (Hc : is_digit c = true) by (inversion Hd; assumption).
    assert (H45 : N.eqb c 45 = false).
    { unfold is_digit in Hc. rewrite andb_true_iff, !N.leb_le in Hc. apply N.eqb_neq. lia. }
    assert (H43 : N.eqb c 43 = false).
    { unfold is_digit in Hc. rewrite andb_true_iff, !N.leb_le in Hc. apply N.eqb_neq. lia. }
    rewrite H45, H43. apply digits_val_all; [assumption|left; discriminate].
  - destruct s as [|c r]; [contradiction|]. cbn [hd]. apply digit_not_space. inversion Hd; assumption.
  - apply digit_not_space. apply all_digits_last; assumption.
Qed.

Lemma dval_bound s : all_digits s -> 0 <= dval s 0 < 10 ^ Z.of_nat (List.length s).
Proof.
  intros H. unfold dval.
  assert (G : forall acc k, 0 <= acc < 10 ^ k -> 0 <= k ->
            0 <= fold_left (fun a c => a * 10 + (ch c - 48)) s acc < 10 ^ (k + Z.of_nat (List.length s))).
  { induction H as [|c s Hc Hs IH]; intros acc k Ha Hk; cbn [fold_left List.length].
    - rewrite Z.add_0_r. exact Ha.
    - unfold is_digit in Hc. rewrite andb_true_iff, !N.leb_le in Hc.
      rewrite Nat2Z.inj_succ. replace (k + Z.succ (Z.of_nat (List.length s))) with ((k + 1) + Z.of_nat (List.length s)) by lia.
      apply IH; [|lia]. rewrite Z.pow_add_r by lia. unfold ch. change (10 ^ 1) with 10. lia. }
  specialize (G 0 0). cbn in G. apply G; lia.
Qed.

(* yyyy-m-d made of digits (4, 1-2, 1-2) is the calendar date when it exists and null otherwise *)
Lemma date_ymd sy sm sd :
  all_digits sy -> all_digits sm -> all_digits sd ->
  List.length sy = 4%nat -> (1 <= List.length sm <= 2)%nat -> (1 <= List.length sd <= 2)%nat ->
  cast TString TDate (VStr (sy ++ 45%N :: sm ++ 45%N :: sd)) =
    if valid_date (dval sy 0) (dval sm 0) (dval sd 0)
    then VTup [VInt (dval sy 0); VInt (dval sm 0); VInt (dval sd 0)] else VNone.
Proof.
  intros Hy Hm Hd Ly Lm Ld.
  assert (N32 : forall s, all_digits s -> ~ In 32%N s) by (intros s H; apply digits_no; [exact H|reflexivity]).
  assert (N84 : forall s, all_digits s -> ~ In 84%N s) by (intros s H; apply digits_no; [exact H|reflexivity]).
  assert (N45 : forall s, all_digits s -> ~ In 45%N s) by (intros s H; apply digits_no; [exact H|reflexivity]).
  unfold cast. cbn [ty_eqb]. unfold cast_date.
  set (s := sy ++ 45%N :: sm ++ 45%N :: sd).
  assert (H32 : existsb (N.eqb 32) s = false).
  { apply existsb_eqb_false. unfold s. intros Hin.
    apply in_app_or in Hin as [Hin|[Hin|Hin]]; [apply (N32 sy Hy Hin)|discriminate|].
    apply in_app_or in Hin as [Hin|[Hin|Hin]]; [apply (N32 sm Hm Hin)|discriminate|apply (N32 sd Hd Hin)]. }
  assert (H84 : existsb (N.eqb 84) s = false).
  { apply existsb_eqb_false. unfold s. intros Hin.
    apply in_app_or in Hin as [Hin|[Hin|Hin]]; [apply (N84 sy Hy Hin)|discriminate|].
    apply in_app_or in Hin as [Hin|[Hin|Hin]]; [apply (N84 sm Hm Hin)|discriminate|apply (N84 sd Hd Hin)]. }
  rewrite H32, H84. unfold s.
  rewrite split_sep by (apply N45; assumption).
  rewrite split_sep by (apply N45; assumption).
  rewrite split_no_sep by (apply N45; assumption).
  unfold date_of_components. cbn [List.length]. rewrite Ly.
  cbn [Z.of_nat Z.ltb orb negb Z.eqb Pos.of_succ_nat Pos.succ Z.compare Pos.compare Pos.compare_cont Pos.eqb].
  cbn [map].
  assert (Ey : sy <> []) by (destruct sy; [discriminate|discriminate]).
  assert (Em : sm <> []) by (destruct sm; [cbn in Lm; lia|discriminate]).
  assert (Ed : sd <> []) by (destruct sd; [cbn in Ld; lia|discriminate]).
  rewrite (py_int_digits sy Hy Ey), (py_int_digits sm Hm Em), (py_int_digits sd Hd Ed).
  cbn [existsb orb map nth].
  pose proof (dval_bound sy Hy) as By. pose proof (dval_bound sm Hm) as Bm. pose proof (dval_bound sd Hd) as Bd.
  rewrite Ly in By.
  assert (Bm' : 0 <= dval sm 0 < 100).
  { destruct Bm as [B1 B2]. split; [assumption|]. eapply Z.lt_le_trans; [exact B2|].
    change 100 with (10 ^ 2). apply Z.pow_le_mono_r; lia. }
  assert (Bd' : 0 <= dval sd 0 < 100).
  { destruct Bd as [B1 B2]. split; [assumption|]. eapply Z.lt_le_trans; [exact B2|].
    change 100 with (10 ^ 2). apply Z.pow_le_mono_r; lia. }
  change (10 ^ Z.of_nat 4) with 10000 in By.
  assert (Hok : c_int_ok (dval sy 0) && c_int_ok (dval sm 0) && c_int_ok (dval sd 0) = true).
  { unfold c_int_ok. rewrite !andb_true_iff, !Z.leb_le. lia. }
  rewrite Hok. cbn [negb]. reflexivity.
Qed.

Definition rstrip (s : list N) : list N := rev (lstrip (rev s)).

Lemma strip_rstrip s : strip s = rstrip (lstrip s).
Proof. reflexivity. Qed.

Lemma lstrip_suffix u : exists p, u = p ++ lstrip u.
Proof.
  induction u as [|c u [p Hp]].
  - exists []. reflexivity.
  - cbn [lstrip]. destruct (is_space c).
    + exists (c :: p). cbn. f_equal. exact Hp.
    + exists []. reflexivity.
Qed.

Lemma lstrip_app u v :
  lstrip (u ++ v) = match lstrip u with [] => lstrip v | l => l ++ v end.
Proof.
  induction u as [|c u IH]; [reflexivity|].
  cbn [app lstrip]. destruct (is_space c); [exact IH|reflexivity].
Qed.

Lemma rstrip_app x y :
  rstrip (x ++ y) = match rstrip y with [] => rstrip x | l => x ++ l end.
Proof.
  unfold rstrip. rewrite rev_app_distr, lstrip_app.
  destruct (lstrip (rev y)) as [|d l] eqn:E.
  - reflexivity.
  - cbn [rev]. destruct (rev l ++ [d]) eqn:E2.
    + apply app_eq_nil in E2 as [_ E2]. discriminate.
    + rewrite <- E2. rewrite rev_app_distr, rev_involutive. cbn [rev]. reflexivity.
Qed.

(* rstrip of a non-empty string is empty or keeps the head *)
Lemma rstrip_head c r : rstrip (c :: r) = [] \/ exists t, rstrip (c :: r) = c :: t.
Proof.
  unfold rstrip.
  destruct (lstrip_suffix (rev (c :: r))) as [p Hp].
  destruct (lstrip (rev (c :: r))) as [|d l] eqn:E; [left; reflexivity|right].
  apply (f_equal (@rev N)) in Hp. rewrite rev_involutive, rev_app_distr in Hp.
  destruct (rev (d :: l)) as [|h t] eqn:E2.
  - apply (f_equal (@List.length N)) in E2. rewrite rev_length in E2. discriminate.
  - cbn [app] in Hp. inversion Hp; subst. exists t. reflexivity.
Qed.

Lemma rstrip_id_last s : s <> [] -> is_space (last s 0%N) = false -> rstrip s = s.
Proof.
  intros Hne Hl. unfold rstrip.
  destruct (rev s) as [|d r] eqn:Hr.
  - apply (f_equal (@List.length N)) in Hr. rewrite rev_length in Hr. destruct s; [contradiction|discriminate].
  - assert (Hd : d = last s 0%N).
    { rewrite <- (rev_involutive s), Hr. cbn [rev]. rewrite last_last. reflexivity. }
    rewrite lstrip_id by (rewrite Hd; exact Hl).
    rewrite <- Hr. apply rev_involutive.
Qed.

Lemma hd_split_app sep a b : ~ In sep a -> hd [] (split sep (a ++ b)) = a ++ hd [] (split sep b).
Proof.
  intros Hn. unfold split.
  assert (G : forall cur, hd [] (split_on sep (a ++ b) cur) = rev cur ++ a ++ hd [] (split_on sep b [])).
  { induction a as [|c a IH]; intros cur.
    - cbn [app].
      assert (G2 : forall s cur, hd [] (split_on sep s cur) = rev cur ++ hd [] (split_on sep s [])).
      { induction s as [|c s IHs]; intros cur'; cbn [split_on].
        - cbn. rewrite app_nil_r. reflexivity.
        - destruct (N.eqb c sep); [cbn; rewrite app_nil_r; reflexivity|].
          rewrite IHs. rewrite (IHs [c]). cbn [rev app]. rewrite <- app_assoc. reflexivity. }
      apply G2.
    - cbn [app split_on]. destruct (N.eqb_spec c sep) as [->|Hne]; [exfalso; apply Hn; left; reflexivity|].
      rewrite IH by (intros Hin; apply Hn; right; exact Hin).
      cbn [rev]. rewrite <- !app_assoc. reflexivity. }
  rewrite G. reflexivity.
Qed.

Lemma hd_split_sep sep a b : ~ In sep a -> hd [] (split sep (a ++ sep :: b)) = a.
Proof. intros H. rewrite split_sep by assumption. reflexivity. Qed.

Lemma existsb_eqb_true c s : In c s -> existsb (N.eqb c) s = true.
Proof. intros H. apply existsb_exists. exists c. split; [assumption|apply N.eqb_refl]. Qed.

(* the date part before a space or a 'T' is all that counts *)
Section DatePrefix.
  Variable base : list N.
  Hypothesis base_ne : base <> [].
  Hypothesis base_hd : is_space (hd 0%N base) = false.
  Hypothesis base_last : is_space (last base 0%N) = false.
  Hypothesis base_no32 : ~ In 32%N base.
  Hypothesis base_no84 : ~ In 84%N base.

  Lemma lstrip_base_app r : lstrip (base ++ r) = base ++ r.
  Proof. destruct base as [|c b]; [contradiction|]. cbn [app]. apply lstrip_id. exact base_hd. Qed.

  Lemma date_prefix_space rest :
    cast_date TString (VStr (base ++ 32%N :: rest)) = cast_date TString (VStr base).
  Proof.
    unfold cast_date.
    rewrite (existsb_eqb_true 32%N (base ++ 32%N :: rest)) by (apply in_or_app; right; left; reflexivity).
    rewrite (existsb_eqb_false 32%N base base_no32).
    rewrite strip_rstrip, lstrip_base_app, rstrip_app.
    assert (H1 : hd [] (split 32 match rstrip (32%N :: rest) with [] => rstrip base | (_ :: _) as l => base ++ l end) = base).
    { destruct (rstrip_head 32%N rest) as [E|[t E]]; rewrite E.
      - rewrite rstrip_id_last by assumption. rewrite split_no_sep by assumption. reflexivity.
      - apply hd_split_sep. assumption. }
    rewrite H1. reflexivity.
  Qed.

  Lemma date_prefix_T rest :
    cast_date TString (VStr (base ++ 84%N :: rest)) = cast_date TString (VStr base).
  Proof.
    unfold cast_date.
    rewrite (existsb_eqb_false 32%N base base_no32).
    rewrite (existsb_eqb_false 84%N base base_no84).
    destruct (existsb (N.eqb 32) (base ++ 84%N :: rest)) eqn:E32.
    - rewrite strip_rstrip, lstrip_base_app, rstrip_app.
      destruct (rstrip_head 84%N rest) as [E|[t E]].
      + exfalso. unfold rstrip in E. apply (f_equal (@rev N)) in E. rewrite rev_involutive in E. cbn [rev] in E.
        rewrite lstrip_app in E.
        destruct (lstrip (rev rest)); cbn in E; [discriminate|].
        destruct l; discriminate.
      + rewrite E. rewrite hd_split_app by assumption.
        set (u := hd [] (split 32 (84%N :: t))).
        assert (Hu : exists u', u = 84%N :: u').
        { unfold u, split. cbn [split_on]. replace (N.eqb 84 32) with false by reflexivity.
          assert (G : forall s cur, exists u', hd [] (split_on 32 s (cur ++ [84%N])) = 84%N :: u').
          { induction s as [|c s IHs]; intros cur; cbn [split_on].
            - rewrite rev_app_distr. cbn. eexists. reflexivity.
            - destruct (N.eqb c 32).
              + rewrite rev_app_distr. cbn. eexists. reflexivity.
              + apply (IHs (c :: cur)). }
          apply (G t []). }
        destruct Hu as [u' ->].
        rewrite (existsb_eqb_true 84%N (base ++ 84%N :: u')) by (apply in_or_app; right; left; reflexivity).
        rewrite hd_split_sep by assumption. reflexivity.
    - rewrite (existsb_eqb_true 84%N (base ++ 84%N :: rest)) by (apply in_or_app; right; left; reflexivity).
      rewrite hd_split_sep by assumption. reflexivity.
  Qed.
End DatePrefix.

Lemma last_app_nonempty (a b : list N) d : b <> [] -> last (a ++ b) d = last b d.
Proof.
  intros Hb. induction a as [|c a IH]; [reflexivity|].
  cbn [app]. destruct (a ++ b) eqn:E.
  - apply app_eq_nil in E as [_ E]. contradiction.
  - rewrite <- E in *. cbn [last]. rewrite E. rewrite <- E. exact IH.
Qed.

Lemma date_ymd_time sy sm sd sep rest :
  all_digits sy -> all_digits sm -> all_digits sd ->
  List.length sy = 4%nat -> (1 <= List.length sm <= 2)%nat -> (1 <= List.length sd <= 2)%nat ->
  sep = 32%N \/ sep = 84%N ->
  cast TString TDate (VStr ((sy ++ 45%N :: sm ++ 45%N :: sd) ++ sep :: rest)) =
  cast TString TDate (VStr (sy ++ 45%N :: sm ++ 45%N :: sd)).
Proof.
  intros Hy Hm Hd Ly Lm Ld Hsep.
  set (base := sy ++ 45%N :: sm ++ 45%N :: sd).
  assert (Hno : forall c, is_digit c = false -> c <> 45%N -> ~ In c base).
  { intros c Hc H45 Hin. unfold base in Hin.
    apply in_app_or in Hin as [Hin|[Hin|Hin]]; [apply (digits_no c sy Hy Hc Hin)|congruence|].
    apply in_app_or in Hin as [Hin|[Hin|Hin]]; [apply (digits_no c sm Hm Hc Hin)|congruence|apply (digits_no c sd Hd Hc Hin)]. }
  assert (Hne : base <> []) by (unfold base; destruct sy; discriminate).
  assert (Hhd : is_space (hd 0%N base) = false).
  { unfold base. destruct sy as [|c sy']; [discriminate|]. cbn [app hd]. apply digit_not_space. inversion Hy; assumption. }
  assert (Hlast : is_space (last base 0%N) = false).
  { unfold base. destruct sd as [|c sd']; [cbn in Ld; lia|].
    replace (sy ++ 45%N :: sm ++ 45%N :: c :: sd') with ((sy ++ 45%N :: sm ++ [45%N]) ++ c :: sd')
      by (rewrite <- !app_assoc; cbn; rewrite <- app_assoc; reflexivity).
    rewrite last_app_nonempty by discriminate. apply digit_not_space. apply all_digits_last; [assumption|discriminate]. }
  unfold cast. cbn [ty_eqb].
  destruct Hsep as [->| ->].
  - apply date_prefix_space; try assumption; apply Hno; solve [reflexivity|discriminate].
  - apply date_prefix_T; try assumption; apply Hno; solve [reflexivity|discriminate].
Qed.
