(* C16 -- randomSplit assigns every element to exactly one split, order kept (full statement). *)
From Coq Require Import ZArith NArith Bool String List Lia Permutation.
From Coq Require Import SpecFloat.
Require Import PV.Base.Num PV.Base.NumSF PV.Gen.Sampling PV.Model.Sample.
Require Import PV.Proofs.Sample PV.Proofs.SampleOrd PV.Proofs.SampleSplit PV.Proofs.SampleFloat.
Import ListNotations.
Open Scope Z_scope.

(* a weight is a finite non-negative binary64 value (or an int that converts to one) *)
Definition wok (w : wnum) : Prop :=
  valid (w2f w) /\ sf_finite (w2f w) = true /\ SFleb sf_zero (w2f w) = true.
(* non-negative weights with a positive sum (the sum as Python's sum() computes it) *)
Definition weights_ok (ws : list wnum) : Prop :=
  Forall wok ws /\ SFltb sf_zero (w2f (py_sum ws)) = true.

Definition stv (st : sumst) : Prop :=
  match st with SumI _ => True | SumF f c => valid f /\ valid c end.

Lemma sum_step_valid st w : stv st -> valid (w2f w) -> stv (sum_step st w).
Proof.
  destruct st as [a|f c], w as [z|x]; simpl; intros Hs Hw; auto.
  - split; [apply valid_add; [apply valid_ofZ | exact Hw] | apply valid_zero].
  - destruct Hs as [Hf Hc]. split; [apply valid_add; [exact Hf | apply valid_ofZ] | exact Hc].
  - destruct Hs as [Hf Hc]. split; [apply valid_add; assumption|].
    destruct (SFleb _ _); apply valid_add; try assumption; apply valid_add; try assumption;
      apply valid_sub; try assumption; apply valid_add; assumption.
Qed.

Lemma fold_sum_valid ws : forall st, stv st -> Forall wok ws -> stv (fold_left sum_step ws st).
Proof.
  induction ws as [|w ws IH]; intros st Hs Hw; simpl; [exact Hs|].
  inversion Hw as [|? ? [H1 _] H2]; subst. apply IH; [apply sum_step_valid; assumption | assumption].
Qed.

Lemma py_sum_valid ws : Forall wok ws -> valid (w2f (py_sum ws)).
Proof.
  intros Hw. unfold py_sum. pose proof (fold_sum_valid ws (SumI 0) I Hw) as H.
  destruct (fold_left sum_step ws (SumI 0)) as [a|f c]; simpl.
  - apply valid_ofZ.
  - destruct H as [Hf Hc]. destruct (_ && _); [apply valid_add; assumption | exact Hf].
Qed.

Lemma boundaries_mono ws s : valid s -> SFltb sf_zero s = true -> Forall wok ws ->
  forall b, valid b -> SFleb sf_zero b = true -> mono b (boundaries_from b ws s).
Proof.
  intros Hs Hpos. induction ws as [|w ws IH]; intros Hw b Hb H0; cbn [boundaries_from mono]; [exact I|].
  inversion Hw as [|? ? [Hv [Hf Hn]] Hw']; subst. rewrite rs_next_link.
  assert (Hq : valid (sf_div (w2f w) s)) by (apply valid_div; assumption).
  assert (Hq0 : SFleb sf_zero (sf_div (w2f w) s) = true) by (apply div_nonneg; assumption).
  assert (Hle : SFleb b (sf_add b (sf_div (w2f w) s)) = true) by (apply add_mono; assumption).
  split; [exact Hle|]. apply IH; [exact Hw' | apply valid_add; assumption | exact (le_trans _ _ _ H0 Hle)].
Qed.

Lemma boundaries_from_length b ws s : List.length (boundaries_from b ws s) = List.length ws.
Proof. revert b; induction ws; intros b; simpl; auto. Qed.

Lemma ivs_of_length lb cs U : List.length (ivs_of lb cs U) = S (List.length cs).
Proof. revert lb; induction cs; intros lb; simpl; auto. Qed.

Lemma removelast_length {B} (l : list B) : l <> [] -> S (List.length (removelast l)) = List.length l.
Proof.
  destruct l as [|x l']; [congruence|]. intros H.
  rewrite (app_removelast_last x H) at 2. rewrite app_length. simpl. lia.
Qed.

Section RS.
Variable A : Type.

Theorem randomSplit_partition (O : oracle) ws seed (parts : list (list A)) g splits g' :
  weights_ok ws -> draws01 O ->
  randomSplit A O ws seed parts g = Ok (splits, g') ->
  exists a : list nat,
    List.length a = List.length (List.concat parts) /\
    Forall (fun i => (i < List.length ws)%nat) a /\
    splits = map (fun i => select A i (List.concat parts) a) (seq 0 (List.length ws)).
Proof.
  intros [Hw Hpos] HO. unfold randomSplit, boundaries.
  pose proof (py_sum_valid ws Hw) as Hsv.
  destruct ws as [|w ws'] eqn:Ews; [discriminate|]. rewrite <- Ews in *.
  assert (Hnz : w_is_zero (py_sum ws) = false).
  { destruct (py_sum ws) as [z|f]; simpl in *.
    - destruct (Z.eqb_spec z 0) as [-> |]; [discriminate | reflexivity].
    - destruct f; simpl in *; try discriminate; reflexivity. }
  rewrite Hnz. unfold force_last. rewrite rs_force_last_link, rs_first_link.
  set (bl := boundaries_from sf_zero ws (w2f (py_sum ws))).
  assert (Hbl : bl <> []) by (unfold bl; rewrite Ews; discriminate).
  match goal with |- context [splits_of A ?iv] =>
    change iv with (intervals (removelast (sf_zero :: bl) ++ [sf_one])) end.
  rewrite (intervals_forced bl sf_zero sf_one Hbl).
  assert (Hm : mono sf_zero (removelast bl)).
  { apply mono_removelast. apply boundaries_mono; try assumption; [apply valid_zero | reflexivity]. }
  simpl ggen. simpl gtag.
  destruct (tag_draws A (List.concat parts) (gu (O seed))) as [[tagged rest]|] eqn:Et; [|discriminate].
  intros [= <- _]. destruct (tag_draws_inv A _ _ _ _ Et) as [Hes Hus].
  assert (Hall : Forall (fun er => count (snd er) (ivs_of sf_zero (removelast bl) sf_one) = 1%nat) tagged).
  { pose proof (HO seed) as Hd. rewrite Hus in Hd. apply Forall_app in Hd as [Hd _].
    rewrite Forall_map in Hd. eapply Forall_impl; [|exact Hd]. intros [e r] [H0 H1]. simpl in *.
    apply exactly_one; assumption. }
  destruct (splits_assignment A _ _ Hall) as [H1 [H2 H3]].
  assert (Hlen : List.length (ivs_of sf_zero (removelast bl) sf_one) = List.length ws).
  { rewrite ivs_of_length, removelast_length by exact Hbl. apply boundaries_from_length. }
  rewrite Hlen, Hes in *.
  eexists. split; [exact H1|]. split; [exact H2 | exact H3].
Qed.

(* consequences in the words of the property: as many splits as weights, every split keeps the order of
   the data, and the splits together are exactly the data *)
Corollary randomSplit_order_and_partition (O : oracle) ws seed (parts : list (list A)) g splits g' :
  weights_ok ws -> draws01 O ->
  randomSplit A O ws seed parts g = Ok (splits, g') ->
  List.length splits = List.length ws /\
  Forall (fun s => Subseq s (List.concat parts)) splits /\
  Permutation (List.concat splits) (List.concat parts).
Proof.
  intros Hw HO H. destruct (randomSplit_partition O ws seed parts g splits g' Hw HO H) as [a [H1 [H2 ->]]].
  split; [now rewrite map_length, seq_length|]. split.
  - apply Forall_forall. intros s Hs. apply in_map_iff in Hs as [i [<- _]]. apply select_Subseq. exact H1.
  - apply select_partition; assumption.
Qed.

(* randomSplit reseeds the module-level generator: its result does not depend on the state before *)
Lemma randomSplit_deterministic (O : oracle) ws seed (parts : list (list A)) g1 g2 :
  randomSplit A O ws seed parts g1 = randomSplit A O ws seed parts g2.
Proof. reflexivity. Qed.

End RS.
