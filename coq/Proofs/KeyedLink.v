(* C02: link lemmas -- the per-group comprehensions, the subtractByKey filter and the groupByKey loop body
   regenerated from rdd.py (PV.Gen.KeyedJoin) are the hand-named definitions of PV.Model.Keyed. *)
From Coq Require Import ZArith List Bool.
Require Import PV.Gen.KeyedJoin PV.Model.Keyed.
Import ListNotations.

Definition is_some {A} (o : option A) : bool := match o with Some _ => true | None => false end.

Lemma flat_map_singleton {A B} (f : A -> B) l : flat_map (fun x => [f x]) l = map f l.
Proof. induction l as [|a l IH]; simpl; [reflexivity | rewrite IH; reflexivity]. Qed.

Section Link.
  Context {K : Type} (keqb : K -> K -> bool) {V W : Type}.

  (* `k in d` and `d[k]` of the dict the lambda closes over *)
  Definition has_key {A} (d : list (K * A)) (k : K) : bool := is_some (dget keqb k d).
  Definition get_key {A} (d : list (K * list A)) (k : K) : list A := dflt (dget keqb k d).

  Lemma join_fn_link (d : list (K * list W)) (kv : K * list V) :
    join_fn keqb d kv = gen_join_fn (has_key d) (get_key d) kv.
  Proof.
    unfold join_fn, gen_join_fn, has_key, get_key. apply flat_map_ext. intros v.
    rewrite flat_map_singleton. destruct (dget keqb (fst kv) d); reflexivity.
  Qed.
  Lemma loj_fn_link (d : list (K * list W)) (kv : K * list V) :
    loj_fn keqb d kv = gen_loj_fn (has_key d) (get_key d) kv.
  Proof.
    unfold loj_fn, gen_loj_fn, has_key, get_key. apply flat_map_ext. intros v.
    rewrite flat_map_singleton. destruct (dget keqb (fst kv) d); reflexivity.
  Qed.
  Lemma roj_fn_link (d : list (K * list V)) (kv : K * list W) :
    roj_fn keqb d kv = gen_roj_fn (has_key d) (get_key d) kv.
  Proof.
    unfold roj_fn, gen_roj_fn, has_key, get_key. apply flat_map_ext. intros w.
    rewrite flat_map_singleton. destruct (dget keqb (fst kv) d); reflexivity.
  Qed.
  Lemma foj_fn_link (e : K * (list V * list W)) : foj_fn e = gen_foj_fn e.
  Proof.
    unfold foj_fn, gen_foj_fn. destruct e as [k [vs ws]]. simpl.
    assert (E : forall X (l : list X), or_none l = if gen_truthy l then map Some l else [None]).
    { intros X l. destruct l; reflexivity. }
    rewrite <- !E. apply flat_map_ext. intros v. rewrite flat_map_singleton. reflexivity.
  Qed.
  Lemma semi_fn_link (d : list (K * list W)) (kv : K * list V) :
    map (fun e => (fst e, (snd e, tt))) (semi_fn keqb d kv) = gen_semi_fn (has_key d) kv.
  Proof.
    unfold semi_fn, gen_semi_fn, has_key. destruct (dget keqb (fst kv) d); simpl.
    - rewrite !flat_map_singleton, map_map. reflexivity.
    - induction (snd kv) as [|v0 l0 IH]; simpl; [reflexivity | exact IH].
  Qed.
  Lemma anti_fn_link (d : list (K * list W)) (kv : K * list V) :
    map (fun e => (fst e, (snd e, @None unit))) (anti_fn keqb d kv) = gen_anti_fn (has_key d) kv.
  Proof.
    unfold anti_fn, gen_anti_fn, has_key. destruct (dget keqb (fst kv) d); simpl.
    - induction (snd kv) as [|v0 l0 IH]; simpl; [reflexivity | exact IH].
    - rewrite !flat_map_singleton, map_map. reflexivity.
  Qed.
  Lemma subk_keep_link (e : K * (list V * list W)) : subk_keep e = gen_subk_keep (fst (snd e)) (snd (snd e)).
  Proof. reflexivity. Qed.
  Lemma group_step_link (xs : list (K * V)) : group_by_key keqb xs = build keqb gen_group_step gen_group_init xs.
  Proof. reflexivity. Qed.
End Link.
