(* C05 -- no recomputation along histories (CacheManager): an entry, once there, stays until the
   unpersist() of its dataset; so every later action on the dataset or a descendant finds it. *)
From Coq Require Import ZArith List Bool Lia.
Require Import PV.Model.Cache PV.Model.CacheSpec PV.Proofs.CacheStream PV.Proofs.CacheWorld
  PV.Proofs.CacheRecompute PV.Proofs.CacheRecompute3.
Import ListNotations.
Open Scope Z_scope.

Section History.
Variable A : Type.
Implicit Types (w : world A) (P : pipeline A) (m : mgr A) (st : state A).

Definition pk (k : key) m : Prop := has_key k m /\ m_timeout m = None.

Lemma pk_kept : forall now k m, pk k m -> kept A now k m.
Proof. intros now k m [H1 H2]. split; auto. unfold stable. rewrite H2. exact I. Qed.

Lemma compute_pk : forall now rn i src m k, pk k m -> pk k (snd (fst (compute now rn i src m))).
Proof.
  intros now rn i src m k H. destruct (compute_keeps A now rn i src m k (pk_kept now k m H)) as [[K1 _] K2].
  - right; apply H.
  - split; auto. rewrite K2; apply H.
Qed.

Lemma run_all_pk : forall now rn parts i m k, pk k m -> pk k (snd (run_all now rn parts i m)).
Proof.
  induction parts as [|src ps IH]; intros i m k H; simpl; auto.
  pose proof (compute_pk now rn i src m k H) as C.
  destruct (compute now rn i src m) as [[s m1] ev0]; simpl in *.
  specialize (IH (i + 1) m1 k C). destruct (run_all now rn ps (i + 1) m1) as [[rest ev2] m2]; simpl in *; auto.
Qed.

Lemma run_take_pk : forall now rn parts i n m k, pk k m -> pk k (snd (run_take now rn parts i n m)).
Proof.
  induction parts as [|src ps IH]; intros i n m k H.
  - destruct n; simpl; auto.
  - destruct n as [|n']; [simpl; auto|].
    change (run_take now rn (src :: ps) i (Datatypes.S n') m) with
      (let '(s, m1, ev0) := compute now rn i src m in
       let '(xs, ev1, r) := ltake (Datatypes.S n') (cells s) (trail s) in
       let '(ys, ev2, m2) := run_take now rn ps (i + 1) r m1 in
       (xs ++ ys, ev0 ++ ev1 ++ ev2, m2)).
    pose proof (compute_pk now rn i src m k H) as C.
    destruct (compute now rn i src m) as [[s m1] ev0].
    remember (ltake (Datatypes.S n') (cells s) (trail s)) as lt eqn:Elt. clear Elt.
    destruct lt as [[xs ev1] r]. cbn [fst snd] in *.
    specialize (IH (i + 1) r m1 k C). destruct (run_take now rn ps (i + 1) r m1) as [[ys ev2] m2]; auto.
Qed.

Lemma run_pool_pk : forall now rn parts m k, pk k m -> pk k (snd (run_pool now rn parts m)).
Proof.
  intros now rn parts m k H. unfold run_pool; simpl.
  generalize (pool_tasks now rn parts 0 m). intros ts. revert m H.
  induction ts as [|t ts IH]; intros m H; simpl; auto. apply IH.
  destruct (kept_join A now k (snd t) m (pk_kept now k m H)) as [K _]; [right; apply H|].
  split; auto. rewrite m_join_timeout. apply H.
Qed.

Lemma run_action_pk : forall pool now rn parts a m k, pk k m -> pk k (snd (run_action_on pool now rn parts a m)).
Proof.
  intros pool now rn parts a m k H.
  assert (Hall : forall ak,
     pk k (snd (let '(ps, ev, m') := if pool then run_pool now rn parts m else run_all now rn parts 0 m in
               (finish ak ps, ev, m')))).
  { intros ak. destruct pool.
    - pose proof (run_pool_pk now rn parts m k H) as R.
      destruct (run_pool now rn parts m) as [[ps ev] m']; simpl in *; auto.
    - pose proof (run_all_pk now rn parts 0 m k H) as R.
      destruct (run_all now rn parts 0 m) as [[ps ev] m']; simpl in *; auto. }
  destruct a as [| |n|]; unfold run_action_on; cbv iota.
  - apply Hall.
  - apply Hall.
  - pose proof (run_take_pk now rn parts 0 n m k H) as R.
    destruct (run_take now rn parts 0 n m) as [[xs ev] m']; simpl in *; auto.
  - pose proof (run_take_pk now rn parts 0 1%nat m k H) as R.
    destruct (run_take now rn parts 0 1%nat m) as [[xs ev] m']; simpl in *; auto.
Qed.

Lemma delete_parts_pk : forall rid n i0 m k, fst k <> rid -> pk k m -> pk k (delete_parts rid n i0 m).
Proof.
  induction n as [|n IH]; intros i0 m k Hne H; simpl; auto. apply IH; auto.
  destruct H as [H1 H2]. split; auto. unfold has_key, m_delete in *; simpl.
  apply dict_del_keys; split; auto. intros ->; simpl in Hne; congruence.
Qed.

Lemma nth_set_nth : forall {X} (l : list X) n n' x y,
  nth_error l n = Some y -> nth_error (set_nth n' x l) n = Some (if Nat.eqb n n' then x else y).
Proof.
  induction l as [|a l IH]; intros [|n] [|n'] x y H; simpl in *; try discriminate; auto.
Qed.

(* the state keeps "manager mi is a CacheManager and has key k" *)
Definition st_pk (mi : nat) (k : key) st : Prop := exists m, nth_error (s_mgrs st) mi = Some m /\ pk k m.

(* an action that is not the unpersist() of the dataset with id (fst k) keeps the entry *)
Definition unpersists (w : world A) (rid : Z) (a : action) : Prop :=
  match a with
  | Unpersist k' (Datatypes.S j') =>
      match nth_error (w_pipes w) k' with
      | Some P' => exists s, nth_error (p_nodes P') j' = Some (rid, s)
      | None => False
      end
  | _ => False
  end.

Lemma step_pk : forall w st a mi k, st_pk mi k st -> ~ unpersists w (fst k) a -> st_pk mi k (snd (step w st a)).
Proof.
  intros w st a mi k [m [Em Hm]] Hnu. unfold st_pk. destruct a as [k' j ak|k' j|dt|mi']; simpl.
  - destruct (nth_error (w_pipes w) k') as [P|]; [|simpl; eauto].
    destruct (nth_error (w_ctxs w) (p_ctx P)) as [cx|]; [|simpl; eauto].
    destruct (nth_error (s_mgrs st) (c_mgr cx)) as [m0|] eqn:Em0; [|simpl; eauto].
    destruct (length (p_nodes P) <? j)%nat; [simpl; eauto|].
    pose proof (run_action_pk (c_pool cx) (s_now st) (rev_prefix j (p_nodes P)) (p_parts P) ak m0 k) as R.
    destruct (run_action_on (c_pool cx) (s_now st) (rev_prefix j (p_nodes P)) (p_parts P) ak m0) as [[r ev] m'].
    simpl in *. rewrite (nth_set_nth _ _ _ m' _ Em).
    destruct (Nat.eqb mi (c_mgr cx)) eqn:E; eauto.
    apply Nat.eqb_eq in E; subst. rewrite Em in Em0; inversion Em0; subst. eauto.
  - destruct (nth_error (w_pipes w) k') as [P|] eqn:EP; [|simpl; eauto].
    destruct (nth_error (w_ctxs w) (p_ctx P)) as [cx|]; [|simpl; eauto].
    destruct (nth_error (s_mgrs st) (c_mgr cx)) as [m0|] eqn:Em0; [|simpl; eauto].
    destruct j as [|j']; [simpl; eauto|].
    destruct (nth_error (p_nodes P) j') as [[rid [f|p|g|fi0|h0|]]|] eqn:EN; simpl; eauto.
    rewrite (nth_set_nth _ _ _ (delete_parts rid (length (p_parts P)) 0 m0) _ Em).
    destruct (Nat.eqb mi (c_mgr cx)) eqn:E; eauto.
    apply Nat.eqb_eq in E; subst. rewrite Em in Em0; inversion Em0; subst.
    eexists; split; eauto. apply delete_parts_pk; auto.
    intros Heq. apply Hnu. simpl. rewrite EP. exists SPersist. rewrite EN, Heq. reflexivity.
  - eauto.
  - destruct (nth_error (s_mgrs st) mi') as [m0|] eqn:Em0; simpl; eauto.
    rewrite (nth_set_nth _ _ _ (m_gc (s_now st) m0) _ Em).
    destruct (Nat.eqb mi mi') eqn:E; eauto.
    apply Nat.eqb_eq in E; subst. rewrite Em in Em0; inversion Em0; subst.
    eexists; split; eauto. destruct Hm as [H1 H2]. unfold m_gc. rewrite H2. split; auto.
Qed.

Lemma history_pk : forall w h st mi k,
  st_pk mi k st -> Forall (fun a => ~ unpersists w (fst k) a) h -> st_pk mi k (final_state w st h).
Proof.
  intros w h. unfold final_state. induction h as [|a h IH]; intros st mi k H Hf; simpl; auto.
  inversion Hf; subst. apply IH; auto. apply step_pk; auto.
Qed.

(* once (rid, i) is in the CacheManager of the dataset's context, EVERY later action on the persisted
   dataset or a descendant, after ANY history that does not unpersist that dataset, makes no call of an
   upstream function for partition i *)
Theorem no_recompute_history_plain : forall w st1 h2 k P cx m1 pre rid post jd ak i,
  built w ->
  nth_error (w_pipes w) k = Some P -> p_nodes P = pre ++ (rid, SPersist) :: post ->
  nth_error (w_ctxs w) (p_ctx P) = Some cx -> nth_error (s_mgrs st1) (c_mgr cx) = Some m1 ->
  m_timeout m1 = None -> has_key (rid, i) m1 ->
  Forall (fun a => ~ unpersists w rid a) h2 ->
  user_calls_of (map fst pre) i
    (snd (fst (step w (final_state w st1 h2) (Act k (length pre + 1 + jd) ak)))) = [].
Proof.
  intros w st1 h2 k P cx m1 pre rid post jd ak i Hb EP EN Ecx Em Hto Hk Hf.
  destruct (history_pk w h2 st1 (c_mgr cx) (rid, i)) as [m2 [Em2 [Hk2 Hto2]]]; auto.
  { exists m1; split; auto. split; auto. }
  eapply no_recompute_step_plain; eauto.
Qed.

(* "has been computed": a collect()/count() on the persisted dataset itself (local job, CacheManager)
   leaves an entry for every partition *)
Lemma compute_timeout : forall now rn i src m, m_timeout (snd (fst (compute now rn i src m))) = m_timeout m.
Proof.
  induction rn as [|[rid st] up IH]; intros i src m; simpl; auto.
  specialize (IH i src m).
  destruct st as [f|p|g|fi|h|].
  4: { destruct (compute now up i src m) as [[s m1] ev]; simpl in *; auto. }
  4: { destruct (compute now up i src m) as [[s m1] ev]; simpl in *; auto. }
  - destruct (compute now up i src m) as [[s m1] ev]; simpl in *; auto.
  - destruct (compute now up i src m) as [[s m1] ev]; simpl in *; auto.
  - destruct (compute now up i src m) as [[s m1] ev]; simpl in *; auto.
  - destruct (m_get (rid, i) m); simpl; auto.
    destruct (compute now up i src m) as [[s m1] ev]; simpl in *. rewrite m_add_timeout; auto.
Qed.

Lemma compute_persist_present : forall now rid up i src m,
  m_timeout m = None -> pk (rid, i) (snd (fst (compute now ((rid, SPersist) :: up) i src m))).
Proof.
  intros now rid up i src m Hto. simpl.
  destruct (m_get (rid, i) m) as [data|] eqn:G; simpl.
  - split; auto. apply m_get_In in G. destruct G as [t G]. unfold has_key. apply (in_map fst) in G; auto.
  - pose proof (compute_timeout now up i src m) as T.
    destruct (compute now up i src m) as [[s m1] ev]; simpl in *. rewrite Hto in T. split.
    + unfold has_key, m_add. rewrite T; simpl. apply dict_set_keys; auto.
    + rewrite m_add_timeout; auto.
Qed.

Lemma run_all_cons : forall now rn src ps i m,
  run_all now rn (src :: ps) i m =
  (let '(s, m1, ev0) := compute now rn i src m in
   let '(xs, ev1) := force s in
   let '(rest, ev2, m2) := run_all now rn ps (i + 1) m1 in
   (xs :: rest, ev0 ++ ev1 ++ ev2, m2)).
Proof. reflexivity. Qed.

Theorem collect_caches_all_plain : forall now rid up parts i0 m idx,
  m_timeout m = None -> (idx < length parts)%nat ->
  pk (rid, i0 + Z.of_nat idx) (snd (run_all now ((rid, SPersist) :: up) parts i0 m)).
Proof.
  induction parts as [|src ps IH]; intros i0 m idx Hto Hlt; [simpl in Hlt; lia|].
  pose proof (compute_persist_present now rid up i0 src m Hto) as C.
  pose proof (compute_timeout now ((rid, SPersist) :: up) i0 src m) as T.
  rewrite run_all_cons. destruct (compute now ((rid, SPersist) :: up) i0 src m) as [[s m1] ev0]. cbn [fst snd force] in *.
  rewrite Hto in T.
  destruct idx as [|idx].
  - pose proof (run_all_pk now ((rid, SPersist) :: up) ps (i0 + 1) m1 (rid, i0) C) as R.
    destruct (run_all now ((rid, SPersist) :: up) ps (i0 + 1) m1) as [[rest ev2] m2]. cbn [fst snd] in *.
    simpl. rewrite Z.add_0_r. exact R.
  - specialize (IH (i0 + 1) m1 idx T ltac:(simpl in Hlt; lia)).
    destruct (run_all now ((rid, SPersist) :: up) ps (i0 + 1) m1) as [[rest ev2] m2]. cbn [fst snd] in *.
    replace (i0 + Z.of_nat (Datatypes.S idx)) with (i0 + 1 + Z.of_nat idx) by lia. exact IH.
Qed.

End History.
