(* C08 -- text layer: str.splitlines after joining with newlines, utf8 round trip *)
From Coq Require Import String ZArith NArith List Bool Lia.
Require Import PV.Base.PyStrOps PV.Gen.Codecs PV.Model.Files.
Import ListNotations.
Ltac Zify.zify_post_hook ::= Z.to_euclidean_division_equations.

(* ---------- splitlines *)
Definition no_break (l : str) : Prop := Forall (fun c => is_break c = false) l.

Lemma splitlines_line : forall l rest, no_break l -> splitlines (l ++ 10%N :: rest) = l :: splitlines rest.
Proof.
  induction l as [|c l IH]; intros rest H.
  - cbn [app splitlines]. change (is_break 10) with true. cbv iota.
    destruct rest as [|d r]; [reflexivity|].
    change (10 =? 13)%N with false. reflexivity.
  - inversion H as [|? ? Hc Hl]; subst.
    cbn [app splitlines]. rewrite Hc. rewrite (IH rest Hl). reflexivity.
Qed.

Lemma splitlines_join : forall ls, Forall no_break ls -> splitlines (concat (map text_line ls)) = ls.
Proof.
  induction ls as [|l ls IH]; intros H; [reflexivity|].
  inversion H as [|? ? Hl Hls]; subst.
  cbn [map concat]. unfold text_line at 1. rewrite <- app_assoc. cbn [app].
  rewrite splitlines_line by assumption. rewrite IH by assumption. reflexivity.
Qed.

Section Utf8Proofs.
Open Scope N_scope.

Ltac nb :=
  repeat match goal with
  | |- context [?a <? ?b] => let E := fresh "E" in destruct (N.ltb_spec a b) as [E|E]; try lia
  | |- context [?a <=? ?b] => let E := fresh "E" in destruct (N.leb_spec a b) as [E|E]; try lia
  end.

Lemma dec1 : forall b0 r, b0 < 128 -> utf8_decode (b0 :: r) = b0 :: utf8_decode r.
Proof. intros b0 r H. cbn [utf8_decode]. nb. reflexivity. Qed.

Lemma dec2 : forall b0 b1 r, 194 <= b0 < 224 -> 128 <= b1 < 192 ->
  utf8_decode (b0 :: b1 :: r) = ((b0 - 192) * 64 + (b1 - 128)) :: utf8_decode r.
Proof.
  intros b0 b1 r H0 H1. cbn [utf8_decode]. unfold is_cont. nb. reflexivity.
Qed.

Lemma dec3 : forall b0 b1 b2 r, 224 <= b0 < 240 -> 128 <= b1 < 192 -> 128 <= b2 < 192 ->
  let c := (b0 - 224) * 4096 + (b1 - 128) * 64 + (b2 - 128) in
  2048 <= c -> is_surrogate c = false ->
  utf8_decode (b0 :: b1 :: b2 :: r) = c :: utf8_decode r.
Proof.
  intros b0 b1 b2 r H0 H1 H2 c Hc Hs. cbn [utf8_decode]. fold c. rewrite Hs. unfold is_cont.
  destruct (N.ltb_spec b0 128); [lia|].
  destruct (N.leb_spec 194 b0); [|lia]. destruct (N.ltb_spec b0 224); [lia|]. cbn [andb].
  destruct (N.leb_spec 224 b0); [|lia]. destruct (N.ltb_spec b0 240); [|lia]. cbn [andb].
  destruct (N.leb_spec 128 b1); [|lia]. destruct (N.ltb_spec b1 192); [|lia].
  destruct (N.leb_spec 128 b2); [|lia]. destruct (N.ltb_spec b2 192); [|lia].
  destruct (N.leb_spec 2048 c); [|lia]. reflexivity.
Qed.

Lemma dec4 : forall b0 b1 b2 b3 r, 240 <= b0 < 245 -> 128 <= b1 < 192 -> 128 <= b2 < 192 -> 128 <= b3 < 192 ->
  let c := (b0 - 240) * 262144 + (b1 - 128) * 4096 + (b2 - 128) * 64 + (b3 - 128) in
  65536 <= c < 1114112 ->
  utf8_decode (b0 :: b1 :: b2 :: b3 :: r) = c :: utf8_decode r.
Proof.
  intros b0 b1 b2 b3 r H0 H1 H2 H3 c Hc. cbn [utf8_decode]. fold c. unfold is_cont.
  destruct (N.ltb_spec b0 128); [lia|].
  destruct (N.leb_spec 194 b0); [|lia]. destruct (N.ltb_spec b0 224); [lia|]. cbn [andb].
  destruct (N.leb_spec 224 b0); [|lia]. destruct (N.ltb_spec b0 240); [lia|]. cbn [andb].
  destruct (N.leb_spec 240 b0); [|lia]. destruct (N.ltb_spec b0 245); [|lia]. cbn [andb].
  destruct (N.leb_spec 128 b1); [|lia]. destruct (N.ltb_spec b1 192); [|lia].
  destruct (N.leb_spec 128 b2); [|lia]. destruct (N.ltb_spec b2 192); [|lia].
  destruct (N.leb_spec 128 b3); [|lia]. destruct (N.ltb_spec b3 192); [|lia].
  destruct (N.leb_spec 65536 c); [|lia]. destruct (N.ltb_spec c 1114112); [|lia]. reflexivity.
Qed.

Lemma utf8_char_decode : forall c r, is_scalar c = true -> utf8_decode (utf8_char c ++ r) = c :: utf8_decode r.
Proof.
  intros c r H. unfold is_scalar in H. apply andb_prop in H. destruct H as [Hlt Hs].
  apply N.ltb_lt in Hlt. apply negb_true_iff in Hs.
  unfold utf8_char.
  destruct (N.ltb_spec c 128) as [E1|E1].
  { cbn [app]. apply dec1. assumption. }
  destruct (N.ltb_spec c 2048) as [E2|E2].
  { cbn [app]. rewrite dec2 by lia. f_equal. lia. }
  destruct (N.ltb_spec c 65536) as [E3|E3].
  { rewrite Hs. cbn [app].
    assert (Hc : (224 + c / 4096 - 224) * 4096 + (128 + c / 64 mod 64 - 128) * 64 + (128 + c mod 64 - 128) = c) by lia.
    rewrite dec3; rewrite ?Hc; try lia; try assumption. reflexivity. }
  destruct (N.ltb_spec c 1114112) as [E4|E4]; [|lia].
  cbn [app].
  assert (Hc : (240 + c / 262144 - 240) * 262144 + (128 + c / 4096 mod 64 - 128) * 4096
               + (128 + c / 64 mod 64 - 128) * 64 + (128 + c mod 64 - 128) = c) by lia.
  rewrite dec4; rewrite ?Hc; try lia. reflexivity.
Qed.

Definition scalar_str (s : str) : Prop := Forall (fun c => is_scalar c = true) s.

Lemma utf8_roundtrip : forall s, scalar_str s -> utf8_decode (utf8_encode s) = s.
Proof.
  induction s as [|c s IH]; intros H; [reflexivity|].
  inversion H as [|? ? Hc Hs]; subst.
  unfold utf8_encode. cbn [flat_map]. rewrite utf8_char_decode by assumption.
  fold (utf8_encode s). rewrite IH by assumption. reflexivity.
Qed.

(* the encoder only produces bytes *)
Lemma utf8_bytes : forall s, Forall (fun b => b < 256) (utf8_encode s).
Proof.
  induction s as [|c s IH]; [constructor|].
  unfold utf8_encode. cbn [flat_map]. apply Forall_app. split; [|exact IH].
  unfold utf8_char.
  destruct (N.ltb_spec c 128); [repeat constructor; lia|].
  destruct (N.ltb_spec c 2048); [repeat constructor; lia|].
  destruct (N.ltb_spec c 65536).
  { destruct (is_surrogate c); repeat constructor; lia. }
  destruct (N.ltb_spec c 1114112); repeat constructor; lia.
Qed.
End Utf8Proofs.
