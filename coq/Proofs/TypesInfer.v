(* Lemmas for the inference part of C19: a schema inferred from rows generated from a type tree is that
   tree, and it verifies the rows. *)
From Coq Require Import ZArith NArith List Bool String Ascii Lia PeanoNat.
Require Import PV.Gen.TypeTables PV.Model.Types PV.Proofs.TypesJson PV.Proofs.TypesRows.
Import ListNotations.
Open Scope list_scope.
Open Scope Z_scope.

(* ---------- the trees inference can produce, the values generated from such a tree *)
Definition atom_value (a : atomic) (v : pyval) : bool :=
  match a, v with
  | ABoolean, PBool _ | ADouble, PFloat _ | AString, PStr _ | ABinary, PBytearray _
  | ADate, PDate _ | ATimestamp, PDatetime _ _ => true
  | ALong, PInt z => (- 2 ^ 63 <=? z) && (z <=? 2 ^ 63 - 1)      (* a long value: a 64-bit integer *)
  | _, _ => false
  end.

(* every flag is "nullable", no metadata, distinct field names: the shape of an inferred schema *)
Fixpoint inferable (t : dtype) : Prop :=
  match t with
  | TAtom _ => True
  | TDecimal p s => TDecimal p s = infer_decimal_type
  | TArray e cn => cn = true /\ inferable e
  | TMap k x b => b = true /\ inferable k /\ inferable x
  | TStruct fs =>
      NoDup (map sf_name fs) /\
      (fix go (fs : list (sfield dtype)) : Prop :=
         match fs with
         | [] => True
         | SField _ ty nl m :: r => nl = true /\ m = [] /\ inferable ty /\ go r
         end) fs
  end.

Definition fields_inferable : list (sfield dtype) -> Prop :=
  fix go (fs : list (sfield dtype)) : Prop :=
    match fs with
    | [] => True
    | SField _ ty nl m :: r => nl = true /\ m = [] /\ inferable ty /\ go r
    end.

(* v is a supported value of type t, None allowed at every position (map keys excepted) *)
Fixpoint ivalue (t : dtype) (v : pyval) : Prop :=
  v = PNone \/
  match t with
  | TAtom a => atom_value a v = true
  | TDecimal _ _ => exists d, v = PDecimal d
  | TArray e _ => exists l, v = PList l /\ Forall (ivalue e) l
  | TMap k x _ =>
      exists kv, v = PDict kv /\ Forall (fun p => fst p <> PNone /\ ivalue k (fst p) /\ ivalue x (snd p)) kv
  | TStruct fs =>
      exists vals, v = PRow (map sf_name fs) vals /\
        (fix go (fs : list (sfield dtype)) (vals : list pyval) : Prop :=
           match fs, vals with
           | [], [] => True
           | SField _ ty _ _ :: r, x :: vals' => ivalue ty x /\ go r vals'
           | _, _ => False
           end) fs vals
  end.

Definition fields_ivalue : list (sfield dtype) -> list pyval -> Prop :=
  fix go (fs : list (sfield dtype)) (vals : list pyval) : Prop :=
    match fs, vals with
    | [], [] => True
    | SField _ ty _ _ :: r, x :: vals' => ivalue ty x /\ go r vals'
    | _, _ => False
    end.

(* s is t with some subtrees replaced by NullType *)
Fixpoint below (s t : dtype) {struct t} : Prop :=
  s = t_null \/
  match t with
  | TAtom a => s = TAtom a
  | TDecimal p q => s = TDecimal p q
  | TArray e cn => exists e', s = TArray e' cn /\ below e' e
  | TMap k x b => exists k' x', s = TMap k' x' b /\ below k' k /\ below x' x
  | TStruct fs =>
      exists fs', s = TStruct fs' /\
        (fix go (fs' fs : list (sfield dtype)) {struct fs} : Prop :=
           match fs', fs with
           | [], [] => True
           | SField n' t' nl' m' :: r', SField n ty nl m :: r =>
               n' = n /\ nl' = nl /\ m' = m /\ below t' ty /\ go r' r
           | _, _ => False
           end) fs' fs
  end.

Definition fields_below : list (sfield dtype) -> list (sfield dtype) -> Prop :=
  fix go (fs' fs : list (sfield dtype)) {struct fs} : Prop :=
    match fs', fs with
    | [], [] => True
    | SField n' t' nl' m' :: r', SField n ty nl m :: r => n' = n /\ nl' = nl /\ m' = m /\ below t' ty /\ go r' r
    | _, _ => False
    end.

Lemma below_null t : below t_null t.
Proof. destruct t; now left. Qed.

Lemma fields_below_names : forall fs' fs, fields_below fs' fs -> map sf_name fs' = map sf_name fs.
Proof.
  induction fs' as [|[n' t' nl' m'] r' IH]; intros [|[n ty nl m] r] H; simpl in H; try contradiction; [reflexivity|].
  destruct H as (-> & _ & _ & _ & H). simpl. f_equal. now apply IH.
Qed.

(* ---------- inference of one value *)
Definition infer_first : list pyval -> res dtype :=
  fix first (l : list pyval) : res dtype :=
    match l with
    | [] => Ok (TArray t_null true)
    | x :: r => if is_none x then first r else bind (infer_type x) (fun t => Ok (TArray t true))
    end.
Lemma infer_list l : infer_type (PList l) = infer_first l. Proof. reflexivity. Qed.

Definition infer_first_kv : list (pyval * pyval) -> res dtype :=
  fix first (kv : list (pyval * pyval)) : res dtype :=
    match kv with
    | [] => Ok (TMap t_null t_null true)
    | (k, x) :: r =>
        if is_none k || is_none x then first r
        else bind (infer_type k) (fun kt => bind (infer_type x) (fun vt => Ok (TMap kt vt true)))
    end.
Lemma infer_dict kv : infer_type (PDict kv) = infer_first_kv kv. Proof. reflexivity. Qed.

Definition infer_fields : list str -> list pyval -> res (list (sfield dtype)) :=
  fix go (names : list str) (vals : list pyval) {struct vals} : res (list (sfield dtype)) :=
    match vals, names with
    | x :: vals', n :: names' =>
        bind (infer_type x) (fun t => bind (go names' vals') (fun r => Ok (SField n t true [] :: r)))
    | _, _ => Ok []
    end.
Lemma infer_row names vals : infer_type (PRow names vals) = bind (infer_fields names vals) (fun fs => Ok (TStruct fs)).
Proof. reflexivity. Qed.

Lemma is_none_spec v : is_none v = true <-> v = PNone.
Proof. destruct v; simpl; split; congruence. Qed.

Lemma infer_below : forall t, inferable t -> forall v, ivalue t v -> exists s, infer_type v = Ok s /\ below s t.
Proof.
  induction t as [a|p q|e b IHe|k x b IHk IHx|fs IH] using dtype_ind'; intros Hinf v Hv.
  - destruct Hv as [->|Hv]; [exists t_null; split; [reflexivity|apply below_null]|].
    exists (TAtom a). split; [|now right].
    destruct a, v; try discriminate Hv; reflexivity.
  - destruct Hv as [->|[d ->]]; [exists t_null; split; [reflexivity|apply below_null]|].
    exists (TDecimal p q). split; [|now right]. simpl in Hinf. rewrite Hinf. reflexivity.
  - destruct Hv as [->|(l & -> & Hl)]; [exists t_null; split; [reflexivity|apply below_null]|].
    destruct Hinf as [-> Hie]. rewrite infer_list.
    induction Hl as [|y l Hy _ IHl]; simpl.
    + exists (TArray t_null true). split; [reflexivity|]. right. exists t_null. split; [reflexivity|apply below_null].
    + destruct (is_none y) eqn:En; [exact IHl|].
      destruct (IHe Hie y Hy) as (s & Es & Hs). rewrite Es. simpl.
      exists (TArray s true). split; [reflexivity|]. right. eauto.
  - destruct Hv as [->|(kv & -> & Hkv)]; [exists t_null; split; [reflexivity|apply below_null]|].
    destruct Hinf as (-> & Hik & Hix). rewrite infer_dict.
    induction Hkv as [|[kk y] kv (Hne & Hk & Hy) _ IHkv]; simpl.
    + exists (TMap t_null t_null true). split; [reflexivity|]. right. exists t_null, t_null.
      repeat split; apply below_null.
    + destruct (is_none kk || is_none y) eqn:En; [exact IHkv|].
      simpl in Hk, Hy.
      destruct (IHk Hik kk Hk) as (s1 & E1 & H1). destruct (IHx Hix y Hy) as (s2 & E2 & H2).
      rewrite E1, E2. simpl. exists (TMap s1 s2 true). split; [reflexivity|]. right. eauto 6.
  - destruct Hv as [->|(vals & -> & Hvals)]; [exists t_null; split; [reflexivity|apply below_null]|].
    destruct Hinf as (Hnd & Hfi). fold fields_inferable in Hfi. fold fields_ivalue in Hvals.
    rewrite infer_row.
    assert (H : exists fs', infer_fields (map sf_name fs) vals = Ok fs' /\ fields_below fs' fs).
    { clear Hnd. revert vals Hvals. induction fs as [|[n ty nl m] fs IHfs]; intros [|y vals] Hvals; simpl in Hvals;
        try contradiction.
      - exists []. split; [reflexivity|exact I].
      - destruct Hvals as (Hy & Hvals). destruct Hfi as (-> & -> & Hity & Hfi).
        inversion IH as [|? ? IH0 IH']; subst. simpl in IH0.
        destruct (IH0 Hity y Hy) as (s & Es & Hs).
        destruct (IHfs IH' Hfi vals Hvals) as (fs' & Ef & Hf).
        simpl. rewrite Es. simpl. rewrite Ef. simpl.
        exists (SField n s true [] :: fs'). split; [reflexivity|]. simpl. auto. }
    destruct H as (fs' & Ef & Hf). rewrite Ef. simpl.
    exists (TStruct fs'). split; [reflexivity|]. right. exists fs'. split; [reflexivity|exact Hf].
Qed.

(* ---------- merging two partial inferences of the same tree *)
Definition merge_fields (nfs : list (str * dtype)) : list (sfield dtype) -> res (list (sfield dtype)) :=
  fix go (l : list (sfield dtype)) : res (list (sfield dtype)) :=
    match l with
    | [] => Ok []
    | f :: r =>
        match f with
        | SField n ty _ _ =>
            bind (merge_type ty (match nlookup n nfs with Some t => t | None => t_null end))
                 (fun t => bind (go r) (fun r' => Ok (SField n t true [] :: r')))
        end
    end.

Lemma merge_struct fa fb :
  merge_type (TStruct fa) (TStruct fb) =
    let nfs := dict_of (map (fun f => (sf_name f, sf_ty f)) fb) in
    bind (merge_fields nfs fa) (fun fields =>
      let names := map sf_name fields in
      Ok (TStruct (fields ++ map (fun p => SField (fst p) (snd p) true [])
                                 (filter (fun p => negb (str_mem (fst p) names)) nfs)))).
Proof. reflexivity. Qed.

Lemma merge_null_l b : merge_type t_null b = Ok b. Proof. reflexivity. Qed.
Lemma merge_null_r a : merge_type a t_null = Ok a.
Proof. destruct a as [[]| | | |]; reflexivity. Qed.

Lemma dict_set_fresh {A} k (v : A) d : ~ In k (map fst d) -> dict_set k v d = d ++ [(k, v)].
Proof.
  induction d as [|[k' v'] d IH]; intro H; simpl; [reflexivity|].
  rewrite str_eqb_neq; [rewrite IH; [reflexivity|]|]; intro E; apply H; simpl; auto.
Qed.

Lemma dict_of_nodup_gen {A} : forall (l d : list (str * A)), NoDup (map fst d ++ map fst l) ->
  fold_left (fun d p => dict_set (fst p) (snd p) d) l d = d ++ l.
Proof.
  induction l as [|[k v] l IH]; intros d H; simpl; [now rewrite app_nil_r|].
  rewrite dict_set_fresh.
  - rewrite IH; [now rewrite <- app_assoc|]. rewrite map_app. simpl. rewrite <- app_assoc. exact H.
  - simpl in H. apply NoDup_remove_2 in H. intro Hin. apply H. apply in_or_app. now left.
Qed.

Lemma dict_of_nodup {A} (l : list (str * A)) : NoDup (map fst l) -> dict_of l = l.
Proof. intro H. unfold dict_of. now rewrite dict_of_nodup_gen. Qed.

Lemma nlookup_in_nodup {A} : forall (l : list (str * A)) k v, NoDup (map fst l) -> In (k, v) l -> nlookup k l = Some v.
Proof.
  induction l as [|[k' v'] l IH]; intros k v Hnd Hin; [contradiction|]. simpl in *.
  inversion Hnd as [|? ? Hk Hnd']; subst. destruct Hin as [E|Hin].
  - injection E as -> ->. now rewrite str_eqb_refl.
  - rewrite str_eqb_neq; [now apply IH|]. intro E. subst k'. apply Hk. apply (in_map fst) in Hin. exact Hin.
Qed.

Lemma str_mem_in k l : In k l -> str_mem k l = true.
Proof. intro H. unfold str_mem. apply existsb_exists. exists k. split; [exact H|apply str_eqb_refl]. Qed.

Lemma filter_none {A} (f : A -> bool) l : (forall x, In x l -> f x = false) -> filter f l = [].
Proof. induction l as [|x l IH]; intro H; simpl; [reflexivity|]. rewrite H by now left. apply IH. intros. apply H. now right. Qed.

Lemma merge_fields_below nfs : forall fs fa fb,
  Forall (fun f => inferable (sf_ty f) -> forall a b, below a (sf_ty f) -> below b (sf_ty f) ->
                   exists c, merge_type a b = Ok c /\ below c (sf_ty f)) fs ->
  fields_inferable fs -> fields_below fa fs -> fields_below fb fs ->
  (forall f, In f fb -> nlookup (sf_name f) nfs = Some (sf_ty f)) ->
  exists fields, merge_fields nfs fa = Ok fields /\ fields_below fields fs.
Proof.
  induction fs as [|[n ty nl m] fs IHfs]; intros [|[na ta nla ma] fa] [|[nb tb nlb mb] fb] IH Hfi Ha Hb Hl;
    simpl in Ha, Hb; try contradiction.
  - exists []. split; [reflexivity|exact I].
  - destruct Ha as (-> & -> & -> & Hta & Ha). destruct Hb as (-> & -> & -> & Htb & Hb).
    destruct Hfi as (-> & -> & Hity & Hfi). inversion IH as [|? ? IH0 IH']; subst. simpl in IH0.
    pose proof (Hl (SField n tb true []) (or_introl eq_refl)) as H0. simpl in H0. simpl. rewrite H0.
    destruct (IH0 Hity ta tb Hta Htb) as (c & Ec & Hc). rewrite Ec. simpl.
    destruct (IHfs fa fb IH' Hfi Ha Hb) as (fields & Ef & Hf); [intros f Hf; apply Hl; now right|].
    rewrite Ef. simpl. exists (SField n c true [] :: fields). split; [reflexivity|]. simpl. auto.
Qed.

Lemma merge_below : forall t, inferable t -> forall a b, below a t -> below b t ->
  exists c, merge_type a b = Ok c /\ below c t.
Proof.
  induction t as [x|p q|e cn IHe|k y cn IHk IHy|fs IH] using dtype_ind'; intros Hinf a b Ha Hb.
  - destruct Ha as [-> | ->]; [exists b; split; [apply merge_null_l|exact Hb]|].
    destruct Hb as [-> | ->]; [exists (TAtom x); split; [apply merge_null_r|now right]|].
    exists (TAtom x). split; [destruct x; reflexivity|now right].
  - destruct Ha as [-> | ->]; [exists b; split; [apply merge_null_l|exact Hb]|].
    destruct Hb as [-> | ->]; [exists (TDecimal p q); split; [apply merge_null_r|now right]|].
    exists (TDecimal p q). split; [reflexivity|now right].
  - destruct Hinf as [-> Hie].
    destruct Ha as [->|(a' & -> & Ha)]; [exists b; split; [apply merge_null_l|exact Hb]|].
    destruct Hb as [->|(b' & -> & Hb)]; [exists (TArray a' true); split; [apply merge_null_r|right; eauto]|].
    destruct (IHe Hie a' b' Ha Hb) as (c & Ec & Hc).
    exists (TArray c true). split; [|right; eauto].
    cbn [merge_type is_null]. cbn. rewrite Ec. reflexivity.
  - destruct Hinf as (-> & Hik & Hiy).
    destruct Ha as [->|(ka & ya & -> & Hka & Hya)]; [exists b; split; [apply merge_null_l|exact Hb]|].
    destruct Hb as [->|(kb & yb & -> & Hkb & Hyb)];
      [exists (TMap ka ya true); split; [apply merge_null_r|right; eauto 6]|].
    destruct (IHk Hik ka kb Hka Hkb) as (c1 & E1 & H1). destruct (IHy Hiy ya yb Hya Hyb) as (c2 & E2 & H2).
    exists (TMap c1 c2 true). split; [|right; eauto 6].
    cbn [merge_type is_null]. cbn. rewrite E1. simpl. rewrite E2. reflexivity.
  - destruct Hinf as (Hnd & Hfi). fold fields_inferable in Hfi.
    destruct Ha as [->|(fa & -> & Ha)]; [exists b; split; [apply merge_null_l|exact Hb]|].
    fold fields_below in Ha.
    destruct Hb as [->|(fb & -> & Hb)]; [exists (TStruct fa); split; [apply merge_null_r|right; eauto]|].
    fold fields_below in Hb.
    rewrite merge_struct. cbv zeta.
    pose proof (fields_below_names _ _ Hb) as Hnb.
    assert (Hndb : NoDup (map fst (map (fun f => (sf_name f, sf_ty f)) fb))).
    { rewrite map_map. simpl. change (fun x : sfield dtype => sf_name x) with (@sf_name dtype). now rewrite Hnb. }
    rewrite (dict_of_nodup _ Hndb).
    destruct (merge_fields_below (map (fun f => (sf_name f, sf_ty f)) fb) fs fa fb IH Hfi Ha Hb) as (fields & Ef & Hf).
    { intros f Hf. apply nlookup_in_nodup; [exact Hndb|]. apply (in_map (fun f => (sf_name f, sf_ty f))) in Hf. exact Hf. }
    rewrite Ef. simpl bind.
    rewrite filter_none.
    + simpl. rewrite app_nil_r. exists (TStruct fields). split; [reflexivity|]. right. eauto.
    + intros [kk tt] Hin. simpl. rewrite str_mem_in; [reflexivity|].
      rewrite (fields_below_names _ _ Hf), <- Hnb.
      apply (in_map fst) in Hin. rewrite map_map in Hin. simpl in Hin. exact Hin.
Qed.

(* a partial inference without NullType is the tree itself *)
Definition fields_has_null (fs : list (sfield dtype)) : bool := existsb (fun f => has_nulltype (sf_ty f)) fs.

Lemma below_no_null : forall t s, below s t -> has_nulltype s = false -> s = t.
Proof.
  induction t as [x|p q|e cn IHe|k y cn IHk IHy|fs IH] using dtype_ind'; intros s Hs Hn.
  - destruct Hs as [-> | ->]; [discriminate|reflexivity].
  - destruct Hs as [-> | ->]; [discriminate|reflexivity].
  - destruct Hs as [->|(e' & -> & He)]; [discriminate|]. simpl in Hn. now rewrite (IHe e' He Hn).
  - destruct Hs as [->|(k' & y' & -> & Hk & Hy)]; [discriminate|]. simpl in Hn.
    apply orb_false_iff in Hn. destruct Hn as [Hn1 Hn2]. now rewrite (IHk k' Hk Hn1), (IHy y' Hy Hn2).
  - destruct Hs as [->|(fs' & -> & Hf)]; [discriminate|]. fold fields_below in Hf. simpl in Hn. f_equal.
    revert fs' Hf Hn. induction fs as [|[n ty nl m] fs IHfs]; intros [|[n' t' nl' m'] fs'] Hf Hn; simpl in Hf;
      try contradiction; [reflexivity|].
    destruct Hf as (-> & -> & -> & Ht & Hf). simpl in Hn. apply orb_false_iff in Hn. destruct Hn as [Hn1 Hn2].
    inversion IH as [|? ? IH0 IH']; subst. simpl in IH0.
    rewrite (IH0 t' Ht Hn1). f_equal. now apply IHfs.
Qed.

(* ---------- the verifier accepts the values generated from an inferable tree *)
Lemma each_ok {A} (f : A -> res unit) l : Forall (fun x => f x = Ok tt) l -> each f l = Ok tt.
Proof. induction 1 as [|x l Hx _ IH]; simpl; [reflexivity|]. now rewrite Hx. Qed.

Lemma fields_ivalue_nth : forall fs vals k g, fields_ivalue fs vals -> nth_error fs k = Some g ->
  exists x, nth_error vals k = Some x /\ ivalue (sf_ty g) x.
Proof.
  induction fs as [|[n ty nl m] fs IH]; intros [|y vals] k g H Hk; simpl in H; try contradiction;
    [destruct k; discriminate|].
  destruct H as (Hy & H). destruct k as [|k]; simpl in Hk.
  - injection Hk as <-. exists y. split; [reflexivity|exact Hy].
  - apply (IH vals k g H Hk).
Qed.

Lemma fields_inferable_nth : forall fs k g, fields_inferable fs -> nth_error fs k = Some g ->
  sf_nullable g = true /\ sf_meta g = [] /\ inferable (sf_ty g).
Proof.
  induction fs as [|[n ty nl m] fs IH]; intros k g H Hk; [destruct k; discriminate|].
  destruct H as (-> & -> & Hi & H). destruct k as [|k]; simpl in Hk.
  - injection Hk as <-. auto.
  - apply (IH k g H Hk).
Qed.

Lemma verify_named_ok names vals : NoDup names -> forall fs j,
  (forall k g, nth_error fs k = Some g ->
     nth_error names (j + k) = Some (sf_name g) /\
     exists x, nth_error vals (j + k) = Some x /\ verify (sf_ty g) (sf_nullable g) x = Ok tt) ->
  verify_named names vals fs = Ok tt.
Proof.
  intro Hnd. induction fs as [|[m ty nl md] fs IH]; intros j H; [reflexivity|]. simpl.
  destruct (H 0%nat _ eq_refl) as (Hn & x & Hx & Hv). rewrite Nat.add_0_r in Hn, Hx. simpl in Hn, Hv.
  rewrite (row_get_nodup names vals j m x Hnd Hn Hx). simpl. rewrite Hv. simpl.
  apply (IH (S j)). intros k g Hk. replace (S j + k)%nat with (j + S k)%nat by lia. now apply H.
Qed.

Lemma verify_ivalue : forall t, inferable t -> forall v n, ivalue t v -> (v = PNone -> n = true) ->
  verify t n v = Ok tt.
Proof.
  induction t as [a|p q|e b IHe|k x b IHk IHx|fs IH] using dtype_ind'; intros Hinf v n Hv Hn.
  - destruct Hv as [->|Hv]; [rewrite verify_none, Hn; reflexivity|].
    destruct a, v; try discriminate Hv; try reflexivity.
    simpl in Hv. apply andb_true_iff in Hv. destruct Hv as [H1 H2]. apply Z.leb_le in H1. apply Z.leb_le in H2.
    apply in_range_all; [right; right; right; now left|]. simpl. lia.
  - destruct Hv as [->|[d ->]]; [rewrite verify_none, Hn; reflexivity|]. reflexivity.
  - destruct Hv as [->|(l & -> & Hl)]; [rewrite verify_none, Hn; reflexivity|].
    destruct Hinf as [-> Hie]. cbn [verify is_none]. cbn.
    apply each_ok. eapply Forall_impl; [|exact Hl]. intros y Hy. apply IHe; auto.
  - destruct Hv as [->|(kv & -> & Hkv)]; [rewrite verify_none, Hn; reflexivity|].
    destruct Hinf as (-> & Hik & Hix). cbn [verify is_none]. cbn.
    apply each_ok. eapply Forall_impl; [|exact Hkv]. intros [kk y] (Hne & Hk & Hy). simpl in *.
    rewrite (IHk Hik kk false Hk) by (intro; contradiction). simpl. apply IHx; auto.
  - destruct Hv as [->|(vals & -> & Hvals)]; [rewrite verify_none, Hn; reflexivity|].
    destruct Hinf as (Hnd & Hfi). fold fields_inferable in Hfi. fold fields_ivalue in Hvals.
    rewrite verify_struct_row. apply (verify_named_ok _ _ Hnd fs 0%nat).
    intros j g Hj. simpl. split; [now rewrite nth_error_map, Hj|].
    destruct (fields_ivalue_nth fs vals j g Hvals Hj) as (y & Hy & Hiy).
    destruct (fields_inferable_nth fs j g Hfi Hj) as (Hnl & _ & Hig).
    exists y. split; [exact Hy|]. rewrite Hnl.
    rewrite Forall_forall in IH. apply (IH g (nth_error_In _ _ Hj) Hig); auto.
Qed.

(* ---------- rows: infer_schema_from_list *)
Definition is_row_of (t : dtype) (r : pyval) : Prop := r <> PNone /\ ivalue t r.

Lemma row_shape fs r : is_row_of (TStruct fs) r -> exists vals, r = PRow (map sf_name fs) vals.
Proof. intros [Hne [->|(vals & -> & _)]]; [contradiction|eauto]. Qed.

Lemma infer_schema_row fs r : inferable (TStruct fs) -> is_row_of (TStruct fs) r ->
  exists s, infer_schema r = Ok s /\ below s (TStruct fs).
Proof.
  intros Hinf Hr. destruct (row_shape fs r Hr) as (vals & ->). destruct Hr as [_ Hr].
  change (infer_schema (PRow (map sf_name fs) vals)) with (infer_type (PRow (map sf_name fs) vals)).
  now apply infer_below.
Qed.

Lemma reduce_merge_below fs : inferable (TStruct fs) -> forall rows acc,
  below acc (TStruct fs) -> Forall (is_row_of (TStruct fs)) rows ->
  exists s, reduce_merge acc rows = Ok s /\ below s (TStruct fs).
Proof.
  intros Hinf. induction rows as [|r rows IH]; intros acc Hacc Hrows; [exists acc; split; [reflexivity|exact Hacc]|].
  inversion Hrows as [|? ? Hr Hrows']; subst. simpl.
  destruct (infer_schema_row fs r Hinf Hr) as (s & Es & Hs). rewrite Es. simpl.
  destruct (merge_below (TStruct fs) Hinf acc s Hacc Hs) as (c & Ec & Hc). rewrite Ec. simpl.
  now apply IH.
Qed.

(* inference over rows generated from an inferable struct tree: either the tree itself, or ValueError
   (empty data / some type undetermined) -- never another schema, never a TypeError *)
Theorem infer_rows_result fs rows : inferable (TStruct fs) -> Forall (is_row_of (TStruct fs)) rows ->
  infer_schema_from_list rows = Ok (TStruct fs) \/ infer_schema_from_list rows = Err EValue.
Proof.
  intros Hinf Hrows. destruct rows as [|r rows]; [now right|].
  inversion Hrows as [|? ? Hr Hrows']; subst.
  destruct (row_shape fs r Hr) as (vals & ->).
  destruct (infer_schema_row fs _ Hinf Hr) as (s0 & E0 & H0).
  destruct (reduce_merge_below fs Hinf rows s0 H0 Hrows') as (s & Es & Hs).
  unfold infer_schema_from_list. rewrite E0. simpl. rewrite Es. simpl.
  destruct (has_nulltype s) eqn:En; [now right|]. left. f_equal. now apply below_no_null.
Qed.

Theorem infer_verifies fs rows s : inferable (TStruct fs) -> Forall (is_row_of (TStruct fs)) rows ->
  infer_schema_from_list rows = Ok s ->
  s = TStruct fs /\ Forall (fun r => verify s true r = Ok tt) rows.
Proof.
  intros Hinf Hrows Hs.
  destruct (infer_rows_result fs rows Hinf Hrows) as [E|E]; rewrite E in Hs; [|discriminate].
  injection Hs as <-. split; [reflexivity|].
  eapply Forall_impl; [|exact Hrows]. intros r [_ Hr]. apply verify_ivalue; auto.
Qed.

(* ---------- createDataFrame with the inferred schema: converter, toInternal, Row construction *)
Lemma mapM_id {A} (f : A -> res A) (g : A -> A) l : Forall (fun x => f x = Ok (g x)) l -> mapM f l = Ok (map g l).
Proof. induction 1 as [|x l Hx _ IH]; simpl; [reflexivity|]. now rewrite Hx, IH. Qed.

Definition convert_pos : list (sfield dtype) -> list pyval -> res (list pyval) :=
  fix go (fs : list (sfield dtype)) (vals : list pyval) : res (list pyval) :=
    match fs, vals with
    | SField _ ty _ _ :: r, x :: vals' => bind (convert ty x) (fun y => bind (go r vals') (fun ys => Ok (y :: ys)))
    | _, _ => Ok []
    end.

Lemma convert_struct_row fs names vals :
  convert (TStruct fs) (PRow names vals) =
    if existsb (fun f => need_converter (sf_ty f)) fs
    then bind (convert_pos fs vals) (fun vals' => Ok (PRow names vals'))
    else Ok (PRow names vals).
Proof. reflexivity. Qed.

Lemma convert_ivalue : forall t v, ivalue t v -> convert t v = Ok v.
Proof.
  induction t as [a|p q|e b IHe|k x b IHk IHx|fs IH] using dtype_ind'; intros v Hv.
  - destruct a; try reflexivity. destruct Hv as [->|Hv]; [reflexivity|discriminate Hv].
  - reflexivity.
  - cbn [convert need_converter]. destruct (need_converter e) eqn:En; [|reflexivity]. cbn [negb].
    destruct Hv as [->|(l & -> & Hv)]; [reflexivity|].
    rewrite (mapM_id _ (fun y => y)).
    + now rewrite map_id.
    + rewrite Forall_forall in *. intros y Hy. apply IHe; auto.
  - cbn [convert need_converter]. destruct (need_converter k || need_converter x) eqn:En; [|reflexivity]. cbn [negb].
    destruct Hv as [->|(kv & -> & Hv)]; [reflexivity|].
    rewrite (mapM_id _ (fun p => p)).
    + now rewrite map_id.
    + rewrite Forall_forall in *. intros [kk y] Hp.
      destruct (Hv _ Hp) as (_ & Hk & Hy). simpl in *.
      rewrite (IHk kk Hk). simpl. rewrite (IHx y Hy). reflexivity.
  - destruct Hv as [->|(vals & -> & Hv)]; [reflexivity|]. fold fields_ivalue in Hv.
    rewrite convert_struct_row. destruct (existsb _ fs); [|reflexivity].
    assert (E : convert_pos fs vals = Ok vals).
    { revert vals Hv. induction fs as [|[n ty nl m] fs IHfs]; intros [|y vals] Hv; simpl in Hv;
        try contradiction; [reflexivity|].
      destruct Hv as (Hy & Hv). inversion IH as [|? ? IH0 IH']; subst. simpl in IH0.
      simpl. rewrite (IH0 y Hy). simpl. rewrite (IHfs IH' vals Hv). reflexivity. }
    rewrite E. reflexivity.
Qed.

Section Internal.
  Variable local : Z.

  Definition to_internal_all : list (sfield dtype) -> list pyval -> res (list pyval) :=
    fix go (fs : list (sfield dtype)) (vals : list pyval) : res (list pyval) :=
      match fs, vals with
      | SField _ ty _ _ :: r, x :: vals' =>
          bind (to_internal local ty x) (fun y => bind (go r vals') (fun ys => Ok (y :: ys)))
      | _, _ => Ok []
      end.

  Lemma to_internal_struct_row_gen fs names0 vals0 :
    to_internal local (TStruct fs) (PRow names0 vals0) =
      bind (match_fields_by_name (map sf_name fs) names0 vals0) (fun nv =>
        if existsb (fun f => need_conversion (sf_ty f)) fs
        then bind (to_internal_all fs (snd nv)) (fun vals' => Ok (PRow (fst nv) vals'))
        else Ok (PRow (fst nv) (snd nv))).
  Proof. reflexivity. Qed.

  Lemma strs_eqb_refl l : strs_eqb l l = true.
  Proof. induction l as [|x l IH]; simpl; [reflexivity|]. now rewrite str_eqb_refl, IH. Qed.

  (* a Row already listed in schema order is left alone *)
  Lemma match_fields_same snames vals : match_fields_by_name snames snames vals = Ok (snames, vals).
  Proof. unfold match_fields_by_name. now rewrite strs_eqb_refl. Qed.

  Lemma to_internal_struct_row fs vals :
    to_internal local (TStruct fs) (PRow (map sf_name fs) vals) =
      if existsb (fun f => need_conversion (sf_ty f)) fs
      then bind (to_internal_all fs vals) (fun vals' => Ok (PRow (map sf_name fs) vals'))
      else Ok (PRow (map sf_name fs) vals).
  Proof. rewrite to_internal_struct_row_gen, match_fields_same. reflexivity. Qed.

  (* values of a type that needs no conversion hold no datetime *)
  Lemma tz_local_id : forall t v, ivalue t v -> need_conversion t = false -> tz_local local v = v.
  Proof.
    induction t as [a|p q|e b IHe|k x b IHk IHx|fs IH] using dtype_ind'; intros v Hv Hn.
    - destruct Hv as [->|Hv]; [reflexivity|]. destruct a, v; try discriminate Hv; try reflexivity. discriminate Hn.
    - destruct Hv as [->|[d ->]]; reflexivity.
    - destruct Hv as [->|(l & -> & Hl)]; [reflexivity|]. cbn [need_conversion] in Hn. cbn [tz_local]. f_equal.
      induction Hl as [|y l Hy _ IHl]; [reflexivity|]. simpl. now rewrite (IHe y Hy Hn), IHl.
    - destruct Hv as [->|(kv & -> & Hkv)]; [reflexivity|]. cbn [need_conversion] in Hn.
      apply orb_false_iff in Hn. destruct Hn as [Hn1 Hn2]. cbn [tz_local]. f_equal.
      induction Hkv as [|[kk y] kv (_ & Hk & Hy) _ IHkv]; [reflexivity|]. simpl in *.
      now rewrite (IHk kk Hk Hn1), (IHx y Hy Hn2), IHkv.
    - discriminate Hn.
  Qed.

  Lemma to_internal_ivalue : forall t v, ivalue t v -> to_internal local t v = Ok (tz_local local v).
  Proof.
    induction t as [a|p q|e b IHe|k x b IHk IHx|fs IH] using dtype_ind'; intros v Hv.
    - destruct Hv as [->|Hv]; [destruct a; reflexivity|].
      destruct a, v; try discriminate Hv; try reflexivity. destruct tz; reflexivity.
    - destruct Hv as [->|[d ->]]; reflexivity.
    - cbn [to_internal]. destruct (need_conversion (TArray e b)) eqn:En; cbn [negb].
      2:{ now rewrite (tz_local_id (TArray e b) v Hv En). }
      destruct Hv as [->|(l & -> & Hl)]; [reflexivity|].
      destruct l as [|y l]; [reflexivity|]. cbn [py_falsy tz_local].
      rewrite (mapM_id _ (tz_local local)); [reflexivity|].
      eapply Forall_impl; [|exact Hl]. intros z Hz. now apply IHe.
    - cbn [to_internal]. destruct (need_conversion (TMap k x b)) eqn:En; cbn [negb].
      2:{ now rewrite (tz_local_id (TMap k x b) v Hv En). }
      destruct Hv as [->|(kv & -> & Hkv)]; [reflexivity|].
      destruct kv as [|p0 kv]; [reflexivity|]. cbn [py_falsy tz_local].
      rewrite (mapM_id _ (fun p => (tz_local local (fst p), tz_local local (snd p)))); [reflexivity|].
      eapply Forall_impl; [|exact Hkv]. intros [kk y] (_ & Hk & Hy). simpl in *.
      rewrite (IHk kk Hk). simpl. rewrite (IHx y Hy). reflexivity.
    - destruct Hv as [->|(vals & -> & Hv)]; [reflexivity|]. fold fields_ivalue in Hv.
      rewrite to_internal_struct_row. cbn [tz_local].
      destruct (existsb (fun f => need_conversion (sf_ty f)) fs) eqn:En.
      + assert (E : to_internal_all fs vals = Ok (map (tz_local local) vals)).
        { clear En. revert vals Hv. induction fs as [|[n ty nl m] fs IHfs]; intros [|y vals] Hv; simpl in Hv;
            try contradiction; [reflexivity|].
          destruct Hv as (Hy & Hv). inversion IH as [|? ? IH0 IH']; subst. simpl in IH0.
          simpl. rewrite (IH0 y Hy). simpl. rewrite (IHfs IH' vals Hv). reflexivity. }
        rewrite E. reflexivity.
      + do 2 f_equal. clear IH.
        revert vals Hv. induction fs as [|[n ty nl m] fs IHfs]; intros [|y vals] Hv; simpl in Hv;
          try contradiction; [reflexivity|].
        destruct Hv as (Hy & Hv). simpl in En. apply orb_false_iff in En. destruct En as [En1 En2].
        simpl. rewrite (tz_local_id ty y Hy En1). f_equal. now apply IHfs.
  Qed.

  Theorem create_collect_id fs rows s :
    inferable (TStruct fs) -> Forall (is_row_of (TStruct fs)) rows ->
    infer_schema_from_list rows = Ok s ->
    create_inferred local rows = Ok (map (tz_local local) rows).
  Proof.
    intros Hinf Hrows Hs.
    destruct (infer_verifies fs rows s Hinf Hrows Hs) as [-> _].
    unfold create_inferred. rewrite Hs. cbn [bind].
    assert (E : mapM (fun r => bind (convert (TStruct fs) r) (to_internal local (TStruct fs))) rows
                = Ok (map (tz_local local) rows)).
    { apply mapM_id. rewrite Forall_forall in *. intros r Hr. destruct (Hrows r Hr) as [_ Hv].
      rewrite (convert_ivalue _ r Hv). cbn [bind]. now apply to_internal_ivalue. }
    rewrite E. cbn [bind].
    rewrite (mapM_id _ (fun r => r)); [now rewrite map_id|].
    rewrite Forall_forall. intros r' Hr'. apply in_map_iff in Hr'. destruct Hr' as (r & <- & Hr).
    rewrite Forall_forall in Hrows. destruct (row_shape fs r (Hrows r Hr)) as (vals & ->). reflexivity.
  Qed.
End Internal.

(* regression: the rows of the repaired finding create:null-in-array-or-map-of-struct *)
Definition witness_fs : list (sfield dtype) :=
  [SField (lit "a") (TArray (TStruct [SField (lit "x") (TAtom ALong) true []]) true) true []].
Definition witness_rows : list pyval :=
  [PRow [lit "a"] [PList [PRow [lit "x"] [PInt 1]]]; PRow [lit "a"] [PNone]].

Lemma witness_now_created : create_inferred 0 witness_rows = Ok witness_rows /\
                            infer_schema_from_list witness_rows = Ok (TStruct witness_fs).
Proof. split; vm_compute; reflexivity. Qed.

Lemma nodup1 (n : str) : NoDup [n].
Proof. constructor; [intros []|constructor]. Qed.

(* a non-trivial instance of the hypotheses of [create_collect_partial] (nested rows, nulls, an aware datetime) *)
Definition sample_fs : list (sfield dtype) :=
  [SField (lit "a") (TArray (TStruct [SField (lit "x") (TAtom ALong) true []]) true) true [];
   SField (lit "t") (TAtom ATimestamp) true []].
Definition sample_rows : list pyval :=
  [PRow [lit "a"; lit "t"] [PList [PRow [lit "x"] [PInt 1]; PNone]; PDatetime 5 (Some 3600)];
   PRow [lit "a"; lit "t"] [PList []; PNone]].

Lemma sample_inferable : inferable (TStruct sample_fs).
Proof.
  cbn. split.
  - constructor; [intros [E|[]]; discriminate E|apply nodup1].
  - repeat split. apply nodup1.
Qed.

Lemma sample_rows_ok : Forall (is_row_of (TStruct sample_fs)) sample_rows.
Proof.
  constructor; [|constructor; [|constructor]]; (split; [discriminate|]).
  - right. eexists. split; [reflexivity|]. split; [|split; [now right|exact I]].
    right. eexists. split; [reflexivity|]. constructor; [|constructor; [now left|constructor]].
    right. exists [PInt 1]. split; [reflexivity|]. split; [now right|exact I].
  - right. eexists. split; [reflexivity|]. split; [|split; [now left|exact I]].
    right. exists []. split; [reflexivity|constructor].
Qed.

Lemma sample_inferred : infer_schema_from_list sample_rows = Ok (TStruct sample_fs).
Proof. vm_compute. reflexivity. Qed.

(* with the (inferable) schema given explicitly there is no converter in the path: verification passes and the
   rows come back, whatever the placement of the nulls *)
Theorem create_with_schema_id local fs rows :
  inferable (TStruct fs) -> Forall (is_row_of (TStruct fs)) rows ->
  create_with_schema local (TStruct fs) rows = Ok (map (tz_local local) rows).
Proof.
  intros Hinf Hrows. unfold create_with_schema.
  rewrite each_ok.
  2:{ eapply Forall_impl; [|exact Hrows]. intros r [_ Hr]. apply verify_ivalue; auto. }
  cbn [bind].
  rewrite (mapM_id _ (tz_local local)).
  2:{ eapply Forall_impl; [|exact Hrows]. intros r [_ Hr]. now apply to_internal_ivalue. }
  cbn [bind].
  rewrite (mapM_id _ (fun r => r)); [now rewrite map_id|].
  rewrite Forall_forall. intros r' Hr'. apply in_map_iff in Hr'. destruct Hr' as (r & <- & Hr).
  rewrite Forall_forall in Hrows. destruct (row_shape fs r (Hrows r Hr)) as (vals & ->). reflexivity.
Qed.

(* ---------- the RDD input path (SparkSession._inferSchema): first row, then merged with the following rows
   until no NullType is left *)
Lemma rdd_merge_below fs : inferable (TStruct fs) -> forall rows acc,
  below acc (TStruct fs) -> Forall (is_row_of (TStruct fs)) rows ->
  rdd_merge acc rows = Ok (TStruct fs) \/ rdd_merge acc rows = Err EValue.
Proof.
  intros Hinf. induction rows as [|r rows IH]; intros acc Hacc Hrows; [now right|].
  inversion Hrows as [|? ? Hr Hrows']; subst. simpl.
  destruct (infer_schema_row fs r Hinf Hr) as (s & Es & Hs). rewrite Es. simpl.
  destruct (merge_below (TStruct fs) Hinf acc s Hacc Hs) as (c & Ec & Hc). rewrite Ec. simpl.
  destruct (has_nulltype c) eqn:En; [now apply IH|]. left. f_equal. now apply below_no_null.
Qed.

Lemma Forall_firstn {A} (P : A -> Prop) n l : Forall P l -> Forall P (firstn n l).
Proof. intro H. revert n. induction H as [|x l Hx _ IH]; intros [|n]; simpl; constructor; auto. Qed.

Theorem infer_rdd_result fs rows : inferable (TStruct fs) -> Forall (is_row_of (TStruct fs)) rows ->
  infer_schema_rdd rows = Ok (TStruct fs) \/ infer_schema_rdd rows = Err EValue \/
  infer_schema_rdd rows = Err EStopIteration.
Proof.
  intros Hinf Hrows. destruct rows as [|r rows]; [now right; right|].
  inversion Hrows as [|? ? Hr Hrows']; subst.
  destruct (row_shape fs r Hr) as (vals & ->). unfold infer_schema_rdd.
  destruct (py_falsy (PRow (map sf_name fs) vals)); [now right; left|].
  destruct (infer_schema_row fs _ Hinf Hr) as (s0 & E0 & H0). rewrite E0. cbn [bind].
  destruct (has_nulltype s0) eqn:En.
  - destruct (rdd_merge_below fs Hinf (firstn 99 rows) s0 H0 (Forall_firstn _ _ _ Hrows')) as [E|E]; rewrite E; auto.
  - left. f_equal. now apply below_no_null.
Qed.

Theorem create_rdd_id local fs rows s :
  inferable (TStruct fs) -> Forall (is_row_of (TStruct fs)) rows ->
  infer_schema_rdd rows = Ok s ->
  s = TStruct fs /\ Forall (fun r => verify s true r = Ok tt) rows /\
  create_inferred_rdd local rows = Ok (map (tz_local local) rows).
Proof.
  intros Hinf Hrows Hs.
  destruct (infer_rdd_result fs rows Hinf Hrows) as [E|[E|E]]; rewrite E in Hs; try discriminate.
  injection Hs as <-. split; [reflexivity|]. split.
  { eapply Forall_impl; [|exact Hrows]. intros r [_ Hr]. apply verify_ivalue; auto. }
  unfold create_inferred_rdd. rewrite E. cbn [bind].
  assert (E2 : mapM (fun r => bind (convert (TStruct fs) r) (to_internal local (TStruct fs))) rows
               = Ok (map (tz_local local) rows)).
  { apply mapM_id. rewrite Forall_forall in *. intros r Hr. destruct (Hrows r Hr) as [_ Hv].
    rewrite (convert_ivalue _ r Hv). cbn [bind]. now apply to_internal_ivalue. }
  rewrite E2. cbn [bind].
  rewrite (mapM_id _ (fun r => r)); [now rewrite map_id|].
  rewrite Forall_forall. intros r' Hr'. apply in_map_iff in Hr'. destruct Hr' as (r & <- & Hr).
  rewrite Forall_forall in Hrows. destruct (row_shape fs r (Hrows r Hr)) as (vals & ->). reflexivity.
Qed.

