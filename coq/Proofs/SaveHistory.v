(* The history is faithful: one entry per dump call, ending in the final file system (C09).
   Proved for EVERY step list, not only the canonical order. *)
From Coq Require Import List Bool Arith NArith Lia.
Require Import PV.Gen.SaveOrder PV.Model.Save.
Import ListNotations.

Section Pres.
Variable P : st -> Prop.
Hypothesis P_locked : forall b s, P s -> P (set_locked b s).

Lemma attempts_pres : forall p act i rem a s r s',
  (forall s0 r0 s1, P s0 -> act s0 = (r0, s1) -> P s1) ->
  P s -> attempts p act i rem a s = (r, s') -> P s'.
Proof.
  induction rem as [|rem IH]; intros a s r s' Ha Hs H; simpl in H.
  - inversion H; subst; auto.
  - destruct (cf p i a).
    + destruct (catchable (compute_exn p i a)); [|inversion H; subst; auto].
      destruct rem; [inversion H; subst; auto|]. eapply IH; eauto.
    + destruct (act s) as [[u|e] s1] eqn:E.
      * inversion H; subst. eauto.
      * destruct (catchable e); [|inversion H; subst; eauto].
        destruct rem; [inversion H; subst; eauto|]. eapply IH; [exact Ha| |exact H]. eauto.
Qed.

Lemma tasks_pres : forall (A : Type) p (act : nat -> A -> st -> res unit * st) m xs i s r s',
  (forall i x s0 r0 s1, P s0 -> act i x s0 = (r0, s1) -> P s1) ->
  P s -> tasks A p act m i xs s = (r, s') -> P s'.
Proof.
  induction xs as [|x xs IH]; intros i s r s' Ha Hs H; simpl in H.
  - inversion H; subst; auto.
  - destruct (attempts p (act i x) i m 1 s) as [[u|e] s1] eqn:E.
    + eapply IH; [exact Ha| |exact H]. eapply attempts_pres; [|exact Hs|exact E]. intros; eapply Ha; eauto.
    + assert (P s1) by (eapply attempts_pres; [|exact Hs|exact E]; intros; eapply Ha; eauto).
      unfold task_boundary in H. destruct runjob_local_kind; [|destruct (is_stop e)]; inversion H; subst; auto.
Qed.

Lemma run_job_pres : forall (body : st -> res unit * st) s r s',
  (forall s0 r0 s1, P s0 -> body s0 = (r0, s1) -> P s1) ->
  P s -> run_job body s = (r, s') -> P s'.
Proof.
  intros body s r s' Hb Hs H. unfold run_job in H. destruct (s_locked s).
  - inversion H; subst; auto.
  - destruct (body (set_locked true s)) as [[u|e] s1] eqn:E; inversion H; subst; apply P_locked; (eapply Hb; [apply P_locked; exact Hs|exact E]).
Qed.
End Pres.

(* one history entry per dump call, and the current file system is the last entry (or the initial one) *)
Definition coherent (c0 : nat) (f0 : fs) (s : st) : Prop :=
  s_calls s = c0 + length (s_hist s) /\ s_fs s = last (s_hist s) f0.

Lemma coherent_locked : forall c0 f0 b s, coherent c0 f0 s -> coherent c0 f0 (set_locked b s).
Proof. intros c0 f0 b s H. exact H. Qed.

Lemma dump_coherent : forall c0 f0 p t c s r s',
  coherent c0 f0 s -> dump p t c s = (r, s') -> coherent c0 f0 s'.
Proof.
  intros c0 f0 p t c s r s' [Hc Hf] H. unfold dump in H.
  assert (G : forall r0 f', (r0, mkst f' (S (s_calls s)) (s_locked s) (s_hist s ++ [f'])) = (r, s') -> coherent c0 f0 s').
  { intros r0 f' E. inversion E; subst. unfold coherent; simpl. rewrite app_length, last_last. simpl. split; [lia|reflexivity]. }
  destruct (wf p (s_calls s)) as [[| |j]|].
  - eapply G; eauto.
  - eapply G; eauto.
  - destruct (write_to t (firstn j c) (s_fs s)); eapply G; eauto.
  - destruct (write_to t c (s_fs s)); eapply G; eauto.
Qed.

Theorem run_steps_coherent : forall (A : Type) (render : A -> bytes) p m xs steps c0 f0 s r s',
  coherent c0 f0 s -> run_steps A render p m xs steps s = (r, s') -> coherent c0 f0 s'.
Proof.
  intros A render p m xs steps c0 f0. induction steps as [|st steps IH]; intros s r s' Hs H; simpl in H.
  - inversion H; subst; auto.
  - assert (J : forall act, (forall i x s0 r0 s1, coherent c0 f0 s0 -> act i x s0 = (r0, s1) -> coherent c0 f0 s1) ->
                forall r1 s1, run_job (tasks A p act m 0 xs) s = (r1, s1) -> coherent c0 f0 s1).
    { intros act Ha r1 s1 E. eapply (run_job_pres (coherent c0 f0)); [apply coherent_locked| |exact Hs|exact E].
      intros s0 r0 s2 H0 E0. eapply (tasks_pres (coherent c0 f0)); [|exact H0|exact E0]. exact Ha. }
    assert (Jn : forall i x s0 r0 s1, coherent c0 f0 s0 -> noop_act A i x s0 = (r0, s1) -> coherent c0 f0 s1).
    { intros i x s0 r0 s1 H0 E. inversion E; subst; auto. }
    assert (Jw : forall i x s0 r0 s1, coherent c0 f0 s0 -> write_act A render p i x s0 = (r0, s1) -> coherent c0 f0 s1).
    { intros i x s0 r0 s1 H0 E. eapply dump_coherent; eauto. }
    destruct st.
    + destruct (fs_exists (s_fs s)); [inversion H; subst; auto|eauto].
    + destruct xs as [|x [|y xs']]; eauto.
      destruct (run_job (tasks A p (noop_act A) m 0 [x]) s) as [[u|e] s1] eqn:E.
      * eapply dump_coherent; [|exact H]. eapply (J (noop_act A)); [exact Jn|exact E].
      * inversion H; subst. eapply (J (noop_act A)); [exact Jn|exact E].
    + destruct (run_job (tasks A p (write_act A render p) m 0 xs) s) as [[u|e] s1] eqn:E.
      * eapply IH; [|exact H]. eapply (J (write_act A render p)); [exact Jw|exact E].
      * inversion H; subst. eapply (J (write_act A render p)); [exact Jw|exact E].
    + destruct (dump p (TChild NMarker) [] s) as [[u|e] s1] eqn:E.
      * eapply IH; [|exact H]. eapply dump_coherent; eauto.
      * inversion H; subst. eapply dump_coherent; eauto.
Qed.

Theorem history_faithful : forall (A : Type) (render : A -> bytes) sv p m xs f0 c0 lk r s',
  save A render sv p m xs (init_st f0 c0 lk) = (r, s') ->
  s_calls s' = c0 + length (s_hist s') /\ s_fs s' = last (s_hist s') f0.
Proof.
  intros A render sv p m xs f0 c0 lk r s' H. unfold save in H.
  eapply run_steps_coherent; [|exact H]. unfold coherent; simpl. split; [lia|reflexivity].
Qed.
