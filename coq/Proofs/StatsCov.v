(* C17, exact-arithmetic part for CovarianceCounter (DataFrame cov / corr): RepC, add/merge preserve it, every merge
   tree / aggregate represents the whole data, covar_samp / covar_pop / pearson_correlation equal the two-pass values. *)
From Coq Require Import ZArith Reals List Lra Lia Permutation Bool.
Require Import PV.Base.Num PV.Base.NumR PV.Base.SqrtOps PV.Base.SqrtOpsR.
Require Import PV.Gen.StatCounter PV.Gen.Covariance PV.Model.Stats PV.Proofs.Stats.
Import ListNotations.
Open Scope R_scope.

Notation ccR := (@cc ROps).

Definition xs_of (ps : list (R * R)) : list R := map fst ps.
Definition ys_of (ps : list (R * R)) : list R := map snd ps.
(* co-moment about (c, d) *)
Definition co (c d : R) (ps : list (R * R)) : R := sumR (map (fun p => (fst p - c) * (snd p - d)) ps).

Lemma len_map {A B} (f : A -> B) xs : len (map f xs) = len xs.
Proof. unfold len. rewrite map_length. reflexivity. Qed.

Lemma co_app c d ps qs : co c d (ps ++ qs) = co c d ps + co c d qs.
Proof. unfold co. rewrite map_app, sumR_app. reflexivity. Qed.

Lemma co_shift c d m k ps :
  co c d ps = co m k ps + (m - c) * (sumR (ys_of ps) - len ps * k) + (k - d) * (sumR (xs_of ps) - len ps * m)
              + len ps * ((m - c) * (k - d)).
Proof.
  induction ps as [|[x y] ps IH].
  - unfold co, len. cbn. lra.
  - unfold co, xs_of, ys_of in *. cbn [map sumR fst snd]. rewrite IH, len_cons. ring.
Qed.

Record RepC (c : ccR) (ps : list (R * R)) : Prop := mkRepC {
  repc_n : cc_n c = Z.of_nat (length ps);
  repc_x : IZR (cc_n c) * cc_xavg c = sumR (xs_of ps);
  repc_y : IZR (cc_n c) * cc_yavg c = sumR (ys_of ps);
  repc_ck : cc_ck c = co (cc_xavg c) (cc_yavg c) ps;
  repc_mkx : cc_mkx c = ssq (cc_xavg c) (xs_of ps);
  repc_mky : cc_mky c = ssq (cc_yavg c) (ys_of ps) }.

Lemma RepC_len c ps : RepC c ps -> IZR (cc_n c) = len ps.
Proof. intros [Hn _ _ _ _ _]. unfold len. rewrite Hn. reflexivity. Qed.

Lemma RepC_empty : RepC cc_empty [].
Proof. constructor; cbn; try reflexivity; lra. Qed.

Lemma RepC_add c ps p : RepC c ps -> RepC (cc_step c p) (ps ++ [p]).
Proof.
  intros H. pose proof (RepC_len _ _ H) as Hl.
  destruct c as [n xa ya ck mkx mky]. destruct p as [x y].
  destruct H as [Hn Hx Hy Hck Hmx Hmy]. cbn [cc_n cc_xavg cc_yavg cc_ck cc_mkx cc_mky] in *.
  pose proof (len_nonneg ps) as Hpos.
  unfold cc_step, cc_of6, cc_add. cbn [cc_n cc_xavg cc_yavg cc_ck cc_mkx cc_mky fst snd].
  cbn [F fadd fsub fmul fdiv fofZ ROps]. change (@F ROps) with R in *.
  rewrite Hl in Hx, Hy.
  constructor; cbn [cc_n cc_xavg cc_yavg cc_ck cc_mkx cc_mky]; unfold xs_of, ys_of in *; change (@F ROps) with R in *.
  - rewrite app_length. cbn. lia.
  - rewrite map_app, sumR_app. cbn. rewrite plus_IZR, Hl, <- Hx. field. lra.
  - rewrite map_app, sumR_app. cbn. rewrite plus_IZR, Hl, <- Hy. field. lra.
  - rewrite co_app, (co_shift _ _ xa ya ps). unfold xs_of, ys_of. rewrite <- Hck, <- Hx, <- Hy, plus_IZR, Hl.
    unfold co. cbn. field. lra.
  - rewrite map_app, ssq_app, (ssq_shift _ xa (map fst ps)), len_map, <- Hmx, <- Hx, plus_IZR, Hl.
    unfold ssq. cbn. field. lra.
  - rewrite map_app, ssq_app, (ssq_shift _ ya (map snd ps)), len_map, <- Hmy, <- Hy, plus_IZR, Hl.
    unfold ssq. cbn. field. lra.
Qed.

Lemma RepC_comb a b ps qs : RepC a ps -> RepC b qs -> RepC (cc_comb a b) (ps ++ qs).
Proof.
  intros Ha Hb. pose proof (RepC_len _ _ Ha) as Hla. pose proof (RepC_len _ _ Hb) as Hlb.
  destruct a as [n1 xa1 ya1 ck1 mx1 my1]. destruct b as [n2 xa2 ya2 ck2 mx2 my2].
  destruct Ha as [Hn1 Hx1 Hy1 Hck1 Hmx1 Hmy1]. destruct Hb as [Hn2 Hx2 Hy2 Hck2 Hmx2 Hmy2].
  cbn [cc_n cc_xavg cc_yavg cc_ck cc_mkx cc_mky] in *.
  unfold cc_comb, cc_of6, cc_merge. cbn [cc_n cc_xavg cc_yavg cc_ck cc_mkx cc_mky].
  destruct (Z.ltb_spec 0 n2) as [L|L].
  - pose proof (len_nonneg ps) as Hp1.
    assert (Hp2 : 0 < len qs) by (rewrite <- Hlb; apply IZR_lt; lia).
    cbn [F fadd fsub fmul fdiv fofZ ROps]. change (@F ROps) with R in *.
    rewrite Hla in Hx1, Hy1. rewrite Hlb in Hx2, Hy2.
    constructor; cbn [cc_n cc_xavg cc_yavg cc_ck cc_mkx cc_mky]; unfold xs_of, ys_of in *; change (@F ROps) with R in *.
    + rewrite app_length. lia.
    + rewrite map_app, sumR_app, <- Hx1, <- Hx2, plus_IZR, Hla, Hlb. field. lra.
    + rewrite map_app, sumR_app, <- Hy1, <- Hy2, plus_IZR, Hla, Hlb. field. lra.
    + rewrite co_app, (co_shift _ _ xa1 ya1 ps), (co_shift _ _ xa2 ya2 qs). unfold xs_of, ys_of.
      rewrite <- Hck1, <- Hck2, <- Hx1, <- Hx2, <- Hy1, <- Hy2, plus_IZR, Hla, Hlb. field. lra.
    + rewrite map_app, ssq_app, (ssq_shift _ xa1 (map fst ps)), (ssq_shift _ xa2 (map fst qs)), !len_map.
      rewrite <- Hmx1, <- Hmx2, <- Hx1, <- Hx2, plus_IZR, Hla, Hlb. field. lra.
    + rewrite map_app, ssq_app, (ssq_shift _ ya1 (map snd ps)), (ssq_shift _ ya2 (map snd qs)), !len_map.
      rewrite <- Hmy1, <- Hmy2, <- Hy1, <- Hy2, plus_IZR, Hla, Hlb. field. lra.
  - assert (qs = []) by (apply len_zero_nil; lia). subst qs. rewrite app_nil_r.
    constructor; cbn [cc_n cc_xavg cc_yavg cc_ck cc_mkx cc_mky]; assumption.
Qed.

Lemma RepC_fold ps : forall c qs, RepC c qs -> RepC (fold_left cc_step ps c) (qs ++ ps).
Proof.
  induction ps as [|p ps IH]; intros c qs H; cbn [fold_left].
  - rewrite app_nil_r. exact H.
  - replace (qs ++ p :: ps) with ((qs ++ [p]) ++ ps) by (rewrite <- app_assoc; reflexivity).
    apply IH, RepC_add, H.
Qed.

Lemma RepC_of_list ps : RepC (cc_of_list ps) ps.
Proof. unfold cc_of_list. apply (RepC_fold ps _ []). apply RepC_empty. Qed.

Lemma cov_tree_rep t : RepC (tree_cov t) (tdata t).
Proof.
  induction t as [ps | l IHl r IHr | t IH]; cbn [tree_cov tdata].
  - apply RepC_of_list.
  - apply RepC_comb; assumption.
  - apply RepC_comb; assumption.
Qed.

Lemma cov_aggregate_fold parts : forall acc,
  fold_left cc_comb (map (fun p => fold_left cc_step p cc_empty) parts) (tree_cov acc)
  = tree_cov (left_comb acc parts).
Proof.
  induction parts as [|p ps IH]; intros acc; cbn [map fold_left left_comb].
  - reflexivity.
  - rewrite <- IH. reflexivity.
Qed.

Lemma df_cov_left_comb parts : df_cov_helper parts = tree_cov (left_comb (MLeaf []) parts).
Proof. unfold df_cov_helper, aggregate. rewrite <- cov_aggregate_fold. reflexivity. Qed.

Lemma df_cov_rep parts : RepC (df_cov_helper parts) (concat parts).
Proof.
  rewrite df_cov_left_comb.
  replace (concat parts) with (tdata (left_comb (MLeaf (@nil (R * R))) parts)) by (rewrite tdata_left_comb; reflexivity).
  apply cov_tree_rep.
Qed.

Lemma co_perm c d ps qs : Permutation ps qs -> co c d ps = co c d qs.
Proof. intros H. unfold co. apply sumR_perm, Permutation_map, H. Qed.

Lemma RepC_perm c ps qs : Permutation ps qs -> RepC c ps -> RepC c qs.
Proof.
  intros P [Hn Hx Hy Hck Hmx Hmy]. constructor; unfold xs_of, ys_of in *.
  - rewrite Hn, (Permutation_length P). reflexivity.
  - rewrite Hx. apply sumR_perm, Permutation_map, P.
  - rewrite Hy. apply sumR_perm, Permutation_map, P.
  - rewrite Hck. apply co_perm, P.
  - rewrite Hmx. apply ssq_perm, Permutation_map, P.
  - rewrite Hmy. apply ssq_perm, Permutation_map, P.
Qed.

Lemma cov_tree_over_rep (ps : list (R * R)) parts t :
  concat parts = ps -> Permutation (leaves t) parts -> RepC (tree_cov t) ps.
Proof.
  intros Hc Hp. subst ps. eapply RepC_perm; [| apply cov_tree_rep].
  rewrite tdata_leaves. apply concat_perm, Hp.
Qed.

(* ---------- two-pass covariance / correlation *)
Definition tp_cov_samp (ps : list (R * R)) : R :=
  co (tp_mean (xs_of ps)) (tp_mean (ys_of ps)) ps / (len ps - 1).
Definition tp_cov_pop (ps : list (R * R)) : R :=
  co (tp_mean (xs_of ps)) (tp_mean (ys_of ps)) ps / len ps.
Definition tp_corr (ps : list (R * R)) : R :=
  co (tp_mean (xs_of ps)) (tp_mean (ys_of ps)) ps
  / sqrt (ssq (tp_mean (xs_of ps)) (xs_of ps) * ssq (tp_mean (ys_of ps)) (ys_of ps)).

Record TwoPassC (c : ccR) (ps : list (R * R)) : Prop := mkTwoPassC {
  tpc_count : cc_n c = Z.of_nat (length ps);
  tpc_samp : cv_samp c = match ps with [] | [_] => None | _ => Some (tp_cov_samp ps) end;
  tpc_pop : cv_pop c = match ps with [] => None | _ => Some (tp_cov_pop ps) end;
  tpc_corr : ps <> [] -> cv_corr c = tp_corr ps }.

Lemma RepC_means c ps : RepC c ps -> ps <> [] ->
  cc_xavg c = tp_mean (xs_of ps) /\ cc_yavg c = tp_mean (ys_of ps).
Proof.
  intros H Hne. pose proof (RepC_len _ _ H) as Hl. destruct H as [_ Hx Hy _ _ _].
  pose proof (len_pos ps Hne). unfold tp_mean, xs_of, ys_of in *. rewrite !len_map, <- Hx, <- Hy, Hl.
  destruct c as [n xa ya ck mkx mky]. cbn [cc_xavg cc_yavg]. change (@F ROps) with R in *.
  split; field; lra.
Qed.

Lemma RepC_two_pass c ps : RepC c ps -> TwoPassC c ps.
Proof.
  intros H. pose proof (RepC_len _ _ H) as Hl. pose proof (RepC_means _ _ H) as Hm.
  destruct H as [Hn Hx Hy Hck Hmx Hmy]. constructor.
  - exact Hn.
  - unfold cv_samp, cc_covar_samp. destruct ps as [|p [|q ps']].
    + rewrite Hn. reflexivity.
    + rewrite Hn. reflexivity.
    + destruct (Z.leb_spec (cc_n c) 1) as [E|E]; [rewrite Hn in E; cbn [length] in E; lia|].
      destruct Hm as [Hmx' Hmy']; [congruence|].
      f_equal. unfold tp_cov_samp. rewrite <- Hmx', <- Hmy', <- Hck, <- Hl.
      cbn [F fdiv fofZ ROps]. rewrite minus_IZR. reflexivity.
  - unfold cv_pop, cc_covar_pop. destruct ps as [|p ps'].
    + rewrite Hn. reflexivity.
    + destruct (Z.eqb_spec (cc_n c) 0) as [E|E]; [rewrite Hn in E; cbn in E; lia|].
      destruct Hm as [Hmx' Hmy']; [congruence|].
      f_equal. unfold tp_cov_pop. rewrite <- Hmx', <- Hmy', <- Hck, <- Hl. reflexivity.
  - intros Hne. destruct Hm as [Hmx' Hmy']; [exact Hne|].
    unfold cv_corr, cc_pearson, tp_corr. rewrite <- Hmx', <- Hmy', <- Hck, <- Hmx, <- Hmy. reflexivity.
Qed.

(* Pearson's r in its textbook form: population covariance over the product of the standard deviations *)
Lemma tp_corr_textbook ps : ps <> [] ->
  tp_corr ps = tp_cov_pop ps / (sqrt (tp_var (xs_of ps)) * sqrt (tp_var (ys_of ps))).
Proof.
  intros Hne. pose proof (len_pos ps Hne) as Hp.
  unfold tp_corr, tp_cov_pop, tp_var. unfold xs_of, ys_of. rewrite !len_map.
  set (cx := tp_mean (map fst ps)). set (cy := tp_mean (map snd ps)).
  pose proof (ssq_nonneg cx (map fst ps)) as Hx. pose proof (ssq_nonneg cy (map snd ps)) as Hy.
  set (sx := ssq cx (map fst ps)) in *. set (sy := ssq cy (map snd ps)) in *.
  rewrite <- sqrt_mult_alt by (apply Rmult_le_pos; [exact Hx | left; apply Rinv_0_lt_compat, Hp]).
  replace (sx / len ps * (sy / len ps)) with ((sx * sy) / (len ps * len ps)) by (field; lra).
  rewrite sqrt_div_alt by nra. rewrite sqrt_square by lra.
  destruct (Req_dec (sqrt (sx * sy)) 0) as [Z|NZ].
  - rewrite Z. unfold Rdiv. rewrite Rmult_0_l, !Rinv_0, !Rmult_0_r. reflexivity.
  - field. split; lra.
Qed.

Lemma cov_any_partitioning_any_order (ps : list (R * R)) parts (t : mtree (R * R)) :
  concat parts = ps -> Permutation (leaves t) parts -> TwoPassC (tree_cov t) ps.
Proof. intros Hc Hp. apply RepC_two_pass. eapply cov_tree_over_rep; eassumption. Qed.

Lemma df_cov_two_pass parts : TwoPassC (df_cov_helper parts) (concat parts).
Proof. apply RepC_two_pass, df_cov_rep. Qed.

Lemma RepC_unique c c' ps : ps <> [] -> RepC c ps -> RepC c' ps -> c = c'.
Proof.
  intros Hne H H'. destruct (RepC_means _ _ H Hne) as [Hx Hy]. destruct (RepC_means _ _ H' Hne) as [Hx' Hy'].
  destruct H as [Hn _ _ Hck Hmx Hmy]. destruct H' as [Hn' _ _ Hck' Hmx' Hmy'].
  destruct c as [n xa ya ck mkx mky]. destruct c' as [n' xa' ya' ck' mkx' mky'].
  cbn [cc_n cc_xavg cc_yavg cc_ck cc_mkx cc_mky] in *. subst. reflexivity.
Qed.

Lemma cov_merge_order_irrelevant (t t' : mtree (R * R)) :
  Permutation (tdata t) (tdata t') -> tdata t <> [] -> tree_cov t = tree_cov t'.
Proof.
  intros P Hne. apply (RepC_unique _ _ (tdata t) Hne); [apply cov_tree_rep|].
  eapply RepC_perm; [apply Permutation_sym, P | apply cov_tree_rep].
Qed.
