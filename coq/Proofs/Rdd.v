(* C01 -- lemmas about the RDD core model: error monad, ranges, parallelize. *)
From Coq Require Import String ZArith NArith List Bool Lia Sorted.
Require Import PV.Base.Val PV.Base.PyArith PV.Base.Num.
Require Import PV.Gen.Parallelize PV.Gen.Layout PV.Gen.StatCounter.
Require Import PV.Model.Rdd.
Import ListNotations.
Open Scope Z_scope.

(* ---------------------------------------------------------------- monad laws *)
Lemma bind_ok_r {A} (r : res A) : bind r Ok = r.
Proof. destruct r; reflexivity. Qed.

Lemma bind_assoc {A B C} (r : res A) (f : A -> res B) (g : B -> res C) :
  bind (bind r f) g = bind r (fun a => bind (f a) g).
Proof. destruct r; reflexivity. Qed.

Lemma bind_ext {A B} (r : res A) (f g : A -> res B) :
  (forall a, f a = g a) -> bind r f = bind r g.
Proof. intros H; destruct r; simpl; auto. Qed.

Lemma rmap_bind {A B} (f : A -> B) (r : res A) : rmap f r = bind r (fun a => Ok (f a)).
Proof. destruct r; reflexivity. Qed.

Lemma mapM_app {A B} (f : A -> res B) (a b : list A) :
  mapM f (a ++ b) = ya <- mapM f a ;; yb <- mapM f b ;; Ok (ya ++ yb).
Proof.
  induction a as [|x a IH]; simpl.
  - destruct (mapM f b); reflexivity.
  - destruct (f x); simpl; auto. rewrite IH.
    destruct (mapM f a); simpl; auto. destruct (mapM f b); reflexivity.
Qed.

Lemma mapM_concat {A B} (f : A -> res B) (ps : list (list A)) :
  rmap (@concat B) (mapM (mapM f) ps) = mapM f (concat ps).
Proof.
  induction ps as [|p ps IH]; simpl; auto.
  rewrite mapM_app, <- IH.
  destruct (mapM f p); simpl; auto. destruct (mapM (mapM f) ps); reflexivity.
Qed.

Lemma mapM_length {A B} (f : A -> res B) (l : list A) (r : list B) :
  mapM f l = Ok r -> length r = length l.
Proof.
  revert r; induction l as [|x l IH]; simpl; intros r H.
  - inversion H; reflexivity.
  - destruct (f x); simpl in H; try discriminate.
    destruct (mapM f l) eqn:E; simpl in H; try discriminate.
    inversion H; subst; simpl. f_equal. apply IH; reflexivity.
Qed.

Lemma foldM_app {A S} (f : S -> A -> res S) (l1 l2 : list A) (a : S) :
  foldM f (l1 ++ l2) a = a' <- foldM f l1 a ;; foldM f l2 a'.
Proof.
  revert a; induction l1 as [|x l1 IH]; simpl; intros a; auto.
  destruct (f a x); simpl; auto.
Qed.

Lemma flat_mapM_app (g : genf) (xs ys : list val) :
  flat_mapM g (xs ++ ys) = a <- flat_mapM g xs ;; b <- flat_mapM g ys ;; Ok (a ++ b).
Proof.
  unfold flat_mapM. rewrite mapM_app.
  destruct (mapM g xs); simpl; auto. destruct (mapM g ys); simpl; auto.
  rewrite concat_app; reflexivity.
Qed.

Lemma parts_flat (g : genf) (ps : parts) :
  rmap (@concat val) (mapM (flat_mapM g) ps) = flat_mapM g (concat ps).
Proof.
  induction ps as [|p ps IH]; simpl; auto.
  rewrite flat_mapM_app, <- IH.
  destruct (flat_mapM g p); simpl; auto. destruct (mapM (flat_mapM g) ps); reflexivity.
Qed.

Lemma len_app {A} (a b : list A) : len (a ++ b) = len a + len b.
Proof. unfold len. rewrite app_length. lia. Qed.
Lemma len_nonneg {A} (a : list A) : 0 <= len a.
Proof. unfold len. lia. Qed.

(* ---------------------------------------------------------------- zrange *)
Lemma map_seq_shift {A} (f : nat -> A) (b a : nat) :
  map f (seq a b) = map (fun k => f (a + k)%nat) (seq 0 b).
Proof.
  revert a f; induction b as [|b IH]; intros a f; simpl; auto.
  f_equal. { f_equal; lia. }
  rewrite (IH (S a)), (IH 1%nat). apply map_ext; intros k. f_equal; lia.
Qed.

Lemma zrange_nil lo hi : hi <= lo -> zrange lo hi = [].
Proof. intros H. unfold zrange. replace (Z.to_nat (hi - lo)) with 0%nat by lia. reflexivity. Qed.

Lemma zrange_cons lo hi : lo < hi -> zrange lo hi = lo :: zrange (lo + 1) hi.
Proof.
  intros H. unfold zrange.
  replace (Z.to_nat (hi - lo)) with (S (Z.to_nat (hi - (lo + 1)))) by lia.
  simpl. f_equal. { lia. }
  rewrite (map_seq_shift _ _ 1). apply map_ext; intros k. lia.
Qed.

Lemma zrange_split lo m hi : lo <= m <= hi -> zrange lo hi = zrange lo m ++ zrange m hi.
Proof.
  intros H. unfold zrange.
  replace (Z.to_nat (hi - lo)) with (Z.to_nat (m - lo) + Z.to_nat (hi - m))%nat by lia.
  rewrite seq_app, map_app. f_equal. simpl.
  rewrite map_seq_shift. apply map_ext; intros k. lia.
Qed.

Lemma zrange_snoc lo hi : lo <= hi -> zrange lo (hi + 1) = zrange lo hi ++ [hi].
Proof.
  intros H. rewrite (zrange_split lo hi (hi + 1)) by lia. f_equal.
  rewrite zrange_cons by lia. rewrite zrange_nil by lia. reflexivity.
Qed.

Lemma zrange_in lo hi j : In j (zrange lo hi) -> lo <= j < hi.
Proof.
  unfold zrange. rewrite in_map_iff. intros [k [E Hk]]. apply in_seq in Hk. lia.
Qed.

Lemma zrange_length lo hi : length (zrange lo hi) = Z.to_nat (hi - lo).
Proof. unfold zrange. rewrite map_length, seq_length. reflexivity. Qed.

(* ---------------------------------------------------------------- parallelize *)
Definition sumZ (l : list Z) : Z := fold_right Z.add 0 l.
Lemma sumZ_app a b : sumZ (a ++ b) = sumZ a + sumZ b.
Proof. induction a; simpl; lia. Qed.

Lemma firstn_add {A} (a b : nat) (xs : list A) :
  firstn (a + b) xs = firstn a xs ++ firstn b (skipn a xs).
Proof.
  revert xs; induction a as [|a IH]; intros xs; simpl; auto.
  destruct xs; simpl. { rewrite firstn_nil; reflexivity. } f_equal. apply IH.
Qed.

Lemma take_seq_concat sizes xs :
  Forall (fun s => 0 <= s) sizes ->
  concat (take_seq sizes xs) = firstn (Z.to_nat (sumZ sizes)) xs.
Proof.
  revert xs; induction sizes as [|s ss IH]; intros xs H; simpl; auto.
  inversion H as [|? ? Hs Hss]; subst.
  rewrite IH by assumption.
  assert (0 <= sumZ ss) by (clear -Hss; induction Hss; simpl; lia).
  rewrite Z2Nat.inj_add by assumption. rewrite firstn_add. reflexivity.
Qed.

Lemma take_seq_length sizes xs : length (take_seq sizes xs) = length sizes.
Proof. revert xs; induction sizes; intros; simpl; auto. Qed.

Lemma par_take_eq i L n : 0 <= i -> 0 <= L -> 0 < n ->
  par_take i L n = ((i + 1) * L) / n - (i * L) / n + (if i + 1 =? n then 1 else 0).
Proof.
  intros Hi HL Hn. unfold par_take. cbv zeta.
  rewrite !int_truediv_nonneg by nia.
  destruct (i + 1 =? n); lia.
Qed.

Lemma par_take_nonneg i L n : 0 <= i -> 0 <= L -> 0 < n -> 0 <= par_take i L n.
Proof.
  intros Hi HL Hn. rewrite par_take_eq by assumption.
  assert ((i * L) / n <= ((i + 1) * L) / n) by (apply Z.div_le_mono; nia).
  destruct (i + 1 =? n); lia.
Qed.

Lemma par_sizes_sum_prefix L n (k : nat) : 0 <= L -> 1 < n -> Z.of_nat k <= n ->
  sumZ (map (fun i => par_take i L n) (zrange 0 (Z.of_nat k))) =
  (Z.of_nat k * L) / n + (if Z.of_nat k =? n then 1 else 0).
Proof.
  intros HL Hn. induction k as [|k IH]; intros Hk.
  - simpl. destruct n; lia.
  - replace (Z.of_nat (S k)) with (Z.of_nat k + 1) by lia.
    rewrite zrange_snoc by lia. rewrite map_app, sumZ_app, IH by lia. simpl.
    rewrite par_take_eq by lia.
    destruct (Z.of_nat k =? n) eqn:E; [lia|]. lia.
Qed.

Lemma par_sizes_sum L n : 0 <= L -> 1 < n -> sumZ (par_sizes L n) = L + 1.
Proof.
  intros HL Hn. unfold par_sizes.
  pose proof (par_sizes_sum_prefix L n (Z.to_nat n) HL Hn) as H.
  rewrite Z2Nat.id in H by lia. rewrite H by lia.
  rewrite Z.eqb_refl. rewrite Z.mul_comm, Z.div_mul by lia. reflexivity.
Qed.

Lemma par_sizes_nonneg L n : 0 <= L -> 1 < n -> Forall (fun s => 0 <= s) (par_sizes L n).
Proof.
  intros HL Hn. unfold par_sizes. apply Forall_forall. intros s Hs.
  apply in_map_iff in Hs. destruct Hs as [i [E Hi]]. apply zrange_in in Hi. subst.
  apply par_take_nonneg; lia.
Qed.

Theorem parallelize_flat xs n : concat (parallelize xs n) = xs.
Proof.
  unfold parallelize, par_single.
  destruct (n <=? 1) eqn:E; simpl. { apply app_nil_r. }
  apply Z.leb_gt in E.
  rewrite take_seq_concat by (apply par_sizes_nonneg; [apply len_nonneg|lia]).
  rewrite par_sizes_sum by (try apply len_nonneg; lia).
  apply firstn_all2. unfold len. lia.
Qed.

Lemma parallelize_nonempty xs n : parallelize xs n <> [].
Proof.
  unfold parallelize, par_single. destruct (n <=? 1) eqn:E; [discriminate|].
  apply Z.leb_gt in E. intros H.
  apply (f_equal (@length _)) in H. rewrite take_seq_length in H.
  unfold par_sizes in H. rewrite map_length, zrange_length in H. simpl in H. lia.
Qed.
