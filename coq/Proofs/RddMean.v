(* C01 -- mean(): the regenerated StatCounter kernels over the reals give sum / count for every partitioning. *)
From Coq Require Import String ZArith List Bool Lia Reals Lra PrimFloat.
Require Import PV.Base.Val PV.Base.PyArith PV.Base.Num PV.Base.NumR.
Require Import PV.Gen.StatCounter.
Require Import PV.Model.Rdd PV.Proofs.Rdd.
Import ListNotations.
Open Scope Z_scope.

(* mean(): the StatCounter kernels (regenerated from stat_counter.py, generic in the number type)
   instantiated with the real numbers.  For integer data in ANY partitioning the mean is sum / count.
   (On floats the same kernels are executed with PrimFloat by the model; rounding makes the float
   result depend on the partitioning in the last bits -- not claimed here.) *)

Definition sc_inv (s : @sc_state ROps) (l : list Z) : Prop :=
  sc_n s = len l /\ (IZR (sc_n s) * sc_mu s = IZR (sumZ l))%R.

Lemma sumZ_snoc l z : sumZ (l ++ [z]) = sumZ l + z.
Proof. rewrite sumZ_app. simpl. lia. Qed.

Lemma sc_step_inv s l z : sc_inv s l -> sc_inv (sc_step s z) (l ++ [z]).
Proof.
  destruct s as [[[[n mu] m2] mx] mn]. unfold sc_inv, sc_step, sc_merge, sc_n, sc_mu. simpl.
  intros [Hn Hmu]. split.
  - rewrite len_app. unfold len at 2. simpl. lia.
  - rewrite sumZ_snoc. rewrite !plus_IZR. rewrite <- Hmu.
    assert (IZR n + 1 <> 0)%R.
    { rewrite <- plus_IZR. apply not_0_IZR. pose proof (len_nonneg l). lia. }
    simpl. field. assumption.
Qed.

Lemma sc_fold_inv p : forall s l, sc_inv s l -> sc_inv (fold_left sc_step p s) (l ++ p).
Proof.
  induction p as [|z p IH]; intros s l H; simpl.
  - rewrite app_nil_r. assumption.
  - replace (l ++ z :: p) with ((l ++ [z]) ++ p) by (rewrite <- app_assoc; reflexivity).
    apply IH. apply sc_step_inv. assumption.
Qed.

Lemma sc_comb_inv a b l1 l2 : sc_inv a l1 -> sc_inv b l2 -> sc_inv (sc_comb a b) (l1 ++ l2).
Proof.
  destruct a as [[[[n1 mu1] m21] mx1] mn1]. destruct b as [[[[n2 mu2] m22] mx2] mn2].
  unfold sc_inv, sc_comb, sc_mergeStats, sc_n, sc_mu. simpl.
  intros [Hn1 Hmu1] [Hn2 Hmu2].
  pose proof (len_nonneg l1) as P1. pose proof (len_nonneg l2) as P2.
  assert (HS : IZR (sumZ (l1 ++ l2)) = (IZR n1 * mu1 + IZR n2 * mu2)%R).
  { rewrite sumZ_app, plus_IZR, <- Hmu1, <- Hmu2. reflexivity. }
  rewrite len_app, HS. clear HS Hmu1 Hmu2.
  destruct (n1 =? 0) eqn:E1.
  { apply Z.eqb_eq in E1. rewrite E1 in *. simpl. split; [lia|]. lra. }
  apply Z.eqb_neq in E1.
  destruct (n2 =? 0) eqn:E2; simpl.
  { apply Z.eqb_eq in E2. rewrite E2 in *. simpl. split; [lia|]. lra. }
  apply Z.eqb_neq in E2.
  assert (Hs : (IZR n1 + IZR n2 <> 0)%R).
  { rewrite <- plus_IZR. apply not_0_IZR. lia. }
  split; [lia|].
  destruct (n2 * 10 <? n1); [|destruct (n1 * 10 <? n2)]; simpl; rewrite !plus_IZR; field; assumption.
Qed.

Lemma sc_parts_inv zero zs : sc_inv zero [] -> sc_inv (sc_parts zero zs) (concat zs).
Proof.
  intros H0. unfold sc_parts.
  assert (G : forall acc l, sc_inv acc l ->
    sc_inv (fold_left (fun acc p => sc_comb acc (fold_left sc_step p zero)) zs acc) (l ++ concat zs)).
  { induction zs as [|p zs IH]; intros acc l H; simpl.
    - rewrite app_nil_r. assumption.
    - rewrite app_assoc. apply IH. apply sc_comb_inv; auto.
      change p with ([] ++ p) at 2. apply sc_fold_inv. assumption. }
  apply (G zero [] H0).
Qed.

Theorem mean_real (mx mn : R) (zs : list (list Z)) : concat zs <> [] ->
  @sc_mu ROps (sc_parts (0, 0%R, 0%R, mx, mn) zs) = (IZR (sumZ (concat zs)) / IZR (len (concat zs)))%R /\
  @sc_n ROps (sc_parts (0, 0%R, 0%R, mx, mn) zs) = len (concat zs).
Proof.
  intros Hne.
  assert (H0 : sc_inv (0, 0%R, 0%R, mx, mn) []).
  { unfold sc_inv, sc_n, sc_mu. simpl. split; [reflexivity|]. lra. }
  destruct (sc_parts_inv _ zs H0) as [Hn Hmu]. split; [|assumption].
  rewrite Hn in Hmu.
  assert (IZR (len (concat zs)) <> 0)%R.
  { apply not_0_IZR. unfold len. destruct (concat zs); [contradiction|simpl; lia]. }
  set (m := sc_mu _) in *. clearbody m. simpl in *. rewrite <- Hmu. field. assumption.
Qed.

(* bit-identical equality with sum(xs) / len(xs) fails already for [0, 1, 0] in one partition
   (0.33333333333333337 vs 0.3333333333333333); same on the implementation *)
Lemma mean_bitexact_refuted :
  ~ (forall ps : parts, concat ps <> [] -> run_act AMean ps = run_list AMean (concat ps)).
Proof.
  intros H. specialize (H [[VInt 0; VInt 1; VInt 0]] ltac:(discriminate)).
  apply (f_equal (fun r => match r with
                           | Ok (VFloat f) => PrimFloat.eqb f (PrimFloat.div 1 3)
                           | _ => false end)) in H.
  vm_compute in H. discriminate.
Qed.
