(* Lemmas about the relational operators: what collect() returns after each operator, as a function of
   the column names and collect() of the operand only -- whatever the partitioning and however
   Context.parallelize re-slices a list. *)
From Coq Require Import ZArith NArith Bool String List Permutation Sorted Lia.
From Coq Require Import PrimFloat SpecFloat FloatOps.
Require Import PV.Base.Num PV.Gen.SqlTables PV.Model.SqlExpr PV.Model.SqlRel.
Require Import PV.Proofs.SqlExpr PV.Proofs.SqlSort.
Import ListNotations.
Open Scope Z_scope.
Open Scope list_scope.

(* ---------- map_opt *)
Lemma map_opt_app {A B} (f : A -> option B) a b :
  map_opt f (a ++ b) =
  match map_opt f a, map_opt f b with Some x, Some y => Some (x ++ y) | _, _ => None end.
Proof.
  induction a as [|x a IH]; cbn [map_opt app].
  - destruct (map_opt f b); reflexivity.
  - destruct (f x); [|reflexivity]. rewrite IH. destruct (map_opt f a), (map_opt f b); reflexivity.
Qed.

Lemma map_opt_total {A B} (f : A -> option B) (g : A -> B) l :
  Forall (fun x => f x = Some (g x)) l -> map_opt f l = Some (map g l).
Proof.
  induction 1 as [|x l Hx Hl IH]; [reflexivity|]. cbn [map_opt map]. rewrite Hx, IH. reflexivity.
Qed.

Lemma map_opt_some_map {A B} (f : A -> option B) (d : B) l out :
  map_opt f l = Some out -> out = map (fun x => match f x with Some y => y | None => d end) l.
Proof.
  revert out. induction l as [|x l IH]; intros out H; cbn [map_opt] in H.
  - inversion H; reflexivity.
  - destruct (f x) eqn:E; [|discriminate H]. destruct (map_opt f l) eqn:E2; [|discriminate H].
    inversion H; subst. cbn [map]. rewrite E. f_equal. apply IH. reflexivity.
Qed.

(* a partition-wise operator whose per-partition function distributes over ++ *)
Section Homo.
  Context {A B : Type}.
  Variable g : list A -> option (list B).
  Hypothesis g_nil : g [] = Some [].
  Hypothesis g_app : forall a b,
    g (a ++ b) = match g a, g b with Some x, Some y => Some (x ++ y) | _, _ => None end.

  Lemma homo_concat ps : option_map (@concat B) (map_opt g ps) = g (concat ps).
  Proof.
    induction ps as [|p ps IH]; cbn [map_opt concat].
    - rewrite g_nil. reflexivity.
    - rewrite g_app. destruct (g p); [|reflexivity]. rewrite <- IH.
      destruct (map_opt g ps); reflexivity.
  Qed.
End Homo.

Lemma filter_rows_app sch c a b :
  filter_rows sch c (a ++ b) =
  match filter_rows sch c a, filter_rows sch c b with Some x, Some y => Some (x ++ y) | _, _ => None end.
Proof.
  induction a as [|r a IH]; cbn [filter_rows app].
  - destruct (filter_rows sch c b); reflexivity.
  - destruct (eval sch r c); [|reflexivity]. rewrite IH.
    destruct (filter_rows sch c a), (filter_rows sch c b); try reflexivity.
    destruct (truthy s); reflexivity.
Qed.

(* ---------- what one sees of a data frame *)
Definition view (d : df) : list name * list row := (cols d, collect d).

Section Rel.
Variable split : nat -> list row -> list (list row).
Hypothesis split_ok : forall h l, concat (split h l) = l.

Lemma view_resliced d rows : view (resliced split d rows) = (cols d, rows).
Proof. unfold view, resliced, collect. cbn. rewrite split_ok. reflexivity. Qed.

(* ----- select *)
Lemma select_view es d :
  option_map view (select es d) =
  match map_opt out_name es with
  | Some ns => option_map (pair ns) (map_opt (select_row (cols d) es) (collect d))
  | None => None
  end.
Proof.
  unfold select. destruct (map_opt out_name es) as [ns|]; [|reflexivity].
  unfold collect.
  rewrite <- (homo_concat (map_opt (select_row (cols d) es)) eq_refl (map_opt_app _)).
  destruct (map_opt _ (parts d)); reflexivity.
Qed.

(* ----- filter *)
Lemma filter_view c d :
  option_map view (filter_df c d) = option_map (pair (cols d)) (filter_rows (cols d) c (collect d)).
Proof.
  unfold filter_df, collect.
  rewrite <- (homo_concat (filter_rows (cols d) c) eq_refl (filter_rows_app _ _)).
  destruct (map_opt _ (parts d)); reflexivity.
Qed.

(* ----- drop, rename, toDF *)
Lemma drop_view ns d :
  option_map view (drop ns d) =
  option_map (fun ps => (remove_positions ps 0 (cols d), map (remove_positions ps 0) (collect d)))
             (map_opt (find_position (cols d)) ns).
Proof.
  unfold drop. destruct (map_opt _ ns) as [ps|]; [|reflexivity]. cbn. unfold view, collect. cbn.
  rewrite concat_map. reflexivity.
Qed.

Lemma rename_view a b d :
  option_map view (withColumnRenamed a b d) =
  Some (map (fun m => if name_eqb m a then b else m) (cols d), collect d).
Proof. reflexivity. Qed.

Lemma toDF_view ns d :
  option_map view (toDF ns d) = if Nat.eqb (length ns) (length (cols d)) then Some (ns, collect d) else None.
Proof. unfold toDF. destruct (Nat.eqb _ _); reflexivity. Qed.

(* ----- union *)
Lemma union_view d o :
  option_map view (union split d o) =
  if Nat.eqb (length (cols d)) (length (cols o)) then Some (cols d, collect d ++ collect o) else None.
Proof.
  unfold union. destruct (Nat.eqb _ _); [|reflexivity]. cbn. unfold view, collect. cbn.
  rewrite split_ok. reflexivity.
Qed.

Lemma unionByName_view d o :
  option_map view (unionByName split d o) =
  if nodup_names (cols d) && nodup_names (cols o) && Nat.eqb (length (cols d)) (length (cols o))
  then option_map (fun rs => (cols d, collect d ++ rs)) (map_opt (reorder_row (cols o) (cols d)) (collect o))
  else None.
Proof.
  unfold unionByName. destruct (_ && _ && _); [|reflexivity].
  destruct (map_opt _ (collect o)); [|reflexivity]. cbn. unfold view, collect. cbn.
  rewrite split_ok. reflexivity.
Qed.

(* ----- distinct, dropDuplicates, limit *)
Definition dedup_rows (rows : list row) : list row := dedupe row_eqb [] (map (fun r => (r, r)) rows).

Lemma distinct_view d : view (distinct split d) = (cols d, dedup_rows (collect d)).
Proof. unfold distinct. apply view_resliced. Qed.

Definition keyed (cs : list name) (ns : list name) (rows : list row) : option (list (row * row)) :=
  map_opt (fun r => match map_opt (lookup cs r) ns with Some k => Some (k, r) | None => None end) rows.

Lemma dropDuplicates_view ns d :
  option_map view (dropDuplicates split ns d) =
  match ns with
  | [] => Some (cols d, dedup_rows (collect d))
  | _ => option_map (fun kvs => (cols d, dedupe row_eqb [] kvs)) (keyed (cols d) ns (collect d))
  end.
Proof.
  unfold dropDuplicates, keyed. destruct ns as [|n ns].
  - cbn. unfold view, collect. cbn. rewrite split_ok. reflexivity.
  - destruct (map_opt _ (collect d)); [|reflexivity]. cbn. unfold view, collect. cbn.
    rewrite split_ok. reflexivity.
Qed.

Lemma limit_view n d : view (limit split n d) = (cols d, firstn n (collect d)).
Proof. unfold limit, view, collect. cbn. rewrite split_ok. reflexivity. Qed.

(* ----- sort *)
Fixpoint sort_flat (cs : list name) (ks : list (expr * sdir)) (rows : list row) : option (list row) :=
  match ks with
  | [] => Some rows
  | k :: ks' => match sort_flat cs ks' rows with Some mid => sort_pass cs k mid | None => None end
  end.

Lemma sort_df_cols ks : forall d d', sort_df split ks d = Some d' -> cols d' = cols d.
Proof.
  induction ks as [|k ks IH]; intros d d' H; cbn [sort_df] in H.
  - inversion H; reflexivity.
  - destruct (sort_df split ks d) as [d1|] eqn:E; [|discriminate H].
    destruct (sort_pass (cols d) k (collect d1)); [|discriminate H].
    inversion H; subst. cbn. eapply IH; eauto.
Qed.

Lemma sort_view ks d :
  option_map view (sort_df split ks d) = option_map (pair (cols d)) (sort_flat (cols d) ks (collect d)).
Proof.
  induction ks as [|k ks IH]; cbn [sort_df sort_flat]; [reflexivity|].
  destruct (sort_df split ks d) as [d1|] eqn:E; cbn in IH.
  - destruct (sort_flat (cols d) ks (collect d)) as [mid|]; [|discriminate IH].
    cbn in IH. injection IH as Hc Hm. rewrite <- Hm, <- Hc.
    destruct (sort_pass (cols d1) k (collect d1)) as [rows|]; [|reflexivity].
    cbn. rewrite view_resliced. reflexivity.
  - destruct (sort_flat (cols d) ks (collect d)); [discriminate IH | reflexivity].
Qed.

End Rel.

(* ---------- partition independence *)
Definition split_law (split : nat -> list row -> list (list row)) : Prop :=
  forall h l, concat (split h l) = l.

Lemma view_eq d d' : view d = view d' -> cols d = cols d' /\ collect d = collect d'.
Proof. unfold view. intros H. inversion H. auto. Qed.

Lemma step_simple_indep s1 s2 (L1 : split_law s1) (L2 : split_law s2) o d d' :
  view d = view d' ->
  option_map view (step_simple s1 o d) = option_map view (step_simple s2 o d').
Proof.
  intros Hv. destruct (view_eq _ _ Hv) as [Hc Hr].
  destruct o; cbn [step_simple].
  - rewrite !select_view, Hc, Hr. reflexivity.
  - rewrite !filter_view, Hc, Hr. reflexivity.
  - unfold withColumn. rewrite Hc. destruct (mem_name n (cols d')); rewrite !select_view, Hc, Hr; reflexivity.
  - rewrite !drop_view, Hc, Hr. reflexivity.
  - rewrite !rename_view, Hc, Hr. reflexivity.
  - rewrite !toDF_view, Hc, Hr. reflexivity.
  - reflexivity.
  - reflexivity.
  - cbn [option_map]. rewrite (distinct_view s1 L1), (distinct_view s2 L2), Hc, Hr. reflexivity.
  - rewrite (dropDuplicates_view s1 L1), (dropDuplicates_view s2 L2), Hc, Hr. reflexivity.
  - destruct ks as [|k ks]; [reflexivity|].
    rewrite (sort_view s1 L1), (sort_view s2 L2), Hc, Hr. reflexivity.
  - cbn [option_map]. rewrite (limit_view s1 L1), (limit_view s2 L2), Hc, Hr. reflexivity.
Qed.

Lemma run_simple_indep s1 s2 (L1 : split_law s1) (L2 : split_law s2) ops : forall d d',
  view d = view d' ->
  option_map view (run_simple s1 ops d) = option_map view (run_simple s2 ops d').
Proof.
  induction ops as [|o ops IH]; intros d d' Hv; cbn [run_simple].
  - cbn. rewrite Hv. reflexivity.
  - pose proof (step_simple_indep s1 s2 L1 L2 o d d' Hv) as Hs.
    destruct (step_simple s1 o d) as [x|], (step_simple s2 o d') as [y|]; cbn in Hs; try discriminate Hs.
    + apply IH. unfold view in *. congruence.
    + reflexivity.
Qed.

Lemma step_indep s1 s2 (L1 : split_law s1) (L2 : split_law s2) t2 t2' o d d' :
  view d = view d' -> view t2 = view t2' ->
  option_map view (step s1 t2 o d) = option_map view (step s2 t2' o d').
Proof.
  intros Hv Ht. destruct (view_eq _ _ Hv) as [Hc Hr].
  destruct o; try (apply step_simple_indep; assumption); cbn [step].
  - pose proof (run_simple_indep s1 s2 L1 L2 other t2 t2' Ht) as Ho.
    destruct (run_simple s1 other t2) as [x|], (run_simple s2 other t2') as [y|]; cbn in Ho; try discriminate Ho;
      [|reflexivity].
    assert (Ho' : view x = view y) by (unfold view in *; congruence). destruct (view_eq _ _ Ho') as [Hc2 Hr2].
    rewrite (union_view s1 L1), (union_view s2 L2), Hc, Hr, Hc2, Hr2. reflexivity.
  - pose proof (run_simple_indep s1 s2 L1 L2 other t2 t2' Ht) as Ho.
    destruct (run_simple s1 other t2) as [x|], (run_simple s2 other t2') as [y|]; cbn in Ho; try discriminate Ho;
      [|reflexivity].
    assert (Ho' : view x = view y) by (unfold view in *; congruence). destruct (view_eq _ _ Ho') as [Hc2 Hr2].
    rewrite (unionByName_view s1 L1), (unionByName_view s2 L2), Hc, Hr, Hc2, Hr2. reflexivity.
Qed.

Theorem rel_partition_indep : forall s1 s2, split_law s1 -> split_law s2 ->
  forall ops t2 t2' d d',
  view d = view d' -> view t2 = view t2' ->
  option_map view (run_ops s1 t2 ops d) = option_map view (run_ops s2 t2' ops d').
Proof.
  intros s1 s2 L1 L2. induction ops as [|o ops IH]; intros t2 t2' d d' Hv Ht; cbn [run_ops].
  - cbn. rewrite Hv. reflexivity.
  - pose proof (step_indep s1 s2 L1 L2 t2 t2' o d d' Hv Ht) as Hs.
    destruct (step s1 t2 o d) as [x|], (step s2 t2' o d') as [y|]; cbn in Hs; try discriminate Hs.
    + apply IH; auto. unfold view in *. congruence.
    + reflexivity.
Qed.

(* any two partitionings of the same rows *)
Corollary repartition_indep : forall s1 s2, split_law s1 -> split_law s2 ->
  forall ops cs cs2 (ps ps' qs qs' : list (list row)),
  concat ps = concat ps' -> concat qs = concat qs' ->
  option_map view (run_ops s1 (mkdf cs2 qs) ops (mkdf cs ps)) =
  option_map view (run_ops s2 (mkdf cs2 qs') ops (mkdf cs ps')).
Proof.
  intros s1 s2 L1 L2 ops cs cs2 ps ps' qs qs' Hp Hq.
  apply rel_partition_indep; auto; unfold view, collect; cbn; congruence.
Qed.

(* ====================================================================== filter, select *)
Lemma truthy_sql_true v : v_has_ty v TBool = true -> truthy v = sql_true v.
Proof. destruct v as [| | | |[|]]; intros H; try discriminate H; reflexivity. Qed.

Lemma sql_true_iff v : sql_true v = true <-> v = SBool true.
Proof. destruct v as [| | | |[|]]; cbn; split; intros H; try discriminate H; reflexivity. Qed.

Lemma filter_rows_sql G c :
  wt false G c TBool = true -> forall rows, Forall (fun r => row_ok G r = true) rows ->
  filter_rows (map fst G) c rows = Some (filter (fun r => sql_true (sql_eval (map fst G) r c)) rows).
Proof.
  intros Hw rows Hr. induction Hr as [|r rows Hok Hrs IH]; [reflexivity|].
  cbn [filter_rows filter]. destruct (eval_sql_typed G r c TBool Hok Hw) as [E T].
  rewrite E, IH, (truthy_sql_true _ T). reflexivity.
Qed.

Theorem filter_true_only : forall G c d,
  cols d = map fst G -> Forall (fun r => row_ok G r = true) (collect d) -> wt false G c TBool = true ->
  exists d', filter_df c d = Some d' /\ cols d' = cols d /\
             collect d' = filter (fun r => sql_true (sql_eval (cols d) r c)) (collect d) /\
             (forall r, In r (collect d') <-> In r (collect d) /\ sql_eval (cols d) r c = SBool true).
Proof.
  intros G c d Hc Hr Hw. pose proof (filter_view c d) as Hv.
  rewrite Hc, (filter_rows_sql G c Hw _ Hr) in Hv.
  destruct (filter_df c d) as [d'|]; [|discriminate Hv]. exists d'.
  cbn in Hv. injection Hv as Hv1 Hv2. rewrite Hc. repeat split; auto.
  - rewrite Hv2 in H. apply filter_In in H. tauto.
  - rewrite Hv2 in H. apply filter_In in H. apply sql_true_iff. tauto.
  - intros [H1 H2]. rewrite Hv2. apply filter_In. split; auto. apply sql_true_iff; auto.
Qed.

Lemma select_row_sql G es :
  Forall (fun e => exists t, wt false G e t = true) es ->
  forall r, row_ok G r = true ->
  select_row (map fst G) es r = Some (map (sql_eval (map fst G) r) es).
Proof.
  intros He r Hr. unfold select_row. apply map_opt_total.
  rewrite Forall_forall in He |- *. intros e Hin. destruct (He e Hin) as [t Hw].
  apply (eval_sql_typed G r e t Hr Hw).
Qed.

Theorem select_sql : forall G es ns d,
  cols d = map fst G -> Forall (fun r => row_ok G r = true) (collect d) ->
  Forall (fun e => exists t, wt false G e t = true) es -> map_opt out_name es = Some ns ->
  exists d', select es d = Some d' /\ cols d' = ns /\
             collect d' = map (fun r => map (sql_eval (cols d) r) es) (collect d).
Proof.
  intros G es ns d Hc Hr He Hn. pose proof (select_view es d) as Hv. rewrite Hn, Hc in Hv.
  rewrite (map_opt_total _ (fun r => map (sql_eval (map fst G) r) es)) in Hv.
  - destruct (select es d) as [d'|]; [|discriminate Hv]. exists d'. cbn in Hv.
    injection Hv as Hv1 Hv2. rewrite Hc. auto.
  - rewrite Forall_forall in Hr |- *. intros r Hin. apply select_row_sql; auto.
Qed.

(* ====================================================================== limit, union *)
Theorem limit_prefix : forall split, split_law split -> forall n d,
  cols (limit split n d) = cols d /\ collect (limit split n d) = firstn n (collect d).
Proof. intros split L n d. pose proof (limit_view split L n d) as H. unfold view in H. inversion H. auto. Qed.

Theorem union_concat : forall split, split_law split -> forall d o,
  length (cols d) = length (cols o) ->
  exists d', union split d o = Some d' /\ cols d' = cols d /\ collect d' = collect d ++ collect o.
Proof.
  intros split L d o Hl. pose proof (union_view split L d o) as Hv. rewrite Hl, Nat.eqb_refl in Hv.
  destruct (union split d o) as [d'|]; [|discriminate Hv]. exists d'. cbn in Hv. injection Hv as H1 H2. auto.
Qed.

Theorem unionByName_concat : forall split, split_law split -> forall d o d',
  unionByName split d o = Some d' ->
  cols d' = cols d /\
  exists rs, map_opt (reorder_row (cols o) (cols d)) (collect o) = Some rs /\ collect d' = collect d ++ rs.
Proof.
  intros split L d o d' H. pose proof (unionByName_view split L d o) as Hv. rewrite H in Hv. cbn in Hv.
  destruct (_ && _ && _); [|discriminate Hv].
  destruct (map_opt _ (collect o)) as [rs|]; [|discriminate Hv]. cbn in Hv. injection Hv as H1 H2.
  split; auto. exists rs. auto.
Qed.

(* ====================================================================== distinct, dropDuplicates *)
Inductive subseq {A} : list A -> list A -> Prop :=
| sub_nil : subseq [] []
| sub_skip x l1 l2 : subseq l1 l2 -> subseq l1 (x :: l2)
| sub_keep x l1 l2 : subseq l1 l2 -> subseq (x :: l1) (x :: l2).

Section Dedupe.
  Context {K V : Type}.
  Variable eqb : K -> K -> bool.
  Variable kf : V -> K.
  Definition dd (seen : list K) (vs : list V) : list V := dedupe eqb seen (map (fun v => (kf v, v)) vs).

  Lemma dd_subseq vs : forall seen, subseq (dd seen vs) vs.
  Proof.
    induction vs as [|v vs IH]; intros seen; cbn; [constructor|].
    destruct (existsb (eqb (kf v)) seen); [apply sub_skip | apply sub_keep]; apply IH.
  Qed.

  Lemma dd_fresh vs : forall seen,
    Forall (fun v => forall s, In s seen -> eqb (kf v) s = false) (dd seen vs).
  Proof.
    induction vs as [|v vs IH]; intros seen; cbn; [constructor|].
    destruct (existsb (eqb (kf v)) seen) eqn:E; [apply IH|].
    constructor.
    - intros s Hs. destruct (eqb (kf v) s) eqn:E2; [|reflexivity].
      assert (existsb (eqb (kf v)) seen = true) as X by (apply existsb_exists; eauto). congruence.
    - eapply Forall_impl; [|apply (IH (kf v :: seen))]. cbn. intros a Ha s Hs. apply Ha. right; exact Hs.
  Qed.

  Lemma dd_pairwise vs : forall seen,
    ForallOrdPairs (fun v1 v2 => eqb (kf v2) (kf v1) = false) (dd seen vs).
  Proof.
    induction vs as [|v vs IH]; intros seen; cbn; [constructor|].
    destruct (existsb (eqb (kf v)) seen); [apply IH|].
    constructor; [|apply IH].
    eapply Forall_impl; [|apply (dd_fresh vs (kf v :: seen))]. cbn. intros a Ha. apply Ha. left; reflexivity.
  Qed.

  Lemma dd_complete vs : forall seen v,
    In v vs -> eqb (kf v) (kf v) = true ->
    (exists s, In s seen /\ eqb (kf v) s = true) \/ (exists o, In o (dd seen vs) /\ eqb (kf v) (kf o) = true).
  Proof.
    induction vs as [|w vs IH]; intros seen v Hin Hrefl; [destruct Hin|]. cbn.
    destruct Hin as [->|Hin].
    - destruct (existsb (eqb (kf v)) seen) eqn:E.
      + left. apply existsb_exists in E. exact E.
      + right. exists v. split; [left; reflexivity | exact Hrefl].
    - destruct (existsb (eqb (kf w)) seen) eqn:E.
      + apply IH; auto.
      + destruct (IH (kf w :: seen) v Hin Hrefl) as [[s [Hs Es]]|[o [Ho Eo]]].
        * destruct Hs as [<-|Hs]; [right; exists w; split; [left; reflexivity | exact Es] | left; eauto].
        * right. exists o. split; [right; exact Ho | exact Eo].
  Qed.
End Dedupe.

Lemma name_eqb_refl n : name_eqb n n = true.
Proof. induction n as [|x n IH]; [reflexivity|]. cbn. rewrite N.eqb_refl, IH. reflexivity. Qed.

Definition no_nan (v : sval) : bool := match v with SDbl f => PrimFloat.eqb f f | _ => true end.

Lemma py_eqb_refl v : no_nan v = true -> py_eqb v v = true.
Proof.
  destruct v as [|z|f|s|b]; cbn; intros H; auto using Z.eqb_refl, name_eqb_refl.
Qed.

Lemma row_eqb_refl r : forallb no_nan r = true -> row_eqb r r = true.
Proof.
  induction r as [|v r IH]; [reflexivity|]. cbn. intros H. apply andb_true_iff in H as [H1 H2].
  rewrite py_eqb_refl, IH; auto.
Qed.

Theorem distinct_spec : forall split, split_law split -> forall d,
  let out := collect (distinct split d) in
  cols (distinct split d) = cols d /\
  subseq out (collect d) /\
  ForallOrdPairs (fun r1 r2 => row_eqb r2 r1 = false) out /\
  (forall r, In r (collect d) -> forallb no_nan r = true -> exists o, In o out /\ row_eqb r o = true).
Proof.
  intros split L d out. pose proof (distinct_view split L d) as Hv. unfold view in Hv.
  injection Hv as Ho. subst out. rewrite Ho. split; [reflexivity|].
  unfold dedup_rows. change (dedupe row_eqb [] (map (fun r => (r, r)) (collect d)))
    with (dd row_eqb (fun r : row => r) [] (collect d)).
  split; [apply dd_subseq|]. split; [apply dd_pairwise|].
  intros r Hin Hn. destruct (dd_complete row_eqb (fun r : row => r) (collect d) [] r Hin (row_eqb_refl r Hn))
    as [[s [[] _]]|H]; exact H.
Qed.

Definition key_of (cs : list name) (ns : list name) (r : row) : row :=
  match map_opt (lookup cs r) ns with Some k => k | None => [] end.

Lemma keyed_map cs ns rows kvs :
  keyed cs ns rows = Some kvs -> kvs = map (fun r => (key_of cs ns r, r)) rows.
Proof.
  unfold keyed. revert kvs. induction rows as [|r rows IH]; intros kvs H; cbn [map_opt] in H.
  - inversion H; reflexivity.
  - unfold key_of at 1. cbn [map]. destruct (map_opt (lookup cs r) ns) as [k|]; [|discriminate H].
    destruct (map_opt _ rows) as [rest|]; [|discriminate H]. inversion H; subst. f_equal. apply IH. reflexivity.
Qed.

Theorem dropDuplicates_spec : forall split, split_law split -> forall ns d d',
  dropDuplicates split ns d = Some d' ->
  let kf := match ns with [] => (fun r => r) | _ => key_of (cols d) ns end in
  cols d' = cols d /\
  subseq (collect d') (collect d) /\
  ForallOrdPairs (fun r1 r2 => row_eqb (kf r2) (kf r1) = false) (collect d') /\
  (forall r, In r (collect d) -> forallb no_nan (kf r) = true ->
             exists o, In o (collect d') /\ row_eqb (kf r) (kf o) = true).
Proof.
  intros split L ns d d' H kf. pose proof (dropDuplicates_view split L ns d) as Hv. rewrite H in Hv. cbn in Hv.
  destruct ns as [|n ns].
  - injection Hv as Hc Ho. rewrite Ho. split; [exact Hc|]. subst kf.
    unfold dedup_rows. change (dedupe row_eqb [] (map (fun r => (r, r)) (collect d)))
      with (dd row_eqb (fun r : row => r) [] (collect d)).
    split; [apply dd_subseq|]. split; [apply dd_pairwise|].
    intros r Hin Hn. destruct (dd_complete row_eqb (fun r : row => r) (collect d) [] r Hin (row_eqb_refl r Hn))
      as [[s [[] _]]|X]; exact X.
  - destruct (keyed (cols d) (n :: ns) (collect d)) as [kvs|] eqn:E; [|discriminate Hv].
    cbn in Hv. injection Hv as Hc Ho. rewrite Ho. split; [exact Hc|].
    rewrite (keyed_map _ _ _ _ E).
    change (dedupe row_eqb [] (map (fun r => (key_of (cols d) (n :: ns) r, r)) (collect d)))
      with (dd row_eqb kf [] (collect d)).
    split; [apply dd_subseq|]. split; [apply dd_pairwise|].
    intros r Hin Hn. destruct (dd_complete row_eqb kf (collect d) [] r Hin (row_eqb_refl _ Hn))
      as [[s [[] _]]|X]; exact X.
Qed.

(* ====================================================================== sort *)
Definition keyv (cs : list name) (e : expr) (r : row) : sval :=
  match eval cs r e with Some v => v | None => SNull end.

Definition key_lt_dir (asc : bool) (k1 k2 : bool * sval) : bool :=
  if asc then key_lt k1 k2 else key_lt k2 k1.

(* the order one sort key induces on rows *)
Definition row_key (cs : list name) (k : expr * sdir) (r : row) : bool * sval :=
  sort_key (dir_nulls_smaller (snd k)) (keyv cs (fst k) r).
Definition row_lt (cs : list name) (k : expr * sdir) (a b : row) : bool :=
  key_lt_dir (dir_ascending (snd k)) (row_key cs k a) (row_key cs k b).

Lemma insert_decorate {A K} (f : A -> K) (ltk : K -> K -> bool) x l :
  insert (fun p q => ltk (fst p) (fst q)) (f x, x) (map (fun r => (f r, r)) l) =
  map (fun r => (f r, r)) (insert (fun a b => ltk (f a) (f b)) x l).
Proof.
  induction l as [|y l IH]; [reflexivity|]. cbn [map insert fst].
  destruct (ltk (f y) (f x)); cbn [map]; [rewrite IH|]; reflexivity.
Qed.

Lemma isort_decorate {A K} (f : A -> K) (ltk : K -> K -> bool) l :
  isort (fun p q => ltk (fst p) (fst q)) (map (fun r => (f r, r)) l) =
  map (fun r => (f r, r)) (isort (fun a b => ltk (f a) (f b)) l).
Proof.
  induction l as [|x l IH]; [reflexivity|]. cbn [map isort]. rewrite IH. apply insert_decorate.
Qed.

Lemma combine_map_self {A K} (f : A -> K) l : combine (map f l) l = map (fun x => (f x, x)) l.
Proof. induction l as [|x l IH]; [reflexivity|]. cbn. rewrite IH. reflexivity. Qed.

Lemma sort_pass_isort cs k rows out :
  sort_pass cs k rows = Some out -> out = isort (row_lt cs k) rows.
Proof.
  destruct k as [e d]. unfold sort_pass. intros H.
  destruct (map_opt (fun r => eval cs r e) rows) as [vs|] eqn:E; [|discriminate H].
  apply (map_opt_some_map _ SNull) in E. destruct (keys_comparable vs); [|discriminate H].
  injection H as H. subst out vs.
  change (map (fun x => match eval cs x e with Some y => y | None => SNull end) rows)
    with (map (keyv cs e) rows).
  rewrite map_map, combine_map_self.
  change (fun p q : bool * sval * row =>
            if dir_ascending d then key_lt (fst p) (fst q) else key_lt (fst q) (fst p))
    with (fun p q : bool * sval * row => key_lt_dir (dir_ascending d) (fst p) (fst q)).
  rewrite (isort_decorate (fun r => sort_key (dir_nulls_smaller d) (keyv cs e r)) (key_lt_dir (dir_ascending d))).
  rewrite map_map. cbn [snd]. rewrite map_id. reflexivity.
Qed.

Lemma sort_flat_multi cs ks : forall rows out,
  sort_flat cs ks rows = Some out -> out = multi_pass (map (row_lt cs) ks) rows.
Proof.
  induction ks as [|k ks IH]; intros rows out H; cbn [sort_flat] in H; cbn [map multi_pass].
  - inversion H; reflexivity.
  - destruct (sort_flat cs ks rows) as [mid|] eqn:E; [|discriminate H].
    rewrite <- (IH rows mid E). apply sort_pass_isort. exact H.
Qed.

(* the multi-pass sort of the implementation = ONE stable sort by the lexicographic order of the keys:
   a permutation, sorted, and rows with equal keys keep their input order *)
Theorem sort_spec : forall split, split_law split -> forall (ok : row -> Prop) ks d d',
  Forall (fun k => swo ok (row_lt (cols d) k)) ks -> Forall ok (collect d) ->
  sort_df split ks d = Some d' ->
  let lt := lexn (map (row_lt (cols d)) ks) in
  cols d' = cols d /\
  collect d' = isort lt (collect d) /\
  Permutation (collect d') (collect d) /\
  StronglySorted (le_of lt) (collect d') /\
  (forall z, ok z -> filter (eqv_of lt z) (collect d') = filter (eqv_of lt z) (collect d)).
Proof.
  intros split L ok ks d d' Hswo Hok H lt.
  pose proof (sort_view split L ks d) as Hv. rewrite H in Hv. cbn in Hv.
  destruct (sort_flat (cols d) ks (collect d)) as [out|] eqn:E; [|discriminate Hv].
  cbn in Hv. injection Hv as Hc Ho.
  apply sort_flat_multi in E.
  assert (Hs : Forall (swo ok) (map (row_lt (cols d)) ks)).
  { rewrite Forall_forall in Hswo |- *. intros f Hf. apply in_map_iff in Hf as [k [<- Hk]]. auto. }
  rewrite (multi_pass_lex ok _ Hs _ Hok) in E. fold lt in E.
  pose proof (lexn_swo ok _ Hs) as SL. fold lt in SL.
  destruct (isort_spec ok lt SL (collect d) Hok) as [P [S St]].
  rewrite Ho, E. auto.
Qed.

(* ---------- the direction / null placement table, computed from the regenerated strings *)
Definition sql_ascending (d : sdir) : bool :=
  match d with DPlain | DAsc | DAscNF | DAscNL => true | _ => false end.
Definition sql_nulls_first (d : sdir) : bool :=
  match d with DPlain | DAsc | DAscNF | DDescNF => true | _ => false end.

Lemma dir_table d :
  dir_ascending d = sql_ascending d /\
  dir_nulls_smaller d = Bool.eqb (sql_ascending d) (sql_nulls_first d).
Proof. destruct d; split; reflexivity. Qed.

(* a NULL key is placed before / after every non-NULL key as the SortOrder says *)
Lemma null_placement cs e d a b :
  keyv cs e a = SNull -> keyv cs e b <> SNull ->
  row_lt cs (e, d) a b = sql_nulls_first d /\ row_lt cs (e, d) b a = negb (sql_nulls_first d).
Proof.
  intros Ha Hb. unfold row_lt, row_key, key_lt_dir, sort_key. cbn [fst snd]. rewrite Ha.
  destruct (dir_table d) as [-> ->].
  destruct (keyv cs e b) eqn:Eb; [congruence| | | |]; destruct d; split; reflexivity.
Qed.

(* two non-NULL keys are ordered by < (ascending) or > (descending) *)
Lemma value_order cs e d a b :
  keyv cs e a <> SNull -> keyv cs e b <> SNull ->
  row_lt cs (e, d) a b =
  if sql_ascending d then val_lt (keyv cs e a) (keyv cs e b) else val_lt (keyv cs e b) (keyv cs e a).
Proof.
  intros Ha Hb. unfold row_lt, row_key, key_lt_dir, sort_key. cbn [fst snd].
  destruct (dir_table d) as [-> ->].
  destruct (keyv cs e a) eqn:Ea; [congruence| | | |]; (destruct (keyv cs e b) eqn:Eb; [congruence| | | |]);
    destruct d; reflexivity.
Qed.

(* ====================================================================== the key orders are strict weak orders *)
Section SwoTools.
  Context {A : Type}.
  Lemma swo_ext (ok : A -> Prop) lt lt' :
    (forall x y, ok x -> ok y -> lt x y = lt' x y) -> swo ok lt' -> swo ok lt.
  Proof.
    intros E S. split.
    - intros x Hx. rewrite E; auto. apply (swo_irrefl ok lt' S); auto.
    - intros x y z Hx Hy Hz. rewrite !E; auto. apply (swo_trans ok lt' S); auto.
    - intros x y z Hx Hy Hz. rewrite !E; auto. apply (swo_ntrans ok lt' S); auto.
  Qed.

  Lemma swo_flip (ok : A -> Prop) lt : swo ok lt -> swo ok (fun x y => lt y x).
  Proof.
    intros S. split.
    - intros x Hx. apply (swo_irrefl ok lt S); auto.
    - intros x y z Hx Hy Hz H1 H2. apply (swo_trans ok lt S z y x); auto.
    - intros x y z Hx Hy Hz H1 H2. apply (swo_ntrans ok lt S z y x); auto.
  Qed.

  Lemma swo_weaken (ok ok' : A -> Prop) lt : (forall x, ok' x -> ok x) -> swo ok lt -> swo ok' lt.
  Proof.
    intros W S. split.
    - intros x Hx. apply (swo_irrefl ok lt S); auto.
    - intros x y z Hx Hy Hz. apply (swo_trans ok lt S); auto.
    - intros x y z Hx Hy Hz. apply (swo_ntrans ok lt S); auto.
  Qed.

  Lemma swo_preimage {B} (g : A -> B) (okB : B -> Prop) ltB :
    swo okB ltB -> swo (fun x => okB (g x)) (fun x y => ltB (g x) (g y)).
  Proof.
    intros S. split.
    - intros x Hx. apply (swo_irrefl okB ltB S); auto.
    - intros x y z Hx Hy Hz. apply (swo_trans okB ltB S); auto.
    - intros x y z Hx Hy Hz. apply (swo_ntrans okB ltB S); auto.
  Qed.
End SwoTools.

Lemma zlt_swo : swo (fun _ : Z => True) Z.ltb.
Proof.
  split.
  - intros x _. apply Z.ltb_irrefl.
  - intros x y z _ _ _ H1 H2. apply Z.ltb_lt in H1, H2. apply Z.ltb_lt. lia.
  - intros x y z _ _ _ H1 H2. apply Z.ltb_ge in H1, H2. apply Z.ltb_ge. lia.
Qed.

Definition str_lt (a b : list N) : bool := match str_cmp a b with Lt => true | _ => false end.

Lemma str_cmp_antisym : forall a b, str_cmp b a = CompOpp (str_cmp a b).
Proof.
  induction a as [|x a IH]; destruct b as [|y b]; cbn; try reflexivity.
  rewrite (N.compare_antisym x y). destruct (x ?= y)%N; cbn; auto.
Qed.

Lemma str_cmp_eq : forall a b, str_cmp a b = Eq -> a = b.
Proof.
  induction a as [|x a IH]; destruct b as [|y b]; cbn; intros H; try discriminate H; [reflexivity|].
  destruct (x ?= y)%N eqn:E; try discriminate H. apply N.compare_eq in E. subst. f_equal. auto.
Qed.

Lemma str_cmp_trans : forall a b c, str_cmp a b = Lt -> str_cmp b c = Lt -> str_cmp a c = Lt.
Proof.
  induction a as [|x a IH]; destruct b as [|y b]; destruct c as [|z c]; cbn; intros H1 H2;
    try discriminate H1; try discriminate H2; try reflexivity.
  destruct (x ?= y)%N eqn:E1; try discriminate H1; destruct (y ?= z)%N eqn:E2; try discriminate H2.
  - apply N.compare_eq in E1, E2. subst. rewrite N.compare_refl. eauto.
  - apply N.compare_eq in E1. subst. rewrite E2. reflexivity.
  - apply N.compare_eq in E2. subst. rewrite E1. reflexivity.
  - rewrite N.compare_lt_iff in E1, E2. assert (x ?= z = Lt)%N as -> by (apply N.compare_lt_iff; lia). reflexivity.
Qed.

Lemma str_cmp_refl a : str_cmp a a = Eq.
Proof. induction a as [|x a IH]; [reflexivity|]. cbn. rewrite N.compare_refl. exact IH. Qed.

Lemma str_lt_swo : swo (fun _ : list N => True) str_lt.
Proof.
  unfold str_lt. split.
  - intros x _. rewrite str_cmp_refl. reflexivity.
  - intros x y z _ _ _ H1 H2.
    destruct (str_cmp x y) eqn:E1; try discriminate H1. destruct (str_cmp y z) eqn:E2; try discriminate H2.
    rewrite (str_cmp_trans x y z E1 E2). reflexivity.
  - intros x y z _ _ _ H1 H2. destruct (str_cmp x z) eqn:E; try reflexivity. exfalso.
    destruct (str_cmp x y) eqn:E1; try discriminate H1.
    + apply str_cmp_eq in E1. subst. rewrite E in H2. discriminate H2.
    + assert (str_cmp y x = Lt) as E3 by (rewrite str_cmp_antisym, E1; reflexivity).
      rewrite (str_cmp_trans y x z E3 E) in H2. discriminate H2.
Qed.

(* keys (flag, value) coded into pairs that are compared lexicographically *)
Definition flag_code (k : bool * sval) : Z := if fst k then 1 else 0.
Definition int_code (k : bool * sval) : Z :=
  match snd k with SInt z => z | SBool b => if b then 1 else 0 | _ => 0 end.
Definition str_code (k : bool * sval) : list N := match snd k with SStr s => s | _ => [] end.

Definition int_like (v : sval) : Prop := match v with SNull | SInt _ | SBool _ => True | _ => False end.
Definition str_like (v : sval) : Prop := match v with SNull | SStr _ => True | _ => False end.

Definition key_lt_int : bool * sval -> bool * sval -> bool :=
  lex (fun p q => Z.ltb (flag_code p) (flag_code q)) (fun p q => Z.ltb (int_code p) (int_code q)).
Definition key_lt_str : bool * sval -> bool * sval -> bool :=
  lex (fun p q => Z.ltb (flag_code p) (flag_code q)) (fun p q => str_lt (str_code p) (str_code q)).

Lemma key_lt_int_swo : swo (fun _ => True) key_lt_int.
Proof. apply lex_swo; apply (swo_preimage _ (fun _ => True)); apply zlt_swo. Qed.
Lemma key_lt_str_swo : swo (fun _ => True) key_lt_str.
Proof.
  apply lex_swo; [apply (swo_preimage _ (fun _ => True)), zlt_swo | apply (swo_preimage _ (fun _ => True)), str_lt_swo].
Qed.

Lemma key_lt_is_int ns v1 v2 :
  int_like v1 -> int_like v2 -> key_lt (sort_key ns v1) (sort_key ns v2) = key_lt_int (sort_key ns v1) (sort_key ns v2).
Proof.
  unfold key_lt_int, lex, sort_key, flag_code, int_code. intros H1 H2.
  destruct v1 as [|x| | |[|]]; try destruct H1; destruct v2 as [|y| | |[|]]; try destruct H2; destruct ns; cbn;
    try reflexivity; try (rewrite Z.ltb_irrefl; reflexivity).
Qed.

Lemma key_lt_is_str ns v1 v2 :
  str_like v1 -> str_like v2 -> key_lt (sort_key ns v1) (sort_key ns v2) = key_lt_str (sort_key ns v1) (sort_key ns v2).
Proof.
  unfold key_lt_str, lex, sort_key, flag_code, str_code, str_lt. intros H1 H2.
  destruct v1 as [| | |s|]; try destruct H1; destruct v2 as [| | |t|]; try destruct H2; destruct ns; cbn;
    try reflexivity.
Qed.

Lemma row_lt_swo_int cs e d : swo (fun r => int_like (keyv cs e r)) (row_lt cs (e, d)).
Proof.
  unfold row_lt, row_key, key_lt_dir. cbn [fst snd]. destruct (dir_ascending d).
  - eapply swo_ext; [intros x y Hx Hy; apply key_lt_is_int; assumption|].
    eapply swo_weaken; [|apply (swo_preimage (fun r => sort_key (dir_nulls_smaller d) (keyv cs e r)) (fun _ => True)),
                          key_lt_int_swo]. intros ? ?; exact I.
  - eapply swo_ext; [intros x y Hx Hy; apply key_lt_is_int; assumption|].
    apply swo_flip.
    eapply swo_weaken; [|apply (swo_preimage (fun r => sort_key (dir_nulls_smaller d) (keyv cs e r)) (fun _ => True)),
                          key_lt_int_swo]. intros ? ?; exact I.
Qed.

Lemma row_lt_swo_str cs e d : swo (fun r => str_like (keyv cs e r)) (row_lt cs (e, d)).
Proof.
  unfold row_lt, row_key, key_lt_dir. cbn [fst snd]. destruct (dir_ascending d).
  - eapply swo_ext; [intros x y Hx Hy; apply key_lt_is_str; assumption|].
    eapply swo_weaken; [|apply (swo_preimage (fun r => sort_key (dir_nulls_smaller d) (keyv cs e r)) (fun _ => True)),
                          key_lt_str_swo]. intros ? ?; exact I.
  - eapply swo_ext; [intros x y Hx Hy; apply key_lt_is_str; assumption|].
    apply swo_flip.
    eapply swo_weaken; [|apply (swo_preimage (fun r => sort_key (dir_nulls_smaller d) (keyv cs e r)) (fun _ => True)),
                          key_lt_str_swo]. intros ? ?; exact I.
Qed.

(* keys that are well-typed expressions of type int, boolean or string over typed rows *)
Definition discrete (t : ty) : bool := match t with TDbl => false | _ => true end.

Lemma typed_key_swo G e d t :
  wt false G e t = true -> discrete t = true ->
  swo (fun r => row_ok G r = true) (row_lt (map fst G) (e, d)).
Proof.
  intros Hw Hd. destruct t; try discriminate Hd.
  - eapply swo_weaken; [|apply row_lt_swo_int]. intros r Hr. cbn beta. unfold keyv.
    destruct (eval_sql_typed G r e TInt Hr Hw) as [E T]. rewrite E.
    destruct (sql_eval (map fst G) r e); try discriminate T; exact I.
  - eapply swo_weaken; [|apply row_lt_swo_str]. intros r Hr. cbn beta. unfold keyv.
    destruct (eval_sql_typed G r e TStr Hr Hw) as [E T]. rewrite E.
    destruct (sql_eval (map fst G) r e); try discriminate T; exact I.
  - eapply swo_weaken; [|apply row_lt_swo_int]. intros r Hr. cbn beta. unfold keyv.
    destruct (eval_sql_typed G r e TBool Hr Hw) as [E T]. rewrite E.
    destruct (sql_eval (map fst G) r e); try discriminate T; exact I.
Qed.

(* sort_spec for typed keys: no hypothesis about the orders is left *)
Theorem sort_spec_typed : forall split, split_law split -> forall G ks d d',
  cols d = map fst G -> Forall (fun r => row_ok G r = true) (collect d) ->
  Forall (fun k => exists t, wt false G (fst k) t = true /\ discrete t = true) ks ->
  sort_df split ks d = Some d' ->
  let lt := lexn (map (row_lt (cols d)) ks) in
  cols d' = cols d /\
  collect d' = isort lt (collect d) /\
  Permutation (collect d') (collect d) /\
  StronglySorted (le_of lt) (collect d') /\
  (forall z, row_ok G z = true -> filter (eqv_of lt z) (collect d') = filter (eqv_of lt z) (collect d)).
Proof.
  intros split L G ks d d' Hc Hr Hk H.
  apply (sort_spec split L (fun r => row_ok G r = true) ks d d'); auto.
  rewrite Forall_forall in Hk |- *. intros [e dir] Hin. destruct (Hk _ Hin) as [t [Hw Hd]].
  rewrite Hc. eapply typed_key_swo; eauto.
Qed.

(* ====================================================================== withColumn *)
Lemma name_eqb_eq a : forall b, name_eqb a b = true -> a = b.
Proof.
  induction a as [|x a IH]; destruct b as [|y b]; cbn; intros H; try discriminate H; [reflexivity|].
  apply andb_true_iff in H as [H1 H2]. apply N.eqb_eq in H1. subst. f_equal. auto.
Qed.

Theorem withColumn_cols : forall n e d d',
  withColumn n e d = Some d' ->
  cols d' = if mem_name n (cols d) then cols d else cols d ++ [n].
Proof.
  intros n e d d' H. unfold withColumn in H. destruct (mem_name n (cols d)).
  - pose proof (select_view (map (fun m => if name_eqb m n then EAlias e n else ECol m) (cols d)) d) as Hv.
    rewrite H in Hv. cbn [option_map] in Hv.
    assert (E : map_opt out_name (map (fun m => if name_eqb m n then EAlias e n else ECol m) (cols d)) = Some (cols d)).
    { clear. induction (cols d) as [|m cs IH]; [reflexivity|]. cbn [map map_opt].
      destruct (name_eqb m n) eqn:En; cbn [out_name]; rewrite IH; [apply name_eqb_eq in En; subst|]; reflexivity. }
    rewrite E in Hv. destruct (map_opt _ (collect d)); [|discriminate Hv]. cbn in Hv. unfold view in Hv. congruence.
  - pose proof (select_view (map ECol (cols d) ++ [EAlias e n]) d) as Hv.
    rewrite H in Hv. cbn [option_map] in Hv.
    assert (E : map_opt out_name (map ECol (cols d) ++ [EAlias e n]) = Some (cols d ++ [n])).
    { clear. induction (cols d) as [|m cs IH]; [reflexivity|]. cbn [map map_opt app out_name]. cbn [map app] in IH. rewrite IH. reflexivity. }
    rewrite E in Hv. destruct (map_opt _ (collect d)); [|discriminate Hv]. cbn in Hv. unfold view in Hv. congruence.
Qed.

(* ====================================================================== double keys *)
(* The IEEE comparison on non-NaN floats is a strict weak order -- relative to the standard specification
   of PrimFloat.ltb (the statement of FloatAxioms.ltb_spec), taken as an explicit premise so that no axiom
   is used. *)
Definition ltb_spec_premise : Prop :=
  forall x y : float, PrimFloat.ltb x y = SFltb (Prim2SF x) (Prim2SF y).

Definition sf_code (f : spec_float) : Z * (Z * Z) :=
  match f with
  | S754_zero _ => (0, (0, 0))
  | S754_infinity s => (if s then -2 else 2, (0, 0))
  | S754_nan => (3, (0, 0))
  | S754_finite s m e => if s then (-1, (- e, - Z.pos m)) else (1, (e, Z.pos m))
  end.

Definition lt3 : Z * (Z * Z) -> Z * (Z * Z) -> bool :=
  lex (fun p q => Z.ltb (fst p) (fst q))
      (lex (fun p q => Z.ltb (fst (snd p)) (fst (snd q))) (fun p q => Z.ltb (snd (snd p)) (snd (snd q)))).

Definition sf_not_nan (f : spec_float) : Prop := f <> S754_nan.

Lemma cmp_cont_eq m1 m2 : Pos.compare_cont Eq m1 m2 = (Z.pos m1 ?= Z.pos m2).
Proof. reflexivity. Qed.

Lemma sfltb_code x y : sf_not_nan x -> sf_not_nan y -> SFltb x y = lt3 (sf_code x) (sf_code y).
Proof.
  unfold sf_not_nan, SFltb, lt3, lex. intros Hx Hy.
  destruct x as [s1|s1| |s1 m1 e1]; try congruence; destruct y as [s2|s2| |s2 m2 e2]; try congruence;
    cbn [SFcompare sf_code fst snd];
    try (destruct s1; try destruct s2; reflexivity); try (destruct s2; reflexivity).
  rewrite cmp_cont_eq.
  destruct s1, s2; cbn [fst snd]; try reflexivity.
  - destruct (Z.compare_spec e1 e2) as [E|E|E]; destruct (Z.compare_spec (Z.pos m1) (Z.pos m2)) as [M|M|M]; cbn;
      repeat match goal with |- context [?a <? ?b] => destruct (Z.ltb_spec a b) end; cbn; try reflexivity; lia.
  - destruct (Z.compare_spec e1 e2) as [E|E|E]; destruct (Z.compare_spec (Z.pos m1) (Z.pos m2)) as [M|M|M]; cbn;
      repeat match goal with |- context [?a <? ?b] => destruct (Z.ltb_spec a b) end; cbn; try reflexivity; lia.
Qed.

Lemma lt3_swo : swo (fun _ => True) lt3.
Proof.
  apply lex_swo; [apply (swo_preimage _ (fun _ => True)), zlt_swo|].
  apply lex_swo; apply (swo_preimage _ (fun _ => True)), zlt_swo.
Qed.

Definition val_not_nan (v : sval) : Prop :=
  match v with SDbl f => Prim2SF f <> S754_nan | _ => True end.
Definition dbl_like (v : sval) : Prop :=
  match v with SNull => True | SDbl f => Prim2SF f <> S754_nan | _ => False end.

Definition dbl_code (k : bool * sval) : Z * (Z * Z) :=
  match snd k with SDbl f => sf_code (Prim2SF f) | _ => (0, (0, 0)) end.
Definition key_lt_dbl : bool * sval -> bool * sval -> bool :=
  lex (fun p q => Z.ltb (flag_code p) (flag_code q)) (fun p q => lt3 (dbl_code p) (dbl_code q)).

Lemma key_lt_dbl_swo : swo (fun _ => True) key_lt_dbl.
Proof.
  apply lex_swo; [apply (swo_preimage _ (fun _ => True)), zlt_swo | apply (swo_preimage _ (fun _ => True)), lt3_swo].
Qed.

Lemma key_lt_is_dbl (P : ltb_spec_premise) ns v1 v2 :
  dbl_like v1 -> dbl_like v2 -> key_lt (sort_key ns v1) (sort_key ns v2) = key_lt_dbl (sort_key ns v1) (sort_key ns v2).
Proof.
  unfold key_lt_dbl, lex, sort_key, flag_code, dbl_code. intros H1 H2.
  destruct v1 as [| |a| |]; try (exact (False_ind _ H1)); destruct v2 as [| |b| |]; try (exact (False_ind _ H2));
    destruct ns; cbn; try reflexivity; rewrite P; apply sfltb_code; assumption.
Qed.

Lemma row_lt_swo_dbl (P : ltb_spec_premise) cs e d : swo (fun r => dbl_like (keyv cs e r)) (row_lt cs (e, d)).
Proof.
  unfold row_lt, row_key, key_lt_dir. cbn [fst snd]. destruct (dir_ascending d).
  - eapply swo_ext; [intros x y Hx Hy; apply (key_lt_is_dbl P); assumption|].
    eapply swo_weaken; [|apply (swo_preimage (fun r => sort_key (dir_nulls_smaller d) (keyv cs e r)) (fun _ => True)),
                          key_lt_dbl_swo]. intros ? ?; exact I.
  - eapply swo_ext; [intros x y Hx Hy; apply (key_lt_is_dbl P); assumption|].
    apply swo_flip.
    eapply swo_weaken; [|apply (swo_preimage (fun r => sort_key (dir_nulls_smaller d) (keyv cs e r)) (fun _ => True)),
                          key_lt_dbl_swo]. intros ? ?; exact I.
Qed.

(* a well-typed key of ANY type over typed rows whose key value is not NaN *)
Lemma typed_key_swo_all (P : ltb_spec_premise) G e d t :
  wt false G e t = true ->
  swo (fun r => row_ok G r = true /\ val_not_nan (keyv (map fst G) e r)) (row_lt (map fst G) (e, d)).
Proof.
  intros Hw. destruct (discrete t) eqn:Hd.
  - eapply swo_weaken; [|eapply typed_key_swo; eauto]. intros r [Hr _]. exact Hr.
  - destruct t; try discriminate Hd.
    eapply swo_weaken; [|apply (row_lt_swo_dbl P)]. intros r [Hr Hn]. cbn beta. unfold keyv in *.
    destruct (eval_sql_typed G r e TDbl Hr Hw) as [E T]. rewrite E in *.
    destruct (sql_eval (map fst G) r e); try discriminate T; [exact I | exact Hn].
Qed.

Definition keys_not_nan (cs : list name) (ks : list (expr * sdir)) (r : row) : Prop :=
  Forall (fun k => val_not_nan (keyv cs (fst k) r)) ks.

Theorem sort_spec_typed_all : ltb_spec_premise -> forall split, split_law split -> forall G ks d d',
  cols d = map fst G ->
  Forall (fun r => row_ok G r = true /\ keys_not_nan (cols d) ks r) (collect d) ->
  Forall (fun k => exists t, wt false G (fst k) t = true) ks ->
  sort_df split ks d = Some d' ->
  let lt := lexn (map (row_lt (cols d)) ks) in
  cols d' = cols d /\
  collect d' = isort lt (collect d) /\
  Permutation (collect d') (collect d) /\
  StronglySorted (le_of lt) (collect d') /\
  (forall z, row_ok G z = true -> keys_not_nan (cols d) ks z ->
             filter (eqv_of lt z) (collect d') = filter (eqv_of lt z) (collect d)).
Proof.
  intros P split L G ks d d' Hc Hr Hk H lt.
  destruct (sort_spec split L (fun r => row_ok G r = true /\ keys_not_nan (cols d) ks r) ks d d') as [A [B [C [D E]]]]; auto.
  - rewrite Forall_forall in Hk |- *. intros [e dir] Hin. destruct (Hk _ Hin) as [t Hw]. cbn [fst] in Hw.
    eapply swo_weaken; [|rewrite Hc; apply (typed_key_swo_all P G e dir t Hw)].
    intros r [Hr1 Hr2]. split; [exact Hr1|]. unfold keys_not_nan in Hr2. rewrite Forall_forall in Hr2.
    rewrite <- Hc. apply (Hr2 (e, dir) Hin).
  - repeat split; auto.
Qed.

(* ====================================================================== orderBy on typed keys never raises *)
Lemma sort_pass_perm cs k rows out : sort_pass cs k rows = Some out -> Permutation out rows.
Proof. intros H. apply sort_pass_isort in H. subst. apply isort_perm. Qed.

Lemma keys_comparable_typed vs t :
  Forall (fun v => v_has_ty v t = true) vs -> keys_comparable vs = true.
Proof.
  intros H. unfold keys_comparable. apply orb_true_iff. destruct t.
  - left. apply forallb_forall. rewrite Forall_forall in H. intros v Hv. specialize (H v Hv).
    destruct v; try reflexivity; discriminate H.
  - left. apply forallb_forall. rewrite Forall_forall in H. intros v Hv. specialize (H v Hv).
    destruct v; try reflexivity; discriminate H.
  - right. apply forallb_forall. rewrite Forall_forall in H. intros v Hv. specialize (H v Hv).
    destruct v; try reflexivity; discriminate H.
  - left. apply forallb_forall. rewrite Forall_forall in H. intros v Hv. specialize (H v Hv).
    destruct v; try reflexivity; discriminate H.
Qed.

Lemma sort_pass_total G e d t rows :
  wt false G e t = true -> Forall (fun r => row_ok G r = true) rows ->
  exists out, sort_pass (map fst G) (e, d) rows = Some out.
Proof.
  intros Hw Hr. unfold sort_pass.
  rewrite (map_opt_total _ (fun r => sql_eval (map fst G) r e)).
  - rewrite (keys_comparable_typed _ t); [eexists; reflexivity|].
    rewrite Forall_forall in Hr |- *. intros v Hv. apply in_map_iff in Hv as [r [<- Hin]].
    apply (eval_sql_typed G r e t (Hr r Hin) Hw).
  - rewrite Forall_forall in Hr |- *. intros r Hin. apply (eval_sql_typed G r e t (Hr r Hin) Hw).
Qed.

Lemma sort_flat_total G ks rows :
  Forall (fun k => exists t, wt false G (fst k) t = true) ks -> Forall (fun r => row_ok G r = true) rows ->
  exists out, sort_flat (map fst G) ks rows = Some out /\ Permutation out rows.
Proof.
  intros Hk Hr. induction Hk as [|[e d] ks [t Hw] Hks IH]; cbn [sort_flat].
  - exists rows. split; [reflexivity | apply Permutation_refl].
  - destruct IH as [mid [Em Pm]]. rewrite Em. cbn [fst] in Hw.
    assert (Hmid : Forall (fun r => row_ok G r = true) mid)
      by (eapply Permutation_Forall; [apply Permutation_sym, Pm | exact Hr]).
    destruct (sort_pass_total G e d t mid Hw Hmid) as [out Eo]. exists out. split; [exact Eo|].
    eapply perm_trans; [eapply sort_pass_perm; exact Eo | exact Pm].
Qed.

Theorem sort_typed_total : forall split, split_law split -> forall G ks d,
  cols d = map fst G -> Forall (fun r => row_ok G r = true) (collect d) ->
  Forall (fun k => exists t, wt false G (fst k) t = true) ks ->
  exists d', sort_df split ks d = Some d'.
Proof.
  intros split L G ks d Hc Hr Hk. pose proof (sort_view split L ks d) as Hv.
  destruct (sort_flat_total G ks (collect d) Hk Hr) as [out [Eo _]]. rewrite Hc, Eo in Hv.
  destruct (sort_df split ks d) as [d'|]; [eexists; reflexivity | discriminate Hv].
Qed.

(* ====================================================================== typed frames stay typed *)
Lemma map_opt_length {A B} (f : A -> option B) l out : map_opt f l = Some out -> length out = length l.
Proof.
  revert out. induction l as [|x l IH]; intros out H; cbn [map_opt] in H.
  - inversion H; reflexivity.
  - destruct (f x); [|discriminate H]. destruct (map_opt f l) eqn:E; [|discriminate H].
    inversion H; subst. cbn. f_equal. apply IH. reflexivity.
Qed.

Lemma row_ok_combine G r es ts : forall ns,
  row_ok G r = true -> Forall2 (fun e t => wt false G e t = true) es ts -> length ns = length es ->
  row_ok (combine ns ts) (map (sql_eval (map fst G) r) es) = true.
Proof.
  intros ns Hr H. revert ns. induction H as [|e t es ts Hw Hrest IH]; intros ns Hl.
  - destruct ns; [reflexivity | discriminate Hl].
  - destruct ns as [|n ns]; [discriminate Hl|]. cbn [combine map row_ok].
    destruct (eval_sql_typed G r e t Hr Hw) as [_ T]. rewrite T. cbn [andb]. apply IH. cbn in Hl. lia.
Qed.

(* select: the new frame is typed by the items' types under their output names *)
Theorem select_typed : forall G es ts ns d d',
  cols d = map fst G -> Forall (fun r => row_ok G r = true) (collect d) ->
  Forall2 (fun e t => wt false G e t = true) es ts -> map_opt out_name es = Some ns ->
  select es d = Some d' ->
  cols d' = map fst (combine ns ts) /\ Forall (fun r => row_ok (combine ns ts) r = true) (collect d').
Proof.
  intros G es ts ns d d' Hc Hr H2 Hn Hs.
  assert (He : Forall (fun e => exists t, wt false G e t = true) es).
  { clear - H2. induction H2; constructor; eauto. }
  destruct (select_sql G es ns d Hc Hr He Hn) as [d2 [E [C R]]]. rewrite Hs in E. inversion E; subst d2.
  pose proof (map_opt_length _ _ _ Hn) as Hl.
  assert (Hlt : length es = length ts) by (clear - H2; induction H2; cbn; congruence).
  split.
  - rewrite C. clear - Hl Hlt. revert es ts Hl Hlt. induction ns as [|n ns IH]; intros es ts Hl Hlt.
    + reflexivity.
    + destruct es as [|e es]; [discriminate Hl|]. destruct ts as [|t ts]; [discriminate Hlt|].
      cbn. f_equal. apply (IH es ts); cbn in *; lia.
  - rewrite R, Hc. rewrite Forall_forall in Hr |- *. intros r Hin. apply in_map_iff in Hin as [r0 [<- Hin0]].
    apply row_ok_combine; auto.
Qed.

Lemma subseq_Forall {A} (P : A -> Prop) (l1 l2 : list A) : subseq l1 l2 -> Forall P l2 -> Forall P l1.
Proof.
  induction 1 as [|x l1 l2 Hs IH|x l1 l2 Hs IH]; intros H; [constructor| |]; inversion H; subst; auto.
Qed.

(* filter, orderBy, limit, distinct, dropDuplicates only keep / reorder rows: typed in, typed out *)
Theorem rows_preserved : forall split, split_law split -> forall (P : row -> Prop) d,
  Forall P (collect d) ->
  (forall c d', filter_df c d = Some d' -> Forall P (collect d')) /\
  (forall ks d', sort_df split ks d = Some d' -> Forall P (collect d')) /\
  (forall n, Forall P (collect (limit split n d))) /\
  Forall P (collect (distinct split d)) /\
  (forall ns d', dropDuplicates split ns d = Some d' -> Forall P (collect d')).
Proof.
  intros split L P d HP. repeat split.
  - intros c d' H. pose proof (filter_view c d) as Hv. rewrite H in Hv. cbn in Hv.
    destruct (filter_rows (cols d) c (collect d)) as [out|] eqn:E; [|discriminate Hv].
    cbn in Hv. injection Hv as _ Hv. rewrite Hv. clear - E HP.
    revert out E. induction (collect d) as [|r rows IH]; intros out E; cbn [filter_rows] in E.
    + inversion E; constructor.
    + destruct (eval (cols d) r c); [|discriminate E]. destruct (filter_rows (cols d) c rows); [|discriminate E].
      inversion HP; subst. inversion E; subst. destruct (truthy s); [constructor|]; auto.
  - intros ks d' H. pose proof (sort_view split L ks d) as Hv. rewrite H in Hv. cbn in Hv.
    destruct (sort_flat (cols d) ks (collect d)) as [out|] eqn:E; [|discriminate Hv].
    cbn in Hv. injection Hv as _ Hv. rewrite Hv. apply sort_flat_multi in E. subst out.
    clear - HP. induction ks as [|k ks IH]; cbn [map multi_pass]; [exact HP|].
    eapply Permutation_Forall; [apply Permutation_sym, isort_perm | exact IH].
  - intros n. destruct (limit_prefix split L n d) as [_ ->]. rewrite <- (firstn_skipn n (collect d)) in HP.
    apply Forall_app in HP. tauto.
  - destruct (distinct_spec split L d) as [_ [S _]]. eapply subseq_Forall; eauto.
  - intros ns d' H. destruct (dropDuplicates_spec split L ns d d' H) as [_ [S _]]. eapply subseq_Forall; eauto.
Qed.

(* ====================================================================== sort / orderBy calling conventions *)
(* what DataFrame._sort_cols makes of the `ascending` argument: absent or true -- the keys as given (a key
   with an explicit ordering keeps it); false -- descending, nulls last; a list -- flag by flag *)
Theorem sort_cols_meaning : forall ks,
  sort_cols ks AscAbsent = ks /\ sort_cols ks (AscScalar true) = ks /\
  sort_cols ks (AscScalar false) = map desc_of ks /\
  (forall bs, length bs = length ks -> forall i k, nth_error ks i = Some k ->
     exists b, nth_error bs i = Some b /\
               nth_error (sort_cols ks (AscList bs)) i = Some (if b then k else desc_of k)) /\
  (forall k, fst (desc_of k) = fst k /\ sql_ascending (snd (desc_of k)) = false /\
             sql_nulls_first (snd (desc_of k)) = false /\
             dir_ascending (snd (desc_of k)) = false /\ dir_nulls_smaller (snd (desc_of k)) = true).
Proof.
  intros ks. repeat split.
  intros bs. revert ks. induction bs as [|b bs IH]; intros ks Hl i k Hn.
  - destruct ks; [destruct i; discriminate Hn | discriminate Hl].
  - destruct ks as [|k0 ks]; [discriminate Hl|]. destruct i as [|i]; cbn in Hn |- *.
    + inversion Hn; subst. exists b. split; reflexivity.
    + cbn in Hl. apply (IH ks); [lia | exact Hn].
Qed.

(* ====================================================================== column references are by NAME *)
(* Expressions are values: [eval sch r e] is a function of the schema and the row AT THE STEP WHERE e IS USED.
   In particular a column reference reads the cell at the position its name has in that schema, wherever the
   column was in an earlier frame of the chain -- re-using one expression (object) in several steps, or in both
   operands of a union, cannot make a difference. *)
Lemma positions_absent n : forall sch k, mem_name n sch = false -> positions n sch k = [].
Proof.
  unfold mem_name. induction sch as [|m sch IH]; intros k H; [reflexivity|]. cbn in H |- *.
  apply orb_false_iff in H as [H1 H2]. rewrite H1. apply IH; exact H2.
Qed.

Lemma mem_name_nth n : forall sch i, nth_error sch i = Some n -> mem_name n sch = true.
Proof.
  unfold mem_name. induction sch as [|m sch IH]; intros i H; [destruct i; discriminate H|].
  destruct i as [|i]; cbn in H |- *.
  - inversion H; subst. rewrite name_eqb_refl. reflexivity.
  - rewrite (IH i H). apply orb_true_r.
Qed.

Lemma positions_unique n : forall sch k i,
  nodup_names sch = true -> nth_error sch i = Some n -> positions n sch k = [(k + i)%nat].
Proof.
  induction sch as [|m sch IH]; intros k i Hn Hi; [destruct i; discriminate Hi|].
  cbn in Hn. apply andb_true_iff in Hn as [Hm Hn]. apply negb_true_iff in Hm.
  destruct i as [|i]; cbn in Hi |- *.
  - inversion Hi; subst. rewrite name_eqb_refl, (positions_absent n sch (S k) Hm). f_equal. lia.
  - destruct (name_eqb n m) eqn:E.
    + apply name_eqb_eq in E. subst m. rewrite (mem_name_nth n sch i Hi) in Hm. discriminate Hm.
    + rewrite (IH (S k) i Hn Hi). f_equal. lia.
Qed.

Theorem column_by_name : forall sch r n i,
  nodup_names sch = true -> nth_error sch i = Some n ->
  eval sch r (ECol n) = nth_error r i.
Proof.
  intros sch r n i Hn Hi. cbn [eval]. unfold lookup, find_position.
  rewrite (positions_unique n sch 0 i Hn Hi). reflexivity.
Qed.

(* the same expression in two frames that hold the same named cells in different column orders has the same
   value: stated for a row and its permutation by [reorder_row] (what select / unionByName do) *)
Theorem eval_reordered_column : forall from to r r' n,
  nodup_names from = true -> nodup_names to = true ->
  reorder_row from to r = Some r' -> mem_name n to = true ->
  eval to r' (ECol n) = eval from r (ECol n).
Proof.
  intros from to r r' n Hf Ht Hr Hm. cbn [eval].
  apply existsb_exists in Hm as [m [Hin Hnm]]. apply name_eqb_eq in Hnm. subst m.
  apply In_nth_error in Hin as [i Hi].
  pose proof (column_by_name to r' n i Ht Hi) as E. cbn [eval] in E. rewrite E.
  unfold reorder_row in Hr. clear E Ht Hf.
  revert r' i Hr Hi. induction to as [|m to IH]; intros r' i Hr Hi; [destruct i; discriminate Hi|].
  cbn [map_opt] in Hr. destruct (lookup from r m) as [v|] eqn:Ev; [|discriminate Hr].
  destruct (map_opt (lookup from r) to) as [rest|] eqn:Er; [|discriminate Hr]. inversion Hr; subst.
  destruct i as [|i]; cbn in Hi |- *.
  - inversion Hi; subst. symmetry. exact Ev.
  - apply (IH rest i eq_refl Hi).
Qed.
