(* C08 -- get_codec over the regenerated FILE_ENDINGS table: finite table checks lifted to all paths *)
From Coq Require Import String ZArith NArith List Bool Lia.
Require Import PV.Base.PyArith PV.Base.PyStrOps PV.Gen.Codecs PV.Gen.Parallelize PV.Model.Files.
Require Import PV.Proofs.FilesStr PV.Proofs.FilesText PV.Proofs.Files.
Import ListNotations.
Ltac Zify.zify_post_hook ::= Z.to_euclidean_division_equations.
Open Scope Z_scope.


Definition dot : N := 46%N.

(* ---------- finite checks over the regenerated FILE_ENDINGS table *)
(* every ending contains a dot, no separator, and its part from the last dot on is itself an ending *)
Definition ending_ok (e : str) : bool :=
  (0 <=? rfind_char dot e) && negb (contains_char slash e) &&
  existsb (str_eqb (slice_from (rfind_char dot e) e)) all_endings.
Lemma endings_ok : forallb ending_ok all_endings = true.
Proof. vm_compute. reflexivity. Qed.
(* every class of the table really transforms the stream *)
Lemma classes_ok : forallb (fun ec : list str * string => compressing (codec_of_name (snd ec))) file_endings = true.
Proof. vm_compute. reflexivity. Qed.
(* whenever an ending of an earlier row is a suffix of an ending of a later row the table is rejected:
   the longer ending comes first *)
Fixpoint table_ordered (tbl : list (list str * string)) : bool :=
  match tbl with
  | [] => true
  | x :: r =>
      forallb (fun y : list str * string =>
                 forallb (fun ex => forallb (fun ey => negb (ends_with ey ex)) (fst y)) (fst x)) r
      && table_ordered r
  end.
Lemma file_endings_ordered : table_ordered file_endings = true.
Proof. vm_compute. reflexivity. Qed.

Lemma ending_facts : forall e, In e all_endings ->
  0 <= rfind_char dot e /\ contains_char slash e = false /\ In (slice_from (rfind_char dot e) e) all_endings.
Proof.
  intros e He. pose proof endings_ok as H. rewrite forallb_forall in H. specialize (H e He).
  unfold ending_ok in H. apply andb_prop in H. destruct H as [H H3]. apply andb_prop in H. destruct H as [H1 H2].
  split; [apply Z.leb_le; exact H1|]. split; [apply negb_true_iff; exact H2|].
  apply existsb_exists in H3. destruct H3 as [t [Ht Heq]]. apply str_eqb_eq in Heq. rewrite Heq. exact Ht.
Qed.

Lemma in_all_endings : forall t, In t all_endings <-> exists ec, In ec file_endings /\ In t (fst ec).
Proof. intros t. unfold all_endings. apply in_flat_map. Qed.

(* ---------- get_codec on a path that ends with an ending of the table *)
Lemma guard_suffixed : forall q t, In t all_endings -> get_codec_guard (q ++ t) = false.
Proof.
  intros q t Ht. destruct (ending_facts t Ht) as [Hd [Hs _]].
  unfold get_codec_guard. fold dot. fold slash.
  rewrite contains_app. replace (contains_char dot t) with true by (symmetry; apply rfind_present; exact Hd).
  rewrite orb_true_r. cbn [negb orb].
  rewrite rfind_app_out by (apply rfind_absent; exact Hs).
  rewrite rfind_app_in by exact Hd.
  pose proof (rfind_range slash q). rewrite Z.gtb_ltb. apply Z.ltb_ge. lia.
Qed.

Lemma codec_of_suffixed : forall q t, In t all_endings -> compressing (get_codec (q ++ t)) = true.
Proof.
  intros q t Ht. unfold get_codec, get_codec_name. rewrite guard_suffixed by exact Ht.
  destruct (find _ file_endings) as [ec|] eqn:F.
  - apply find_some in F. destruct F as [Hin _].
    pose proof classes_ok as H. rewrite forallb_forall in H. exact (H ec Hin).
  - exfalso. apply in_all_endings in Ht. destruct Ht as [ec [Hec Hte]].
    pose proof (find_none _ _ F ec Hec) as Hn. cbv beta in Hn.
    assert (existsb (fun e => ends_with (q ++ t) e) (fst ec) = true).
    { apply existsb_exists. exists t. split; [exact Hte|apply ends_with_app]. }
    congruence.
Qed.

Lemma has_codec_ext_suffixed : forall q t, In t all_endings -> has_codec_ext (q ++ t) = true.
Proof. intros q t Ht. unfold has_codec_ext. apply existsb_exists. exists t. split; [exact Ht|apply ends_with_app]. Qed.

Lemma has_codec_ext_split : forall p, has_codec_ext p = true -> exists q e, p = q ++ e /\ In e all_endings.
Proof.
  intros p H. unfold has_codec_ext in H. apply existsb_exists in H. destruct H as [e [He Hend]].
  apply ends_with_spec in Hend. destruct Hend as [q ->]. exists q, e. auto.
Qed.

(* the suffix computed by the savers: path[path.rfind('.'):] is again an ending of the table *)
Lemma suffix_of_ext : forall q e, In e all_endings ->
  text_codec_suffix (q ++ e) = slice_from (rfind_char dot e) e /\ In (text_codec_suffix (q ++ e)) all_endings.
Proof.
  intros q e He. destruct (ending_facts e He) as [Hd [_ Ht]].
  assert (E : text_codec_suffix (q ++ e) = slice_from (rfind_char dot e) e).
  { unfold text_codec_suffix. fold all_endings. fold (has_codec_ext (q ++ e)).
    rewrite has_codec_ext_suffixed by exact He. fold dot.
    rewrite rfind_app_in by exact Hd. apply slice_from_app_plus.
    pose proof (rfind_range dot e). lia. }
  rewrite E. auto.
Qed.
Lemma pickle_suffix_same : forall p, pickle_codec_suffix p = text_codec_suffix p.
Proof. reflexivity. Qed.

Lemma path_join_pre : forall p b, starts_with b [slash] = false -> exists pre, path_join p b = pre ++ b.
Proof.
  intros p b Hb. unfold path_join. fold slash. rewrite Hb. destruct p as [|c p]; [exists []; reflexivity|].
  destruct (ends_with (c :: p) [slash]).
  - exists (c :: p). reflexivity.
  - exists ((c :: p) ++ [slash]). rewrite <- app_assoc. reflexivity.
Qed.

(* every data file of a save to a path with a codec extension has a codec extension, and get_codec
   gives it a class that really compresses *)
Theorem data_names_compressed : forall {A} (p : path) (parts : list (list A)) n,
  has_codec_ext p = true -> In n (data_names text_codec_suffix p parts) ->
  has_codec_ext n = true /\ compressing (get_codec n) = true.
Proof.
  intros A p parts n Hp Hn. destruct (has_codec_ext_split p Hp) as [q [e [-> He]]].
  unfold data_names in Hn. destruct (length parts =? 1)%nat.
  - destruct Hn as [<-|[]]. split; [apply has_codec_ext_suffixed|apply codec_of_suffixed]; exact He.
  - apply in_map_iff in Hn. destruct Hn as [i [<- _]].
    destruct (suffix_of_ext q e He) as [_ Ht].
    destruct (path_join_pre (q ++ e) (std_part_name i (text_codec_suffix (q ++ e))) (std_part_name_noslash _ _))
      as [pre ->].
    unfold std_part_name. rewrite !app_assoc.
    split; [apply has_codec_ext_suffixed|apply codec_of_suffixed]; exact Ht.
Qed.

Lemma enc_compressing : forall compress c b, compressing c = true -> enc compress c b = compress c b.
Proof. intros compress c b H. unfold enc. destruct c; try discriminate; reflexivity. Qed.

(* ---------- first match = longest match *)
Lemma first_match_longest : forall tbl, table_ordered tbl = true ->
  forall pth ends cls e, In (ends, cls) tbl -> In e ends -> ends_with pth e = true ->
  (forall ec e', In ec tbl -> In e' (fst ec) -> ends_with pth e' = true -> (length e' <= length e)%nat) ->
  exists ec, find (fun ec : list str * string => existsb (fun e => ends_with pth e) (fst ec)) tbl = Some ec /\ snd ec = cls.
Proof.
  induction tbl as [|x tbl IH]; intros Hord pth ends cls e Hin He Hend Hlong; [contradiction|].
  cbn [table_ordered] in Hord. apply andb_prop in Hord. destruct Hord as [Hx Hord].
  cbn [find]. destruct (existsb (fun e0 => ends_with pth e0) (fst x)) eqn:Ex.
  - destruct Hin as [->|Hin]; [exists (ends, cls); auto|].
    exfalso. apply existsb_exists in Ex. destruct Ex as [ex [Hex Hendx]].
    assert (Hlen : (length ex <= length e)%nat) by (apply (Hlong x ex); [left; reflexivity|assumption|assumption]).
    pose proof (suffix_of_suffix pth ex e Hendx Hend Hlen) as Hsuf.
    rewrite forallb_forall in Hx. specialize (Hx (ends, cls) Hin). cbn [fst] in Hx.
    rewrite forallb_forall in Hx. specialize (Hx ex Hex).
    rewrite forallb_forall in Hx. specialize (Hx e He).
    rewrite Hsuf in Hx. discriminate.
  - destruct Hin as [->|Hin].
    + exfalso. cbn [fst] in Ex.
      assert (existsb (fun e0 => ends_with pth e0) ends = true) by (apply existsb_exists; exists e; auto).
      congruence.
    + apply (IH Hord pth ends cls e Hin He Hend).
      intros ec e' Hec. apply Hlong. right. exact Hec.
Qed.

(* get_codec returns the class of the LONGEST ending of the table that the path ends with *)
Theorem codec_longest_suffix : forall pth ends cls e,
  get_codec_guard pth = false ->
  In (ends, cls) file_endings -> In e ends -> ends_with pth e = true ->
  (forall e', In e' all_endings -> ends_with pth e' = true -> (length e' <= length e)%nat) ->
  get_codec_name pth = cls.
Proof.
  intros pth ends cls e Hg Hin He Hend Hlong. unfold get_codec_name. rewrite Hg.
  destruct (first_match_longest file_endings file_endings_ordered pth ends cls e Hin He Hend) as [ec [Hf Hc]].
  - intros ec e' Hec He'. apply Hlong. apply in_all_endings. exists ec. auto.
  - rewrite Hf. exact Hc.
Qed.

(* an ending that is not a proper suffix of another ending decides the class, whatever precedes it *)
Definition maximal_ending (t : str) : bool :=
  forallb (fun e' => negb (ends_with e' t) || (length e' <=? length t)%nat) all_endings.

Theorem codec_of_maximal_ending : forall q ends cls t,
  In (ends, cls) file_endings -> In t ends -> maximal_ending t = true ->
  get_codec_name (q ++ t) = cls.
Proof.
  intros q ends cls t Hin Ht Hmax.
  assert (Hta : In t all_endings) by (apply in_all_endings; exists (ends, cls); auto).
  apply (codec_longest_suffix (q ++ t) ends cls t); try assumption.
  - apply guard_suffixed. exact Hta.
  - apply ends_with_app.
  - intros e' He' Hend. destruct (Nat.le_gt_cases (length e') (length t)) as [L|L]; [exact L|].
    assert (Hsuf : ends_with e' t = true).
    { apply (suffix_of_suffix (q ++ t)); [apply ends_with_app|exact Hend|lia]. }
    unfold maximal_ending in Hmax. rewrite forallb_forall in Hmax. specialize (Hmax e' He').
    rewrite Hsuf in Hmax. cbn [negb orb] in Hmax. apply Nat.leb_le in Hmax. exact Hmax.
Qed.

Definition ext_tar_gz : str := [46; 116; 97; 114; 46; 103; 122]%N.
Definition ext_tar_bz2 : str := [46; 116; 97; 114; 46; 98; 122; 50]%N.

(* x.tar.gz is never read as plain gzip, x.tar.bz2 never as plain bzip2 *)
Theorem tar_gz_not_gzip : forall q, get_codec (q ++ ext_tar_gz) = CTarGz /\ get_codec (q ++ ext_tar_bz2) = CTarBz2.
Proof.
  intros q. unfold get_codec. split.
  - rewrite (codec_of_maximal_ending q [ext_tar_gz] "TarGz" ext_tar_gz); [reflexivity| |left; reflexivity|vm_compute; reflexivity].
    cbv. tauto.
  - rewrite (codec_of_maximal_ending q [ext_tar_bz2] "TarBz2" ext_tar_bz2); [reflexivity| |left; reflexivity|vm_compute; reflexivity].
    cbv. tauto.
Qed.
