(* Lemmas about the expression model: the class-dispatching evaluator agrees with the typed SQL reference. *)
From Coq Require Import ZArith NArith Bool String List Lia.
From Coq Require Import PrimFloat.
Require Import PV.Base.Num PV.Gen.SqlTables PV.Model.SqlExpr.
Import ListNotations.
Open Scope Z_scope.

(* ---------- induction principle for the nested type expr *)
Section ExprInd.
  Variable P : expr -> Prop.
  Hypothesis HCol : forall n, P (ECol n).
  Hypothesis HLit : forall v, P (ELit v).
  Hypothesis HNeg : forall e, P e -> P (ENeg e).
  Hypothesis HArith : forall o a b, P a -> P b -> P (EArith o a b).
  Hypothesis HCmp : forall o a b, P a -> P b -> P (ECmp o a b).
  Hypothesis HAnd : forall a b, P a -> P b -> P (EAnd a b).
  Hypothesis HOr : forall a b, P a -> P b -> P (EOr a b).
  Hypothesis HNot : forall e, P e -> P (ENot e).
  Hypothesis HIsNull : forall e, P e -> P (EIsNull e).
  Hypothesis HIsNotNull : forall e, P e -> P (EIsNotNull e).
  Hypothesis HCoalesce : forall es, Forall P es -> P (ECoalesce es).
  Hypothesis HCase : forall bs d, Forall (fun p => P (fst p) /\ P (snd p)) bs ->
                                  match d with Some x => P x | None => True end -> P (ECase bs d).
  Hypothesis HAlias : forall e n, P e -> P (EAlias e n).

  Fixpoint expr_ind' (e : expr) : P e :=
    match e with
    | ECol n => HCol n
    | ELit v => HLit v
    | ENeg e => HNeg e (expr_ind' e)
    | EArith o a b => HArith o a b (expr_ind' a) (expr_ind' b)
    | ECmp o a b => HCmp o a b (expr_ind' a) (expr_ind' b)
    | EAnd a b => HAnd a b (expr_ind' a) (expr_ind' b)
    | EOr a b => HOr a b (expr_ind' a) (expr_ind' b)
    | ENot e => HNot e (expr_ind' e)
    | EIsNull e => HIsNull e (expr_ind' e)
    | EIsNotNull e => HIsNotNull e (expr_ind' e)
    | ECoalesce es =>
        HCoalesce es ((fix go (l : list expr) : Forall P l :=
                         match l with
                         | [] => Forall_nil P
                         | x :: l' => Forall_cons x (expr_ind' x) (go l')
                         end) es)
    | ECase bs d =>
        let go := (fix go (l : list (expr * expr)) : Forall (fun p => P (fst p) /\ P (snd p)) l :=
              match l with
              | [] => Forall_nil _
              | (c, v) :: l' => Forall_cons (c, v) (conj (expr_ind' c) (expr_ind' v)) (go l')
              end) in
        match d with
        | Some x => HCase bs (Some x) (go bs) (expr_ind' x)
        | None => HCase bs None (go bs) I
        end
    | EAlias e n => HAlias e n (expr_ind' e)
    end.
End ExprInd.

(* ---------- value-level lemmas *)
Lemma ty_eqb_eq a b : ty_eqb a b = true <-> a = b.
Proof. destruct a, b; simpl; split; intros H; try discriminate; auto. Qed.

Lemma has_ty_null t : v_has_ty SNull t = true.
Proof. reflexivity. Qed.

Lemma type_index_int : type_index "int" = Some 0%nat. Proof. reflexivity. Qed.
Lemma type_index_float : type_index "float" = Some 1%nat. Proof. reflexivity. Qed.

Lemma cmp_ok o v1 v2 t1 t2 :
  v_has_ty v1 t1 = true -> v_has_ty v2 t2 = true -> comparable t1 t2 = true ->
  typesafe (py_cmp o) v1 v2 = Some (sql_cmp o v1 v2) /\ v_has_ty (sql_cmp o v1 v2) TBool = true.
Proof.
  intros H1 H2 Hc.
  destruct t1, t2; try discriminate Hc;
    destruct v1; try discriminate H1; destruct v2; try discriminate H2; split; reflexivity.
Qed.

Lemma arith_ok o v1 v2 t1 t2 t :
  v_has_ty v1 t1 = true -> v_has_ty v2 t2 = true -> ty_arith false o t1 t2 = Some t ->
  eval_arith o v1 v2 = Some (sql_arith o v1 v2) /\ v_has_ty (sql_arith o v1 v2) t = true.
Proof.
  intros H1 H2 Ht.
  destruct t1, t2; try discriminate Ht;
    destruct v1; try discriminate H1; destruct v2; try discriminate H2;
    destruct o; simpl in Ht; try discriminate Ht; inversion Ht; subst;
    unfold eval_arith, sql_arith; cbn;
    repeat match goal with |- context [if ?c then _ else _] => destruct c end; split; reflexivity.
Qed.

Lemma and_ok v1 v2 :
  v_has_ty v1 TBool = true -> v_has_ty v2 TBool = true ->
  eval_and v1 v2 = Some (tv_val (tv_and (tv_of v1) (tv_of v2))) /\
  v_has_ty (tv_val (tv_and (tv_of v1) (tv_of v2))) TBool = true.
Proof.
  intros H1 H2. destruct v1 as [| | | |[|]]; try discriminate H1;
    destruct v2 as [| | | |[|]]; try discriminate H2; split; reflexivity.
Qed.

Lemma or_ok v1 v2 :
  v_has_ty v1 TBool = true -> v_has_ty v2 TBool = true ->
  eval_or v1 v2 = Some (tv_val (tv_or (tv_of v1) (tv_of v2))) /\
  v_has_ty (tv_val (tv_or (tv_of v1) (tv_of v2))) TBool = true.
Proof.
  intros H1 H2. destruct v1 as [| | | |[|]]; try discriminate H1;
    destruct v2 as [| | | |[|]]; try discriminate H2; split; reflexivity.
Qed.

Lemma not_ok v :
  v_has_ty v TBool = true ->
  eval_not v = tv_val (tv_not (tv_of v)) /\ v_has_ty (tv_val (tv_not (tv_of v))) TBool = true.
Proof. intros H. destruct v as [| | | |[|]]; try discriminate H; split; reflexivity. Qed.

Lemma neg_ok v t :
  numeric t = true -> v_has_ty v t = true ->
  eval_neg v = Some (sql_neg v) /\ v_has_ty (sql_neg v) t = true.
Proof. intros Hn H. destruct t; try discriminate Hn; destruct v; try discriminate H; split; reflexivity. Qed.

Lemma tv_val_bool x : v_has_ty (tv_val x) TBool = true.
Proof. destruct x; reflexivity. Qed.

(* ---------- column lookup in a typed row *)
Lemma row_ok_nth G : forall r i m t,
  row_ok G r = true -> nth_error G i = Some (m, t) ->
  exists v, nth_error r i = Some v /\ v_has_ty v t = true.
Proof.
  induction G as [|[m0 t0] G IH]; intros r i m t Hr Hn.
  - destruct i; discriminate Hn.
  - destruct r as [|v r]; [discriminate Hr|]. simpl in Hr. apply andb_true_iff in Hr as [Hv Hr].
    destruct i as [|i]; simpl in Hn |- *.
    + inversion Hn; subst. exists v; auto.
    + eapply IH; eauto.
Qed.

Lemma lookup_typed G r n t :
  lookup_ty G n = Some t -> row_ok G r = true ->
  exists v, lookup (map fst G) r n = Some v /\ v_has_ty v t = true.
Proof.
  unfold lookup_ty, lookup. intros Hl Hr.
  destruct (find_position (map fst G) n) as [i|]; [|discriminate Hl].
  destruct (nth_error G i) as [[m t']|] eqn:Hn; [|discriminate Hl].
  simpl in Hl. inversion Hl; subst. eapply row_ok_nth; eauto.
Qed.

Lemma existsb2 (f : ty -> ty -> bool) :
  existsb (fun t1 => existsb (fun t2 => f t1 t2) all_ty) all_ty = true ->
  exists t1 t2, f t1 t2 = true.
Proof.
  intros H. apply existsb_exists in H as [t1 [_ H]]. apply existsb_exists in H as [t2 [_ H]]. eauto.
Qed.

(* ---------- the evaluator agrees with the SQL reference on well-typed expressions (any [am]) *)
Section EvalSql.
Variable G : tenv.
Variable r : row.
Hypothesis Hr : row_ok G r = true.
Let sch := map fst G.

Definition agrees (am : bool) (e : expr) : Prop :=
  forall t, wt am G e t = true ->
    eval sch r e = Some (sql_eval sch r e) /\ v_has_ty (sql_eval sch r e) t = true.

Lemma eval_sql_nomod : forall e, agrees false e.
Proof.
  induction e using expr_ind'; intros t Hwt; cbn [wt] in Hwt; cbn [eval sql_eval].
  - (* ECol *)
    destruct (lookup_ty G n) as [t'|] eqn:Hl; [|discriminate Hwt]. simpl in Hwt.
    apply ty_eqb_eq in Hwt; subst t'.
    destruct (lookup_typed _ _ _ _ Hl Hr) as [v [Hv Ht]]. fold sch in Hv. rewrite Hv. auto.
  - (* ELit *) auto.
  - (* ENeg *)
    apply andb_true_iff in Hwt as [Hn Hw]. destruct (IHe _ Hw) as [He Ht]. rewrite He.
    apply neg_ok; auto.
  - (* EArith *)
    apply existsb2 in Hwt as [t1 [t2 Hw]].
    apply andb_true_iff in Hw as [Hw Hty]. apply andb_true_iff in Hw as [Ha Hb].
    destruct (IHe1 _ Ha) as [E1 T1]. destruct (IHe2 _ Hb) as [E2 T2]. rewrite E1, E2.
    destruct (ty_arith false o t1 t2) as [t'|] eqn:Har; [|discriminate Hty]. simpl in Hty.
    apply ty_eqb_eq in Hty; subst t'. eapply arith_ok; eauto.
  - (* ECmp *)
    apply andb_true_iff in Hwt as [Htb Hw]. apply ty_eqb_eq in Htb; subst t.
    apply existsb2 in Hw as [t1 [t2 Hw]].
    apply andb_true_iff in Hw as [Hw Hc]. apply andb_true_iff in Hw as [Ha Hb].
    destruct (IHe1 _ Ha) as [E1 T1]. destruct (IHe2 _ Hb) as [E2 T2]. rewrite E1, E2.
    eapply cmp_ok; eauto.
  - (* EAnd *)
    apply andb_true_iff in Hwt as [Hw Hb]. apply andb_true_iff in Hw as [Htb Ha].
    apply ty_eqb_eq in Htb; subst t.
    destruct (IHe1 _ Ha) as [E1 T1]. destruct (IHe2 _ Hb) as [E2 T2]. rewrite E1, E2.
    apply and_ok; auto.
  - (* EOr *)
    apply andb_true_iff in Hwt as [Hw Hb]. apply andb_true_iff in Hw as [Htb Ha].
    apply ty_eqb_eq in Htb; subst t.
    destruct (IHe1 _ Ha) as [E1 T1]. destruct (IHe2 _ Hb) as [E2 T2]. rewrite E1, E2.
    apply or_ok; auto.
  - (* ENot *)
    apply andb_true_iff in Hwt as [Htb Ha]. apply ty_eqb_eq in Htb; subst t.
    destruct (IHe _ Ha) as [E1 T1]. rewrite E1. destruct (not_ok _ T1) as [N1 N2]. rewrite N1. auto.
  - (* EIsNull *)
    apply andb_true_iff in Hwt as [Htb Ha]. apply ty_eqb_eq in Htb; subst t.
    apply existsb_exists in Ha as [t1 [_ Ha]]. destruct (IHe _ Ha) as [E1 _]. rewrite E1. auto.
  - (* EIsNotNull *)
    apply andb_true_iff in Hwt as [Htb Ha]. apply ty_eqb_eq in Htb; subst t.
    apply existsb_exists in Ha as [t1 [_ Ha]]. destruct (IHe _ Ha) as [E1 _]. rewrite E1. auto.
  - (* ECoalesce *)
    induction es as [|x es IHes]; [auto|].
    inversion H as [|? ? Hx Hes]; subst.
    apply andb_true_iff in Hwt as [Hwx Hwes].
    destruct (Hx _ Hwx) as [E1 T1]. rewrite E1. cbn [map first_non_null].
    destruct (sql_eval sch r x) eqn:Ev; auto.
  - (* ECase *)
    induction bs as [|[c v] bs IHbs].
    + destruct d as [x|]; [apply H0; exact Hwt | auto].
    + inversion H as [|? ? [Hc Hv] Hbs]; subst. simpl in Hc, Hv.
      apply andb_true_iff in Hwt as [Hw Hrest]. apply andb_true_iff in Hw as [Hwc Hwv].
      destruct (Hc _ Hwc) as [Ec Tc]. rewrite Ec.
      destruct (sql_eval sch r c) as [| | | |[|]] eqn:Evc; try discriminate Tc; cbn [truthy tv_of]; auto.
  - (* EAlias *) apply IHe; auto.
Qed.
End EvalSql.

Theorem eval_sql_typed : forall G r e t,
  row_ok G r = true -> wt false G e t = true ->
  eval (map fst G) r e = Some (sql_eval (map fst G) r e) /\
  v_has_ty (sql_eval (map fst G) r e) t = true.
Proof. intros G r e t Hr Hw. exact (eval_sql_nomod G r Hr e t Hw). Qed.

(* ---------- x / 0 = NULL, null propagation *)
Definition is_zero (v : sval) : bool :=
  match v with SInt z => z =? 0 | SDbl f => PrimFloat.eqb f PrimFloat.zero | _ => false end.

Lemma div_zero_val v1 v2 t1 :
  numeric t1 = true -> v_has_ty v1 t1 = true -> is_zero v2 = true -> eval_arith ADiv v1 v2 = Some SNull.
Proof.
  intros Hn H1 Hz. destruct t1; try discriminate Hn; destruct v1; try discriminate H1;
    destruct v2; try discriminate Hz; cbn in Hz |- *; try rewrite Hz; try reflexivity.
  all: apply Z.eqb_eq in Hz; subst; reflexivity.
Qed.

Theorem div_zero_null : forall G r a b t1 t2,
  row_ok G r = true -> wt false G a t1 = true -> wt false G b t2 = true -> numeric t1 = true ->
  is_zero (sql_eval (map fst G) r b) = true ->
  eval (map fst G) r (EArith ADiv a b) = Some SNull.
Proof.
  intros G r a b t1 t2 Hr Ha Hb Hn Hz. cbn [eval].
  destruct (eval_sql_typed G r a t1 Hr Ha) as [Ea Ta]. destruct (eval_sql_typed G r b t2 Hr Hb) as [Eb _].
  rewrite Ea, Eb. eapply div_zero_val; eauto.
Qed.

Theorem null_propagates : forall sch r a b v1 v2,
  eval sch r a = Some v1 -> eval sch r b = Some v2 -> v1 = SNull \/ v2 = SNull ->
  (forall o, eval sch r (EArith o a b) = Some SNull) /\ (forall o, eval sch r (ECmp o a b) = Some SNull).
Proof.
  intros sch r a b v1 v2 Ea Eb Hn. split; intros o; cbn [eval]; rewrite Ea, Eb.
  - destruct Hn; subst; [reflexivity|]. unfold eval_arith. destruct v1; reflexivity.
  - destruct Hn; subst; [reflexivity|]. unfold typesafe. destruct (cls_name v1); reflexivity.
Qed.

Theorem neg_null : forall sch r a, eval sch r a = Some SNull -> eval sch r (ENeg a) = Some SNull.
Proof. intros sch r a Ea. cbn [eval]. rewrite Ea. reflexivity. Qed.

(* ---------- % : Python's floor modulo agrees with SQL's remainder only on non-negative operands *)
Lemma mod_nonneg_agree a b :
  0 <= a -> 0 < b -> eval_arith AMod (SInt a) (SInt b) = Some (sql_arith AMod (SInt a) (SInt b)).
Proof.
  intros Ha Hb. cbn. destruct (b =? 0) eqn:E; [apply Z.eqb_eq in E; lia|].
  rewrite Z.rem_mod_nonneg; auto.
Qed.

Definition eval_sql_with_mod : Prop :=
  forall G r e t, row_ok G r = true -> wt true G e t = true ->
    eval (map fst G) r e = Some (sql_eval (map fst G) r e) /\ v_has_ty (sql_eval (map fst G) r e) t = true.

Lemma eval_sql_with_mod_false : ~ eval_sql_with_mod.
Proof.
  intros H. specialize (H [] [] (EArith AMod (ELit (SInt (-7))) (ELit (SInt 3))) TInt eq_refl eq_refl).
  destruct H as [H _]. vm_compute in H. discriminate H.
Qed.
